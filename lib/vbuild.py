"""Build flavours of the library and the harnesses from $VERIF_REPO (default /repo).

Objects are cached under /verif/build/<flavour>/ keyed by a hash of the source
bytes, every header under src/ and inc/, and the flags; a changed file is always
recompiled.  An flock serialises concurrent builds of one flavour.
"""
import os, sys, glob, hashlib, subprocess, fcntl, shutil, json
from concurrent.futures import ThreadPoolExecutor

HERE = os.path.dirname(os.path.dirname(os.path.abspath(__file__)))
REPO = os.environ.get('VERIF_REPO', '/repo')
if os.environ.get('VERIF_BUILD'):
    BUILD = os.environ['VERIF_BUILD']
elif os.path.realpath(REPO) == '/repo':
    BUILD = os.path.join(HERE, 'build')
else:
    # scratch copies of the repository (monitor validation) get their own object cache
    BUILD = os.path.join(HERE, 'build', '_alt', hashlib.sha1(os.path.realpath(REPO).encode()).hexdigest()[:10])
HARNESS = os.path.join(HERE, 'harness')
JOBS = int(os.environ.get('VERIF_JOBS', '16'))

COMMON = ['-DBR_SLOW_MUL15=1', '-DBR_LE_UNALIGNED=0', '-DBR_BE_UNALIGNED=0', '-DBR_VERIF']
COMMON_NOMUL = [f for f in COMMON if not f.startswith('-DBR_SLOW_MUL15')]
SAN = ['-fsanitize=address,undefined', '-fno-sanitize-recover=all']
NOSEED = ['-DBR_USE_GETENTROPY=0', '-DBR_USE_URANDOM=0', '-DBR_RDRAND=0',
          '-DBR_USE_WIN32_RAND=0', '-DBR_USE_ESP8266_RAND=0', '-DBR_USE_PICO_RAND=0']

FLAVOURS = {
    'asan': dict(cc='gcc', cflags=['-O1', '-g', '-fno-omit-frame-pointer'] + SAN + COMMON,
                 ldflags=SAN),
    'noseed': dict(cc='gcc', cflags=['-O1', '-g', '-fno-omit-frame-pointer'] + SAN + COMMON + NOSEED,
                   ldflags=SAN),
    # system seeders reachable (no RDRAND): getentropy with /dev/urandom fallback, /dev/urandom alone
    'sys-ge': dict(cc='gcc', cflags=['-O1', '-g', '-fno-omit-frame-pointer'] + SAN + COMMON + ['-DBR_RDRAND=0'],
                   ldflags=SAN),
    'sys-ur': dict(cc='gcc', cflags=['-O1', '-g', '-fno-omit-frame-pointer'] + SAN + COMMON + ['-DBR_RDRAND=0', '-DBR_USE_GETENTROPY=0'],
                   ldflags=SAN),
    'fuzz': dict(cc='clang-14',
                 cflags=['-O1', '-g', '-fno-omit-frame-pointer',
                         '-fsanitize=fuzzer-no-link,address,undefined',
                         '-fno-sanitize-recover=all'] + COMMON,
                 ldflags=['-fsanitize=fuzzer,address,undefined']),
    'msan': dict(cc='clang-14',
                 cflags=['-O1', '-g', '-fno-omit-frame-pointer', '-fsanitize=fuzzer-no-link,memory',
                         '-fsanitize-memory-track-origins'] + COMMON,
                 ldflags=['-fsanitize=fuzzer,memory']),
    'ct-O0': dict(cc='gcc', cflags=['-O0', '-g', '-DBR_VERIF_VALGRIND'] + COMMON, ldflags=[]),
    'ct-Os': dict(cc='gcc', cflags=['-Os', '-g', '-DBR_VERIF_VALGRIND'] + COMMON, ldflags=[]),
    'ct-O2': dict(cc='gcc', cflags=['-O2', '-g', '-DBR_VERIF_VALGRIND'] + COMMON, ldflags=[]),
    'plain': dict(cc='gcc', cflags=['-O2', '-g'] + COMMON, ldflags=[]),
    # the arithmetic configurations other ports of this tree compile (config.h), under the same sanitizers:
    # native 15x15 multiplications; a 32-bit-only target with slow, low-half multiplier; constant-time
    # multiplication macros with the portable arithmetic shift
    'alt-mul15': dict(cc='gcc', cflags=['-O1', '-g', '-fno-omit-frame-pointer'] + SAN + COMMON_NOMUL + ['-DBR_SLOW_MUL15=0'],
                      ldflags=SAN),
    'alt-32': dict(cc='gcc', cflags=['-O1', '-g', '-fno-omit-frame-pointer'] + SAN + COMMON +
                   ['-DBR_64=0', '-DBR_INT128=0', '-DBR_UMUL128=0', '-DBR_LOMUL=1', '-DBR_SLOW_MUL=1'], ldflags=SAN),
    'alt-ctmul': dict(cc='gcc', cflags=['-O1', '-g', '-fno-omit-frame-pointer'] + SAN + COMMON +
                      ['-DBR_NO_ARITH_SHIFT=1', '-DBR_CT_MUL31=1', '-DBR_CT_MUL15=1'], ldflags=SAN),
    # what conf/Unix.mk and the ESP8266 port ship: -Os, no instrumentation (oracles only)
    # (unaligned little/big-endian accesses as autodetected: inner.h then uses the direct loads and stores and the
    #  memcpy forms of br_range_dec/enc: code no sanitizer flavour compiles, because UBSan flags the casts)
    'os': dict(cc='gcc', cflags=['-Os', '-g'] + [f for f in COMMON if 'UNALIGNED' not in f], ldflags=[]),
}


if os.environ.get('VERIF_COV'):
    # line-coverage survey of the workloads (tools/coverage.py): gcc flavours only
    for _f in ('asan', 'noseed', 'plain', 'sys-ge', 'sys-ur', 'alt-mul15', 'alt-32', 'alt-ctmul', 'os'):
        FLAVOURS[_f]['cflags'] = FLAVOURS[_f]['cflags'] + ['--coverage']
        FLAVOURS[_f]['ldflags'] = FLAVOURS[_f]['ldflags'] + ['--coverage']


def sha(*parts):
    h = hashlib.sha1()
    for p in parts:
        if isinstance(p, str):
            p = p.encode()
        h.update(p)
        h.update(b'\0')
    return h.hexdigest()


def _read(p):
    with open(p, 'rb') as f:
        return f.read()


def header_hash(repo):
    h = hashlib.sha1()
    hs = sorted(glob.glob(os.path.join(repo, 'src', '**', '*.h'), recursive=True) +
                glob.glob(os.path.join(repo, 'inc', '*.h')))
    for p in hs:
        h.update(os.path.relpath(p, repo).encode())
        h.update(_read(p))
    return h.hexdigest()


def sources(repo):
    return sorted(glob.glob(os.path.join(repo, 'src', '*.c')) +
                  glob.glob(os.path.join(repo, 'src', '*', '*.c')))


class BuildError(Exception):
    pass


def _compile(cc, flags, src, obj):
    r = subprocess.run([cc] + flags + ['-c', src, '-o', obj],
                       stdout=subprocess.PIPE, stderr=subprocess.STDOUT)
    if r.returncode != 0:
        raise BuildError('compile failed: %s\n%s' % (src, r.stdout.decode(errors='replace')[-4000:]))


def lib(flavour, repo=None):
    """Build (incrementally) libbearssl.a for the flavour; returns (path, hash)."""
    repo = repo or REPO
    fl = FLAVOURS[flavour]
    d = os.path.join(BUILD, flavour)
    os.makedirs(os.path.join(d, 'obj'), exist_ok=True)
    with open(os.path.join(d, '.lock'), 'w') as lk:
        fcntl.flock(lk, fcntl.LOCK_EX)
        hh = header_hash(repo)
        flags = fl['cflags'] + ['-I' + os.path.join(repo, 'src'), '-I' + os.path.join(repo, 'inc')]
        flagkey = sha(fl['cc'], ' '.join(fl['cflags']))
        todo = []
        objs = []
        keys = []
        for s in sources(repo):
            rel = os.path.relpath(s, repo)
            name = rel.replace('/', '__')[:-2]
            obj = os.path.join(d, 'obj', name + '.o')
            keyf = obj + '.key'
            key = sha(flagkey, hh, rel, _read(s))
            keys.append(key)
            objs.append(obj)
            old = _read(keyf).decode() if os.path.exists(keyf) and os.path.exists(obj) else ''
            if old != key:
                todo.append((s, obj, keyf, key))
        # remove stale objects (deleted sources)
        want = set(objs)
        for o in glob.glob(os.path.join(d, 'obj', '*.o')):
            if o not in want:
                os.unlink(o)
                if os.path.exists(o + '.key'):
                    os.unlink(o + '.key')
        if todo:
            def job(t):
                s, obj, keyf, key = t
                if os.path.exists(keyf):
                    os.unlink(keyf)
                _compile(fl['cc'], flags, s, obj)
                with open(keyf, 'w') as f:
                    f.write(key)
            with ThreadPoolExecutor(JOBS) as ex:
                list(ex.map(job, todo))
        libhash = sha(*keys)
        libp = os.path.join(d, 'libbearssl.a')
        hp = libp + '.key'
        if not (os.path.exists(libp) and os.path.exists(hp) and _read(hp).decode() == libhash):
            if os.path.exists(libp):
                os.unlink(libp)
            r = subprocess.run(['ar', 'rcs', libp] + objs, stdout=subprocess.PIPE, stderr=subprocess.STDOUT)
            if r.returncode != 0:
                raise BuildError('ar failed: ' + r.stdout.decode(errors='replace'))
            with open(hp, 'w') as f:
                f.write(libhash)
        return libp, libhash


def harness_hash():
    h = hashlib.sha1()
    for p in sorted(glob.glob(os.path.join(HARNESS, '*.h'))):
        h.update(_read(p))
    return h.hexdigest()


def harness(flavour, name, libs=(), extra_cflags=(), repo=None, extra_src=()):
    """Build harness/<name>.c against the flavour's library; returns binary path."""
    repo = repo or REPO
    libp, libhash = lib(flavour, repo)
    fl = FLAVOURS[flavour]
    d = os.path.join(BUILD, flavour, 'bin')
    os.makedirs(d, exist_ok=True)
    src = os.path.join(HARNESS, name + '.c')
    srcs = [src] + [os.path.join(HARNESS, s) for s in extra_src]
    out = os.path.join(d, name)
    with open(os.path.join(BUILD, flavour, '.lock-' + name), 'w') as lk:
        fcntl.flock(lk, fcntl.LOCK_EX)
        key = sha(libhash, harness_hash(), *[_read(s) for s in srcs],
                  ' '.join(fl['cflags']), ' '.join(extra_cflags), ' '.join(libs))
        keyf = out + '.key'
        if os.path.exists(out) and os.path.exists(keyf) and _read(keyf).decode() == key:
            return out
        if os.path.exists(keyf):
            os.unlink(keyf)
        cmd = ([fl['cc']] + fl['cflags'] + list(extra_cflags) +
               ['-I' + os.path.join(repo, 'src'), '-I' + os.path.join(repo, 'inc'), '-I' + HARNESS,
                '-I/usr/include/x86_64-linux-gnu'] +
               srcs + ['-o', out, libp] + fl['ldflags'] + list(libs))
        r = subprocess.run(cmd, stdout=subprocess.PIPE, stderr=subprocess.STDOUT)
        if r.returncode != 0:
            raise BuildError('harness build failed: %s\n%s' % (name, r.stdout.decode(errors='replace')[-6000:]))
        with open(keyf, 'w') as f:
            f.write(key)
        return out


def setup():
    """Verify tools; nothing here depends on /repo's contents."""
    ok = True
    for t in ['gcc', 'clang-14', 'ar', 'valgrind', 'python3']:
        if shutil.which(t) is None:
            print('missing tool: %s' % t)
            ok = False
    for hdr in ['/usr/include/openssl/ssl.h', '/usr/include/x86_64-linux-gnu/gmp.h',
                '/usr/include/valgrind/memcheck.h']:
        if not os.path.exists(hdr):
            print('missing header: %s' % hdr)
            ok = False
    os.makedirs(BUILD, exist_ok=True)
    os.makedirs(os.path.join(HERE, 'evidence'), exist_ok=True)
    os.makedirs(os.path.join(HERE, 'replay'), exist_ok=True)
    print('setup %s' % ('ok' if ok else 'FAILED'))
    return 0 if ok else 2
