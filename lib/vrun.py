"""Job runner, protocol parser, sanitizer-report classifier, known-findings
matching, evidence and replay files."""
import os, sys, json, time, re, subprocess, hashlib, fnmatch, tempfile, shutil
from concurrent.futures import ThreadPoolExecutor
import vbuild

HERE = vbuild.HERE
EVID = os.path.join(HERE, 'evidence')
# evidence registered under /verif/evidence always describes /repo itself; a run
# against another tree (VERIF_REPO, used to try seeded changes) writes elsewhere
if os.path.realpath(os.environ.get('VERIF_REPO', '/repo')) != os.path.realpath('/repo') or os.environ.get('VERIF_COV'):
    EVID = os.path.join(HERE, 'build', '_alt_evidence')
if os.environ.get('VERIF_EVIDENCE_DIR'):
    EVID = os.environ['VERIF_EVIDENCE_DIR']      # soak runs at other seeds keep the registered evidence untouched
REPLAY = os.path.join(HERE, 'replay')

SAN_ENV = {
    'ASAN_OPTIONS': 'abort_on_error=1:detect_leaks=0:allocator_may_return_null=1:handle_abort=0:detect_stack_use_after_return=0',
    'UBSAN_OPTIONS': 'print_stacktrace=1:halt_on_error=1',
    'MSAN_OPTIONS': 'abort_on_error=1',
}


class Inconclusive(Exception):
    pass


class Job:
    def __init__(self, name, harness, args=(), flavour='asan', libs=(), env=None,
                 timeout=900, wrapper=(), extra_src=(), extra_cflags=(), tag=None, stdin=None):
        self.name = name
        self.harness = harness
        self.args = [str(a) for a in args]
        self.flavour = flavour
        self.libs = list(libs)
        self.env = dict(env or {})
        self.timeout = timeout
        self.wrapper = list(wrapper)
        self.extra_src = list(extra_src)
        self.extra_cflags = list(extra_cflags)
        self.tag = tag
        self.stdin = stdin
        self.bin = None

    def desc(self):
        return dict(name=self.name, harness=self.harness, args=self.args, flavour=self.flavour,
                    libs=self.libs, env=self.env, timeout=self.timeout, wrapper=self.wrapper,
                    extra_src=self.extra_src, extra_cflags=self.extra_cflags, tag=self.tag)

    @staticmethod
    def from_desc(d):
        return Job(d['name'], d['harness'], d['args'], d['flavour'], d['libs'], d['env'],
                   d['timeout'], d.get('wrapper', ()), d.get('extra_src', ()),
                   d.get('extra_cflags', ()), d.get('tag'))


class Result:
    def __init__(self, prop):
        self.prop = prop
        self.sums = {}
        self.maxes = {}
        self.distinct = {}
        self.samples = []
        self.viols = []      # dict(key, what, case, job)
        self.inconclusive = []
        self.jobs_run = 0
        self.jobs_ok = 0

    def stat(self, k, v):
        self.sums[k] = self.sums.get(k, 0) + v

    def max(self, k, v):
        self.maxes[k] = max(self.maxes.get(k, v), v)

    def dist(self, k, tok):
        self.distinct.setdefault(k, set()).add(tok)

    def sample(self, s):
        if len(self.samples) < 12:
            self.samples.append(s)

    def viol(self, key, what, case, job=None):
        self.viols.append(dict(key=key, what=what, case=case, job=job.desc() if job else None))


def parse_stdout(text, res, job):
    ok = False
    for line in text.splitlines():
        if not line:
            continue
        c = line[0]
        if line == 'OK':
            ok = True
        elif c == 'S' and line[1:2] == ' ':
            p = line.split(' ')
            if len(p) == 3:
                try:
                    res.stat(p[1], int(p[2]))
                except ValueError:
                    pass
        elif c == 'M' and line[1:2] == ' ':
            p = line.split(' ')
            if len(p) == 3:
                try:
                    res.max(p[1], int(p[2]))
                except ValueError:
                    pass
        elif c == 'D' and line[1:2] == ' ':
            p = line.split(' ', 2)
            if len(p) == 3:
                res.dist(p[1], p[2])
        elif c == 'E' and line[1:2] == ' ':
            try:
                res.sample(json.loads(line[2:]))
            except ValueError:
                res.sample(line[2:])
        elif c == 'V' and line[1:2] == ' ':
            p = line[2:].split('|', 2)
            while len(p) < 3:
                p.append('')
            res.viol(p[0], p[1], p[2], job)
    return ok


_frame = re.compile(r'#\d+ 0x[0-9a-f]+ in (\S+) (\S+?)(?::(\d+))?(?::\d+)?\s*$')


def _first_src_frame(lines, start):
    """first frame whose file is under src/ or inc/ of the repository (not the harness)."""
    first_any = None
    for ln in lines[start:start + 60]:
        m = _frame.search(ln.strip())
        if not m:
            if first_any is not None and not ln.strip().startswith('#') and ln.strip() == '':
                break
            continue
        fn, path = m.group(1), m.group(2)
        if first_any is None:
            first_any = fn
        if 'libsanitizer' in path or '/verif/harness' in path:
            continue
        if '/src/' in path or '/inc/' in path:
            return fn, os.path.basename(path)
    return (first_any or 'unknown'), '?'


def classify_stderr(prop, text):
    """Turn sanitizer / hook output into violation (key, what) pairs."""
    out = []
    lines = text.splitlines()
    for i, ln in enumerate(lines):
        m = re.search(r'(?:ERROR|WARNING): (AddressSanitizer|MemorySanitizer|LeakSanitizer): (\S+)', ln)
        if m:
            kind = m.group(2).rstrip(':')
            acc = ''
            for l2 in lines[i:i + 4]:
                m2 = re.match(r'\s*(READ|WRITE) of size (\d+)', l2)
                if m2:
                    acc = m2.group(1)
                    break
            fn, f = _first_src_frame(lines, i)
            key = '%s:%s:%s%s:%s' % (prop, m.group(1).replace('Sanitizer', '').lower(), kind,
                                     ('-' + acc) if acc else '', fn)
            out.append((key, ln.strip()[:300]))
            continue
        m = re.search(r'([^\s:]+):(\d+):(\d+): runtime error: (.*)$', ln)
        if m:
            msg = m.group(4)
            cls = re.sub(r'0x[0-9a-f]+', 'ADDR', msg)
            cls = re.sub(r'-?\d+', 'N', cls)
            cls = re.sub(r"'[^']*'", 'T', cls)
            cls = re.sub(r'[^A-Za-z]+', '-', cls).strip('-')[:60]
            key = '%s:ubsan:%s:%s' % (prop, os.path.basename(m.group(1)), cls)
            out.append((key, ln.strip()[:300]))
            continue
        m = re.search(r'BR_VERIF_FAIL (\S+) vm=(\S+) a=(-?\d+) b=(-?\d+)', ln)
        if m:
            out.append(('%s:%s:%s' % (prop, m.group(1), m.group(2)), ln.strip()))
            continue
        m = re.search(r'HARNESS_ASSERT (\S+)', ln)
        if m:
            out.append(('%s:harness-assert:%s' % (prop, m.group(1)), ln.strip()[:300]))
    return out


def run_job(job, res, mod=None):
    cmd = job.wrapper + [job.bin] + job.args
    env = dict(os.environ)
    env.update(SAN_ENV)
    env.update(job.env)
    for attempt in (0, 1):
        t0 = time.time()
        with tempfile.TemporaryFile() as fo, tempfile.TemporaryFile() as fe:
            try:
                p = subprocess.run(cmd, stdout=fo, stderr=fe, env=env, timeout=job.timeout,
                                   stdin=subprocess.DEVNULL, cwd=HERE)
                rc = p.returncode
                timed_out = False
            except subprocess.TimeoutExpired:
                rc = None
                timed_out = True
            fo.seek(0)
            fe.seek(0)
            out = fo.read().decode(errors='replace')
            err = fe.read().decode(errors='replace')
        if timed_out and attempt == 0:
            continue
        break
    job.wall = time.time() - t0
    res.dist('build_flavour', job.flavour)
    res.stat('jobs_on_' + job.flavour, 1)
    if timed_out:
        # still take what it reported, but the job is inconclusive
        tmp = Result(res.prop)
        parse_stdout(out, tmp, job)
        for v in tmp.viols:
            res.viols.append(v)
        res.inconclusive.append('%s: watchdog timeout after %ds (twice)' % (job.name, job.timeout))
        return
    if mod is not None and hasattr(mod, 'on_job_done'):
        if mod.on_job_done(job, rc, out, err, res):
            return
    ok = parse_stdout(out, res, job)
    found = classify_stderr(res.prop, err)
    m = re.search(r'^VF_CASE (.*)$', err, re.M)
    case_txt = ('job=%s %s' % (job.name, m.group(1))) if m else 'job=%s' % job.name
    for key, what in found:
        res.viol(key, what, case_txt, job)
    if rc != 0 or not ok:
        if not found and not any(v['job'] and v['job']['name'] == job.name for v in res.viols):
            if rc is not None and rc < 0:
                res.viol('%s:crash:%s:signal%d' % (res.prop, job.harness, -rc),
                         'harness died: ' + err.strip()[-300:].replace('\n', ' / '),
                         'job=%s' % job.name, job)
            else:
                res.inconclusive.append('%s: exit %s without OK: %s' % (job.name, rc, err.strip()[-400:]))
    else:
        res.jobs_ok += 1


ALT_FLAVOURS = ('alt-mul15', 'alt-32', 'alt-ctmul', 'os')


def with_alt_flavours(jobs, tier, seed, only=None):
    """The same jobs on the other arithmetic configurations of the library (vbuild.FLAVOURS alt-*, os):
    every ASan job whose rotating index selects a flavour is repeated there.  quick: 4 in 16 jobs get one
    copy (one per flavour), thorough: every job gets one copy (a quarter of the workload per flavour)."""
    mod = 16 if tier == 'quick' else 4
    out = list(jobs)
    n = 0
    for j in jobs:
        if j.flavour != 'asan' or j.wrapper or (only and not only(j)):
            continue
        fi = (n + int(seed)) % mod
        n += 1
        if fi >= len(ALT_FLAVOURS):
            continue
        d = j.desc()
        d['name'] = j.name + '@' + ALT_FLAVOURS[fi]
        d['flavour'] = ALT_FLAVOURS[fi]
        c = Job.from_desc(d)
        c.stdin = j.stdin
        out.append(c)
    return out


def build_jobs(jobs):
    cache = {}
    for j in jobs:
        k = (j.flavour, j.harness, tuple(j.libs), tuple(j.extra_cflags), tuple(j.extra_src))
        if k not in cache:
            cache[k] = vbuild.harness(j.flavour, j.harness, j.libs, j.extra_cflags, extra_src=j.extra_src)
        j.bin = cache[k]


def known_match(known, prop, key):
    for k in known:
        if k.get('property') == prop and k.get('status') == 'known' and fnmatch.fnmatchcase(key, k['key']):
            return k
    return None


def write_replay(prop, tier, seed, v):
    d = os.path.join(REPLAY, prop)
    os.makedirs(d, exist_ok=True)
    blob = json.dumps(dict(property=prop, tier=tier, seed=seed, **v), sort_keys=True, indent=1)
    h = hashlib.sha1((v['key'] + '|' + str(v['case'])).encode()).hexdigest()[:12]
    p = os.path.join(d, h + '.json')
    with open(p, 'w') as f:
        f.write(blob)
    return p


def run_property(prop, mod, tier, seed, known):
    t0 = time.time()
    os.makedirs(EVID, exist_ok=True)
    res = Result(prop)
    try:
        jobs = mod.jobs(tier, seed)
        build_jobs(jobs)
    except vbuild.BuildError as e:
        print(str(e))
        print('INCONCLUSIVE: build failed')
        return 2
    nthreads = getattr(mod, 'PARALLEL', vbuild.JOBS)
    with ThreadPoolExecutor(nthreads) as ex:
        list(ex.map(lambda j: run_job(j, res, mod), jobs))
    res.jobs_run = len(jobs)
    if hasattr(mod, 'finish'):
        mod.finish(res, tier, seed)
    # ---- verdict
    new_v, known_v = {}, {}
    for v in res.viols:
        k = known_match(known, prop, v['key'])
        (known_v if k else new_v).setdefault(v['key'], []).append((v, k))
    for key, lst in sorted(known_v.items()):
        print('KNOWN-FINDING: property=%s %s (%s) x%d' % (prop, key, lst[0][1].get('what', '')[:140], len(lst)))
    rc = 0
    for key, lst in sorted(new_v.items()):
        v = lst[0][0]
        p = write_replay(prop, tier, seed, v)
        print('VIOLATION property=%s replay=%s' % (prop, p))
        print('  key=%s x%d what=%s case=%s' % (key, len(lst), v['what'][:300], str(v['case'])[:400]))
        rc = 1
    # required observations
    missing = [c for c in getattr(mod, 'REQUIRED', []) if res.sums.get(c, 0) <= 0]
    evals = sum(res.sums.get(c, 0) for c in getattr(mod, 'EVAL', ['cases']))
    dn = sum(len(res.distinct.get(c, ())) for c in getattr(mod, 'DISTINCT', []))
    if hasattr(mod, 'distinct_count'):
        dn = mod.distinct_count(res)
    cov = dict(evaluations=int(evals), distinct_nontrivial=int(dn),
               rule=getattr(mod, 'RULE', ''), samples=res.samples[:8],
               counters=dict(sorted(res.sums.items())), maxima=dict(sorted(res.maxes.items())),
               distinct_sets={k: len(v) for k, v in sorted(res.distinct.items())},
               jobs=res.jobs_run, jobs_completed=res.jobs_ok,
               known_findings_seen=sorted(known_v.keys()),
               inconclusive=res.inconclusive[:10])
    if hasattr(mod, 'coverage_extra'):
        cov.update(mod.coverage_extra(res, tier))
    if getattr(mod, 'EXHAUSTIVE', None):
        cov['exhaustive_parts'] = mod.EXHAUSTIVE
    ev = dict(property_id=prop, tier=tier, seed=seed, level=getattr(mod, 'LEVEL', 'exploration'),
              coverage=cov, assumptions=getattr(mod, 'ASSUMPTIONS', []),
              wall_s=round(time.time() - t0, 2), violations=len(new_v))
    with open(os.path.join(EVID, prop + '.json'), 'w') as f:
        json.dump(ev, f, indent=1, sort_keys=True)
        f.write('\n')
    print('%s tier=%s seed=%d jobs=%d/%d evaluations=%d distinct=%d violations=%d known=%d wall=%.1fs' % (
        prop, tier, seed, res.jobs_ok, res.jobs_run, evals, dn, len(new_v), len(known_v), time.time() - t0))
    if rc == 1:
        return 1
    if res.inconclusive:
        for m in res.inconclusive[:10]:
            print('INCONCLUSIVE: ' + m)
        return 2
    if missing:
        print('INCONCLUSIVE: monitors observed nothing for: %s' % ', '.join(missing))
        return 2
    if evals < 1 or dn < 2:
        print('INCONCLUSIVE: too few cases observed')
        return 2
    return 0


def replay(path):
    v = json.load(open(path))
    prop = v['property']
    if not v.get('job'):
        print('replay file has no job (offline checker); re-run: python3 check.py %s --tier %s with VERIF_SEED=%s'
              % (prop, v['tier'], v['seed']))
        return 2
    job = Job.from_desc(v['job'])
    build_jobs([job])
    res = Result(prop)
    import importlib
    sys.path.insert(0, os.path.join(HERE, 'props'))
    try:
        mod = importlib.import_module(prop.lower())
    except ImportError:
        mod = None
    run_job(job, res, mod)
    hit = [x for x in res.viols if x['key'] == v['key']]
    for x in res.viols:
        print('  key=%s what=%s case=%s' % (x['key'], x['what'][:300], str(x['case'])[:400]))
    if hit:
        print('VIOLATION property=%s replay=%s' % (prop, path))
        return 1
    print('replay: violation %s not reproduced' % v['key'])
    return 0
