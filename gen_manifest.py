#!/usr/bin/env python3
"""Regenerates MANIFEST.json from the table below (keeps it valid at all times)."""
import json, os, subprocess
HERE = os.path.dirname(os.path.abspath(__file__))
ALL = ['C%02d' % i for i in range(1, 21)]

# property -> (level category, technique, level text, level note)
CLAIMED = {
 'C01': ('exploration', 'runtime monitoring: seeded-scheduler TLS sessions under ASan/UBSan with stream, parameter-agreement and independent record-decoder oracles; OpenSSL as interop peer',
         'Executes real client/server engines (ASan+UBSan build of /repo) over every (suite, version) pair with sampled buffer layouts/sizes, transport chunkings, write sizes and payload lengths; every session is judged by a position-coded stream oracle, parameter/export agreement, an independent OpenSSL-EVP record decoder keyed by an independently derived key block, and the C06 coherence monitor after every call; OpenSSL libssl plays each role for the 58 (suite,version) pairs it implements. Held-on-what-was-observed, not a proof.',
         'Trusts OpenSSL 3.0 (EVP, TLS1-PRF, libssl) as independent reference; x86-64 host build with ESP8266-like config flags; products of the configuration space are sampled (seeded), 3DES and static-ECDH suites have no independent TLS peer here (covered BearSSL<->BearSSL plus the independent record decoder).'), 'C06': ('exploration', 'runtime monitoring: bounded exhaustive schedule enumeration over real engine contexts (snapshot/restore) with an invariant monitor after every API call',
         'From every sampled handshake step and 10 data-phase states, every sequence of the 24 caller actions (buf/ack with 1 or all bytes, flush 0/1, close, renegotiate on either endpoint) up to depth 4 (quick) / 6 (thorough) is executed on the real engines; after each call the public-API coherence invariants (closed exclusive and permanent with first error kept, pointer/length/flag agreement, regions inside caller memory, SENDREC/SENDAPP and RECVREC/RECVAPP exclusion, some operation offered) and the position-coded stream oracle are checked. The same monitor also runs after every call of all other TLS checks.',
         'Depth-bounded and start-state-sampled: finds only states within d calls of a sampled start state; hash de-duplication may only lose coverage; x86-64 ASan/UBSan build.'),
 'C18': ('exploration', 'runtime monitoring: differential oracle against OpenSSL i2d/d2i/PEM and br_x509_decoder under ASan/UBSan, generated keys and PEM texts',
         'Encoders, br_skey_decoder, br_pkey_decoder, br_pem_encode and br_pem_decoder are driven with fixture and synthetic keys and every PEM payload length 0..2000 x flags; outputs are compared byte for byte with OpenSSL and with the certificate decoder; malformed armour must raise an error without spurious data. Three documented-vs-actual discrepancies in T0 bytecode are listed in known_findings.json.',
         'Trusts OpenSSL 3.0 libcrypto encoders as reference; sampled keys; T0 bytecode cannot be regenerated here (no mono).'), 'C02': ('fault_enumeration', 'runtime monitoring: exhaustive single-fault injection on recorded protected streams replayed against a snapshotted receiver, with prefix/rejection oracle; records forged by an independent record layer',
         'For each of the 75 (suite, version) pairs the real receiver engine is restored to its post-handshake state for every fault: every bit of every record, every record-level edit at every index, truncation at every byte, cross-connection splice, forged CBC records of every padding length (accepted when conformant, rejected for each wrong padding/MAC byte) and forged AEAD records; delivered bytes must be a prefix ending before the first touched record and the engine must be closed with a non-zero error once the touched record is complete. ASan/UBSan and the C06 monitor stay armed.',
         'Short sessions (3-5 records); single edits plus 200 random double edits per pair; OpenSSL EVP trusted for forging.'), 'C03': ('fault_enumeration', 'runtime monitoring: per-byte and per-record MITM fault injection on deterministic handshake replays, scripted validator / rogue policy / mismatching keys, with a never-ready / no-data oracle',
         'Each of 105 handshake scenarios (5 key exchanges x 3 versions x full/resumed/renegotiation x client-auth kinds) is replayed on the real engines once per fault: every byte of every handshake and CCS record of both flights is altered (quick: 6 scenarios complete, the rest every 8th byte; thorough: all bytes x 3 XOR values), plus drop/duplicate/swap/substitute at every record index; the destination endpoint must never become ready (or re-key), no application byte may be delivered, protected records must be rejected on receipt. 245 authentication cases script the X.509 validator, keys, server policy, version ranges and fallback SCSV, with honest controls.',
         'An endpoint left waiting after its peer failed counts as never ready (no transport-closed API at engine level); a fully malicious server beyond what the policy API or a MITM can express is not modelled; error codes are not judged.'), 'C14': ('exploration', 'runtime monitoring: differential oracle against OpenSSL EVP (GCM, CCM) and a paper-level EAX reference under ASan/UBSan; exhaustive two-way splits and single-bit forgeries on short messages',
         'GCM, CCM and EAX contexts over every AES CTR/CTRCBC implementation (and every GHASH for GCM) are driven with generated keys, nonces, tag lengths, AAD and messages; ciphertext and tag must equal the reference, decrypt must invert, any schedule of inject/run calls must give the same bytes (all two-way splits for lengths 0..80, random multi-way above), every single-bit change must fail check_tag, forbidden CCM parameters must be refused at reset, reused contexts and EAX saved-state shortcuts must match a fresh context.',
         'Trusts OpenSSL 3.0 EVP and the EAX reference written from the paper (validated against the paper vectors at start-up); sampled parameters.'), 'C05': ('exploration', 'sanitizers + coverage-guided fuzzing: 12 libFuzzer targets under ASan/UBSan with a T0 interpreter stack-bound hook, an interpreter step bound and status-consistency assertions',
         'Every input-processing entry point family is fuzzed from run-time generated seed corpora (recorded valid handshakes, certificates, keys, PEM, signatures, boundary-size structures) with fuzzer-chosen chunking; post-handshake engine targets receive scripts of records sealed with the real keys. Any ASan/UBSan report, interpreter stack excursion (hook H2), work beyond 200000+4000*bytes interpreter steps per push, or inconsistent status getter aborts the run and is reported with the crashing input as replay artifact.',
         'Finite, coverage-guided sampling bounded by -runs; red-zone tools miss non-adjacent and most intra-object overflows; clang-14 x86-64 build.'),
 'C13': ('exploration', 'runtime monitoring: differential oracle against OpenSSL EVP/legacy contexts and spec-level reference code under ASan/UBSan; exhaustive update partitions for short messages',
         'All hash vtables, multihash, SHAKE, HMAC (incl. constant-time outCT over all (min,len,max) triples up to 3 blocks), TLS PRFs, HKDF, MGF1, HMAC_DRBG and AESCTR_DRBG are driven with generated messages, partitions, saved/injected states and key/seed/output lengths; every output is compared with OpenSSL or with reference code written from the specification, and re-runs must be identical.',
         'Trusts OpenSSL 3.0 digests/HMAC/KDFs and the hand-written SP 800-90A / RFC 5869 / bearssl_rand.h references; sampled above the exhaustive bounds.'), 'C12': ('exploration', 'runtime monitoring: differential oracle (every implementation vs OpenSSL EVP / spec-level reference, and pairwise) under ASan/UBSan, with exhaustive lengths, counter wraps and call splits',
         'Every AES (big, small, ct, ct64, x86ni), DES (tab, ct), ChaCha20 (ct, sse2), Poly1305 (ctmul, ctmul32, ctmulq, i15) and GHASH (ctmul, ctmul32, ctmul64, pclmul) implementation is run through its vtable / function pointer on the same generated inputs, in place: every block-multiple length to 4 KiB for CBC/CTRCBC, every length 0..1100 and sampled to 4 KiB for stream modes, counters at and around 2^32 and 128-bit wraps, all two-way splits to 1 KiB plus random multi-way splits; outputs and returned chaining state are compared with the reference and with every sibling implementation; Poly1305 accumulators are crafted to the reduction boundaries.',
         'Trusts OpenSSL 3.0 EVP (AES, 3DES, ChaCha20-Poly1305) and bitwise reference code self-checked against published vectors; hardware variants only as present on this CPU (x86ni, sse2, pclmul, ctmulq present; pwr8 absent).'), 'C20': ('exploration', 'runtime monitoring: seeder fault injection through a guarded hook and a seeder-less library build; independent record decoder as sequence-number / nonce / IV monitor; cross-connection distinctness and equal-seed reproducibility checks',
         'Client and server resets are exercised with a failing seeder, no seeder (hook H1) and a build of the library with every system seeder disabled, with and without injected entropy (must refuse with BR_ERR_NO_RANDOM before emitting a byte, or proceed). Long sessions per protection mode and version with renegotiations: each protected record must authenticate under sequence number previous+1 from 0 after every key change in the independent record layer, and explicit IVs/nonces per (direction, key) are pairwise distinct. 200/1000 connections with distinct seeds have pairwise distinct randoms, session IDs, ECDHE points and encrypted premasters; equal seeds and schedules reproduce the wire bytes exactly.',
         'Uniqueness is observed on sampled sessions; randomness quality is not assessed.'), 'C16': ('exploration', 'runtime monitoring: sessions with threshold-sized buffers measured by an independent record decoder (exact plaintext length per record, hello extensions from the wire), MITM on the echoed extension, forged maximum-size / oversize records',
         'For buffer sizes at each threshold (512..16384 plus the documented overheads) +-1 on each side independently and all three layouts, per protection mode and version, the harness checks on the real engines: the client requests exactly the length its buffers allow, an echo repeats the request, the negotiated flag equals the presence of the echo on the wire, a rewritten echo is refused, every record stays within 16384, the negotiated/requested length, the sender own limit and its output buffer, and forged conformant records of exactly the advertised length (CBC with 255 padding bytes) or exactly filling the input buffer are accepted while one just beyond it yields an error without any memory error.',
         'Sampled buffer/mode combinations; the engine-split layout is checked for consistency only (split point not visible to the caller); OpenSSL as MFL-aware independent peer is exercised in C01 only.'), 'C19': ('exploration', 'runtime monitoring: scenario scripts over seeded random schedules on real engines with stream, alert-count and renegotiation_info monitors fed by an independent record decoder; exhaustive transport cuts and alert injection against snapshotted receivers; br_sslio driven through callback-pumped peers',
         'Closure at random points of bidirectional exchanges, transport cut at every byte of a recorded stream, every alert level with strided descriptions in three framings at four phases, renegotiation by either side (quiescent, declined, refused by precondition, repeated, with data in flight) and the br_sslio wrapper are executed on the real code; oracles: data written before a close request arrives, nothing is delivered after it, one close_notify per side, clean closure has error 0 and truncation never has, fatal alerts are reported with their description, warnings leave the stream in order, renegotiation hellos are bound to the previous Finished values and change the keys without disturbing either stream. One engine limitation (application data crossing a renegotiation request fails the connection) is recorded in known_findings.json.',
         'Peers lacking RFC 5746 support are not available on this image; alert descriptions are strided in the quick tier (all in thorough); sampled schedules.'), 'C10': ('exploration', 'runtime monitoring: differential oracle against OpenSSL BIGNUM/EVP/RSA under ASan/UBSan over fixture and generated keys, with forged encoded messages for strictness',
         'For 16 fixture keys (512..4096 bits incl. 1016/1017/1025/2049, e in {3,17,65537,2^32+1}) x every RSA implementation (i15, i31, i32, i62, default): raw public/private operations against BN_mod_exp and as mutual inverses (plain, leading-zero and p<->q-swapped key views), PKCS#1 v1.5 signatures byte-identical to OpenSSL and cross-verified in both DigestInfo forms, PSS and OAEP and TLS premaster interop in both directions over all hash/MGF pairs, salt/label/message lengths; strictness by forging signatures/ciphertexts for altered encoded messages with the private key (every byte position in thorough) and by invalid keys/lengths; key generation and modulus/exponent recomputation checked with BIGNUM.',
         'Trusts OpenSSL 3.0 libcrypto; keys sampled from committed fixtures (generated once with the openssl CLI) plus run-time keygen; some precondition violations are executed but not judged.'),
}

ENGINES = []

def hooks_commits():
    try:
        out = subprocess.run(['git', '-C', '/repo', 'log', '--format=%H %s'], capture_output=True, text=True).stdout
        return [l.split()[0] for l in out.splitlines() if 'verif hook' in l]
    except Exception:
        return []

def main():
    checks = []
    for pid in ALL:
        if pid not in CLAIMED:
            continue
        cat, tech, text, note = CLAIMED[pid]
        checks.append(dict(
            property_id=pid,
            quick_cmd='python3 check.py %s --tier quick' % pid,
            thorough_cmd='python3 check.py %s --tier thorough' % pid,
            evidence_file='/verif/evidence/%s.json' % pid,
            replay_cmd_template='python3 check.py replay {path}',
            engine='check.py',
            level_claimed=dict(category=cat, text=text, design_ref='DESIGN.md §%s' % pid),
            level_note=note,
            technique=tech))
    m = dict(
        version=1,
        setup_cmd='python3 check.py setup',
        hooks=dict(guard='BR_VERIF',
                   enable='-DBR_VERIF (plus -DBR_VERIF_VALGRIND for the ct-* flavours); check.py compiles every src/**/*.c of /repo with it',
                   baseline_off_cmd='make -C /repo -s && cd /repo/test/x509 && ../../build/testx509',
                   source_commits=hooks_commits(),
                   add_only=True),
        engines=ENGINES,
        checks=checks,
        notes='Runtime monitoring and sanitizers only; see DESIGN.md. Exit 2 = harness failure / inconclusive.',
        not_applicable=[dict(property_id=p, reason='check not built yet (work in progress); the technique applies, see DESIGN.md §%s' % p)
                        for p in ALL if p not in CLAIMED])
    with open(os.path.join(HERE, 'MANIFEST.json'), 'w') as f:
        json.dump(m, f, indent=1)
        f.write('\n')

if __name__ == '__main__':
    main()
