/*
 * C07: results of streaming consumers are independent of input chunking.
 *  mode dec: X.509 validator, certificate decoder, private/public key decoders,
 *            PEM decoder: outcome(partition) == outcome(single push) for all
 *            two-chunk splits, all-one-byte, random multi-chunk partitions with
 *            zero-length pushes, over valid / boundary / malformed inputs.
 *  mode tls: with a fixed seed, the bytes a TLS endpoint emits (and the
 *            application bytes it delivers, final state and error) for a given
 *            incoming stream do not depend on how that stream is chunked
 *            (causal replay of a recorded session).
 */
#include "tlsmon.h"
#include <dirent.h>

/* ------------------------------------------------------------------ */
/* outcome = FNV hash over all observable fields + a readable summary */

typedef struct { uint64_t h; char txt[200]; } outcome;

static void oc_add(outcome *o, const void *d, size_t l) { o->h = vf_fnv(d, l, o->h ? o->h : 0x1234567); o->h = vf_fnv("|", 1, o->h); }
static void oc_int(outcome *o, long v) { oc_add(o, &v, sizeof v); }

/* partition driver: calls push(ctx, data, len) over a partition described by (kind, param) */
typedef void (*push_fn)(void *ctx, const unsigned char *d, size_t l);

static void
run_partition(push_fn push, void *ctx, const unsigned char *data, size_t len, int kind, size_t param, vf_rng *r)
{
	size_t off = 0;
	switch (kind) {
	case 0: push(ctx, data, len); break;                         /* single push */
	case 1: push(ctx, data, param); push(ctx, data + param, len - param); break;   /* two chunks, split at param */
	case 2: while (off < len) { push(ctx, data + off, 1); off ++; } break;        /* all one byte */
	default:                                                      /* random multi-chunk with zero-length pushes */
		while (off < len) {
			size_t k = vf_below(r, 4) == 0 ? 0 : 1 + vf_below(r, (uint32_t)(vf_below(r, 3) == 0 ? len - off : (len - off > 40 ? 40 : len - off)));
			if (k > len - off) k = len - off;
			push(ctx, data + off, k);
			off += k;
		}
		if (vf_below(r, 2)) push(ctx, data + len, 0);
		break;
	}
}

/* ---- consumers ---- */

/* 1. X.509 validator on a chain: input = concatenation of certificates; cert boundaries given */
typedef struct {
	br_x509_minimal_context xc;
	const size_t *clen; int ncert;
	int cur; size_t in_cur; int started;
} val_ctx;

static void
val_push(void *ctx, const unsigned char *d, size_t l)
{
	val_ctx *v = ctx;
	/* the concatenated input is cut at certificate boundaries by the driver of the TLS layer; here we
	   re-create that: bytes are routed to start_cert/append/end_cert according to clen[] */
	while (1) {
		size_t room;
		if (v->cur >= v->ncert) return;
		if (!v->started) { v->xc.vtable->start_cert(&v->xc.vtable, (uint32_t)v->clen[v->cur]); v->started = 1; v->in_cur = 0; }
		room = v->clen[v->cur] - v->in_cur;
		if (l < room) {
			v->xc.vtable->append(&v->xc.vtable, d, l);      /* includes zero-length appends */
			v->in_cur += l;
			return;
		}
		v->xc.vtable->append(&v->xc.vtable, d, room);
		v->xc.vtable->end_cert(&v->xc.vtable);
		v->cur ++; v->started = 0;
		d += room; l -= room;
		if (l == 0 && v->cur < v->ncert) return;
	}
}

static const unsigned char OID_CN[] = { 0x03, 0x55, 0x04, 0x03 };
static const unsigned char OID_DNS[] = { 0x00, 0x02 };
static const unsigned char OID_O[] = { 0x03, 0x55, 0x04, 0x0A };

static void
val_run(const unsigned char *data, size_t len, const size_t *clen, int ncert, const char *name,
	int kind, size_t param, vf_rng *r, outcome *o)
{
	static val_ctx v;
	br_name_element ne[3];
	char nb[3][80];
	unsigned res, usages = 0;
	const br_x509_pkey *pk;
	int i;
	memset(o, 0, sizeof *o);
	tp_fixtures();
	br_x509_minimal_init(&v.xc, &br_sha256_vtable, tp_fx.tas, 3);
	for (i = 1; i <= 6; i ++) br_x509_minimal_set_hash(&v.xc, i, tp_hashes[i]);
	br_x509_minimal_set_rsa(&v.xc, br_rsa_pkcs1_vrfy_get_default());
	br_x509_minimal_set_ecdsa(&v.xc, br_ec_get_default(), br_ecdsa_vrfy_asn1_get_default());
	br_x509_minimal_set_time(&v.xc, 738000, 0);
	ne[0].oid = OID_CN; ne[1].oid = OID_DNS; ne[2].oid = OID_O;
	for (i = 0; i < 3; i ++) { ne[i].buf = nb[i]; ne[i].len = sizeof nb[i]; memset(nb[i], 0, sizeof nb[i]); }
	br_x509_minimal_set_name_elements(&v.xc, ne, 3);
	v.clen = clen; v.ncert = ncert; v.cur = 0; v.started = 0; v.in_cur = 0;
	v.xc.vtable->start_chain(&v.xc.vtable, name);
	run_partition(val_push, &v, data, len, kind, param, r);
	if (v.started) v.xc.vtable->end_cert(&v.xc.vtable);       /* truncated last certificate */
	res = v.xc.vtable->end_chain(&v.xc.vtable);
	pk = v.xc.vtable->get_pkey((const br_x509_class *const *)&v.xc.vtable, &usages);
	oc_int(o, (long)res);
	if (pk) {
		oc_int(o, pk->key_type); oc_int(o, (long)usages);
		if (pk->key_type == BR_KEYTYPE_RSA) { oc_add(o, pk->key.rsa.n, pk->key.rsa.nlen); oc_add(o, pk->key.rsa.e, pk->key.rsa.elen); }
		else { oc_int(o, pk->key.ec.curve); oc_add(o, pk->key.ec.q, pk->key.ec.qlen); }
	} else oc_int(o, -1);
	for (i = 0; i < 3; i ++) { oc_int(o, ne[i].status); if (ne[i].status == 1) oc_add(o, nb[i], strlen(nb[i])); }
	snprintf(o->txt, sizeof o->txt, "end_chain=%u key=%s cn_status=%d dns_status=%d", res, pk ? "yes" : "no", ne[0].status, ne[1].status);
}

/* 2. certificate decoder */
typedef struct { br_x509_decoder_context dc; uint64_t dnh[2]; size_t dnl[2]; } xd_ctx;
static void xd_dn0(void *c, const void *b, size_t l) { xd_ctx *x = c; x->dnh[0] = vf_fnv(b, l, x->dnh[0]); x->dnl[0] += l; }
static void xd_dn1(void *c, const void *b, size_t l) { xd_ctx *x = c; x->dnh[1] = vf_fnv(b, l, x->dnh[1]); x->dnl[1] += l; }
static void xd_push(void *c, const unsigned char *d, size_t l) { xd_ctx *x = c; br_x509_decoder_push(&x->dc, d, l); }

static void
xd_run(const unsigned char *data, size_t len, int kind, size_t param, vf_rng *r, outcome *o)
{
	static xd_ctx x;
	br_x509_pkey *pk;
	memset(o, 0, sizeof *o);
	vf_raw_zero(&x, sizeof x);   /* holds a library context with guard bytes (hook H4) */
	br_x509_decoder_init(&x.dc, xd_dn0, &x, xd_dn1, &x);
	run_partition(xd_push, &x, data, len, kind, param, r);
	oc_int(o, br_x509_decoder_last_error(&x.dc));
	pk = br_x509_decoder_get_pkey(&x.dc);
	if (pk) {
		oc_int(o, pk->key_type);
		if (pk->key_type == BR_KEYTYPE_RSA) { oc_add(o, pk->key.rsa.n, pk->key.rsa.nlen); oc_add(o, pk->key.rsa.e, pk->key.rsa.elen); }
		else { oc_int(o, pk->key.ec.curve); oc_add(o, pk->key.ec.q, pk->key.ec.qlen); }
		oc_int(o, br_x509_decoder_isCA(&x.dc));
		oc_int(o, br_x509_decoder_get_signer_key_type(&x.dc));
		oc_int(o, br_x509_decoder_get_signer_hash_id(&x.dc));
		oc_int(o, (long)x.dc.notbefore_days); oc_int(o, (long)x.dc.notbefore_seconds);
		oc_int(o, (long)x.dc.notafter_days); oc_int(o, (long)x.dc.notafter_seconds);
		/* the DN streams are defined for a completely decoded certificate */
		oc_int(o, (long)x.dnl[0]); oc_int(o, (long)x.dnh[0]); oc_int(o, (long)x.dnl[1]); oc_int(o, (long)x.dnh[1]);
	} else oc_int(o, -1);
	snprintf(o->txt, sizeof o->txt, "err=%d key=%s dn=%zu/%zu", br_x509_decoder_last_error(&x.dc), pk ? "yes" : "no", x.dnl[0], x.dnl[1]);
}

/* 3./4. key decoders */
static void sk_push2(void *c, const unsigned char *d, size_t l) { br_skey_decoder_push(c, d, l); }
static void pk_push2(void *c, const unsigned char *d, size_t l) { br_pkey_decoder_push(c, d, l); }

static void
sk_run(const unsigned char *data, size_t len, int kind, size_t param, vf_rng *r, outcome *o)
{
	static br_skey_decoder_context dc;
	memset(o, 0, sizeof *o);
	br_skey_decoder_init(&dc);
	run_partition(sk_push2, &dc, data, len, kind, param, r);
	oc_int(o, br_skey_decoder_last_error(&dc)); oc_int(o, br_skey_decoder_key_type(&dc));
	if (br_skey_decoder_get_rsa(&dc)) {
		const br_rsa_private_key *k = br_skey_decoder_get_rsa(&dc);
		oc_int(o, (long)k->n_bitlen); oc_add(o, k->p, k->plen); oc_add(o, k->q, k->qlen); oc_add(o, k->dp, k->dplen); oc_add(o, k->dq, k->dqlen); oc_add(o, k->iq, k->iqlen);
	}
	if (br_skey_decoder_get_ec(&dc)) { const br_ec_private_key *k = br_skey_decoder_get_ec(&dc); oc_int(o, k->curve); oc_add(o, k->x, k->xlen); }
	snprintf(o->txt, sizeof o->txt, "err=%d type=%d", br_skey_decoder_last_error(&dc), br_skey_decoder_key_type(&dc));
}

static void
pk_run(const unsigned char *data, size_t len, int kind, size_t param, vf_rng *r, outcome *o)
{
	static br_pkey_decoder_context dc;
	memset(o, 0, sizeof *o);
	br_pkey_decoder_init(&dc);
	run_partition(pk_push2, &dc, data, len, kind, param, r);
	oc_int(o, br_pkey_decoder_last_error(&dc)); oc_int(o, br_pkey_decoder_key_type(&dc));
	if (br_pkey_decoder_last_error(&dc) == 0 && br_pkey_decoder_key_type(&dc) == BR_KEYTYPE_RSA) {
		const br_rsa_public_key *k = br_pkey_decoder_get_rsa(&dc);
		if (k) { oc_add(o, k->n, k->nlen); oc_add(o, k->e, k->elen); }
	}
	if (br_pkey_decoder_last_error(&dc) == 0 && br_pkey_decoder_key_type(&dc) == BR_KEYTYPE_EC) {
		const br_ec_public_key *k = br_pkey_decoder_get_ec(&dc);
		if (k) { oc_int(o, k->curve); oc_add(o, k->q, k->qlen); }
	}
	snprintf(o->txt, sizeof o->txt, "err=%d type=%d", br_pkey_decoder_last_error(&dc), br_pkey_decoder_key_type(&dc));
}

/* 5. PEM decoder: event sequence with names, payload bytes */
typedef struct { br_pem_decoder_context pc; outcome *o; int nev; size_t npay; uint64_t evh; size_t consumed; } pem_ctx;
/* 0: decoded data goes to pem_data; 1: br_pem_decoder_setdest(ctx, 0, 0) at each object ("decoded data is simply
   ignored"); 2: setdest never called (the context comes out of br_pem_decoder_init) */
static int pem_nodest;
/* what does not depend on the destination: events, object names, bytes consumed up to each event and in total */
static uint64_t pem_last_evh; static int pem_last_nev; static size_t pem_last_consumed;
static void pem_data(void *c, const void *b, size_t l) { pem_ctx *p = c; /* payload is hashed byte-wise so that callback granularity does not matter */
	const unsigned char *q = b; size_t i; for (i = 0; i < l; i ++) { p->o->h = vf_fnv(q + i, 1, p->o->h ? p->o->h : 0x1234567); } p->npay += l; }
static void
pem_push(void *c, const unsigned char *d, size_t l)
{
	pem_ctx *p = c;
	size_t done = 0;
	int guard = 0;
	if (l == 0) { br_pem_decoder_push(&p->pc, d, 0); return; }
	while (done < l && guard ++ < 100000) {
		size_t t = br_pem_decoder_push(&p->pc, d + done, l - done);
		int ev = br_pem_decoder_event(&p->pc);
		done += t;
		p->consumed += t;
		if (ev) {
			long c = (long)p->consumed;
			p->nev ++;
			oc_int(p->o, ev);
			p->evh = vf_fnv(&ev, sizeof ev, p->evh); p->evh = vf_fnv(&c, sizeof c, p->evh);
			if (ev == BR_PEM_BEGIN_OBJ) {
				const char *n = br_pem_decoder_name(&p->pc);
				oc_add(p->o, n, strlen(n));
				p->evh = vf_fnv(n, strlen(n) + 1, p->evh);
				if (pem_nodest == 0) br_pem_decoder_setdest(&p->pc, pem_data, p);
				else if (pem_nodest == 1) br_pem_decoder_setdest(&p->pc, 0, 0);
			}
		}
	}
}

static void
pem_run(const unsigned char *data, size_t len, int kind, size_t param, vf_rng *r, outcome *o)
{
	static pem_ctx p;
	memset(o, 0, sizeof *o);
	memset(&p, 0, sizeof p);
	p.o = o;
	br_pem_decoder_init(&p.pc);
	run_partition(pem_push, &p, data, len, kind, param, r);
	oc_int(o, p.nev); oc_int(o, (long)p.npay);
	pem_last_evh = p.evh; pem_last_nev = p.nev; pem_last_consumed = p.consumed;
	snprintf(o->txt, sizeof o->txt, "events=%d payload=%zu consumed=%zu", p.nev, p.npay, p.consumed);
}

/* ------------------------------------------------------------------ */
/* input pool */

typedef struct { int consumer; unsigned char *d; size_t len; size_t clen[4]; int ncert; const char *name; char label[80]; } input;
static input pool[4000];
static int npool;

static void
add_input(int consumer, const unsigned char *d, size_t len, const size_t *clen, int ncert, const char *name, const char *label)
{
	input *in;
	if (npool >= 4000 || len == 0 || len > 60000) return;
	in = &pool[npool ++];
	in->consumer = consumer; in->d = vf_dup(d, len); in->len = len; in->ncert = ncert; in->name = name;
	if (clen) memcpy(in->clen, clen, (size_t)ncert * sizeof *clen);
	snprintf(in->label, sizeof in->label, "%s", label);
}

static size_t
read_file2(const char *path, unsigned char *o, size_t max)
{
	FILE *f = fopen(path, "rb"); size_t n;
	if (!f) return 0;
	n = fread(o, 1, max, f); fclose(f);
	return n;
}

static void
mutate_and_add(int consumer, const unsigned char *d, size_t len, const size_t *clen, int ncert, const char *name, const char *label, vf_rng *r, int nmut)
{
	static unsigned char tmp[70000];
	int m;
	char lab[100];
	add_input(consumer, d, len, clen, ncert, name, label);
	for (m = 0; m < nmut; m ++) {
		size_t l2 = len;
		memcpy(tmp, d, len);
		switch (m % 4) {
		case 0: tmp[vf_below(r, (uint32_t)len)] ^= (unsigned char)(1u << vf_below(r, 8)); snprintf(lab, sizeof lab, "%s+bitflip", label); break;
		case 1: l2 = 1 + vf_below(r, (uint32_t)len); snprintf(lab, sizeof lab, "%s+truncated", label); break;
		case 2: { size_t p = vf_below(r, (uint32_t)len); tmp[p] = (unsigned char)vf_u32(r); snprintf(lab, sizeof lab, "%s+byte", label); break; }
		default: { size_t p = vf_below(r, (uint32_t)len), q = 1 + vf_below(r, 8); if (p + q < len) { memmove(tmp + p, tmp + p + q, len - p - q); l2 = len - q; } snprintf(lab, sizeof lab, "%s+deleted", label); break; }
		}
		if (clen && ncert > 0) {
			/* keep the certificate framing of the original (lengths as announced by the TLS layer), clipped */
			size_t cl2[4], left = l2; int i;
			for (i = 0; i < ncert; i ++) { cl2[i] = clen[i] < left ? clen[i] : left; left -= cl2[i]; }
			if (left > 0) cl2[ncert - 1] += left;
			add_input(consumer, tmp, l2, cl2, ncert, name, lab);
		} else add_input(consumer, tmp, l2, NULL, 0, name, lab);
	}
}

static void
build_pool(vf_rng *r, int nmut)
{
	static unsigned char buf[70000], pem[90000];
	const char *repo = getenv("VERIF_REPO") ? getenv("VERIF_REPO") : "/repo";
	char dir[400], path[700];
	DIR *d;
	struct dirent *de;
	struct { const unsigned char *p; size_t l; const char *n; } certs[] = {
		{ FX_srv_rsa_crt, FX_srv_rsa_crt_len, "srv_rsa" }, { FX_srv_ecec_crt, FX_srv_ecec_crt_len, "srv_ecec" },
		{ FX_srv_ecrsa_crt, FX_srv_ecrsa_crt_len, "srv_ecrsa" }, { FX_ca_rsa_crt, FX_ca_rsa_crt_len, "ca_rsa" },
		{ FX_cli_ec_crt, FX_cli_ec_crt_len, "cli_ec" }, { FX_weak_rsa_crt, FX_weak_rsa_crt_len, "weak_rsa" },
	};
	struct { const unsigned char *p; size_t l; const char *n; } keys[] = {
		{ FX_srv_rsa_key, FX_srv_rsa_key_len, "rsa2048" }, { FX_srv_ecec_key, FX_srv_ecec_key_len, "ec256" },
		{ FX_srv_ec384_key, FX_srv_ec384_key_len, "ec384" }, { FX_weak_rsa_key, FX_weak_rsa_key_len, "rsa768" },
	};
	size_t i, l;
	/* chains for the validator: leaf + CA, leaf alone */
	for (i = 0; i < 3; i ++) {
		const unsigned char *ca = i == 1 ? FX_ca_ec_crt : FX_ca_rsa_crt;
		size_t cal = i == 1 ? FX_ca_ec_crt_len : FX_ca_rsa_crt_len, cl[2];
		memcpy(buf, certs[i].p, certs[i].l); memcpy(buf + certs[i].l, ca, cal);
		cl[0] = certs[i].l; cl[1] = cal;
		mutate_and_add(0, buf, certs[i].l + cal, cl, 2, "localhost", certs[i].n, r, nmut);
		mutate_and_add(0, buf, certs[i].l, cl, 1, "www.example.com", certs[i].n, r, nmut / 2);
	}
	/* a 21 kB leaf (700 subjectAltName entries) + its intermediate: pushes of many kilobytes in one call; accepted,
	   refused at the very end (other server name), refused early (validity dates in the past: the bytes of notAfter are
	   rewritten, which the signature check would only notice at the end) */
	{
		size_t cl[2], k;
		memcpy(buf, FX_srv_rsa_big_crt, FX_srv_rsa_big_crt_len); memcpy(buf + FX_srv_rsa_big_crt_len, FX_int_rsa_crt, FX_int_rsa_crt_len);
		cl[0] = FX_srv_rsa_big_crt_len; cl[1] = FX_int_rsa_crt_len;
		mutate_and_add(0, buf, cl[0] + cl[1], cl, 2, "localhost", "srv_rsa_big", r, nmut);
		mutate_and_add(0, buf, cl[0] + cl[1], cl, 2, "other.example.org", "srv_rsa_big-wrong-name", r, 0);
		for (k = 0; k + 15 < 400; k ++) if (memcmp(buf + k, "20991231235959Z", 15) == 0) { memcpy(buf + k, "20011231235959Z", 15); break; }
		if (k + 15 >= 400) { fprintf(stderr, "HARNESS_ASSERT big-cert-notafter-not-found\n"); exit(3); }
		mutate_and_add(0, buf, cl[0] + cl[1], cl, 2, "localhost", "srv_rsa_big-expired", r, 0);
		vf_stat("pool_big_chains", 3);
	}
	for (i = 0; i < sizeof certs / sizeof certs[0]; i ++) mutate_and_add(1, certs[i].p, certs[i].l, NULL, 0, NULL, certs[i].n, r, nmut);
	for (i = 0; i < sizeof keys / sizeof keys[0]; i ++) mutate_and_add(2, keys[i].p, keys[i].l, NULL, 0, NULL, keys[i].n, r, nmut);
	/* the same keys as PKCS#8 (written by the library's own encoders): another outer structure for the same decoder */
	tp_fixtures();
	for (i = 0; i < sizeof keys / sizeof keys[0]; i ++) {
		char lab[60];
		if (i == 0 || i == 3) {
			/* RSAPrivateKey ::= SEQUENCE { version, n, e, d, p, q, dp, dq, iq }: n, e and d are taken from the fixture bytes */
			const tp_skey *sk = i == 0 ? &tp_fx.srv_rsa : &tp_fx.weak_rsa;     /* keys[0], keys[3] */
			const unsigned char *q = keys[i].p, *iv[4]; size_t il[4], k;
			br_rsa_public_key pk;
			q += 1 + (q[1] & 0x80 ? 1 + (q[1] & 0x7F) : 1);
			for (k = 0; k < 4; k ++) {
				size_t ln = q[1], h = 2;
				if (ln & 0x80) { size_t nb = ln & 0x7F, j; ln = 0; for (j = 0; j < nb; j ++) ln = (ln << 8) | q[2 + j]; h = 2 + nb; }
				iv[k] = q + h; il[k] = ln; q += h + ln;
			}
			pk.n = (unsigned char *)iv[1]; pk.nlen = il[1]; pk.e = (unsigned char *)iv[2]; pk.elen = il[2];
			while (pk.nlen > 0 && pk.n[0] == 0) { pk.n ++; pk.nlen --; }
			l = br_encode_rsa_pkcs8_der(NULL, &sk->rsa, &pk, iv[3], il[3]);
			if (l == 0 || l > sizeof buf) { fprintf(stderr, "HARNESS_ASSERT pkcs8-rsa-encode\n"); exit(3); }
			br_encode_rsa_pkcs8_der(buf, &sk->rsa, &pk, iv[3], il[3]);
			snprintf(lab, sizeof lab, "%s-pkcs8", keys[i].n);
			mutate_and_add(2, buf, l, NULL, 0, NULL, lab, r, nmut);
			vf_stat("pool_skey_pkcs8", 1);
		} else {
			const tp_skey *sk = i == 1 ? &tp_fx.srv_ecec : &tp_fx.srv_ec384;    /* keys[1], keys[2] */
			unsigned char kb[BR_EC_KBUF_PUB_MAX_SIZE];
			br_ec_public_key pk;
			int wp;
			if (br_ec_compute_pub(br_ec_get_default(), &pk, kb, &sk->ec) == 0) { fprintf(stderr, "HARNESS_ASSERT ec-compute-pub\n"); exit(3); }
			for (wp = 0; wp < 2; wp ++) {
				l = br_encode_ec_pkcs8_der(NULL, &sk->ec, wp ? &pk : NULL);
				if (l == 0 || l > sizeof buf) { fprintf(stderr, "HARNESS_ASSERT pkcs8-ec-encode\n"); exit(3); }
				br_encode_ec_pkcs8_der(buf, &sk->ec, wp ? &pk : NULL);
				snprintf(lab, sizeof lab, "%s-pkcs8-%s", keys[i].n, wp ? "pub" : "nopub");
				mutate_and_add(2, buf, l, NULL, 0, NULL, lab, r, nmut);
				vf_stat("pool_skey_pkcs8", 1);
			}
			l = br_encode_ec_raw_der(buf, &sk->ec, NULL);
			snprintf(lab, sizeof lab, "%s-raw-nopub", keys[i].n);
			mutate_and_add(2, buf, l, NULL, 0, NULL, lab, r, nmut / 2);
		}
	}
	/* test/x509: certificates for validator + decoder, keys if any */
	snprintf(dir, sizeof dir, "%s/test/x509", repo);
	d = opendir(dir);
	while (d && (de = readdir(d)) != NULL) {
		size_t n = strlen(de->d_name);
		snprintf(path, sizeof path, "%s/%s", dir, de->d_name);
		if (n > 4 && strcmp(de->d_name + n - 4, ".crt") == 0) {
			size_t cl[1];
			l = read_file2(path, buf, sizeof buf);
			if (!l) continue;
			cl[0] = l;
			mutate_and_add(0, buf, l, cl, 1, "www.example.com", de->d_name, r, 1);
			mutate_and_add(1, buf, l, NULL, 0, NULL, de->d_name, r, 1);
		}
	}
	if (d) closedir(d);
	/* public keys: SPKI cut out of certificates (ecPublicKey / rsaEncryption AlgorithmIdentifier) */
	{
		static const unsigned char pat_ec[] = { 0x06, 0x07, 0x2A, 0x86, 0x48, 0xCE, 0x3D, 0x02, 0x01 };
		static const unsigned char pat_rsa[] = { 0x06, 0x09, 0x2A, 0x86, 0x48, 0x86, 0xF7, 0x0D, 0x01, 0x01, 0x01 };
		for (i = 0; i < sizeof certs / sizeof certs[0]; i ++) {
			size_t j;
			for (j = 8; j + 12 < certs[i].l; j ++) {
				if (memcmp(certs[i].p + j, pat_ec, sizeof pat_ec) == 0) {
					size_t st = j - 4, tot = 2 + certs[i].p[st + 1];
					if (certs[i].p[st] == 0x30 && st + tot <= certs[i].l) mutate_and_add(3, certs[i].p + st, tot, NULL, 0, NULL, certs[i].n, r, nmut);
					break;
				}
				if (memcmp(certs[i].p + j, pat_rsa, sizeof pat_rsa) == 0 && certs[i].p[j - 2] == 0x30 && certs[i].p[j - 6] == 0x30 && certs[i].p[j - 5] == 0x82) {
					size_t st = j - 6, tot = 4 + (((size_t)certs[i].p[st + 2] << 8) | certs[i].p[st + 3]);
					if (st + tot <= certs[i].l) mutate_and_add(3, certs[i].p + st, tot, NULL, 0, NULL, certs[i].n, r, nmut);
					break;
				}
			}
		}
	}
	/* PEM: every line-ending style, several objects, malformed armour */
	for (i = 0; i < sizeof keys / sizeof keys[0]; i ++) {
		unsigned fl;
		for (fl = 0; fl < 4; fl ++) {
			l = br_pem_encode(pem, keys[i].p, keys[i].l, (i & 1) ? "EC PRIVATE KEY" : "RSA PRIVATE KEY", fl);
			mutate_and_add(4, pem, l, NULL, 0, NULL, keys[i].n, r, nmut / 2);
		}
	}
	l = br_pem_encode(pem, certs[0].p, certs[0].l, "CERTIFICATE", 0);
	l += br_pem_encode(pem + l, certs[1].p, certs[1].l, "certificate", BR_PEM_CRLF);
	memcpy(pem + l, "trailing text\n", 14); l += 14;
	mutate_and_add(4, pem, l, NULL, 0, NULL, "two-objects", r, nmut);
	{
		static const char bad[] = "junk\r\n-----BEGIN A-----\nAAEC\n!!!!\n-----END A-----\n-----BEGIN B-----\r\n/v79\r\n-----END B-----\n-----BEGIN C-----\nQUJD=\n-----END C-----\n-----BEGIN D-----\nQUI=\n-----END D-----";
		add_input(4, (const unsigned char *)bad, sizeof bad - 1, NULL, 0, NULL, "malformed-armour");
	}
}

static const char *cname[5] = { "x509_minimal", "x509_decoder", "skey_decoder", "pkey_decoder", "pem_decoder" };

static void
run_consumer(const input *in, int kind, size_t param, vf_rng *r, outcome *o)
{
	switch (in->consumer) {
	case 0: val_run(in->d, in->len, in->clen, in->ncert, in->name, kind, param, r, o); break;
	case 1: xd_run(in->d, in->len, kind, param, r, o); break;
	case 2: sk_run(in->d, in->len, kind, param, r, o); break;
	case 3: pk_run(in->d, in->len, kind, param, r, o); break;
	default: pem_run(in->d, in->len, kind, param, r, o); break;
	}
}

static void
mode_dec(long long seed, int worker, int nworkers, int nmut, int nrand, int max_inputs)
{
	vf_rng r;
	int i;
	vf_rng_init(&r, (uint64_t)seed, 1);
	build_pool(&r, nmut);
	for (i = worker; i < npool && i < max_inputs; i += nworkers) {
		const input *in = &pool[i];
		outcome ref, o;
		vf_rng r2;
		size_t sp;
		int k, bad = 0;
		char what[400];
		vf_rng_init(&r2, (uint64_t)seed, (uint64_t)i + 100);
		snprintf(tp_case, sizeof tp_case, "seed=%lld dec input=%d consumer=%s label=%s len=%zu", seed, i, cname[in->consumer], in->label, in->len);
		run_consumer(in, 0, 0, &r2, &ref);
		vf_stat("inputs", 1);
		vf_stat(ref.txt[0] && (strstr(ref.txt, "err=0") || strstr(ref.txt, "end_chain=0")) ? "inputs_accepted" : "inputs_other", 1);
		if (in->consumer == 2 && strstr(in->label, "pkcs8")) vf_stat(strstr(ref.txt, "err=0") ? "inputs_skey_pkcs8_decoded" : "inputs_skey_pkcs8_other", 1);
		if (in->consumer == 4) {
			/* the same text once more without a destination for the decoded data: events, names and consumed byte
			   counts must be those of the run with a destination */
			uint64_t evh = pem_last_evh; int nev = pem_last_nev, kd; size_t cons = pem_last_consumed;
			for (pem_nodest = 1; pem_nodest <= 2; pem_nodest ++) {
				for (kd = 0; kd <= 3; kd += (kd == 0 ? 2 : 1)) {
					run_consumer(in, kd, 0, &r2, &o);
					vf_stat("cmp_pem_no_destination", 1);
					if (pem_last_evh != evh || pem_last_nev != nev || pem_last_consumed != cons) {
						snprintf(what, sizeof what, "pem_decoder without destination (%s, partition kind %d): events=%d consumed=%zu; with destination: events=%d consumed=%zu",
							pem_nodest == 1 ? "setdest(0)" : "setdest not called", kd, pem_last_nev, pem_last_consumed, nev, cons);
						TP_VIOL("chunking:pem_decoder:no-destination", what);
						bad = 1;
						break;
					}
				}
			}
			pem_nodest = 0;
			vf_stat("pem_inputs_without_destination", 1);
			vf_stat("pem_events_compared", nev);
		}
		for (sp = 1; sp < in->len && !bad; sp ++) {
			/* inputs of many kilobytes (a run costs 40 ms under the instrumented interpreter): every split in the first
			   and last 64 bytes and next to every multiple of 1024, every 211th split elsewhere */
			if (in->len > 6000 && sp > 64 && sp + 64 < in->len && ((sp + 1) & 1023) > 2 && sp % 211 != 0) continue;
			run_consumer(in, 1, sp, &r2, &o);
			vf_stat("runs_two_chunk", 1);
			if (o.h != ref.h) {
				snprintf(what, sizeof what, "%s: split at %zu gives [%s], single push gives [%s]", cname[in->consumer], sp, o.txt, ref.txt);
				snprintf(tp_case + strlen(tp_case), sizeof tp_case - strlen(tp_case), " split=%zu", sp);
				{ char key[80]; snprintf(key, sizeof key, "chunking:%s:two-chunk", cname[in->consumer]); TP_VIOL(key, what); }
				bad = 1;
			}
		}
		if (!bad) {
			run_consumer(in, 2, 0, &r2, &o);
			vf_stat("runs_one_byte", 1);
			if (o.h != ref.h) {
				snprintf(what, sizeof what, "%s: one-byte pushes give [%s], single push gives [%s]", cname[in->consumer], o.txt, ref.txt);
				{ char key[80]; snprintf(key, sizeof key, "chunking:%s:one-byte", cname[in->consumer]); TP_VIOL(key, what); }
				bad = 1;
			}
		}
		for (k = 0; k < nrand && !bad; k ++) {
			run_consumer(in, 3, 0, &r2, &o);
			vf_stat("runs_random_partition", 1);
			if (o.h != ref.h) {
				snprintf(what, sizeof what, "%s: random partition %d gives [%s], single push gives [%s]", cname[in->consumer], k, o.txt, ref.txt);
				{ char key[80]; snprintf(key, sizeof key, "chunking:%s:random", cname[in->consumer]); TP_VIOL(key, what); }
				bad = 1;
			}
		}
		vf_distinct("input", "%s/%s/%zu/%016llx", cname[in->consumer], in->label, in->len, (unsigned long long)ref.h);
		vf_stat("cases", 1);
		if (i < 3 * nworkers) vf_sample("{\"consumer\":\"%s\",\"input\":\"%s\",\"len\":%zu,\"outcome\":\"%s\"}", cname[in->consumer], in->label, in->len, ref.txt);
	}
}

/* ------------------------------------------------------------------ */
/* TLS endpoint causal replay */

#define MAXSEG 4000
typedef struct { size_t len, need_out; } seg;
static seg segs[MAXSEG];
static int nseg;
static unsigned char *in_stream; static size_t in_len, in_cap;
static unsigned char *out_ref; static size_t out_ref_len, out_ref_cap;
static tp_pair TP;
static int E_role;
static size_t app_write_len[2] = { 137, 211 };
static size_t close_after[2];

/* fixed application policy */
static void
app_policy(tp_ep *ep, int *wrote, int *closed)
{
	size_t l;
	if (!*wrote && tp_ep_ready(ep)) {
		tp_act_write(ep, app_write_len[ep->cfg.role]);
		tp_act_flush(ep, 0);
		*wrote = 1;
	}
	while (br_ssl_engine_recvapp_buf(ep->eng, &l)) tp_act_read(ep, l);
	if (!*closed && close_after[ep->cfg.role] && ep->rx_done >= close_after[ep->cfg.role] && *wrote) {
		tp_act_close(ep);
		*closed = 1;
	}
}

static void
ref_tap(void *arg, int dir, const unsigned char *data, size_t len)
{
	(void)arg;
	/* dir 0 = client->server. Incoming for E: dir == (E_role == 1 ? 0 : 1) */
	if (dir == (E_role == 1 ? 0 : 1)) {
		tp_ep *E = E_role == 0 ? &TP.c : &TP.s;
		rm_append_(&in_stream, &in_len, &in_cap, data, len);
		if (nseg < MAXSEG) { segs[nseg].len = len; segs[nseg].need_out = E->bytes_out; nseg ++; }
	} else {
		rm_append_(&out_ref, &out_ref_len, &out_ref_cap, data, len);
	}
}

typedef struct { int kx; unsigned version; int resumed; int cauth; int fault; int variant; } tscen;

static br_ssl_session_cache_lru lru;
static unsigned char lru_store[2000];

static void
scen_cfg(const tscen *sc, tp_cfg *cc, tp_cfg *sv, uint16_t *sb, uint64_t seedv)
{
	/* record protection per scenario variant: TLS 1.2: AES-GCM / CCM, ChaCha20-Poly1305, CBC with SHA-256 / the 256-bit and
	   SHA-384 suites and ChaCha20; TLS 1.0 and 1.1 (explicit IV): AES-128-CBC / 3DES and AES-256-CBC */
	static const uint16_t t12[3][5] = { { 0x009C, 0xC02F, 0xC02B, 0xC031, 0xC02D }, { 0xC09C, 0xCCA8, 0xC0AC, 0xC029, 0xC025 },
		{ 0x003D, 0xC028, 0xCCA9, 0xC032, 0xC02E } };
	static const uint16_t t10[2][5] = { { 0x002F, 0xC013, 0xC009, 0xC00E, 0xC004 }, { 0x000A, 0xC014, 0xC008, 0xC00F, 0xC005 } };
	vf_rng r;
	vf_rng_init(&r, seedv, 77);
	tp_cfg_default(cc, 0); tp_cfg_default(sv, 1);
	sb[0] = sc->version == 0x0303 ? t12[sc->variant % 3][sc->kx] : t10[sc->variant % 2][sc->kx];
	cc->suites = sb; cc->nsuites = 1; cc->vmin = cc->vmax = sc->version;
	sv->keykind = tp_key_for_suite(tp_suite_find(sb[0]), 0);
	cc->client_auth = sc->cauth; sv->client_auth = sc->cauth ? 1 : 0;
	/* RSA client certificates: alone, with its intermediate, and an RSA-4096 key (CertificateVerify with a 512-byte signature) */
	if (sc->cauth == 1) cc->chain_kind = (int)(((unsigned)sc->kx + sc->version) % 3);
	/* every other scenario: a client with 837 / 597-byte buffers: its hello asks for 512-byte fragments, the server's
	   flight and data leave in many small records (what the server emits after the extension must not depend on
	   where the bytes of the hello were cut) */
	if (sc->variant & 1) { cc->layout = TP_LAYOUT_SPLIT2; cc->buflen = 512 + 325; cc->buflen_out = 512 + 85; }
	vf_bytes(&r, cc->seed, 32); vf_bytes(&r, sv->seed, 32);
	if (sc->resumed) { sv->cache = &lru.vtable; }
}

static int
run_reference(const tscen *sc, uint64_t seedv)
{
	tp_cfg cc, sv;
	uint16_t sb[1];
	int wrote[2] = { 0, 0 }, closed[2] = { 0, 0 };
	long n = 0;
	scen_cfg(sc, &cc, &sv, sb, seedv);
	if (sc->resumed) br_ssl_session_cache_lru_init(&lru, lru_store, sizeof lru_store);
	tp_pair_init(&TP, seedv, 3, TP_CHUNK_WHOLE);
	if (!tp_ep_start(&TP.c, &cc) || !tp_ep_start(&TP.s, &sv)) return 0;
	TP.c.tx_key = 5; TP.c.rx_key = 6; TP.s.tx_key = 6; TP.s.rx_key = 5;
	if (sc->resumed) {
		/* preparatory full handshake + close, then the recorded one is the resumed handshake */
		tp_cfg c2, s2;
		if (!tp_handshake(&TP, 1000000)) return 0;
		tp_run_close(&TP, 0, 100000);
		c2 = cc; s2 = sv; c2.reuse_ctx = 1; c2.resume = 1; s2.reuse_ctx = 1;
		memset(c2.seed, 0x61, 32); memset(s2.seed, 0x62, 32);
		TP.c2s.rd = TP.c2s.wr = 0; TP.s2c.rd = TP.s2c.wr = 0;
		if (!tp_ep_start(&TP.c, &c2) || !tp_ep_start(&TP.s, &s2)) return 0;
		TP.c.tx_key = 5; TP.c.rx_key = 6; TP.s.tx_key = 6; TP.s.rx_key = 5;
	}
	nseg = 0; in_len = 0; out_ref_len = 0;
	TP.tap = ref_tap;
	close_after[0] = app_write_len[1]; close_after[1] = 0;      /* the client closes after reading the server's message */
	while (n ++ < 1000000) {
		int moved = tp_pump_step(&TP);
		app_policy(&TP.c, &wrote[0], &closed[0]);
		app_policy(&TP.s, &wrote[1], &closed[1]);
		if (!moved && !(br_ssl_engine_current_state(TP.c.eng) & BR_SSL_SENDREC) && !(br_ssl_engine_current_state(TP.s.eng) & BR_SSL_SENDREC)) break;
	}
	return 1;
}

/* replay the endpoint alone; returns outcome */
static void
replay(const tscen *sc, uint64_t seedv, int kind, vf_rng *r, const unsigned char *stream, size_t slen, outcome *o,
	unsigned char **outbuf, size_t *outlen)
{
	tp_cfg cc, sv;
	uint16_t sb[1];
	tp_ep *E;
	int wrote = 0, closed = 0, si = 0, guard = 0;
	size_t fed = 0, seg_left, cap = 0;
	tp_fifo outf;
	static tp_pair P2;
	(void)cap;
	memset(o, 0, sizeof *o);
	scen_cfg(sc, &cc, &sv, sb, seedv);
	/* same context construction as in the reference, including the preparatory session for resumption */
	if (sc->resumed) {
		br_ssl_session_cache_lru_init(&lru, lru_store, sizeof lru_store);
		tp_pair_init(&P2, seedv, 3, TP_CHUNK_WHOLE);
		tp_ep_start(&P2.c, &cc); tp_ep_start(&P2.s, &sv);
		P2.c.tx_key = 5; P2.c.rx_key = 6; P2.s.tx_key = 6; P2.s.rx_key = 5;
		tp_handshake(&P2, 1000000);
		tp_run_close(&P2, 0, 100000);
		{
			tp_cfg c2 = cc, s2 = sv;
			c2.reuse_ctx = 1; c2.resume = 1; s2.reuse_ctx = 1;
			memset(c2.seed, 0x61, 32); memset(s2.seed, 0x62, 32);
			tp_ep_start(&P2.c, &c2); tp_ep_start(&P2.s, &s2);
		}
		P2.c.tx_key = 5; P2.c.rx_key = 6; P2.s.tx_key = 6; P2.s.rx_key = 5;
	} else {
		tp_pair_init(&P2, seedv, 3, TP_CHUNK_WHOLE);
		if (E_role == 0) tp_ep_start(&P2.c, &cc); else tp_ep_start(&P2.s, &sv);
		P2.c.tx_key = 5; P2.c.rx_key = 6; P2.s.tx_key = 6; P2.s.rx_key = 5;
	}
	E = E_role == 0 ? &P2.c : &P2.s;
	tp_fifo_init(&outf);
	seg_left = nseg ? segs[0].len : 0;
	while (guard ++ < 2000000) {
		unsigned st = br_ssl_engine_current_state(E->eng);
		size_t l, allowed = 0;
		int j;
		if (st & BR_SSL_CLOSED) break;
		app_policy(E, &wrote, &closed);
		st = br_ssl_engine_current_state(E->eng);
		if (st & BR_SSL_CLOSED) break;
		/* bytes that causality allows now: all segments whose need_out <= bytes emitted so far */
		{
			size_t acc = 0; int q = si; size_t left = seg_left;
			while (q < nseg && segs[q].need_out <= E->bytes_out) { acc += left; q ++; left = q < nseg ? segs[q].len : 0; }
			allowed = acc;
		}
		if (allowed > slen - fed) allowed = slen - fed;
		/* output is always collected (in chunks of varying size) before more input is given: what the
		   endpoint has produced for the input consumed so far is then independent of the harness */
		if (st & BR_SSL_SENDREC) {
			br_ssl_engine_sendrec_buf(E->eng, &l);
			tp_act_sendrec(E, &outf, kind == 2 ? 1 : tp_chunk(r, TP_CHUNK_MIXED, l));
			continue;
		}
		if ((st & BR_SSL_RECVREC) && allowed > 0) {
			size_t k;
			br_ssl_engine_recvrec_buf(E->eng, &l);
			if (l > allowed) l = allowed;
			k = kind == 0 ? l : (kind == 2 ? 1 : tp_chunk(r, TP_CHUNK_MIXED, l));
			{
				unsigned char *b = br_ssl_engine_recvrec_buf(E->eng, &l);
				memcpy(b, stream + fed, k);
				br_ssl_engine_recvrec_ack(E->eng, k);
				E->bytes_in += k; tp_calls ++; tp_check(E, "recvrec_ack");
			}
			fed += k;
			/* advance segment cursor */
			j = (int)k;
			while (j > 0 && si < nseg) {
				if ((size_t)j >= seg_left) { j -= (int)seg_left; si ++; seg_left = si < nseg ? segs[si].len : 0; }
				else { seg_left -= (size_t)j; j = 0; }
			}
			continue;
		}
		if (st & BR_SSL_SENDREC) { br_ssl_engine_sendrec_buf(E->eng, &l); tp_act_sendrec(E, &outf, l); continue; }
		break;
	}
	oc_add(o, outf.data + outf.rd, tp_fifo_len(&outf));
	oc_int(o, (long)E->rx_done); oc_int(o, E->rx_bad);
	oc_int(o, (long)br_ssl_engine_current_state(E->eng)); oc_int(o, br_ssl_engine_last_error(E->eng));
	snprintf(o->txt, sizeof o->txt, "emitted=%zu delivered=%zu state=%u err=%d consumed=%zu", tp_fifo_len(&outf), E->rx_done,
		br_ssl_engine_current_state(E->eng), br_ssl_engine_last_error(E->eng), fed);
	if (outbuf) { *outbuf = vf_dup(outf.data + outf.rd, tp_fifo_len(&outf)); *outlen = tp_fifo_len(&outf); }
	tp_fifo_free(&outf);
	tp_pair_free(&P2);
}

static void
mode_tls(long long seed, int worker, int nworkers, int nrand, int nfault)
{
	static const char *kxn[5] = { "RSA", "ECDHE_RSA", "ECDHE_ECDSA", "ECDH_RSA", "ECDH_ECDSA" };
	int idx = 0, kx, res, ca, role;
	unsigned v;
	for (kx = 0; kx < 5; kx ++) for (v = 0x0301; v <= 0x0303; v ++) for (res = 0; res < 2; res ++) for (ca = 0; ca < 3; ca ++) for (role = 0; role < 2; role ++) {
		tscen sc;
		uint64_t seedv = (uint64_t)seed * 9973 + (uint64_t)idx;
		outcome ref, o;
		vf_rng r;
		unsigned char *obuf = NULL; size_t olen = 0;
		int k, f;
		char what[500];
		if (res && ca) continue;
		if ((idx ++ % nworkers) != worker) continue;
		sc.kx = kx; sc.version = v; sc.resumed = res; sc.cauth = ca; sc.fault = 0;
		sc.variant = (int)((unsigned)seed + (unsigned)(res * 2 + (ca ? 1 : 0)) + (unsigned)role + (unsigned)kx) ;
		E_role = role;
		vf_rng_init(&r, seedv, 5);
		snprintf(tp_case, sizeof tp_case, "seed=%lld tls kx=%s ver=%04x variant=%d resumed=%d cauth=%d endpoint=%s", seed, kxn[kx], v, sc.variant, res, ca, role ? "server" : "client");
		if (!run_reference(&sc, seedv)) { TP_VIOL("setup", "reference run failed"); tp_pair_free(&TP); continue; }
		tp_pair_free(&TP);
		vf_stat("scenarios", 1);
		/* reference replay: whole segments; its emitted stream must equal what the endpoint emitted in the pair run */
		replay(&sc, seedv, 0, &r, in_stream, in_len, &ref, &obuf, &olen);
		if (olen != out_ref_len || memcmp(obuf, out_ref, olen) != 0) {
			snprintf(what, sizeof what, "stand-alone replay emitted %zu bytes, the same endpoint in the recorded session emitted %zu (or contents differ): [%s]", olen, out_ref_len, ref.txt);
			TP_VIOL("chunking:tls:replay-differs-from-session", what);
			free(obuf);
			continue;
		}
		free(obuf);
		vf_stat("replays", 1);
		for (k = 0; k < nrand + 1; k ++) {
			replay(&sc, seedv, k == 0 ? 2 : 3, &r, in_stream, in_len, &o, NULL, NULL);
			vf_stat("replays", 1);
			vf_stat(k == 0 ? "runs_one_byte" : "runs_random_partition", 1);
			if (o.h != ref.h) {
				snprintf(what, sizeof what, "%s chunking gives [%s], segment-wise delivery gives [%s]", k == 0 ? "one-byte" : "random", o.txt, ref.txt);
				TP_VIOL("chunking:tls:emitted-stream-differs", what);
				break;
			}
		}
		/* faulted streams: one altered byte; outcome (emitted bytes, error) must again be chunking independent */
		for (f = 0; f < nfault; f ++) {
			static unsigned char fs[1 << 17];
			size_t pos = vf_below(&r, (uint32_t)in_len);
			outcome fr;
			memcpy(fs, in_stream, in_len);
			fs[pos] ^= (unsigned char)(1 + vf_below(&r, 255));
			replay(&sc, seedv, 0, &r, fs, in_len, &fr, NULL, NULL);
			for (k = 0; k < 3; k ++) {
				replay(&sc, seedv, k == 0 ? 2 : 3, &r, fs, in_len, &o, NULL, NULL);
				vf_stat("replays", 1); vf_stat("runs_faulted", 1);
				if (o.h != fr.h) {
					snprintf(what, sizeof what, "altered byte %zu: chunking %d gives [%s], segment-wise delivery gives [%s]", pos, k, o.txt, fr.txt);
					TP_VIOL("chunking:tls:faulted-stream-outcome-differs", what);
					break;
				}
			}
		}
		/* structural faults: an unprotected alert record inserted at a record boundary of the cleartext
		   phase (warning close_notify, ignorable warning, fatal alert, two alerts in one record) */
		{
			static const unsigned char alerts[4][5] = { { 2, 1, 0 }, { 2, 1, 90 }, { 2, 2, 40 }, { 4, 1, 90, 1, 0 } };
			static unsigned char fs[1 << 17];
			size_t o2 = 0;
			int nb = 0, a;
			while (o2 + 5 <= in_len && nb < 6) {
				size_t rl = ((size_t)in_stream[o2 + 3] << 8) | in_stream[o2 + 4];
				if (in_stream[o2] == 20 || o2 + 5 + rl > in_len) break;
				for (a = 0; a < 4; a ++) {
					size_t al = alerts[a][0], acc = 0;
					int q;
					outcome fr;
					if (((nb + a) & 1) && nfault < 8) continue;      /* quick tier: half of the (position, alert) pairs */
					memcpy(fs, in_stream, o2);
					fs[o2] = 21; fs[o2 + 1] = in_stream[o2 + 1]; fs[o2 + 2] = in_stream[o2 + 2]; fs[o2 + 3] = 0; fs[o2 + 4] = (unsigned char)al;
					memcpy(fs + o2 + 5, alerts[a] + 1, al);
					memcpy(fs + o2 + 5 + al, in_stream + o2, in_len - o2);
					/* the inserted bytes travel with the segment that starts at (or contains) the insertion point */
					for (q = 0; q < nseg; q ++) { if (o2 < acc + segs[q].len) break; acc += segs[q].len; }
					if (q == nseg) q = nseg - 1;
					segs[q].len += 5 + al;
					replay(&sc, seedv, 0, &r, fs, in_len + 5 + al, &fr, NULL, NULL);
					for (k = 0; k < 3; k ++) {
						replay(&sc, seedv, k == 0 ? 2 : 3, &r, fs, in_len + 5 + al, &o, NULL, NULL);
						vf_stat("replays", 1); vf_stat("runs_inserted_alert", 1);
						if (o.h != fr.h) {
							snprintf(what, sizeof what, "alert record %s inserted at stream offset %zu: chunking %d gives [%s], segment-wise delivery gives [%s]",
								vf_hexs(alerts[a] + 1, al), o2, k, o.txt, fr.txt);
							TP_VIOL("chunking:tls:inserted-alert-outcome-differs", what);
							break;
						}
					}
					segs[q].len -= 5 + al;
				}
				o2 += 5 + rl; nb ++;
			}
		}
		vf_distinct("input", "tls/%s/%04x/r%d/ca%d/%s", kxn[kx], v, res, ca, role ? "server" : "client");
		vf_stat("cases", 1);
		vf_sample("{\"consumer\":\"tls-%s\",\"kx\":\"%s\",\"version\":\"%04x\",\"resumed\":%d,\"client_auth\":%d,\"incoming_bytes\":%zu,\"segments\":%d,\"outcome\":\"%s\"}",
			role ? "server" : "client", kxn[kx], v, res, ca, in_len, nseg, ref.txt);
	}
}

int
main(int argc, char **argv)
{
	long long seed = vf_argi(argc, argv, "--seed", 1);
	int worker = (int)vf_argi(argc, argv, "--worker", 0);
	int nworkers = (int)vf_argi(argc, argv, "--nworkers", 1);
	const char *mode = vf_arg(argc, argv, "--mode", "dec");
	tp_prop = "C07";
	if (!strcmp(mode, "dec")) mode_dec(seed, worker, nworkers, (int)vf_argi(argc, argv, "--mutations", 4),
		(int)vf_argi(argc, argv, "--random", 32), (int)vf_argi(argc, argv, "--inputs", 100000));
	else mode_tls(seed, worker, nworkers, (int)vf_argi(argc, argv, "--random", 8), (int)vf_argi(argc, argv, "--faults", 4));
	vf_stat("monitored_calls", tp_calls);
	vf_done();
	return 0;
}
