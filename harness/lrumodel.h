/*
 * C17 reference models of a session cache, shared by h_lru and h_resume.
 *
 * An lm_model is a least-recently-used map of fixed capacity over integer
 * IDs; a value is named by a serial number (the harness knows which
 * (version, suite, master secret) belongs to a serial). Two refinements of
 * the documented "forget disables the entry":
 *   LM_TOMB    the disabled entry keeps its slot and its place in the recency
 *              order until it ages out; it is never found and never refreshed
 *   LM_REMOVE  the entry is removed and its slot is free again
 * Without forget both are the same exact LRU map. The models share no code
 * with ssl_lru.c (arrays in recency order, linear search, no tree, no links).
 */
#ifndef LRUMODEL_H__
#define LRUMODEL_H__

#include "common.h"

#define LM_TOMB    0
#define LM_REMOVE  1
#define LM_MAXCAP  1536

typedef struct { int id; int dead; uint32_t serial; } lm_ent;

typedef struct {
	int cap, n, mode;
	lm_ent e[LM_MAXCAP];     /* e[0] most recently used ... e[n-1] least */
} lm_model;

static inline void
lm_init(lm_model *m, int cap, int mode)
{
	if (cap > LM_MAXCAP) { fprintf(stderr, "lm_init: capacity too large\n"); exit(2); }
	m->cap = cap; m->n = 0; m->mode = mode;
}

/* copy only what is in use (cheap snapshots for the enumeration) */
static inline void
lm_copy(lm_model *dst, const lm_model *src)
{
	dst->cap = src->cap; dst->n = src->n; dst->mode = src->mode;
	memcpy(dst->e, src->e, (size_t)src->n * sizeof src->e[0]);
}

static inline int
lm_find(const lm_model *m, int id)
{
	int i;
	for (i = 0; i < m->n; i ++) if (m->e[i].id == id) return i;
	return -1;
}

/* present in the index, enabled or disabled */
static inline int
lm_indexed(const lm_model *m, int id) { return lm_find(m, id) >= 0; }

static inline int
lm_live(const lm_model *m, int id)
{
	int i = lm_find(m, id);
	return i >= 0 && !m->e[i].dead;
}

/*
 * Save. Precondition (documented: the ID is freshly generated): id is not
 * indexed. Returns 0 if the precondition does not hold (nothing done), 1 if
 * stored, 2 if stored after evicting the least recently used entry.
 */
static inline int
lm_save(lm_model *m, int id, uint32_t serial)
{
	int r = 1;
	if (m->cap == 0) return 1;
	if (lm_indexed(m, id)) return 0;
	if (m->n == m->cap) { m->n --; r = 2; }
	memmove(m->e + 1, m->e, (size_t)m->n * sizeof m->e[0]);
	m->e[0].id = id; m->e[0].dead = 0; m->e[0].serial = serial;
	m->n ++;
	return r;
}

/* Lookup; a hit moves the entry to the most-recently-used position. */
static inline int
lm_load(lm_model *m, int id, uint32_t *serial)
{
	int i = lm_find(m, id);
	lm_ent t;
	if (i < 0 || m->e[i].dead) return 0;
	t = m->e[i];
	memmove(m->e + 1, m->e, (size_t)i * sizeof m->e[0]);
	m->e[0] = t;
	if (serial) *serial = t.serial;
	return 1;
}

/* Forget; returns 1 if an enabled entry was disabled / removed. */
static inline int
lm_forget(lm_model *m, int id)
{
	int i = lm_find(m, id);
	if (i < 0 || m->e[i].dead) return 0;
	if (m->mode == LM_TOMB) {
		m->e[i].dead = 1;
	} else {
		memmove(m->e + i, m->e + i + 1, (size_t)(m->n - i - 1) * sizeof m->e[0]);
		m->n --;
	}
	return 1;
}

#endif
