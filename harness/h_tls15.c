/*
 * C15: negotiation outcome equals a reference function of both configurations.
 *
 * E1 "tlspair" in negotiate mode. For every case this harness builds a client
 * and a server configuration, runs the handshake and appends ONE JSON object
 * to the case log (--log <path>): both configurations and what both endpoints
 * and the independent wire decoder observed. It does not judge anything: the
 * oracle is the offline checker harness/nego_ref.py (Python, no shared code).
 * Scripted ClientHellos (no client engine) cover what a BearSSL client cannot
 * send; for them the log carries the raw hello and the checker decodes it.
 * Scripted ServerHellos (no server engine) do the same for a client engine:
 * honest, odd and hostile answers to its ClientHello; the log carries the
 * records fed to the client and what the client reports afterwards.
 *
 * Only counters / distinct tokens / samples go through the stdout protocol.
 */
#include "tlsmon.h"

static FILE *LOG;

/* ------------------------------------------------------------------ */
/* configuration of one side */

typedef struct {
	unsigned vmin, vmax;
	uint16_t suites[96]; size_t nsuites;
	unsigned hashes;            /* bit id (1 = MD5 .. 6 = SHA-512) set: implementation present */
	uint32_t curves;            /* bit x set: curve x offered by the engine's EC implementation */
	const char *alpn[4]; size_t nalpn;
	uint32_t flags;
	/* client */
	char sni[260]; int has_sni;
	int cert;                   /* 0 none, 1 RSA, 2 EC */
	/* server */
	int key;                    /* 0 RSA; 1 EC P-256, EC issuer; 2 EC P-256, RSA issuer; 3 EC P-384, EC issuer */
	unsigned usages;            /* BR_KEYTYPE_KEYX / BR_KEYTYPE_SIGN */
	int creq;                   /* request a client certificate */
	int profile;                /* 1..7: the context is set up by br_ssl_server_init_mine2c .. minv2g and left as it is; the fields above say what that profile means */
	/* run time */
	br_ec_impl ec;              /* EC implementation with a restricted supported_curves mask */
} side;

#define CURVES_ALL  (((uint32_t)1 << 23) | ((uint32_t)1 << 24) | ((uint32_t)1 << 25) | ((uint32_t)1 << 29))
#define HASHES_ALL  0x7Eu
static const int curve_ids[4] = { 23, 24, 25, 29 };
/* several names are proper prefixes of others: matching must be exact */
static const char *alpn_universe[8] = { "h2", "http/1.1", "spdy/3", "x-verif", "h2c", "http/1", "spdy/3.1", "x" };
static const char *kind_names[] = { "versions", "single", "pair", "flags", "subsets", "alpn-sni", "random", "scripted", "scripted_srv", "resume", "profile" };
enum { K_VERSIONS, K_SINGLE, K_PAIR, K_FLAGS, K_SUBSETS, K_ALPN, K_RANDOM, K_SCRIPTED, K_SCRIPTED_SRV, K_RESUME, K_PROFILE };
#define NSLOTS 10   /* case idx -> slot idx % NSLOTS -> kind; q = idx / NSLOTS enumerates within a kind */

/* name-check bypass: the fixture certificates carry localhost / www.example.com only */
static void
nb_start_chain(const br_x509_class **ctx, const char *server_name)
{
	tp_xwrap *w = (tp_xwrap *)(void *)ctx;
	w->n_start_chain ++;
	w->n_start_cert = 0;
	w->verdict_seen = 0;
	w->has_server_name = server_name != NULL;
	snprintf(w->server_name, sizeof w->server_name, "%s", server_name ? server_name : "");
	w->inner->vtable->start_chain(&w->inner->vtable, NULL);
}
static const br_x509_class nb_vtable = {
	sizeof(tp_xwrap),
	nb_start_chain, tpx_start_cert, tpx_append, tpx_end_cert, tpx_end_chain, tpx_get_pkey
};

static void
pre_reset(void *epv, void *arg)
{
	tp_ep *ep = epv;
	side *sd = arg;
	const br_ec_impl *dflt = br_ssl_engine_get_ec(ep->eng);
	int id;

	/* a context in its second life already runs on the restricted copy made for its first one: the default
	   implementation is the one the first fresh engine of this process was given */
	{
		static const br_ec_impl *real_default;
		if (real_default == NULL) real_default = dflt;
		dflt = real_default;
	}

	if (sd->profile) return;      /* a minimal server profile: nothing is touched after the library's own initialisation */
	for (id = 1; id <= 6; id ++) {
		if (!((sd->hashes >> id) & 1)) br_ssl_engine_set_hash(ep->eng, id, NULL);
	}
	sd->ec = *dflt;
	sd->ec.supported_curves &= sd->curves;
	br_ssl_engine_set_ec(ep->eng, &sd->ec);
	if (ep->cfg.role == 1) {
		switch (sd->key) {
		case 0:
			br_ssl_server_set_single_rsa(ep->sc, tp_fx.ch_srv_rsa, 1, &tp_fx.srv_rsa.rsa, sd->usages,
				br_rsa_private_get_default(), br_rsa_pkcs1_sign_get_default());
			break;
		case 1:
			br_ssl_server_set_single_ec(ep->sc, tp_fx.ch_srv_ecec, 1, &tp_fx.srv_ecec.ec, sd->usages,
				BR_KEYTYPE_EC, dflt, br_ecdsa_sign_asn1_get_default());
			break;
		case 2:
			br_ssl_server_set_single_ec(ep->sc, tp_fx.ch_srv_ecrsa, 1, &tp_fx.srv_ecrsa.ec, sd->usages,
				BR_KEYTYPE_RSA, dflt, br_ecdsa_sign_asn1_get_default());
			break;
		default:
			br_ssl_server_set_single_ec(ep->sc, tp_fx.ch_srv_ec384, 1, &tp_fx.srv_ec384.ec, sd->usages,
				BR_KEYTYPE_EC, dflt, br_ecdsa_sign_asn1_get_default());
			break;
		}
	} else {
		if (sd->has_sni && strcmp(sd->sni, "localhost") != 0 && strcmp(sd->sni, "www.example.com") != 0) {
			ep->xw->vtable = &nb_vtable;
		} else {
			ep->xw->vtable = &tpx_vtable;
		}
	}
}

/* an application policy handler that looks at what the documented accessors say about the ClientHello
   (br_ssl_server_get_client_suites / _hashes / _curves) and then lets the configured handler decide */
typedef struct {
	const br_ssl_server_policy_class *vtable;
	const br_ssl_server_policy_class **inner;
	int calls;
	size_t ns;
	uint16_t suites[100];
	uint32_t hashes, curves;
} obs_policy;
static obs_policy OBS;

static int
obs_choose(const br_ssl_server_policy_class **pctx, const br_ssl_server_context *cc, br_ssl_server_choices *choices)
{
	obs_policy *o = (obs_policy *)(void *)pctx;
	size_t n, i;
	const br_suite_translated *st = br_ssl_server_get_client_suites(cc, &n);
	o->calls ++;
	o->ns = n > 100 ? 100 : n;
	for (i = 0; i < o->ns; i ++) o->suites[i] = st[i][0];
	o->hashes = br_ssl_server_get_client_hashes(cc);
	o->curves = br_ssl_server_get_client_curves(cc);
	return (*o->inner)->choose(o->inner, cc, choices);
}
static uint32_t
obs_do_keyx(const br_ssl_server_policy_class **pctx, unsigned char *data, size_t *len)
{
	obs_policy *o = (obs_policy *)(void *)pctx;
	return (*o->inner)->do_keyx(o->inner, data, len);
}
static size_t
obs_do_sign(const br_ssl_server_policy_class **pctx, unsigned algo_id, unsigned char *data, size_t hv_len, size_t len)
{
	obs_policy *o = (obs_policy *)(void *)pctx;
	return (*o->inner)->do_sign(o->inner, algo_id, data, hv_len, len);
}
static const br_ssl_server_policy_class obs_vtable = { sizeof(obs_policy), obs_choose, obs_do_keyx, obs_do_sign };

static void
side_to_cfg(side *sd, int role, tp_cfg *c, vf_rng *r)
{
	tp_cfg_default(c, role);
	c->vmin = sd->vmin; c->vmax = sd->vmax;
	c->suites = sd->suites; c->nsuites = sd->nsuites;
	c->flags = sd->flags; c->flags_set = 1;
	if (sd->nalpn) { c->alpn = sd->alpn; c->nalpn = sd->nalpn; }
	if (role == 0) {
		c->sni = sd->has_sni ? sd->sni : "";
		c->client_auth = sd->cert;
	} else {
		c->keykind = sd->key == 0 ? TP_KEY_RSA : (sd->key == 2 ? TP_KEY_ECRSA : TP_KEY_ECEC);
		c->use_ec384 = sd->key == 3;
		c->client_auth = sd->creq;
	}
	if (role == 1 && sd->profile) {
		c->profile = sd->profile;
		c->vmin = c->vmax = 0; c->suites = NULL; c->nsuites = 0; c->flags_set = 0; c->alpn = NULL; c->nalpn = 0;
	}
	c->pre_reset = pre_reset; c->pre_reset_arg = sd;
	vf_bytes(r, c->seed, 32);
}

/* ------------------------------------------------------------------ */
/* generators */

static int
suite_needs_ok(const tp_suite_info *s, unsigned hashes)
{
	if (s->mac && !((hashes >> s->mac) & 1)) return 0;
	if (!((hashes >> s->prf) & 1)) return 0;
	return 1;
}

static void
filter_by_hashes(side *sd)
{
	size_t i, n = 0;
	for (i = 0; i < sd->nsuites; i ++) {
		const tp_suite_info *s = tp_suite_find(sd->suites[i]);
		if (s == NULL || suite_needs_ok(s, sd->hashes)) sd->suites[n ++] = sd->suites[i];
	}
	sd->nsuites = n;
}

static int
real_suites(const side *sd)
{
	size_t i; int n = 0;
	for (i = 0; i < sd->nsuites; i ++) if (tp_suite_find(sd->suites[i])) n ++;
	return n;
}

static void
all_suites(side *sd)
{
	size_t i;
	for (i = 0; i < TP_NSUITES; i ++) sd->suites[i] = tp_suites[i].id;
	sd->nsuites = TP_NSUITES;
}

static void
shuffle16(vf_rng *r, uint16_t *a, size_t n)
{
	size_t i;
	for (i = n; i > 1; i --) {
		size_t j = vf_below(r, (uint32_t)i);
		uint16_t t = a[i - 1]; a[i - 1] = a[j]; a[j] = t;
	}
}

static int
key_to_kind(int key) { return key == 0 ? TP_KEY_RSA : (key == 2 ? TP_KEY_ECRSA : TP_KEY_ECEC); }

/* n distinct suites; `bias` percent of the draws are taken among those that fit the server key */
static void
random_suites(vf_rng *r, side *sd, size_t n, int key, int bias)
{
	uint16_t pool[TP_NSUITES];
	size_t i, k = 0;
	all_suites(sd);
	memcpy(pool, sd->suites, sizeof pool);
	shuffle16(r, pool, TP_NSUITES);
	if (n > TP_NSUITES) n = TP_NSUITES;
	/* fitting suites first, with probability bias each */
	for (i = 0; i < TP_NSUITES && k < n; i ++) {
		if (pool[i] && tp_suite_fits_key(tp_suite_find(pool[i]), key_to_kind(key)) && (int)vf_below(r, 100) < bias) {
			sd->suites[k ++] = pool[i]; pool[i] = 0;
		}
	}
	for (i = 0; i < TP_NSUITES && k < n; i ++) {
		if (pool[i]) { sd->suites[k ++] = pool[i]; pool[i] = 0; }
	}
	sd->nsuites = k;
	shuffle16(r, sd->suites, k);
}

static void
range_from_index(int i, unsigned *vmin, unsigned *vmax)
{
	static const unsigned char t[6][2] = { {1,1}, {1,2}, {1,3}, {2,2}, {2,3}, {3,3} };
	*vmin = 0x0300 + t[i][0]; *vmax = 0x0300 + t[i][1];
}

static void
random_alpn(vf_rng *r, side *sd, size_t n)
{
	int perm[8] = { 0, 1, 2, 3, 4, 5, 6, 7 }, i;
	for (i = 8; i > 1; i --) { int j = (int)vf_below(r, (uint32_t)i), t = perm[i - 1]; perm[i - 1] = perm[j]; perm[j] = t; }
	sd->nalpn = n;
	for (i = 0; i < (int)n; i ++) sd->alpn[i] = alpn_universe[perm[i]];
}

static void
random_sni(vf_rng *r, side *sd)
{
	size_t i, n;
	sd->has_sni = 1;
	switch (vf_below(r, 8)) {
	case 0: sd->has_sni = 0; sd->sni[0] = 0; break;
	case 1: strcpy(sd->sni, "www.example.com"); break;
	case 2: strcpy(sd->sni, "a"); break;
	case 3: strcpy(sd->sni, "MiXed.Case.EXAMPLE.org"); break;
	case 4: for (i = 0; i < 255; i ++) sd->sni[i] = (char)('a' + (i % 26)); sd->sni[255] = 0; break;
	case 5:   /* arbitrary non-zero bytes */
		n = 1 + vf_below(r, 255);
		for (i = 0; i < n; i ++) sd->sni[i] = (char)(1 + vf_below(r, 255));
		sd->sni[n] = 0;
		break;
	case 6:
		n = 1 + vf_below(r, 40);
		for (i = 0; i < n; i ++) sd->sni[i] = "abcdefghijklmnopqrstuvwxyz0123456789-."[vf_below(r, 38)];
		sd->sni[n] = 0;
		break;
	default: strcpy(sd->sni, "localhost"); break;
	}
}

static uint32_t
random_curves(vf_rng *r)
{
	uint32_t m = 0;
	unsigned sub = 1 + vf_below(r, 15);
	int i;
	for (i = 0; i < 4; i ++) if ((sub >> i) & 1) m |= (uint32_t)1 << curve_ids[i];
	return m;
}

static uint32_t
curves_from_index(int sub)   /* 1..15 */
{
	uint32_t m = 0;
	int i;
	for (i = 0; i < 4; i ++) if ((sub >> i) & 1) m |= (uint32_t)1 << curve_ids[i];
	return m;
}

/*
 * Make a side's configuration consistent with the caller's obligations:
 * "all provided suites will be supported by the context" - a handshake below
 * TLS 1.2 hashes with MD5 and SHA-1, a suite needs its MAC and PRF hashes.
 */
static void
apply_hashes(side *sd, unsigned hashes)
{
	side save = *sd;
	sd->hashes = hashes;
	if ((hashes & 0x06) != 0x06) {
		if (sd->vmax < 0x0303) { sd->hashes |= 0x06; }
		else sd->vmin = 0x0303;
	}
	filter_by_hashes(sd);
	if (real_suites(sd) == 0) { *sd = save; sd->hashes = HASHES_ALL; }
}

static void
gen_case(vf_rng *r, long long seed, long idx, int *kind_out, side *C, side *S)
{
	long q = idx / NSLOTS;
	int k = (int)(idx % NSLOTS), kind;
	int vi;

	memset(C, 0, sizeof *C); memset(S, 0, sizeof *S);
	switch (k) {
	case 0: kind = K_VERSIONS; break;
	case 1: kind = K_SINGLE; break;
	case 2: case 3: kind = K_PAIR; break;
	case 4: kind = K_FLAGS; break;
	case 5: kind = K_SUBSETS; break;
	case 6: kind = (q % 3) == 2 ? K_PROFILE : (q & 1) ? K_ALPN : K_RANDOM; break;
	case 7: kind = K_SCRIPTED; break;
	case 8: kind = K_SCRIPTED_SRV; break;
	default: kind = K_RESUME; break;
	}
	*kind_out = kind;

	/* server key first: suite choices are biased by it */
	S->key = (int)vf_below(r, 4);
	S->usages = BR_KEYTYPE_KEYX | BR_KEYTYPE_SIGN;
	if (vf_below(r, 100) < 28) S->usages = vf_below(r, 2) ? BR_KEYTYPE_KEYX : BR_KEYTYPE_SIGN;

	/* versions */
	C->vmin = S->vmin = 0x0301; C->vmax = S->vmax = 0x0303;
	if (kind == K_VERSIONS) {
		vi = (int)(q % 36);
		range_from_index(vi / 6, &C->vmin, &C->vmax);
		range_from_index(vi % 6, &S->vmin, &S->vmax);
	} else if (vf_below(r, 100) < 30) {
		range_from_index((int)vf_below(r, 6), &C->vmin, &C->vmax);
		range_from_index((int)vf_below(r, 6), &S->vmin, &S->vmax);
	}

	/* suites */
	all_suites(C); all_suites(S);
	if (kind == K_SINGLE) {
		int combo = (int)(q % 135);
		static const int keys3[3] = { 0, 1, 2 };
		C->suites[0] = tp_suites[combo % 45].id; C->nsuites = 1;
		S->key = keys3[combo / 45];
		if (S->key == 1 && vf_below(r, 4) == 0) S->key = 3;
		if (vf_below(r, 2)) shuffle16(r, S->suites, S->nsuites);
		if (vf_below(r, 8) == 0) random_suites(r, S, 1 + vf_below(r, 45), S->key, 50);
	} else if (kind == K_PAIR) {
		long pi = q * 2 + (k - 2);
		long pidx = (long)(((uint64_t)pi * 7919u + (uint64_t)seed * 1009u) % 5940u);
		int a = (int)((pidx % 1980) / 44), b = (int)((pidx % 1980) % 44);
		static const int keys3[3] = { 0, 1, 2 };
		if (b >= a) b ++;
		C->suites[0] = tp_suites[a].id; C->suites[1] = tp_suites[b].id; C->nsuites = 2;
		S->key = keys3[pidx / 1980];
		if (S->key == 1 && vf_below(r, 4) == 0) S->key = 3;
		shuffle16(r, S->suites, S->nsuites);
		if (vf_below(r, 2)) S->flags |= BR_OPT_ENFORCE_SERVER_PREFERENCES;
		/* both usable with the key more often than by chance: keep usages full mostly */
		if (vf_below(r, 100) < 70) S->usages = BR_KEYTYPE_KEYX | BR_KEYTYPE_SIGN;
	} else {
		int pc = kind == K_RANDOM ? 90 : 35, ps = kind == K_RANDOM ? 70 : 40;
		if ((int)vf_below(r, 100) < pc) {
			size_t n = vf_below(r, 100) < 60 ? 1 + vf_below(r, 8) : 1 + vf_below(r, 45);
			random_suites(r, C, n, S->key, kind == K_RANDOM ? 60 : 85);
		}
		if ((int)vf_below(r, 100) < ps) {
			if (vf_below(r, 2)) shuffle16(r, S->suites, S->nsuites);
			else random_suites(r, S, 1 + vf_below(r, 45), S->key, 50);
		}
	}

	/* flags */
	if (kind == K_FLAGS) {
		int combo = (int)(q % 256);
		C->flags = (uint32_t)(combo & 15); S->flags = (uint32_t)(combo >> 4);
	} else {
		if (vf_below(r, 100) < 40) C->flags = vf_below(r, 16);
		if (vf_below(r, 100) < 50) S->flags |= vf_below(r, 16);
	}

	/* ALPN */
	if (kind == K_ALPN || kind == K_FLAGS || kind == K_RESUME || vf_below(r, 100) < 35) {
		random_alpn(r, C, vf_below(r, 4));
		random_alpn(r, S, vf_below(r, 4));
		if (kind == K_ALPN) {
			if (C->nalpn == 0 && vf_below(r, 4)) random_alpn(r, C, 1 + vf_below(r, 3));
			if (S->nalpn == 0 && vf_below(r, 4)) random_alpn(r, S, 1 + vf_below(r, 3));
			if (vf_below(r, 2)) S->flags |= BR_OPT_FAIL_ON_ALPN_MISMATCH;
		}
	}

	/* SNI */
	C->has_sni = 1; strcpy(C->sni, "localhost");
	if (kind == K_ALPN || vf_below(r, 100) < 35) random_sni(r, C);

	/* client authentication: the subsets kind asks for it in half of its cases, mostly from a client that has a certificate */
	if (kind == K_FLAGS ? vf_below(r, 2) : vf_below(r, 100) < (unsigned)(kind == K_SUBSETS ? 50 : 15)) S->creq = 1;
	if (kind == K_FLAGS || S->creq || vf_below(r, 100) < 20) C->cert = (int)vf_below(r, 3);
	if (S->creq && C->cert == 0 && kind != K_FLAGS && vf_below(r, 2)) C->cert = 1 + (int)vf_below(r, 2);
	if (S->creq && C->cert == 0 && kind == K_SUBSETS && vf_below(r, 3)) C->cert = 1 + (int)vf_below(r, 2);
	/* an EC client certificate (P-256) against a P-256 server key: static ECDH suites first in a third of the cases,
	   so that full static ECDH gets its share next to ECDSA */
	if (S->creq && C->cert == 2 && (S->key == 1 || S->key == 2) && kind != K_SINGLE && kind != K_PAIR && vf_below(r, 3) == 0) {
		size_t i, j;
		for (i = 0, j = 0; i < C->nsuites; i ++) {
			const tp_suite_info *si = tp_suite_find(C->suites[i]);
			if (si != NULL && tp_suite_fits_key(si, key_to_kind(S->key)) && (si->kx == TP_KX_ECDH_RSA || si->kx == TP_KX_ECDH_ECDSA)) {
				uint16_t t = C->suites[i];
				memmove(C->suites + j + 1, C->suites + j, (i - j) * sizeof C->suites[0]);
				C->suites[j ++] = t;
			}
		}
		if (j > 0 && vf_below(r, 2)) S->flags &= ~(uint32_t)BR_OPT_ENFORCE_SERVER_PREFERENCES;
	}

	/* hash and curve subsets (with and without client authentication: the reference models what the hash functions and
	   curves of both sides mean for CertificateRequest, CertificateVerify and static ECDH) */
	C->hashes = S->hashes = HASHES_ALL;
	C->curves = S->curves = CURVES_ALL;
	if (kind == K_SUBSETS) {
		long q3 = q / 3;
		switch (q % 3) {
		case 0: apply_hashes(C, (unsigned)(q3 % 64) << 1); if (vf_below(r, 4) == 0) apply_hashes(S, vf_below(r, 64) << 1); break;
		case 1: apply_hashes(S, (unsigned)(q3 % 64) << 1); if (vf_below(r, 4) == 0) apply_hashes(C, vf_below(r, 64) << 1); break;
		default:
			C->curves = curves_from_index(1 + (int)(q3 % 15));
			S->curves = curves_from_index(1 + (int)((q3 / 15) % 15));
			break;
		}
		/* a certificate holder whose signature hash is not simply SHA-256: take SHA-256 (and sometimes more) away from one side
		   where the suites allow it */
		if (S->creq && C->cert != 0 && q % 3 != 2 && vf_below(r, 3) == 0) {
			side *sd = vf_below(r, 2) ? C : S;
			unsigned drop = 0x10u | (vf_below(r, 2) ? 0x20u : 0u) | (vf_below(r, 3) == 0 ? 0x40u : 0u);
			if ((sd->hashes & ~drop & 0x30u) != 0) apply_hashes(sd, sd->hashes & ~drop);
		}
	} else if (kind == K_SINGLE || kind == K_PAIR) {
		/* SHA-224 / SHA-512 are never needed by a suite: vary them freely */
		if (vf_below(r, 100) < 30) C->hashes &= ~(vf_below(r, 2) ? 0x08u : 0u) & ~(vf_below(r, 2) ? 0x40u : 0u);
		if (vf_below(r, 100) < 30) S->hashes &= ~(vf_below(r, 2) ? 0x08u : 0u) & ~(vf_below(r, 2) ? 0x40u : 0u);
		if (vf_below(r, 100) < 25) C->curves = random_curves(r);
		if (vf_below(r, 100) < 25) S->curves = random_curves(r);
	} else if (kind != K_VERSIONS) {
		if (vf_below(r, 100) < 20) apply_hashes(C, vf_below(r, 64) << 1);
		if (vf_below(r, 100) < 20) apply_hashes(S, vf_below(r, 64) << 1);
		if (vf_below(r, 100) < 25) C->curves = random_curves(r);
		if (vf_below(r, 100) < 25) S->curves = random_curves(r);
	} else {
		if (vf_below(r, 100) < 20) C->curves = random_curves(r);
		if (vf_below(r, 100) < 20) S->curves = random_curves(r);
	}

	if (kind == K_PROFILE) {
		/* the server is one of the library's minimal profiles; what the client is has been drawn as for the random kind
		   (half of the clients keep the whole default suite list) */
		static const uint16_t psuite[8] = { 0, 0xCCA8, 0xC02F, 0xCCA9, 0xC02B, 0x009C, 0xC031, 0xC02D };
		static const int pkey[8] = { 0, 0, 0, 1, 2, 0, 2, 1 };
		int pf = 1 + (int)((q / 3) % 7);
		S->profile = pf;
		S->vmin = S->vmax = 0x0303;
		S->suites[0] = psuite[pf]; S->nsuites = 1;
		S->hashes = 1u << 4;
		S->curves = pf <= 4 ? CURVES_ALL : 0;      /* minr2g, minu2g, minv2g give the engine no EC implementation */
		S->key = pkey[pf];
		if ((pf == 3 || pf == 4) && vf_below(r, 2)) S->key = 3 - S->key;
		S->usages = pf <= 4 ? BR_KEYTYPE_SIGN : BR_KEYTYPE_KEYX;
		S->flags = 0; S->nalpn = 0; S->creq = 0;
		if (vf_below(r, 2)) { all_suites(C); if (vf_below(r, 2)) C->vmax = 0x0303; }
	}

	/* a client that cannot handle the curve of the server's own key is the rarer case */
	if (S->key != 0 && vf_below(r, 100) < 75) C->curves |= (uint32_t)1 << (S->key == 3 ? 24 : 23);

	/* TLS_FALLBACK_SCSV at the end of the client list (documented use) */
	if (kind != K_SINGLE && kind != K_PAIR && vf_below(r, 100) < 8 && C->nsuites < 90) {
		C->suites[C->nsuites ++] = 0x5600;
	}
}

/* ------------------------------------------------------------------ */
/* JSON helpers */

static void
js_hex(FILE *f, const char *key, const unsigned char *p, size_t n, int present)
{
	size_t i;
	fprintf(f, "\"%s\":", key);
	if (!present) { fputs("null", f); return; }
	fputc('"', f);
	for (i = 0; i < n; i ++) fprintf(f, "%02x", p[i]);
	fputc('"', f);
}

static void
js_hexv(FILE *f, const unsigned char *p, size_t n)
{
	size_t i;
	fputc('"', f);
	for (i = 0; i < n; i ++) fprintf(f, "%02x", p[i]);
	fputc('"', f);
}

static void
js_side(FILE *f, const char *name, const side *sd, int role)
{
	size_t i;
	int id, first;
	fprintf(f, "\"%s\":{\"vmin\":%u,\"vmax\":%u,\"suites\":[", name, sd->vmin, sd->vmax);
	for (i = 0; i < sd->nsuites; i ++) fprintf(f, "%s%u", i ? "," : "", sd->suites[i]);
	fputs("],\"hashes\":[", f);
	for (id = 1, first = 1; id <= 6; id ++) if ((sd->hashes >> id) & 1) { fprintf(f, "%s%d", first ? "" : ",", id); first = 0; }
	fputs("],\"curves\":[", f);
	for (id = 0, first = 1; id < 32; id ++) if ((sd->curves >> id) & 1) { fprintf(f, "%s%d", first ? "" : ",", id); first = 0; }
	fputs("],\"alpn\":[", f);
	for (i = 0; i < sd->nalpn; i ++) fprintf(f, "%s\"%s\"", i ? "," : "", sd->alpn[i]);
	fprintf(f, "],\"flags\":%u,", (unsigned)sd->flags);
	if (role == 0) {
		js_hex(f, "sni", (const unsigned char *)sd->sni, strlen(sd->sni), sd->has_sni);
		fprintf(f, ",\"cert\":%d}", sd->cert);
	} else {
		fprintf(f, "\"key\":\"%s\",\"kcurve\":%d,\"issuer\":\"%s\",\"keyx\":%d,\"sign\":%d,\"creq\":%d}",
			sd->key == 0 ? "rsa" : "ec", sd->key == 0 ? 0 : (sd->key == 3 ? 24 : 23),
			sd->key == 0 || sd->key == 2 ? "rsa" : "ec",
			(sd->usages & BR_KEYTYPE_KEYX) != 0, (sd->usages & BR_KEYTYPE_SIGN) != 0, sd->creq);
	}
}

/* wire observations gathered through the independent decoder's handshake callback */
static struct {
	int have_ske; unsigned ske_curve; int ske_hash, ske_sig;
	unsigned sh_version;
	int n_arec; unsigned arec[8][2];      /* alert records: direction, record version */
	/* client authentication: bodies of CertificateRequest, the client's Certificate and CertificateVerify; length of ClientKeyExchange */
	int have_cr, have_cc, have_cv; long cke_len;
	unsigned char cr[2048], cc[6144], cv[768]; size_t cr_len, cc_len, cv_len;
	int trunc;                            /* a body did not fit: the checker does not judge it */
} W;

static void
w_keep(unsigned char *dst, size_t cap, size_t *dlen, const unsigned char *body, size_t len)
{
	if (len > cap) { W.trunc = 1; len = cap; }
	memcpy(dst, body, len);
	*dlen = len;
}

static void
rec_hook(void *arg, const rm_record *r, const unsigned char *plain)
{
	(void)arg; (void)plain;
	if (r->type == 21 && W.n_arec < 8) { W.arec[W.n_arec][0] = (unsigned)r->dir; W.arec[W.n_arec][1] = r->version; W.n_arec ++; }
}

static void
on_hs(void *arg, int dir, int type, const unsigned char *body, size_t len)
{
	(void)arg;
	if (dir == 1 && type == 2 && len >= 2) W.sh_version = ((unsigned)body[0] << 8) | body[1];
	if (dir == 1 && type == 12 && !W.have_ske && len >= 4 && body[0] == 3) {
		size_t pl = body[3];
		W.have_ske = 1;
		W.ske_curve = ((unsigned)body[1] << 8) | body[2];
		W.ske_hash = W.ske_sig = -1;
		if (W.sh_version >= 0x0303 && len >= 4 + pl + 2) { W.ske_hash = body[4 + pl]; W.ske_sig = body[5 + pl]; }
	}
	if (dir == 1 && type == 13 && !W.have_cr) { W.have_cr = 1; w_keep(W.cr, sizeof W.cr, &W.cr_len, body, len); }
	if (dir == 0 && type == 11 && !W.have_cc) { W.have_cc = 1; w_keep(W.cc, sizeof W.cc, &W.cc_len, body, len); }
	if (dir == 0 && type == 16 && W.cke_len < 0) W.cke_len = (long)len;
	if (dir == 0 && type == 15 && !W.have_cv) { W.have_cv = 1; w_keep(W.cv, sizeof W.cv, &W.cv_len, body, len); }
}

static void
w_reset(void)
{
	memset(&W, 0, sizeof W);
	W.cke_len = -1;
}

typedef struct {
	int done, closed, err, curve, has_proto, xchains, xcerts, xends, xverdict;
	int xbase;                  /* validator runs before this handshake (a context in its second life) */
	unsigned ver, suite;
	char proto[64];
	unsigned char name[260]; size_t name_len;
	int nxc; size_t xlen[8]; uint64_t xhash[8];   /* what the X.509 validator was fed: length and FNV-1a of each certificate */
} ep_obs;

static void
observe_from(tp_ep *ep, ep_obs *o, int xbase)
{
	br_ssl_session_parameters sp;
	const char *proto = br_ssl_engine_get_selected_protocol(ep->eng);
	const char *sn = br_ssl_engine_get_server_name(ep->eng);
	memset(o, 0, sizeof *o);
	o->xbase = xbase;
	o->err = br_ssl_engine_last_error(ep->eng);
	o->done = tp_ep_ready(ep) && o->err == 0;
	o->closed = tp_ep_closed(ep);
	br_ssl_engine_get_session_parameters(ep->eng, &sp);
	o->ver = br_ssl_engine_get_version(ep->eng);
	o->suite = sp.cipher_suite;
	o->curve = br_ssl_engine_get_ecdhe_curve(ep->eng);
	o->has_proto = proto != NULL;
	if (proto) snprintf(o->proto, sizeof o->proto, "%s", proto);
	o->name_len = strlen(sn);
	if (o->name_len > sizeof o->name) o->name_len = sizeof o->name;
	memcpy(o->name, sn, o->name_len);
	o->xchains = ep->xw ? ep->xw->n_start_chain : 0;
	o->xcerts = ep->xw ? ep->xw->n_start_cert : 0;
	o->xends = ep->xw ? ep->xw->n_end_chain : 0;
	o->xverdict = ep->xw && ep->xw->verdict_seen ? (int)ep->xw->last_verdict : -1;
	if (ep->xw && ep->xw->n_start_chain > o->xbase) {
		int i;
		o->nxc = ep->xw->n_start_cert < 8 ? ep->xw->n_start_cert : 8;
		for (i = 0; i < o->nxc; i ++) { o->xlen[i] = ep->xw->cert_len[i]; o->xhash[i] = ep->xw->cert_hash[i]; }
	}
}

static void
observe(tp_ep *ep, ep_obs *o)
{
	observe_from(ep, o, 0);
}

static void
js_endpoint(FILE *f, const char *name, const ep_obs *o, int reneg)
{
	fprintf(f, "\"%s\":{\"done\":%d,\"closed\":%d,\"err\":%d,\"ver\":%u,\"suite\":%u,\"curve\":%d,",
		name, o->done, o->closed, o->err, o->ver, o->suite, o->curve);
	if (o->has_proto) fprintf(f, "\"proto\":\"%s\",", o->proto); else fputs("\"proto\":null,", f);
	js_hex(f, "name", o->name, o->name_len, 1);
	fprintf(f, ",\"reneg\":%d,\"xchains\":%d,\"xnow\":%d,\"xcerts\":%d,\"xends\":%d,\"xverdict\":%d,\"xfed\":[",
		reneg, o->xchains, o->xchains - o->xbase, o->xcerts, o->xends, o->xverdict);
	{
		int i;
		for (i = 0; i < o->nxc; i ++) fprintf(f, "%s[%zu,\"%016llx\"]", i ? "," : "", o->xlen[i], (unsigned long long)o->xhash[i]);
	}
	fputs("]}", f);
}

static void
js_wire(FILE *f, rm_state *rm)
{
	int d, i;
	fputs("\"alerts\":[", f);
	for (d = 0, i = 0; d < 2; d ++) {
		int j;
		for (j = 0; j < rm->n_alerts[d]; j ++, i ++) {
			fprintf(f, "%s[%d,%d,%d]", i ? "," : "", d, rm->alerts[d][j][0], rm->alerts[d][j][1]);
		}
	}
	fputs("],\"hs\":[", f);
	for (d = 0; d < 2; d ++) {
		fprintf(f, "%s[", d ? "," : "");
		for (i = 0; i < rm->n_hs[d]; i ++) fprintf(f, "%s%d", i ? "," : "", rm->hs_types[d][i]);
		fputc(']', f);
	}
	fputs("],", f);
	js_hex(f, "ch", rm->last_ch, rm->last_ch_len, rm->n_ch > 0 && rm->last_ch_len > 0);
	fputc(',', f);
	js_hex(f, "sh", rm->last_sh, rm->last_sh_len, rm->n_sh > 0 && rm->last_sh_len > 0);
	if (W.have_ske) fprintf(f, ",\"ske\":[%u,%d,%d]", W.ske_curve, W.ske_hash, W.ske_sig);
	else fputs(",\"ske\":null", f);
	fputc(',', f); js_hex(f, "cr", W.cr, W.cr_len, W.have_cr);
	fputc(',', f); js_hex(f, "ccert", W.cc, W.cc_len, W.have_cc);
	fputc(',', f); js_hex(f, "cv", W.cv, W.cv_len, W.have_cv);
	fprintf(f, ",\"cke_len\":%ld,\"hs_truncated\":%d", W.cke_len, W.trunc);
	fputs(",\"alert_records\":[", f);
	for (i = 0; i < W.n_arec; i ++) fprintf(f, "%s[%u,%u]", i ? "," : "", W.arec[i][0], W.arec[i][1]);
	fprintf(f, "],\"mon_failed\":%d", rm->failed);
}

/* ------------------------------------------------------------------ */
/* a case with two engines */

static void
run_pair(long long seed, long idx, int kind, side *C, side *S, vf_rng *r)
{
	tp_pair p;
	tm_pairmon pm;
	tp_cfg cc, sc;
	int hs, rc, rs, renc = -1, rens = -1, xb_c = 0, xb_s = 0;

	side_to_cfg(C, 0, &cc, r);
	side_to_cfg(S, 1, &sc, r);
	tp_pair_init(&p, (uint64_t)seed, (uint64_t)idx, (int)vf_below(r, 5));
	p.c.tx_key = vf_u64(r); p.s.tx_key = vf_u64(r);
	if ((idx / NSLOTS) % 3 == 1) {
		/* a previous life: both contexts have already served one connection with another server name (longer),
		   other ALPN names, the full version range and other flags. The outcome judged below is a function of the
		   configuration in force now, not of that history */
		static char old_name[80];
		static const char *old_alpn[2] = { "previous-protocol-name-zz", "h2" };
		tp_cfg c0 = cc, s0 = sc;
		size_t q, nl = 40 + vf_below(r, 39);
		for (q = 0; q < nl; q ++) old_name[q] = "abcdefghijklmnopqrstuvwxyz0123456789.-"[vf_below(r, 38)];
		old_name[nl] = 0;
		c0.sni = old_name;
		c0.vmin = s0.vmin = 0x0301; c0.vmax = s0.vmax = 0x0303;
		if (S->profile) s0.vmin = s0.vmax = 0;      /* a minimal profile stays as the library set it up */
		c0.flags ^= BR_OPT_NO_RENEGOTIATION; s0.flags ^= BR_OPT_ENFORCE_SERVER_PREFERENCES | BR_OPT_NO_RENEGOTIATION;
		if (cc.alpn != NULL) { c0.alpn = old_alpn; c0.nalpn = 2; }
		if (sc.alpn != NULL) { s0.alpn = old_alpn; s0.nalpn = 2; }
		vf_bytes(r, c0.seed, 32); vf_bytes(r, s0.seed, 32);
		if (tp_ep_start(&p.c, &c0) && tp_ep_start(&p.s, &s0)) {
			if (tp_handshake(&p, 2000000)) {
				vf_stat("previous_life_handshakes", 1);
				if (vf_below(r, 2)) tp_run_close(&p, (int)vf_below(r, 3), 100000);
			}
		}
		p.c2s.rd = p.c2s.wr = 0; p.s2c.rd = p.s2c.wr = 0;
		cc.reuse_ctx = 1; sc.reuse_ctx = 1;
		if (p.c.cc != NULL && p.c.xw != NULL) xb_c = p.c.xw->n_start_chain;
		if (p.s.sc != NULL && p.s.xw != NULL) xb_s = p.s.xw->n_start_chain;
		vf_stat("cases_with_previous_life", 1);
	}
	tm_pair_attach(&pm, &p);
	pm.m.rm.on_hs = on_hs;
	pm.m.rec_hook = rec_hook;
	w_reset();
	rc = tp_ep_start(&p.c, &cc);
	rs = tp_ep_start(&p.s, &sc);
	p.c.tx_key = pm.m.key[0]; p.c.rx_key = pm.m.key[1];
	p.s.tx_key = pm.m.key[1]; p.s.rx_key = pm.m.key[0];
	hs = 0;
	memset(&OBS, 0, sizeof OBS);
	if (rs && (idx / NSLOTS) % 2 == 0 && p.s.sc->policy_vtable != NULL && p.s.sc->policy_vtable != &OBS.vtable) {
		/* half of the cases: the server's policy handler is the application's (it consults the accessors, then delegates) */
		OBS.vtable = &obs_vtable; OBS.inner = p.s.sc->policy_vtable;
		br_ssl_server_set_policy(p.s.sc, &OBS.vtable);
		vf_stat("cases_with_observing_policy", 1);
	}
	if (rc && rs) {
		hs = tp_handshake(&p, 2000000);
		rm_drain(&pm.m.rm, 0); rm_drain(&pm.m.rm, 1);
	}
	vf_stat(hs ? "handshakes_completed" : "handshakes_failed", 1);
	/* a few application bytes over completed sessions keep the record layer honest */
	if (hs && vf_below(r, 8) == 0) {
		if (!tp_run_data(&p, 1 + vf_below(r, 300), 1 + vf_below(r, 300), TP_W_WHOLE, 200000)) {
			TP_VIOL("stream:incomplete", "application data did not flow over the negotiated session");
		}
		vf_stat("sessions_with_data", 1);
	}
	fprintf(LOG, "{\"i\":%ld,\"seed\":%lld,\"kind\":\"%s\",\"reset\":[%d,%d],", idx, seed, kind_names[kind], rc, rs);
	js_side(LOG, "C", C, 0); fputc(',', LOG);
	js_side(LOG, "S", S, 1); fputc(',', LOG);
	js_wire(LOG, &pm.m.rm);
	if (OBS.calls) {
		size_t q;
		fprintf(LOG, ",\"pol\":{\"calls\":%d,\"hashes\":%lu,\"curves\":%lu,\"suites\":[", OBS.calls, (unsigned long)OBS.hashes, (unsigned long)OBS.curves);
		for (q = 0; q < OBS.ns; q ++) fprintf(LOG, "%s%u", q ? "," : "", OBS.suites[q]);
		fputs("]}", LOG);
	}
	/* renegotiation capability is measured last: a successful call starts a new handshake */
	{
		ep_obs oc, os;
		observe_from(&p.c, &oc, xb_c);
		observe_from(&p.s, &os, xb_s);
		if (rc) renc = tp_act_reneg(&p.c);
		if (rs) rens = tp_act_reneg(&p.s);
		fputc(',', LOG); js_endpoint(LOG, "oc", &oc, renc);
		fputc(',', LOG); js_endpoint(LOG, "os", &os, rens);
		fputs("}\n", LOG);
	}
	tm_verdict(&pm.m, 0, 0, 0);
	vf_distinct("config", "%s/c%04x-%04x/s%04x-%04x/k%d.u%x/f%x.%x/h%d%d/cv%d%d/a%d%d/r%d%d",
		kind_names[kind], C->vmin, C->vmax, S->vmin, S->vmax, S->key, S->usages, (unsigned)C->flags & 2, (unsigned)S->flags,
		C->hashes != HASHES_ALL, S->hashes != HASHES_ALL, C->curves != CURVES_ALL, S->curves != CURVES_ALL,
		C->nalpn != 0, S->nalpn != 0, S->creq, C->cert);
	if (hs) {
		br_ssl_session_parameters sp;
		br_ssl_engine_get_session_parameters(p.s.eng, &sp);
		vf_distinct("outcome", "%04x/%04x", sp.version, sp.cipher_suite);
		vf_sample("{\"idx\":%ld,\"kind\":\"%s\",\"client_versions\":\"%04x-%04x\",\"server_versions\":\"%04x-%04x\",\"client_suites\":%zu,\"server_suites\":%zu,\"server_key\":%d,\"negotiated_version\":\"%04x\",\"negotiated_suite\":\"%04x\"}",
			idx, kind_names[kind], C->vmin, C->vmax, S->vmin, S->vmax, C->nsuites, S->nsuites, S->key, sp.version, sp.cipher_suite);
	} else {
		vf_distinct("outcome", "fail/%d/%d", br_ssl_engine_last_error(p.c.eng), br_ssl_engine_last_error(p.s.eng));
	}
	rm_free(&pm.m.rm);
	tp_pair_free(&p);
}

/* ------------------------------------------------------------------ */
/*
 * Session resumption attempts: a first connection establishes a session (server with a cache), then the same
 * contexts are used again, the client offering that session, with a configuration that may have changed in between
 * on either side: ALPN names, server name, version range of the client, the remembered suite removed from its list,
 * the ALPN strictness flag of the server. Whatever the history, the second handshake either resumes the session -
 * only if its version and suite are still acceptable to both - or negotiates afresh; the protocol name and the
 * server name are those of the second connection; nobody crashes.
 */
static void
run_resume(long long seed, long idx, side *C, side *S, vf_rng *r)
{
	static br_ssl_session_cache_lru lru;
	static unsigned char lru_store[3000];
	static side C2, S2;
	tp_pair p;
	tm_pairmon pm;
	tp_cfg cc, sc;
	int hs1, hs2 = 0, rc, rs, mod, abbreviated = 0, i;
	unsigned v1 = 0, s1 = 0;
	ep_obs oc, os;

	S->creq = 0; C->cert = 0;
	side_to_cfg(C, 0, &cc, r);
	side_to_cfg(S, 1, &sc, r);
	br_ssl_session_cache_lru_init(&lru, lru_store, sizeof lru_store);
	sc.cache = &lru.vtable;
	tp_pair_init(&p, (uint64_t)seed, (uint64_t)idx, (int)vf_below(r, 5));
	p.c.tx_key = vf_u64(r); p.s.tx_key = vf_u64(r);
	memset(&W, 0, sizeof W);
	hs1 = tp_ep_start(&p.c, &cc) && tp_ep_start(&p.s, &sc) && tp_handshake(&p, 2000000);
	if (hs1) {
		br_ssl_session_parameters sp;
		br_ssl_engine_get_session_parameters(p.s.eng, &sp);
		v1 = sp.version; s1 = sp.cipher_suite;
		if (vf_below(r, 3)) tp_run_close(&p, (int)vf_below(r, 3), 100000);
	}
	C2 = *C; S2 = *S;
	mod = (int)vf_below(r, 8);
	switch (mod) {
	case 1: random_alpn(r, &C2, 1 + vf_below(r, 3)); break;
	case 2: random_alpn(r, &S2, 1 + vf_below(r, 3)); break;
	case 3: if (C2.vmax > C2.vmin) C2.vmax --; break;
	case 4: random_sni(r, &C2); break;
	case 5:   /* the remembered suite leaves the client's list */
		if (hs1 && C2.nsuites > 1) {
			size_t k = 0, j;
			for (j = 0; j < C2.nsuites; j ++) if (C2.suites[j] != s1) C2.suites[k ++] = C2.suites[j];
			if (k > 0) C2.nsuites = k;
		}
		break;
	case 6: C2.nalpn = 0; break;
	default: break;
	}
	if (vf_below(r, 3) == 0) S2.flags ^= BR_OPT_FAIL_ON_ALPN_MISMATCH;
	side_to_cfg(&C2, 0, &cc, r);
	side_to_cfg(&S2, 1, &sc, r);
	sc.cache = &lru.vtable;
	cc.reuse_ctx = sc.reuse_ctx = 1; cc.resume = 1;
	/* (protocol names set on a context stay until replaced: an emptied list is set explicitly) */
	if (C2.nalpn == 0 && p.c.eng) br_ssl_engine_set_protocol_names(p.c.eng, NULL, 0);
	if (S2.nalpn == 0 && p.s.eng) br_ssl_engine_set_protocol_names(p.s.eng, NULL, 0);
	p.c2s.rd = p.c2s.wr = 0; p.s2c.rd = p.s2c.wr = 0;
	p.c.tx_key = vf_u64(r); p.s.tx_key = vf_u64(r);
	tm_pair_attach(&pm, &p);
	pm.m.rm.on_hs = on_hs;
	pm.m.rec_hook = rec_hook;
	memset(&W, 0, sizeof W);
	rc = tp_ep_start(&p.c, &cc);
	rs = tp_ep_start(&p.s, &sc);
	p.c.tx_key = pm.m.key[0]; p.c.rx_key = pm.m.key[1]; p.s.tx_key = pm.m.key[1]; p.s.rx_key = pm.m.key[0];
	if (rc && rs) {
		hs2 = tp_handshake(&p, 2000000);
		rm_drain(&pm.m.rm, 0); rm_drain(&pm.m.rm, 1);
	}
	abbreviated = 1;
	for (i = 0; i < pm.m.rm.n_hs[1]; i ++) if (pm.m.rm.hs_types[1][i] == 11) abbreviated = 0;
	if (pm.m.rm.n_sh == 0) abbreviated = 0;
	if (hs2 && vf_below(r, 4) == 0 && !tp_run_data(&p, 1 + vf_below(r, 200), 1 + vf_below(r, 200), TP_W_WHOLE, 200000))
		TP_VIOL("stream:incomplete", "application data did not flow over the second connection");
	observe(&p.c, &oc); observe(&p.s, &os);
	fprintf(LOG, "{\"i\":%ld,\"seed\":%lld,\"kind\":\"resume\",\"reset\":[%d,%d],\"first\":[%d,%u,%u],\"mod\":%d,\"abbreviated\":%d,",
		idx, seed, rc, rs, hs1, v1, s1, mod, abbreviated);
	js_side(LOG, "C", &C2, 0); fputc(',', LOG);
	js_side(LOG, "S", &S2, 1); fputc(',', LOG);
	js_wire(LOG, &pm.m.rm);
	fputc(',', LOG); js_endpoint(LOG, "oc", &oc, -1);
	fputc(',', LOG); js_endpoint(LOG, "os", &os, -1);
	fputs("}\n", LOG);
	tm_verdict(&pm.m, 0, 0, 0);
	vf_stat("resume_cases", 1);
	if (hs1) vf_stat("resume_first_connection_completed", 1);
	if (hs2) vf_stat(abbreviated ? "resume_second_abbreviated" : "resume_second_full", 1);
	else vf_stat("resume_second_failed", 1);
	vf_distinct("config", "resume/mod%d/abbr%d/hs%d%d/f%x", mod, abbreviated, hs1, hs2, (unsigned)S2.flags);
	rm_free(&pm.m.rm);
	tp_pair_free(&p);
}

/* ------------------------------------------------------------------ */
/* scripted ClientHello */

typedef struct { unsigned char b[4096]; size_t n; } bb;
static void b8(bb *x, unsigned v) { x->b[x->n ++] = (unsigned char)v; }
static void b16(bb *x, unsigned v) { b8(x, v >> 8); b8(x, v); }
static void bput(bb *x, const void *p, size_t n) { memcpy(x->b + x->n, p, n); x->n += n; }
static void bset16(bb *x, size_t at, unsigned v) { x->b[at] = (unsigned char)(v >> 8); x->b[at + 1] = (unsigned char)v; }

static unsigned
grease(vf_rng *r) { unsigned v = vf_below(r, 16); return (v << 12) | 0x0A00 | (v << 4) | 0x0A; }

static void
ext_begin(bb *x, unsigned type, size_t *mark) { b16(x, type); *mark = x->n; b16(x, 0); }
static void
ext_end(bb *x, size_t mark) { bset16(x, mark, (unsigned)(x->n - mark - 2)); }

static void
build_hello(vf_rng *r, const side *S, bb *h, unsigned *rec_version)
{
	static const unsigned vers[] = { 0x0303, 0x0303, 0x0303, 0x0303, 0x0302, 0x0301, 0x0301, 0x0304, 0x0303, 0x03FF };
	static const unsigned unknown_suites[] = { 0x1301, 0x1302, 0x0005, 0x0004, 0x0033, 0x009E, 0xC0FF, 0x0000, 0xFFFF, 0xC011 };
	size_t lenpos, spos, nsu, i, m;
	unsigned cver = vf_below(r, 40) == 0 ? 0x0300 : vers[vf_below(r, 10)];
	uint16_t used[128]; size_t nused = 0;
	int extmode;
	int with_fallback = vf_below(r, 100) < 15, with_reneg_scsv = vf_below(r, 100) < 30;
	unsigned kcurve = S->key == 0 ? 23 : (S->key == 3 ? 24 : 23);

	h->n = 0;
	*rec_version = vf_below(r, 3) ? 0x0301 : (vf_below(r, 2) ? 0x0303 : 0x0300);
	b8(h, 1); b8(h, 0); lenpos = h->n; b16(h, 0);
	b16(h, cver);
	for (i = 0; i < 32; i ++) b8(h, vf_below(r, 256));
	if (vf_below(r, 2)) { b8(h, 32); for (i = 0; i < 32; i ++) b8(h, vf_below(r, 256)); } else b8(h, 0);
	/* suites */
	nsu = vf_below(r, 100) < 75 ? 1 + vf_below(r, 12) : 1 + vf_below(r, 70);
	spos = h->n; b16(h, 0);
	for (i = 0; i < nsu; i ++) {
		unsigned v, c = vf_below(r, 100);
		if (c < 60) {
			const tp_suite_info *si = &tp_suites[vf_below(r, TP_NSUITES)];
			if (!tp_suite_fits_key(si, key_to_kind(S->key)) && vf_below(r, 2)) si = &tp_suites[vf_below(r, TP_NSUITES)];
			v = si->id;
		} else if (c < 70) v = unknown_suites[vf_below(r, 10)];
		else if (c < 80) v = grease(r);
		else if (c < 84) v = with_reneg_scsv ? 0x00FFu : grease(r);
		else if (c < 88) v = with_fallback ? 0x5600u : 0x1303u;
		else if (nused > 0) v = used[vf_below(r, (uint32_t)nused)];       /* duplicate */
		else v = tp_suites[vf_below(r, TP_NSUITES)].id;
		if (nused < 128) used[nused ++] = (uint16_t)v;
		b16(h, v);
	}
	if (with_fallback && vf_below(r, 2)) b16(h, 0x5600);
	if (with_reneg_scsv && vf_below(r, 2)) b16(h, 0x00FF);
	bset16(h, spos, (unsigned)(h->n - spos - 2));
	/* compression */
	switch (vf_below(r, 4)) {
	case 0: b8(h, 2); b8(h, 1); b8(h, 0); break;
	case 1: b8(h, 2); b8(h, 0); b8(h, 64); break;
	default: b8(h, 1); b8(h, 0); break;
	}
	/* extensions */
	extmode = (int)vf_below(r, 10);
	if (extmode == 0) {
		/* no extension block at all */
	} else if (extmode == 1) {
		b16(h, 0);                                  /* empty block */
	} else {
		size_t xpos = h->n;
		int order[10], no = 0, j;
		b16(h, 0);
		/* candidate extensions, each at most once, random order */
		for (j = 0; j < 10; j ++) if (vf_below(r, 100) < (j < 6 ? 55 : 30)) order[no ++] = j;
		for (j = no; j > 1; j --) { int t, u = (int)vf_below(r, (uint32_t)j); t = order[j - 1]; order[j - 1] = order[u]; order[u] = t; }
		for (j = 0; j < no; j ++) {
			switch (order[j]) {
			case 0: {   /* SNI */
				static const size_t lens[] = { 0, 1, 9, 9, 64, 255, 255, 256, 300 };
				size_t l = lens[vf_below(r, 9)], lm;
				ext_begin(h, 0x0000, &m);
				lm = h->n; b16(h, 0);
				if (vf_below(r, 5) == 0) { b8(h, 1 + vf_below(r, 255)); b16(h, 3); b8(h, 'x'); b8(h, 'y'); b8(h, 'z'); }   /* unknown name type first */
				b8(h, 0); b16(h, (unsigned)l);
				for (i = 0; i < l; i ++) b8(h, vf_below(r, 4) ? (unsigned)('a' + vf_below(r, 26)) : 1 + vf_below(r, 255));
				bset16(h, lm, (unsigned)(h->n - lm - 2));
				ext_end(h, m);
				break;
			}
			case 1: {   /* signature algorithms */
				static const unsigned hs[] = { 2, 3, 4, 5, 6, 4, 2, 1, 8, 0, 7 };
				static const unsigned ss[] = { 1, 3, 1, 3, 2, 0, 4, 7 };
				size_t lm, k2 = vf_below(r, 9);
				ext_begin(h, 0x000D, &m);
				lm = h->n; b16(h, 0);
				for (i = 0; i < k2; i ++) {
					if (vf_below(r, 10) == 0) { unsigned g = grease(r); b16(h, g); }
					else { b8(h, hs[vf_below(r, 11)]); b8(h, ss[vf_below(r, 8)]); }
				}
				if (vf_below(r, 100) < 60) { b8(h, 2); b8(h, 3); b8(h, 2); b8(h, 1); }   /* SHA-1 with ECDSA, RSA: what older versions use anyway */
				bset16(h, lm, (unsigned)(h->n - lm - 2));
				ext_end(h, m);
				break;
			}
			case 2: {   /* supported curves */
				static const unsigned cs[] = { 23, 24, 25, 29, 23, 29, 30, 22, 19, 256, 26, 31, 32, 65281 };
				size_t lm, k2 = vf_below(r, 7);
				ext_begin(h, 0x000A, &m);
				lm = h->n; b16(h, 0);
				for (i = 0; i < k2; i ++) b16(h, vf_below(r, 8) == 0 ? grease(r) : cs[vf_below(r, 14)]);
				if (vf_below(r, 100) < 70) b16(h, kcurve);
				bset16(h, lm, (unsigned)(h->n - lm - 2));
				ext_end(h, m);
				break;
			}
			case 3:     /* point formats */
				ext_begin(h, 0x000B, &m); b8(h, 1); b8(h, 0); ext_end(h, m);
				break;
			case 4: {   /* ALPN */
				static const char *extra[] = { "zz", "h", "http/1.0" };
				size_t lm, k2 = 1 + vf_below(r, 3);
				int perm[11] = { 0, 1, 2, 3, 4, 5, 6, 7, 8, 9, 10 }, a;
				for (a = 11; a > 1; a --) { int u = (int)vf_below(r, (uint32_t)a), t = perm[a - 1]; perm[a - 1] = perm[u]; perm[u] = t; }
				ext_begin(h, 0x0010, &m);
				lm = h->n; b16(h, 0);
				for (i = 0; i < k2; i ++) {
					const char *nm = perm[i] < 8 ? alpn_universe[perm[i]] : extra[perm[i] - 8];
					b8(h, (unsigned)strlen(nm)); bput(h, nm, strlen(nm));
				}
				bset16(h, lm, (unsigned)(h->n - lm - 2));
				ext_end(h, m);
				break;
			}
			case 5:     /* renegotiation_info, empty (initial handshake) */
				ext_begin(h, 0xFF01, &m); b8(h, 0); ext_end(h, m);
				break;
			case 6: {   /* GREASE extension with arbitrary body */
				size_t l = vf_below(r, 20);
				ext_begin(h, grease(r), &m);
				for (i = 0; i < l; i ++) b8(h, vf_below(r, 256));
				ext_end(h, m);
				break;
			}
			case 7:     /* extended master secret / session ticket: empty bodies */
				ext_begin(h, vf_below(r, 2) ? 0x0017 : 0x0023, &m); ext_end(h, m);
				break;
			case 8:     /* supported_versions as a TLS 1.3 client would send */
				ext_begin(h, 0x002B, &m); b8(h, 4); b16(h, 0x0304); b16(h, 0x0303); ext_end(h, m);
				break;
			default: {  /* unknown type, arbitrary body */
				size_t l = vf_below(r, 40);
				ext_begin(h, 0x1234 + vf_below(r, 1000), &m);
				for (i = 0; i < l; i ++) b8(h, vf_below(r, 256));
				ext_end(h, m);
				break;
			}
			}
		}
		bset16(h, xpos, (unsigned)(h->n - xpos - 2));
	}
	bset16(h, lenpos, (unsigned)(h->n - 4));
}

static void
run_scripted(long long seed, long idx, side *S, vf_rng *r)
{
	tp_ep srv;
	tp_cfg sc;
	tp_fifo c2s, s2c;
	tm_mon mon;
	bb h;
	unsigned rv;
	unsigned char rec[5];
	int rs, guard = 0;

	memset(&srv, 0, sizeof srv);
	S->creq = 0;
	if (S->key == 3 && vf_below(r, 3)) S->key = 1;
	/* the scripted peer has no engine: server-side hash/curve subsets stay as generated */
	side_to_cfg(S, 1, &sc, r);
	build_hello(r, S, &h, &rv);
	tp_fifo_init(&c2s); tp_fifo_init(&s2c);
	tm_init(&mon, NULL, &mon);
	mon.check_app = 0;
	mon.rm.on_hs = on_hs;
	mon.rec_hook = rec_hook;
	w_reset();
	rs = tp_ep_start(&srv, &sc);
	rec[0] = 22; rec[1] = (unsigned char)(rv >> 8); rec[2] = (unsigned char)rv;
	rec[3] = (unsigned char)(h.n >> 8); rec[4] = (unsigned char)h.n;
	tp_fifo_put(&c2s, rec, 5);
	tp_fifo_put(&c2s, h.b, h.n);
	rm_feed(&mon.rm, 0, c2s.data + c2s.rd, tp_fifo_len(&c2s));
	while (rs && guard ++ < 100000) {
		unsigned st = br_ssl_engine_current_state(srv.eng);
		size_t k;
		if (st & BR_SSL_SENDREC) {
			k = tp_act_sendrec(&srv, &s2c, 1 + vf_below(r, 4000));
			rm_feed(&mon.rm, 1, s2c.data + (s2c.wr - k), k);
			s2c.rd = s2c.wr;
			continue;
		}
		if ((st & BR_SSL_RECVREC) && tp_fifo_len(&c2s) > 0) {
			tp_act_recvrec(&srv, &c2s, 1 + vf_below(r, 600));
			continue;
		}
		break;
	}
	rm_drain(&mon.rm, 1);
	fprintf(LOG, "{\"i\":%ld,\"seed\":%lld,\"kind\":\"scripted\",\"reset\":[1,%d],\"rv\":%u,", idx, seed, rs, rv);
	js_side(LOG, "S", S, 1); fputc(',', LOG);
	js_wire(LOG, &mon.rm); fputc(',', LOG);
	{
		ep_obs os;
		observe(&srv, &os);
		js_endpoint(LOG, "os", &os, -1);
	}
	fputs("}\n", LOG);
	vf_stat("scripted_hellos", 1);
	vf_stat(mon.rm.n_sh > 0 ? "scripted_answered_server_hello" : "scripted_refused", 1);
	vf_distinct("config", "scripted/s%04x-%04x/k%d.u%x/f%x/h%d/cv%d/a%d/len%zu",
		S->vmin, S->vmax, S->key, S->usages, (unsigned)S->flags, S->hashes != HASHES_ALL, S->curves != CURVES_ALL, S->nalpn != 0, h.n / 64);
	if (mon.rm.n_sh > 0) vf_distinct("outcome", "scripted/%04x/%04x", mon.rm.version, mon.rm.suite);
	else vf_distinct("outcome", "scripted/fail/%d", br_ssl_engine_last_error(srv.eng));
	rm_free(&mon.rm);
	tp_ep_free(&srv);
	tp_fifo_free(&c2s); tp_fifo_free(&s2c);
}

/* ------------------------------------------------------------------ */
/* scripted ServerHello against a client engine */

typedef struct { side *sd; int nosig; int has_sess; br_ssl_session_parameters sess; } srv_hook;

static void
pre_reset_srv(void *epv, void *arg)
{
	tp_ep *ep = epv;
	srv_hook *h = arg;
	pre_reset(epv, h->sd);
	if (h->nosig) {
		/* a client that verifies no signature itself (static RSA / static ECDH suites only): no signature_algorithms */
		br_ssl_engine_set_rsavrfy(ep->eng, 0);
		br_ssl_engine_set_ecdsa(ep->eng, 0);
	}
	/* a remembered session: the ClientHello offers its ID (br_ssl_client_reset with resume_session = 1) */
	if (h->has_sess) br_ssl_engine_set_session_parameters(ep->eng, &h->sess);
}

/* keep the suites of the client list whose key exchange is in the mask (bit kx); signalling values stay */
static void
keep_kx(side *sd, unsigned kxmask)
{
	size_t i, n = 0;
	for (i = 0; i < sd->nsuites; i ++) {
		const tp_suite_info *s = tp_suite_find(sd->suites[i]);
		if (s == NULL || ((kxmask >> s->kx) & 1)) sd->suites[n ++] = sd->suites[i];
	}
	sd->nsuites = n;
	if (real_suites(sd) == 0) {
		sd->hashes = HASHES_ALL;
		sd->nsuites = 0;
		for (i = 0; i < TP_NSUITES; i ++) if ((kxmask >> tp_suites[i].kx) & 1) sd->suites[sd->nsuites ++] = tp_suites[i].id;
	}
}

enum {
	D_VER_LOW, D_VER_HIGH, D_RV, D_RV_MAJOR,
	D_SUITE_NOTOFF, D_SUITE_UNKNOWN, D_SUITE_GREASE, D_SUITE_TLS12, D_SUITE_00FF, D_SUITE_5600,
	D_COMP, D_SID33,
	D_RENEG_DATA, D_RENEG_LEN, D_SNI_DATA, D_SNI_UNSOL, D_MFL_OTHER, D_MFL_UNSOL, D_MFL_LEN,
	D_ALPN_OTHER, D_ALPN_TWO, D_ALPN_EMPTYLIST, D_ALPN_BADLEN, D_ALPN_UNSOL, D_ALPN_EMPTYNAME,
	D_SIG_UNSOL, D_CURVES_UNSOL, D_POINTS_UNSOL, D_EXT_UNKNOWN, D_EXT_DUP,
	D_BLOCKLEN, D_TRAIL, D_MSG_SHORT, D_MSG_LONG, D_RV2, D_NEXT_TYPE, D_NEXT_CCS,
	D_RESUME_VER, D_RESUME_SUITE, D_RESUME_BAD_CCS, D_RESUME_NO_CCS,
	D_CERT_EMPTY, D_CERT_LEN3, D_COUNT
};
static const char *defect_names[D_COUNT] = {
	"ver-low", "ver-high", "record-version", "record-major",
	"suite-not-offered", "suite-unknown", "suite-grease", "suite-tls12-only", "suite-00ff", "suite-5600",
	"compression", "id-33",
	"reneg-data", "reneg-length", "sni-data", "sni-unsolicited", "mfl-other", "mfl-unsolicited", "mfl-length",
	"alpn-other", "alpn-two", "alpn-empty-list", "alpn-bad-length", "alpn-unsolicited", "alpn-empty-name",
	"sig-unsolicited", "curves-unsolicited", "points-unsolicited", "ext-unknown", "ext-duplicate",
	"block-length", "trailing", "msg-short", "msg-long", "record2-version", "next-type", "next-ccs",
	"resume-version", "resume-suite", "resume-bad-ccs", "resume-no-ccs",
	"cert-empty-list", "cert-list-length"
};

typedef struct { unsigned type; unsigned char b[320]; size_t n; } xent;

typedef struct {
	const side *C;
	int nosig, mfl_code;              /* mfl_code 0: the client sends no max_fragment_length */
	int sent_sni, sent_alpn, sent_curves;
	int has_sess; unsigned sver, ssuite; unsigned char sid[32];   /* the session the client tries to resume */
} cli_facts;

static int
in_list(const side *C, unsigned v)
{
	size_t i;
	for (i = 0; i < C->nsuites; i ++) if (C->suites[i] == v) return 1;
	return 0;
}

static int
alpn_offered(const side *C, const char *nm)
{
	size_t i;
	for (i = 0; i < C->nalpn; i ++) if (strcmp(C->alpn[i], nm) == 0) return 1;
	return 0;
}

static const char *
alpn_foreign(vf_rng *r, const side *C)
{
	static const char *extra[] = { "zz", "h", "http/1.0", "H2" };
	int t;
	for (t = 0; t < 64; t ++) {
		unsigned k = vf_below(r, 12);
		const char *nm = k < 8 ? alpn_universe[k] : extra[k - 8];
		if (!alpn_offered(C, nm)) return nm;
	}
	return "zz";
}

static int
defect_applicable(int d, const cli_facts *f)
{
	const side *C = f->C;
	size_t i;
	switch (d) {
	case D_SUITE_NOTOFF: return real_suites(C) < (int)TP_NSUITES;
	case D_SUITE_TLS12:
		if (C->vmin >= 0x0303) return 0;
		for (i = 0; i < C->nsuites; i ++) { const tp_suite_info *s = tp_suite_find(C->suites[i]); if (s && s->tls12only) return 1; }
		return 0;
	case D_SNI_DATA: return f->sent_sni;
	case D_SNI_UNSOL: return !f->sent_sni;
	case D_MFL_OTHER: case D_MFL_LEN: return f->mfl_code != 0;
	case D_MFL_UNSOL: return f->mfl_code == 0;
	case D_ALPN_OTHER: case D_ALPN_TWO: case D_ALPN_EMPTYLIST: case D_ALPN_BADLEN: case D_ALPN_EMPTYNAME: return f->sent_alpn;
	case D_ALPN_UNSOL: return !f->sent_alpn;
	case D_SIG_UNSOL: return f->nosig;
	case D_CURVES_UNSOL: case D_POINTS_UNSOL: return !f->sent_curves;
	case D_RESUME_VER: return f->has_sess && C->vmin < C->vmax;
	case D_RESUME_SUITE: return f->has_sess && real_suites(C) > 1;
	case D_RESUME_BAD_CCS: case D_RESUME_NO_CCS: return f->has_sess;
	case D_CERT_EMPTY: case D_CERT_LEN3: return !f->has_sess;      /* a full handshake: the Certificate message is next */
	default: return 1;
	}
}

static void
alpn_body(xent *e, const char *a, const char *b)
{
	size_t la = strlen(a), lb = b ? strlen(b) : 0, tot = 1 + la + (b ? 1 + lb : 0);
	e->type = 0x0010; e->n = 0;
	e->b[e->n ++] = (unsigned char)(tot >> 8); e->b[e->n ++] = (unsigned char)tot;
	e->b[e->n ++] = (unsigned char)la; memcpy(e->b + e->n, a, la); e->n += la;
	if (b) { e->b[e->n ++] = (unsigned char)lb; memcpy(e->b + e->n, b, lb); e->n += lb; }
}

/*
 * Build the server's flight: a ServerHello (record version *rv) and possibly the
 * start of the next message in a second record (*rv2; n2 = 0: no second record).
 */
static void
build_server_hello(vf_rng *r, const cli_facts *f, const int *defs, int ndefs, bb *h, unsigned *rv, bb *h2, unsigned *rv2, unsigned *type2)
{
	static const unsigned unknown_suites[] = { 0x1301, 0x1302, 0x0005, 0x0004, 0x0033, 0x009E, 0xC0FF, 0x0000, 0xFFFF, 0xC011, 0x1303 };
	static const unsigned unknown_exts[] = { 0x0017, 0x0023, 0x002B, 0x0005, 0x0015, 0x0012, 0x3374, 0x0033, 0xFF02, 0x0002 };
	const side *C = f->C;
	int has[D_COUNT];
	xent xs[16];
	int nx = 0, i, extmode, second, echo = 0;
	unsigned ver, suite, comp = 0;
	size_t sidlen, lenpos, j;

	memset(has, 0, sizeof has);
	for (i = 0; i < ndefs; i ++) has[defs[i]] = 1;

	/* version, and a suite the client offers that fits it when there is one */
	ver = C->vmin + vf_below(r, C->vmax - C->vmin + 1);
	if (vf_below(r, 2)) ver = C->vmax;
	if (has[D_SUITE_TLS12]) { unsigned top = C->vmax < 0x0302 ? C->vmax : 0x0302; ver = C->vmin + vf_below(r, top - C->vmin + 1); }
	if (has[D_VER_LOW]) ver = (C->vmin > 0x0301 && vf_below(r, 2)) ? C->vmin - 1 : 0x0300;
	if (has[D_VER_HIGH]) ver = (C->vmax < 0x0303 && vf_below(r, 3)) ? C->vmax + 1 + vf_below(r, 0x0303 - C->vmax) : (vf_below(r, 4) ? 0x0304 : 0x03FF);
	{
		uint16_t fit[96], reals[96]; size_t nfit = 0, nreal = 0, k;
		int pass;
		for (pass = 0; pass < 2 && nfit == 0; pass ++) {
			nreal = 0;
			for (k = 0; k < C->nsuites; k ++) {
				const tp_suite_info *s = tp_suite_find(C->suites[k]);
				if (!s) continue;
				reals[nreal ++] = s->id;
				if (ver >= 0x0303 || !s->tls12only) fit[nfit ++] = s->id;
			}
			/* only TLS-1.2 suites on offer: an honest server goes for TLS 1.2 */
			if (nfit == 0 && pass == 0 && C->vmax >= 0x0303 && !has[D_VER_LOW] && !has[D_VER_HIGH] && !has[D_SUITE_TLS12]) ver = 0x0303;
		}
		suite = nfit ? fit[vf_below(r, (uint32_t)nfit)] : reals[vf_below(r, (uint32_t)nreal)];
		if (has[D_SUITE_TLS12]) {
			size_t n12 = 0;
			for (k = 0; k < nreal; k ++) if (tp_suite_find(reals[k])->tls12only) fit[n12 ++] = reals[k];
			if (n12) suite = fit[vf_below(r, (uint32_t)n12)];
		}
	}
	*rv = ver;
	if (has[D_RV]) { do { *rv = 0x0300 + vf_below(r, 5); } while (*rv == ver); }
	if (has[D_RV_MAJOR]) *rv = vf_below(r, 2) ? 0x0200 + (ver & 0xFF) : 0x0400 + (ver & 0xFF);
	/* the client offers a session: echo its ID (abbreviated handshake) with the session's version and suite, or ignore it */
	if (f->has_sess && !has[D_SID33]) {
		echo = vf_below(r, 100) < 55 || has[D_RESUME_VER] || has[D_RESUME_SUITE] || has[D_RESUME_BAD_CCS] || has[D_RESUME_NO_CCS];
		if (echo) {
			if (!has[D_VER_LOW] && !has[D_VER_HIGH] && !has[D_SUITE_TLS12]) { ver = f->sver; *rv = ver; }
			suite = f->ssuite;
			if (has[D_RESUME_VER]) {
				int t;
				for (t = 0; t < 50; t ++) {
					ver = C->vmin + vf_below(r, C->vmax - C->vmin + 1);
					if (ver != f->sver && (ver >= 0x0303 || !tp_suite_find((uint16_t)suite)->tls12only)) break;
				}
				*rv = ver;
			}
			if (has[D_RESUME_SUITE]) {
				int t;
				for (t = 0; t < 200; t ++) {
					const tp_suite_info *si = tp_suite_find(C->suites[vf_below(r, (uint32_t)C->nsuites)]);
					if (si && si->id != f->ssuite && (ver >= 0x0303 || !si->tls12only || t > 150)) { suite = si->id; break; }
				}
			}
			if (has[D_RV]) { do { *rv = 0x0300 + vf_below(r, 5); } while (*rv == ver); }
			if (has[D_RV_MAJOR]) *rv = vf_below(r, 2) ? 0x0200 + (ver & 0xFF) : 0x0400 + (ver & 0xFF);
		}
	}
	if (has[D_SUITE_NOTOFF]) { int t; for (t = 0; t < 1000; t ++) { suite = tp_suites[vf_below(r, TP_NSUITES)].id; if (!in_list(C, suite)) break; } }
	if (has[D_SUITE_UNKNOWN]) suite = unknown_suites[vf_below(r, 11)];
	if (has[D_SUITE_GREASE]) suite = grease(r);
	if (has[D_SUITE_00FF]) suite = 0x00FF;
	if (has[D_SUITE_5600]) suite = 0x5600;
	if (has[D_COMP]) { static const unsigned cm[] = { 1, 1, 64, 255 }; comp = cm[vf_below(r, 4)]; }
	switch (vf_below(r, 5)) { case 0: case 1: sidlen = 0; break; case 2: case 3: sidlen = 32; break; default: sidlen = 1 + vf_below(r, 31); break; }
	if (has[D_SID33]) sidlen = vf_below(r, 4) ? 33 : 34 + vf_below(r, 60);

	/* honest extensions */
	if (vf_below(r, 100) < 60 && !has[D_RENEG_DATA] && !has[D_RENEG_LEN]) { xs[nx].type = 0xFF01; xs[nx].b[0] = 0; xs[nx].n = 1; nx ++; }
	if (f->sent_sni && vf_below(r, 100) < 30 && !has[D_SNI_DATA]) { xs[nx].type = 0x0000; xs[nx].n = 0; nx ++; }
	if (f->mfl_code && vf_below(r, 100) < 55 && !has[D_MFL_OTHER] && !has[D_MFL_LEN]) { xs[nx].type = 0x0001; xs[nx].b[0] = (unsigned char)f->mfl_code; xs[nx].n = 1; nx ++; }
	if (f->sent_alpn && vf_below(r, 100) < 65 && !has[D_ALPN_OTHER] && !has[D_ALPN_TWO] && !has[D_ALPN_EMPTYLIST] && !has[D_ALPN_BADLEN] && !has[D_ALPN_EMPTYNAME]) {
		alpn_body(&xs[nx ++], C->alpn[vf_below(r, (uint32_t)C->nalpn)], NULL);
	}
	if (!f->nosig && vf_below(r, 100) < 10) {   /* "the server should never send this extension, but some existing servers do" */
		static const unsigned char sg[] = { 0x00, 0x06, 0x04, 0x01, 0x04, 0x03, 0x02, 0x01 };
		xs[nx].type = 0x000D; xs[nx].n = vf_below(r, 4) ? sizeof sg : vf_below(r, 12);
		memcpy(xs[nx].b, sg, sizeof sg); for (j = sizeof sg; j < xs[nx].n; j ++) xs[nx].b[j] = (unsigned char)vf_below(r, 256);
		nx ++;
	}
	if (f->sent_curves && vf_below(r, 100) < 10) {
		static const unsigned char cv[] = { 0x00, 0x04, 0x00, 0x1D, 0x00, 0x17 };
		xs[nx].type = 0x000A; xs[nx].n = vf_below(r, 4) ? sizeof cv : vf_below(r, 7);
		memcpy(xs[nx].b, cv, sizeof cv);
		nx ++;
	}
	if (f->sent_curves && vf_below(r, 100) < 25) {
		xs[nx].type = 0x000B; xs[nx].b[0] = 1; xs[nx].b[1] = 0; xs[nx].b[2] = 1; xs[nx].n = vf_below(r, 4) ? 2 : 3; if (xs[nx].n == 3) xs[nx].b[0] = 2;
		nx ++;
	}

	/* defective extensions */
	if (has[D_RENEG_DATA]) {
		size_t l = vf_below(r, 2) ? 12 : 1 + vf_below(r, 36);
		xs[nx].type = 0xFF01; xs[nx].b[0] = (unsigned char)l; for (j = 0; j < l; j ++) xs[nx].b[1 + j] = (unsigned char)vf_below(r, 256);
		xs[nx].n = 1 + l; nx ++;
	}
	if (has[D_RENEG_LEN]) {
		xs[nx].type = 0xFF01;
		switch (vf_below(r, 4)) {
		case 0: xs[nx].n = 0; break;
		case 1: xs[nx].b[0] = 0; xs[nx].b[1] = 0; xs[nx].n = 2; break;
		case 2: xs[nx].b[0] = 1 + (unsigned char)vf_below(r, 40); xs[nx].n = 1; break;
		default: xs[nx].b[0] = 5; xs[nx].b[1] = 1; xs[nx].b[2] = 2; xs[nx].n = 3; break;
		}
		nx ++;
	}
	if (has[D_SNI_DATA] || has[D_SNI_UNSOL]) {
		xs[nx].type = 0x0000; xs[nx].n = 0;
		if (has[D_SNI_DATA] || vf_below(r, 3) == 0) {
			if (vf_below(r, 2)) { static const unsigned char sn[] = { 0x00, 0x05, 0x00, 0x00, 0x02, 'a', 'b' }; memcpy(xs[nx].b, sn, sizeof sn); xs[nx].n = sizeof sn; }
			else { xs[nx].n = 1 + vf_below(r, 5); for (j = 0; j < xs[nx].n; j ++) xs[nx].b[j] = (unsigned char)vf_below(r, 256); }
		}
		nx ++;
	}
	if (has[D_MFL_OTHER]) {
		static const unsigned alt[] = { 1, 2, 3, 4, 0, 5, 255 };
		unsigned c;
		do { c = alt[vf_below(r, 7)]; } while ((int)c == f->mfl_code);
		xs[nx].type = 0x0001; xs[nx].b[0] = (unsigned char)c; xs[nx].n = 1; nx ++;
	}
	if (has[D_MFL_UNSOL]) { xs[nx].type = 0x0001; xs[nx].b[0] = (unsigned char)(1 + vf_below(r, 4)); xs[nx].n = 1; nx ++; }
	if (has[D_MFL_LEN]) { xs[nx].type = 0x0001; xs[nx].b[0] = xs[nx].b[1] = (unsigned char)f->mfl_code; xs[nx].n = vf_below(r, 2) ? 0 : 2; nx ++; }
	if (has[D_ALPN_OTHER]) alpn_body(&xs[nx ++], alpn_foreign(r, C), NULL);
	if (has[D_ALPN_UNSOL]) alpn_body(&xs[nx ++], alpn_universe[vf_below(r, 8)], NULL);
	if (has[D_ALPN_EMPTYNAME]) alpn_body(&xs[nx ++], "", NULL);
	if (has[D_ALPN_TWO]) {
		const char *a = C->alpn[vf_below(r, (uint32_t)C->nalpn)];
		const char *b = (C->nalpn > 1 && vf_below(r, 2)) ? C->alpn[vf_below(r, (uint32_t)C->nalpn)] : alpn_foreign(r, C);
		if (vf_below(r, 2)) alpn_body(&xs[nx ++], a, b); else alpn_body(&xs[nx ++], b, a);
	}
	if (has[D_ALPN_EMPTYLIST]) { xs[nx].type = 0x0010; xs[nx].b[0] = xs[nx].b[1] = 0; xs[nx].n = 2; nx ++; }
	if (has[D_ALPN_BADLEN]) {
		xent *e = &xs[nx ++];
		alpn_body(e, C->alpn[vf_below(r, (uint32_t)C->nalpn)], NULL);
		switch (vf_below(r, 5)) {
		case 0: e->b[1] = (unsigned char)(e->b[1] + 1 + vf_below(r, 3)); break;     /* list longer than the extension */
		case 1: e->b[1] = (unsigned char)(e->b[1] - 1); break;                       /* list shorter: a byte after the list */
		case 2: e->b[2] = (unsigned char)(e->b[2] + 1 + vf_below(r, 3)); break;      /* name longer than the list */
		case 3: e->n = 1; break;                                                      /* half a length field */
		default: e->b[e->n ++] = 0; break;                                            /* a byte after the list, list length right */
		}
	}
	if (has[D_SIG_UNSOL]) { static const unsigned char sg[] = { 0x00, 0x04, 0x04, 0x01, 0x02, 0x01 }; xs[nx].type = 0x000D; memcpy(xs[nx].b, sg, sizeof sg); xs[nx].n = sizeof sg; nx ++; }
	if (has[D_CURVES_UNSOL]) { static const unsigned char cv[] = { 0x00, 0x02, 0x00, 0x17 }; xs[nx].type = 0x000A; memcpy(xs[nx].b, cv, sizeof cv); xs[nx].n = sizeof cv; nx ++; }
	if (has[D_POINTS_UNSOL]) { xs[nx].type = 0x000B; xs[nx].b[0] = 1; xs[nx].b[1] = 0; xs[nx].n = 2; nx ++; }
	if (has[D_EXT_UNKNOWN]) {
		unsigned c = vf_below(r, 14);
		xs[nx].type = c < 10 ? unknown_exts[c] : (c < 12 ? grease(r) : 0x1234 + vf_below(r, 1000));
		xs[nx].n = vf_below(r, 3) ? 0 : vf_below(r, 40);
		for (j = 0; j < xs[nx].n; j ++) xs[nx].b[j] = (unsigned char)vf_below(r, 256);
		nx ++;
	}
	/* random order */
	for (i = nx; i > 1; i --) { int u = (int)vf_below(r, (uint32_t)i); xent t = xs[i - 1]; xs[i - 1] = xs[u]; xs[u] = t; }
	if (has[D_EXT_DUP]) {
		int src, at;
		if (nx == 0) { xs[nx].type = 0xFF01; xs[nx].b[0] = 0; xs[nx].n = 1; nx ++; }
		src = (int)vf_below(r, (uint32_t)nx); at = (int)vf_below(r, (uint32_t)nx + 1);
		for (i = nx; i > at; i --) xs[i] = xs[i - 1];
		xs[at] = xs[src >= at ? src + 1 : src];
		nx ++;
	}
	extmode = nx ? 2 : (vf_below(r, 100) < 30 ? 1 : 0);
	if ((has[D_BLOCKLEN] || has[D_TRAIL]) && extmode == 0) extmode = 1;

	/* the message */
	h->n = 0;
	b8(h, 2); b8(h, 0); lenpos = h->n; b16(h, 0);
	b16(h, ver);
	for (j = 0; j < 32; j ++) b8(h, vf_below(r, 256));
	if (echo) { b8(h, 32); bput(h, f->sid, 32); }
	else { b8(h, (unsigned)sidlen); for (j = 0; j < sidlen; j ++) b8(h, vf_below(r, 256)); }
	b16(h, suite); b8(h, comp);
	if (extmode) {
		size_t xpos = h->n;
		long bl;
		b16(h, 0);
		for (i = 0; i < nx; i ++) { b16(h, xs[i].type); b16(h, (unsigned)xs[i].n); bput(h, xs[i].b, xs[i].n); }
		bl = (long)(h->n - xpos - 2);
		if (has[D_BLOCKLEN]) {
			long dl = 1 + (long)vf_below(r, 3);
			if (bl < dl || vf_below(r, 2)) bl += dl; else bl -= dl;
		}
		bset16(h, xpos, (unsigned)bl);
		if (has[D_TRAIL]) { size_t g = 1 + vf_below(r, 8); for (j = 0; j < g; j ++) b8(h, vf_below(r, 256)); }
	}
	{
		long ml = (long)(h->n - 4);
		if (has[D_MSG_SHORT]) ml -= 1 + (long)vf_below(r, 4);
		if (has[D_MSG_LONG]) ml += 1 + (long)vf_below(r, 4);
		bset16(h, lenpos, (unsigned)ml);
	}

	/* second record: the start of the Certificate message (or of something that is not one); ChangeCipherSpec after a resumed session */
	h2->n = 0;
	*rv2 = *rv;
	*type2 = 22;
	second = vf_below(r, 100) < 50 || has[D_RV2] || has[D_NEXT_TYPE] || has[D_NEXT_CCS] || has[D_RESUME_BAD_CCS] || has[D_RESUME_NO_CCS]
		|| has[D_CERT_EMPTY] || has[D_CERT_LEN3];
	if (second && (has[D_NEXT_CCS] || (echo && !has[D_RESUME_NO_CCS] && !has[D_NEXT_TYPE]))) {
		*type2 = 20;
		b8(h2, 1);
		if (has[D_RESUME_BAD_CCS]) { if (vf_below(r, 2)) h2->b[0] = (unsigned char)(vf_below(r, 2) ? 2 : 0); else b8(h2, 1); }
	} else if (second && (has[D_CERT_EMPTY] || has[D_CERT_LEN3]) && !has[D_NEXT_TYPE]) {
		/* a complete Certificate message of length 3: an empty certificate list, or a list length that the message cannot hold */
		b8(h2, 11); b8(h2, 0); b16(h2, 3);
		if (has[D_CERT_LEN3]) {
			static const unsigned ll[] = { 1, 3, 5, 0x0100, 0x010000, 0xFFFFFF };
			unsigned v = vf_below(r, 2) ? ll[vf_below(r, 6)] : 1 + vf_below(r, 0xFFFFFF);
			b8(h2, v >> 16); b16(h2, v & 0xFFFF);
		} else {
			b8(h2, 0); b16(h2, 0);
		}
		/* sometimes the ServerHelloDone an honest server would send later follows at once */
		if (vf_below(r, 4) == 0) { b8(h2, 14); b8(h2, 0); b16(h2, 0); }
	} else if (second) {
		const br_x509_certificate *xc = &tp_fx.ch_srv_rsa[0];
		size_t dl = xc->data_len, take = vf_below(r, 300), cut;
		unsigned mt = 11;
		if (has[D_NEXT_TYPE]) { static const unsigned ty[] = { 12, 14, 2, 16, 20, 13, 1, 22, 255 }; mt = ty[vf_below(r, 9)]; }
		if (take > dl) take = dl;
		b8(h2, mt); b8(h2, (unsigned)((dl + 6) >> 16)); b16(h2, (unsigned)((dl + 6) & 0xFFFF));
		b8(h2, (unsigned)((dl + 3) >> 16)); b16(h2, (unsigned)((dl + 3) & 0xFFFF));
		b8(h2, (unsigned)(dl >> 16)); b16(h2, (unsigned)(dl & 0xFFFF));
		bput(h2, xc->data, take);
		/* sometimes the record ends inside the message header */
		cut = vf_below(r, 5) == 0 ? 1 + vf_below(r, 10) : h2->n;
		if (cut < h2->n) h2->n = cut;
	}
	if (second && has[D_RV2]) { do { *rv2 = 0x0300 + vf_below(r, 5); } while (*rv2 == *rv); }
}

static size_t
srv_pump(tp_ep *cli, tp_fifo *c2s, tp_fifo *s2c, tm_mon *mon, vf_rng *r, unsigned chunk)
{
	int guard = 0;
	size_t out = 0;
	while (guard ++ < 200000) {
		unsigned st = br_ssl_engine_current_state(cli->eng);
		size_t k;
		if (st & BR_SSL_SENDREC) {
			k = tp_act_sendrec(cli, c2s, 1 + vf_below(r, 4000));
			rm_feed(&mon->rm, 0, c2s->data + (c2s->wr - k), k);
			c2s->rd = c2s->wr;
			out += k;
			continue;
		}
		if ((st & BR_SSL_RECVREC) && tp_fifo_len(s2c) > 0) {
			tp_act_recvrec(cli, s2c, 1 + vf_below(r, chunk));
			continue;
		}
		break;
	}
	return out;
}

static void
run_scripted_server(long long seed, long idx, side *C, vf_rng *r)
{
	tp_ep cli;
	tp_cfg cc;
	tp_fifo c2s, s2c;
	tm_mon mon;
	srv_hook hook;
	cli_facts f;
	bb h, h2;
	unsigned rv, rv2, type2 = 22, sp, chunk = 0;
	unsigned char rec[5];
	int rc, defs[4], ndefs = 0, i, u = 14;
	size_t out_after = 0, left = 0;
	ep_obs oc;

	memset(&cli, 0, sizeof cli);
	memset(&f, 0, sizeof f);
	C->cert = 0;
	/* the client: ALPN, no SNI and the mismatch flag more often than in the other kinds */
	if (C->nalpn == 0 && vf_below(r, 100) < 45) random_alpn(r, C, 1 + vf_below(r, 3));
	if (C->nalpn != 0) { if (vf_below(r, 2)) C->flags |= BR_OPT_FAIL_ON_ALPN_MISMATCH; else C->flags &= ~(uint32_t)BR_OPT_FAIL_ON_ALPN_MISMATCH; }
	if (vf_below(r, 100) < 15) { C->has_sni = 0; C->sni[0] = 0; }
	if (C->nsuites < 90 && !in_list(C, 0x5600) && vf_below(r, 100) < 10) C->suites[C->nsuites ++] = 0x5600;
	sp = vf_below(r, 100);
	if (sp < 10) { C->curves = 0; keep_kx(C, 1u << TP_KX_RSA); }      /* no EC at all: no supported_groups / ec_point_formats */
	else if (sp < 20) { f.nosig = 1; keep_kx(C, (1u << TP_KX_RSA) | (1u << TP_KX_ECDH_RSA) | (1u << TP_KX_ECDH_ECDSA)); }
	hook.sd = C; hook.nosig = f.nosig; hook.has_sess = 0;
	/* a session to resume: version in range, a listed suite that fits it */
	if (vf_below(r, 100) < 22) {
		int t;
		f.sver = C->vmin + vf_below(r, C->vmax - C->vmin + 1);
		for (t = 0; t < 100 && !f.has_sess; t ++) {
			const tp_suite_info *si = tp_suite_find(C->suites[vf_below(r, (uint32_t)C->nsuites)]);
			if (si && (f.sver >= 0x0303 || !si->tls12only)) { f.ssuite = si->id; f.has_sess = 1; }
		}
		if (f.has_sess) {
			vf_bytes(r, f.sid, 32);
			memset(&hook.sess, 0, sizeof hook.sess);
			memcpy(hook.sess.session_id, f.sid, 32);
			hook.sess.session_id_len = 32;
			hook.sess.version = (uint16_t)f.sver;
			hook.sess.cipher_suite = (uint16_t)f.ssuite;
			vf_bytes(r, hook.sess.master_secret, 48);
			hook.has_sess = 1;
		}
	}
	side_to_cfg(C, 0, &cc, r);
	cc.resume = f.has_sess;
	cc.pre_reset = pre_reset_srv; cc.pre_reset_arg = &hook;
	/* small buffers: the client asks for a maximum fragment length */
	if (vf_below(r, 100) < 50) {
		u = 9 + (int)vf_below(r, 4);
		cc.layout = TP_LAYOUT_SPLIT2;
		cc.buflen = ((size_t)1 << u) + 325 + (vf_below(r, 2) ? vf_below(r, 180) : 0);
		cc.buflen_out = ((size_t)1 << u) + 85 + (vf_below(r, 2) ? vf_below(r, 400) : 0);
	}
	f.C = C;
	f.mfl_code = u < 14 ? u - 8 : 0;
	f.sent_sni = C->has_sni && C->sni[0] != 0;
	f.sent_alpn = C->nalpn != 0;
	f.sent_curves = C->curves != 0;

	/* defects: none / one / a few */
	sp = vf_below(r, 100);
	{
		int want = sp < 40 ? 0 : (sp < 90 ? 1 : 2 + (int)vf_below(r, 2)), t;
		for (t = 0; t < 200 && ndefs < want; t ++) {
			int d = (int)vf_below(r, D_COUNT), dup = 0;
			if (ndefs == 0 && want == 1) {
				/* the rarer client shapes are there for their own defects */
				if (f.nosig && vf_below(r, 100) < 35) d = D_SIG_UNSOL;
				if (!f.sent_curves && vf_below(r, 100) < 45) d = vf_below(r, 2) ? D_CURVES_UNSOL : D_POINTS_UNSOL;
				if (in_list(C, 0x5600) && vf_below(r, 100) < 20) d = D_SUITE_5600;
				if (f.sent_alpn && vf_below(r, 100) < 12) d = vf_below(r, 3) ? D_ALPN_OTHER : D_ALPN_TWO;
				if (f.mfl_code && vf_below(r, 100) < 8) d = vf_below(r, 2) ? D_MFL_OTHER : D_MFL_LEN;
				if (vf_below(r, 100) < 4) d = vf_below(r, 2) ? D_NEXT_TYPE : D_NEXT_CCS;
				if (!f.has_sess && vf_below(r, 100) < 5) d = vf_below(r, 2) ? D_CERT_EMPTY : D_CERT_LEN3;
				if (f.has_sess && vf_below(r, 100) < 40) {
					static const int rd[] = { D_RESUME_VER, D_RESUME_SUITE, D_RESUME_BAD_CCS, D_RESUME_NO_CCS, D_RESUME_SUITE };
					d = rd[vf_below(r, 5)];
				}
			}
			if (!defect_applicable(d, &f)) continue;
			for (i = 0; i < ndefs; i ++) if (defs[i] == d) dup = 1;
			if (!dup) defs[ndefs ++] = d;
		}
	}

	tp_fifo_init(&c2s); tp_fifo_init(&s2c);
	tm_init(&mon, NULL, &mon);
	mon.check_app = 0;
	mon.rm.on_hs = on_hs;
	mon.rec_hook = rec_hook;
	w_reset();
	rc = tp_ep_start(&cli, &cc);
	h.n = h2.n = 0; rv = rv2 = 0;
	if (rc) {
		static const unsigned chunks[] = { 1, 17, 600, 600 };
		chunk = chunks[vf_below(r, 4)];
		srv_pump(&cli, &c2s, &s2c, &mon, r, 1);         /* the ClientHello goes out */
		build_server_hello(r, &f, defs, ndefs, &h, &rv, &h2, &rv2, &type2);
		rec[0] = 22; rec[1] = (unsigned char)(rv >> 8); rec[2] = (unsigned char)rv;
		rec[3] = (unsigned char)(h.n >> 8); rec[4] = (unsigned char)h.n;
		tp_fifo_put(&s2c, rec, 5); tp_fifo_put(&s2c, h.b, h.n);
		if (h2.n) {
			rec[0] = (unsigned char)type2; rec[1] = (unsigned char)(rv2 >> 8); rec[2] = (unsigned char)rv2;
			rec[3] = (unsigned char)(h2.n >> 8); rec[4] = (unsigned char)h2.n;
			tp_fifo_put(&s2c, rec, 5); tp_fifo_put(&s2c, h2.b, h2.n);
		}
		out_after = srv_pump(&cli, &c2s, &s2c, &mon, r, chunk);
		left = tp_fifo_len(&s2c);
	}
	rm_drain(&mon.rm, 0);
	observe(&cli, &oc);
	fprintf(LOG, "{\"i\":%ld,\"seed\":%lld,\"kind\":\"scripted_srv\",\"reset\":[%d,1],", idx, seed, rc);
	js_side(LOG, "C", C, 0);
	fprintf(LOG, ",\"cx\":{\"ibuf\":%zu,\"obuf\":%zu,\"split\":%d,\"nosig\":%d}", cc.buflen, cc.buflen_out,
		cc.layout == TP_LAYOUT_SPLIT2, f.nosig);
	if (f.has_sess) { fprintf(LOG, ",\"sess\":{\"ver\":%u,\"suite\":%u,\"id\":", f.sver, f.ssuite); js_hexv(LOG, f.sid, 32); fputc('}', LOG); }
	else fputs(",\"sess\":null", LOG);
	fputs(",\"plan\":[", LOG);
	for (i = 0; i < ndefs; i ++) fprintf(LOG, "%s\"%s\"", i ? "," : "", defect_names[defs[i]]);
	fputs("],\"recs\":[", LOG);
	if (rc) {
		fprintf(LOG, "[22,%u,", rv); js_hexv(LOG, h.b, h.n); fputc(']', LOG);
		if (h2.n) { fprintf(LOG, ",[%u,%u,", type2, rv2); js_hexv(LOG, h2.b, h2.n); fputc(']', LOG); }
	}
	fprintf(LOG, "],\"chunk\":%u,\"left\":%zu,\"out_after\":%zu,", chunk, left, out_after);
	js_wire(LOG, &mon.rm); fputc(',', LOG);
	js_endpoint(LOG, "oc", &oc, -1);
	fprintf(LOG, ",\"mfln\":%d,\"renegst\":%d}\n", rc ? (int)br_ssl_engine_get_mfln_negotiated(cli.eng) : -1, rc ? (int)cli.eng->reneg : -1);
	vf_stat("scripted_srv_hellos", 1);
	vf_stat(oc.err == 0 && !oc.closed ? "scripted_srv_client_waiting" : "scripted_srv_client_failed", 1);
	vf_distinct("config", "scripted_srv/c%04x-%04x/f%x/a%zu/sni%d/m%d/ns%d/nc%d/d%d.%d",
		C->vmin, C->vmax, (unsigned)C->flags, C->nalpn, f.sent_sni, f.mfl_code, f.nosig, !f.sent_curves,
		ndefs, ndefs ? defs[0] : -1);
	if (f.has_sess) vf_stat("scripted_srv_with_session", 1);
	vf_distinct("outcome", "scripted_srv/%d/%04x/%04x/%d", oc.err, oc.ver, oc.suite, oc.has_proto);
	rm_free(&mon.rm);
	tp_ep_free(&cli);
	tp_fifo_free(&c2s); tp_fifo_free(&s2c);
}

/* ------------------------------------------------------------------ */

int
main(int argc, char **argv)
{
	long long seed = vf_argi(argc, argv, "--seed", 1);
	int worker = (int)vf_argi(argc, argv, "--worker", 0);
	int nworkers = (int)vf_argi(argc, argv, "--nworkers", 1);
	long ncases = (long)vf_argi(argc, argv, "--cases", 800);
	long only = (long)vf_argi(argc, argv, "--only", -1);
	const char *logpath = vf_arg(argc, argv, "--log", NULL);
	long idx;

	tp_prop = "C15";
	if (logpath == NULL) { fprintf(stderr, "h_tls15: --log <path> is required\n"); return 2; }
	LOG = fopen(logpath, "w");
	if (LOG == NULL) { perror(logpath); return 2; }
	tp_fixtures();
	for (idx = only >= 0 ? only : worker; idx < ncases || idx == only; idx += nworkers) {
		vf_rng r;
		side C, S;
		int kind;
		vf_rng_init(&r, (uint64_t)seed, (uint64_t)idx);
		gen_case(&r, seed, idx, &kind, &C, &S);
		snprintf(tp_case, sizeof tp_case, "seed=%lld idx=%ld kind=%s (replay: h_tls15 --seed %lld --only %ld --log <file>)",
			seed, idx, kind_names[kind], seed, idx);
		vf_stat("cases", 1);
		if (kind == K_SCRIPTED) run_scripted(seed, idx, &S, &r);
		else if (kind == K_SCRIPTED_SRV) run_scripted_server(seed, idx, &C, &r);
		else if (kind == K_RESUME) run_resume(seed, idx, &C, &S, &r);
		else run_pair(seed, idx, kind, &C, &S, &r);
		if (only >= 0) break;
	}
	if (fclose(LOG) != 0) { perror("close log"); return 2; }
	vf_stat("monitored_calls", tp_calls);
	vf_done();
	return 0;
}
