/*
 * C15: negotiation outcome equals a reference function of both configurations.
 *
 * E1 "tlspair" in negotiate mode. For every case this harness builds a client
 * and a server configuration, runs the handshake and appends ONE JSON object
 * to the case log (--log <path>): both configurations and what both endpoints
 * and the independent wire decoder observed. It does not judge anything: the
 * oracle is the offline checker harness/nego_ref.py (Python, no shared code).
 * Scripted ClientHellos (no client engine) cover what a BearSSL client cannot
 * send; for them the log carries the raw hello and the checker decodes it.
 *
 * Only counters / distinct tokens / samples go through the stdout protocol.
 */
#include "tlsmon.h"

static FILE *LOG;

/* ------------------------------------------------------------------ */
/* configuration of one side */

typedef struct {
	unsigned vmin, vmax;
	uint16_t suites[96]; size_t nsuites;
	unsigned hashes;            /* bit id (1 = MD5 .. 6 = SHA-512) set: implementation present */
	uint32_t curves;            /* bit x set: curve x offered by the engine's EC implementation */
	const char *alpn[4]; size_t nalpn;
	uint32_t flags;
	/* client */
	char sni[260]; int has_sni;
	int cert;                   /* 0 none, 1 RSA, 2 EC */
	/* server */
	int key;                    /* 0 RSA; 1 EC P-256, EC issuer; 2 EC P-256, RSA issuer; 3 EC P-384, EC issuer */
	unsigned usages;            /* BR_KEYTYPE_KEYX / BR_KEYTYPE_SIGN */
	int creq;                   /* request a client certificate */
	/* run time */
	br_ec_impl ec;              /* EC implementation with a restricted supported_curves mask */
} side;

#define CURVES_ALL  (((uint32_t)1 << 23) | ((uint32_t)1 << 24) | ((uint32_t)1 << 25) | ((uint32_t)1 << 29))
#define HASHES_ALL  0x7Eu
static const int curve_ids[4] = { 23, 24, 25, 29 };
/* several names are proper prefixes of others: matching must be exact */
static const char *alpn_universe[8] = { "h2", "http/1.1", "spdy/3", "x-verif", "h2c", "http/1", "spdy/3.1", "x" };
static const char *kind_names[] = { "versions", "single", "pair", "flags", "subsets", "alpn-sni", "random", "scripted" };
enum { K_VERSIONS, K_SINGLE, K_PAIR, K_FLAGS, K_SUBSETS, K_ALPN, K_RANDOM, K_SCRIPTED };

/* name-check bypass: the fixture certificates carry localhost / www.example.com only */
static void
nb_start_chain(const br_x509_class **ctx, const char *server_name)
{
	tp_xwrap *w = (tp_xwrap *)(void *)ctx;
	w->n_start_chain ++;
	w->n_start_cert = 0;
	w->verdict_seen = 0;
	w->has_server_name = server_name != NULL;
	snprintf(w->server_name, sizeof w->server_name, "%s", server_name ? server_name : "");
	w->inner->vtable->start_chain(&w->inner->vtable, NULL);
}
static const br_x509_class nb_vtable = {
	sizeof(tp_xwrap),
	nb_start_chain, tpx_start_cert, tpx_append, tpx_end_cert, tpx_end_chain, tpx_get_pkey
};

static void
pre_reset(void *epv, void *arg)
{
	tp_ep *ep = epv;
	side *sd = arg;
	const br_ec_impl *dflt = br_ssl_engine_get_ec(ep->eng);
	int id;

	for (id = 1; id <= 6; id ++) {
		if (!((sd->hashes >> id) & 1)) br_ssl_engine_set_hash(ep->eng, id, NULL);
	}
	sd->ec = *dflt;
	sd->ec.supported_curves &= sd->curves;
	br_ssl_engine_set_ec(ep->eng, &sd->ec);
	if (ep->cfg.role == 1) {
		switch (sd->key) {
		case 0:
			br_ssl_server_set_single_rsa(ep->sc, tp_fx.ch_srv_rsa, 1, &tp_fx.srv_rsa.rsa, sd->usages,
				br_rsa_private_get_default(), br_rsa_pkcs1_sign_get_default());
			break;
		case 1:
			br_ssl_server_set_single_ec(ep->sc, tp_fx.ch_srv_ecec, 1, &tp_fx.srv_ecec.ec, sd->usages,
				BR_KEYTYPE_EC, dflt, br_ecdsa_sign_asn1_get_default());
			break;
		case 2:
			br_ssl_server_set_single_ec(ep->sc, tp_fx.ch_srv_ecrsa, 1, &tp_fx.srv_ecrsa.ec, sd->usages,
				BR_KEYTYPE_RSA, dflt, br_ecdsa_sign_asn1_get_default());
			break;
		default:
			br_ssl_server_set_single_ec(ep->sc, tp_fx.ch_srv_ec384, 1, &tp_fx.srv_ec384.ec, sd->usages,
				BR_KEYTYPE_EC, dflt, br_ecdsa_sign_asn1_get_default());
			break;
		}
	} else {
		if (sd->has_sni && strcmp(sd->sni, "localhost") != 0 && strcmp(sd->sni, "www.example.com") != 0) {
			ep->xw->vtable = &nb_vtable;
		}
	}
}

static void
side_to_cfg(side *sd, int role, tp_cfg *c, vf_rng *r)
{
	tp_cfg_default(c, role);
	c->vmin = sd->vmin; c->vmax = sd->vmax;
	c->suites = sd->suites; c->nsuites = sd->nsuites;
	c->flags = sd->flags; c->flags_set = 1;
	if (sd->nalpn) { c->alpn = sd->alpn; c->nalpn = sd->nalpn; }
	if (role == 0) {
		c->sni = sd->has_sni ? sd->sni : "";
		c->client_auth = sd->cert;
	} else {
		c->keykind = sd->key == 0 ? TP_KEY_RSA : (sd->key == 2 ? TP_KEY_ECRSA : TP_KEY_ECEC);
		c->use_ec384 = sd->key == 3;
		c->client_auth = sd->creq;
	}
	c->pre_reset = pre_reset; c->pre_reset_arg = sd;
	vf_bytes(r, c->seed, 32);
}

/* ------------------------------------------------------------------ */
/* generators */

static int
suite_needs_ok(const tp_suite_info *s, unsigned hashes)
{
	if (s->mac && !((hashes >> s->mac) & 1)) return 0;
	if (!((hashes >> s->prf) & 1)) return 0;
	return 1;
}

static void
filter_by_hashes(side *sd)
{
	size_t i, n = 0;
	for (i = 0; i < sd->nsuites; i ++) {
		const tp_suite_info *s = tp_suite_find(sd->suites[i]);
		if (s == NULL || suite_needs_ok(s, sd->hashes)) sd->suites[n ++] = sd->suites[i];
	}
	sd->nsuites = n;
}

static int
real_suites(const side *sd)
{
	size_t i; int n = 0;
	for (i = 0; i < sd->nsuites; i ++) if (tp_suite_find(sd->suites[i])) n ++;
	return n;
}

static void
all_suites(side *sd)
{
	size_t i;
	for (i = 0; i < TP_NSUITES; i ++) sd->suites[i] = tp_suites[i].id;
	sd->nsuites = TP_NSUITES;
}

static void
shuffle16(vf_rng *r, uint16_t *a, size_t n)
{
	size_t i;
	for (i = n; i > 1; i --) {
		size_t j = vf_below(r, (uint32_t)i);
		uint16_t t = a[i - 1]; a[i - 1] = a[j]; a[j] = t;
	}
}

static int
key_to_kind(int key) { return key == 0 ? TP_KEY_RSA : (key == 2 ? TP_KEY_ECRSA : TP_KEY_ECEC); }

/* n distinct suites; `bias` percent of the draws are taken among those that fit the server key */
static void
random_suites(vf_rng *r, side *sd, size_t n, int key, int bias)
{
	uint16_t pool[TP_NSUITES];
	size_t i, k = 0;
	all_suites(sd);
	memcpy(pool, sd->suites, sizeof pool);
	shuffle16(r, pool, TP_NSUITES);
	if (n > TP_NSUITES) n = TP_NSUITES;
	/* fitting suites first, with probability bias each */
	for (i = 0; i < TP_NSUITES && k < n; i ++) {
		if (pool[i] && tp_suite_fits_key(tp_suite_find(pool[i]), key_to_kind(key)) && (int)vf_below(r, 100) < bias) {
			sd->suites[k ++] = pool[i]; pool[i] = 0;
		}
	}
	for (i = 0; i < TP_NSUITES && k < n; i ++) {
		if (pool[i]) { sd->suites[k ++] = pool[i]; pool[i] = 0; }
	}
	sd->nsuites = k;
	shuffle16(r, sd->suites, k);
}

static void
range_from_index(int i, unsigned *vmin, unsigned *vmax)
{
	static const unsigned char t[6][2] = { {1,1}, {1,2}, {1,3}, {2,2}, {2,3}, {3,3} };
	*vmin = 0x0300 + t[i][0]; *vmax = 0x0300 + t[i][1];
}

static void
random_alpn(vf_rng *r, side *sd, size_t n)
{
	int perm[8] = { 0, 1, 2, 3, 4, 5, 6, 7 }, i;
	for (i = 8; i > 1; i --) { int j = (int)vf_below(r, (uint32_t)i), t = perm[i - 1]; perm[i - 1] = perm[j]; perm[j] = t; }
	sd->nalpn = n;
	for (i = 0; i < (int)n; i ++) sd->alpn[i] = alpn_universe[perm[i]];
}

static void
random_sni(vf_rng *r, side *sd)
{
	size_t i, n;
	sd->has_sni = 1;
	switch (vf_below(r, 8)) {
	case 0: sd->has_sni = 0; sd->sni[0] = 0; break;
	case 1: strcpy(sd->sni, "www.example.com"); break;
	case 2: strcpy(sd->sni, "a"); break;
	case 3: strcpy(sd->sni, "MiXed.Case.EXAMPLE.org"); break;
	case 4: for (i = 0; i < 255; i ++) sd->sni[i] = (char)('a' + (i % 26)); sd->sni[255] = 0; break;
	case 5:   /* arbitrary non-zero bytes */
		n = 1 + vf_below(r, 255);
		for (i = 0; i < n; i ++) sd->sni[i] = (char)(1 + vf_below(r, 255));
		sd->sni[n] = 0;
		break;
	case 6:
		n = 1 + vf_below(r, 40);
		for (i = 0; i < n; i ++) sd->sni[i] = "abcdefghijklmnopqrstuvwxyz0123456789-."[vf_below(r, 38)];
		sd->sni[n] = 0;
		break;
	default: strcpy(sd->sni, "localhost"); break;
	}
}

static uint32_t
random_curves(vf_rng *r)
{
	uint32_t m = 0;
	unsigned sub = 1 + vf_below(r, 15);
	int i;
	for (i = 0; i < 4; i ++) if ((sub >> i) & 1) m |= (uint32_t)1 << curve_ids[i];
	return m;
}

static uint32_t
curves_from_index(int sub)   /* 1..15 */
{
	uint32_t m = 0;
	int i;
	for (i = 0; i < 4; i ++) if ((sub >> i) & 1) m |= (uint32_t)1 << curve_ids[i];
	return m;
}

/*
 * Make a side's configuration consistent with the caller's obligations:
 * "all provided suites will be supported by the context" - a handshake below
 * TLS 1.2 hashes with MD5 and SHA-1, a suite needs its MAC and PRF hashes.
 */
static void
apply_hashes(side *sd, unsigned hashes)
{
	side save = *sd;
	sd->hashes = hashes;
	if ((hashes & 0x06) != 0x06) {
		if (sd->vmax < 0x0303) { sd->hashes |= 0x06; }
		else sd->vmin = 0x0303;
	}
	filter_by_hashes(sd);
	if (real_suites(sd) == 0) { *sd = save; sd->hashes = HASHES_ALL; }
}

static void
gen_case(vf_rng *r, long long seed, long idx, int *kind_out, side *C, side *S)
{
	long q = idx / 8;
	int k = (int)(idx % 8), kind;
	int vi;

	memset(C, 0, sizeof *C); memset(S, 0, sizeof *S);
	switch (k) {
	case 0: kind = K_VERSIONS; break;
	case 1: kind = K_SINGLE; break;
	case 2: case 3: kind = K_PAIR; break;
	case 4: kind = K_FLAGS; break;
	case 5: kind = K_SUBSETS; break;
	case 6: kind = (q & 1) ? K_ALPN : K_RANDOM; break;
	default: kind = K_SCRIPTED; break;
	}
	*kind_out = kind;

	/* server key first: suite choices are biased by it */
	S->key = (int)vf_below(r, 4);
	S->usages = BR_KEYTYPE_KEYX | BR_KEYTYPE_SIGN;
	if (vf_below(r, 100) < 28) S->usages = vf_below(r, 2) ? BR_KEYTYPE_KEYX : BR_KEYTYPE_SIGN;

	/* versions */
	C->vmin = S->vmin = 0x0301; C->vmax = S->vmax = 0x0303;
	if (kind == K_VERSIONS) {
		vi = (int)(q % 36);
		range_from_index(vi / 6, &C->vmin, &C->vmax);
		range_from_index(vi % 6, &S->vmin, &S->vmax);
	} else if (vf_below(r, 100) < 30) {
		range_from_index((int)vf_below(r, 6), &C->vmin, &C->vmax);
		range_from_index((int)vf_below(r, 6), &S->vmin, &S->vmax);
	}

	/* suites */
	all_suites(C); all_suites(S);
	if (kind == K_SINGLE) {
		int combo = (int)(q % 135);
		static const int keys3[3] = { 0, 1, 2 };
		C->suites[0] = tp_suites[combo % 45].id; C->nsuites = 1;
		S->key = keys3[combo / 45];
		if (S->key == 1 && vf_below(r, 4) == 0) S->key = 3;
		if (vf_below(r, 2)) shuffle16(r, S->suites, S->nsuites);
		if (vf_below(r, 8) == 0) random_suites(r, S, 1 + vf_below(r, 45), S->key, 50);
	} else if (kind == K_PAIR) {
		long pi = q * 2 + (k - 2);
		long pidx = (long)(((uint64_t)pi * 7919u + (uint64_t)seed * 1009u) % 5940u);
		int a = (int)((pidx % 1980) / 44), b = (int)((pidx % 1980) % 44);
		static const int keys3[3] = { 0, 1, 2 };
		if (b >= a) b ++;
		C->suites[0] = tp_suites[a].id; C->suites[1] = tp_suites[b].id; C->nsuites = 2;
		S->key = keys3[pidx / 1980];
		if (S->key == 1 && vf_below(r, 4) == 0) S->key = 3;
		shuffle16(r, S->suites, S->nsuites);
		if (vf_below(r, 2)) S->flags |= BR_OPT_ENFORCE_SERVER_PREFERENCES;
		/* both usable with the key more often than by chance: keep usages full mostly */
		if (vf_below(r, 100) < 70) S->usages = BR_KEYTYPE_KEYX | BR_KEYTYPE_SIGN;
	} else {
		int pc = kind == K_RANDOM ? 90 : 35, ps = kind == K_RANDOM ? 70 : 40;
		if ((int)vf_below(r, 100) < pc) {
			size_t n = vf_below(r, 100) < 60 ? 1 + vf_below(r, 8) : 1 + vf_below(r, 45);
			random_suites(r, C, n, S->key, kind == K_RANDOM ? 60 : 85);
		}
		if ((int)vf_below(r, 100) < ps) {
			if (vf_below(r, 2)) shuffle16(r, S->suites, S->nsuites);
			else random_suites(r, S, 1 + vf_below(r, 45), S->key, 50);
		}
	}

	/* flags */
	if (kind == K_FLAGS) {
		int combo = (int)(q % 256);
		C->flags = (uint32_t)(combo & 15); S->flags = (uint32_t)(combo >> 4);
	} else {
		if (vf_below(r, 100) < 40) C->flags = vf_below(r, 16);
		if (vf_below(r, 100) < 50) S->flags |= vf_below(r, 16);
	}

	/* ALPN */
	if (kind == K_ALPN || kind == K_FLAGS || vf_below(r, 100) < 35) {
		random_alpn(r, C, vf_below(r, 4));
		random_alpn(r, S, vf_below(r, 4));
		if (kind == K_ALPN) {
			if (C->nalpn == 0 && vf_below(r, 4)) random_alpn(r, C, 1 + vf_below(r, 3));
			if (S->nalpn == 0 && vf_below(r, 4)) random_alpn(r, S, 1 + vf_below(r, 3));
			if (vf_below(r, 2)) S->flags |= BR_OPT_FAIL_ON_ALPN_MISMATCH;
		}
	}

	/* SNI */
	C->has_sni = 1; strcpy(C->sni, "localhost");
	if (kind == K_ALPN || vf_below(r, 100) < 35) random_sni(r, C);

	/* client authentication */
	if (kind == K_FLAGS ? vf_below(r, 2) : vf_below(r, 100) < 15) S->creq = 1;
	if (kind == K_FLAGS || S->creq || vf_below(r, 100) < 20) C->cert = (int)vf_below(r, 3);
	if (S->creq && C->cert == 0 && kind != K_FLAGS && vf_below(r, 2)) C->cert = 1 + (int)vf_below(r, 2);

	/* hash and curve subsets */
	C->hashes = S->hashes = HASHES_ALL;
	C->curves = S->curves = CURVES_ALL;
	if (!S->creq) {
		if (kind == K_SUBSETS) {
			long q3 = q / 3;
			switch (q % 3) {
			case 0: apply_hashes(C, (unsigned)(q3 % 64) << 1); if (vf_below(r, 4) == 0) apply_hashes(S, vf_below(r, 64) << 1); break;
			case 1: apply_hashes(S, (unsigned)(q3 % 64) << 1); if (vf_below(r, 4) == 0) apply_hashes(C, vf_below(r, 64) << 1); break;
			default:
				C->curves = curves_from_index(1 + (int)(q3 % 15));
				S->curves = curves_from_index(1 + (int)((q3 / 15) % 15));
				break;
			}
		} else if (kind == K_SINGLE || kind == K_PAIR) {
			/* SHA-224 / SHA-512 are never needed by a suite: vary them freely */
			if (vf_below(r, 100) < 30) C->hashes &= ~(vf_below(r, 2) ? 0x08u : 0u) & ~(vf_below(r, 2) ? 0x40u : 0u);
			if (vf_below(r, 100) < 30) S->hashes &= ~(vf_below(r, 2) ? 0x08u : 0u) & ~(vf_below(r, 2) ? 0x40u : 0u);
			if (vf_below(r, 100) < 25) C->curves = random_curves(r);
			if (vf_below(r, 100) < 25) S->curves = random_curves(r);
		} else if (kind != K_VERSIONS) {
			if (vf_below(r, 100) < 20) apply_hashes(C, vf_below(r, 64) << 1);
			if (vf_below(r, 100) < 20) apply_hashes(S, vf_below(r, 64) << 1);
			if (vf_below(r, 100) < 25) C->curves = random_curves(r);
			if (vf_below(r, 100) < 25) S->curves = random_curves(r);
		} else {
			if (vf_below(r, 100) < 20) C->curves = random_curves(r);
			if (vf_below(r, 100) < 20) S->curves = random_curves(r);
		}
	}

	/* a client that cannot handle the curve of the server's own key is the rarer case */
	if (S->key != 0 && vf_below(r, 100) < 75) C->curves |= (uint32_t)1 << (S->key == 3 ? 24 : 23);

	/* TLS_FALLBACK_SCSV at the end of the client list (documented use) */
	if (kind != K_SINGLE && kind != K_PAIR && vf_below(r, 100) < 8 && C->nsuites < 90) {
		C->suites[C->nsuites ++] = 0x5600;
	}
}

/* ------------------------------------------------------------------ */
/* JSON helpers */

static void
js_hex(FILE *f, const char *key, const unsigned char *p, size_t n, int present)
{
	size_t i;
	fprintf(f, "\"%s\":", key);
	if (!present) { fputs("null", f); return; }
	fputc('"', f);
	for (i = 0; i < n; i ++) fprintf(f, "%02x", p[i]);
	fputc('"', f);
}

static void
js_side(FILE *f, const char *name, const side *sd, int role)
{
	size_t i;
	int id, first;
	fprintf(f, "\"%s\":{\"vmin\":%u,\"vmax\":%u,\"suites\":[", name, sd->vmin, sd->vmax);
	for (i = 0; i < sd->nsuites; i ++) fprintf(f, "%s%u", i ? "," : "", sd->suites[i]);
	fputs("],\"hashes\":[", f);
	for (id = 1, first = 1; id <= 6; id ++) if ((sd->hashes >> id) & 1) { fprintf(f, "%s%d", first ? "" : ",", id); first = 0; }
	fputs("],\"curves\":[", f);
	for (id = 0, first = 1; id < 32; id ++) if ((sd->curves >> id) & 1) { fprintf(f, "%s%d", first ? "" : ",", id); first = 0; }
	fputs("],\"alpn\":[", f);
	for (i = 0; i < sd->nalpn; i ++) fprintf(f, "%s\"%s\"", i ? "," : "", sd->alpn[i]);
	fprintf(f, "],\"flags\":%u,", (unsigned)sd->flags);
	if (role == 0) {
		js_hex(f, "sni", (const unsigned char *)sd->sni, strlen(sd->sni), sd->has_sni);
		fprintf(f, ",\"cert\":%d}", sd->cert);
	} else {
		fprintf(f, "\"key\":\"%s\",\"kcurve\":%d,\"issuer\":\"%s\",\"keyx\":%d,\"sign\":%d,\"creq\":%d}",
			sd->key == 0 ? "rsa" : "ec", sd->key == 0 ? 0 : (sd->key == 3 ? 24 : 23),
			sd->key == 0 || sd->key == 2 ? "rsa" : "ec",
			(sd->usages & BR_KEYTYPE_KEYX) != 0, (sd->usages & BR_KEYTYPE_SIGN) != 0, sd->creq);
	}
}

/* wire observations gathered through the independent decoder's handshake callback */
static struct {
	int have_ske; unsigned ske_curve; int ske_hash, ske_sig;
	unsigned sh_version;
	int n_arec; unsigned arec[8][2];      /* alert records: direction, record version */
} W;

static void
rec_hook(void *arg, const rm_record *r, const unsigned char *plain)
{
	(void)arg; (void)plain;
	if (r->type == 21 && W.n_arec < 8) { W.arec[W.n_arec][0] = (unsigned)r->dir; W.arec[W.n_arec][1] = r->version; W.n_arec ++; }
}

static void
on_hs(void *arg, int dir, int type, const unsigned char *body, size_t len)
{
	(void)arg;
	if (dir == 1 && type == 2 && len >= 2) W.sh_version = ((unsigned)body[0] << 8) | body[1];
	if (dir == 1 && type == 12 && !W.have_ske && len >= 4 && body[0] == 3) {
		size_t pl = body[3];
		W.have_ske = 1;
		W.ske_curve = ((unsigned)body[1] << 8) | body[2];
		W.ske_hash = W.ske_sig = -1;
		if (W.sh_version >= 0x0303 && len >= 4 + pl + 2) { W.ske_hash = body[4 + pl]; W.ske_sig = body[5 + pl]; }
	}
}

typedef struct {
	int done, closed, err, curve, has_proto, xchains, xcerts, xends, xverdict;
	unsigned ver, suite;
	char proto[64];
	unsigned char name[260]; size_t name_len;
} ep_obs;

static void
observe(tp_ep *ep, ep_obs *o)
{
	br_ssl_session_parameters sp;
	const char *proto = br_ssl_engine_get_selected_protocol(ep->eng);
	const char *sn = br_ssl_engine_get_server_name(ep->eng);
	memset(o, 0, sizeof *o);
	o->err = br_ssl_engine_last_error(ep->eng);
	o->done = tp_ep_ready(ep) && o->err == 0;
	o->closed = tp_ep_closed(ep);
	br_ssl_engine_get_session_parameters(ep->eng, &sp);
	o->ver = br_ssl_engine_get_version(ep->eng);
	o->suite = sp.cipher_suite;
	o->curve = br_ssl_engine_get_ecdhe_curve(ep->eng);
	o->has_proto = proto != NULL;
	if (proto) snprintf(o->proto, sizeof o->proto, "%s", proto);
	o->name_len = strlen(sn);
	if (o->name_len > sizeof o->name) o->name_len = sizeof o->name;
	memcpy(o->name, sn, o->name_len);
	o->xchains = ep->xw ? ep->xw->n_start_chain : 0;
	o->xcerts = ep->xw ? ep->xw->n_start_cert : 0;
	o->xends = ep->xw ? ep->xw->n_end_chain : 0;
	o->xverdict = ep->xw && ep->xw->verdict_seen ? (int)ep->xw->last_verdict : -1;
}

static void
js_endpoint(FILE *f, const char *name, const ep_obs *o, int reneg)
{
	fprintf(f, "\"%s\":{\"done\":%d,\"closed\":%d,\"err\":%d,\"ver\":%u,\"suite\":%u,\"curve\":%d,",
		name, o->done, o->closed, o->err, o->ver, o->suite, o->curve);
	if (o->has_proto) fprintf(f, "\"proto\":\"%s\",", o->proto); else fputs("\"proto\":null,", f);
	js_hex(f, "name", o->name, o->name_len, 1);
	fprintf(f, ",\"reneg\":%d,\"xchains\":%d,\"xcerts\":%d,\"xends\":%d,\"xverdict\":%d}",
		reneg, o->xchains, o->xcerts, o->xends, o->xverdict);
}

static void
js_wire(FILE *f, rm_state *rm)
{
	int d, i;
	fputs("\"alerts\":[", f);
	for (d = 0, i = 0; d < 2; d ++) {
		int j;
		for (j = 0; j < rm->n_alerts[d]; j ++, i ++) {
			fprintf(f, "%s[%d,%d,%d]", i ? "," : "", d, rm->alerts[d][j][0], rm->alerts[d][j][1]);
		}
	}
	fputs("],\"hs\":[", f);
	for (d = 0; d < 2; d ++) {
		fprintf(f, "%s[", d ? "," : "");
		for (i = 0; i < rm->n_hs[d]; i ++) fprintf(f, "%s%d", i ? "," : "", rm->hs_types[d][i]);
		fputc(']', f);
	}
	fputs("],", f);
	js_hex(f, "ch", rm->last_ch, rm->last_ch_len, rm->n_ch > 0 && rm->last_ch_len > 0);
	fputc(',', f);
	js_hex(f, "sh", rm->last_sh, rm->last_sh_len, rm->n_sh > 0 && rm->last_sh_len > 0);
	if (W.have_ske) fprintf(f, ",\"ske\":[%u,%d,%d]", W.ske_curve, W.ske_hash, W.ske_sig);
	else fputs(",\"ske\":null", f);
	fputs(",\"alert_records\":[", f);
	for (i = 0; i < W.n_arec; i ++) fprintf(f, "%s[%u,%u]", i ? "," : "", W.arec[i][0], W.arec[i][1]);
	fprintf(f, "],\"mon_failed\":%d", rm->failed);
}

/* ------------------------------------------------------------------ */
/* a case with two engines */

static void
run_pair(long long seed, long idx, int kind, side *C, side *S, vf_rng *r)
{
	tp_pair p;
	tm_pairmon pm;
	tp_cfg cc, sc;
	int hs, rc, rs, renc = -1, rens = -1;

	side_to_cfg(C, 0, &cc, r);
	side_to_cfg(S, 1, &sc, r);
	tp_pair_init(&p, (uint64_t)seed, (uint64_t)idx, (int)vf_below(r, 5));
	p.c.tx_key = vf_u64(r); p.s.tx_key = vf_u64(r);
	tm_pair_attach(&pm, &p);
	pm.m.rm.on_hs = on_hs;
	pm.m.rec_hook = rec_hook;
	memset(&W, 0, sizeof W);
	rc = tp_ep_start(&p.c, &cc);
	rs = tp_ep_start(&p.s, &sc);
	p.c.tx_key = pm.m.key[0]; p.c.rx_key = pm.m.key[1];
	p.s.tx_key = pm.m.key[1]; p.s.rx_key = pm.m.key[0];
	hs = 0;
	if (rc && rs) {
		hs = tp_handshake(&p, 2000000);
		rm_drain(&pm.m.rm, 0); rm_drain(&pm.m.rm, 1);
	}
	vf_stat(hs ? "handshakes_completed" : "handshakes_failed", 1);
	/* a few application bytes over completed sessions keep the record layer honest */
	if (hs && vf_below(r, 8) == 0) {
		if (!tp_run_data(&p, 1 + vf_below(r, 300), 1 + vf_below(r, 300), TP_W_WHOLE, 200000)) {
			TP_VIOL("stream:incomplete", "application data did not flow over the negotiated session");
		}
		vf_stat("sessions_with_data", 1);
	}
	fprintf(LOG, "{\"i\":%ld,\"seed\":%lld,\"kind\":\"%s\",\"reset\":[%d,%d],", idx, seed, kind_names[kind], rc, rs);
	js_side(LOG, "C", C, 0); fputc(',', LOG);
	js_side(LOG, "S", S, 1); fputc(',', LOG);
	js_wire(LOG, &pm.m.rm);
	/* renegotiation capability is measured last: a successful call starts a new handshake */
	{
		ep_obs oc, os;
		observe(&p.c, &oc);
		observe(&p.s, &os);
		if (rc) renc = tp_act_reneg(&p.c);
		if (rs) rens = tp_act_reneg(&p.s);
		fputc(',', LOG); js_endpoint(LOG, "oc", &oc, renc);
		fputc(',', LOG); js_endpoint(LOG, "os", &os, rens);
		fputs("}\n", LOG);
	}
	tm_verdict(&pm.m, 0, 0, 0);
	vf_distinct("config", "%s/c%04x-%04x/s%04x-%04x/k%d.u%x/f%x.%x/h%d%d/cv%d%d/a%d%d/r%d%d",
		kind_names[kind], C->vmin, C->vmax, S->vmin, S->vmax, S->key, S->usages, (unsigned)C->flags & 2, (unsigned)S->flags,
		C->hashes != HASHES_ALL, S->hashes != HASHES_ALL, C->curves != CURVES_ALL, S->curves != CURVES_ALL,
		C->nalpn != 0, S->nalpn != 0, S->creq, C->cert);
	if (hs) {
		br_ssl_session_parameters sp;
		br_ssl_engine_get_session_parameters(p.s.eng, &sp);
		vf_distinct("outcome", "%04x/%04x", sp.version, sp.cipher_suite);
		vf_sample("{\"idx\":%ld,\"kind\":\"%s\",\"client_versions\":\"%04x-%04x\",\"server_versions\":\"%04x-%04x\",\"client_suites\":%zu,\"server_suites\":%zu,\"server_key\":%d,\"negotiated_version\":\"%04x\",\"negotiated_suite\":\"%04x\"}",
			idx, kind_names[kind], C->vmin, C->vmax, S->vmin, S->vmax, C->nsuites, S->nsuites, S->key, sp.version, sp.cipher_suite);
	} else {
		vf_distinct("outcome", "fail/%d/%d", br_ssl_engine_last_error(p.c.eng), br_ssl_engine_last_error(p.s.eng));
	}
	rm_free(&pm.m.rm);
	tp_pair_free(&p);
}

/* ------------------------------------------------------------------ */
/* scripted ClientHello */

typedef struct { unsigned char b[4096]; size_t n; } bb;
static void b8(bb *x, unsigned v) { x->b[x->n ++] = (unsigned char)v; }
static void b16(bb *x, unsigned v) { b8(x, v >> 8); b8(x, v); }
static void bput(bb *x, const void *p, size_t n) { memcpy(x->b + x->n, p, n); x->n += n; }
static void bset16(bb *x, size_t at, unsigned v) { x->b[at] = (unsigned char)(v >> 8); x->b[at + 1] = (unsigned char)v; }

static unsigned
grease(vf_rng *r) { unsigned v = vf_below(r, 16); return (v << 12) | 0x0A00 | (v << 4) | 0x0A; }

static void
ext_begin(bb *x, unsigned type, size_t *mark) { b16(x, type); *mark = x->n; b16(x, 0); }
static void
ext_end(bb *x, size_t mark) { bset16(x, mark, (unsigned)(x->n - mark - 2)); }

static void
build_hello(vf_rng *r, const side *S, bb *h, unsigned *rec_version)
{
	static const unsigned vers[] = { 0x0303, 0x0303, 0x0303, 0x0303, 0x0302, 0x0301, 0x0301, 0x0304, 0x0303, 0x03FF };
	static const unsigned unknown_suites[] = { 0x1301, 0x1302, 0x0005, 0x0004, 0x0033, 0x009E, 0xC0FF, 0x0000, 0xFFFF, 0xC011 };
	size_t lenpos, spos, nsu, i, m;
	unsigned cver = vf_below(r, 40) == 0 ? 0x0300 : vers[vf_below(r, 10)];
	uint16_t used[128]; size_t nused = 0;
	int extmode;
	int with_fallback = vf_below(r, 100) < 15, with_reneg_scsv = vf_below(r, 100) < 30;
	unsigned kcurve = S->key == 0 ? 23 : (S->key == 3 ? 24 : 23);

	h->n = 0;
	*rec_version = vf_below(r, 3) ? 0x0301 : (vf_below(r, 2) ? 0x0303 : 0x0300);
	b8(h, 1); b8(h, 0); lenpos = h->n; b16(h, 0);
	b16(h, cver);
	for (i = 0; i < 32; i ++) b8(h, vf_below(r, 256));
	if (vf_below(r, 2)) { b8(h, 32); for (i = 0; i < 32; i ++) b8(h, vf_below(r, 256)); } else b8(h, 0);
	/* suites */
	nsu = vf_below(r, 100) < 75 ? 1 + vf_below(r, 12) : 1 + vf_below(r, 70);
	spos = h->n; b16(h, 0);
	for (i = 0; i < nsu; i ++) {
		unsigned v, c = vf_below(r, 100);
		if (c < 60) {
			const tp_suite_info *si = &tp_suites[vf_below(r, TP_NSUITES)];
			if (!tp_suite_fits_key(si, key_to_kind(S->key)) && vf_below(r, 2)) si = &tp_suites[vf_below(r, TP_NSUITES)];
			v = si->id;
		} else if (c < 70) v = unknown_suites[vf_below(r, 10)];
		else if (c < 80) v = grease(r);
		else if (c < 84) v = with_reneg_scsv ? 0x00FFu : grease(r);
		else if (c < 88) v = with_fallback ? 0x5600u : 0x1303u;
		else if (nused > 0) v = used[vf_below(r, (uint32_t)nused)];       /* duplicate */
		else v = tp_suites[vf_below(r, TP_NSUITES)].id;
		if (nused < 128) used[nused ++] = (uint16_t)v;
		b16(h, v);
	}
	if (with_fallback && vf_below(r, 2)) b16(h, 0x5600);
	if (with_reneg_scsv && vf_below(r, 2)) b16(h, 0x00FF);
	bset16(h, spos, (unsigned)(h->n - spos - 2));
	/* compression */
	switch (vf_below(r, 4)) {
	case 0: b8(h, 2); b8(h, 1); b8(h, 0); break;
	case 1: b8(h, 2); b8(h, 0); b8(h, 64); break;
	default: b8(h, 1); b8(h, 0); break;
	}
	/* extensions */
	extmode = (int)vf_below(r, 10);
	if (extmode == 0) {
		/* no extension block at all */
	} else if (extmode == 1) {
		b16(h, 0);                                  /* empty block */
	} else {
		size_t xpos = h->n;
		int order[10], no = 0, j;
		b16(h, 0);
		/* candidate extensions, each at most once, random order */
		for (j = 0; j < 10; j ++) if (vf_below(r, 100) < (j < 6 ? 55 : 30)) order[no ++] = j;
		for (j = no; j > 1; j --) { int t, u = (int)vf_below(r, (uint32_t)j); t = order[j - 1]; order[j - 1] = order[u]; order[u] = t; }
		for (j = 0; j < no; j ++) {
			switch (order[j]) {
			case 0: {   /* SNI */
				static const size_t lens[] = { 0, 1, 9, 9, 64, 255, 255, 256, 300 };
				size_t l = lens[vf_below(r, 9)], lm;
				ext_begin(h, 0x0000, &m);
				lm = h->n; b16(h, 0);
				if (vf_below(r, 5) == 0) { b8(h, 1 + vf_below(r, 255)); b16(h, 3); b8(h, 'x'); b8(h, 'y'); b8(h, 'z'); }   /* unknown name type first */
				b8(h, 0); b16(h, (unsigned)l);
				for (i = 0; i < l; i ++) b8(h, vf_below(r, 4) ? (unsigned)('a' + vf_below(r, 26)) : 1 + vf_below(r, 255));
				bset16(h, lm, (unsigned)(h->n - lm - 2));
				ext_end(h, m);
				break;
			}
			case 1: {   /* signature algorithms */
				static const unsigned hs[] = { 2, 3, 4, 5, 6, 4, 2, 1, 8, 0, 7 };
				static const unsigned ss[] = { 1, 3, 1, 3, 2, 0, 4, 7 };
				size_t lm, k2 = vf_below(r, 9);
				ext_begin(h, 0x000D, &m);
				lm = h->n; b16(h, 0);
				for (i = 0; i < k2; i ++) {
					if (vf_below(r, 10) == 0) { unsigned g = grease(r); b16(h, g); }
					else { b8(h, hs[vf_below(r, 11)]); b8(h, ss[vf_below(r, 8)]); }
				}
				if (vf_below(r, 100) < 60) { b8(h, 2); b8(h, 3); b8(h, 2); b8(h, 1); }   /* SHA-1 with ECDSA, RSA: what older versions use anyway */
				bset16(h, lm, (unsigned)(h->n - lm - 2));
				ext_end(h, m);
				break;
			}
			case 2: {   /* supported curves */
				static const unsigned cs[] = { 23, 24, 25, 29, 23, 29, 30, 22, 19, 256, 26, 31, 32, 65281 };
				size_t lm, k2 = vf_below(r, 7);
				ext_begin(h, 0x000A, &m);
				lm = h->n; b16(h, 0);
				for (i = 0; i < k2; i ++) b16(h, vf_below(r, 8) == 0 ? grease(r) : cs[vf_below(r, 14)]);
				if (vf_below(r, 100) < 70) b16(h, kcurve);
				bset16(h, lm, (unsigned)(h->n - lm - 2));
				ext_end(h, m);
				break;
			}
			case 3:     /* point formats */
				ext_begin(h, 0x000B, &m); b8(h, 1); b8(h, 0); ext_end(h, m);
				break;
			case 4: {   /* ALPN */
				static const char *extra[] = { "zz", "h", "http/1.0" };
				size_t lm, k2 = 1 + vf_below(r, 3);
				int perm[11] = { 0, 1, 2, 3, 4, 5, 6, 7, 8, 9, 10 }, a;
				for (a = 11; a > 1; a --) { int u = (int)vf_below(r, (uint32_t)a), t = perm[a - 1]; perm[a - 1] = perm[u]; perm[u] = t; }
				ext_begin(h, 0x0010, &m);
				lm = h->n; b16(h, 0);
				for (i = 0; i < k2; i ++) {
					const char *nm = perm[i] < 8 ? alpn_universe[perm[i]] : extra[perm[i] - 8];
					b8(h, (unsigned)strlen(nm)); bput(h, nm, strlen(nm));
				}
				bset16(h, lm, (unsigned)(h->n - lm - 2));
				ext_end(h, m);
				break;
			}
			case 5:     /* renegotiation_info, empty (initial handshake) */
				ext_begin(h, 0xFF01, &m); b8(h, 0); ext_end(h, m);
				break;
			case 6: {   /* GREASE extension with arbitrary body */
				size_t l = vf_below(r, 20);
				ext_begin(h, grease(r), &m);
				for (i = 0; i < l; i ++) b8(h, vf_below(r, 256));
				ext_end(h, m);
				break;
			}
			case 7:     /* extended master secret / session ticket: empty bodies */
				ext_begin(h, vf_below(r, 2) ? 0x0017 : 0x0023, &m); ext_end(h, m);
				break;
			case 8:     /* supported_versions as a TLS 1.3 client would send */
				ext_begin(h, 0x002B, &m); b8(h, 4); b16(h, 0x0304); b16(h, 0x0303); ext_end(h, m);
				break;
			default: {  /* unknown type, arbitrary body */
				size_t l = vf_below(r, 40);
				ext_begin(h, 0x1234 + vf_below(r, 1000), &m);
				for (i = 0; i < l; i ++) b8(h, vf_below(r, 256));
				ext_end(h, m);
				break;
			}
			}
		}
		bset16(h, xpos, (unsigned)(h->n - xpos - 2));
	}
	bset16(h, lenpos, (unsigned)(h->n - 4));
}

static void
run_scripted(long long seed, long idx, side *S, vf_rng *r)
{
	tp_ep srv;
	tp_cfg sc;
	tp_fifo c2s, s2c;
	tm_mon mon;
	bb h;
	unsigned rv;
	unsigned char rec[5];
	int rs, guard = 0;

	memset(&srv, 0, sizeof srv);
	S->creq = 0;
	if (S->key == 3 && vf_below(r, 3)) S->key = 1;
	/* the scripted peer has no engine: server-side hash/curve subsets stay as generated */
	side_to_cfg(S, 1, &sc, r);
	build_hello(r, S, &h, &rv);
	tp_fifo_init(&c2s); tp_fifo_init(&s2c);
	tm_init(&mon, NULL, &mon);
	mon.check_app = 0;
	mon.rm.on_hs = on_hs;
	mon.rec_hook = rec_hook;
	memset(&W, 0, sizeof W);
	rs = tp_ep_start(&srv, &sc);
	rec[0] = 22; rec[1] = (unsigned char)(rv >> 8); rec[2] = (unsigned char)rv;
	rec[3] = (unsigned char)(h.n >> 8); rec[4] = (unsigned char)h.n;
	tp_fifo_put(&c2s, rec, 5);
	tp_fifo_put(&c2s, h.b, h.n);
	rm_feed(&mon.rm, 0, c2s.data + c2s.rd, tp_fifo_len(&c2s));
	while (rs && guard ++ < 100000) {
		unsigned st = br_ssl_engine_current_state(srv.eng);
		size_t k;
		if (st & BR_SSL_SENDREC) {
			k = tp_act_sendrec(&srv, &s2c, 1 + vf_below(r, 4000));
			rm_feed(&mon.rm, 1, s2c.data + (s2c.wr - k), k);
			s2c.rd = s2c.wr;
			continue;
		}
		if ((st & BR_SSL_RECVREC) && tp_fifo_len(&c2s) > 0) {
			tp_act_recvrec(&srv, &c2s, 1 + vf_below(r, 600));
			continue;
		}
		break;
	}
	rm_drain(&mon.rm, 1);
	fprintf(LOG, "{\"i\":%ld,\"seed\":%lld,\"kind\":\"scripted\",\"reset\":[1,%d],\"rv\":%u,", idx, seed, rs, rv);
	js_side(LOG, "S", S, 1); fputc(',', LOG);
	js_wire(LOG, &mon.rm); fputc(',', LOG);
	{
		ep_obs os;
		observe(&srv, &os);
		js_endpoint(LOG, "os", &os, -1);
	}
	fputs("}\n", LOG);
	vf_stat("scripted_hellos", 1);
	vf_stat(mon.rm.n_sh > 0 ? "scripted_answered_server_hello" : "scripted_refused", 1);
	vf_distinct("config", "scripted/s%04x-%04x/k%d.u%x/f%x/h%d/cv%d/a%d/len%zu",
		S->vmin, S->vmax, S->key, S->usages, (unsigned)S->flags, S->hashes != HASHES_ALL, S->curves != CURVES_ALL, S->nalpn != 0, h.n / 64);
	if (mon.rm.n_sh > 0) vf_distinct("outcome", "scripted/%04x/%04x", mon.rm.version, mon.rm.suite);
	else vf_distinct("outcome", "scripted/fail/%d", br_ssl_engine_last_error(srv.eng));
	rm_free(&mon.rm);
	tp_ep_free(&srv);
	tp_fifo_free(&c2s); tp_fifo_free(&s2c);
}

/* ------------------------------------------------------------------ */

int
main(int argc, char **argv)
{
	long long seed = vf_argi(argc, argv, "--seed", 1);
	int worker = (int)vf_argi(argc, argv, "--worker", 0);
	int nworkers = (int)vf_argi(argc, argv, "--nworkers", 1);
	long ncases = (long)vf_argi(argc, argv, "--cases", 800);
	long only = (long)vf_argi(argc, argv, "--only", -1);
	const char *logpath = vf_arg(argc, argv, "--log", NULL);
	long idx;

	tp_prop = "C15";
	if (logpath == NULL) { fprintf(stderr, "h_tls15: --log <path> is required\n"); return 2; }
	LOG = fopen(logpath, "w");
	if (LOG == NULL) { perror(logpath); return 2; }
	tp_fixtures();
	for (idx = only >= 0 ? only : worker; idx < ncases || idx == only; idx += nworkers) {
		vf_rng r;
		side C, S;
		int kind;
		vf_rng_init(&r, (uint64_t)seed, (uint64_t)idx);
		gen_case(&r, seed, idx, &kind, &C, &S);
		snprintf(tp_case, sizeof tp_case, "seed=%lld idx=%ld kind=%s (replay: h_tls15 --seed %lld --only %ld --log <file>)",
			seed, idx, kind_names[kind], seed, idx);
		vf_stat("cases", 1);
		if (kind == K_SCRIPTED) run_scripted(seed, idx, &S, &r);
		else run_pair(seed, idx, kind, &C, &S, &r);
		if (only >= 0) break;
	}
	if (fclose(LOG) != 0) { perror("close log"); return 2; }
	vf_stat("monitored_calls", tp_calls);
	vf_done();
	return 0;
}
