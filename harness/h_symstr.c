/*
 * C12 (stream cipher, MACs): ChaCha20 (ct, sse2 when present), the
 * ChaCha20+Poly1305 AEAD function of every Poly1305 implementation (ctmul,
 * ctmul32, i15, ctmulq when present) combined with every ChaCha20
 * implementation, and GHASH (ctmul, ctmul32, ctmul64, pclmul when present).
 *
 * References: OpenSSL EVP_chacha20 (re-keyed at the 2^32 block boundary,
 * because BearSSL's counter is 32 bits wide and wraps), OpenSSL
 * EVP_chacha20_poly1305, a spec-level Poly1305 over OpenSSL BIGNUMs (for
 * crafted accumulator values; itself cross-checked against EVP), and a
 * spec-level bit-by-bit GF(2^128) multiplication (SP 800-38D algorithm 1;
 * itself cross-checked against EVP AES-GCM tags) for GHASH.
 *
 * Same task/worker scheme as h_symblk.c.
 */
#include "common.h"
#include "bearssl.h"
#include <openssl/evp.h>
#include <openssl/bn.h>

/* ------------------------------------------------------------------ */
/* infrastructure */

static uint64_t g_seed;
static int g_w, g_nw, g_rep;
static long long g_task;
static char g_desc[1800];

/* implementations that already failed against the reference in the current case */
static const char *g_failed[64];
static int g_nfailed;

static int
take(void)
{
	return (int)(g_task ++ % g_nw) == g_w;
}

static void
case_rng(vf_rng *r, int section, uint64_t idx)
{
	vf_rng_init(r, g_seed, ((uint64_t)section << 48) ^ ((uint64_t)g_rep << 32) ^ idx);
}

static void
die(const char *what)
{
	fflush(stdout);
	fprintf(stderr, "HARNESS_ASSERT %s\n", what);
	exit(3);
}

static void *
xmalloc(size_t n)
{
	void *p = malloc(n ? n : 1);
	if (!p) die("oom");
	return p;
}

/* data buffer: [off bytes canary][len bytes data], exact end => ASan red zone */
typedef struct { unsigned char *base, *p; size_t off, len; } dbuf;

static dbuf
db_new(const unsigned char *src, size_t len, size_t off)
{
	dbuf b;
	b.base = xmalloc(off + len);
	memset(b.base, 0xC5, off);
	b.p = b.base + off;
	if (len) memcpy(b.p, src, len);
	b.off = off; b.len = len;
	return b;
}

static int
db_canary_ok(const dbuf *b)
{
	size_t i;
	for (i = 0; i < b->off; i ++) if (b->base[i] != 0xC5) return 0;
	return 1;
}

static size_t
first_diff(const unsigned char *a, const unsigned char *b, size_t len)
{
	size_t i;
	for (i = 0; i < len; i ++) if (a[i] != b[i]) return i;
	return len;
}

/* compare with the reference; statname is an additional counter */
static int
judge(const char *statname, const char *prim, const char *impl, const char *aspect,
	const void *got, const void *exp, size_t len)
{
	char key[200];
	size_t d, n;

	vf_stat("cmp_ref", 1);
	vf_stat(statname, 1);
	if (len == 0 || memcmp(got, exp, len) == 0) return 1;
	if (g_nfailed < 64) g_failed[g_nfailed ++] = impl;
	d = first_diff(got, exp, len);
	n = len - d < 16 ? len - d : 16;
	snprintf(key, sizeof key, "C12:%s:%s:%s", prim, impl, aspect);
	vf_viol(key, "output differs from the reference", "%s diff_at=%zu got=%s exp=%s",
		g_desc, d, vf_hexs((const unsigned char *)got + d, n),
		vf_hexs((const unsigned char *)exp + d, n));
	return 0;
}

static void
judge_pair(const char *prim, const char *aspect, const char *ia, const char *ib,
	const void *a, const void *b, size_t len)
{
	char key[200];

	int i;

	vf_stat("cmp_pair", 1);
	if (len == 0 || memcmp(a, b, len) == 0) return;
	for (i = 0; i < g_nfailed; i ++) {
		/* already reported against the reference: the disagreement is explained, no second key */
		if (g_failed[i] == ia || g_failed[i] == ib) { vf_stat("pair_mismatch_explained", 1); return; }
	}
	snprintf(key, sizeof key, "C12:%s:pair-%s-%s:%s", prim, ia, ib, aspect);
	vf_viol(key, "two implementations disagree", "%s diff_at=%zu", g_desc,
		first_diff(a, b, len));
}

static void
judge_flag(const char *prim, const char *impl, const char *aspect, int ok, const char *what)
{
	char key[200];

	vf_stat("cmp_aux", 1);
	if (ok) return;
	snprintf(key, sizeof key, "C12:%s:%s:%s", prim, impl, aspect);
	vf_viol(key, what, "%s", g_desc);
}

/* chunk lists */
#define MAXCH 8
typedef struct { size_t n[MAXCH]; int cnt; } chunks;

static const char *
ch_str(const chunks *c)
{
	static char b[128];
	int i, o = 0;
	for (i = 0; i < c->cnt; i ++) o += snprintf(b + o, sizeof b - o, "%s%zu", i ? "+" : "", c->n[i]);
	return b;
}

static chunks
ch_one(size_t len)
{
	chunks c; c.cnt = 1; c.n[0] = len; return c;
}

static chunks
ch_two(size_t a, size_t len)
{
	chunks c; c.cnt = 2; c.n[0] = a; c.n[1] = len - a; return c;
}

/* 2..4 chunks, cuts on multiples of bs (zero-length chunks allowed), last may be partial */
static chunks
ch_rand(vf_rng *r, size_t len, size_t bs)
{
	chunks c;
	size_t cut[MAXCH], nb = len / bs, prev = 0;
	int k = (int)vf_range(r, 2, 4), i, j;

	for (i = 0; i < k - 1; i ++) cut[i] = bs * vf_range(r, 0, (uint32_t)nb);
	for (i = 0; i < k - 1; i ++) for (j = i + 1; j < k - 1; j ++)
		if (cut[j] < cut[i]) { size_t t = cut[i]; cut[i] = cut[j]; cut[j] = t; }
	c.cnt = k;
	for (i = 0; i < k - 1; i ++) { c.n[i] = cut[i] - prev; prev = cut[i]; }
	c.n[k - 1] = len - prev;
	return c;
}

/* ------------------------------------------------------------------ */
/* references */

static EVP_CIPHER_CTX *g_evp;

static void
ref_cipher(const EVP_CIPHER *c, int enc, const unsigned char *key, const unsigned char *iv,
	const unsigned char *in, unsigned char *out, size_t len)
{
	int ol = 0, fl = 0;

	if (len == 0) return;
	if (!c) die("ref-cipher-missing");
	if (EVP_CipherInit_ex(g_evp, c, NULL, key, iv, enc) != 1) die("ref-init");
	EVP_CIPHER_CTX_set_padding(g_evp, 0);
	if (EVP_CipherUpdate(g_evp, out, &ol, in, (int)len) != 1) die("ref-update");
	if (EVP_CipherFinal_ex(g_evp, out + ol, &fl) != 1) die("ref-final");
	if ((size_t)(ol + fl) != len) die("ref-len");
}

/* ChaCha20 with a 32-bit block counter that wraps to 0 (nonce untouched) */
static void
ref_chacha(const unsigned char *key, const unsigned char *iv12, uint32_t cc,
	const unsigned char *in, unsigned char *out, size_t len)
{
	while (len > 0) {
		unsigned char iv16[16];
		uint64_t room = (0x100000000ull - (uint64_t)cc) * 64;
		size_t seg = (uint64_t)len < room ? len : (size_t)room;

		iv16[0] = (unsigned char)cc; iv16[1] = (unsigned char)(cc >> 8);
		iv16[2] = (unsigned char)(cc >> 16); iv16[3] = (unsigned char)(cc >> 24);
		memcpy(iv16 + 4, iv12, 12);
		ref_cipher(EVP_chacha20(), 1, key, iv16, in, out, seg);
		in += seg; out += seg; len -= seg;
		cc = (uint32_t)(cc + (uint32_t)((seg + 63) / 64));
	}
}

/* RFC 7539 AEAD: out = ChaCha20(in), tag over aad and the ciphertext */
static void
ref_aead(const unsigned char *key, const unsigned char *iv12, const unsigned char *aad, size_t aadlen,
	const unsigned char *pt, unsigned char *ct, size_t len, unsigned char *tag)
{
	int l;
	unsigned char dummy[16];

	if (EVP_EncryptInit_ex(g_evp, EVP_chacha20_poly1305(), NULL, NULL, NULL) != 1) die("ref-aead-init");
	if (EVP_CIPHER_CTX_ctrl(g_evp, EVP_CTRL_AEAD_SET_IVLEN, 12, NULL) != 1) die("ref-aead-ivlen");
	if (EVP_EncryptInit_ex(g_evp, NULL, NULL, key, iv12) != 1) die("ref-aead-key");
	if (aadlen && EVP_EncryptUpdate(g_evp, NULL, &l, aad, (int)aadlen) != 1) die("ref-aead-aad");
	if (len && EVP_EncryptUpdate(g_evp, ct, &l, pt, (int)len) != 1) die("ref-aead-data");
	if (EVP_EncryptFinal_ex(g_evp, dummy, &l) != 1) die("ref-aead-final");
	if (EVP_CIPHER_CTX_ctrl(g_evp, EVP_CTRL_AEAD_GET_TAG, 16, tag) != 1) die("ref-aead-tag");
}

/* spec-level Poly1305 (RFC 7539 2.5.1) on BIGNUMs */
static BN_CTX *g_bn;
static BIGNUM *g_p1305;

static void
ref_poly1305(const unsigned char *key32, const unsigned char *msg, size_t len, unsigned char *tag)
{
	unsigned char rb[16], blk[17];
	BIGNUM *r = BN_new(), *s = BN_new(), *acc = BN_new(), *n = BN_new();

	memcpy(rb, key32, 16);
	rb[3] &= 15; rb[7] &= 15; rb[11] &= 15; rb[15] &= 15;
	rb[4] &= 252; rb[8] &= 252; rb[12] &= 252;
	BN_lebin2bn(rb, 16, r);
	BN_lebin2bn(key32 + 16, 16, s);
	BN_zero(acc);
	while (len > 0) {
		size_t k = len < 16 ? len : 16;
		memcpy(blk, msg, k);
		blk[k] = 1;
		BN_lebin2bn(blk, (int)k + 1, n);
		BN_add(acc, acc, n);
		BN_mod_mul(acc, acc, r, g_p1305, g_bn);
		msg += k; len -= k;
	}
	BN_add(acc, acc, s);
	BN_mask_bits(acc, 128);
	if (BN_bn2lebinpad(acc, tag, 16) != 16) die("ref-poly-out");
	BN_free(r); BN_free(s); BN_free(acc); BN_free(n);
}

/* the message Poly1305 sees in the AEAD construction */
static unsigned char *
aead_frame(const unsigned char *aad, size_t aadlen, const unsigned char *ct, size_t len, size_t *flen)
{
	size_t pa = (16 - aadlen % 16) % 16, pc = (16 - len % 16) % 16, i;
	size_t n = aadlen + pa + len + pc + 16;
	unsigned char *m = xmalloc(n), *q;
	uint64_t a = aadlen, c = len;

	memset(m, 0, n);
	if (aadlen) memcpy(m, aad, aadlen);
	if (len) memcpy(m + aadlen + pa, ct, len);
	q = m + n - 16;
	for (i = 0; i < 8; i ++) { q[i] = (unsigned char)(a >> (8 * i)); q[8 + i] = (unsigned char)(c >> (8 * i)); }
	*flen = n;
	return m;
}

/* spec-level GHASH: y = (y ^ block) * h for every (zero-padded) block; SP 800-38D 6.3, 6.4 */
static void
gf128_mul(const unsigned char *x, const unsigned char *y, unsigned char *out)
{
	uint64_t zh = 0, zl = 0, vh = 0, vl = 0;
	int i;

	for (i = 0; i < 8; i ++) { vh = (vh << 8) | y[i]; vl = (vl << 8) | y[8 + i]; }
	for (i = 0; i < 128; i ++) {
		if ((x[i >> 3] >> (7 - (i & 7))) & 1) { zh ^= vh; zl ^= vl; }
		if (vl & 1) { vl = (vl >> 1) | (vh << 63); vh = (vh >> 1) ^ 0xE100000000000000ull; }
		else { vl = (vl >> 1) | (vh << 63); vh >>= 1; }
	}
	for (i = 0; i < 8; i ++) { out[i] = (unsigned char)(zh >> (56 - 8 * i)); out[8 + i] = (unsigned char)(zl >> (56 - 8 * i)); }
}

static void
ref_ghash(unsigned char *y, const unsigned char *h, const unsigned char *data, size_t len)
{
	while (len > 0) {
		unsigned char t[16];
		size_t k = len < 16 ? len : 16, i;
		memset(t, 0, 16);
		memcpy(t, data, k);
		for (i = 0; i < 16; i ++) t[i] ^= y[i];
		gf128_mul(t, h, y);
		data += k; len -= k;
	}
}

static void
ref_selftest(void)
{
	vf_rng r;
	int it;
	static const unsigned char H[16] = { 0x66,0xe9,0x4b,0xd4,0xef,0x8a,0x2c,0x3b,0x88,0x4c,0xfa,0x59,0xca,0x34,0x2b,0x2e };
	static const unsigned char C[16] = { 0x03,0x88,0xda,0xce,0x60,0xb6,0xa3,0x92,0xf3,0x28,0xc2,0xb9,0x71,0xb2,0xfe,0x78 };
	static const unsigned char L[16] = { 0,0,0,0,0,0,0,0,0,0,0,0,0,0,0,0x80 };
	static const unsigned char G[16] = { 0xf3,0x8c,0xbb,0x1a,0xd6,0x92,0x23,0xdc,0xc3,0x45,0x7a,0xe5,0xb6,0xb0,0xf8,0x85 };
	unsigned char y[16];

	/* GCM spec test case 2 */
	memset(y, 0, 16);
	ref_ghash(y, H, C, 16); ref_ghash(y, H, L, 16);
	if (memcmp(y, G, 16)) die("ref-ghash-kat");

	vf_rng_init(&r, 0x5E1F, 77);
	for (it = 0; it < 40; it ++) {
		/* GHASH reference against EVP AES-GCM: T = E(K, J0) ^ GHASH(H, A, C) */
		unsigned char key[16], iv[12], aad[70], pt[90], ct[90], tag[16], h[16], j0[16], z[16], lb[16], t2[16];
		size_t al = vf_below(&r, 71), pl = vf_below(&r, 91);
		int l, i;
		vf_bytes(&r, key, 16); vf_bytes(&r, iv, 12); vf_bytes(&r, aad, al); vf_bytes(&r, pt, pl);
		if (EVP_EncryptInit_ex(g_evp, EVP_aes_128_gcm(), NULL, key, iv) != 1) die("ref-gcm-init");
		if (al && EVP_EncryptUpdate(g_evp, NULL, &l, aad, (int)al) != 1) die("ref-gcm-aad");
		if (pl && EVP_EncryptUpdate(g_evp, ct, &l, pt, (int)pl) != 1) die("ref-gcm-data");
		if (EVP_EncryptFinal_ex(g_evp, z, &l) != 1) die("ref-gcm-final");
		if (EVP_CIPHER_CTX_ctrl(g_evp, EVP_CTRL_AEAD_GET_TAG, 16, tag) != 1) die("ref-gcm-tag");
		memset(z, 0, 16);
		ref_cipher(EVP_aes_128_ecb(), 1, key, NULL, z, h, 16);
		memcpy(j0, iv, 12); j0[12] = j0[13] = j0[14] = 0; j0[15] = 1;
		ref_cipher(EVP_aes_128_ecb(), 1, key, NULL, j0, t2, 16);
		memset(y, 0, 16); memset(lb, 0, 16);
		lb[6] = (unsigned char)((al * 8) >> 8); lb[7] = (unsigned char)(al * 8);
		lb[14] = (unsigned char)((pl * 8) >> 8); lb[15] = (unsigned char)(pl * 8);
		ref_ghash(y, h, aad, al); ref_ghash(y, h, ct, pl); ref_ghash(y, h, lb, 16);
		for (i = 0; i < 16; i ++) t2[i] ^= y[i];
		if (memcmp(t2, tag, 16)) die("ref-ghash-vs-evp-gcm");
	}
	for (it = 0; it < 40; it ++) {
		/* BIGNUM Poly1305 against EVP chacha20-poly1305 */
		unsigned char key[32], iv[12], aad[70], pt[90], ct[90], tag[16], pk[64], t2[16], *fr;
		size_t al = vf_below(&r, 71), pl = vf_below(&r, 91), fl;
		vf_bytes(&r, key, 32); vf_bytes(&r, iv, 12); vf_bytes(&r, aad, al); vf_bytes(&r, pt, pl);
		ref_aead(key, iv, aad, al, pt, ct, pl, tag);
		memset(pk, 0, 64);
		ref_chacha(key, iv, 0, pk, pk, 64);
		fr = aead_frame(aad, al, ct, pl, &fl);
		ref_poly1305(pk, fr, fl, t2);
		free(fr);
		if (memcmp(t2, tag, 16)) die("ref-poly1305-vs-evp");
	}
	{
		/* RFC 7539 2.4.2 first keystream bytes */
		static const unsigned char iv[12] = { 0,0,0,0,0,0,0,0x4a,0,0,0,0 };
		static const unsigned char ks[8] = { 0x22,0x4f,0x51,0xf3,0x40,0x1b,0xd9,0xe1 };
		unsigned char key[32], z[8];
		int i;
		for (i = 0; i < 32; i ++) key[i] = (unsigned char)i;
		memset(z, 0, 8);
		ref_chacha(key, iv, 1, z, z, 8);
		if (memcmp(z, ks, 8)) die("ref-chacha-kat");
	}
	vf_distinct("reference", "openssl=%s", OpenSSL_version(OPENSSL_VERSION));
}

static void
set_desc(const char *sec, uint64_t idx, const unsigned char *key, size_t klen,
	const unsigned char *iv, size_t ivlen, size_t len, const chunks *ch, size_t off, const char *extra)
{
	snprintf(g_desc, sizeof g_desc, "sec=%s seed=%llu rep=%d idx=%llu len=%zu chunks=%s off=%zu key=%s iv=%s %s data=rng",
		sec, (unsigned long long)g_seed, g_rep, (unsigned long long)idx, len, ch_str(ch), off,
		vf_hexs(key, klen), vf_hexs(iv, ivlen), extra ? extra : "");
}

/* ------------------------------------------------------------------ */
/* ChaCha20 */

#define MAXIMPL 8
static struct { const char *name; br_chacha20_run fn; } cha[MAXIMPL];
static int n_cha;

static void
chacha_case(const unsigned char *key_, const unsigned char *iv_, uint32_t cc0,
	const unsigned char *pt, size_t len, const chunks *ch, size_t off)
{
	unsigned char *exp = xmalloc(len);
	unsigned char *outs[MAXIMPL];
	int i, j, c;
	const char *asp = ch->cnt > 1 ? "split" : "data";
	int last_full = (ch->n[ch->cnt - 1] % 64) == 0;
	size_t nblk = (len + 63) / 64;

	g_nfailed = 0;

	ref_chacha(key_, iv_, cc0, pt, exp, len);
	for (i = 0; i < n_cha; i ++) {
		unsigned char *key = vf_dup(key_, 32), *ivb = vf_dup(iv_, 12);
		dbuf b = db_new(pt, len, off);
		uint32_t cc = cc0;
		size_t pos = 0;

		for (c = 0; c < ch->cnt; c ++) {
			cc = cha[i].fn(key, ivb, cc, b.p + pos, ch->n[c]);
			pos += ch->n[c];
			vf_stat("calls", 1);
		}
		judge("cmp_data", "chacha20", cha[i].name, asp, b.p, exp, len);
		if (last_full) {
			uint32_t want = cc0 + (uint32_t)(len / 64);
			unsigned char g[4], w[4];
			memcpy(g, &cc, 4); memcpy(w, &want, 4);
			judge("cmp_chain", "chacha20", cha[i].name, "counter", g, w, 4);
		} else {
			/* the returned value after a partial block is not documented: not judged */
			vf_stat("unjudged_chacha_return_partial", 1);
			vf_distinct("chacha_partial_return", "%s:floor%+d", cha[i].name, (int)(cc - (cc0 + (uint32_t)(len / 64))));
		}
		judge_flag("chacha20", cha[i].name, "const-modified", memcmp(ivb, iv_, 12) == 0 && memcmp(key, key_, 32) == 0, "const key/IV was modified");
		judge_flag("chacha20", cha[i].name, "underwrite", db_canary_ok(&b), "bytes before the data buffer were modified");
		outs[i] = vf_dup(b.p, len);
		free(b.base); free(ivb); free(key);
	}
	for (i = 0; i < n_cha; i ++) for (j = i + 1; j < n_cha; j ++)
		judge_pair("chacha20", asp, cha[i].name, cha[j].name, outs[i], outs[j], len);
	for (i = 0; i < n_cha; i ++) free(outs[i]);
	vf_stat("cases", 1);
	vf_stat("cases_chacha20", 1);
	if (nblk > 0 && (uint32_t)(cc0 + (uint32_t)nblk) <= cc0 && cc0 != 0) vf_stat("cases_chacha_wrap", 1);
	free(exp);
}

static uint32_t
pick_cc(vf_rng *r, size_t nblk)
{
	uint32_t m = vf_below(r, 8);
	if (m == 0) return 0;
	if (m == 1) return 1;
	if (m <= 4) { uint32_t kmax = nblk + 2 > 70 ? 70 : (uint32_t)nblk + 2; return (uint32_t)0 - vf_range(r, 1, kmax); }
	if (m == 5) return (uint32_t)0 - vf_range(r, 1, 70);
	return vf_u32(r);
}

static void
cha_desc(const char *sec, uint64_t idx, const unsigned char *key, const unsigned char *iv, uint32_t cc,
	size_t len, const chunks *ch, size_t off)
{
	char x[40];
	snprintf(x, sizeof x, "cc=0x%08x", cc);
	set_desc(sec, idx, key, 32, iv, 12, len, ch, off, x);
}

static int g_nsample;

static void
sec_chacha(size_t everylen, size_t maxlen, size_t exh, long nrand, int sec)
{
	size_t len, nb, s;
	int kk, q;
	long t;

	/* every length */
	for (len = 0; len <= everylen; len ++) {
		vf_rng r; unsigned char key[32], iv[12], *pt; chunks ch = ch_one(len); uint32_t cc;
		if (!take()) continue;
		case_rng(&r, sec, len);
		vf_bytes(&r, key, 32); vf_bytes(&r, iv, 12); pt = xmalloc(len); vf_bytes(&r, pt, len);
		cc = pick_cc(&r, (len + 63) / 64);
		cha_desc("chacha-len", len, key, iv, cc, len, &ch, 0);
		chacha_case(key, iv, cc, pt, len, &ch, 0);
		vf_distinct("config", "chacha20/len%zu/1", len);
		if (g_nsample < 1 && len > 0 && len < 40) {
			g_nsample ++;
			vf_sample("{\"section\":\"chacha-len\",\"len\":%zu,\"cc\":\"%08x\",\"key\":\"%s\",\"iv\":\"%s\"}", len, cc, vf_hexs(key, 32), vf_hexs(iv, 12));
		}
		free(pt);
	}
	/* block counter near 2^32: start 1 and 2^32 - k, k = 0..70 */
	for (kk = -1; kk <= 70; kk ++) for (q = 0; q < 3; q ++) {
		vf_rng r; unsigned char key[32], iv[12], *pt; chunks ch; uint32_t cc = kk < 0 ? 1 : (uint32_t)0 - (uint32_t)kk;
		uint64_t idx = 100000 + (uint64_t)(kk + 1) * 10 + q;
		if (!take()) continue;
		case_rng(&r, sec, idx);
		vf_bytes(&r, key, 32); vf_bytes(&r, iv, 12);
		if (q == 0) len = 64 * ((size_t)(kk < 0 ? 0 : kk) + 3) + 17;
		else if (q == 1) len = 64 * (size_t)(kk < 0 ? 1 : kk);
		else len = vf_range(&r, 0, 64 * ((uint32_t)(kk < 0 ? 0 : kk) + 4));
		pt = xmalloc(len); vf_bytes(&r, pt, len);
		ch = ch_one(len);
		cha_desc("chacha-wrap", idx, key, iv, cc, len, &ch, 0);
		chacha_case(key, iv, cc, pt, len, &ch, 0);
		vf_distinct("chacha_start", "%08x", cc);
		free(pt);
	}
	/* exhaustive two-way splits on 64-byte boundaries */
	for (nb = 1; nb <= exh / 64; nb ++) {
		vf_rng r; unsigned char key[32], iv[12], *pt; uint32_t cc;
		uint64_t idx = 200000 + nb;
		if (!take()) continue;
		case_rng(&r, sec, idx);
		vf_bytes(&r, key, 32); vf_bytes(&r, iv, 12);
		len = 64 * nb;
		if (vf_below(&r, 2)) len -= vf_range(&r, 1, 63);
		pt = xmalloc(len); vf_bytes(&r, pt, len);
		cc = pick_cc(&r, nb);
		for (s = 0; s * 64 <= len; s ++) {
			chunks ch = ch_two(s * 64, len);
			cha_desc("chacha-split2", idx, key, iv, cc, len, &ch, 0);
			chacha_case(key, iv, cc, pt, len, &ch, 0);
			vf_stat("splits", 1);
		}
		vf_distinct("config", "chacha20/len%zu/2", len);
		free(pt);
	}
	/* sampled lengths up to maxlen, 1..4 chunks */
	for (t = 0; t < nrand; t ++) {
		vf_rng r; unsigned char key[32], iv[12], *pt; chunks ch; uint32_t cc; size_t off;
		uint64_t idx = 300000 + (uint64_t)t;
		if (!take()) continue;
		case_rng(&r, sec, idx);
		len = vf_range(&r, 0, (uint32_t)maxlen);
		if (vf_below(&r, 4) == 0 && len >= 64) len = (len & ~(size_t)63) + (size_t)(t % 64) - 64 * ((len & ~(size_t)63) + (size_t)(t % 64) > maxlen);
		off = vf_below(&r, 2) ? vf_range(&r, 1, 15) : 0;
		vf_bytes(&r, key, 32); vf_bytes(&r, iv, 12); pt = xmalloc(len); vf_bytes(&r, pt, len);
		cc = pick_cc(&r, (len + 63) / 64);
		if (vf_below(&r, 3) == 0) ch = ch_one(len); else { ch = ch_rand(&r, len, 64); vf_stat("splits", 1); }
		cha_desc("chacha-rand", idx, key, iv, cc, len, &ch, off);
		chacha_case(key, iv, cc, pt, len, &ch, off);
		vf_distinct("config", "chacha20/mod64=%zu/q256=%zu/%d", len % 64, len / 256, ch.cnt);
		free(pt);
	}
}

/* ------------------------------------------------------------------ */
/* ChaCha20+Poly1305 AEAD function of each Poly1305 implementation */

static struct { const char *name; br_poly1305_run fn; } pol[MAXIMPL];
static int n_pol;

/*
 * A stand-in "ChaCha20" with a chosen block function: block 0 is
 * fake_block0 (so that its first 32 bytes, the Poly1305 key r||s, are
 * chosen by the harness), block n>0 is a keyed pseudo-random block.  It is
 * a well-behaved stream cipher (same calling convention, any length,
 * counter returned), used only in the crafted-accumulator section.
 */
static unsigned char fake_block0[64];
static uint64_t fake_seed;

static uint32_t
fake_chacha(const void *key, const void *iv, uint32_t cc, void *data, size_t len)
{
	unsigned char *d = data;
	(void)key; (void)iv;
	while (len > 0) {
		unsigned char ks[64];
		size_t k = len < 64 ? len : 64, i;
		if (cc == 0) memcpy(ks, fake_block0, 64);
		else {
			uint64_t x = fake_seed ^ ((uint64_t)cc * 0x9E3779B97F4A7C15ull);
			for (i = 0; i < 8; i ++) { uint64_t v = vf_splitmix(&x); memcpy(ks + 8 * i, &v, 8); }
		}
		for (i = 0; i < k; i ++) d[i] ^= ks[i];
		d += k; len -= k; cc ++;
	}
	return cc;
}

/* run every Poly1305 implementation with the listed ChaCha20 functions, both directions */
static void
poly_run_all(const char *prim, const unsigned char *key_, const unsigned char *iv_,
	const unsigned char *aad_, size_t aadlen, const unsigned char *pt, const unsigned char *ct, size_t len,
	const unsigned char *tag_exp, int use_fake, size_t off)
{
	unsigned char tags[2 * MAXIMPL * MAXIMPL][16];
	const char *names[2 * MAXIMPL * MAXIMPL];
	int nt = 0, i, c, dir, a, b2;
	int ncha = use_fake ? 1 : n_cha;

	g_nfailed = 0;

	for (i = 0; i < n_pol; i ++) for (c = 0; c < ncha; c ++) for (dir = 0; dir < 2; dir ++) {
		unsigned char *key = vf_dup(key_, 32), *ivb = vf_dup(iv_, 12), *aad = vf_dup(aad_, aadlen);
		unsigned char *tag = xmalloc(16);
		dbuf b = db_new(dir == 0 ? pt : ct, len, off);
		char pm[60];

		snprintf(pm, sizeof pm, "%s-%s", prim, dir == 0 ? "enc" : "dec");
		memset(tag, 0x5A, 16);
		pol[i].fn(key, ivb, b.p, len, aad, aadlen, tag, use_fake ? &fake_chacha : cha[c].fn, dir == 0);
		vf_stat("calls", 1);
		judge("cmp_data", pm, pol[i].name, "data", b.p, dir == 0 ? ct : pt, len);
		judge("cmp_tag", pm, pol[i].name, "tag", tag, tag_exp, 16);
		judge_flag(pm, pol[i].name, "const-modified",
			memcmp(key, key_, 32) == 0 && memcmp(ivb, iv_, 12) == 0 && (aadlen == 0 || memcmp(aad, aad_, aadlen) == 0),
			"const key/IV/AAD was modified");
		judge_flag(pm, pol[i].name, "underwrite", db_canary_ok(&b), "bytes before the data buffer were modified");
		memcpy(tags[nt], tag, 16);
		names[nt ++] = pol[i].name;
		free(b.base); free(tag); free(aad); free(ivb); free(key);
	}
	for (a = 0; a < nt; a ++) for (b2 = a + 1; b2 < nt; b2 ++) {
		if (strcmp(names[a], names[b2]) < 0 || strcmp(names[a], names[b2]) > 0)
			judge_pair(prim, "tag", names[a], names[b2], tags[a], tags[b2], 16);
	}
}

static void
poly_case(const unsigned char *key, const unsigned char *iv, const unsigned char *aad, size_t aadlen,
	const unsigned char *pt, size_t len, size_t off)
{
	unsigned char *ct = xmalloc(len), tag[16];

	ref_aead(key, iv, aad, aadlen, pt, ct, len, tag);
	poly_run_all("poly1305", key, iv, aad, aadlen, pt, ct, len, tag, 0, off);
	vf_stat("cases", 1);
	vf_stat("cases_poly1305", 1);
	free(ct);
}

static void
pol_desc(const char *sec, uint64_t idx, const unsigned char *key, const unsigned char *iv, size_t aadlen, size_t len, size_t off)
{
	char x[40];
	chunks ch = ch_one(len);
	snprintf(x, sizeof x, "aadlen=%zu aad=rng", aadlen);
	set_desc(sec, idx, key, 32, iv, 12, len, &ch, off, x);
}

static void
sec_poly(size_t everylen, size_t maxlen, long nrand, int sec)
{
	size_t len;
	int which;
	long t;

	/* every data length (random short AAD) and every AAD length (random short data) */
	for (which = 0; which < 2; which ++) for (len = 0; len <= everylen; len ++) {
		vf_rng r; unsigned char key[32], iv[12], *pt, *aad; size_t dl, al;
		uint64_t idx = (uint64_t)which * 10000 + len;
		if (!take()) continue;
		case_rng(&r, sec, idx);
		vf_bytes(&r, key, 32); vf_bytes(&r, iv, 12);
		if (which == 0) { dl = len; al = vf_below(&r, 4) ? vf_range(&r, 0, 40) : 0; }
		else { al = len; dl = vf_below(&r, 4) ? vf_range(&r, 0, 80) : 0; }
		pt = xmalloc(dl); vf_bytes(&r, pt, dl); aad = xmalloc(al); vf_bytes(&r, aad, al);
		pol_desc(which ? "poly-aadlen" : "poly-len", idx, key, iv, al, dl, 0);
		poly_case(key, iv, aad, al, pt, dl, 0);
		vf_distinct("config", "poly1305/len%zu/aad%zu", dl, al);
		if (g_nsample < 2 && which == 0 && dl > 0 && dl < 40) {
			g_nsample ++;
			vf_sample("{\"section\":\"poly-len\",\"len\":%zu,\"aadlen\":%zu,\"key\":\"%s\",\"iv\":\"%s\"}", dl, al, vf_hexs(key, 32), vf_hexs(iv, 12));
		}
		free(pt); free(aad);
	}
	/* sampled lengths up to maxlen */
	for (t = 0; t < nrand; t ++) {
		vf_rng r; unsigned char key[32], iv[12], *pt, *aad; size_t dl, al, off;
		uint64_t idx = 100000 + (uint64_t)t;
		if (!take()) continue;
		case_rng(&r, sec, idx);
		vf_bytes(&r, key, 32); vf_bytes(&r, iv, 12);
		dl = vf_range(&r, 0, (uint32_t)maxlen);
		al = vf_below(&r, 4) == 0 ? vf_range(&r, 0, (uint32_t)maxlen) : vf_range(&r, 0, 64);
		off = vf_below(&r, 2) ? vf_range(&r, 1, 15) : 0;
		pt = xmalloc(dl); vf_bytes(&r, pt, dl); aad = xmalloc(al); vf_bytes(&r, aad, al);
		pol_desc("poly-rand", idx, key, iv, al, dl, off);
		poly_case(key, iv, aad, al, pt, dl, off);
		vf_distinct("config", "poly1305/mod16=%zu/q256=%zu/aadmod16=%zu/aadq256=%zu", dl % 16, dl / 256, al % 16, al / 256);
		free(pt); free(aad);
	}
}

/*
 * Crafted accumulator values.  With the stand-in stream cipher the
 * Poly1305 key (r, s) is chosen; the last AAD block is then solved so that
 * the accumulator before the final "+ s" is a chosen value T (mod p), or,
 * for r = 1 and three blocks in total, a chosen integer 2^130 - 5 + delta
 * that has not been reduced yet.  Reference: BIGNUM Poly1305 over the framed
 * message.
 */
static void
poly_edge_case(vf_rng *rg, uint64_t idx, int rmode, int smode, int tmode, int delta, int real)
{
	unsigned char key[32], iv[12], aad[16 * 8], pt[48], ct[48], tag[16], rb[16];
	size_t nblk, al, dl, fl, u;
	unsigned char *fr;
	BIGNUM *r = BN_new(), *acc = BN_new(), *n = BN_new(), *T = BN_new(), *t2 = BN_new(), *m = BN_new();
	int tries, ok = 0;
	char x[700];
	chunks ch;

	vf_bytes(rg, key, 32); vf_bytes(rg, iv, 12);
	vf_bytes(rg, fake_block0, 64);
	fake_seed = vf_u64(rg);
	if (real) {
		/* genuine ChaCha20: r and s are whatever block 0 gives (rmode/smode ignored) */
		memset(fake_block0, 0, 64);
		ref_chacha(key, iv, 0, fake_block0, fake_block0, 64);
		rmode = 3; smode = 2;
	}
	/* r */
	if (rmode == 0) { memset(fake_block0, 0, 16); fake_block0[0] = 1; }                 /* r = 1 */
	else if (rmode == 1) { memset(fake_block0, 0xFF, 16); }                             /* largest clamped r */
	else if (rmode == 2) { memset(fake_block0, 0, 16); }                                /* r = 0 */
	/* else random */
	if (smode == 0) memset(fake_block0 + 16, 0xFF, 16);                                    /* carry out of the final addition */
	else if (smode == 1) memset(fake_block0 + 16, 0, 16);
	memcpy(rb, fake_block0, 16);
	rb[3] &= 15; rb[7] &= 15; rb[11] &= 15; rb[15] &= 15; rb[4] &= 252; rb[8] &= 252; rb[12] &= 252;
	BN_lebin2bn(rb, 16, r);

	if (tmode == 2) {
		/* all-ones blocks: largest carries in the multiplication */
		nblk = vf_range(rg, 1, 8); al = 16 * nblk; dl = vf_below(rg, 2) ? 48 : 0;
		memset(aad, 0xFF, al);
		ok = 1;
	} else if (tmode == 0) {
		/* r = 1, two AAD blocks + length block: b1 + b2 + 32 + 3*2^128 = 2^130 - 5 + delta */
		BIGNUM *b1 = BN_new(), *b2 = BN_new();
		unsigned char t[16];
		nblk = 2; al = 32; dl = 0;
		vf_bytes(rg, t, 16); t[15] |= 0x80;                  /* b1 in [2^127, 2^128) */
		BN_lebin2bn(t, 16, b1);
		BN_one(b2); BN_lshift(b2, b2, 128); BN_sub_word(b2, 37);
		if (delta >= 0) BN_add_word(b2, (BN_ULONG)delta); else BN_sub_word(b2, (BN_ULONG)(-delta));
		BN_sub(b2, b2, b1);
		memcpy(aad, t, 16);
		if (!BN_is_negative(b2) && BN_num_bits(b2) <= 128 && BN_bn2lebinpad(b2, aad + 16, 16) == 16) ok = 1;
		BN_free(b1); BN_free(b2);
	} else {
		/* general r: solve the last AAD block so that the final accumulator is T = delta mod p */
		nblk = vf_range(rg, 1, 8); al = 16 * nblk; dl = vf_below(rg, 3) == 0 ? vf_range(rg, 1, 48) : 0;
		vf_bytes(rg, pt, dl);
		memcpy(ct, pt, dl);
		if (real) ref_chacha(key, iv, 1, ct, ct, dl); else fake_chacha(key, iv, 1, ct, dl);
		if (!BN_is_zero(r)) for (tries = 0; tries < 64 && !ok; tries ++) {
			BIGNUM *ri = BN_new(), *h = BN_new();
			unsigned char blk[17];
			size_t nb_after, q;
			vf_bytes(rg, aad, al);
			/* acc before the solved block */
			BN_zero(acc);
			for (u = 0; u + 1 < nblk; u ++) {
				memcpy(blk, aad + 16 * u, 16); blk[16] = 1;
				BN_lebin2bn(blk, 17, n); BN_add(acc, acc, n); BN_mod_mul(acc, acc, r, g_p1305, g_bn);
			}
			/* blocks after the solved one: ciphertext blocks and the length block */
			fr = aead_frame(aad, al, ct, dl, &fl);
			nb_after = (fl - al) / 16;
			/* T */
			if (delta >= 0) BN_set_word(T, (BN_ULONG)delta); else { BN_copy(T, g_p1305); BN_sub_word(T, (BN_ULONG)(-delta)); }
			/* undo the trailing blocks: h := ((h * r^-1) - block) for each, from the last one */
			BN_copy(h, T);
			BN_mod_inverse(ri, r, g_p1305, g_bn);
			for (q = nb_after; q > 0; q --) {
				BN_mod_mul(h, h, ri, g_p1305, g_bn);
				memcpy(blk, fr + al + 16 * (q - 1), 16); blk[16] = 1;
				BN_lebin2bn(blk, 17, n);
				BN_mod_sub(h, h, n, g_p1305, g_bn);
			}
			/* (acc + m) * r = h  =>  m = h * r^-1 - acc */
			BN_mod_mul(h, h, ri, g_p1305, g_bn);
			BN_mod_sub(m, h, acc, g_p1305, g_bn);
			BN_one(t2); BN_lshift(t2, t2, 128);
			BN_sub(m, m, t2);                               /* strip the 2^128 marker */
			if (!BN_is_negative(m) && BN_num_bits(m) <= 128 && BN_bn2lebinpad(m, aad + al - 16, 16) == 16) ok = 1;
			free(fr); BN_free(ri); BN_free(h);
		}
	}
	if (ok) {
		if (tmode != 1) { vf_bytes(rg, pt, dl); memcpy(ct, pt, dl); if (real) ref_chacha(key, iv, 1, ct, ct, dl); else fake_chacha(key, iv, 1, ct, dl); }
		fr = aead_frame(aad, al, ct, dl, &fl);
		ref_poly1305(fake_block0, fr, fl, tag);
		free(fr);
		if (real) {
			/* the two references must agree (EVP AEAD vs BIGNUM Poly1305 over the framed message) */
			unsigned char ct2[48], tag2[16];
			ref_aead(key, iv, aad, al, pt, ct2, dl, tag2);
			if (memcmp(tag2, tag, 16) != 0 || (dl && memcmp(ct2, ct, dl) != 0)) die("ref-crafted-disagree");
		}
		ch = ch_one(dl);
		snprintf(x, sizeof x, "rmode=%d smode=%d tmode=%d delta=%d polykey=%s aad=%s", rmode, smode, tmode, delta,
			vf_hexs(fake_block0, 32), vf_hexs(aad, al > 32 ? 32 : al));
		if (real) {
			snprintf(x, sizeof x, "tmode=%d final_acc_mod_p=%d aadlen=%zu aad=%s pt=%s", tmode, delta, al, vf_hexs(aad, al), vf_hexs(pt, dl));
			set_desc("poly-crafted(real ChaCha20; last AAD block solved for the final accumulator)", idx, key, 32, iv, 12, dl, &ch, 0, x);
			poly_run_all("poly1305-crafted", key, iv, aad, al, pt, ct, dl, tag, 0, 0);
			vf_stat("cases_poly1305_crafted", 1);
		} else {
			set_desc("poly-edge(stand-in stream cipher supplies the Poly1305 key)", idx, key, 32, iv, 12, dl, &ch, 0, x);
			poly_run_all("poly1305-edge", key, iv, aad, al, pt, ct, dl, tag, 1, 0);
			vf_stat("cases_poly1305_edge", 1);
		}
		vf_stat("cases", 1);
		vf_distinct("poly_edge", "r%d/s%d/t%d/d%d/%s", rmode, smode, tmode, delta, real ? "real" : "standin");
	} else {
		vf_stat("poly_edge_unsolved", 1);
	}
	BN_free(r); BN_free(acc); BN_free(n); BN_free(T); BN_free(t2); BN_free(m);
}

static void
sec_poly_edge(int sec, int reps_inner, int standin, int real)
{
	int rmode, smode, tmode, delta, q;
	for (q = 0; standin && q < reps_inner; q ++)
	for (tmode = 0; tmode < 3; tmode ++) for (rmode = 0; rmode < 4; rmode ++) for (smode = 0; smode < 3; smode ++)
	for (delta = -12; delta <= 12; delta ++) {
		vf_rng r;
		uint64_t idx = (uint64_t)q * 100000 + (uint64_t)tmode * 10000 + (uint64_t)rmode * 1000 + (uint64_t)smode * 100 + (uint64_t)(delta + 12);
		if (tmode == 0 && rmode != 0) continue;
		if (tmode == 1 && rmode == 2) continue;
		if (tmode == 2 && delta > -8) continue;      /* tmode 2 ignores delta: a few repetitions only */
		if (!take()) continue;
		case_rng(&r, sec, idx);
		poly_edge_case(&r, idx, rmode, smode, tmode, delta, 0);
	}
	/* the same accumulator targets through the genuine ChaCha20 (nothing outside the documented interface) */
	for (q = 0; real && q < reps_inner * 6; q ++) for (delta = -12; delta <= 12; delta ++) {
		vf_rng r;
		uint64_t idx = 5000000 + (uint64_t)q * 100 + (uint64_t)(delta + 12);
		if (!take()) continue;
		case_rng(&r, sec, idx);
		poly_edge_case(&r, idx, 3, 2, 1, delta, 1);
	}
}

/* ------------------------------------------------------------------ */
/* GHASH */

static struct { const char *name; br_ghash fn; } gh[MAXIMPL];
static int n_gh;

static void
ghash_case(const unsigned char *y0, const unsigned char *h_, const unsigned char *data, size_t len,
	const chunks *ch, size_t off)
{
	unsigned char exp[16], ys[MAXIMPL][16];
	int i, j, c;
	const char *asp = ch->cnt > 1 ? "split" : "y";

	g_nfailed = 0;

	memcpy(exp, y0, 16);
	ref_ghash(exp, h_, data, len);
	for (i = 0; i < n_gh; i ++) {
		unsigned char *y = vf_dup(y0, 16), *h = vf_dup(h_, 16);
		dbuf b = db_new(data, len, off);
		size_t pos = 0;

		for (c = 0; c < ch->cnt; c ++) {
			gh[i].fn(y, h, (len == 0 && off == 0 && ch->cnt == 1 && (c & 1) == 0 && (y0[0] & 1)) ? NULL : b.p + pos, ch->n[c]);
			pos += ch->n[c];
			vf_stat("calls", 1);
		}
		judge("cmp_data", "ghash", gh[i].name, asp, y, exp, 16);
		judge_flag("ghash", gh[i].name, "const-modified", memcmp(h, h_, 16) == 0 && (len == 0 || memcmp(b.p, data, len) == 0), "const key/data was modified");
		memcpy(ys[i], y, 16);
		free(b.base); free(h); free(y);
	}
	for (i = 0; i < n_gh; i ++) for (j = i + 1; j < n_gh; j ++)
		judge_pair("ghash", asp, gh[i].name, gh[j].name, ys[i], ys[j], 16);
	vf_stat("cases", 1);
	vf_stat("cases_ghash", 1);
}

static void
gh_desc(const char *sec, uint64_t idx, const unsigned char *y, const unsigned char *h, size_t len, const chunks *ch, size_t off)
{
	set_desc(sec, idx, h, 16, y, 16, len, ch, off, "(key=h iv=y)");
}

static void
special16(vf_rng *r, unsigned char *x)
{
	switch (vf_below(r, 10)) {
	case 0: memset(x, 0, 16); break;
	case 1: memset(x, 0xFF, 16); break;
	case 2: memset(x, 0, 16); x[0] = 0x80; break;          /* the field's 1 */
	case 3: memset(x, 0, 16); x[15] = 0x01; break;         /* x^127 */
	case 4: memset(x, 0, 16); x[vf_below(r, 16)] = (unsigned char)(1u << vf_below(r, 8)); break;
	default: vf_bytes(r, x, 16); break;
	}
}

static void
sec_ghash(size_t everylen, size_t maxlen, size_t exh, long nrand, int sec)
{
	size_t len, nb, s;
	int bi, bj;
	long t;

	for (len = 0; len <= everylen; len ++) {
		vf_rng r; unsigned char y[16], h[16], *d; chunks ch = ch_one(len);
		if (!take()) continue;
		case_rng(&r, sec, len);
		special16(&r, y); special16(&r, h); d = xmalloc(len); vf_bytes(&r, d, len);
		gh_desc("ghash-len", len, y, h, len, &ch, 0);
		ghash_case(y, h, d, len, &ch, 0);
		vf_distinct("config", "ghash/len%zu/1", len);
		if (g_nsample < 3 && len > 0 && len < 40) {
			g_nsample ++;
			vf_sample("{\"section\":\"ghash-len\",\"len\":%zu,\"h\":\"%s\",\"y\":\"%s\",\"data\":\"%s\"}", len, vf_hexs(h, 16), vf_hexs(y, 16), vf_hexs(d, len));
		}
		free(d);
	}
	/* single-bit basis: h = x^i, y ^ data = x^j, all 128 x 128 products (reduction polynomial) */
	for (bi = 0; bi < 128; bi ++) {
		if (!take()) continue;
		for (bj = 0; bj < 128; bj ++) {
			unsigned char y[16], h[16], d[16]; chunks ch = ch_one(16);
			memset(y, 0, 16); memset(h, 0, 16); memset(d, 0, 16);
			h[bi >> 3] = (unsigned char)(0x80 >> (bi & 7));
			if (bj & 1) y[bj >> 3] = (unsigned char)(0x80 >> (bj & 7)); else d[bj >> 3] = (unsigned char)(0x80 >> (bj & 7));
			gh_desc("ghash-basis", (uint64_t)bi * 128 + bj, y, h, 16, &ch, 0);
			ghash_case(y, h, d, 16, &ch, 0);
		}
		vf_distinct("config", "ghash/basis-h-bit%d", bi);
	}
	for (nb = 1; nb <= exh / 16; nb ++) {
		vf_rng r; unsigned char y[16], h[16], *d;
		uint64_t idx = 200000 + nb;
		if (!take()) continue;
		case_rng(&r, sec, idx);
		special16(&r, y); vf_bytes(&r, h, 16);
		len = 16 * nb;
		if (vf_below(&r, 2)) len -= vf_range(&r, 1, 15);
		d = xmalloc(len); vf_bytes(&r, d, len);
		for (s = 0; s * 16 <= len; s ++) {
			chunks ch = ch_two(s * 16, len);
			gh_desc("ghash-split2", idx, y, h, len, &ch, 0);
			ghash_case(y, h, d, len, &ch, 0);
			vf_stat("splits", 1);
		}
		vf_distinct("config", "ghash/len%zu/2", len);
		free(d);
	}
	for (t = 0; t < nrand; t ++) {
		vf_rng r; unsigned char y[16], h[16], *d; chunks ch; size_t off;
		uint64_t idx = 300000 + (uint64_t)t;
		if (!take()) continue;
		case_rng(&r, sec, idx);
		special16(&r, y); special16(&r, h);
		len = vf_range(&r, 0, (uint32_t)maxlen);
		off = vf_below(&r, 2) ? vf_range(&r, 1, 15) : 0;
		d = xmalloc(len); vf_bytes(&r, d, len);
		if (vf_below(&r, 3) == 0) ch = ch_one(len); else { ch = ch_rand(&r, len, 16); vf_stat("splits", 1); }
		gh_desc("ghash-rand", idx, y, h, len, &ch, off);
		ghash_case(y, h, d, len, &ch, off);
		vf_distinct("config", "ghash/mod16=%zu/q256=%zu/%d", len % 16, len / 256, ch.cnt);
		free(d);
	}
}

/* ------------------------------------------------------------------ */

int
main(int argc, char **argv)
{
	long nrand, reps;
	size_t exh, maxlen, every;
	const char *only = vf_arg(argc, argv, "--only", "");
	int rep;

	g_seed = (uint64_t)vf_argi(argc, argv, "--seed", 1);
	g_w = (int)vf_argi(argc, argv, "--worker", 0);
	g_nw = (int)vf_argi(argc, argv, "--nworkers", 1);
	nrand = (long)vf_argi(argc, argv, "--cases", 300);
	reps = (long)vf_argi(argc, argv, "--reps", 1);
	exh = (size_t)vf_argi(argc, argv, "--split-max", 1024);
	maxlen = (size_t)vf_argi(argc, argv, "--max-len", 4096);
	every = (size_t)vf_argi(argc, argv, "--every-len", 1100);
	if (g_nw < 1 || g_w < 0 || g_w >= g_nw) die("bad-worker-args");
	g_evp = EVP_CIPHER_CTX_new();
	g_bn = BN_CTX_new();
	g_p1305 = BN_new();
	if (!g_evp || !g_bn || !g_p1305) die("openssl-alloc");
	BN_one(g_p1305); BN_lshift(g_p1305, g_p1305, 130); BN_sub_word(g_p1305, 5);
	ref_selftest();

	cha[n_cha].name = "chacha20_ct"; cha[n_cha ++].fn = &br_chacha20_ct_run;
	if (br_chacha20_sse2_get()) { cha[n_cha].name = "chacha20_sse2"; cha[n_cha ++].fn = br_chacha20_sse2_get(); }
	vf_distinct("present", "chacha20_sse2=%s", br_chacha20_sse2_get() ? "yes" : "no");
	pol[n_pol].name = "poly1305_ctmul"; pol[n_pol ++].fn = &br_poly1305_ctmul_run;
	pol[n_pol].name = "poly1305_ctmul32"; pol[n_pol ++].fn = &br_poly1305_ctmul32_run;
	pol[n_pol].name = "poly1305_i15"; pol[n_pol ++].fn = &br_poly1305_i15_run;
	if (br_poly1305_ctmulq_get()) { pol[n_pol].name = "poly1305_ctmulq"; pol[n_pol ++].fn = br_poly1305_ctmulq_get(); }
	vf_distinct("present", "poly1305_ctmulq=%s", br_poly1305_ctmulq_get() ? "yes" : "no");
	gh[n_gh].name = "ghash_ctmul"; gh[n_gh ++].fn = &br_ghash_ctmul;
	gh[n_gh].name = "ghash_ctmul32"; gh[n_gh ++].fn = &br_ghash_ctmul32;
	gh[n_gh].name = "ghash_ctmul64"; gh[n_gh ++].fn = &br_ghash_ctmul64;
	if (br_ghash_pclmul_get()) { gh[n_gh].name = "ghash_pclmul"; gh[n_gh ++].fn = br_ghash_pclmul_get(); }
	vf_distinct("present", "ghash_pclmul=%s", br_ghash_pclmul_get() ? "yes" : "no");
	if (br_ghash_pwr8_get()) { gh[n_gh].name = "ghash_pwr8"; gh[n_gh ++].fn = br_ghash_pwr8_get(); }
	vf_distinct("present", "ghash_pwr8=%s", br_ghash_pwr8_get() ? "yes" : "no");

#define ON(name) (only[0] == 0 || strstr(only, name) != NULL)
	for (rep = 0; rep < reps; rep ++) {
		g_rep = rep;
		if (ON("chacha")) sec_chacha(every, maxlen, exh, nrand * 2, 21);
		if (ON("poly")) sec_poly(every, maxlen, nrand, 22);
		if (ON("edge") || ON("crafted")) sec_poly_edge(23, 2, ON("edge"), ON("crafted"));
		if (ON("ghash")) sec_ghash(every, maxlen, exh, nrand * 2, 24);
	}
	vf_max("tasks_enumerated", g_task);
	EVP_CIPHER_CTX_free(g_evp);
	vf_done();
	return 0;
}
