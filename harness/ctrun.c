/*
 * C08 constant-time runner (ctgrind method).
 *
 *   ctrun <entry> [--impl X] [--size N] [--curve C] [--hash H] [--var V]
 *                 [--seed S] [--taint 0|1]
 *
 * One entry point of the library per process.  Inputs are prepared
 * deterministically from (entry, parameters, seed); the SECRET bytes are then
 * marked undefined (VALGRIND_MAKE_MEM_UNDEFINED) -- under memcheck every
 * conditional jump and every address computation that depends on them is
 * reported with its stack -- the library entry point is called, its outputs
 * are marked defined, and a digest of the outputs is printed.  Run natively
 * (no valgrind) the client requests are no-ops: the digest must be the same
 * (taint marking does not change results), and a status word says whether the
 * operation did what the parameter set claims (good input accepted, bad input
 * rejected), so a run that did not exercise the intended path is not counted.
 *
 * Values the API documents as returned status/length are marked public on
 * the harness side (PUBLIC()) right after the call; nothing else is.
 *
 * stdout:  DIGEST <hex16>   STATUS <expected|unexpected> <detail>   OK
 *          SKIP <reason>    (implementation not available on this CPU)
 */
#include "inner.h"
#include "common.h"
#include <valgrind/memcheck.h>

static int g_taint = 1;
static uint64_t g_dig = 0;
static int g_status_bad = 0;
static vf_rng g_rng;

static const char *P_entry, *P_impl, *P_curve, *P_hash, *P_var;
static long P_size, P_seed;

#define SECRET(p, n)   do { if (g_taint) { (void)VALGRIND_MAKE_MEM_UNDEFINED((p), (n)); } } while (0)
#define PUBLIC(p, n)   do { (void)VALGRIND_MAKE_MEM_DEFINED((p), (n)); } while (0)

static void
die(const char *msg)
{
	fprintf(stderr, "ctrun: %s (entry=%s impl=%s curve=%s hash=%s var=%s size=%ld)\n",
		msg, P_entry, P_impl, P_curve, P_hash, P_var, P_size);
	exit(3);
}

static void
skip(const char *why)
{
	printf("SKIP %s\n", why);
	fflush(stdout);
	exit(0);
}

/* outputs: mark public, fold into the digest */
static void
out_bytes(const char *label, const void *p, size_t n)
{
	PUBLIC(p, n);
	g_dig = vf_fnv(label, strlen(label), g_dig);
	g_dig = vf_fnv(&n, sizeof n, g_dig);
	g_dig = vf_fnv(p, n, g_dig);
}

static void
out_u32(const char *label, uint32_t v)
{
	out_bytes(label, &v, sizeof v);
}

/* status check: the operation must have done what the variant says */
static void
expect(const char *what, long got, long want)
{
	if (got != want) {
		g_status_bad = 1;
		printf("STATUS unexpected %s got=%ld want=%ld\n", what, got, want);
	}
}

static void *
xmalloc(size_t n)
{
	void *p = malloc(n ? n : 1);
	if (!p) die("oom");
	memset(p, 0, n);
	return p;
}

static unsigned char *
rnd_bytes(size_t n)
{
	unsigned char *p = xmalloc(n);
	vf_bytes(&g_rng, p, n);
	return p;
}

static int
is(const char *a, const char *b)
{
	return a != NULL && strcmp(a, b) == 0;
}

/* ------------------------------------------------------------------ */
/* lookups */

static const br_hash_class *
get_hash(const char *name)
{
	if (is(name, "md5")) return &br_md5_vtable;
	if (is(name, "sha1")) return &br_sha1_vtable;
	if (is(name, "sha224")) return &br_sha224_vtable;
	if (is(name, "sha256")) return &br_sha256_vtable;
	if (is(name, "sha384")) return &br_sha384_vtable;
	if (is(name, "sha512")) return &br_sha512_vtable;
	die("unknown hash");
	return NULL;
}

static const unsigned char *
get_hash_oid(const char *name)
{
	static const unsigned char o1[] = { 0x05, 0x2B, 0x0E, 0x03, 0x02, 0x1A };
	static const unsigned char o224[] = { 0x09, 0x60, 0x86, 0x48, 0x01, 0x65, 0x03, 0x04, 0x02, 0x04 };
	static const unsigned char o256[] = { 0x09, 0x60, 0x86, 0x48, 0x01, 0x65, 0x03, 0x04, 0x02, 0x01 };
	static const unsigned char o384[] = { 0x09, 0x60, 0x86, 0x48, 0x01, 0x65, 0x03, 0x04, 0x02, 0x02 };
	static const unsigned char o512[] = { 0x09, 0x60, 0x86, 0x48, 0x01, 0x65, 0x03, 0x04, 0x02, 0x03 };
	if (is(name, "sha1")) return o1;
	if (is(name, "sha224")) return o224;
	if (is(name, "sha256")) return o256;
	if (is(name, "sha384")) return o384;
	if (is(name, "sha512")) return o512;
	if (is(name, "md5sha1")) return NULL;
	die("no OID for hash");
	return NULL;
}

static const br_ec_impl *
get_ec(const char *name)
{
	const br_ec_impl *r = NULL;
	if (is(name, "prime_i15")) return &br_ec_prime_i15;
	if (is(name, "prime_i31")) return &br_ec_prime_i31;
	if (is(name, "p256_m15")) return &br_ec_p256_m15;
	if (is(name, "p256_m31")) return &br_ec_p256_m31;
	if (is(name, "c25519_i15")) return &br_ec_c25519_i15;
	if (is(name, "c25519_i31")) return &br_ec_c25519_i31;
	if (is(name, "c25519_m15")) return &br_ec_c25519_m15;
	if (is(name, "c25519_m31")) return &br_ec_c25519_m31;
	if (is(name, "all_m15")) return &br_ec_all_m15;
	if (is(name, "all_m31")) return &br_ec_all_m31;
	if (is(name, "default")) return br_ec_get_default();
	if (is(name, "p256_m62")) r = br_ec_p256_m62_get();
	else if (is(name, "p256_m64")) r = br_ec_p256_m64_get();
	else if (is(name, "c25519_m62")) r = br_ec_c25519_m62_get();
	else if (is(name, "c25519_m64")) r = br_ec_c25519_m64_get();
	else die("unknown EC implementation");
	if (r == NULL) skip("EC implementation not available");
	return r;
}

static int
get_curve(const char *name)
{
	if (is(name, "p256")) return BR_EC_secp256r1;
	if (is(name, "p384")) return BR_EC_secp384r1;
	if (is(name, "p521")) return BR_EC_secp521r1;
	if (is(name, "c25519")) return BR_EC_curve25519;
	die("unknown curve");
	return 0;
}

/* ------------------------------------------------------------------ */
/* RSA keys: fixtures (DER, PKCS#1 RSAPrivateKey), copied into exact-size
   heap blocks; p,q,dp,dq,iq are the secrets (top byte of p and of q stays
   public: the API documents that the lengths of the factors may leak). */

typedef struct {
	br_rsa_private_key sk;
	br_rsa_public_key pk;
	unsigned char *n, *e;
	size_t nlen;
} rsa_key;

static rsa_key *
load_rsa(long bits)
{
	static br_skey_decoder_context dc;
	char path[256];
	const char *fn;
	unsigned char *buf;
	size_t len;
	FILE *f;
	const br_rsa_private_key *k;
	rsa_key *rk;
	uint32_t pubexp;

	/* public exponents as listed in fixtures/rsa/INDEX (br_rsa_i31_compute_pubexp
	   only handles keys with p = q = 3 mod 4, which most fixtures are not) */
	switch (bits) {
	case 512:  fn = "k512_e65537.der"; pubexp = 65537; break;
	case 768:  fn = "k768_e17.der"; pubexp = 17; break;
	case 992:  fn = "k992_e65537.der"; pubexp = 65537; break;     /* factors of 496 = 16 * 31 bits: full top word in the 31-bit code */
	case 1860: fn = "k1860_e65537.der"; pubexp = 65537; break;    /* factors of 930 = 30 * 31 = 62 * 15 bits: full top word in the 15- and 31-bit code */
	case 1016: fn = "k1016_e65537.der"; pubexp = 65537; break;
	case 1017: fn = "k1017_e3.der"; pubexp = 3; break;
	case 1024: fn = "k1024_e65537_m3.der"; pubexp = 65537; break;
	case 1025: fn = "k1025_e17_m3.der"; pubexp = 17; break;
	case 1536: fn = "k1536_e3.der"; pubexp = 3; break;
	case 2048: fn = "k2048_e65537.der"; pubexp = 65537; break;
	case 2049: fn = "k2049_e65537.der"; pubexp = 65537; break;
	case 3072: fn = "k3072_e17.der"; pubexp = 17; break;
	case 4096: fn = "k4096_e3.der"; pubexp = 3; break;
	default: die("no RSA fixture of that size"); return NULL;
	}
	snprintf(path, sizeof path, "%s/%s",
		getenv("CT_FIXTURES") ? getenv("CT_FIXTURES") : "fixtures/rsa", fn);
	f = fopen(path, "rb");
	if (!f) die("cannot open RSA fixture");
	buf = xmalloc(8192);
	len = fread(buf, 1, 8192, f);
	fclose(f);
	br_skey_decoder_init(&dc);
	br_skey_decoder_push(&dc, buf, len);
	if (br_skey_decoder_last_error(&dc) != 0
		|| br_skey_decoder_key_type(&dc) != BR_KEYTYPE_RSA)
	{
		die("RSA fixture does not decode");
	}
	k = br_skey_decoder_get_rsa(&dc);
	rk = xmalloc(sizeof *rk);
	rk->sk.n_bitlen = k->n_bitlen;
	rk->sk.p = vf_dup(k->p, k->plen); rk->sk.plen = k->plen;
	rk->sk.q = vf_dup(k->q, k->qlen); rk->sk.qlen = k->qlen;
	rk->sk.dp = vf_dup(k->dp, k->dplen); rk->sk.dplen = k->dplen;
	rk->sk.dq = vf_dup(k->dq, k->dqlen); rk->sk.dqlen = k->dqlen;
	rk->sk.iq = vf_dup(k->iq, k->iqlen); rk->sk.iqlen = k->iqlen;
	rk->nlen = (k->n_bitlen + 7) >> 3;
	rk->n = xmalloc(rk->nlen);
	if (br_rsa_i31_compute_modulus(rk->n, &rk->sk) != rk->nlen) die("modulus");
	rk->e = xmalloc(4);
	br_enc32be(rk->e, pubexp);
	rk->pk.n = rk->n; rk->pk.nlen = rk->nlen;
	rk->pk.e = rk->e; rk->pk.elen = 4;
	free(buf);
	return rk;
}

static void
taint_rsa(rsa_key *rk)
{
	if (rk->sk.plen > 1) SECRET(rk->sk.p + 1, rk->sk.plen - 1);
	if (rk->sk.qlen > 1) SECRET(rk->sk.q + 1, rk->sk.qlen - 1);
	SECRET(rk->sk.dp, rk->sk.dplen);
	SECRET(rk->sk.dq, rk->sk.dqlen);
	SECRET(rk->sk.iq, rk->sk.iqlen);
}

static br_rsa_private
get_rsa_private(const char *impl)
{
	br_rsa_private r;
	if (is(impl, "i15")) return &br_rsa_i15_private;
	if (is(impl, "i31")) return &br_rsa_i31_private;
	if (is(impl, "i32")) return &br_rsa_i32_private;
	if (is(impl, "default")) return br_rsa_private_get_default();
	if (is(impl, "i62")) {
		r = br_rsa_i62_private_get();
		if (r == 0) skip("rsa i62 not available");
		return r;
	}
	die("unknown RSA implementation");
	return 0;
}

/* ---- rsa_private: raw private-key operation on a public input */
static void
e_rsa_private(void)
{
	rsa_key *rk = load_rsa(P_size);
	br_rsa_private fn = get_rsa_private(P_impl);
	unsigned char *x = rnd_bytes(rk->nlen), *x0;
	uint32_t r;

	x[0] = 0;                      /* lower than the modulus */
	if (is(P_var, "toolarge")) memset(x, 0xFF, rk->nlen);
	x0 = vf_dup(x, rk->nlen);
	taint_rsa(rk);
	r = fn(x, &rk->sk);
	PUBLIC(&r, sizeof r);          /* documented returned status */
	out_u32("r", r);
	out_bytes("x", x, rk->nlen);
	expect("status", r, is(P_var, "toolarge") ? 0 : 1);
	if (r == 1) {
		if (!br_rsa_i31_public(x, rk->nlen, &rk->pk)
			|| memcmp(x, x0, rk->nlen) != 0) expect("roundtrip", 0, 1);
	}
}

/* ---- rsa_pkcs1_sign: key and hash value secret */
static void
e_rsa_pkcs1_sign(void)
{
	rsa_key *rk = load_rsa(P_size);
	br_rsa_pkcs1_sign fn = 0;
	const br_hash_class *hc = get_hash(P_hash);
	size_t hlen = br_digest_size(hc);
	unsigned char *hv = rnd_bytes(hlen), *hv0;
	unsigned char *sig = xmalloc(rk->nlen);
	unsigned char hout[64];
	uint32_t r;

	if (is(P_impl, "i15")) fn = &br_rsa_i15_pkcs1_sign;
	else if (is(P_impl, "i31")) fn = &br_rsa_i31_pkcs1_sign;
	else if (is(P_impl, "i32")) fn = &br_rsa_i32_pkcs1_sign;
	else if (is(P_impl, "default")) fn = br_rsa_pkcs1_sign_get_default();
	else if (is(P_impl, "i62")) { fn = br_rsa_i62_pkcs1_sign_get(); if (!fn) skip("rsa i62 not available"); }
	else die("impl");
	hv0 = vf_dup(hv, hlen);
	taint_rsa(rk);
	SECRET(hv, hlen);
	r = fn(get_hash_oid(P_hash), hv, hlen, &rk->sk, sig);
	PUBLIC(&r, sizeof r);
	out_u32("r", r);
	out_bytes("sig", sig, rk->nlen);
	expect("status", r, 1);
	if (!br_rsa_i31_pkcs1_vrfy(sig, rk->nlen, get_hash_oid(P_hash), hlen, &rk->pk, hout)
		|| memcmp(hout, hv0, hlen) != 0) expect("verify", 0, 1);
}

/* a PRNG whose output is secret (salt, RFC 6979-less nonces, key material) */
typedef struct {
	const br_prng_class *vtable;
	vf_rng r;
} secret_prng;

static void
sp_generate(const br_prng_class **ctx, void *out, size_t len)
{
	secret_prng *sp = (secret_prng *)(void *)ctx;
	vf_bytes(&sp->r, out, len);
	SECRET(out, len);
}
static void sp_init(const br_prng_class **ctx, const void *params, const void *seed, size_t len)
{ (void)ctx; (void)params; (void)seed; (void)len; }
static void sp_update(const br_prng_class **ctx, const void *seed, size_t len)
{ (void)ctx; (void)seed; (void)len; }
static const br_prng_class sp_vtable = { sizeof(secret_prng), sp_init, sp_generate, sp_update };

static void
sp_setup(secret_prng *sp)
{
	sp->vtable = &sp_vtable;
	vf_rng_init(&sp->r, (uint64_t)P_seed, 0x5A17);
}

/* ---- rsa_pss_sign: key, hash value and salt secret */
static void
e_rsa_pss_sign(void)
{
	rsa_key *rk = load_rsa(P_size);
	br_rsa_pss_sign fn = 0;
	const br_hash_class *hc = get_hash(P_hash);
	size_t hlen = br_digest_size(hc);
	unsigned char *hv = rnd_bytes(hlen), *hv0;
	unsigned char *sig = xmalloc(rk->nlen);
	secret_prng sp;
	size_t salt_len = is(P_var, "salt0") ? 0 : hlen;
	uint32_t r;

	if (is(P_impl, "i15")) fn = &br_rsa_i15_pss_sign;
	else if (is(P_impl, "i31")) fn = &br_rsa_i31_pss_sign;
	else if (is(P_impl, "i32")) fn = &br_rsa_i32_pss_sign;
	else if (is(P_impl, "default")) fn = br_rsa_pss_sign_get_default();
	else if (is(P_impl, "i62")) { fn = br_rsa_i62_pss_sign_get(); if (!fn) skip("rsa i62 not available"); }
	else die("impl");
	hv0 = vf_dup(hv, hlen);
	sp_setup(&sp);
	taint_rsa(rk);
	SECRET(hv, hlen);
	r = fn(&sp.vtable, hc, hc, hv, salt_len, &rk->sk, sig);
	PUBLIC(&r, sizeof r);
	out_u32("r", r);
	out_bytes("sig", sig, rk->nlen);
	expect("status", r, 1);
	if (!br_rsa_i31_pss_vrfy(sig, rk->nlen, hc, hc, hv0, salt_len, &rk->pk))
		expect("verify", 0, 1);
}

/* encrypt a chosen padded block with the public key (harness side, native) */
static void
rsa_pub_raw(rsa_key *rk, unsigned char *blk)
{
	if (!br_rsa_i31_public(blk, rk->nlen, &rk->pk)) die("public op failed");
}

/* ---- rsa_ssl_decrypt: TLS RSA key exchange; key secret => padding secret */
static void
e_rsa_ssl_decrypt(void)
{
	rsa_key *rk = load_rsa(P_size);
	br_rsa_private core = get_rsa_private(P_impl);
	size_t n = rk->nlen, u;
	unsigned char *blk = xmalloc(n);
	unsigned char pms[48];
	uint32_t r;
	int want = 1;

	vf_bytes(&g_rng, pms, 48);
	pms[0] = 3; pms[1] = 3;
	blk[0] = 0; blk[1] = 2;
	for (u = 2; u < n - 49; u ++) blk[u] = (unsigned char)vf_range(&g_rng, 1, 255);
	blk[n - 49] = 0;
	memcpy(blk + n - 48, pms, 48);
	if (is(P_var, "good")) { }
	else if (is(P_var, "bad_first")) { blk[0] = 1; want = 0; }
	else if (is(P_var, "bad_type")) { blk[1] = 1; want = 0; }
	else if (is(P_var, "bad_zero_in_pad")) { blk[2 + (n - 51) / 2] = 0; want = 0; }
	else if (is(P_var, "bad_zero_early")) { blk[2] = 0; want = 0; }
	else if (is(P_var, "bad_nosep")) { blk[n - 49] = 0x55; want = 0; }
	else if (is(P_var, "bad_short_msg")) { blk[n - 49] = 0x55; blk[n - 30] = 0; want = 0; }
	else if (is(P_var, "bad_version")) { blk[n - 48] = 2; want = 1; /* version is checked by the server engine, not here */ }
	else die("var");
	rsa_pub_raw(rk, blk);
	taint_rsa(rk);
	r = br_rsa_ssl_decrypt(core, &rk->sk, blk, n);
	/* the returned flag and the 48 bytes stay secret inside the server (it
	   substitutes a random premaster in constant time); for the caller of
	   this function they are outputs, declassified here on the harness side */
	PUBLIC(&r, sizeof r);
	out_u32("r", r);
	out_bytes("pms", blk, 48);
	expect("status", r, want);
	if (want && !is(P_var, "bad_version") && memcmp(blk, pms, 48) != 0) expect("pms", 0, 1);
}

/* ---- rsa_oaep_decrypt */
static void
e_rsa_oaep_decrypt(void)
{
	rsa_key *rk = load_rsa(P_size);
	br_rsa_oaep_decrypt fn = 0;
	const br_hash_class *hc = get_hash(P_hash);
	size_t hlen = br_digest_size(hc);
	size_t n = rk->nlen, mlen, len;
	unsigned char *blk = xmalloc(n), *msg;
	unsigned char *db, *seed, lh[64];
	br_hash_compat_context hx;
	static const char label[] = "ct-label";
	uint32_t r;
	int want = 1;
	size_t *plen;

	if (is(P_impl, "i15")) fn = &br_rsa_i15_oaep_decrypt;
	else if (is(P_impl, "i31")) fn = &br_rsa_i31_oaep_decrypt;
	else if (is(P_impl, "i32")) fn = &br_rsa_i32_oaep_decrypt;
	else if (is(P_impl, "default")) fn = br_rsa_oaep_decrypt_get_default();
	else if (is(P_impl, "i62")) { fn = br_rsa_i62_oaep_decrypt_get(); if (!fn) skip("rsa i62 not available"); }
	else die("impl");
	if (n < 2 * hlen + 2 + 8) die("modulus too small for that hash");
	/* build EM = 00 || maskedSeed || maskedDB by hand so that every defect
	   class can be planted */
	mlen = n - 2 * hlen - 2;
	if (is(P_var, "good_empty")) mlen = 0;
	else if (is(P_var, "good_short")) mlen = 1;
	else if (!is(P_var, "good_max")) mlen = mlen / 2;
	msg = rnd_bytes(mlen + 1);
	seed = blk + 1;
	db = blk + 1 + hlen;
	hx.vtable = hc;
	hc->init(&hx.vtable);
	hc->update(&hx.vtable, label, sizeof label - 1);
	hc->out(&hx.vtable, lh);
	memcpy(db, lh, hlen);
	memset(db + hlen, 0, n - 2 * hlen - 2 - mlen);
	db[n - hlen - 2 - mlen] = 0x01;
	memcpy(db + n - hlen - 1 - mlen, msg, mlen);
	vf_bytes(&g_rng, seed, hlen);
	if (is(P_var, "good") || is(P_var, "good_empty") || is(P_var, "good_short") || is(P_var, "good_max")) { }
	else if (is(P_var, "bad_lhash")) { db[hlen - 1] ^= 1; want = 0; }
	else if (is(P_var, "bad_lhash_first")) { db[0] ^= 0x80; want = 0; }
	else if (is(P_var, "bad_sep")) { db[n - hlen - 2 - mlen] = 0x02; want = 0; }
	else if (is(P_var, "bad_nosep")) { memset(db + hlen, 0, n - 2 * hlen - 1); want = 0; }
	else if (is(P_var, "bad_first")) { want = 0; }
	else if (is(P_var, "bad_label")) { want = 0; }
	else die("var");
	br_mgf1_xor(db, n - hlen - 1, hc, seed, hlen);
	br_mgf1_xor(seed, hlen, hc, db, n - hlen - 1);
	blk[0] = is(P_var, "bad_first") ? 0x01 : 0x00;
	if (blk[0] != 0 && blk[0] >= rk->n[0]) die("cannot plant first byte");
	rsa_pub_raw(rk, blk);
	plen = xmalloc(sizeof *plen);
	*plen = n;
	len = n;
	taint_rsa(rk);
	if (is(P_var, "bad_label")) {
		r = fn(hc, "other", 5, &rk->sk, blk, plen);
	} else {
		r = fn(hc, label, sizeof label - 1, &rk->sk, blk, plen);
	}
	/* "Whether overall decryption worked, and the length of the decrypted
	   message, may leak" (bearssl_rsa.h): outputs of the call */
	PUBLIC(&r, sizeof r);
	PUBLIC(plen, sizeof *plen);
	len = *plen;
	out_u32("r", r);
	out_u32("len", (uint32_t)len);
	expect("status", r, want);
	if (r) {
		out_bytes("msg", blk, len);
		if (len != mlen || memcmp(blk, msg, mlen) != 0) expect("message", 0, 1);
	} else {
		expect("len-unmodified", (long)len, (long)n);
	}
}

/* ------------------------------------------------------------------ */
/* EC */

static unsigned char *
ec_scalar(const br_ec_impl *ec, int curve, size_t *xlen, uint64_t salt)
{
	const unsigned char *order;
	size_t olen;
	unsigned char *x;
	vf_rng r;

	vf_rng_init(&r, (uint64_t)P_seed, salt);
	order = ec->order(curve, &olen);
	x = xmalloc(olen);
	vf_bytes(&r, x, olen);
	if (curve == BR_EC_curve25519) {
		/* any 32-byte string is a scalar */
	} else if (is(P_var, "scalar_small")) {
		memset(x, 0, olen - 1);
		x[olen - 1] = 2;
	} else if (is(P_var, "scalar_max")) {
		memcpy(x, order, olen);
		x[olen - 1] -= 1;                /* order - 1 (orders are odd) */
	} else {
		x[0] = order[0] > 1 ? (unsigned char)(x[0] % order[0]) : 0;
		x[olen - 1] |= 1;
	}
	*xlen = olen;
	return x;
}

/* a second valid point: k*G computed natively before anything is tainted */
static unsigned char *
ec_point(const br_ec_impl *ec, int curve, size_t *plen)
{
	size_t xlen, glen;
	unsigned char *k, *p;
	const char *sv = P_var;

	P_var = "";
	k = ec_scalar(ec, curve, &xlen, 0xB0B);
	P_var = sv;
	ec->generator(curve, &glen);
	p = xmalloc(glen);
	if (ec->mulgen(p, k, xlen, curve) != glen) die("mulgen for the peer point");
	*plen = glen;
	return p;
}

static void
e_ec_mul(void)
{
	const br_ec_impl *ec = get_ec(P_impl);
	int curve = get_curve(P_curve);
	size_t xlen, glen;
	unsigned char *x, *G;
	uint32_t r;
	int want = 1;

	if (!((ec->supported_curves >> curve) & 1)) die("curve not supported by that implementation");
	x = ec_scalar(ec, curve, &xlen, 1);
	G = ec_point(ec, curve, &glen);
	if (is(P_var, "bad_point")) {
		if (curve == BR_EC_curve25519) die("no invalid point on curve25519");
		G[glen - 1] ^= 1; want = 0;
	} else if (is(P_var, "bad_format")) {
		if (curve == BR_EC_curve25519) die("no format byte on curve25519");
		G[0] = 0x02; want = 0;
	}
	SECRET(x, xlen);
	r = ec->mul(G, glen, x, xlen, curve);
	PUBLIC(&r, sizeof r);
	out_u32("r", r);
	out_bytes("P", G, glen);
	expect("status", r, want);
}

static void
e_ec_mulgen(void)
{
	const br_ec_impl *ec = get_ec(P_impl);
	int curve = get_curve(P_curve);
	size_t xlen, glen, n;
	unsigned char *x, *R;

	if (!((ec->supported_curves >> curve) & 1)) die("curve not supported by that implementation");
	x = ec_scalar(ec, curve, &xlen, 2);
	ec->generator(curve, &glen);
	R = xmalloc(glen);
	SECRET(x, xlen);
	n = ec->mulgen(R, x, xlen, curve);
	PUBLIC(&n, sizeof n);
	out_u32("n", (uint32_t)n);
	out_bytes("R", R, glen);
	expect("length", (long)n, (long)glen);
}

static void
e_ec_muladd(void)
{
	const br_ec_impl *ec = get_ec(P_impl);
	int curve = get_curve(P_curve);
	size_t xlen, ylen, alen, blen;
	unsigned char *x, *y, *A, *B;
	uint32_t r;
	int want = 1;

	if (curve == BR_EC_curve25519) die("muladd is not defined on curve25519");
	if (!((ec->supported_curves >> curve) & 1)) die("curve not supported by that implementation");
	x = ec_scalar(ec, curve, &xlen, 3);
	y = ec_scalar(ec, curve, &ylen, 4);
	A = ec_point(ec, curve, &alen);
	B = NULL;
	if (is(P_var, "two_points") || is(P_var, "same_point")) {
		vf_rng r2;
		if (is(P_var, "same_point")) {
			B = vf_dup(A, alen);
			memcpy(y, x, xlen);       /* A*x + A*x: the doubling case */
		} else {
			const char *sv = P_var;
			unsigned char *k;
			size_t kl;
			P_var = "";
			k = ec_scalar(ec, curve, &kl, 0xC0C);
			P_var = sv;
			B = xmalloc(alen);
			if (ec->mulgen(B, k, kl, curve) != alen) die("mulgen B");
		}
		(void)r2;
		blen = alen;
	} else if (is(P_var, "bad_point")) {
		A[alen - 1] ^= 1; want = 0;
	}
	(void)blen;
	SECRET(x, xlen);
	SECRET(y, ylen);
	r = ec->muladd(A, B, alen, x, xlen, y, ylen, curve);
	PUBLIC(&r, sizeof r);
	out_u32("r", r);
	out_bytes("P", A, alen);
	expect("status", r, want);
}

/* ECDSA signing: private key and hash value secret; the signature is the
   public output.  --impl is "<int>:<ec>", e.g. "i31:prime_i31". */
static void
e_ecdsa(int asn1)
{
	char ibuf[64], *ecn;
	const br_ec_impl *ec;
	int curve = get_curve(P_curve);
	const br_hash_class *hc = get_hash(P_hash);
	size_t hlen = br_digest_size(hc), xlen, slen, glen;
	unsigned char *x, *hv, *hv0, *sig, *Q;
	br_ec_private_key sk;
	br_ec_public_key pk;
	br_ecdsa_sign fn = 0;
	int want_ok = 1;

	snprintf(ibuf, sizeof ibuf, "%s", P_impl);
	ecn = strchr(ibuf, ':');
	if (!ecn) die("--impl must be <int>:<ec>");
	*ecn ++ = 0;
	ec = get_ec(ecn);
	if (is(ibuf, "i15")) fn = asn1 ? &br_ecdsa_i15_sign_asn1 : &br_ecdsa_i15_sign_raw;
	else if (is(ibuf, "i31")) fn = asn1 ? &br_ecdsa_i31_sign_asn1 : &br_ecdsa_i31_sign_raw;
	else if (is(ibuf, "default")) fn = asn1 ? br_ecdsa_sign_asn1_get_default() : br_ecdsa_sign_raw_get_default();
	else die("impl");
	if (!((ec->supported_curves >> curve) & 1)) die("curve not supported by that implementation");
	x = ec_scalar(ec, curve, &xlen, 5);
	if (is(P_var, "bad_key_zero")) { memset(x, 0, xlen); want_ok = 0; }
	else if (is(P_var, "bad_key_order")) { size_t ol; memcpy(x, ec->order(curve, &ol), xlen); want_ok = 0; }
	hv = rnd_bytes(hlen);
	if (is(P_var, "hash_zero")) memset(hv, 0, hlen);
	if (is(P_var, "hash_ff")) memset(hv, 0xFF, hlen);
	hv0 = vf_dup(hv, hlen);
	sig = xmalloc(160);
	sk.curve = curve; sk.x = x; sk.xlen = xlen;
	ec->generator(curve, &glen);
	Q = xmalloc(glen);
	if (want_ok) {
		if (br_ec_compute_pub(ec, &pk, Q, &sk) != glen) die("compute_pub");
	}
	SECRET(x, xlen);
	SECRET(hv, hlen);
	slen = fn(ec, hc, hv, &sk, sig);
	PUBLIC(&slen, sizeof slen);          /* documented returned length / 0 on error */
	out_u32("slen", (uint32_t)slen);
	out_bytes("sig", sig, slen);
	if (want_ok) {
		uint32_t v;
		expect("signed", slen != 0, 1);
		v = asn1 ? br_ecdsa_i31_vrfy_asn1(ec, hv0, hlen, &pk, sig, slen)
			: br_ecdsa_i31_vrfy_raw(ec, hv0, hlen, &pk, sig, slen);
		expect("verify", v, 1);
	} else {
		expect("rejected", (long)slen, 0);
	}
}
static void e_ecdsa_sign_raw(void) { e_ecdsa(0); }
static void e_ecdsa_sign_asn1(void) { e_ecdsa(1); }

static void
e_ec_keygen(void)
{
	const br_ec_impl *ec = get_ec(P_impl);
	int curve = get_curve(P_curve);
	secret_prng sp;
	br_ec_private_key sk;
	unsigned char kbuf[BR_EC_KBUF_PRIV_MAX_SIZE];
	size_t n;

	if (!((ec->supported_curves >> curve) & 1)) die("curve not supported by that implementation");
	sp_setup(&sp);
	n = br_ec_keygen(&sp.vtable, ec, &sk, kbuf, curve);
	PUBLIC(&n, sizeof n);
	out_u32("n", (uint32_t)n);
	out_bytes("x", kbuf, n);
	expect("generated", n != 0, 1);
}

static void
e_ec_compute_pub(void)
{
	const br_ec_impl *ec = get_ec(P_impl);
	int curve = get_curve(P_curve);
	size_t xlen, n;
	unsigned char *x;
	unsigned char kbuf[BR_EC_KBUF_PUB_MAX_SIZE];
	br_ec_private_key sk;
	br_ec_public_key pk;

	if (!((ec->supported_curves >> curve) & 1)) die("curve not supported by that implementation");
	x = ec_scalar(ec, curve, &xlen, 6);
	sk.curve = curve; sk.x = x; sk.xlen = xlen;
	SECRET(x, xlen);
	n = br_ec_compute_pub(ec, &pk, kbuf, &sk);
	PUBLIC(&n, sizeof n);
	out_u32("n", (uint32_t)n);
	out_bytes("Q", kbuf, n);
	expect("computed", n != 0, 1);
}

/* ------------------------------------------------------------------ */
/* block ciphers: key schedule with a secret key, then a run over secret data */

typedef struct {
	const br_block_cbcenc_class *cbcenc;
	const br_block_cbcdec_class *cbcdec;
	const br_block_ctr_class *ctr;
	const br_block_ctrcbc_class *ctrcbc;
	size_t bs;
} bc_family;

static bc_family
get_bc(const char *impl)
{
	bc_family f;
	memset(&f, 0, sizeof f);
	f.bs = 16;
	if (is(impl, "aes_ct")) {
		f.cbcenc = &br_aes_ct_cbcenc_vtable; f.cbcdec = &br_aes_ct_cbcdec_vtable;
		f.ctr = &br_aes_ct_ctr_vtable; f.ctrcbc = &br_aes_ct_ctrcbc_vtable;
	} else if (is(impl, "aes_ct64")) {
		f.cbcenc = &br_aes_ct64_cbcenc_vtable; f.cbcdec = &br_aes_ct64_cbcdec_vtable;
		f.ctr = &br_aes_ct64_ctr_vtable; f.ctrcbc = &br_aes_ct64_ctrcbc_vtable;
	} else if (is(impl, "aes_big")) {
		f.cbcenc = &br_aes_big_cbcenc_vtable; f.cbcdec = &br_aes_big_cbcdec_vtable;
		f.ctr = &br_aes_big_ctr_vtable; f.ctrcbc = &br_aes_big_ctrcbc_vtable;
	} else if (is(impl, "aes_small")) {
		f.cbcenc = &br_aes_small_cbcenc_vtable; f.cbcdec = &br_aes_small_cbcdec_vtable;
		f.ctr = &br_aes_small_ctr_vtable; f.ctrcbc = &br_aes_small_ctrcbc_vtable;
	} else if (is(impl, "des_ct")) {
		f.cbcenc = &br_des_ct_cbcenc_vtable; f.cbcdec = &br_des_ct_cbcdec_vtable; f.bs = 8;
	} else if (is(impl, "des_tab")) {
		f.cbcenc = &br_des_tab_cbcenc_vtable; f.cbcdec = &br_des_tab_cbcdec_vtable; f.bs = 8;
	} else {
		die("unknown block cipher implementation");
	}
	return f;
}

/* mode in P_var: cbcenc cbcdec ctr ctrcbc_enc ctrcbc_dec ctrcbc_ctr ctrcbc_mac */
static void
block_run(const char *impl)
{
	bc_family f = get_bc(impl);
	size_t klen = (size_t)P_size, dlen = 5 * f.bs;
	unsigned char *key = rnd_bytes(klen), *iv = rnd_bytes(16), *data = rnd_bytes(dlen);
	unsigned char *ctrv = rnd_bytes(16), *mac = rnd_bytes(16);

	SECRET(key, klen);
	SECRET(data, dlen);
	if (is(P_var, "cbcenc")) {
		br_aes_gen_cbcenc_keys *c = xmalloc(sizeof(br_aes_gen_cbcenc_keys) + sizeof(br_des_gen_cbcenc_keys));
		f.cbcenc->init((const br_block_cbcenc_class **)c, key, klen);
		f.cbcenc->run((const br_block_cbcenc_class *const *)c, iv, data, dlen);
	} else if (is(P_var, "cbcdec")) {
		br_aes_gen_cbcdec_keys *c = xmalloc(sizeof(br_aes_gen_cbcdec_keys) + sizeof(br_des_gen_cbcdec_keys));
		f.cbcdec->init((const br_block_cbcdec_class **)c, key, klen);
		f.cbcdec->run((const br_block_cbcdec_class *const *)c, iv, data, dlen);
	} else if (is(P_var, "ctr")) {
		br_aes_gen_ctr_keys *c = xmalloc(sizeof *c);
		uint32_t cc;
		if (!f.ctr) die("no CTR for that implementation");
		f.ctr->init((const br_block_ctr_class **)c, key, klen);
		cc = f.ctr->run((const br_block_ctr_class *const *)c, iv, 7, data, dlen - 3);
		out_u32("cc", cc);
	} else if (!strncmp(P_var, "ctrcbc", 6)) {
		br_aes_gen_ctrcbc_keys *c = xmalloc(sizeof *c);
		if (!f.ctrcbc) die("no CTRCBC for that implementation");
		SECRET(mac, 16);
		f.ctrcbc->init((const br_block_ctrcbc_class **)c, key, klen);
		if (is(P_var, "ctrcbc_enc")) f.ctrcbc->encrypt((const br_block_ctrcbc_class *const *)c, ctrv, mac, data, dlen);
		else if (is(P_var, "ctrcbc_dec")) f.ctrcbc->decrypt((const br_block_ctrcbc_class *const *)c, ctrv, mac, data, dlen);
		else if (is(P_var, "ctrcbc_ctr")) f.ctrcbc->ctr((const br_block_ctrcbc_class *const *)c, ctrv, data, dlen);
		else if (is(P_var, "ctrcbc_mac")) f.ctrcbc->mac((const br_block_ctrcbc_class *const *)c, mac, data, dlen);
		else die("var");
		out_bytes("ctr", ctrv, 16);
		out_bytes("mac", mac, 16);
	} else {
		die("var");
	}
	out_bytes("iv", iv, 16);
	out_bytes("data", data, dlen);
}

static void e_block(void) { block_run(P_impl); }
/* canaries: table-based implementations MUST be reported */
static void e_canary_aes_big(void) { block_run("aes_big"); }
static void e_canary_des_tab(void) { block_run("des_tab"); }

static void
e_chacha20(void)
{
	br_chacha20_run fn = 0;
	size_t dlen = (size_t)P_size;
	unsigned char *key = rnd_bytes(32), *iv = rnd_bytes(12), *data = rnd_bytes(dlen);
	uint32_t cc;

	if (is(P_impl, "ct")) fn = &br_chacha20_ct_run;
	else if (is(P_impl, "sse2")) { fn = br_chacha20_sse2_get(); if (!fn) skip("chacha20 sse2 not available"); }
	else die("impl");
	SECRET(key, 32);
	SECRET(data, dlen);
	cc = fn(key, iv, 3, data, dlen);
	out_u32("cc", cc);
	out_bytes("data", data, dlen);
}

static br_poly1305_run
get_poly(const char *impl)
{
	br_poly1305_run fn = 0;
	if (is(impl, "ctmul")) fn = &br_poly1305_ctmul_run;
	else if (is(impl, "ctmul32")) fn = &br_poly1305_ctmul32_run;
	else if (is(impl, "i15")) fn = &br_poly1305_i15_run;
	else if (is(impl, "ctmulq")) { fn = br_poly1305_ctmulq_get(); if (!fn) skip("poly1305 ctmulq not available"); }
	else die("impl");
	return fn;
}

static void
e_poly1305(void)
{
	br_poly1305_run fn = get_poly(P_impl);
	size_t dlen = (size_t)P_size, alen = 13;
	unsigned char *key = rnd_bytes(32), *iv = rnd_bytes(12), *data = rnd_bytes(dlen);
	unsigned char *aad = rnd_bytes(alen), *tag = xmalloc(16);

	SECRET(key, 32);
	SECRET(data, dlen);
	SECRET(aad, alen);
	fn(key, iv, data, dlen, aad, alen, tag, &br_chacha20_ct_run, is(P_var, "dec") ? 0 : 1);
	out_bytes("data", data, dlen);
	out_bytes("tag", tag, 16);
}

static br_ghash
get_ghash(const char *impl)
{
	br_ghash fn = 0;
	if (is(impl, "ctmul")) fn = &br_ghash_ctmul;
	else if (is(impl, "ctmul32")) fn = &br_ghash_ctmul32;
	else if (is(impl, "ctmul64")) fn = &br_ghash_ctmul64;
	else if (is(impl, "pclmul")) { fn = br_ghash_pclmul_get(); if (!fn) skip("ghash pclmul not available"); }
	else die("impl");
	return fn;
}

static void
e_ghash(void)
{
	br_ghash fn = get_ghash(P_impl);
	size_t dlen = (size_t)P_size;
	unsigned char *y = rnd_bytes(16), *h = rnd_bytes(16), *data = rnd_bytes(dlen);

	SECRET(y, 16);
	SECRET(h, 16);
	SECRET(data, dlen);
	fn(y, h, data, dlen);
	out_bytes("y", y, 16);
}

/* ---- br_hmac_outCT: key, data and len secret; min_len and max_len public.
   --size is "max_len"; --var is "<min>:<len>:<pre>" (pre = bytes already
   injected with br_hmac_update, public count) */
static void
e_hmac_outct(void)
{
	const br_hash_class *hc = get_hash(P_hash);
	size_t hlen = br_digest_size(hc);
	size_t max_len = (size_t)P_size, min_len = 0, len = 0, pre = 13;
	unsigned long a = 0, b = 0, c = 13;
	unsigned char *key = rnd_bytes(hlen), *data = rnd_bytes(max_len + 1), *prebuf;
	unsigned char *out = xmalloc(64), ref[64];
	size_t *plen = xmalloc(sizeof *plen);
	br_hmac_key_context kc;
	br_hmac_context ctx, ctx2;
	size_t n;

	if (sscanf(P_var, "%lu:%lu:%lu", &a, &b, &c) < 2) die("var must be min:len[:pre]");
	min_len = a; len = b; pre = c;
	if (!(min_len <= len && len <= max_len)) die("need min <= len <= max");
	prebuf = rnd_bytes(pre + 1);
	/* reference value, native and untainted */
	br_hmac_key_init(&kc, hc, key, hlen);
	br_hmac_init(&ctx2, &kc, 0);
	br_hmac_update(&ctx2, prebuf, pre);
	br_hmac_update(&ctx2, data, len);
	br_hmac_out(&ctx2, ref);

	SECRET(key, hlen);
	SECRET(data, max_len);
	br_hmac_key_init(&kc, hc, key, hlen);
	br_hmac_init(&ctx, &kc, 0);
	br_hmac_update(&ctx, prebuf, pre);
	*plen = len;
	SECRET(plen, sizeof *plen);
	n = br_hmac_outCT(&ctx, data, *plen, min_len, max_len, out);
	out_u32("n", (uint32_t)n);
	out_bytes("mac", out, hlen);
	expect("mac-length", (long)n, (long)hlen);
	if (memcmp(out, ref, hlen) != 0) expect("mac-value", 0, 1);
}

/* ------------------------------------------------------------------ */
/* record layer */

typedef union {
	const br_sslrec_in_class *vtable;
	br_sslrec_in_cbc_context cbc;
	br_sslrec_gcm_context gcm;
	br_sslrec_chapol_context chapol;
	br_sslrec_ccm_context ccm;
} rec_in;

typedef union {
	const br_sslrec_out_class *vtable;
	br_sslrec_out_cbc_context cbc;
	br_sslrec_gcm_context gcm;
	br_sslrec_chapol_context chapol;
	br_sslrec_ccm_context ccm;
} rec_out;

/*
 * CBC record decryption through the br_sslrec_in_cbc vtable.  Both keys are
 * secret (and the implicit IV in TLS 1.0), the ciphertext is public; hence
 * the plaintext, the padding length, the padding validity, the MAC position
 * and the MAC value are all secret-derived.
 *   --impl aes_ct|aes_ct64|des_ct   --hash md5|sha1|sha256|sha384
 *   --size plaintext length   --curve tls10|tls12 (re-used as version switch)
 *   --var  defect class
 */
static void
e_rec_cbc_decrypt(void)
{
	bc_family f = get_bc(P_impl);
	const br_hash_class *hc = get_hash(P_hash);
	size_t hlen = br_digest_size(hc), bs = f.bs;
	size_t klen = (f.bs == 8) ? 24 : 16;
	size_t plen = (size_t)P_size, padn, tot, u, reclen;
	int tls10 = is(P_curve, "tls10");
	unsigned version = tls10 ? BR_TLS10 : BR_TLS12;
	unsigned char *bkey = rnd_bytes(klen), *mkey = rnd_bytes(hlen), *iv = rnd_bytes(16);
	unsigned char *rec, *body, *pt0, hdr[13], *res, ivc[16];
	br_hmac_key_context kc;
	br_hmac_context hm;
	rec_in *ic = xmalloc(sizeof *ic);
	size_t *dlen = xmalloc(sizeof *dlen);
	void *encc;
	int want = 1;
	unsigned padv;

	/* plaintext || MAC || padding: padding length padn+1 bytes of value padn */
	padn = bs - 1 - ((plen + hlen) % bs);
	if (is(P_var, "good_pad_long") || is(P_var, "bad_padbyte_first") || is(P_var, "bad_padbyte_mid")
		|| is(P_var, "bad_shift"))
	{
		while (padn + bs <= 255) padn += bs;
	} else if (is(P_var, "good_pad_mid") || is(P_var, "bad_padbyte_last")) {
		padn += 4 * bs;
	}
	tot = plen + hlen + padn + 1;
	rec = xmalloc(bs + tot + 64);
	body = rec + (tls10 ? 0 : bs);
	vf_bytes(&g_rng, rec, bs);               /* explicit IV block (TLS 1.1+) */
	vf_bytes(&g_rng, body, plen);
	pt0 = vf_dup(body, plen);
	memset(hdr, 0, 8);
	hdr[8] = BR_SSL_APPLICATION_DATA;
	br_enc16be(hdr + 9, version);
	br_enc16be(hdr + 11, (unsigned)plen);
	br_hmac_key_init(&kc, hc, mkey, hlen);
	br_hmac_init(&hm, &kc, 0);
	br_hmac_update(&hm, hdr, 13);
	br_hmac_update(&hm, body, plen);
	br_hmac_out(&hm, body + plen);
	padv = (unsigned)padn;
	memset(body + plen + hlen, (int)padv, padn + 1);

	if (!strncmp(P_var, "good", 4)) { }
	else if (is(P_var, "bad_mac_first")) { body[plen] ^= 0x01; want = 0; }
	else if (is(P_var, "bad_mac_last")) { body[plen + hlen - 1] ^= 0x80; want = 0; }
	else if (is(P_var, "bad_data")) { if (plen == 0) die("needs data"); body[plen / 2] ^= 0x10; want = 0; }
	else if (is(P_var, "bad_padlen_over")) { body[tot - 1] = 0xFF; want = 0;
		if (tot > 255 + hlen) die("record too long for that defect"); }
	else if (is(P_var, "bad_padbyte_first")) { body[plen + hlen] ^= 0x01; want = 0; }
	else if (is(P_var, "bad_padbyte_mid")) { body[plen + hlen + padn / 2] ^= 0x40; want = 0; }
	else if (is(P_var, "bad_padbyte_last")) { body[tot - 2] ^= 0x01; want = 0; }
	else if (is(P_var, "bad_shift")) {
		/* a consistent but shorter padding: valid padding, MAC found at the wrong place */
		memset(body + tot - (padn + 1 - bs), (int)(padn - bs), padn + 1 - bs);
		want = 0;
	}
	else if (is(P_var, "bad_too_long")) { if (plen <= 16384) die("needs size > 16384"); want = 0; }
	else die("var");

	/* encrypt (harness side, native, untainted) */
	reclen = (tls10 ? 0 : bs) + tot;
	memset(ivc, 0, sizeof ivc);
	if (tls10) memcpy(ivc, iv, bs);
	encc = xmalloc(sizeof(br_aes_gen_cbcenc_keys) + sizeof(br_des_gen_cbcenc_keys));
	f.cbcenc->init((const br_block_cbcenc_class **)encc, bkey, klen);
	f.cbcenc->run((const br_block_cbcenc_class *const *)encc, ivc, rec, reclen);

	SECRET(bkey, klen);
	SECRET(mkey, hlen);
	if (tls10) SECRET(iv, bs);
	br_sslrec_in_cbc_vtable.init(&ic->cbc.vtable, f.cbcdec, bkey, klen, hc, mkey, hlen, hlen,
		tls10 ? iv : NULL);
	if (!ic->vtable->check_length(&ic->vtable, reclen)) {
		if (is(P_var, "bad_too_long")) {
			/* an over-long record is refused on its public length already */
			out_u32("check_length", 0);
			return;
		}
		die("check_length refused the record");
	}
	*dlen = reclen;
	res = ic->vtable->decrypt(&ic->vtable, BR_SSL_APPLICATION_DATA, version, rec, dlen);
	/* accept/reject and the plaintext length are what the caller learns */
	PUBLIC(&res, sizeof res);
	PUBLIC(dlen, sizeof *dlen);
	out_u32("accepted", res != NULL);
	expect("verdict", res != NULL, want);
	/* what an observer legitimately knows: record length and verdict (used to
	   group runs in the differential confirmation of memcheck artefacts) */
	printf("SHAPE reclen=%lu accepted=%d\n", (unsigned long)reclen, res != NULL);
	if (res != NULL) {
		out_u32("len", (uint32_t)*dlen);
		out_bytes("pt", res, *dlen);
		if (*dlen != plen || memcmp(res, pt0, plen) != 0) expect("plaintext", 0, 1);
	}
	(void)u;
}

/* AEAD records: encrypt with the library's own out-context natively, then
   decrypt with a secret key/IV; --var good|bad_tag|bad_data */
static void
e_rec_aead_decrypt(const char *kind)
{
	size_t plen = (size_t)P_size, klen = 16, reclen, tlen = 16;
	unsigned char *key = rnd_bytes(32), *iv = rnd_bytes(12);
	unsigned char *buf = xmalloc(plen + 1024), *rec, *pt0, *res;
	rec_out *oc = xmalloc(sizeof *oc);
	rec_in *ic = xmalloc(sizeof *ic);
	size_t *dlen = xmalloc(sizeof *dlen);
	int want = 1;
	bc_family f;
	br_ghash gh = 0;
	br_chacha20_run cha = 0;
	br_poly1305_run pol = 0;

	vf_bytes(&g_rng, buf + 256, plen);
	pt0 = vf_dup(buf + 256, plen);
	*dlen = plen;
	if (is(kind, "gcm")) {
		char ib[64], *g;
		snprintf(ib, sizeof ib, "%s", P_impl);       /* <aes>:<ghash> */
		g = strchr(ib, ':'); if (!g) die("--impl must be <aes>:<ghash>"); *g ++ = 0;
		f = get_bc(ib); gh = get_ghash(g);
		if (P_hash && is(P_hash, "k256")) klen = 32;
		br_sslrec_out_gcm_vtable.init(&oc->gcm.vtable.out, f.ctr, key, klen, gh, iv);
	} else if (is(kind, "ccm")) {
		f = get_bc(P_impl);
		if (is(P_hash, "tag8")) tlen = 8;
		br_sslrec_out_ccm_vtable.init(&oc->ccm.vtable.out, f.ctrcbc, key, klen, iv, tlen);
	} else {
		char ib[64], *g;
		snprintf(ib, sizeof ib, "%s", P_impl);       /* <chacha>:<poly> */
		g = strchr(ib, ':'); if (!g) die("--impl must be <chacha>:<poly>"); *g ++ = 0;
		if (is(ib, "ct")) cha = &br_chacha20_ct_run;
		else if (is(ib, "sse2")) { cha = br_chacha20_sse2_get(); if (!cha) skip("chacha20 sse2 not available"); }
		else die("impl");
		pol = get_poly(g);
		br_sslrec_out_chapol_vtable.init(&oc->chapol.vtable.out, cha, pol, key, iv);
	}
	rec = oc->vtable->encrypt(&oc->vtable, BR_SSL_APPLICATION_DATA, BR_TLS12, buf + 256, dlen);
	reclen = *dlen - 5;
	rec += 5;
	if (is(P_var, "good")) { }
	else if (is(P_var, "bad_tag")) { rec[reclen - 1] ^= 1; want = 0; }
	else if (is(P_var, "bad_tag_first")) { rec[reclen - tlen] ^= 0x80; want = 0; }
	else if (is(P_var, "bad_data")) { if (!plen) die("needs data"); rec[reclen - tlen - 1] ^= 4; want = 0; }
	else die("var");

	SECRET(key, 32);
	SECRET(iv, 12);
	if (is(kind, "gcm")) br_sslrec_in_gcm_vtable.init(&ic->gcm.vtable.in, f.ctr, key, klen, gh, iv);
	else if (is(kind, "ccm")) br_sslrec_in_ccm_vtable.init(&ic->ccm.vtable.in, f.ctrcbc, key, klen, iv, tlen);
	else br_sslrec_in_chapol_vtable.init(&ic->chapol.vtable.in, cha, pol, key, iv);
	if (!ic->vtable->check_length(&ic->vtable, reclen)) die("check_length refused the record");
	*dlen = reclen;
	res = ic->vtable->decrypt(&ic->vtable, BR_SSL_APPLICATION_DATA, BR_TLS12, rec, dlen);
	PUBLIC(&res, sizeof res);
	PUBLIC(dlen, sizeof *dlen);
	out_u32("accepted", res != NULL);
	expect("verdict", res != NULL, want);
	if (res != NULL) {
		out_u32("len", (uint32_t)*dlen);
		out_bytes("pt", res, *dlen);
		if (*dlen != plen || memcmp(res, pt0, plen) != 0) expect("plaintext", 0, 1);
	}
}
static void e_rec_gcm_decrypt(void) { e_rec_aead_decrypt("gcm"); }
static void e_rec_ccm_decrypt(void) { e_rec_aead_decrypt("ccm"); }
static void e_rec_chapol_decrypt(void) { e_rec_aead_decrypt("chapol"); }

/* ---- br_gcm/ccm/eax check_tag with a secret key: the computed tag is secret,
   the presented tag is public; the returned flag is the documented result */
static void
aead_check_tag(const char *kind, int canary)
{
	bc_family f = get_bc(canary ? "aes_ct" : P_impl);
	size_t dlen = (size_t)(canary ? 40 : P_size), alen = 21, tlen = 16;
	unsigned char *key = rnd_bytes(16), *nonce = rnd_bytes(12), *data = rnd_bytes(dlen), *aad = rnd_bytes(alen);
	unsigned char good_tag[16], tag[16], *ct;
	uint32_t r = 0;
	int pass;
	union {
		br_aes_gen_ctr_keys ctr;
		br_aes_gen_ctrcbc_keys ctrcbc;
	} *bc = xmalloc(sizeof *bc);
	union {
		const br_aead_class *vtable;
		br_gcm_context gcm;
		br_ccm_context ccm;
		br_eax_context eax;
	} *ac = xmalloc(sizeof *ac);

	if (!canary && is(P_var, "trunc")) tlen = 12;
	ct = NULL;
	/* pass 0: native, untainted: encrypt and get the good tag; pass 1: decrypt
	   with the secret key and check the presented tag */
	for (pass = 0; pass < 2; pass ++) {
		if (pass == 1) {
			SECRET(key, 16);
			memcpy(tag, good_tag, 16);
			if (!canary) {
				if (is(P_var, "bad_first")) tag[0] ^= 0x80;
				else if (is(P_var, "bad_last")) tag[tlen - 1] ^= 0x01;
				else if (!is(P_var, "good") && !is(P_var, "trunc")) die("var");
			}
		}
		if (is(kind, "gcm")) {
			f.ctr->init(&bc->ctr.vtable, key, 16);
			br_gcm_init(&ac->gcm, &bc->ctr.vtable, get_ghash((canary || !P_hash[0]) ? "ctmul" : P_hash));
			br_gcm_reset(&ac->gcm, nonce, 12);
			br_gcm_aad_inject(&ac->gcm, aad, alen);
			br_gcm_flip(&ac->gcm);
			br_gcm_run(&ac->gcm, pass == 0, data, dlen);
			if (pass == 0) br_gcm_get_tag(&ac->gcm, good_tag);
			else if (canary) br_gcm_get_tag(&ac->gcm, tag);
			else r = (tlen == 16) ? br_gcm_check_tag(&ac->gcm, tag) : br_gcm_check_tag_trunc(&ac->gcm, tag, tlen);
		} else if (is(kind, "ccm")) {
			f.ctrcbc->init(&bc->ctrcbc.vtable, key, 16);
			br_ccm_init(&ac->ccm, &bc->ctrcbc.vtable);
			if (!br_ccm_reset(&ac->ccm, nonce, 12, alen, dlen, 16)) die("ccm reset");
			br_ccm_aad_inject(&ac->ccm, aad, alen);
			br_ccm_flip(&ac->ccm);
			br_ccm_run(&ac->ccm, pass == 0, data, dlen);
			if (pass == 0) br_ccm_get_tag(&ac->ccm, good_tag);
			else r = br_ccm_check_tag(&ac->ccm, tag);
		} else {
			f.ctrcbc->init(&bc->ctrcbc.vtable, key, 16);
			br_eax_init(&ac->eax, &bc->ctrcbc.vtable);
			br_eax_reset(&ac->eax, nonce, 12);
			br_eax_aad_inject(&ac->eax, aad, alen);
			br_eax_flip(&ac->eax);
			br_eax_run(&ac->eax, pass == 0, data, dlen);
			if (pass == 0) br_eax_get_tag(&ac->eax, good_tag);
			else r = (tlen == 16) ? br_eax_check_tag(&ac->eax, tag) : br_eax_check_tag_trunc(&ac->eax, tag, tlen);
		}
	}
	(void)ct;
	if (canary) {
		/* the mistake the library avoids: memcmp on a secret tag.  MUST be reported. */
		volatile int bad = memcmp(tag, good_tag, 16) != 0;
		if (bad) {
			out_u32("memcmp-differs", 1);
		} else {
			out_u32("memcmp-equal", 1);
		}
		out_bytes("data", data, dlen);
		return;
	}
	PUBLIC(&r, sizeof r);
	out_u32("r", r);
	out_bytes("data", data, dlen);
	expect("verdict", r, (is(P_var, "good") || is(P_var, "trunc")) ? 1 : 0);
}
static void e_gcm_check_tag(void) { aead_check_tag("gcm", 0); }
static void e_ccm_check_tag(void) { if (is(P_var, "trunc")) die("no truncated check for CCM"); aead_check_tag("ccm", 0); }
static void e_eax_check_tag(void) { aead_check_tag("eax", 0); }
static void e_canary_memcmp(void) { aead_check_tag("gcm", 1); }

/* ------------------------------------------------------------------ */
/* constant-time primitives of inner.h with secret operands.  Operand sets
   cover equal / unequal / boundary values; every operand byte is secret. */

static const uint32_t prim_vals[] = {
	0, 1, 2, 0x7FFFFFFF, 0x80000000u, 0x80000001u, 0xFFFFFFFFu, 0xFFFF, 0x10000, 0x12345678, 0xFFFFFFFEu
};
#define NPV (sizeof prim_vals / sizeof prim_vals[0])

#define PRIM2(NAME, EXPR) \
static void e_prim_##NAME(void) { \
	size_t i, j; \
	for (i = 0; i < NPV; i ++) for (j = 0; j < NPV; j ++) { \
		uint32_t *v = xmalloc(3 * sizeof *v); uint32_t r; \
		v[0] = prim_vals[i]; v[1] = prim_vals[j]; v[2] = (uint32_t)((i + j) & 1); \
		SECRET(v, 3 * sizeof *v); \
		{ uint32_t x = v[0], y = v[1], c = v[2]; (void)x; (void)y; (void)c; r = (uint32_t)(EXPR); } \
		out_u32(#NAME, r); \
		free(v); \
	} \
}
PRIM2(NOT, NOT(c))
PRIM2(MUX, MUX(c, x, y))
PRIM2(EQ, EQ(x, y))
PRIM2(NEQ, NEQ(x, y))
PRIM2(GT, GT(x, y))
PRIM2(GE, GE(x, y))
PRIM2(LT, LT(x, y))
PRIM2(LE, LE(x, y))
PRIM2(CMP, CMP(x, y))
PRIM2(EQ0, EQ0((int32_t)x))
PRIM2(GT0, GT0((int32_t)x))
PRIM2(GE0, GE0((int32_t)x))
PRIM2(LT0, LT0((int32_t)x))
PRIM2(LE0, LE0((int32_t)x))
PRIM2(MIN, MIN(x, y))
PRIM2(MAX, MAX(x, y))
PRIM2(BIT_LENGTH, BIT_LENGTH(x))

/* br_divrem(hi, lo, d): needs hi < d for a defined quotient */
static void
e_prim_divrem(void)
{
	size_t i, j, k;
	for (i = 0; i < NPV; i ++) for (j = 0; j < NPV; j ++) for (k = 0; k < NPV; k ++) {
		uint32_t *v = xmalloc(4 * sizeof *v), q, rm, q2, q3;
		v[0] = prim_vals[i]; v[1] = prim_vals[j]; v[2] = prim_vals[k];
		if (v[2] == 0 || v[0] >= v[2]) { free(v); continue; }
		if ((((uint64_t)v[0] << 32) | v[1]) / v[2] != (uint32_t)((((uint64_t)v[0] << 32) | v[1]) / v[2])) die("divrem operands");
		SECRET(v, 3 * sizeof *v);
		q = br_divrem(v[0], v[1], v[2], &v[3]);
		rm = v[3];
		q2 = br_div(v[0], v[1], v[2]);
		q3 = br_rem(v[0], v[1], v[2]);
		out_u32("q", q); out_u32("r", rm); out_u32("div", q2); out_u32("rem", q3);
		PUBLIC(v, 4 * sizeof *v);
		PUBLIC(&q, sizeof q);
		if (q != (uint32_t)(((((uint64_t)v[0]) << 32) | v[1]) / v[2])) expect("quotient", 0, 1);
		free(v);
	}
}

static void
e_prim_ccopy(void)
{
	size_t len;
	int c;
	for (len = 0; len <= 67; len += (len < 20 ? 1 : 47)) for (c = 0; c < 2; c ++) {
		unsigned char *src = rnd_bytes(len + 1), *dst = rnd_bytes(len + 1);
		uint32_t *ctl = xmalloc(sizeof *ctl);
		*ctl = (uint32_t)c;
		SECRET(ctl, sizeof *ctl);
		SECRET(src, len);
		SECRET(dst, len);
		br_ccopy(*ctl, dst, src, len);
		out_bytes("dst", dst, len);
		PUBLIC(src, len);
		if (c && memcmp(dst, src, len) != 0) expect("copied", 0, 1);
	}
}

/* ------------------------------------------------------------------ */

static const struct { const char *name; void (*fn)(void); } entries[] = {
	{ "rsa_private", e_rsa_private },
	{ "rsa_pkcs1_sign", e_rsa_pkcs1_sign },
	{ "rsa_pss_sign", e_rsa_pss_sign },
	{ "rsa_ssl_decrypt", e_rsa_ssl_decrypt },
	{ "rsa_oaep_decrypt", e_rsa_oaep_decrypt },
	{ "ec_mul", e_ec_mul },
	{ "ec_mulgen", e_ec_mulgen },
	{ "ec_muladd", e_ec_muladd },
	{ "ecdsa_sign_raw", e_ecdsa_sign_raw },
	{ "ecdsa_sign_asn1", e_ecdsa_sign_asn1 },
	{ "ec_keygen", e_ec_keygen },
	{ "ec_compute_pub", e_ec_compute_pub },
	{ "block", e_block },
	{ "chacha20", e_chacha20 },
	{ "poly1305", e_poly1305 },
	{ "ghash", e_ghash },
	{ "hmac_outCT", e_hmac_outct },
	{ "rec_cbc_decrypt", e_rec_cbc_decrypt },
	{ "rec_gcm_decrypt", e_rec_gcm_decrypt },
	{ "rec_ccm_decrypt", e_rec_ccm_decrypt },
	{ "rec_chapol_decrypt", e_rec_chapol_decrypt },
	{ "gcm_check_tag", e_gcm_check_tag },
	{ "ccm_check_tag", e_ccm_check_tag },
	{ "eax_check_tag", e_eax_check_tag },
	{ "canary_aes_big", e_canary_aes_big },
	{ "canary_des_tab", e_canary_des_tab },
	{ "canary_memcmp", e_canary_memcmp },
	{ "prim_NOT", e_prim_NOT }, { "prim_MUX", e_prim_MUX }, { "prim_EQ", e_prim_EQ },
	{ "prim_NEQ", e_prim_NEQ }, { "prim_GT", e_prim_GT }, { "prim_GE", e_prim_GE },
	{ "prim_LT", e_prim_LT }, { "prim_LE", e_prim_LE }, { "prim_CMP", e_prim_CMP },
	{ "prim_EQ0", e_prim_EQ0 }, { "prim_GT0", e_prim_GT0 }, { "prim_GE0", e_prim_GE0 },
	{ "prim_LT0", e_prim_LT0 }, { "prim_LE0", e_prim_LE0 }, { "prim_MIN", e_prim_MIN },
	{ "prim_MAX", e_prim_MAX }, { "prim_BIT_LENGTH", e_prim_BIT_LENGTH },
	{ "prim_divrem", e_prim_divrem }, { "prim_ccopy", e_prim_ccopy },
};

int
main(int argc, char **argv)
{
	size_t i;

	if (argc < 2) {
		for (i = 0; i < sizeof entries / sizeof entries[0]; i ++) printf("%s\n", entries[i].name);
		return 2;
	}
	P_entry = argv[1];
	P_impl = vf_arg(argc, argv, "--impl", "");
	P_curve = vf_arg(argc, argv, "--curve", "");
	P_hash = vf_arg(argc, argv, "--hash", "");
	P_var = vf_arg(argc, argv, "--var", "");
	P_size = (long)vf_argi(argc, argv, "--size", 0);
	P_seed = (long)vf_argi(argc, argv, "--seed", 1);
	g_taint = (int)vf_argi(argc, argv, "--taint", 1);
	vf_rng_init(&g_rng, (uint64_t)P_seed, vf_fnv(P_entry, strlen(P_entry), 0));
	for (i = 0; i < sizeof entries / sizeof entries[0]; i ++) {
		if (strcmp(entries[i].name, P_entry) == 0) {
			entries[i].fn();
			/* --nodigest 1: the differential (instruction-count) runs must not
			   execute value-dependent formatting code */
			if (vf_argi(argc, argv, "--nodigest", 0)) printf("DIGEST -\n");
			else printf("DIGEST %016llx\n", (unsigned long long)g_dig);
			if (!g_status_bad) printf("STATUS expected\n");
			printf("VALGRIND %d\n", (int)RUNNING_ON_VALGRIND);
			printf("OK\n");
			fflush(stdout);
			return 0;
		}
	}
	die("unknown entry");
	return 3;
}
