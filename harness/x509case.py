#!/usr/bin/env python3
"""C04 workload: generates abstract X.509 validation cases (valid base scenarios
plus ~90 mutation classes), asks the reference validator (x509ref.py) for the
expectation, encodes the certificates (x509gen.py) and writes the case file
read by harness/h_x509.c.  Used as a job wrapper:

  x509case.py --seed S --worker I --nworkers N --cases K --out FILE [--sweep-chain J] --run BIN ARGS...

writes FILE and then exec()s BIN ARGS.  Everything is a function of
(seed, worker, cases) only.
"""
import sys, os, copy, random, hashlib

HERE = os.path.dirname(os.path.abspath(__file__))
sys.path.insert(0, HERE)
import x509gen as G      # noqa: E402
import x509ref as R      # noqa: E402

WORDS = ['alpha', 'bravo', 'charlie', 'delta', 'echo', 'foxtrot', 'golf', 'hotel', 'india', 'juliet', 'kilo', 'lima',
         'mike', 'november', 'oscar', 'papa', 'quebec', 'romeo', 'sierra', 'tango', 'uniform', 'victor', 'whiskey',
         'xray', 'yankee', 'zulu', 'www', 'mail', 'api', 'srv-1', 'node7', 'a', 'x9']
TLDS = ['com', 'org', 'net', 'example', 'test', 'de', 'io']
UPN = '1.3.6.1.4.1.311.20.2.3'
ALL_HASHES = ['sha1', 'sha224', 'sha256', 'sha384', 'sha512']

KIND_POOL = [('rsa1024', 30), ('ec256', 24), ('rsa2048', 12), ('rsa1017', 10), ('ec384', 9), ('ec521', 4),
             ('rsa4096', 2)]
CHEAP_POOL = [('rsa1024', 40), ('ec256', 30), ('rsa2048', 15), ('rsa1017', 15)]
SWEEP_EC_POOL = [('ec256', 50), ('ec384', 25), ('rsa1024', 25)]


class Skip(Exception):
    """mutation not applicable to this base"""


def wchoice(rng, pool):
    tot = sum(w for _, w in pool)
    x = rng.random() * tot
    for v, w in pool:
        x -= w
        if x < 0:
            return v
    return pool[-1][0]


class Gen:
    def __init__(self, seed, worker):
        self.rng = random.Random('c04/%d/%d' % (seed, worker))
        self.uid = 0
        self.bases = []
        G.load_keys()

    # ------------------------------------------------------------ building blocks
    def n(self):
        self.uid += 1
        return self.uid

    def host(self, labels=None):
        r = self.rng
        k = labels or r.choice([2, 3, 3, 3, 4])
        ls = [r.choice(WORDS) for _ in range(k - 2)] + ['%s%d' % (r.choice(WORDS), self.n()), r.choice(TLDS)]
        return '.'.join(ls)

    def stype(self):
        return self.rng.choice(['utf8', 'utf8', 'printable', 'printable', 'teletex', 'ia5'])

    def ca_dn(self, what='CA'):
        r = self.rng
        i = self.n()
        dn = [(('C', 'printable', r.choice(['DE', 'FR', 'US', 'CA'])),)]
        if r.random() < 0.7:
            dn.append((('O', self.stype(), 'Verif Org %d' % i),))
        if r.random() < 0.15:
            dn.append((('OU', 'utf8', 'Unit'), ('CN', self.stype(), 'Verif %s %d' % (what, i))))
        else:
            dn.append((('CN', r.choice(['utf8', 'printable', 'bmp']) if r.random() < 0.3 else self.stype(), 'Verif %s %d' % (what, i)),))
        return tuple(dn)

    def ee_dn(self, cn):
        r = self.rng
        dn = []
        if r.random() < 0.5:
            dn.append((('C', 'printable', 'DE'),))
        if r.random() < 0.6:
            dn.append((('O', self.stype(), 'Server Org %d' % self.n()),))
        if cn is not None:
            dn.append((('CN', r.choice(['utf8', 'printable', 'utf8', 'ia5']), cn),))
        if not dn:
            dn.append((('O', 'utf8', 'Nameless %d' % self.n()),))
        return tuple(dn)

    def rand_time(self, y0, y1, form=None):
        r = self.rng
        Y = r.randint(y0, y1)
        M = r.randint(1, 12)
        D = r.randint(1, 28)
        if r.random() < 0.2:
            M, D = r.choice([(1, 1), (12, 31), (2, 28), (3, 1), (2, 29 if Y % 4 == 0 and (Y % 100 or Y % 400 == 0) else 28)])
        h, m, s = r.randint(0, 23), r.randint(0, 59), r.randint(0, 59)
        x = r.random()
        if x < 0.15:
            h, m, s = 0, 0, 0
        elif x < 0.3:
            h, m, s = 23, 59, 59
        if form is None:
            form = 'gen' if (Y >= 2050 or Y < 1950) else r.choice(['utc', 'utc', 'gen'])
        return (Y, M, D, h, m, s, form)

    def pick_key(self, kind, used):
        r = self.rng
        names = [k for k in G.keys_of(kind + '_') if k not in used]
        if not names:
            raise Skip()
        k = r.choice(names)
        used.add(k)
        return k

    def sig_for(self, signer, hname=None):
        k = G.KEYS[signer]
        if hname is None:
            hname = wchoice(self.rng, [('sha256', 50), ('sha1', 12), ('sha224', 8), ('sha384', 15), ('sha512', 15)])
        return dict(alg='rsa' if k['kind'] == 'rsa' else 'ecdsa', hash=hname, signer=signer, bad=None)

    def ca_exts(self, idx):
        r = self.rng
        ex = []
        if r.random() < 0.4:
            ex.append(dict(id='ski', critical=False, tag=self.n()))
        bc = dict(id='bc', critical=r.random() < 0.85, ca=True, pathlen=None)
        if r.random() < 0.4:
            bc['pathlen'] = (idx - 1) + r.choice([0, 0, 1, 2, 5, 200])
        ku = None
        if r.random() < 0.6:
            ku = dict(id='ku', critical=r.random() < 0.7, bits=['keyCertSign'] + r.sample(['cRLSign', 'digitalSignature'], r.randint(0, 2)))
        parts = [bc] + ([ku] if ku else [])
        r.shuffle(parts)
        ex += parts
        if r.random() < 0.3:
            ex.append(dict(id='aki', critical=False, tag=self.n()))
        if r.random() < 0.2:
            ex.append(dict(id=r.choice(['crldp', 'aia', 'policies']), critical=False, policies=[('2.5.29.32.0', [G.QT_CPS])]))
        return ex

    def ee_exts(self, host, with_san=True):
        r = self.rng
        ex = []
        if r.random() < 0.3:
            ex.append(dict(id='bc', critical=r.random() < 0.5, ca=False))
        if r.random() < 0.5:
            bits = r.choice([['digitalSignature', 'keyEncipherment'], ['digitalSignature'], ['keyEncipherment'],
                             ['keyAgreement'], ['digitalSignature', 'keyAgreement'], ['nonRepudiation', 'dataEncipherment']])
            ex.append(dict(id='ku', critical=r.random() < 0.6, bits=list(bits)))
        if r.random() < 0.4:
            ex.append(dict(id='eku', critical=False))
        if with_san:
            names = [('dns', host.encode())]
            if r.random() < 0.4:
                names.insert(r.randint(0, 1), ('dns', self.host().encode()))
            if r.random() < 0.25:
                names.insert(r.randint(0, len(names)), ('email', b'admin@' + host.encode()))
            if r.random() < 0.2:
                names.insert(r.randint(0, len(names)), ('uri', b'https://' + host.encode() + b'/'))
            if r.random() < 0.15:
                names.insert(r.randint(0, len(names)), ('ip', bytes([10, 0, 0, r.randint(1, 254)])))
            if r.random() < 0.15:
                names.insert(r.randint(0, len(names)), ('other', UPN, 'utf8', 'user%d@%s' % (self.n(), host)))
            if r.random() < 0.1:
                names.insert(r.randint(0, len(names)), ('dirname', self.ca_dn('Dir')))
            ex.append(dict(id='san', critical=r.random() < 0.2, names=names))
        if r.random() < 0.3:
            ex.append(dict(id=r.choice(['aki', 'ski', 'aia', 'crldp']), critical=False, tag=self.n()))
        r.shuffle(ex)
        return ex

    def base(self, L=None, kinds=None, pool=None):
        """valid scenario: chain of L certificates (EE first) under a root that is a CA trust anchor"""
        r = self.rng
        if L is None:
            L = r.choice([1, 2, 2, 3, 3, 3, 4, 4])
        pool = pool or KIND_POOL
        used = set()
        ks = []
        for j in range(L + 1):
            kd = kinds[j] if kinds and j < len(kinds) and kinds[j] else wchoice(r, pool)
            ks.append(self.pick_key(kd, used))
        host = self.host()
        with_san = r.random() < 0.75
        dns = [self.ee_dn(host if (not with_san or r.random() < 0.6) else 'Some Service %d' % self.n())]
        for j in range(1, L + 1):
            dns.append(self.ca_dn('Root' if j == L else 'CA'))
        chain = []
        for j in range(L):
            c = dict(version=3, serial=r.getrandbits(r.choice([8, 63, 64, 127, 159])) + 1,
                     issuer=dns[j + 1], subject=dns[j],
                     nb=self.rand_time(2001, 2029), na=self.rand_time(2037, 2075),
                     key=ks[j], spki=None, sig=self.sig_for(ks[j + 1]),
                     exts=self.ee_exts(host, with_san) if j == 0 else self.ca_exts(j), garbage=b'')
            chain.append(c)
        anchors = [dict(dn=dns[L], key=ks[L], ca=True)]
        for _ in range(r.choice([0, 0, 1, 2, 3])):
            anchors.insert(r.randint(0, len(anchors)),
                           dict(dn=self.ca_dn('Decoy'), key=r.choice(sorted(G.KEYS)), ca=r.random() < 0.7))
        hashes = set(ALL_HASHES)
        if r.random() < 0.3:
            hashes.add('md5')
        case = dict(chain=chain, anchors=anchors, server=host.encode(), time=self.rand_time(2030, 2036)[:6],
                    hashes=hashes, rsa=True, ec=True,
                    minrsa=128, minrsa_set=r.random() < 0.3,
                    dnh=wchoice(r, [(4, 50), (2, 15), (6, 12), (5, 8), (3, 8), (1, 7)]),
                    impl=r.choice([0, 0, 1, 2, 3]) + 4 * wchoice(r, [(0, 70), (1, 15), (2, 15)]),
                    tmode=r.randint(0, 1),
                    # bookkeeping for the mutations (not read by the reference)
                    _L=L, _keys=ks, _dns=dns, _host=host, _san=with_san)
        return case

    def get_base(self, need, maker=None):
        """a copy of a pooled base satisfying `need(base)`; new bases are made when none fits"""
        r = self.rng
        if maker is not None:
            for _ in range(20):
                try:
                    b = maker(self)
                except Skip:
                    continue
                if need(b):
                    return b
            raise Skip()
        cands = [b for b in self.bases if need(b)]
        if cands and (len(cands) >= 3 or r.random() < 0.7):
            return copy.deepcopy(r.choice(cands))
        for _ in range(60):
            try:
                b = self.base()
            except Skip:
                continue
            if need(b):
                if len(self.bases) < self.max_bases:
                    self.bases.append(b)
                else:
                    self.bases[r.randrange(len(self.bases))] = b
                return copy.deepcopy(b)
        raise Skip()


# ---------------------------------------------------------------- mutation classes
# each: (label, need(base) -> bool, mutate(g, case) -> None, may raise Skip)

CLASSES = []


def cls(label, need=lambda b: True, weight=1, maker=None):
    def deco(f):
        CLASSES.append((label, need, f, weight, maker))
        return f
    return deco


def L_ge(n):
    return lambda b: b['_L'] >= n


def kind_at(case, j):
    return G.KEYS[case['_keys'][j]]['kind']


def add_secs(t, d):
    import datetime
    x = datetime.datetime(*t[:6]) + datetime.timedelta(seconds=d)
    form = t[6] if len(t) > 6 else None
    out = (x.year, x.month, x.day, x.hour, x.minute, x.second)
    return out + ((form,) if form else ())


def form_for(g, Y):
    return 'gen' if (Y >= 2050 or Y < 1950) else g.rng.choice(['utc', 'gen'])


@cls('valid', weight=6)
def m_valid(g, c):
    pass


def _time_bound(which, delta):
    def f(g, c):
        r = g.rng
        i = r.randrange(c['_L'])
        T = g.rand_time(2030, 2036)
        c['chain'][i][which] = T[:6] + (form_for(g, T[0]),)
        c['time'] = add_secs(T[:6], delta)
    return f


cls('time-at-notbefore', weight=2)(_time_bound('nb', 0))
cls('time-before-notbefore', weight=2)(_time_bound('nb', -1))
cls('time-at-notafter', weight=2)(_time_bound('na', 0))
cls('time-after-notafter', weight=2)(_time_bound('na', 1))


@cls('time-pivot-utctime', weight=2)
def m_pivot(g, c):
    for x in c['chain']:
        x['nb'] = (1950, 1, 1, 0, 0, 0, 'utc')
        x['na'] = (2049, 12, 31, 23, 59, 59, 'utc')
    c['time'] = g.rng.choice([(2049, 12, 31, 23, 59, 59), (2050, 1, 1, 0, 0, 0), (1950, 1, 1, 0, 0, 0),
                              (1949, 12, 31, 23, 59, 59), (2000, 2, 29, 12, 0, 0), (1999, 12, 31, 23, 59, 59)])


@cls('time-generalized-2050')
def m_gen2050(g, c):
    i = g.rng.randrange(c['_L'])
    c['chain'][i]['na'] = (2050, 1, 1, 0, 0, 0, 'gen')
    c['time'] = g.rng.choice([(2050, 1, 1, 0, 0, 0), (2050, 1, 1, 0, 0, 1), (2049, 12, 31, 23, 59, 59)])
    for x in c['chain']:
        if x is not c['chain'][i]:
            x['na'] = g.rand_time(2051, 2080)


@cls('time-far-off')
def m_far(g, c):
    c['time'] = g.rng.choice([g.rand_time(1960, 2000)[:6], g.rand_time(2080, 2200)[:6], g.rand_time(1601, 1949)[:6]])


@cls('time-leap-years')
def m_leap(g, c):
    r = g.rng
    i = r.randrange(c['_L'])
    Y = r.choice([2096, 2100, 2104, 2400, 2200])
    leap = Y % 4 == 0 and (Y % 100 != 0 or Y % 400 == 0)
    T = r.choice([(Y, 2, 28, 23, 59, 59), (Y, 3, 1, 0, 0, 0), (Y, 12, 31, 23, 59, 59)] + ([(Y, 2, 29, 0, 0, 0)] if leap else []))
    for x in c['chain']:
        x['na'] = (Y + 5, 6, 1, 0, 0, 0, 'gen')
    c['chain'][i]['na'] = T + ('gen',)
    c['time'] = add_secs(T, r.choice([0, 1, -1, 86400]))


def _ca_index(g, c, lo=1):
    if c['_L'] <= lo:
        raise Skip()
    return g.rng.randrange(lo, c['_L'])


def _ext_idx(cert, eid):
    for k, e in enumerate(cert['exts']):
        if e['id'] == eid:
            return k
    return None


@cls('bc-missing', L_ge(2), 2)
def m_bc_missing(g, c):
    x = c['chain'][_ca_index(g, c)]
    x['exts'] = [e for e in x['exts'] if e['id'] != 'bc']


@cls('bc-ca-false', L_ge(2), 2)
def m_bc_false(g, c):
    x = c['chain'][_ca_index(g, c)]
    e = x['exts'][_ext_idx(x, 'bc')]
    e['ca'] = False
    v = g.rng.randrange(3)
    e['explicit_false'] = v == 1
    if v != 2:
        e['pathlen'] = None


@cls('ca-is-v1-cert', L_ge(2))
def m_ca_v1(g, c):
    x = c['chain'][_ca_index(g, c)]
    x['version'] = 1
    x['exts'] = []


@cls('pathlen-too-small', L_ge(3), 3)
def m_pl_small(g, c):
    i = _ca_index(g, c, 2)
    x = c['chain'][i]
    x['exts'][_ext_idx(x, 'bc')]['pathlen'] = g.rng.randint(0, i - 2)


@cls('pathlen-exact', L_ge(2), 3)
def m_pl_exact(g, c):
    i = _ca_index(g, c)
    x = c['chain'][i]
    x['exts'][_ext_idx(x, 'bc')]['pathlen'] = i - 1


@cls('pathlen-all-tight', L_ge(2))
def m_pl_all(g, c):
    for i in range(1, c['_L']):
        x = c['chain'][i]
        x['exts'][_ext_idx(x, 'bc')]['pathlen'] = i - 1


@cls('ca-ku-without-certsign', L_ge(2), 2)
def m_ku_nocs(g, c):
    x = c['chain'][_ca_index(g, c)]
    x['exts'] = [e for e in x['exts'] if e['id'] != 'ku']
    x['exts'].insert(g.rng.randint(0, len(x['exts'])),
                     dict(id='ku', critical=g.rng.random() < 0.5, bits=g.rng.choice([['cRLSign'], ['digitalSignature', 'cRLSign'], ['digitalSignature'], ['encipherOnly', 'decipherOnly']])))


@cls('ca-ku-certsign-only', L_ge(2))
def m_ku_cs(g, c):
    x = c['chain'][_ca_index(g, c)]
    x['exts'] = [e for e in x['exts'] if e['id'] != 'ku']
    x['exts'].append(dict(id='ku', critical=True, bits=g.rng.choice([['keyCertSign'], ['keyCertSign', 'decipherOnly']])))


def _add_ext(g, c, e, idx=None):
    i = g.rng.randrange(c['_L']) if idx is None else idx
    x = c['chain'][i]
    if x['version'] != 3:
        raise Skip()
    x['exts'].insert(g.rng.randint(0, len(x['exts'])), e)
    return i


@cls('ext-critical-unknown', weight=3)
def m_crit_unknown(g, c):
    _add_ext(g, c, dict(id='other', oid='1.3.6.1.4.1.99999.%d' % g.rng.randint(1, 9), critical=True, value=G.octets(b'x')))


@cls('ext-noncritical-unknown')
def m_ncrit_unknown(g, c):
    _add_ext(g, c, dict(id='other', oid='1.3.6.1.4.1.99999.%d' % g.rng.randint(1, 9), critical=False, value=G.octets(b'x')))


def _neighbour_oid(g, base):
    """an OID that is not `base` but shares a prefix with it: one more arc, one arc less, or a last arc whose
    encoding extends the original one"""
    arcs = base.split('.')
    v = g.rng.randrange(4)
    if v == 0:
        return base + '.%d' % g.rng.choice([0, 1, 2, 127, 128])
    if v == 1:
        return base + '.%d.%d' % (g.rng.randrange(3), g.rng.randrange(3))
    if v == 2 and len(arcs) > 3:
        return '.'.join(arcs[:-1])
    return '.'.join(arcs[:-1] + [str(int(arcs[-1]) + 128)])


@cls('ext-critical-oid-neighbour-of-known', weight=4)
def m_crit_neighbour(g, c):
    # content is what the recognised extension would carry, so that a validator that confuses the OIDs accepts it
    eid = g.rng.choice(sorted(G.EXT_OID))
    tmpl = dict(id=eid, tag=g.n())
    if eid == 'bc':
        tmpl.update(ca=True, pathlen=None)
    elif eid == 'ku':
        tmpl.update(bits=['digitalSignature', 'keyEncipherment', 'keyCertSign'])
    elif eid in ('san', 'ian'):
        tmpl.update(names=[('dns', g.host().encode())])
    elif eid == 'policies':
        tmpl.update(policies=[('2.5.29.32.0', [])])
    _add_ext(g, c, dict(id='other', oid=_neighbour_oid(g, G.EXT_OID[eid]), critical=True, value=G.der_ext_value(tmpl)))


@cls('ca-basic-constraints-under-neighbour-oid', L_ge(2), 3)
def m_bc_neighbour(g, c):
    x = c['chain'][_ca_index(g, c)]
    if x['version'] != 3:
        raise Skip()
    x['exts'] = [e for e in x['exts'] if e['id'] != 'bc']
    x['exts'].insert(g.rng.randint(0, len(x['exts'])),
                     dict(id='other', oid=_neighbour_oid(g, G.EXT_OID['bc']), critical=False,
                          value=G.der_ext_value(dict(id='bc', ca=True, pathlen=None))))


@cls('name-san-under-neighbour-oid', weight=2)
def m_san_neighbour(g, c):
    h = _h(g)
    _set_names(c, [('utf8', g.host())], False, h.encode())
    ee = c['chain'][0]
    if ee['version'] != 3:
        raise Skip()
    ee['exts'].append(dict(id='other', oid=_neighbour_oid(g, G.EXT_OID['san']), critical=False,
                           value=G.der_ext_value(dict(id='san', names=[('dns', h.encode())]))))


@cls('name-cn-under-neighbour-oid', weight=2)
def m_cn_neighbour(g, c):
    h = _h(g)
    _set_names(c, [], False, h.encode())
    ee = c['chain'][0]
    ee['subject'] = tuple(list(ee['subject']) + [((g.rng.choice(['CNX', 'CNP', 'CNH']), 'utf8', h),)])
    c['_dns'][0] = ee['subject']


@cls('ext-critical-but-ignored', weight=2)
def m_crit_ignored(g, c):
    eid = g.rng.choice(sorted(R.IGNORED_EXTS))
    i = g.rng.randrange(c['_L'])
    x = c['chain'][i]
    x['exts'] = [e for e in x['exts'] if e['id'] != eid]
    e = dict(id=eid, critical=True, tag=g.n())
    if eid == 'ian':
        e['names'] = [('dns', b'issuer.example')]
    x['exts'].insert(g.rng.randint(0, len(x['exts'])), e)


@cls('ext-critical-unsupported', weight=2)
def m_crit_unsupported(g, c):
    eid = g.rng.choice(['nc', 'pc', 'eku', 'iap', 'pm', 'nscert'])
    i = g.rng.randrange(c['_L'])
    x = c['chain'][i]
    x['exts'] = [e for e in x['exts'] if e['id'] != eid]
    x['exts'].insert(g.rng.randint(0, len(x['exts'])), dict(id=eid, critical=True))


@cls('ext-noncritical-unsupported')
def m_ncrit_unsupported(g, c):
    eid = g.rng.choice(['nc', 'pc', 'iap', 'pm', 'nscert'])
    _add_ext(g, c, dict(id=eid, critical=False))


def _policies(label, critical, quals, weight=1):
    @cls(label, weight=weight)
    def f(g, c):
        i = g.rng.randrange(c['_L'])
        x = c['chain'][i]
        x['exts'] = [e for e in x['exts'] if e['id'] != 'policies']
        pol = [('2.23.140.1.2.%d' % g.rng.randint(1, 3), list(quals))]
        if g.rng.random() < 0.5:
            pol.insert(g.rng.randint(0, 1), ('2.5.29.32.0', [G.QT_CPS] if g.rng.random() < 0.5 else []))
        x['exts'].insert(g.rng.randint(0, len(x['exts'])), dict(id='policies', critical=critical, policies=pol))
    return f


_policies('policies-critical-cps', True, [G.QT_CPS])
_policies('policies-critical-no-qualifier', True, [])
_policies('policies-critical-unotice', True, [G.QT_UNOTICE], 2)
_policies('policies-critical-cps-and-unotice', True, [G.QT_CPS, G.QT_UNOTICE])
_policies('policies-noncritical-unotice', False, [G.QT_UNOTICE])


def _other_dn(g, dn):
    """a DN that differs from dn: new name, re-encoded string type, case change, extra space"""
    r = g.rng
    v = r.randrange(4)
    if v == 0:
        return g.ca_dn('Other'), 'new'
    dn = [list(rdn) for rdn in dn]
    a, b = len(dn) - 1, len(dn[-1]) - 1
    attr, st, val = dn[a][b]
    if v == 1:
        st2 = {'utf8': 'printable', 'printable': 'utf8', 'teletex': 'utf8', 'ia5': 'utf8', 'bmp': 'utf8'}[st]
        dn[a][b] = (attr, st2, val)
    elif v == 2:
        dn[a][b] = (attr, st, val.swapcase())
    else:
        dn[a][b] = (attr, st, val + ' ')
    return tuple(tuple(rdn) for rdn in dn), 'variant'


@cls('issuer-dn-wrong', weight=3)
def m_issuer_wrong(g, c):
    i = g.rng.randrange(c['_L'])
    c['chain'][i]['issuer'], _ = _other_dn(g, c['chain'][i]['issuer'])


@cls('subject-dn-wrong', L_ge(2), 2)
def m_subject_wrong(g, c):
    i = _ca_index(g, c)
    c['chain'][i]['subject'], _ = _other_dn(g, c['chain'][i]['subject'])


@cls('anchor-dn-variant')
def m_anchor_dn(g, c):
    for a in c['anchors']:
        if a['ca'] and a['dn'] == c['_dns'][c['_L']]:
            while True:
                d, how = _other_dn(g, a['dn'])
                if how == 'variant':
                    break
            a['dn'] = d


@cls('sig-corrupted', weight=3)
def m_sig_flip(g, c):
    c['chain'][g.rng.randrange(c['_L'])]['sig']['bad'] = 'flip'


@cls('sig-by-other-key', weight=3)
def m_sig_other(g, c):
    i = g.rng.randrange(c['_L'])
    s = c['chain'][i]['sig']
    k = G.KEYS[s['signer']]
    pref = s['signer'].split('_')[0] + '_'
    others = [n for n in G.keys_of(pref) if n != s['signer']]
    if not others:
        raise Skip()
    s['signer'] = g.rng.choice(others)


@cls('sig-over-other-digest', weight=3)
def m_sig_hashtail(g, c):
    idx = [i for i in range(c['_L']) if c['chain'][i]['sig']['alg'] == 'rsa']
    if not idx:
        raise Skip()
    c['chain'][g.rng.choice(idx)]['sig']['bad'] = g.rng.choice(['hashtail', 'hashtail', 'hashhead'])


@cls('sig-md5', weight=2)
def m_sig_md5(g, c):
    idx = [i for i in range(c['_L']) if c['chain'][i]['sig']['alg'] == 'rsa']
    if not idx:
        raise Skip()
    c['chain'][g.rng.choice(idx)]['sig']['hash'] = 'md5'
    if g.rng.random() < 0.7:
        c['hashes'].add('md5')


@cls('hash-disabled', weight=3)
def m_hash_disabled(g, c):
    i = g.rng.randrange(c['_L'])
    h = c['chain'][i]['sig']['hash']
    c['hashes'].discard(h)
    if g.rng.random() < 0.3:
        c['hashes'] = set(x for x in c['hashes'] if g.rng.random() < 0.5)
        c['hashes'].discard(h)


@cls('hash-only-needed-enabled')
def m_hash_needed(g, c):
    c['hashes'] = set(x['sig']['hash'] for x in c['chain'])


@cls('rsa-disabled', weight=2)
def m_rsa_off(g, c):
    c['rsa'] = False


@cls('ecdsa-disabled', weight=2)
def m_ec_off(g, c):
    c['ec'] = False


@cls('sig-alg-vs-issuer-key-type', weight=2)
def m_keytype(g, c):
    i = g.rng.randrange(c['_L'])
    s = c['chain'][i]['sig']
    s['alg'] = 'ecdsa' if s['alg'] == 'rsa' else 'rsa'
    s['bad'] = 'garbage'


def _ec_idx(c, lo):
    return [i for i in range(lo, c['_L']) if kind_at(c, i) == 'ec']


@cls('curve-unsupported', lambda b: any(kind_at(b, i) == 'ec' for i in range(b['_L'])), 2)
def m_curve_unsup(g, c):
    i = g.rng.choice(_ec_idx(c, 0))
    c['chain'][i]['spki'] = dict(curve_oid=g.rng.choice(['1.3.132.0.10', '1.3.36.3.3.2.8.1.1.7', '1.3.132.0.33']))


@cls('curve-mislabeled', lambda b: any(kind_at(b, i) == 'ec' for i in range(1, b['_L'])), 2)
def m_curve_mis(g, c):
    i = g.rng.choice(_ec_idx(c, 1))
    cur = G.KEYS[c['_keys'][i]]['curve']
    c['chain'][i]['spki'] = dict(curve_label=g.rng.choice([x for x in ('p256', 'p384', 'p521') if x != cur]))


def _rsa_idx(c):
    return [i for i in range(c['_L']) if kind_at(c, i) == 'rsa']


@cls('rsa-below-configured-minimum', lambda b: bool(_rsa_idx(b)), 3)
def m_rsa_below(g, c):
    i = g.rng.choice(_rsa_idx(c))
    nb = G.KEYS[c['_keys'][i]]['nbytes']
    c['minrsa'] = nb + g.rng.choice([1, 1, 2, 64, 200])
    c['minrsa_set'] = True


@cls('rsa-at-configured-minimum', lambda b: bool(_rsa_idx(b)), 3)
def m_rsa_at(g, c):
    c['minrsa'] = min(G.KEYS[c['_keys'][i]]['nbytes'] for i in _rsa_idx(c))
    c['minrsa_set'] = True


def _base_with(kind, lo=0, root=False):
    def mk(g):
        L = g.rng.choice([1, 2, 3, 3, 4])
        kinds = [None] * (L + 1)
        kinds[L if root else g.rng.randrange(min(lo, L - 1), L)] = kind
        return g.base(L=L, kinds=kinds)
    return mk


def _has(kind, root=False):
    return lambda b: any(b['_keys'][i].startswith(kind) for i in ([b['_L']] if root else range(b['_L'])))


@cls('rsa-1016-default-minimum', _has('rsa1016'), 3, _base_with('rsa1016'))
def m_rsa1016(g, c):
    c['minrsa'] = 128
    c['minrsa_set'] = g.rng.random() < 0.5


@cls('rsa-1016-anchor-key', _has('rsa1016', True), 2, _base_with('rsa1016', root=True))
def m_rsa1016_anchor(g, c):
    pass


def _mk_above_limits(g):
    L = g.rng.choice([1, 2, 2, 3])
    kinds = [None] * (L + 1)
    kinds[g.rng.randrange(0, L + 1)] = g.rng.choice(['rsa4104', 'rsa4160', 'rsa4096'])
    return g.base(L=L, kinds=kinds)


# RSA keys at and beyond the documented limits, as leaf key, CA key or anchor key: 4096 bits (512-byte signatures: the
# limit, must work), 4104 bits (the key still fits, its signatures do not), 4160 bits (the key does not fit)
@cls('rsa-at-and-above-limits', lambda b: any(b['_keys'][i].startswith(('rsa4104', 'rsa4160', 'rsa4096')) for i in range(b['_L'] + 1)), 2, _mk_above_limits)
def m_rsa_limits(g, c):
    pass


def _mk_below128(g):
    if g.rng.random() < 0.5:
        return _base_with('rsa1016')(g)
    return g.base(kinds=['rsa1024'] if g.rng.random() < 0.5 else None)


# the configured minimum is below 128 bytes: every RSA key that is not shorter must pass
@cls('rsa-minimum-below-128', lambda b: bool(_rsa_idx(b)), 3, _mk_below128)
def m_rsa_min_small(g, c):
    lim = min(G.KEYS[c['_keys'][i]]['nbytes'] for i in _rsa_idx(c))
    c['minrsa'] = g.rng.choice([x for x in (127, 126, 100, 64, 1, 0) if x <= lim])
    c['minrsa_set'] = True


@cls('rsa-1017-default-minimum', lambda b: any(b['_keys'][i].startswith('rsa1017') for i in range(b['_L'])) and
     not any(b['_keys'][i].startswith('rsa1016') for i in range(b['_L'])), 2)
def m_rsa1017(g, c):
    c['minrsa'] = 128
    c['minrsa_set'] = g.rng.random() < 0.5


@cls('anchor-key-below-minimum', lambda b: G.KEYS[b['_keys'][b['_L']]]['kind'] == 'rsa')
def m_anchor_small(g, c):
    nb = G.KEYS[c['_keys'][c['_L']]]['nbytes']
    lim = min([G.KEYS[c['_keys'][i]]['nbytes'] for i in _rsa_idx(c)] or [512])
    if lim <= nb:
        raise Skip()
    c['minrsa'] = g.rng.randint(nb + 1, lim)
    c['minrsa_set'] = True


@cls('trailing-garbage', weight=3)
def m_garbage(g, c):
    c['chain'][g.rng.randrange(c['_L'])]['garbage'] = bytes(g.rng.getrandbits(8) for _ in range(g.rng.choice([1, 1, 2, 8])))


def _root_anchor(c):
    for a in c['anchors']:
        if a['ca'] and a['dn'] == c['_dns'][c['_L']] and a['key'] == c['_keys'][c['_L']]:
            return a
    raise Skip()


@cls('anchor-not-ca-flag', weight=3)
def m_anchor_kind(g, c):
    _root_anchor(c)['ca'] = False


@cls('anchor-missing', weight=2)
def m_anchor_missing(g, c):
    a = _root_anchor(c)
    c['anchors'] = [x for x in c['anchors'] if x is not a]
    if g.rng.random() < 0.3:
        c['anchors'] = []


@cls('anchor-wrong-key', weight=2)
def m_anchor_key(g, c):
    a = _root_anchor(c)
    a['key'] = g.rng.choice([k for k in sorted(G.KEYS) if k != a['key']])


@cls('anchors-same-name-one-right', weight=3)
def m_anchor_multi(g, c):
    a = _root_anchor(c)
    for _ in range(g.rng.randint(1, 4)):
        c['anchors'].insert(g.rng.randint(0, len(c['anchors'])),
                            dict(dn=a['dn'], key=g.rng.choice([k for k in sorted(G.KEYS) if k != a['key']]), ca=g.rng.random() < 0.8))


@cls('anchors-same-name-none-right', weight=2)
def m_anchor_multi_none(g, c):
    m_anchor_multi(g, c)
    a = _root_anchor(c)
    c['anchors'] = [x for x in c['anchors'] if x is not a]


@cls('anchor-mid-chain', L_ge(2), 3)
def m_anchor_mid(g, c):
    r = g.rng
    j = r.randint(1, c['_L'] - 1)
    if r.random() < 0.5:
        a = _root_anchor(c)
        c['anchors'] = [x for x in c['anchors'] if x is not a]
    c['anchors'].insert(r.randint(0, len(c['anchors'])), dict(dn=c['_dns'][j], key=c['_keys'][j], ca=True))
    # whatever follows the certificate issued by the anchor is documented to be ignored
    v = r.randrange(5)
    x = c['chain'][r.randint(j, c['_L'] - 1)]
    if v == 0:
        x['na'] = (2005, 1, 1, 0, 0, 0, 'utc')
    elif v == 1:
        x['sig']['bad'] = 'flip'
    elif v == 2:
        x['exts'] = [e for e in x['exts'] if e['id'] != 'bc']
    elif v == 3:
        x['exts'].append(dict(id='other', oid='1.3.6.1.4.1.99999.7', critical=True, value=G.octets(b'x')))


@cls('root-certificate-included', weight=2)
def m_root_included(g, c):
    r = g.rng
    L = c['_L']
    root = dict(version=3, serial=r.getrandbits(64) + 1, issuer=c['_dns'][L], subject=c['_dns'][L],
                nb=g.rand_time(2001, 2029), na=g.rand_time(2037, 2075), key=c['_keys'][L], spki=None,
                sig=g.sig_for(c['_keys'][L]), exts=g.ca_exts(L), garbage=b'')
    v = r.randrange(4)
    if v == 0:
        root['na'] = (2010, 1, 1, 0, 0, 0, 'utc')       # ignored: trust is established before
    elif v == 1:
        root['sig']['bad'] = 'flip'
    c['chain'].append(root)


def _ee_direct(c):
    return dict(dn=c['_dns'][0], key=c['_keys'][0], ca=False)


@cls('direct-trust', weight=4)
def m_direct(g, c):
    r = g.rng
    c['anchors'].insert(r.randint(0, len(c['anchors'])), _ee_direct(c))
    if r.random() < 0.6:
        a = _root_anchor(c)
        c['anchors'] = [x for x in c['anchors'] if x is not a]
    if c['_L'] >= 2:
        x = c['chain'][r.randint(1, c['_L'] - 1)]
        v = r.randrange(4)
        if v == 0:
            x['na'] = (2005, 1, 1, 0, 0, 0, 'utc')
        elif v == 1:
            x['sig']['bad'] = 'flip'
        elif v == 2:
            x['subject'] = g.ca_dn('Unrelated')
    if r.random() < 0.2:
        c['chain'] = c['chain'][:1]


@cls('direct-trust-unsupported-signature')
def m_direct_md5(g, c):
    r = g.rng
    c['anchors'] = [_ee_direct(c)] + [a for a in c['anchors'] if a['dn'] != c['_dns'][c['_L']]]
    s = c['chain'][0]['sig']
    if s['alg'] == 'rsa' and r.random() < 0.5:
        s['hash'] = 'md5'
    else:
        c['hashes'].discard(s['hash'])


@cls('direct-trust-wrong-key', weight=2)
def m_direct_wrongkey(g, c):
    r = g.rng
    a = _ee_direct(c)
    pref = a['key'].split('_')[0] + '_'
    others = [k for k in G.keys_of(pref) if k != a['key']] or [k for k in sorted(G.KEYS) if k != a['key']]
    a['key'] = r.choice(others)
    c['anchors'].insert(r.randint(0, len(c['anchors'])), a)
    if r.random() < 0.6:
        ra = _root_anchor(c)
        c['anchors'] = [x for x in c['anchors'] if x is not ra]


@cls('direct-trust-wrong-name', weight=2)
def m_direct_wrongdn(g, c):
    r = g.rng
    a = _ee_direct(c)
    a['dn'], _ = _other_dn(g, a['dn'])
    c['anchors'] = [a] + [x for x in c['anchors'] if x['dn'] != c['_dns'][c['_L']]]


@cls('direct-trust-server-name-mismatch', weight=2)
def m_direct_name(g, c):
    c['anchors'].insert(0, _ee_direct(c))
    c['server'] = g.host().encode()


@cls('direct-trust-anchor-has-ca-flag', weight=2)
def m_direct_caflag(g, c):
    a = _ee_direct(c)
    a['ca'] = True
    c['anchors'] = [a] + [x for x in c['anchors'] if x['dn'] != c['_dns'][c['_L']]]


@cls('direct-trust-expired-leaf')
def m_direct_expired(g, c):
    c['anchors'].insert(0, _ee_direct(c))
    c['chain'][0]['na'] = (2020, 1, 1, 0, 0, 0, 'utc')


@cls('self-signed-leaf', weight=2)
def m_selfsigned(g, c):
    r = g.rng
    ee = c['chain'][0]
    ee['issuer'] = ee['subject']
    ee['sig'] = g.sig_for(ee['key'])
    c['chain'] = [ee]
    v = r.randrange(3)
    c['anchors'] = [a for a in c['anchors'] if a['dn'] != c['_dns'][c['_L']]]
    if v == 0:
        c['anchors'].append(dict(dn=ee['subject'], key=ee['key'], ca=True))
    elif v == 1:
        c['anchors'].append(dict(dn=ee['subject'], key=ee['key'], ca=False))
    c['_L'] = 1


# ---- names

def _set_names(c, cn, san, server):
    """cn: None (keep) / list of (stype, value) / [] (remove all CN); san: None (keep) / list of names / False (remove)"""
    ee = c['chain'][0]
    if cn is not None:
        dn = [tuple(atv for atv in rdn if atv[0] != 'CN') for rdn in ee['subject']]
        dn = [rdn for rdn in dn if rdn]
        for (st, v) in cn:
            dn.append((('CN', st, v),))
        if not dn:
            dn = [(('O', 'utf8', 'No CN'),)]
        ee['subject'] = tuple(dn)
    if san is not None:
        ee['exts'] = [e for e in ee['exts'] if e['id'] != 'san']
        if san is not False:
            ee['exts'].append(dict(id='san', critical=False, names=list(san)))
    c['server'] = server
    c['_dns'][0] = ee['subject']


def _name_class(label, fn, weight=1):
    @cls(label, weight=weight)
    def f(g, c):
        r = g.rng
        cert_name, server = fn(g)
        if isinstance(cert_name, str):
            cert_name = cert_name.encode()
        if isinstance(server, str):
            server = server.encode()
        other = g.host().encode()
        v = r.randrange(3)
        try:
            cn_val = cert_name.decode('utf-8')
            cn_st = 'utf8'
        except UnicodeDecodeError:
            cn_val, cn_st = cert_name, 'utf8'
        if v == 0:      # CN only
            _set_names(c, [(cn_st, cn_val)], False, server)
        elif v == 1:    # SAN only, CN is something else
            names = [('dns', cert_name)]
            if r.random() < 0.5:
                names.insert(r.randint(0, 1), ('dns', other))
            _set_names(c, [('utf8', 'Service %d' % g.n())], names, server)
        else:           # both
            _set_names(c, [(cn_st, cn_val)], [('email', b'x@' + other), ('dns', cert_name)], server)
    return f


def _h(g):
    return g.host(g.rng.choice([3, 3, 4]))


def _mix_case(g, s):
    return ''.join(ch.upper() if g.rng.random() < 0.5 else ch.lower() for ch in s)


def _n_exact(g):
    h = _h(g)
    return h, h


def _n_case(g):
    h = _h(g)
    return _mix_case(g, h), _mix_case(g, h)


def _n_wild_ok(g):
    h = _h(g)
    return _mix_case(g, '*.' + h.split('.', 1)[1]), h


def _n_wild_deep(g):
    h = _h(g)
    return '*.' + h.split('.', 1)[1], g.rng.choice(WORDS) + '.' + h


def _n_wild_parent(g):
    h = _h(g)
    return '*.' + h, h


def _n_wild_dotless(g):
    w = g.rng.choice(WORDS)
    return g.rng.choice(['*.' + w, '*', '*.']), w


def _n_wild_middle(g):
    h = _h(g).split('.')
    return '.'.join([h[0], '*'] + h[2:]), '.'.join(h)


def _n_wild_partial(g):
    h = _h(g)
    first, rest = h.split('.', 1)
    return g.rng.choice([first[0] + '*.' + rest, '*' + first[-1] + '.' + rest, first + '*.' + rest, '**.' + rest,
                         '*' + g.rng.choice('abx-') + rest, '*' + g.rng.choice('abx-') + rest]), h


def _n_wild_literal(g):
    h = '*.' + _h(g).split('.', 1)[1]
    return h, _mix_case(g, h)


def _n_nul(g):
    h = _h(g)
    return g.rng.choice([h.encode() + b'\0.' + g.host().encode(), h.encode() + b'\0', b'\0' + h.encode()]), h


def _n_utf8_ok(g):
    h = g.rng.choice(['café', 'bücher', '例え', 'naïve']) + '%d.example.org' % g.n()
    return h.encode('utf-8'), h.encode('utf-8')


def _n_utf8_case(g):
    n = g.n()
    return ('café%d.example.org' % n).encode('utf-8'), ('cafÉ%d.example.org' % n).encode('utf-8')


def _n_puny(g):
    h = 'xn--bcher-kva%d.Example' % g.n()
    return h, h.lower()


def _n_prefix(g):
    h = _h(g)
    return h, g.rng.choice([h + '.evil.org', 'x' + h, h[1:], h + 'x', h[:-1]])


def _n_trailing_dot(g):
    h = _h(g)
    return g.rng.choice([(h, h + '.'), (h + '.', h)])


def _n_other(g):
    return _h(g), _h(g)


@cls('name-short-after-longer', weight=2)
def _c_name_short_after_longer(g, c):
    """A short SAN entry ("*", "*.", one letter) right after a longer one: whatever the longer one left in the
    validator's name buffer is not part of the short name.  The expected name has no dot (a bare host name)."""
    r = g.rng
    w = r.choice(WORDS)
    h = g.host()
    first = r.choice(['*.' + h, '*.' + w, w[0] + '.' + h, '*.' + w + '.' + h])
    second = r.choice(['*', '*', 'x', '*.'])
    server = r.choice([w, w, w + 'x', h.split('.')[0]])
    names = [(r.choice(['dns', 'dns', 'email']), first.encode()), ('dns', second.encode())]
    if r.random() < 0.3:
        names.append(('dns', g.host().encode()))
    _set_names(c, [('utf8', 'Service %d' % g.n())], names, server.encode())


_name_class('name-exact', _n_exact, 2)
_name_class('name-case-insensitive', _n_case, 3)
_name_class('name-wildcard-leftmost', _n_wild_ok, 3)
_name_class('name-wildcard-two-labels', _n_wild_deep, 2)
_name_class('name-wildcard-vs-parent', _n_wild_parent)
_name_class('name-wildcard-dotless', _n_wild_dotless, 2)
_name_class('name-wildcard-middle-label', _n_wild_middle, 2)
_name_class('name-wildcard-partial-label', _n_wild_partial, 2)
_name_class('name-wildcard-literal', _n_wild_literal)
_name_class('name-embedded-nul', _n_nul, 2)
_name_class('name-utf8-same-bytes', _n_utf8_ok)
_name_class('name-utf8-other-case', _n_utf8_case)
_name_class('name-punycode', _n_puny)
_name_class('name-prefix-or-suffix', _n_prefix, 2)
_name_class('name-trailing-dot', _n_trailing_dot)
_name_class('name-different', _n_other, 2)


@cls('name-cn-matches-san-does-not', weight=2)
def m_cn_not_san(g, c):
    h = _h(g)
    _set_names(c, [('utf8', h)], [('dns', g.host().encode()), ('dns', ('x' + h).encode())], h.encode())


@cls('name-san-matches-cn-does-not', weight=2)
def m_san_not_cn(g, c):
    h = _h(g)
    names = [('dns', g.host().encode()), ('dns', h.encode()), ('dns', g.host().encode())]
    g.rng.shuffle(names)
    _set_names(c, [('utf8', g.host())], names, _mix_case(g, h).encode())


@cls('name-san-without-dnsname-cn-matches')
def m_san_nodns_cn(g, c):
    h = _h(g)
    _set_names(c, [('utf8', h)], [('email', b'a@' + h.encode()), ('ip', b'\x0a\x00\x00\x01')], h.encode())


@cls('name-san-without-dnsname-cn-differs')
def m_san_nodns(g, c):
    h = _h(g)
    _set_names(c, [('utf8', g.host())], [('email', b'a@' + h.encode()), ('uri', b'https://' + h.encode())], h.encode())


@cls('name-no-server-name', weight=2)
def m_no_server(g, c):
    r = g.rng
    if r.random() < 0.5:
        _set_names(c, [('utf8', g.host())], [('dns', g.host().encode())] if r.random() < 0.5 else False, None)
    c['server'] = r.choice([None, b''])


@cls('name-absent-from-certificate', weight=2)
def m_no_names(g, c):
    _set_names(c, [], False if g.rng.random() < 0.5 else [('email', b'a@b.example')], c['server'])


@cls('name-cn-string-types', weight=2)
def m_cn_types(g, c):
    h = _h(g)
    st = g.rng.choice(['bmp', 'teletex', 'printable', 'ia5', 'universal', 'numeric'])
    _set_names(c, [(st, h if st != 'numeric' else '12345')], False, (h if st != 'numeric' else '12345').encode())


@cls('name-several-cn')
def m_several_cn(g, c):
    h = _h(g)
    cns = [('utf8', h), ('utf8', g.host())]
    if g.rng.random() < 0.3:
        cns = [('utf8', h), ('printable', h.upper())]
    g.rng.shuffle(cns)
    _set_names(c, cns, False, h.encode())


@cls('name-latin1-cn-vs-utf8-server')
def m_latin1(g, c):
    n = g.n()
    h = 'café%d.example.org' % n
    _set_names(c, [('teletex', h)], False, g.rng.choice([h.encode('utf-8'), h.encode('latin-1')]))


# ---- string decoding strictness (UTF8String / BMPString / dNSName contents)

# (label, bytes that stand for nothing in UTF-8); `dot` entries replace the first '.' of the host name, the others
# are inserted at the given place
_BAD_UTF8 = [
    ('overlong-2-dot', 'dot', b'\xc0\xae'), ('overlong-3-dot', 'dot', b'\xe0\x80\xae'),
    ('overlong-4-dot', 'dot', b'\xf0\x80\x80\xae'), ('overlong-2-letter', 'mid', b'\xc1\xa1'),
    ('overlong-3-e9', 'mid', b'\xe0\x83\xa9'), ('surrogate-high', 'mid', b'\xed\xa0\x80'),
    ('surrogate-low', 'mid', b'\xed\xb0\x80'), ('surrogate-pair-cesu8', 'mid', b'\xed\xa0\xbd\xed\xb8\x80'),
    ('above-10ffff', 'mid', b'\xf4\x90\x80\x80'), ('five-byte-form', 'mid', b'\xf8\x88\x80\x80\x80'),
    ('truncated-at-end-2-of-3', 'end', b'\xe2\x82'), ('truncated-at-end-1-of-2', 'end', b'\xc3'),
    ('truncated-at-end-3-of-4', 'end', b'\xf0\x9f\x98'), ('truncated-before-ascii', 'start', b'\xc3'),
    ('truncated-in-the-middle', 'mid', b'\xe2\x82'), ('lone-continuation', 'mid', b'\x80'),
    ('lone-continuation-at-end', 'end', b'\xbf'), ('byte-ff', 'mid', b'\xff'), ('byte-fe', 'start', b'\xfe'),
]
_BAD_BMP = [
    ('bmp-lone-high-at-end', 'end', b'\xd8\x3d'), ('bmp-lone-low', 'mid', b'\xde\x00'),
    ('bmp-high-then-letter', 'mid', b'\xd8\x3d\x00a'), ('bmp-low-then-high', 'mid', b'\xde\x00\xd8\x3d'),
    ('bmp-two-highs', 'mid', b'\xd8\x3d\xd8\x3d'),
]


def _spoil(h, where, bad, bmp=False):
    """(bytes of the ill-formed string, the text a lenient decoder could make of it)"""
    raw = h.encode('utf-16-be') if bmp else h.encode()
    unit = 2 if bmp else 1
    if where == 'dot':
        i = h.index('.') * unit
        return raw[:i] + bad + raw[i + unit:], h
    if where == 'end':
        return raw + bad, h
    if where == 'start':
        return bad + raw, h
    i = (len(h) // 2) * unit
    return raw[:i] + bad + raw[i:], h


def _req(kind, ident, g, need):
    """one name-element request whose buffer is large enough for `need` bytes plus the terminator"""
    return (kind, ident, max(need + 1, g.rng.choice([64, 256, 300])))


@cls('name-string-invalid-encoding', weight=6)
def m_str_invalid(g, c):
    r = g.rng
    h = _h(g)
    bmp = r.random() < 0.25
    label, where, bad = r.choice(_BAD_BMP if bmp else _BAD_UTF8)
    raw, lenient = _spoil(h, where, bad, bmp)
    st = 'bmp' if bmp else 'utf8'
    c['_sub'] = label
    # what a peer could ask for: the lenient reading, or (UTF-8 only) the very bytes of the certificate
    asks = [lenient.encode()]
    if not bmp and b'\0' not in raw:
        asks.append(raw)
    v = r.choice([0, 2]) if bmp else r.randrange(4)
    if v == 0:      # CN only: the CN is what the server name is matched against
        _set_names(c, [(st, raw)], False, r.choice(asks))
        c['_ne'] = [_req('dn', 'CN', g, len(raw))]
    elif v == 1:    # the only dNSName
        _set_names(c, [('utf8', 'Service %d' % g.n())], [('dns', raw)], r.choice(asks))
        c['_ne'] = [_req('san', 'dns', g, len(raw)), ('dn', 'CN', 64)]
    elif v == 2:    # CN / O carry the ill-formed string, a proper dNSName matches: only the name elements are affected
        attr = r.choice(['CN', 'O', 'OU'])
        _set_names(c, None, [('dns', h.encode())], _mix_case(g, h).encode())
        ee = c['chain'][0]
        dn = [tuple(atv for atv in rdn if atv[0] != attr) for rdn in ee['subject']]
        dn = [rdn for rdn in dn if rdn] + [((attr, st, raw),)]
        ee['subject'] = tuple(dn)
        c['_dns'][0] = ee['subject']
        c['_ne'] = [_req('dn', attr, g, len(raw)), _req('san', 'dns', g, len(h)), _req('dn', attr, g, len(raw))]
    else:           # an ill-formed dNSName next to a proper one
        names = [('dns', raw), ('dns', h.encode())]
        if r.random() < 0.5:
            names.reverse()
        _set_names(c, [('utf8', 'Service %d' % g.n())], names, h.encode())
        c['_ne'] = [_req('san', 'dns', g, len(raw)), _req('san', 'dns', g, len(raw))]


_NON_ASCII = ['café', 'bücher', '例え', 'x\U0001f600y', '\U0010fffd', '߿ࠀ', 'ￜÿ',
              '\U00010000', '퟿']


@cls('name-string-valid-non-ascii', weight=4)
def m_str_valid(g, c):
    r = g.rng
    word = r.choice(_NON_ASCII)
    h = '%s%d.%s' % (word, g.n(), _h(g))
    want = h.encode('utf-8')
    astral = any(ord(ch) > 0xFFFF for ch in h)
    st = r.choice(['utf8', 'utf8', 'bmp']) if not astral else 'utf8'
    c['_sub'] = st + ('-4-byte' if astral else '')
    v = r.randrange(3)
    if v == 0:
        _set_names(c, [(st, h)], False, want)
        c['_ne'] = [_req('dn', 'CN', g, len(want))]
    elif v == 1:
        _set_names(c, [('utf8', 'Service %d' % g.n())], [('dns', want)], want)
        c['_ne'] = [_req('san', 'dns', g, len(want))]
    else:
        attr = r.choice(['O', 'OU', 'CN'])
        plain = _h(g)
        _set_names(c, None, [('dns', plain.encode())], plain.encode())
        ee = c['chain'][0]
        dn = [tuple(atv for atv in rdn if atv[0] != attr) for rdn in ee['subject']]
        ee['subject'] = tuple([rdn for rdn in dn if rdn] + [((attr, st, h),)])
        c['_dns'][0] = ee['subject']
        # a buffer exactly large enough, one byte short, or ample
        c['_ne'] = [('dn', attr, r.choice([len(want) + 1, len(want), len(want) + 1, 256]))]


@cls('name-string-bmp-surrogate-pair')
def m_str_bmp_pair(g, c):
    # BMPString is UCS-2; whether a surrogate pair is combined (UTF-16) or refused is not documented
    r = g.rng
    h = 'x\U0001f600%d.%s' % (g.n(), _h(g))
    if r.random() < 0.5:
        _set_names(c, [('bmp', h)], False, r.choice([h.encode('utf-8'), g.host().encode()]))
        c['_ne'] = [_req('dn', 'CN', g, len(h.encode('utf-8')))]
    else:
        plain = _h(g)
        _set_names(c, [('bmp', h)], [('dns', plain.encode())], plain.encode())
        c['_ne'] = [_req('dn', 'CN', g, len(h.encode('utf-8')))]


# ---- names at the 255 / 256 byte boundary

def _long_name(g, n):
    """a host-name shaped string of exactly n bytes (labels of at most 63 characters)"""
    r = g.rng
    out = ''
    while len(out) < n:
        left = n - len(out)
        k = min(left, r.randint(20, 63))
        if left - k == 1:
            k -= 1
        out += ''.join(r.choice('abcdefghijklmnopqrstuvwxyz0123456789') for _ in range(k))
        if len(out) < n:
            out += '.'
    assert len(out) == n and not out.endswith('.')
    return out


@cls('name-length-boundary', weight=7)
def m_len_boundary(g, c):
    r = g.rng
    n = r.choice([254, 255, 255, 256, 256, 300])
    where = r.choice(['cn', 'san', 'attr'])
    c['_sub'] = '%s-%d' % (where, n)
    buf = r.choice([255, 256, 257, n, n + 1, n + 2, 300])
    if where == 'attr':
        attr = r.choice(['O', 'OU'])
        if r.random() < 0.35:
            st, val = 'teletex', 'é' * (n // 2) + ('a' if n % 2 else '')     # n bytes once converted to UTF-8
        else:
            st, val = r.choice(['utf8', 'printable', 'ia5']), _long_name(g, n)
        ee = c['chain'][0]
        dn = [tuple(atv for atv in rdn if atv[0] != attr) for rdn in ee['subject']]
        ee['subject'] = tuple([rdn for rdn in dn if rdn] + [((attr, st, val),)])
        c['_dns'][0] = ee['subject']
        if not c['server']:
            raise Skip()
        c['_ne'] = [('dn', attr, buf)]
        return
    name = _long_name(g, n)
    x = r.random()
    if n <= 255:
        server = _mix_case(g, name) if x < 0.7 else name[:-1] + ('x' if name[-1] != 'x' else 'y')
    elif x < 0.5:
        server = name[:255]                 # what a decoder that cuts at its internal limit would compare with
        if server.endswith('.'):
            server = name[:254]
    elif x < 0.75:
        server = name[:-1] + ('x' if name[-1] != 'x' else 'y')
    else:
        server = name                       # not documented either way
    if where == 'cn':
        _set_names(c, [(r.choice(['utf8', 'printable', 'ia5']), name)], False, server.encode())
        c['_ne'] = [('dn', 'CN', buf)]
    else:
        names = [('dns', name.encode())]
        if r.random() < 0.4:
            names.insert(r.randint(0, 1), ('dns', g.host().encode()))
        _set_names(c, [('utf8', 'Service %d' % g.n())], names, server.encode())
        c['_ne'] = [('san', 'dns', buf)] if len(names) == 1 else [('san', 'dns', buf), ('san', 'dns', buf)]


# ---- trust anchors whose key is almost the right one

def _near_miss(g, keyname):
    k = G.KEYS[keyname]
    if k['kind'] == 'rsa':
        return g.rng.choice(['e-3', 'e-65539', 'e-high-bit', 'e-longer'])
    return g.rng.choice(['q-last-byte', 'q-last-byte', 'q-y-negated', 'q-y-first-byte'])


@cls('direct-trust-near-miss-key', weight=4)
def m_direct_nearmiss(g, c):
    r = g.rng
    a = _ee_direct(c)
    a['keymod'] = _near_miss(g, a['key'])
    c['_sub'] = a['keymod']
    c['anchors'].insert(r.randint(0, len(c['anchors'])), a)
    if r.random() < 0.65:
        ra = _root_anchor(c)
        c['anchors'] = [x for x in c['anchors'] if x is not ra]


@cls('anchor-near-miss-key', weight=2)
def m_anchor_nearmiss(g, c):
    a = _root_anchor(c)
    a['keymod'] = _near_miss(g, a['key'])
    c['_sub'] = a['keymod']


# ---- leaf key usage

@cls('leaf-key-usage', weight=5)
def m_ee_ku(g, c):
    r = g.rng
    ee = c['chain'][0]
    ee['exts'] = [e for e in ee['exts'] if e['id'] != 'ku']
    bits = [b for b in G.KU_BITS if r.random() < 0.35]
    if not bits:
        bits = [r.choice(G.KU_BITS)]
    ee['exts'].insert(r.randint(0, len(ee['exts'])), dict(id='ku', critical=r.random() < 0.5, bits=bits))


@cls('leaf-key-usage-absent', weight=2)
def m_ee_noku(g, c):
    ee = c['chain'][0]
    ee['exts'] = [e for e in ee['exts'] if e['id'] != 'ku']


@cls('leaf-key-usage-empty')
def m_ee_emptyku(g, c):
    ee = c['chain'][0]
    ee['exts'] = [e for e in ee['exts'] if e['id'] != 'ku']
    ee['exts'].append(dict(id='ku', critical=False, bits=[]))


@cls('leaf-is-ca-certificate')
def m_ee_ca(g, c):
    ee = c['chain'][0]
    ee['exts'] = [e for e in ee['exts'] if e['id'] not in ('bc', 'ku')] + g.ca_exts(1)


@cls('leaf-v1-or-v2', weight=2)
def m_ee_v1(g, c):
    ee = c['chain'][0]
    ee['version'] = g.rng.choice([1, 2])
    ee['exts'] = []
    h = _h(g)
    _set_names(c, [('utf8', h)], False, h.encode())


@cls('version-4', weight=2)
def m_v4(g, c):
    c['chain'][g.rng.randrange(c['_L'])]['version'] = 4


@cls('empty-chain')
def m_empty(g, c):
    c['chain'] = []
    c['_L'] = 0


@cls('certificates-swapped', L_ge(2))
def m_swap(g, c):
    i = g.rng.randrange(c['_L'] - 1)
    ch = c['chain']
    ch[i], ch[i + 1] = ch[i + 1], ch[i]
    c['_nd_extra'] = 1


@cls('intermediate-missing', L_ge(2), 2)
def m_missing(g, c):
    i = g.rng.randint(1, c['_L'] - 1)
    del c['chain'][i]
    c['_nd_extra'] = 1 if i < c['_L'] - 1 else 0      # dropping the last one is a single defect: no anchor reached
    c['_L'] -= 1
    del c['_keys'][i]
    del c['_dns'][i]


@cls('leaf-duplicated')
def m_dup(g, c):
    c['chain'].insert(1, copy.deepcopy(c['chain'][0]))
    c['_nd_extra'] = 1


CLASS_BY_LABEL = {x[0]: x for x in CLASSES}
NO_MULTI = {'empty-chain', 'rsa-minimum-below-128'}
STRUCTURAL = {'empty-chain', 'certificates-swapped', 'intermediate-missing', 'leaf-duplicated', 'self-signed-leaf',
              'root-certificate-included'}

# ---------------------------------------------------------------- case line

NE_VARIANTS = [
    [('dn', 'CN'), ('dn', 'CN'), ('dn', 'O'), ('san', 'dns'), ('san', 'dns'), ('san', 'email'), ('san', 'uri'), ('other', UPN)],
    [('san', 'dns'), ('dn', 'CN'), ('dn', 'C')],
    [('dn', 'O'), ('dn', 'OU'), ('san', 'uri'), ('other', UPN), ('other', '1.2.3.4')],
    [],
]


def hx(b):
    return b.hex() if b else '-'


def key_token(keyname, sep, keymod=None):
    k = G.KEYS[keyname]
    a, b = G.pub_bytes(k)
    if k['kind'] == 'rsa':
        if keymod:
            e = int.from_bytes(b, 'big')
            e2 = {'e-3': 3, 'e-65539': 65539, 'e-high-bit': e | (1 << (8 * len(b) - 1)), 'e-longer': e | (1 << (8 * len(b)))}[keymod]
            if e2 == e:
                e2 = e + 2
            b = e2.to_bytes((e2.bit_length() + 7) // 8, 'big')
        return sep.join(['R', a.hex(), b.hex()])
    if keymod:
        q = bytearray(b)
        cl = (len(q) - 1) // 2
        if keymod == 'q-last-byte':
            q[-1] ^= 0x01
        elif keymod == 'q-y-first-byte':
            q[1 + cl] ^= 0x01
        elif keymod == 'q-y-negated':       # the other point with this X: differs in the Y half only
            y = G._EC[k['curve']]['p'] - k['y']
            q[1 + cl:] = y.to_bytes(cl, 'big')
        else:
            raise ValueError(keymod)
        assert bytes(q[:1 + cl]) == b[:1 + cl] and bytes(q) != b
        b = bytes(q)
    return sep.join(['E', str(a[0]), b.hex()])


def case_line(g, case, cid, label, nd, sweep=False):
    r = g.rng
    ref = R.validate(case)
    chain = case['chain']
    built = [G.build_cert(c) for c in chain]
    exp = ref['verdict']
    code = ref['code'] if (exp == 'R' and nd <= 1 and ref['code'] is not None) else -1
    days, secs = R.instant(case['time'])
    sn = case.get('server')
    reqs = []
    if chain:
        for (k, ident) in r.choice(NE_VARIANTS):
            reqs.append((k, ident, r.choice([1, 2, 8, 16, 32, 64, 64, 256, 300])))
        if case.get('_ne') is not None:
            reqs = list(case['_ne'])[:10]
        exp_ne = R.name_elements(chain[0], reqs, with_san=bool(sn))
    ne = []
    for q, e in zip(reqs, exp_ne if reqs else []):
        if q[0] == 'dn':
            ident = G.oid_value(G.ATTR_OID[q[1]]).hex()
            kind = 'd'
        elif q[0] == 'san':
            ident = '%02x' % {'email': 1, 'dns': 2, 'uri': 6}[q[1]]
            kind = 's'
        else:
            ident = G.oid_value(q[1]).hex()
            kind = 'o'
        if e is None:
            ne.append('%s/%s/%d/x/-' % (kind, ident, q[2]))
        else:
            ne.append('%s/%s/%d/%s/%s' % (kind, ident, q[2], e[0], hx(e[1])))
    anchors = []
    for a in case['anchors']:
        anchors.append('%d/%s/%s' % (1 if a['ca'] else 0, G.der_dn(a['dn']).hex(), key_token(a['key'], '/', a.get('keymod'))))
    dnset = [R.dn_norm(a['dn']) for a in case['anchors']]
    distinct = 1 if len(set(dnset)) == len(dnset) else 0
    hashes = sum(1 << G.HASH_ID[h] for h in case['hashes'])
    toks = [
        'id=' + cid, 'cls=' + label, 'sub=' + (case.get('_sub') or '-'), 'nd=%d' % nd, 'exp=' + exp, 'code=%d' % code,
        'depth=%d' % (ref['depth'] if (ref['depth'] is not None and not ref['direct']) else -1),
        'time=%d:%d' % (days, secs), 'tmode=%d' % case['tmode'],
        'sn=' + ('-' if sn is None else ('e' if sn == b'' else sn.hex())),
        'hashes=%d' % hashes, 'rsa=%d' % case['rsa'], 'ec=%d' % case['ec'],
        'minrsa=%d' % (case['minrsa'] if (case['minrsa_set'] or case['minrsa'] != 128) else -1),
        'dnh=%d' % case['dnh'], 'impl=%d' % case['impl'],
        'key=' + (key_token(chain[0]['key'], ':') if chain and not chain[0].get('spki') else '-'),
        'usages=%d' % (ref['usages'] if ref['usages'] is not None else 0),
        'ne=' + (','.join(ne) if ne else '-'),
        'tcb=' + (','.join('%d:%d:%d:%d' % (R.instant(c['nb']) + R.instant(c['na'])) for c in chain) if chain else '-'),
        'anchors=' + (';'.join(anchors) if anchors else '-'),
        'distinct=%d' % distinct,
        'certs=' + (','.join('%s/%d/%d/%d/%d' % ((b[0].hex(),) + b[1:]) for b in built) if built else '-'),
        'sweep=%d' % (1 if sweep else 0), 'chunk=%d' % r.getrandbits(40),
    ]
    return ' '.join(toks), ref


def gen_cases(seed, worker, nworkers, ncases, out):
    g = Gen(seed, worker)
    g.max_bases = max(6, ncases // 12)
    # every class in turn (offset by worker), weights as repetition
    order = []
    for (label, need, f, w, mk) in CLASSES:
        order += [label] * w
    g.rng.shuffle(order)
    lines = []
    stats = {}
    k = 0
    tries = 0
    while len(lines) < ncases and tries < ncases * 30:
        tries += 1
        label = order[(k + worker * 7) % len(order)]
        k += 1
        labels = [label]
        if g.rng.random() < 0.12 and label not in NO_MULTI:
            x = g.rng.choice(order)
            if x not in NO_MULTI:
                labels.append(x)
        multi = len(labels) > 1
        # mutations that restructure the chain go last (the others address certificates by index)
        labels.sort(key=lambda x: x in STRUCTURAL)
        try:
            needs = [CLASS_BY_LABEL[x][1] for x in labels]
            makers = [CLASS_BY_LABEL[x][4] for x in labels if CLASS_BY_LABEL[x][4]]
            case = g.get_base(lambda b: all(n(b) for n in needs), makers[0] if makers else None)
            for x in labels:
                CLASS_BY_LABEL[x][2](g, case)
            nd = len(labels) + case.get('_nd_extra', 0)
            lab = label if not multi else 'multi'
            cid = 's%d.w%d.%d.%s' % (seed, worker, len(lines), '+'.join(labels))
            line, ref = case_line(g, case, cid, lab, nd)
        except Skip:
            continue
        except Exception:
            if multi:
                continue    # combination of mutations that cannot be expressed
            raise
        lines.append(line)
        stats[ref['verdict']] = stats.get(ref['verdict'], 0) + 1
    with open(out, 'w') as f:
        f.write('\n'.join(lines) + '\n')
    return stats


def gen_sweep(seed, j, out):
    """one accepted CA-anchored chain for the byte-flip sweep; chain j of this seed"""
    g = Gen(seed, 1000 + j)
    L = 1 + j % 4 if j % 5 != 4 else 1 + (j // 5) % 2     # the slow-EC chains stay short
    pool = CHEAP_POOL if j % 5 != 4 else (SWEEP_EC_POOL if j >= 6 else [('ec256', 70), ('rsa1024', 30)])
    if j % 6 == 5:
        # P-521 keys only: their ECDSA signatures are the ones whose SEQUENCE needs the long length form (30 81 xx)
        pool, L = [('ec521', 100)], 1
    while True:
        try:
            case = g.base(L=L, pool=pool)
        except Skip:
            continue
        if j % 3 == 2 and L >= 2:
            m_anchor_mid(g, case)      # anchor in the middle: only the certificates before it are swept
        # EC through the default implementation except for every fifth chain (i15 / i31 are slow under ASan)
        case['impl'] = [0, 1, 2, 3][j % 4] + (0 if j % 5 != 4 else [4, 8][(j // 5) % 2])
        line, ref = case_line(g, case, 's%d.sweep%d' % (seed, j), 'sweep', 0, sweep=True)
        if ref['verdict'] == 'A' and not ref['direct']:
            break
    with open(out, 'w') as f:
        f.write(line + '\n')


def main(argv):
    a = argv[1:]
    run = a.index('--run')
    opts, cmd = a[:run], a[run + 1:]
    o = dict(zip(opts[0::2], opts[1::2]))
    seed = int(o.get('--seed', 1))
    out = o['--out']
    os.makedirs(os.path.dirname(out), exist_ok=True)
    if '--sweep-chain' in o:
        gen_sweep(seed, int(o['--sweep-chain']), out)
    else:
        gen_cases(seed, int(o.get('--worker', 0)), int(o.get('--nworkers', 1)), int(o.get('--cases', 100)), out)
    if cmd:
        sys.stdout.flush()
        os.execv(cmd[0], cmd)


if __name__ == '__main__':
    main(sys.argv)
