/*
 * C18 probe (standard asan flavour, nothing recompiled): two library paths
 * that hand a null pointer with length 0 to memcpy/memmove. UBSan
 * (nonnull-attribute, no recovery) aborts the process if they do; check.py
 * turns the report into a violation keyed by source file.
 *   --mode rsa : br_encode_rsa_raw_der(dest != NULL) -> br_asn1_encode_uint
 *                encodes the version field from br_asn1_uint_prepare(NULL, 0)
 *   --mode pem : br_pem_encode(dest, NULL, 0, ...), explicitly allowed by
 *                bearssl_pem.h ("data may be NULL only if len is zero")
 * The main harnesses avoid both paths (see props/c18.py).
 */
#include "common.h"
#include "bearssl.h"

int
main(int argc, char **argv)
{
	const char *mode = vf_arg(argc, argv, "--mode", "rsa");
	unsigned char *out = malloc(256);
	if (!strcmp(mode, "rsa")) {
		static unsigned char one[1] = { 0x03 };
		br_rsa_private_key sk;
		br_rsa_public_key pk;
		size_t n;
		sk.n_bitlen = 2;
		sk.p = one; sk.plen = 1; sk.q = one; sk.qlen = 1;
		sk.dp = one; sk.dplen = 1; sk.dq = one; sk.dqlen = 1; sk.iq = one; sk.iqlen = 1;
		pk.n = one; pk.nlen = 1; pk.e = one; pk.elen = 1;
		n = br_encode_rsa_raw_der(out, &sk, &pk, one, 1);
		vf_stat("probe_rsa_encoded", (long long)n);
	} else {
		size_t n = br_pem_encode(out, NULL, 0, "X", 0);
		vf_stat("probe_pem_encoded", (long long)n);
	}
	vf_stat("probe_runs", 1);
	free(out);
	vf_done();
	return 0;
}
