/*
 * C03: no handshake completes over altered messages or an unauthenticated
 * peer. Fault enumeration: a reference handshake per scenario (deterministic
 * through hook H1) gives both flights; then the handshake is replayed once
 * per fault with a MITM that alters the stream in flight. Scripted
 * validators, mismatching keys, a rogue server policy and fallback SCSV
 * cover the authentication clauses.
 */
#include "tlsmon.h"

static const char *kxn[5] = { "RSA", "ECDHE_RSA", "ECDHE_ECDSA", "ECDH_RSA", "ECDH_ECDSA" };
static const char *moden[3] = { "full", "resumed", "reneg" };

/* ------------------------------------------------------------------ */
/* scenario */

typedef struct {
	int kx;          /* TP_KX_* */
	unsigned version;
	int mode;        /* 0 full, 1 resumed, 2 renegotiation */
	int cauth;       /* 0 none, 1 RSA client cert, 2 EC client cert */
} scenario;

static uint16_t
suite_for(int kx, unsigned version, int alt)
{
	/* one suite per key exchange; protection varies with alt */
	static const uint16_t tab12[5][3] = {
		{ 0x009C, 0x003C, 0xC09C },   /* RSA: GCM, CBC-SHA256, CCM */
		{ 0xC02F, 0xCCA8, 0xC027 },   /* ECDHE_RSA */
		{ 0xC02B, 0xCCA9, 0xC0AC },   /* ECDHE_ECDSA */
		{ 0xC031, 0xC029, 0xC00E },   /* ECDH_RSA */
		{ 0xC02D, 0xC025, 0xC004 },   /* ECDH_ECDSA */
	};
	static const uint16_t tab10[5][2] = {
		{ 0x002F, 0x000A }, { 0xC013, 0xC012 }, { 0xC009, 0xC008 }, { 0xC00E, 0xC00D }, { 0xC004, 0xC003 },
	};
	if (version == 0x0303) return tab12[kx][alt % 3];
	return tab10[kx][alt % 2];
}

/* ------------------------------------------------------------------ */
/* fault */

#define F_NONE      0
#define F_XOR       1   /* XOR byte at (dir, off) */
#define F_DROPREC   2   /* drop record #idx of direction dir */
#define F_DUPREC    3
#define F_SWAPREC   4   /* swap record idx and idx+1 */
#define F_SUBST     5   /* substitute record #idx by the same-index record of another session */

typedef struct {
	int kind, dir;
	size_t off;      /* stream offset (XOR) */
	unsigned char x;
	int idx;         /* record index */
} fault;

/* records of the reference run */
#define MAXR 64
typedef struct { size_t off, len; int type, prot; } rrec;
static rrec ref[2][MAXR];
static int nref[2];
static unsigned char *refstream[2];
static size_t reflen[2];
static size_t hs2_start[2];      /* stream offset where the second handshake (resumed / reneg) starts */
/* another session's records, for substitution */
static unsigned char *altstream[2];
static rrec alt[2][MAXR];
static int nalt[2];

/* ------------------------------------------------------------------ */
/* run context */

static br_ssl_session_cache_lru lru;
static unsigned char lru_store[4000];

typedef struct {
	tp_pair p;
	tm_pairmon pm;
	const fault *f;
	size_t passed[2];            /* bytes that passed the MITM per direction */
	unsigned char *pend[2]; size_t pend_len[2], pend_cap[2];   /* record-level MITM: bytes not yet forwarded */
	int recno[2];
	int fault_applied;
	unsigned char *held; size_t held_len;    /* swap: record held back */
	/* recording */
	int record;                  /* 1: record reference, 2: record alt */
	unsigned char *cap[2]; size_t cap_len[2], cap_cap[2];
} run_ctx;

static run_ctx R;

static void
rec_hook(void *arg, const rm_record *r, const unsigned char *plain)
{
	(void)arg; (void)plain;
	if (R.record == 1 && nref[r->dir] < MAXR) {
		rrec *q = &ref[r->dir][nref[r->dir]];
		q->off = nref[r->dir] ? q[-1].off + q[-1].len : 0;
		q->len = r->wire_len + 5; q->type = r->type; q->prot = r->protected_;
		nref[r->dir] ++;
	} else if (R.record == 2 && nalt[r->dir] < MAXR) {
		rrec *q = &alt[r->dir][nalt[r->dir]];
		q->off = nalt[r->dir] ? q[-1].off + q[-1].len : 0;
		q->len = r->wire_len + 5; q->type = r->type; q->prot = r->protected_;
		nalt[r->dir] ++;
	}
}

/*
 * MITM on the fifo: called with the chunk just appended (pointer into the
 * fifo). XOR faults are applied in place. Record-level faults re-frame: the
 * chunk is removed from the fifo and re-emitted record by record.
 */
static void
mitm_tap(void *arg, int dir, const unsigned char *data, size_t len)
{
	tp_fifo *f = dir == 0 ? &R.p.c2s : &R.p.s2c;
	const fault *ft = R.f;
	(void)arg;
	if (R.record) {
		rm_append_(&R.cap[dir], &R.cap_len[dir], &R.cap_cap[dir], data, len);
		tm_tap(&R.pm.m, dir, data, len);
		return;
	}
	if (ft == NULL || ft->kind == F_NONE || ft->dir != dir) {
		R.passed[dir] += len;
		return;
	}
	if (ft->kind == F_XOR) {
		size_t before = R.passed[dir];
		if (ft->off >= before && ft->off < before + len) {
			((unsigned char *)data)[ft->off - before] ^= ft->x;
			R.fault_applied = 1;
		}
		R.passed[dir] += len;
		return;
	}
	/* record-level: pull the chunk back out of the fifo and re-frame */
	f->wr -= len; f->total -= len;
	rm_append_(&R.pend[dir], &R.pend_len[dir], &R.pend_cap[dir], data, len);
	for (;;) {
		unsigned char *a = R.pend[dir];
		size_t al = R.pend_len[dir], rl;
		int idx;
		if (al < 5) break;
		rl = 5 + (((size_t)a[3] << 8) | a[4]);
		if (al < rl) break;
		idx = R.recno[dir] ++;
		if (ft->kind == F_DROPREC && idx == ft->idx) {
			R.fault_applied = 1;
		} else if (ft->kind == F_DUPREC && idx == ft->idx) {
			tp_fifo_put(f, a, rl); tp_fifo_put(f, a, rl);
			R.fault_applied = 1;
		} else if (ft->kind == F_SWAPREC && idx == ft->idx) {
			R.held = vf_dup(a, rl); R.held_len = rl;
		} else if (ft->kind == F_SWAPREC && idx == ft->idx + 1 && R.held) {
			tp_fifo_put(f, a, rl);
			tp_fifo_put(f, R.held, R.held_len);
			free(R.held); R.held = NULL;
			R.fault_applied = 1;
		} else if (ft->kind == F_SUBST && idx == ft->idx && idx < nalt[dir]) {
			tp_fifo_put(f, altstream[dir] + alt[dir][idx].off, alt[dir][idx].len);
			R.fault_applied = 1;
		} else {
			tp_fifo_put(f, a, rl);
		}
		memmove(a, a + rl, al - rl);
		R.pend_len[dir] = al - rl;
	}
}

/* ------------------------------------------------------------------ */
/* scripted validator / rogue policy knobs */

typedef struct {
	int verdict;            /* -1 honest */
	int pkey_kind;          /* 0 honest, 1 wrong type, 2 other curve, 3 weak RSA (768), 4 other key same type, 5 no key at all (NULL),
	                           6 the honest RSA key with leading zero bytes in the modulus (must work), 7 RSA modulus of 40 bytes */
	int usages;             /* -1 honest */
} vscript;

typedef struct {
	const br_ssl_server_policy_class *vtable;
	const br_ssl_server_policy_class **inner;
	int override_suite;     /* 0: none */
	int override_algo;      /* 0: none; else algo_id written into the choices (0xFF00 + hash id) */
	int forge;              /* 0: honest signature; 1: ECDSA r = s = Qx; 2: ECDSA r = s = 1; 3: RSA 00 01 FF.. 00; 4: all-zero signature */
	const unsigned char *qx; size_t qx_len;
} rogue_policy;

static int
rogue_choose(const br_ssl_server_policy_class **pctx, const br_ssl_server_context *cc,
	br_ssl_server_choices *choices)
{
	rogue_policy *rp = (rogue_policy *)(void *)pctx;
	int r = (*rp->inner)->choose(rp->inner, cc, choices);
	if (rp->override_suite) {
		choices->cipher_suite = (uint16_t)rp->override_suite;
		r = 1;
	}
	if (rp->override_algo) {
		choices->algo_id = (unsigned)rp->override_algo;
		r = 1;
	}
	return r;
}
static uint32_t
rogue_keyx(const br_ssl_server_policy_class **pctx, unsigned char *data, size_t *len)
{
	rogue_policy *rp = (rogue_policy *)(void *)pctx;
	return (*rp->inner)->do_keyx(rp->inner, data, len);
}
static size_t
rogue_sign(const br_ssl_server_policy_class **pctx, unsigned algo_id, unsigned char *data, size_t hv_len, size_t len)
{
	rogue_policy *rp = (rogue_policy *)(void *)pctx;
	size_t n, o = 0;
	unsigned char v[70];
	if (rp->forge == 0) return (*rp->inner)->do_sign(rp->inner, algo_id, data, hv_len, len);
	if (rp->forge == 3 || rp->forge == 4) {
		n = 256;
		if (len < n) return 0;
		memset(data, rp->forge == 3 ? 0xFF : 0x00, n);
		if (rp->forge == 3) { data[0] = 0; data[1] = 1; data[n - 1] = 0; }
		return n;
	}
	/* DER SEQUENCE { INTEGER v, INTEGER v } */
	if (rp->forge == 1) { n = rp->qx_len; memcpy(v + 1, rp->qx, n); } else { n = 1; v[1] = 1; }
	v[0] = 0;
	{
		const unsigned char *iv = v + 1; size_t il = n;
		while (il > 1 && iv[0] == 0) { iv ++; il --; }
		if (iv[0] & 0x80) { iv --; il ++; }
		if (len < 2 * (il + 2) + 3) return 0;
		data[o ++] = 0x30; data[o ++] = (unsigned char)(2 * (il + 2));
		data[o ++] = 0x02; data[o ++] = (unsigned char)il; memcpy(data + o, iv, il); o += il;
		data[o ++] = 0x02; data[o ++] = (unsigned char)il; memcpy(data + o, iv, il); o += il;
	}
	return o;
}
static const br_ssl_server_policy_class rogue_vtable = {
	sizeof(rogue_policy), rogue_choose, rogue_keyx, rogue_sign
};
static rogue_policy rogue;
static int rogue_extra[2];      /* override_algo, forge: set by the caller before the run */

static void
pre_reset_rogue(void *epv, void *arg)
{
	tp_ep *ep = epv;
	rogue.vtable = &rogue_vtable;
	rogue.inner = ep->sc->policy_vtable;
	rogue.override_suite = ((int *)arg)[0];
	rogue.override_algo = rogue_extra[0];
	rogue.forge = rogue_extra[1];
	br_ssl_server_set_policy(ep->sc, &rogue.vtable);
}

/* rogue client certificate policy: presents somebody else's EC certificate for static
 * ECDH client authentication (no CertificateVerify: Finished is the only proof of the
 * key) and uses a guessed premaster secret instead of the ECDH result */
typedef struct {
	const br_ssl_client_certificate_class *vtable;
	const br_x509_certificate *chain;
	size_t chain_len;
	unsigned char guess[80];
	size_t guess_len;
	int choose_calls, keyx_calls;
	unsigned auth_types;
} rogue_ccert;
static rogue_ccert rcc;

static void rcc_start_name_list(const br_ssl_client_certificate_class **p) { (void)p; }
static void rcc_start_name(const br_ssl_client_certificate_class **p, size_t len) { (void)p; (void)len; }
static void rcc_append_name(const br_ssl_client_certificate_class **p, const unsigned char *d, size_t l) { (void)p; (void)d; (void)l; }
static void rcc_end_name(const br_ssl_client_certificate_class **p) { (void)p; }
static void rcc_end_name_list(const br_ssl_client_certificate_class **p) { (void)p; }
static void
rcc_choose(const br_ssl_client_certificate_class **p, const br_ssl_client_context *cc, uint32_t auth_types,
	br_ssl_client_certificate *choices)
{
	rogue_ccert *r = (rogue_ccert *)(void *)p;
	(void)cc;
	r->choose_calls ++;
	r->auth_types = auth_types;
	choices->auth_type = BR_AUTH_ECDH;
	choices->hash_id = -1;
	choices->chain = r->chain;
	choices->chain_len = r->chain_len;
}
static uint32_t
rcc_do_keyx(const br_ssl_client_certificate_class **p, unsigned char *data, size_t *len)
{
	rogue_ccert *r = (rogue_ccert *)(void *)p;
	r->keyx_calls ++;
	memcpy(data, r->guess, r->guess_len);
	*len = r->guess_len;
	return 1;
}
static size_t
rcc_do_sign(const br_ssl_client_certificate_class **p, int hash_id, size_t hv_len, unsigned char *data, size_t len)
{
	(void)p; (void)hash_id; (void)hv_len; (void)data; (void)len;
	return 0;
}
static const br_ssl_client_certificate_class rcc_vtable = {
	sizeof(rogue_ccert), rcc_start_name_list, rcc_start_name, rcc_append_name, rcc_end_name, rcc_end_name_list,
	rcc_choose, rcc_do_keyx, rcc_do_sign
};

static void
pre_reset_rogue_ccert(void *epv, void *arg)
{
	tp_ep *ep = epv;
	(void)arg;
	rcc.vtable = &rcc_vtable;
	rcc.choose_calls = rcc.keyx_calls = 0;
	br_ssl_client_set_client_certificate(ep->cc, &rcc.vtable);
}

static void
pre_reset_drop_hash(void *epv, void *arg)
{
	tp_ep *ep = epv;
	br_ssl_engine_set_hash(ep->eng, *(int *)arg, NULL);
}

/* public keys for the scripted validator, decoded from fixture certificates */
static tp_anchor pk_ec384, pk_weak, pk_srv_rsa, pk_srv_ecec, pk_srv_ecrsa, pk_cli_ec;

static void
pre_reset_vscript(void *epv, void *arg)
{
	tp_ep *ep = epv;
	vscript *vs = arg;
	ep->xw->force_verdict = vs->verdict;
	ep->xw->force_usages = vs->usages;
	ep->xw->force_pkey = NULL;
	ep->xw->force_null_pkey = 0;
	switch (vs->pkey_kind) {
	case 1:   /* key of the other type */
		ep->xw->force_pkey = (ep->cfg.suites && tp_suite_find(ep->cfg.suites[0])->kx <= TP_KX_ECDHE_RSA)
			? &tp_fx.anchors[1].ta.pkey : &tp_fx.anchors[0].ta.pkey;
		break;
	case 2: ep->xw->force_pkey = &pk_ec384.ta.pkey; break;       /* EC key on another curve */
	case 5: ep->xw->force_null_pkey = 1; break;
	case 6: {
		/* same key, modulus written with three leading zero bytes */
		static br_x509_pkey padded; static unsigned char nb[600];
		padded = pk_srv_rsa.ta.pkey;
		memset(nb, 0, 3); memcpy(nb + 3, padded.key.rsa.n, padded.key.rsa.nlen);
		padded.key.rsa.n = nb; padded.key.rsa.nlen += 3;
		ep->xw->force_pkey = &padded;
		break;
	}
	case 8: case 9: case 10: case 11: {
		/* RSA modulus just beyond / far beyond the 512-byte work area of the engine (sizes 513, 519, 520, 1100) */
		static br_x509_pkey big; static unsigned char bn[1100];
		static const size_t bl[4] = { 513, 519, 520, 1100 };
		size_t L = bl[vs->pkey_kind - 8], q;
		big = pk_srv_rsa.ta.pkey;
		for (q = 0; q < L; q ++) bn[q] = (unsigned char)(0xC3 + 7 * q);
		bn[0] |= 0x80; bn[L - 1] |= 1;
		big.key.rsa.n = bn; big.key.rsa.nlen = L;
		ep->xw->force_pkey = &big;
		break;
	}
	case 7: {
		static br_x509_pkey tiny; static unsigned char tn[40];
		tiny = pk_srv_rsa.ta.pkey;
		memcpy(tn, tiny.key.rsa.n, 40); tn[0] |= 0x80; tn[39] |= 1;
		tiny.key.rsa.n = tn; tiny.key.rsa.nlen = 40;
		ep->xw->force_pkey = &tiny;
		break;
	}
	case 3: ep->xw->force_pkey = &pk_weak.ta.pkey; break;        /* RSA key the server does not own */
	case 4:   /* another key of the right type */
		ep->xw->force_pkey = (ep->cfg.suites && tp_suite_find(ep->cfg.suites[0])->kx <= TP_KX_ECDHE_RSA)
			? &tp_fx.anchors[2].ta.pkey : &tp_fx.anchors[1].ta.pkey;
		break;
	}
}

/* ------------------------------------------------------------------ */
/* one run of a scenario with an optional fault */

typedef struct {
	int c_ready, s_ready;          /* ever offered SENDAPP/RECVAPP during the attacked handshake */
	int c_err, s_err;
	int c_closed, s_closed;
	size_t c_rx, s_rx;             /* application bytes delivered during/after the attacked handshake */
	int hs1_ok;                    /* preparatory handshake (resumed / reneg modes) completed */
	int reneg_done;
	int applied;
	int validator_calls, validator_verdict;
	int abbreviated;               /* no Certificate message from the server in the attacked handshake */
	int c_ready_end, s_ready_end;  /* ready (SENDAPP) at the end of the run */
	int c_rekeyed, s_rekeyed;      /* master secret differs from the one before the renegotiation */
	int chain_ok;                  /* validator saw exactly the configured server certificate */
	char vname[64];
} outcome;

static void
cfg_for(const scenario *sc, tp_cfg *cc, tp_cfg *sv, uint16_t *suite_buf, vf_rng *r, int alt)
{
	int keykind;
	tp_cfg_default(cc, 0); tp_cfg_default(sv, 1);
	suite_buf[0] = suite_for(sc->kx, sc->version, alt);
	keykind = tp_key_for_suite(tp_suite_find(suite_buf[0]), alt & 1);
	cc->suites = suite_buf; cc->nsuites = 1;
	cc->vmin = 0x0301; cc->vmax = sc->version;
	sv->vmin = 0x0301; sv->vmax = 0x0303;
	sv->keykind = keykind;
	/* TLS 1.1 scenarios carry two-certificate chains (leaf + intermediate) where the fixtures have them: RSA-signed
	   server certificates, the RSA client certificate */
	if (sc->version == 0x0302) { sv->chain_kind = 1; cc->chain_kind = 1; }
	cc->layout = sv->layout = TP_LAYOUT_SPLIT2;
	cc->buflen = sv->buflen = 4096 + 325; cc->buflen_out = sv->buflen_out = 4096 + 85;
	sv->buflen = BR_SSL_BUFSIZE_INPUT; sv->buflen_out = BR_SSL_BUFSIZE_OUTPUT;
	cc->client_auth = sc->cauth;
	sv->client_auth = sc->cauth ? 1 : 0;
	sv->ta_plain_names = sc->cauth == 2;   /* CertificateRequest names from a br_x500_name array / from the trust anchors */
	vf_bytes(r, cc->seed, 32); vf_bytes(r, sv->seed, 32);
	if (sc->mode == 1) {
		br_ssl_session_cache_lru_init(&lru, lru_store, sizeof lru_store);
		sv->cache = &lru.vtable;
	}
}

/* application activity after the pump went quiet: any ready endpoint writes */
static void
poke_apps(tp_pair *p)
{
	int i;
	for (i = 0; i < 3; i ++) {
		if (tp_ep_ready(&p->c)) { tp_act_write(&p->c, 20); tp_act_flush(&p->c, 0); }
		if (tp_ep_ready(&p->s)) { tp_act_write(&p->s, 20); tp_act_flush(&p->s, 0); }
		tp_pump_until_quiet(p, 100000);
		{
			size_t l;
			while (br_ssl_engine_recvapp_buf(p->c.eng, &l)) tp_act_read(&p->c, l);
			while (br_ssl_engine_recvapp_buf(p->s.eng, &l)) tp_act_read(&p->s, l);
		}
	}
}

static uint64_t seeds_key;   /* makes per-scenario RNG */
static vscript *at_reneg_c, *at_reneg_s;   /* validator script switched on when the renegotiation is requested (mode 2) */
static int calls_before[2], calls_reneg[2];   /* end_chain calls of the validators before / during the renegotiation */

static void
run_scenario(const scenario *sc, const fault *f, int record, int alt, outcome *o,
	void (*cpre)(void *, void *), void *cpre_arg, void (*spre)(void *, void *), void *spre_arg,
	const tp_cfg *ccfg_override, const tp_cfg *scfg_override)
{
	tp_cfg cc, sv;
	uint16_t sb[1];
	vf_rng r;
	size_t base_c2s = 0, base_s2c = 0;
	unsigned char ms_before[2][48];
	int have_ms_before = 0;

	memset(o, 0, sizeof *o);
	vf_rng_init(&r, seeds_key, 17 + (uint64_t)alt);
	cfg_for(sc, &cc, &sv, sb, &r, alt);
	if (ccfg_override) cc = *ccfg_override;
	if (scfg_override) sv = *scfg_override;
	cc.pre_reset = cpre; cc.pre_reset_arg = cpre_arg;
	sv.pre_reset = spre; sv.pre_reset_arg = spre_arg;

	memset(&R.p, 0, sizeof R.p);
	tp_pair_init(&R.p, seeds_key, 99, TP_CHUNK_WHOLE);
	{
		/* a third of the runs use completion-style output: bytes reach the transport at once, the engine gets the
		   acknowledgement later (possibly after the peer's answer, possibly after it has failed) */
		static long runno;
		R.p.defer_acks = (runno ++ % 3) == 1;
		if (R.p.defer_acks) vf_stat("runs_with_deferred_acks", 1);
	}
	R.f = NULL;                    /* no fault during the preparatory phase */
	R.passed[0] = R.passed[1] = 0; R.pend_len[0] = R.pend_len[1] = 0;
	R.recno[0] = R.recno[1] = 0; R.fault_applied = 0;
	R.record = record;
	R.p.c.tx_key = 0xC0FFEE; R.p.s.tx_key = 0xBEEF;
	tm_pair_attach(&R.pm, &R.p);
	R.pm.m.rec_hook = rec_hook;
	R.pm.m.check_app = 0;
	R.p.tap = mitm_tap; R.p.tap_arg = NULL;
	if (!tp_ep_start(&R.p.c, &cc) || !tp_ep_start(&R.p.s, &sv)) goto done;
	R.p.c.tx_key = 0xC0FFEE; R.p.c.rx_key = 0xBEEF; R.p.s.tx_key = 0xBEEF; R.p.s.rx_key = 0xC0FFEE;

	if (sc->mode == 0) {
		R.f = f;
		tp_handshake(&R.p, 1000000);
		o->hs1_ok = 1;
	} else {
		/* preparatory clean handshake */
		if (!tp_handshake(&R.p, 1000000)) goto done;
		o->hs1_ok = 1;
		if (sc->mode == 1) {
			tp_cfg c2 = cc, s2 = sv;
			tp_run_close(&R.p, 0, 100000);
			c2.reuse_ctx = 1; c2.resume = 1; s2.reuse_ctx = 1;
			vf_bytes(&r, c2.seed, 32); vf_bytes(&r, s2.seed, 32);
			/* fifos are empty after close; offsets restart for the second connection */
			R.p.c2s.rd = R.p.c2s.wr = 0; R.p.s2c.rd = R.p.s2c.wr = 0;
			if (record) { hs2_start[0] = R.cap_len[0]; hs2_start[1] = R.cap_len[1]; }
			base_c2s = 0; base_s2c = 0;
			R.passed[0] = R.passed[1] = 0; R.recno[0] = R.recno[1] = 0;
			if (record) {
				/* the independent decoder starts over with the new connection */
				rm_free(&R.pm.m.rm);
				tm_pair_attach(&R.pm, &R.p);
				R.pm.m.rec_hook = rec_hook; R.pm.m.check_app = 0;
				R.p.tap = mitm_tap;
				if (record == 1) { nref[0] = nref[1] = 0; } else { nalt[0] = nalt[1] = 0; }
				R.cap_len[0] = R.cap_len[1] = 0;
				hs2_start[0] = hs2_start[1] = 0;
			}
			if (!tp_ep_start(&R.p.c, &c2) || !tp_ep_start(&R.p.s, &s2)) goto done;
			R.p.c.tx_key = 0xC0FFEE; R.p.c.rx_key = 0xBEEF; R.p.s.tx_key = 0xBEEF; R.p.s.rx_key = 0xC0FFEE;
			R.f = f;
			tp_handshake(&R.p, 1000000);
		} else {
			/* renegotiation requested by the client after a little data */
			tp_run_data(&R.p, 30, 30, TP_W_WHOLE, 100000);
			if (record) { hs2_start[0] = R.cap_len[0]; hs2_start[1] = R.cap_len[1]; }
			(void)base_c2s; (void)base_s2c;
			R.p.c.ever_sendapp = R.p.s.ever_sendapp = 0;
			R.p.c.ever_recvapp = R.p.s.ever_recvapp = 0;
			{
				br_ssl_session_parameters sp;
				br_ssl_engine_get_session_parameters(R.p.c.eng, &sp); memcpy(ms_before[0], sp.master_secret, 48);
				br_ssl_engine_get_session_parameters(R.p.s.eng, &sp); memcpy(ms_before[1], sp.master_secret, 48);
				have_ms_before = 1;
			}
			R.f = f;
			/* a validator whose answer changes for the second handshake of the connection */
			if (at_reneg_c && R.p.c.xw) pre_reset_vscript(&R.p.c, at_reneg_c);
			if (at_reneg_s && R.p.s.xw) pre_reset_vscript(&R.p.s, at_reneg_s);
			if (R.p.c.xw) calls_before[0] = R.p.c.xw->n_end_chain;
			if (R.p.s.xw) calls_before[1] = R.p.s.xw->n_end_chain;
			if (!tp_act_reneg(&R.p.c)) goto done;
			tp_pump_until_quiet(&R.p, 1000000);
			o->reneg_done = tp_ep_ready(&R.p.c) && tp_ep_ready(&R.p.s);
		}
	}
	{
		size_t c0 = R.p.c.rx_done, s0 = R.p.s.rx_done;
		/* ever_* flags: for full/resumed they cover the attacked handshake; for reneg they
		   were cleared when the renegotiation started */
		o->c_ready = R.p.c.ever_sendapp || R.p.c.ever_recvapp;
		o->s_ready = R.p.s.ever_sendapp || R.p.s.ever_recvapp;
		if (!record) poke_apps(&R.p);
		o->c_ready |= R.p.c.ever_sendapp || R.p.c.ever_recvapp;
		o->s_ready |= R.p.s.ever_sendapp || R.p.s.ever_recvapp;
		o->c_rx = R.p.c.rx_done - c0; o->s_rx = R.p.s.rx_done - s0;
	}
done:
	o->c_err = R.p.c.eng ? br_ssl_engine_last_error(R.p.c.eng) : -1;
	o->s_err = R.p.s.eng ? br_ssl_engine_last_error(R.p.s.eng) : -1;
	o->c_closed = R.p.c.eng ? tp_ep_closed(&R.p.c) : 1;
	o->s_closed = R.p.s.eng ? tp_ep_closed(&R.p.s) : 1;
	o->applied = R.fault_applied;
	if (R.p.c.xw) {
		const br_x509_certificate *ch = NULL;
		size_t chn = 1, q;
		o->validator_calls = R.p.c.xw->n_end_chain; o->validator_verdict = (int)R.p.c.xw->last_verdict;
		snprintf(o->vname, sizeof o->vname, "%s", R.p.c.xw->server_name);
		ch = tp_chain_pick(1, R.p.s.cfg.keykind, 0, R.p.s.cfg.use_ec384, R.p.s.cfg.chain_kind, &chn);
		o->chain_ok = (size_t)R.p.c.xw->n_start_cert == chn;
		for (q = 0; o->chain_ok && q < chn; q ++) {
			o->chain_ok = R.p.c.xw->cert_len[q] == ch[q].data_len
				&& R.p.c.xw->cert_hash[q] == vf_fnv(ch[q].data, ch[q].data_len, 0);
		}
		if (o->chain_ok && chn > 1) vf_stat("multi_certificate_chains_seen_by_validator", 1);
	}
	{
		int i2, seen11 = 0;
		for (i2 = 0; i2 < R.pm.m.rm.n_hs[1]; i2 ++) if (R.pm.m.rm.hs_types[1][i2] == 11) seen11 = 1;
		o->abbreviated = !seen11;
	}
	calls_reneg[0] = R.p.c.xw ? R.p.c.xw->n_end_chain - calls_before[0] : 0;
	calls_reneg[1] = R.p.s.xw ? R.p.s.xw->n_end_chain - calls_before[1] : 0;
	if (have_ms_before) {
		br_ssl_session_parameters sp;
		br_ssl_engine_get_session_parameters(R.p.c.eng, &sp); o->c_rekeyed = memcmp(ms_before[0], sp.master_secret, 48) != 0;
		br_ssl_engine_get_session_parameters(R.p.s.eng, &sp); o->s_rekeyed = memcmp(ms_before[1], sp.master_secret, 48) != 0;
	}
	o->c_ready_end = R.p.c.eng && tp_ep_ready(&R.p.c) && o->c_err == 0;
	o->s_ready_end = R.p.s.eng && tp_ep_ready(&R.p.s) && o->s_err == 0;
	if (record) {
		int d;
		unsigned char **dst = record == 1 ? refstream : altstream;
		rm_drain(&R.pm.m.rm, 0); rm_drain(&R.pm.m.rm, 1);
		for (d = 0; d < 2; d ++) {
			free(dst[d]);
			dst[d] = vf_dup(R.cap[d], R.cap_len[d]);
			if (record == 1) reflen[d] = R.cap_len[d];
		}
		R.cap_len[0] = R.cap_len[1] = 0;
	}
	free(R.held); R.held = NULL;
	rm_free(&R.pm.m.rm);
	tp_pair_free(&R.p);
}

/* ------------------------------------------------------------------ */

static long long n_faults, n_victim_failed, n_victim_blocked, n_header_ok, n_header_failed, n_not_applied;
static char scen_desc[300];

/* class (a): message bytes. victim = destination of the altered bytes.
   need_error: the victim must have failed with an error (protected records: any change is
   detected on receipt); otherwise "never ready and no data" is what can be decided in finite
   time (a removed last flight or an enlarged length field leaves both sides waiting). */
static long long n_stuck;
static void
judge_message_fault(const scenario *sc, const fault *f, const outcome *o, const char *fdesc, int need_error)
{
	int victim_ready = f->dir == 0 ? o->s_ready : o->c_ready;
	int victim_ready_end = f->dir == 0 ? o->s_ready_end : o->c_ready_end;
	int victim_err = f->dir == 0 ? o->s_err : o->c_err;
	int other_err = f->dir == 0 ? o->c_err : o->s_err;
	char what[300];
	snprintf(tp_case, sizeof tp_case, "%s fault=%s", scen_desc, fdesc);
	n_faults ++;
	if (!o->applied) { n_not_applied ++; return; }
	/* a duplicated record diverges from the original stream only after its first copy, which the
	   victim may legitimately complete the handshake on: judge the end state there */
	if (sc->mode == 2) {
		/* renegotiation: the victim must not come out of it ready with new secrets */
		victim_ready_end = victim_ready_end && (f->dir == 0 ? o->s_rekeyed : o->c_rekeyed);
	}
	if ((sc->mode == 2 || f->kind == F_DUPREC) ? victim_ready_end : victim_ready) {
		snprintf(what, sizeof what, "endpoint %s although a handshake byte destined for it was altered (c_err=%d s_err=%d)",
			sc->mode == 2 ? "completed the renegotiation" : "became ready for application data", o->c_err, o->s_err);
		TP_VIOL("altered-handshake-accepted", what);
		return;
	}
	if (o->c_rx != 0 || o->s_rx != 0) {
		TP_VIOL("data-delivered-over-altered-handshake", "application data was delivered on a connection whose handshake was altered");
		return;
	}
	if (victim_err != 0) { n_victim_failed ++; return; }
	if (need_error) {
		snprintf(what, sizeof what, "altered protected handshake record was not rejected by its receiver (c_err=%d s_err=%d)", o->c_err, o->s_err);
		TP_VIOL("altered-protected-record-not-rejected", what);
		return;
	}
	if (other_err != 0) { n_victim_blocked ++; return; }
	n_stuck ++;
}

/* class (b): record header bytes: either somebody fails / nobody gets ready, or the
   handshake completes and then data must flow exactly (checked by poke_apps + stream oracle) */
static void
judge_header_fault(const fault *f, const outcome *o, const char *fdesc)
{
	snprintf(tp_case, sizeof tp_case, "%s fault=%s", scen_desc, fdesc);
	n_faults ++;
	(void)f;
	if (!o->applied) { n_not_applied ++; return; }
	if (o->c_ready && o->s_ready && o->c_err == 0 && o->s_err == 0) {
		/* completed: then the data poked through must have arrived intact (stream oracle fires otherwise) */
		if (o->c_rx == 0 || o->s_rx == 0) {
			TP_VIOL("header-fault-half-open", "both endpoints ready after a record-header alteration but application data does not flow");
			return;
		}
		n_header_ok ++;
		return;
	}
	n_header_failed ++;
}

/* ------------------------------------------------------------------ */
/* authentication clauses (c)-(f): scripted validator, mismatching keys, rogue policy, versions, fallback */

static long long n_auth;

static void
expect_refused(const char *name, const outcome *o, int who /* 0 client must refuse, 1 server must refuse, 2 both never ready */)
{
	char what[300];
	snprintf(tp_case, sizeof tp_case, "%s auth-case=%s", scen_desc, name);
	n_auth ++;
	vf_stat("auth_cases", 1);
	snprintf(what, sizeof what, "%s: c_ready=%d s_ready=%d c_err=%d s_err=%d c_rx=%zu s_rx=%zu", name,
		o->c_ready, o->s_ready, o->c_err, o->s_err, o->c_rx, o->s_rx);
	if ((who == 0 || who == 2) && o->c_ready) { TP_VIOL("unauthenticated-peer-accepted:client", what); return; }
	if ((who == 1 || who == 2) && o->s_ready) { TP_VIOL("unauthenticated-peer-accepted:server", what); return; }
	if (o->c_rx || o->s_rx) { TP_VIOL("data-delivered-to-unauthenticated-peer", what); return; }
	if (who == 0 && o->c_err == 0 && o->s_err == 0) { TP_VIOL("unauthenticated-peer-no-failure", what); return; }
	if (who == 1 && o->s_err == 0 && o->c_err == 0) { TP_VIOL("unauthenticated-peer-no-failure", what); return; }
}

/*
 * Poisoned session: a first handshake fails after the ServerHello (the validator rejects the chain),
 * the application retries on the same client context with resume_session = 1 (the documented way to
 * "try session resumption"), and the server of the second connection - which has no key matching its
 * certificate, so that a full handshake cannot succeed - answers with an abbreviated handshake for the
 * session ID of the FAILED attempt, using the master secret a client that never completed a session
 * holds (all zeros) or any value it can know. No session was ever established: the client must not
 * become ready.
 */
typedef struct {
	const br_ssl_session_cache_class *vtable;
	unsigned version, suite;
	unsigned char master[48];
	int loads, saves;
} rogue_cache;
static rogue_cache rcache;

static void
rcache_save(const br_ssl_session_cache_class **ctx, br_ssl_server_context *sc, const br_ssl_session_parameters *params)
{
	rogue_cache *rc = (rogue_cache *)(void *)ctx;
	(void)sc; (void)params;
	rc->saves ++;
}
static int
rcache_load(const br_ssl_session_cache_class **ctx, br_ssl_server_context *sc, br_ssl_session_parameters *params)
{
	rogue_cache *rc = (rogue_cache *)(void *)ctx;
	(void)sc;
	rc->loads ++;
	params->version = (uint16_t)rc->version;
	params->cipher_suite = (uint16_t)rc->suite;
	memcpy(params->master_secret, rc->master, 48);
	return 1;
}
static const br_ssl_session_cache_class rcache_vtable = { sizeof(rogue_cache), rcache_save, rcache_load };

static void
pre_reset_honest_validator(void *epv, void *arg)
{
	tp_ep *ep = epv;
	(void)arg;
	ep->xw->force_verdict = -1; ep->xw->force_usages = -1; ep->xw->force_pkey = NULL; ep->xw->force_null_pkey = 0;
}

static void
poisoned_session_case(const scenario *sc, int fail_kind, int prior_session)
{
	tp_pair p;
	tp_cfg cc, sv, cc2, sv2;
	uint16_t sb[1];
	vf_rng r;
	vscript vs;
	br_ssl_session_parameters sp;
	char nm[160], what[400];
	unsigned char prior_master[48];
	int calls_before;

	vf_rng_init(&r, seeds_key, 90 + (uint64_t)fail_kind * 2 + (uint64_t)prior_session);
	cfg_for(sc, &cc, &sv, sb, &r, 0);
	snprintf(nm, sizeof nm, "poisoned-session:first-attempt-%s:%s", fail_kind == 0 ? "validator-rejects" : "transport-dies-after-server-hello",
		prior_session == 2 ? "after-a-session-with-the-rogue-itself-not-to-be-resumed" : prior_session ? "after-an-earlier-good-session" : "fresh-context");
	snprintf(tp_case, sizeof tp_case, "%s auth-case=%s", scen_desc, nm);
	tp_pair_init(&p, (uint64_t)seeds_key, 91, TP_CHUNK_WHOLE);
	p.c.tx_key = 0x9191; p.s.tx_key = 0x1919; p.c.rx_key = p.s.tx_key; p.s.rx_key = p.c.tx_key;
	n_auth ++;
	vf_stat("auth_cases", 1);
	if (prior_session) {
		/* an honest session first: the context then holds a real master secret (unknown to the rogue) */
		if (!tp_ep_start(&p.c, &cc) || !tp_ep_start(&p.s, &sv) || !tp_handshake(&p, 1000000)) { TP_VIOL("auth-control-failed", "honest first session failed"); tp_pair_free(&p); return; }
		tp_run_close(&p, 0, 100000);
		/* prior_session 2: the peer of that earlier session is the rogue (it knows that master secret), and the
		   application does not ask for resumption in the attempt that fails (resume_session = 0) */
		br_ssl_engine_get_session_parameters(p.c.eng, &sp);
		memcpy(prior_master, sp.master_secret, 48);
		cc.reuse_ctx = 1; cc.resume = prior_session == 1;
		p.c2s.rd = p.c2s.wr = 0; p.s2c.rd = p.s2c.wr = 0;
	}
	/* attempt 1: fails after the ServerHello has been processed */
	vs.verdict = BR_ERR_X509_NOT_TRUSTED; vs.pkey_kind = 0; vs.usages = -1;
	cc.pre_reset = pre_reset_vscript; cc.pre_reset_arg = &vs;
	tp_ep_free(&p.s);
	if (!tp_ep_start(&p.c, &cc) || !tp_ep_start(&p.s, &sv)) { TP_VIOL("setup:reset-failed", "reset"); tp_pair_free(&p); return; }
	if (fail_kind == 0) {
		tp_pump_until_quiet(&p, 100000);
	} else {
		/* the transport dies once the client has taken the first record of the server's flight */
		long q;
		for (q = 0; q < 100000 && p.c.bytes_in == 0; q ++) if (!tp_pump_step(&p)) break;
	}
	if (tp_ep_ready(&p.c)) { TP_VIOL("unauthenticated-peer-accepted:client", "client became ready although its validator rejected the chain"); tp_pair_free(&p); return; }
	br_ssl_engine_get_session_parameters(p.c.eng, &sp);
	vf_distinct("poisoned_session_state", "kind%d prior%d idlen%d", fail_kind, prior_session, (int)sp.session_id_len);
	/* attempt 2: same client context, resume_session = 1, honest validator; rogue server without the private key */
	cc2 = cc; cc2.reuse_ctx = 1; cc2.resume = 1; cc2.pre_reset = pre_reset_honest_validator; cc2.pre_reset_arg = NULL;
	sv2 = sv; sv2.mismatch_key = 1;
	rcache.vtable = &rcache_vtable; rcache.version = sp.version; rcache.suite = sp.cipher_suite; rcache.loads = rcache.saves = 0;
	memset(rcache.master, 0, 48);            /* what a context that never completed a handshake holds */
	if (prior_session == 2) { memcpy(rcache.master, prior_master, 48); vf_stat("poisoned_session_rogue_knows_earlier_secret", 1); }
	sv2.cache = &rcache.vtable;
	tp_ep_free(&p.s);
	p.c2s.rd = p.c2s.wr = 0; p.s2c.rd = p.s2c.wr = 0;
	calls_before = p.c.xw->n_end_chain;
	if (!tp_ep_start(&p.c, &cc2) || !tp_ep_start(&p.s, &sv2)) { TP_VIOL("setup:reset-failed", "reset (second attempt)"); tp_pair_free(&p); return; }
	tp_pump_until_quiet(&p, 200000);
	poke_apps(&p);
	vf_stat("poisoned_session_cases", 1);
	vf_stat("poisoned_session_cache_lookups", rcache.loads);
	if (tp_ep_ready(&p.c) || p.c.ever_sendapp || p.c.rx_done > 0 || p.s.rx_done > 0) {
		snprintf(what, sizeof what, "%s: the client resumed a session that was never established (ID taken from the failed attempt): ready=%d, validator runs in this attempt=%d, client err=%d server err=%d, data delivered c=%zu s=%zu",
			nm, tp_ep_ready(&p.c), p.c.xw->n_end_chain - calls_before, br_ssl_engine_last_error(p.c.eng), br_ssl_engine_last_error(p.s.eng), (size_t)p.c.rx_done, (size_t)p.s.rx_done);
		TP_VIOL("unauthenticated-peer-accepted:client", what);
	}
	tp_pair_free(&p);
}

static void
auth_scenarios(long long seed)
{
	int kx;
	unsigned v;
	outcome o;
	tp_fixtures();
	tp_load_anchor(&pk_ec384, FX_srv_ec384_crt, FX_srv_ec384_crt_len);
	tp_load_anchor(&pk_weak, FX_weak_rsa_crt, FX_weak_rsa_crt_len);
	tp_load_anchor(&pk_srv_rsa, FX_srv_rsa_crt, FX_srv_rsa_crt_len);
	tp_load_anchor(&pk_srv_ecec, FX_srv_ecec_crt, FX_srv_ecec_crt_len);
	tp_load_anchor(&pk_srv_ecrsa, FX_srv_ecrsa_crt, FX_srv_ecrsa_crt_len);
	tp_load_anchor(&pk_cli_ec, FX_cli_ec_crt, FX_cli_ec_crt_len);
	for (kx = 0; kx < 5; kx ++) for (v = 0x0301; v <= 0x0303; v += 2) {
		scenario sc;
		vscript vs;
		int e;
		static const int verdicts[] = { BR_ERR_X509_EXPIRED, BR_ERR_X509_NOT_TRUSTED, BR_ERR_X509_BAD_SERVER_NAME,
			BR_ERR_X509_BAD_SIGNATURE, BR_ERR_X509_NOT_CA, BR_ERR_X509_WEAK_PUBLIC_KEY, BR_ERR_X509_CRITICAL_EXTENSION,
			BR_ERR_X509_EMPTY_CHAIN, BR_ERR_X509_DN_MISMATCH, BR_ERR_X509_FORBIDDEN_KEY_USAGE, 1, 33, 62 };
		sc.kx = kx; sc.version = v; sc.mode = 0; sc.cauth = 0;
		seeds_key = (uint64_t)seed * 7777 + (uint64_t)kx * 16 + v;
		snprintf(scen_desc, sizeof scen_desc, "seed=%lld auth kx=%s ver=%04x", seed, kxn[kx], v);
		/* (c) every scripted error verdict */
		for (e = 0; e < (int)(sizeof verdicts / sizeof verdicts[0]); e ++) {
			char nm[80];
			vs.verdict = verdicts[e]; vs.pkey_kind = 0; vs.usages = -1;
			run_scenario(&sc, NULL, 0, 0, &o, pre_reset_vscript, &vs, NULL, NULL, NULL, NULL);
			snprintf(nm, sizeof nm, "validator-verdict-%d", verdicts[e]);
			expect_refused(nm, &o, 0);
		}
		/* wrong key type / other key / other curve / key without the needed usage */
		vs.verdict = -1; vs.usages = -1; vs.pkey_kind = 1;
		run_scenario(&sc, NULL, 0, 0, &o, pre_reset_vscript, &vs, NULL, NULL, NULL, NULL);
		expect_refused("validator-returns-key-of-wrong-type", &o, 0);
		vs.pkey_kind = 4;
		run_scenario(&sc, NULL, 0, 0, &o, pre_reset_vscript, &vs, NULL, NULL, NULL, NULL);
		expect_refused("validator-returns-another-key", &o, 0);
		/* success verdict but no key at all */
		vs.pkey_kind = 5;
		run_scenario(&sc, NULL, 0, 0, &o, pre_reset_vscript, &vs, NULL, NULL, NULL, NULL);
		expect_refused("validator-accepts-but-returns-no-key", &o, 0);
		if (kx <= TP_KX_ECDHE_RSA) {
			/* an RSA modulus of 40 bytes; and the honest key with a zero-padded modulus (control: must complete) */
			vs.pkey_kind = 7;
			run_scenario(&sc, NULL, 0, 0, &o, pre_reset_vscript, &vs, NULL, NULL, NULL, NULL);
			expect_refused("validator-returns-320-bit-rsa-key", &o, 0);
			{
				int kk;
				for (kk = 8; kk <= 11; kk ++) {
					char nm[80];
					vs.pkey_kind = kk;
					run_scenario(&sc, NULL, 0, 0, &o, pre_reset_vscript, &vs, NULL, NULL, NULL, NULL);
					snprintf(nm, sizeof nm, "validator-returns-oversized-rsa-key-%d", kk - 8);
					expect_refused(nm, &o, 0);
				}
			}
			vs.pkey_kind = 6;
			run_scenario(&sc, NULL, 0, 0, &o, pre_reset_vscript, &vs, NULL, NULL, NULL, NULL);
			vf_stat("auth_controls", 1);
			if (!o.c_ready || !o.s_ready || o.c_err || o.s_err) {
				snprintf(tp_case, sizeof tp_case, "%s auth-case=control-rsa-modulus-with-leading-zero-bytes", scen_desc);
				TP_VIOL("auth-control-failed", "handshake did not complete when the validator returns the honest RSA key with leading zero bytes in the modulus");
			}
		}
		/* the server's validator accepts the client chain but returns no key */
		{
			scenario sc2 = sc;
			sc2.cauth = 1 + (kx & 1);
			vs.pkey_kind = 5;
			run_scenario(&sc2, NULL, 0, 0, &o, NULL, NULL, pre_reset_vscript, &vs, NULL, NULL);
			expect_refused("server-validator-accepts-client-chain-but-returns-no-key", &o, 1);
		}
		if (kx >= TP_KX_ECDHE_ECDSA) {
			vs.pkey_kind = 2;
			run_scenario(&sc, NULL, 0, 0, &o, pre_reset_vscript, &vs, NULL, NULL, NULL, NULL);
			expect_refused("validator-returns-ec-key-on-other-curve", &o, 0);
		}
		vs.pkey_kind = 0;
		vs.usages = (kx == TP_KX_RSA || kx == TP_KX_ECDH_RSA || kx == TP_KX_ECDH_ECDSA) ? BR_KEYTYPE_SIGN : BR_KEYTYPE_KEYX;
		run_scenario(&sc, NULL, 0, 0, &o, pre_reset_vscript, &vs, NULL, NULL, NULL, NULL);
		expect_refused("validator-returns-key-without-needed-usage", &o, 0);
		vs.usages = 0;
		run_scenario(&sc, NULL, 0, 0, &o, pre_reset_vscript, &vs, NULL, NULL, NULL, NULL);
		expect_refused("validator-returns-key-without-any-usage", &o, 0);
		/* (d) proof of possession: server uses a private key that does not match its chain */
		{
			tp_cfg cc, sv; uint16_t sb[1]; vf_rng r;
			vf_rng_init(&r, seeds_key, 3);
			cfg_for(&sc, &cc, &sv, sb, &r, 0);
			sv.mismatch_key = 1;
			run_scenario(&sc, NULL, 0, 0, &o, NULL, NULL, NULL, NULL, &cc, &sv);
			expect_refused("server-key-does-not-match-certificate", &o, 0);
			/* client certificate with a mismatching key (CertificateVerify by another key) */
			cfg_for(&sc, &cc, &sv, sb, &r, 0);
			cc.client_auth = 1 + (kx & 1); sv.client_auth = 1; cc.mismatch_key = 1;
			run_scenario(&sc, NULL, 0, 0, &o, NULL, NULL, NULL, NULL, &cc, &sv);
			expect_refused("client-key-does-not-match-client-certificate", &o, 1);
			/* honest client certificate: control (must complete) */
			cfg_for(&sc, &cc, &sv, sb, &r, 0);
			cc.client_auth = 1 + (kx & 1); sv.client_auth = 1;
			run_scenario(&sc, NULL, 0, 0, &o, NULL, NULL, NULL, NULL, &cc, &sv);
			vf_stat("auth_controls", 1);
			if (!o.c_ready || !o.s_ready || o.c_err || o.s_err) {
				snprintf(tp_case, sizeof tp_case, "%s auth-case=control-client-cert", scen_desc);
				TP_VIOL("auth-control-failed", "handshake with an honest client certificate did not complete");
			}
		}
		/* static ECDH client authentication by somebody who holds a certificate but not its key: the
		   certified key is on another curve than the server's (the server's ECDH fails) or on the same
		   curve; the rogue derives its Finished from premaster guesses made of public data */
		if (kx == TP_KX_ECDH_RSA || kx == TP_KX_ECDH_ECDSA) {
			int victim, g;
			for (victim = 0; victim < 2; victim ++) for (g = 0; g < 6; g ++) {
				tp_cfg cc, sv; uint16_t sb[1]; vf_rng r;
				const br_x509_certificate *vc = victim == 0 ? tp_fx.ch_srv_ec384 : tp_fx.ch_cli_ec;
				const br_x509_pkey *vpk = victim == 0 ? &pk_ec384.ta.pkey : &pk_cli_ec.ta.pkey;
				const br_x509_pkey *spk = kx == TP_KX_ECDH_ECDSA ? &pk_srv_ecec.ta.pkey : &pk_srv_ecrsa.ta.pkey;
				char nm[120];
				static const char *gn[6] = { "victim-point-bytes-1..32", "zeros", "server-point-x", "victim-point-bytes-0..31",
					"victim-point-y-bytes", "victim-point-bytes-1..48" };
				vf_rng_init(&r, seeds_key, 40 + victim * 8 + g);
				cfg_for(&sc, &cc, &sv, sb, &r, 0);
				cc.client_auth = 0; sv.client_auth = 1;
				rcc.chain = vc; rcc.chain_len = 1;
				rcc.guess_len = 32;
				memset(rcc.guess, 0, sizeof rcc.guess);
				switch (g) {
				case 0: memcpy(rcc.guess, vpk->key.ec.q + 1, 32); break;
				case 1: break;
				case 2: memcpy(rcc.guess, spk->key.ec.q + 1, 32); break;
				case 3: memcpy(rcc.guess, vpk->key.ec.q, 32); break;
				case 4: memcpy(rcc.guess, vpk->key.ec.q + 1 + (vpk->key.ec.qlen - 1) / 2, 32); break;
				default: memcpy(rcc.guess, vpk->key.ec.q + 1, 48); rcc.guess_len = 48; break;
				}
				run_scenario(&sc, NULL, 0, 0, &o, pre_reset_rogue_ccert, NULL, NULL, NULL, &cc, &sv);
				snprintf(nm, sizeof nm, "static-ecdh-client-without-key:%s:premaster=%s", victim == 0 ? "certificate-on-P384" : "certificate-on-P256", gn[g]);
				expect_refused(nm, &o, 1);
				vf_stat("rogue_static_ecdh_runs", 1);
				vf_stat("rogue_static_ecdh_keyx_calls", rcc.keyx_calls);
				vf_distinct("rogue_static_ecdh", "%s/%04x/%d/%d auth_types=%x", kxn[kx], v, victim, g, rcc.auth_types);
			}
		}
		/* the server's validator judging the client's chain: every error verdict, a key of the wrong type, another
		   key, a key without the signature usage; with and without BR_OPT_TOLERATE_NO_CLIENT_AUTH */
		{
			static const int sverd[] = { BR_ERR_X509_NOT_TRUSTED, BR_ERR_X509_EXPIRED, BR_ERR_X509_BAD_SIGNATURE, BR_ERR_X509_WEAK_PUBLIC_KEY, 33 };
			int q, tol;
			for (tol = 0; tol < 2; tol ++) for (q = 0; q < 8; q ++) {
				tp_cfg cc, sv; uint16_t sb[1]; vf_rng r;
				scenario sc2 = sc;
				char nm[100];
				int static_ecdh;
				sc2.cauth = 1 + ((kx + q) & 1);
				vf_rng_init(&r, seeds_key, 60 + (uint64_t)q + 16 * (uint64_t)tol);
				cfg_for(&sc2, &cc, &sv, sb, &r, 0);
				if (tol) { sv.flags_set = 1; sv.flags = BR_OPT_TOLERATE_NO_CLIENT_AUTH; }
				/* strict servers: every second one with all the other option flags set: none of them relaxes authentication */
				else if (q & 1) { sv.flags_set = 1; sv.flags = BR_OPT_ENFORCE_SERVER_PREFERENCES | BR_OPT_NO_RENEGOTIATION | BR_OPT_FAIL_ON_ALPN_MISMATCH; }
				else if (q & 2) { sv.flags_set = 1; sv.flags = BR_OPT_FAIL_ON_ALPN_MISMATCH; }
				vs.verdict = -1; vs.pkey_kind = 0; vs.usages = -1;
				if (q < 5) vs.verdict = sverd[q];
				else if (q == 5) vs.pkey_kind = 1;
				else if (q == 6) vs.pkey_kind = 4;
				else vs.usages = ((kx == TP_KX_ECDH_RSA || kx == TP_KX_ECDH_ECDSA) && sc2.cauth == 2) ? BR_KEYTYPE_SIGN : BR_KEYTYPE_KEYX;   /* the usage the authentication method does NOT need */
				run_scenario(&sc2, NULL, 0, 0, &o, NULL, NULL, pre_reset_vscript, &vs, &cc, &sv);
				/* static ECDH with the client's certificate: the note in the header says failure to validate prevents success */
				static_ecdh = (kx == TP_KX_ECDH_RSA || kx == TP_KX_ECDH_ECDSA) && sc2.cauth == 2;
				snprintf(nm, sizeof nm, "server-validator-%s-client-chain:case%d%s", tol ? "tolerant" : "strict", q, static_ecdh ? ":static-ecdh" : "");
				if (!tol) {
					expect_refused(nm, &o, 1);
				} else if (q < 5) {
					/* rejected chain + tolerance: the connection keeps on (documented), unless static ECDH was used */
					snprintf(tp_case, sizeof tp_case, "%s auth-case=%s", scen_desc, nm);
					vf_stat("auth_cases", 1);
					if (static_ecdh) {
						if (o.s_ready) TP_VIOL("unauthenticated-peer-accepted:server", "static ECDH with a client chain the validator rejected completed");
					} else if (!o.c_ready || !o.s_ready || o.c_err || o.s_err) {
						TP_VIOL("auth-control-failed", "BR_OPT_TOLERATE_NO_CLIENT_AUTH: handshake did not keep on after the client chain was rejected");
					} else vf_stat("auth_controls", 1);
				} else if (q == 6) {
					/* chain accepted, but the key returned is not the one that signed: wrong signature terminates regardless of the flag */
					expect_refused(nm, &o, 1);
				} else {
					/* accepted chain with an unusable key (type / usage): documented neither way under tolerance: executed, not judged */
					vf_stat("auth_unjudged_tolerant_unusable_key", 1);
				}
			}
		}
		/* renegotiation: the validators are consulted again, and their second answer counts: a chain refused (or a key
		   that does not fit) in the second handshake ends the connection, the endpoint does not come out of it ready on
		   new secrets, and no further data is delivered; with honest answers the renegotiation completes (control) */
		{
			static const int rverd[] = { BR_ERR_X509_NOT_TRUSTED, BR_ERR_X509_EXPIRED, BR_ERR_X509_BAD_SERVER_NAME, 33 };
			int q, side;
			for (side = 0; side < 2; side ++) for (q = 0; q < 8; q ++) {
				scenario sc2 = sc;
				char nm[100];
				int victim_ready, victim_err;
				sc2.mode = 2; sc2.cauth = side ? 1 + ((kx + q) & 1) : (q & 1);
				vs.verdict = -1; vs.pkey_kind = 0; vs.usages = -1;
				if (q < 4) vs.verdict = rverd[q];
				else if (q == 4) vs.pkey_kind = 1;
				else if (q == 5) vs.pkey_kind = 4;
				else if (q == 6) vs.pkey_kind = 5;
				/* q == 7: honest control */
				if (side && q == 5 && sc2.cauth == 2 && (kx == TP_KX_ECDH_RSA || kx == TP_KX_ECDH_ECDSA)) vs.pkey_kind = 1;
				at_reneg_c = side ? NULL : &vs; at_reneg_s = side ? &vs : NULL;
				run_scenario(&sc2, NULL, 0, 0, &o, NULL, NULL, NULL, NULL, NULL, NULL);
				at_reneg_c = at_reneg_s = NULL;
				snprintf(nm, sizeof nm, "%s-validator-at-renegotiation:case%d:cauth%d", side ? "server" : "client", q, sc2.cauth);
				snprintf(tp_case, sizeof tp_case, "%s auth-case=%s", scen_desc, nm);
				vf_stat("auth_cases", 1);
				if (!o.hs1_ok) { TP_VIOL("auth-control-failed", "first handshake of a renegotiation scenario did not complete"); continue; }
				if (calls_reneg[side] < 1) { TP_VIOL("renegotiation-without-validation", "the validator was not consulted for the chain of the second handshake"); continue; }
				vf_stat("reneg_validator_consulted", 1);
				victim_ready = side ? (o.s_ready_end && o.s_rekeyed) : (o.c_ready_end && o.c_rekeyed);
				victim_err = side ? o.s_err : o.c_err;
				if (q == 7) {
					if (!o.reneg_done || !o.c_rekeyed || !o.s_rekeyed || o.c_err || o.s_err || !o.c_rx || !o.s_rx)
						TP_VIOL("auth-control-failed", "honest renegotiation did not complete with new secrets and flowing data");
					else vf_stat("auth_controls", 1);
					continue;
				}
				if (victim_ready) { TP_VIOL(side ? "unauthenticated-peer-accepted:server:renegotiation" : "unauthenticated-peer-accepted:client:renegotiation", "endpoint completed a renegotiation whose chain its validator refused"); continue; }
				if (o.c_rx || o.s_rx) { TP_VIOL("data-delivered-to-unauthenticated-peer", "data delivered after a renegotiation whose chain was refused"); continue; }
				/* (a key that is not the peer's makes the peer fail, silently when it is its record layer that notices) */
				if (victim_err == 0 && (vs.verdict != -1 || (o.c_err == 0 && o.s_err == 0))) {
					char w2[200];
					snprintf(w2, sizeof w2, "endpoint whose validator refused the chain of the renegotiation reports no error (c_err=%d s_err=%d c_ready_end=%d s_ready_end=%d rekeyed=%d/%d closed=%d/%d)",
						o.c_err, o.s_err, o.c_ready_end, o.s_ready_end, o.c_rekeyed, o.s_rekeyed, o.c_closed, o.s_closed);
					TP_VIOL("unauthenticated-peer-no-failure", w2); continue;
				}
				vf_stat("reneg_refusals", 1);
			}
		}
		/* a session ID learnt from a failed attempt must not be resumable */
		{
			int fk, ps;
			for (fk = 0; fk < 2; fk ++) for (ps = 0; ps < 3; ps ++) poisoned_session_case(&sc, fk, ps);
		}
		/* weak server key: honest validator must refuse (RSA kx only: the weak fixture is RSA) */
		if (kx <= TP_KX_ECDHE_RSA) {
			tp_cfg cc, sv; uint16_t sb[1]; vf_rng r;
			vf_rng_init(&r, seeds_key, 4);
			cfg_for(&sc, &cc, &sv, sb, &r, 0);
			sv.keykind = TP_KEY_RSA_WEAK;
			run_scenario(&sc, NULL, 0, 0, &o, NULL, NULL, NULL, NULL, &cc, &sv);
			expect_refused("server-rsa-key-below-minimum-size", &o, 0);
		}
		/* (e) rogue server: chooses a suite the client did not offer / a TLS-1.2-only suite below 1.2 */
		{
			int ov;
			uint16_t offered = suite_for(kx, v, 0);
			uint16_t other = suite_for(kx, v, 1);
			ov = other;
			rogue_extra[0] = rogue_extra[1] = 0;
			if (other != offered) {
				run_scenario(&sc, NULL, 0, 0, &o, NULL, NULL, pre_reset_rogue, &ov, NULL, NULL);
				expect_refused("server-chooses-suite-not-offered", &o, 0);
			}
			if (v < 0x0303) {
				ov = suite_for(kx, 0x0303, 0);
				run_scenario(&sc, NULL, 0, 0, &o, NULL, NULL, pre_reset_rogue, &ov, NULL, NULL);
				expect_refused("server-chooses-tls12-only-suite-below-tls12", &o, 0);
			}
		}
		/* wrong-signature-algorithm substitution: the client lacks a hash function; a rogue server signs its
		   ServerKeyExchange with exactly that hash (honestly, or with trivial forgeries) */
		if (v == 0x0303 && (kx == TP_KX_ECDHE_RSA || kx == TP_KX_ECDHE_ECDSA)) {
			static const int hids[4] = { 2, 3, 5, 6 };
			int hi, fg, zero = 0;
			for (hi = 0; hi < 4; hi ++) for (fg = 0; fg < 5; fg ++) {
				char nm[100];
				int hid = hids[hi];
				if (kx == TP_KX_ECDHE_ECDSA && (fg == 3)) continue;
				if (kx == TP_KX_ECDHE_RSA && (fg == 1 || fg == 2)) continue;
				rogue_extra[0] = 0xFF00 + hid; rogue_extra[1] = fg;
				rogue.qx = pk_srv_ecec.ta.pkey.key.ec.q + 1; rogue.qx_len = 32;
				run_scenario(&sc, NULL, 0, 0, &o, pre_reset_drop_hash, &hid, pre_reset_rogue, &zero, NULL, NULL);
				snprintf(nm, sizeof nm, "ske-signed-with-hash-%d-the-client-lacks-forge-%d", hid, fg);
				expect_refused(nm, &o, 0);
			}
			rogue_extra[0] = rogue_extra[1] = 0;
			/* control: the same client (hash removed) with an honest server completes */
			{
				int hid = 2;
				run_scenario(&sc, NULL, 0, 0, &o, pre_reset_drop_hash, &hid, NULL, NULL, NULL, NULL);
				vf_stat("auth_controls", 1);
				if (!o.c_ready || !o.s_ready || o.c_err || o.s_err) {
					snprintf(tp_case, sizeof tp_case, "%s auth-case=control-client-without-sha1", scen_desc);
					TP_VIOL("auth-control-failed", "handshake of a client without SHA-1 with an honest server did not complete");
				}
			}
		}
		/* version ranges that do not intersect; fallback SCSV */
		{
			tp_cfg cc, sv; uint16_t sb[2]; vf_rng r;
			vf_rng_init(&r, seeds_key, 6);
			cfg_for(&sc, &cc, &sv, sb, &r, 0);
			cc.vmin = cc.vmax = 0x0303; sv.vmin = 0x0301; sv.vmax = 0x0302;
			sb[0] = suite_for(kx, 0x0301, 0);
			run_scenario(&sc, NULL, 0, 0, &o, NULL, NULL, NULL, NULL, &cc, &sv);
			expect_refused("server-max-version-below-client-min", &o, 2);
			cfg_for(&sc, &cc, &sv, sb, &r, 0);
			cc.vmin = 0x0301; cc.vmax = 0x0301; sv.vmin = 0x0302; sv.vmax = 0x0303;
			sb[0] = suite_for(kx, 0x0301, 0);
			run_scenario(&sc, NULL, 0, 0, &o, NULL, NULL, NULL, NULL, &cc, &sv);
			expect_refused("client-max-version-below-server-min", &o, 2);
			/* fallback SCSV: every (client maximum, server range): the client retries at a lower version and says so.
			   Refused (whatever the server's minimum) exactly when the server supports more than the client's maximum;
			   a control otherwise: must complete */
			{
				unsigned cm, smin, smax;
				for (cm = 0x0301; cm <= 0x0303; cm ++) for (smin = 0x0301; smin <= 0x0303; smin ++) for (smax = smin; smax <= 0x0303; smax ++) {
					char nm[80];
					if (cm < smin) continue;          /* no common version: covered above */
					cfg_for(&sc, &cc, &sv, sb, &r, 0);
					cc.vmin = 0x0301; cc.vmax = cm; sv.vmin = smin; sv.vmax = smax;
					sb[0] = suite_for(kx, 0x0301, 0); sb[1] = 0x5600; cc.nsuites = 2;
					run_scenario(&sc, NULL, 0, 0, &o, NULL, NULL, NULL, NULL, &cc, &sv);
					snprintf(nm, sizeof nm, "fallback-scsv:client-max=%04x:server=%04x-%04x", cm, smin, smax);
					if (cm < smax) {
						expect_refused(nm, &o, 2);
						if (o.s_err == BR_ERR_SEND_FATAL_ALERT + 86) vf_stat("fallback_alert_86", 1);
						else vf_stat("fallback_other_error_code", 1);       /* informational: the property does not fix the code */
					} else {
						vf_stat("auth_controls", 1);
						if (!o.c_ready || !o.s_ready || o.c_err || o.s_err) {
							snprintf(tp_case, sizeof tp_case, "%s auth-case=control-%s", scen_desc, nm);
							TP_VIOL("auth-control-failed", "handshake with TLS_FALLBACK_SCSV at the server's highest version did not complete");
						}
					}
				}
			}
		}
		vf_distinct("auth_scenario", "%s/%04x", kxn[kx], v);
	}
}


int
main(int argc, char **argv)
{
	long long seed = vf_argi(argc, argv, "--seed", 1);
	int worker = (int)vf_argi(argc, argv, "--worker", 0);
	int nworkers = (int)vf_argi(argc, argv, "--nworkers", 1);
	int full_scen = (int)vf_argi(argc, argv, "--full-scenarios", 6);   /* scenarios swept on every byte */
	int sample = (int)vf_argi(argc, argv, "--sample", 8);              /* 1/sample of bytes for the rest */
	int nx = (int)vf_argi(argc, argv, "--xors", 1);
	int max_scen = (int)vf_argi(argc, argv, "--scenarios", 1000);
	scenario scs[200];
	int nsc = 0, si;
	int kx, m, ca;
	unsigned v;
	long gidx = 0;

	tp_prop = vf_arg(argc, argv, "--prop", "C03");
	tp_fixtures();
	/* scenario list: priority order so that the first `full_scen` are diverse */
	{
		static const scenario first[] = {
			{ TP_KX_RSA, 0x0303, 0, 0 }, { TP_KX_ECDHE_RSA, 0x0303, 0, 1 }, { TP_KX_ECDHE_ECDSA, 0x0301, 0, 2 },
			{ TP_KX_ECDH_ECDSA, 0x0302, 0, 0 }, { TP_KX_ECDHE_RSA, 0x0303, 1, 0 }, { TP_KX_ECDHE_ECDSA, 0x0303, 2, 0 },
			{ TP_KX_ECDH_RSA, 0x0303, 0, 0 }, { TP_KX_RSA, 0x0301, 1, 0 }, { TP_KX_RSA, 0x0302, 2, 1 },
		};
		for (si = 0; si < (int)(sizeof first / sizeof first[0]); si ++) scs[nsc ++] = first[si];
		for (kx = 0; kx < 5; kx ++) for (v = 0x0301; v <= 0x0303; v ++) for (m = 0; m < 3; m ++) for (ca = 0; ca < 3; ca ++) {
			int dup = 0;
			for (si = 0; si < 9; si ++) if (scs[si].kx == kx && scs[si].version == v && scs[si].mode == m && scs[si].cauth == ca) dup = 1;
			if (dup) continue;
			/* the full product is 135; client auth on resumed handshakes adds nothing (no certificate is sent) */
			if (m == 1 && ca != 0) continue;
			scs[nsc].kx = kx; scs[nsc].version = v; scs[nsc].mode = m; scs[nsc].cauth = ca; nsc ++;
		}
	}
	if (nsc > max_scen) nsc = max_scen;

	for (si = 0; si < nsc; si ++) {
		const scenario *sc = &scs[si];
		outcome o;
		int d, k, every = si < full_scen ? 1 : sample;
		vf_rng r;

		seeds_key = (uint64_t)seed * 1000003 + (uint64_t)si;
		vf_rng_init(&r, seeds_key, 5);
		snprintf(scen_desc, sizeof scen_desc, "seed=%lld scen=%d kx=%s ver=%04x mode=%s cauth=%d",
			seed, si, kxn[sc->kx], sc->version, moden[sc->mode], sc->cauth);
		snprintf(tp_case, sizeof tp_case, "%s reference", scen_desc);
		/* reference run */
		nref[0] = nref[1] = 0; hs2_start[0] = hs2_start[1] = 0;
		run_scenario(sc, NULL, 1, 0, &o, NULL, NULL, NULL, NULL, NULL, NULL);
		if (!o.hs1_ok || !o.c_ready || !o.s_ready || o.c_err || o.s_err) {
			char what[200];
			snprintf(what, sizeof what, "reference handshake failed: c_ready=%d s_ready=%d c_err=%d s_err=%d", o.c_ready, o.s_ready, o.c_err, o.s_err);
			TP_VIOL("reference:handshake-incomplete", what);
			continue;
		}
		if (sc->mode == 2 && !o.reneg_done) { TP_VIOL("reference:renegotiation-incomplete", "reference renegotiation did not complete"); continue; }
		if (sc->mode == 1 && !o.abbreviated) { TP_VIOL("reference:not-abbreviated", "second handshake of the resumption scenario was not abbreviated"); continue; }
		if (sc->mode != 1 && (o.validator_calls < 1 || o.validator_verdict != 0 || !o.chain_ok || strcmp(o.vname, "localhost") != 0)) {
			TP_VIOL("validator:not-consulted", "client became ready without the validator having accepted exactly the configured chain for the requested name");
			continue;
		}
		/* second session for substitutions */
		nalt[0] = nalt[1] = 0;
		run_scenario(sc, NULL, 2, 1, &o, NULL, NULL, NULL, NULL, NULL, NULL);
		if ((si % nworkers) == worker || 1) {
			vf_distinct("scenario", "%s/%04x/%s/ca%d", kxn[sc->kx], sc->version, moden[sc->mode], sc->cauth);
		}
		if (worker == 0) vf_stat("reference_runs", 1);

		/* --- byte faults --- */
		for (d = 0; d < 2; d ++) {
			for (k = 0; k < nref[d]; k ++) {
				const rrec *q = &ref[d][k];
				size_t b;
				if (q->off < hs2_start[d]) continue;      /* bytes of the preparatory phase are not attacked */
				for (b = 0; b < q->len; b ++) {
					int xi;
					if (q->type != 22 && q->type != 20) continue;
					for (xi = 0; xi < nx; xi ++, gidx ++) {
						fault f;
						char fd[160];
						if ((gidx % (long)every) != 0) continue;
						if (((gidx / every) % nworkers) != worker) continue;
						f.kind = F_XOR; f.dir = d; f.off = q->off + b - (sc->mode == 1 ? 0 : 0);
						f.x = xi == 0 ? 0x01 : (xi == 1 ? 0x80 : (unsigned char)(1 + vf_below(&r, 255)));
						f.idx = k;
						snprintf(fd, sizeof fd, "xor dir=%d rec=%d(type %d%s) byte=%zu off=%zu x=%02x", d, k, q->type,
							q->prot ? ",protected" : "", b, f.off, f.x);
						run_scenario(sc, &f, 0, 0, &o, NULL, NULL, NULL, NULL, NULL, NULL);
						if (b < 5) {
							judge_header_fault(&f, &o, fd);
							vf_stat("faults_header_byte", 1);
						} else {
							judge_message_fault(sc, &f, &o, fd, q->prot);
							vf_stat(q->prot ? "faults_protected_byte" : "faults_message_byte", 1);
						}
					}
				}
			}
		}
		/* --- record-level faults --- */
		for (d = 0; d < 2; d ++) {
			for (k = 0; k < nref[d]; k ++) {
				int kind;
				if (ref[d][k].off < hs2_start[d]) continue;
				if (ref[d][k].type != 22 && ref[d][k].type != 20) continue;
				for (kind = F_DROPREC; kind <= F_SUBST; kind ++, gidx ++) {
					fault f;
					char fd[160];
					int idx_local = k;
					if ((gidx % nworkers) != worker) continue;
					if (kind == F_SWAPREC && (k + 1 >= nref[d] || (ref[d][k + 1].type != 22 && ref[d][k + 1].type != 20))) continue;
					/* record numbering in the attacked phase: for reneg count from stream start */
					f.kind = kind; f.dir = d; f.off = 0; f.x = 0; f.idx = idx_local;
					snprintf(fd, sizeof fd, "%s dir=%d rec=%d(type %d)", kind == F_DROPREC ? "drop-record" :
						kind == F_DUPREC ? "duplicate-record" : kind == F_SWAPREC ? "swap-records" : "substitute-record-from-other-session",
						d, k, ref[d][k].type);
					if (sc->mode == 2) {
						/* record indexes restart when the fault is armed: translate */
						int j, first = 0;
						for (j = 0; j < nref[d]; j ++) if (ref[d][j].off >= hs2_start[d]) { first = j; break; }
						f.idx = k - first;
						if (kind == F_SUBST) continue;
					}
					run_scenario(sc, &f, 0, 0, &o, NULL, NULL, NULL, NULL, NULL, NULL);
					/* a substituted record that happens to be byte-identical (e.g. CCS) is not an alteration */
					if (kind == F_SUBST && k < nalt[d] && alt[d][k].len == ref[d][k].len
						&& memcmp(altstream[d] + alt[d][k].off, refstream[d] + ref[d][k].off, ref[d][k].len) == 0)
					{
						vf_stat("faults_identity_skipped", 1);
						continue;
					}
					judge_message_fault(sc, &f, &o, fd, 0);
					vf_stat("faults_record_level", 1);
				}
			}
		}
	}
	if (worker == nworkers - 1 && vf_argi(argc, argv, "--auth", 1)) auth_scenarios(seed);
	vf_stat("cases", n_faults + n_auth);
	vf_stat("victim_failed_with_error", n_victim_failed);
	vf_stat("victim_blocked_peer_failed", n_victim_blocked);
	vf_stat("header_fault_completed_consistently", n_header_ok);
	vf_stat("header_fault_failed", n_header_failed);
	vf_stat("fault_not_reached", n_not_applied);
	vf_stat("both_sides_left_waiting", n_stuck);
	vf_stat("monitored_calls", tp_calls);
	vf_sample("{\"scenarios\":%d,\"faults\":%lld,\"last\":\"%s\"}", nsc, n_faults, tp_case);
	vf_done();
	return 0;
}
