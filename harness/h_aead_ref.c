/*
 * C14 - reference side of the AEAD harness (second translation unit of
 * h_aead, listed as extra_src). Nothing in this file calls BearSSL.
 *
 *   GCM : OpenSSL EVP AES-{128,192,256}-GCM
 *   CCM : OpenSSL EVP AES-*-CCM, cross-checked against a direct RFC 3610
 *         implementation over EVP AES-ECB (ref_ccm_own)
 *   EAX : written from the EAX paper (Bellare, Rogaway, Wagner):
 *         OMAC^t = OpenSSL EVP_MAC "CMAC" over [t]_128 || M, CTR = EVP AES-CTR
 *   plus GF(2^128) helpers used to craft nonces that make the GCM/EAX
 *   counters wrap.
 */
#include <stdio.h>
#include <stdlib.h>
#include <string.h>
#include <stdint.h>
#include <openssl/evp.h>
#include <openssl/params.h>
#include <openssl/core_names.h>

static EVP_CIPHER *c_gcm[3], *c_ccm[3], *c_ecb[3], *c_ctr[3];
static EVP_MAC *m_cmac;
static EVP_CIPHER_CTX *g_cc;

static void
die(const char *what)
{
	fprintf(stderr, "HARNESS_ASSERT ref-%s\n", what);
	fflush(stderr);
	exit(3);
}

static int kidx(size_t klen) { return klen == 16 ? 0 : klen == 24 ? 1 : 2; }

void
ref_init(void)
{
	static const char *bits[3] = { "128", "192", "256" };
	int i;
	char nm[32];

	for (i = 0; i < 3; i ++) {
		snprintf(nm, sizeof nm, "AES-%s-GCM", bits[i]);
		c_gcm[i] = EVP_CIPHER_fetch(NULL, nm, NULL);
		snprintf(nm, sizeof nm, "AES-%s-CCM", bits[i]);
		c_ccm[i] = EVP_CIPHER_fetch(NULL, nm, NULL);
		snprintf(nm, sizeof nm, "AES-%s-ECB", bits[i]);
		c_ecb[i] = EVP_CIPHER_fetch(NULL, nm, NULL);
		snprintf(nm, sizeof nm, "AES-%s-CTR", bits[i]);
		c_ctr[i] = EVP_CIPHER_fetch(NULL, nm, NULL);
		if (!c_gcm[i] || !c_ccm[i] || !c_ecb[i] || !c_ctr[i]) die("fetch");
	}
	m_cmac = EVP_MAC_fetch(NULL, "CMAC", NULL);
	if (!m_cmac) die("fetch-cmac");
	g_cc = EVP_CIPHER_CTX_new();
	if (!g_cc) die("ctx");
}

/* ------------------------------------------------------------------ */
/* AES single block */

void
ref_aes_block(const unsigned char *key, size_t klen, int enc,
	const unsigned char *in, unsigned char *out)
{
	int l = 0;
	unsigned char tmp[32];

	EVP_CIPHER_CTX_reset(g_cc);
	if (EVP_CipherInit_ex(g_cc, c_ecb[kidx(klen)], NULL, key, NULL, enc) != 1) die("ecb-init");
	EVP_CIPHER_CTX_set_padding(g_cc, 0);
	if (EVP_CipherUpdate(g_cc, tmp, &l, in, 16) != 1 || l != 16) die("ecb-upd");
	memcpy(out, tmp, 16);
}

/* ------------------------------------------------------------------ */
/* GCM */

void
ref_gcm(const unsigned char *key, size_t klen,
	const unsigned char *nonce, size_t nlen,
	const unsigned char *aad, size_t alen,
	const unsigned char *msg, size_t mlen,
	unsigned char *ct, unsigned char *tag16)
{
	int l = 0;
	unsigned char dummy[16];

	EVP_CIPHER_CTX_reset(g_cc);
	if (EVP_EncryptInit_ex(g_cc, c_gcm[kidx(klen)], NULL, NULL, NULL) != 1) die("gcm-init");
	if (EVP_CIPHER_CTX_ctrl(g_cc, EVP_CTRL_AEAD_SET_IVLEN, (int)nlen, NULL) != 1) die("gcm-ivlen");
	if (EVP_EncryptInit_ex(g_cc, NULL, NULL, key, nonce) != 1) die("gcm-key");
	if (alen > 0 && EVP_EncryptUpdate(g_cc, NULL, &l, aad, (int)alen) != 1) die("gcm-aad");
	if (mlen > 0 && EVP_EncryptUpdate(g_cc, ct, &l, msg, (int)mlen) != 1) die("gcm-upd");
	if (EVP_EncryptFinal_ex(g_cc, dummy, &l) != 1) die("gcm-fin");
	if (EVP_CIPHER_CTX_ctrl(g_cc, EVP_CTRL_AEAD_GET_TAG, 16, tag16) != 1) die("gcm-tag");
}

/* 1 if (nonce, aad, ct, tag[0..tlen)) verifies under GCM */
int
ref_gcm_verify(const unsigned char *key, size_t klen,
	const unsigned char *nonce, size_t nlen,
	const unsigned char *aad, size_t alen,
	const unsigned char *ct, size_t mlen,
	const unsigned char *tag, size_t tlen)
{
	/*
	 * GHASH/tag are functions of (nonce, aad, ct); recompute through
	 * the encryption direction: decrypt ct to pt with CTR (GCM decrypt
	 * without tag check is not offered), so instead use EVP decrypt with
	 * the expected tag.
	 */
	int l = 0, r;
	unsigned char *tmp = malloc(mlen + 16);
	unsigned char tg[16];

	memcpy(tg, tag, tlen);
	EVP_CIPHER_CTX_reset(g_cc);
	if (EVP_DecryptInit_ex(g_cc, c_gcm[kidx(klen)], NULL, NULL, NULL) != 1) die("gcmv-init");
	if (EVP_CIPHER_CTX_ctrl(g_cc, EVP_CTRL_AEAD_SET_IVLEN, (int)nlen, NULL) != 1) die("gcmv-ivlen");
	if (EVP_DecryptInit_ex(g_cc, NULL, NULL, key, nonce) != 1) die("gcmv-key");
	if (alen > 0 && EVP_DecryptUpdate(g_cc, NULL, &l, aad, (int)alen) != 1) die("gcmv-aad");
	if (mlen > 0 && EVP_DecryptUpdate(g_cc, tmp, &l, ct, (int)mlen) != 1) die("gcmv-upd");
	if (EVP_CIPHER_CTX_ctrl(g_cc, EVP_CTRL_AEAD_SET_TAG, (int)tlen, tg) != 1) die("gcmv-settag");
	r = EVP_DecryptFinal_ex(g_cc, tmp + mlen, &l);
	free(tmp);
	return r > 0;
}

/* ------------------------------------------------------------------ */
/* CCM: direct RFC 3610 / SP 800-38C implementation over AES-ECB */

void
ref_ccm_own(const unsigned char *key, size_t klen,
	const unsigned char *nonce, size_t nlen,
	const unsigned char *aad, size_t alen,
	const unsigned char *msg, size_t mlen, size_t tlen,
	unsigned char *ct, unsigned char *tag)
{
	unsigned char x[16], b[16], a[16], s[16], s0[16];
	size_t q = 15 - nlen, u, off, i;
	uint64_t v;

	/* B0 */
	b[0] = (unsigned char)((alen > 0 ? 0x40 : 0) | (((tlen - 2) / 2) << 3) | (q - 1));
	memcpy(b + 1, nonce, nlen);
	v = mlen;
	for (u = 0; u < q; u ++) { b[15 - u] = (unsigned char)v; v >>= 8; }
	ref_aes_block(key, klen, 1, b, x);
	/* AAD with its length header, zero padded */
	if (alen > 0) {
		unsigned char hdr[10];
		size_t hl, pos = 0, total;

		if (alen < 0xFF00) {
			hdr[0] = (unsigned char)(alen >> 8); hdr[1] = (unsigned char)alen; hl = 2;
		} else if ((uint64_t)alen <= 0xFFFFFFFFull) {
			hdr[0] = 0xFF; hdr[1] = 0xFE;
			hdr[2] = (unsigned char)(alen >> 24); hdr[3] = (unsigned char)(alen >> 16);
			hdr[4] = (unsigned char)(alen >> 8); hdr[5] = (unsigned char)alen; hl = 6;
		} else {
			hdr[0] = 0xFF; hdr[1] = 0xFF;
			for (u = 0; u < 8; u ++) hdr[2 + u] = (unsigned char)((uint64_t)alen >> (56 - 8 * u));
			hl = 10;
		}
		total = hl + alen;
		while (pos < total) {
			memset(b, 0, 16);
			for (i = 0; i < 16 && pos < total; i ++, pos ++) {
				b[i] = pos < hl ? hdr[pos] : aad[pos - hl];
			}
			for (i = 0; i < 16; i ++) b[i] ^= x[i];
			ref_aes_block(key, klen, 1, b, x);
		}
	}
	/* message, zero padded */
	for (off = 0; off < mlen; off += 16) {
		size_t n = mlen - off < 16 ? mlen - off : 16;

		memset(b, 0, 16);
		memcpy(b, msg + off, n);
		for (i = 0; i < 16; i ++) b[i] ^= x[i];
		ref_aes_block(key, klen, 1, b, x);
	}
	/* CTR */
	memset(a, 0, 16);
	a[0] = (unsigned char)(q - 1);
	memcpy(a + 1, nonce, nlen);
	ref_aes_block(key, klen, 1, a, s0);
	for (i = 0; i < tlen; i ++) tag[i] = x[i] ^ s0[i];
	v = 0;
	for (off = 0; off < mlen; off += 16) {
		size_t n = mlen - off < 16 ? mlen - off : 16;
		uint64_t w;

		v ++;
		w = v;
		for (u = 0; u < q; u ++) { a[15 - u] = (unsigned char)w; w >>= 8; }
		ref_aes_block(key, klen, 1, a, s);
		for (i = 0; i < n; i ++) ct[off + i] = msg[off + i] ^ s[i];
	}
}

/* CCM through EVP; returns 0 if EVP refuses the parameters */
int
ref_ccm_evp(const unsigned char *key, size_t klen,
	const unsigned char *nonce, size_t nlen,
	const unsigned char *aad, size_t alen,
	const unsigned char *msg, size_t mlen, size_t tlen,
	unsigned char *ct, unsigned char *tag)
{
	int l = 0;
	unsigned char dummy[16];
	unsigned char z = 0;

	EVP_CIPHER_CTX_reset(g_cc);
	if (EVP_EncryptInit_ex(g_cc, c_ccm[kidx(klen)], NULL, NULL, NULL) != 1) return 0;
	if (EVP_CIPHER_CTX_ctrl(g_cc, EVP_CTRL_AEAD_SET_IVLEN, (int)nlen, NULL) != 1) return 0;
	if (EVP_CIPHER_CTX_ctrl(g_cc, EVP_CTRL_AEAD_SET_TAG, (int)tlen, NULL) != 1) return 0;
	if (EVP_EncryptInit_ex(g_cc, NULL, NULL, key, nonce) != 1) return 0;
	if (EVP_EncryptUpdate(g_cc, NULL, &l, NULL, (int)mlen) != 1) return 0;
	if (alen > 0 && EVP_EncryptUpdate(g_cc, NULL, &l, aad, (int)alen) != 1) return 0;
	if (EVP_EncryptUpdate(g_cc, mlen ? ct : dummy, &l, mlen ? msg : &z, (int)mlen) != 1) return 0;
	if (EVP_EncryptFinal_ex(g_cc, dummy, &l) != 1) return 0;
	if (EVP_CIPHER_CTX_ctrl(g_cc, EVP_CTRL_AEAD_GET_TAG, (int)tlen, tag) != 1) return 0;
	return 1;
}

/*
 * The CCM reference used by the oracle: EVP, which must agree with the
 * direct implementation (a disagreement is a harness failure, not a
 * library violation). 'big' messages skip the slow direct implementation.
 */
void
ref_ccm(const unsigned char *key, size_t klen,
	const unsigned char *nonce, size_t nlen,
	const unsigned char *aad, size_t alen,
	const unsigned char *msg, size_t mlen, size_t tlen,
	unsigned char *ct, unsigned char *tag)
{
	if (!ref_ccm_evp(key, klen, nonce, nlen, aad, alen, msg, mlen, tlen, ct, tag)) {
		die("ccm-evp-refused");
	}
	if (alen + mlen <= 2048) {
		unsigned char *c2 = malloc(mlen + 1);
		unsigned char t2[16];

		ref_ccm_own(key, klen, nonce, nlen, aad, alen, msg, mlen, tlen, c2, t2);
		if (memcmp(c2, ct, mlen) != 0 || memcmp(t2, tag, tlen) != 0) die("ccm-evp-vs-own");
		free(c2);
	}
}

int
ref_ccm_verify(const unsigned char *key, size_t klen,
	const unsigned char *nonce, size_t nlen,
	const unsigned char *aad, size_t alen,
	const unsigned char *ct, size_t mlen,
	const unsigned char *tag, size_t tlen)
{
	/*
	 * CTR-decrypt with the direct implementation (CTR is an involution:
	 * running ref_ccm_own on ct yields pt in its 'ct' output), then
	 * recompute the tag over pt.
	 */
	unsigned char *pt = malloc(mlen + 1), *c2 = malloc(mlen + 1);
	unsigned char t1[16], t2[16];
	int r;

	ref_ccm_own(key, klen, nonce, nlen, aad, alen, ct, mlen, tlen, pt, t1);
	ref_ccm_own(key, klen, nonce, nlen, aad, alen, pt, mlen, tlen, c2, t2);
	r = memcmp(t2, tag, tlen) == 0;
	free(pt);
	free(c2);
	return r;
}

/* ------------------------------------------------------------------ */
/* EAX */

static void
omac_t(const unsigned char *key, size_t klen, unsigned t,
	const unsigned char *data, size_t len, unsigned char *out)
{
	static const char *cn[3] = { "AES-128-CBC", "AES-192-CBC", "AES-256-CBC" };
	EVP_MAC_CTX *mc = EVP_MAC_CTX_new(m_cmac);
	OSSL_PARAM p[2];
	unsigned char hd[16];
	size_t ol = 0;

	if (!mc) die("cmac-ctx");
	p[0] = OSSL_PARAM_construct_utf8_string(OSSL_MAC_PARAM_CIPHER, (char *)cn[kidx(klen)], 0);
	p[1] = OSSL_PARAM_construct_end();
	if (EVP_MAC_init(mc, key, klen, p) != 1) die("cmac-init");
	memset(hd, 0, 16);
	hd[15] = (unsigned char)t;
	if (EVP_MAC_update(mc, hd, 16) != 1) die("cmac-upd");
	if (len > 0 && EVP_MAC_update(mc, data, len) != 1) die("cmac-upd2");
	if (EVP_MAC_final(mc, out, &ol, 16) != 1 || ol != 16) die("cmac-fin");
	EVP_MAC_CTX_free(mc);
}

/* tag over (nonce, aad, ct); also returns N (the CTR start value) */
static void
eax_tag(const unsigned char *key, size_t klen,
	const unsigned char *nonce, size_t nlen,
	const unsigned char *aad, size_t alen,
	const unsigned char *ct, size_t mlen,
	unsigned char *n16, unsigned char *tag16)
{
	unsigned char h[16], c[16];
	int i;

	omac_t(key, klen, 0, nonce, nlen, n16);
	omac_t(key, klen, 1, aad, alen, h);
	omac_t(key, klen, 2, ct, mlen, c);
	for (i = 0; i < 16; i ++) tag16[i] = n16[i] ^ h[i] ^ c[i];
}

static void
eax_ctr(const unsigned char *key, size_t klen, const unsigned char *n16,
	const unsigned char *in, size_t len, unsigned char *out)
{
	int l = 0;

	if (len == 0) return;
	EVP_CIPHER_CTX_reset(g_cc);
	if (EVP_EncryptInit_ex(g_cc, c_ctr[kidx(klen)], NULL, key, n16) != 1) die("ctr-init");
	if (EVP_EncryptUpdate(g_cc, out, &l, in, (int)len) != 1 || (size_t)l != len) die("ctr-upd");
}

void
ref_eax(const unsigned char *key, size_t klen,
	const unsigned char *nonce, size_t nlen,
	const unsigned char *aad, size_t alen,
	const unsigned char *msg, size_t mlen,
	unsigned char *ct, unsigned char *tag16)
{
	unsigned char n[16];

	omac_t(key, klen, 0, nonce, nlen, n);
	eax_ctr(key, klen, n, msg, mlen, ct);
	eax_tag(key, klen, nonce, nlen, aad, alen, ct, mlen, n, tag16);
}

int
ref_eax_verify(const unsigned char *key, size_t klen,
	const unsigned char *nonce, size_t nlen,
	const unsigned char *aad, size_t alen,
	const unsigned char *ct, size_t mlen,
	const unsigned char *tag, size_t tlen)
{
	unsigned char n[16], t[16];

	eax_tag(key, klen, nonce, nlen, aad, alen, ct, mlen, n, t);
	return memcmp(t, tag, tlen) == 0;
}

/* ------------------------------------------------------------------ */
/* GF(2^128), GCM bit order (SP 800-38D algorithm 1) */

static void
gf_mul(unsigned char *z, const unsigned char *x, const unsigned char *y)
{
	unsigned char v[16], r[16];
	int i, j;

	memcpy(v, y, 16);
	memset(r, 0, 16);
	for (i = 0; i < 128; i ++) {
		int lsb;

		if ((x[i >> 3] >> (7 - (i & 7))) & 1) {
			for (j = 0; j < 16; j ++) r[j] ^= v[j];
		}
		lsb = v[15] & 1;
		for (j = 15; j > 0; j --) v[j] = (unsigned char)((v[j] >> 1) | (v[j - 1] << 7));
		v[0] >>= 1;
		if (lsb) v[0] ^= 0xE1;
	}
	memcpy(z, r, 16);
}

static void
gf_inv(unsigned char *z, const unsigned char *a)
{
	unsigned char r[16], p[16];
	int i;

	memset(r, 0, 16);
	r[0] = 0x80;
	memcpy(p, a, 16);
	for (i = 0; i < 128; i ++) {
		if (i >= 1) gf_mul(r, r, p);
		gf_mul(p, p, p);
	}
	memcpy(z, r, 16);
}

static void
ghash_upd(unsigned char *y, const unsigned char *h, const unsigned char *d, size_t len)
{
	while (len > 0) {
		unsigned char b[16];
		size_t c = len < 16 ? len : 16, j;

		memset(b, 0, 16);
		memcpy(b, d, c);
		for (j = 0; j < 16; j ++) y[j] ^= b[j];
		gf_mul(y, y, h);
		d += c; len -= c;
	}
}

static void
put64(unsigned char *d, unsigned long long v)
{
	int i;

	for (i = 7; i >= 0; i --) { d[i] = (unsigned char)v; v >>= 8; }
}

/*
 * Spec-level GCM tag (SP 800-38D algorithm 4, steps 5 and 6) over a given ciphertext, with the two 64-bit
 * fields of the final GHASH block given explicitly (abits, cbits) instead of derived from alen, mlen:
 *   T = GHASH_H(A || pad || C || pad || [abits]_64 || [cbits]_64) xor E_K(J0)
 * With abits = 8*alen and cbits = 8*mlen this is the ordinary tag.
 */
void
ref_gcm_tag_model(const unsigned char *key, size_t klen, const unsigned char *nonce, size_t nlen,
	const unsigned char *aad, size_t alen, const unsigned char *ct, size_t mlen,
	unsigned long long abits, unsigned long long cbits, unsigned char *tag16)
{
	unsigned char h[16], z[16], j0[16], y[16], lb[16], ek[16];
	int i;

	memset(z, 0, 16);
	ref_aes_block(key, klen, 1, z, h);
	if (nlen == 12) {
		memcpy(j0, nonce, 12);
		j0[12] = 0; j0[13] = 0; j0[14] = 0; j0[15] = 1;
	} else {
		memset(j0, 0, 16);
		ghash_upd(j0, h, nonce, nlen);
		put64(lb, 0); put64(lb + 8, (unsigned long long)nlen << 3);
		ghash_upd(j0, h, lb, 16);
	}
	memset(y, 0, 16);
	ghash_upd(y, h, aad, alen);
	ghash_upd(y, h, ct, mlen);
	put64(lb, abits); put64(lb + 8, cbits);
	ghash_upd(y, h, lb, 16);
	ref_aes_block(key, klen, 1, j0, ek);
	for (i = 0; i < 16; i ++) tag16[i] = y[i] ^ ek[i];
}

/*
 * 16-byte GCM nonce N such that J0 = GHASH_H(N || [0]_64 || [128]_64)
 * equals the requested value (so that the 32-bit block counter starts
 * just below its wrap point).
 */
void
ref_gcm_craft_nonce(const unsigned char *key, size_t klen,
	const unsigned char *j0, unsigned char *nonce16)
{
	unsigned char h[16], hi[16], z[16], y[16];

	memset(z, 0, 16);
	ref_aes_block(key, klen, 1, z, h);
	gf_inv(hi, h);
	gf_mul(y, j0, hi);
	y[15] ^= 128;
	gf_mul(nonce16, y, hi);
}

/*
 * 16-byte EAX nonce such that OMAC^0(nonce) = n16: with L = E_K(0),
 * OMAC^0(nonce) = E_K(L xor nonce xor 2L) for a one-block nonce.
 */
void
ref_eax_craft_nonce(const unsigned char *key, size_t klen,
	const unsigned char *n16, unsigned char *nonce16)
{
	unsigned char z[16], l[16], l2[16], d[16];
	int i;
	unsigned cc;

	memset(z, 0, 16);
	ref_aes_block(key, klen, 1, z, l);
	cc = (l[0] & 0x80) ? 0x87 : 0;
	for (i = 15; i >= 0; i --) {
		unsigned w = ((unsigned)l[i] << 1) ^ cc;

		cc = w >> 8;
		l2[i] = (unsigned char)w;
	}
	/* carry out of the top bit was handled through the initial cc */
	ref_aes_block(key, klen, 0, n16, d);
	for (i = 0; i < 16; i ++) nonce16[i] = d[i] ^ l[i] ^ l2[i];
}
