/*
 * C09 (b): per-variant part of h_bigint.c (template; included once per word
 * variant with VAR_* / W / WB defined).  Compiled on its own (it is listed as
 * an extra source so that the build cache sees changes) it is empty.
 */
#ifndef VAR_NAME
typedef int h_bigint_var_is_a_template;
#else

#define CAT2_(a, b) a##b
#define CAT2(a, b) CAT2_(a, b)
#define T(n) CAT2(n, VAR_SUFFIX)
#define F(n) CAT2(VAR_PREFIX, n)
#define NAIL (8 * sizeof(W) - WB)
#define WMAX ((W)((W)~(W)0 >> NAIL))

typedef struct { vblk b; W *p; size_t n; } T(op);

/*
 * Header word ("announced bit length").  For i15/i31 it is encoded as
 * ((k / WB) << SH) + (k % WB).  When k is a positive multiple of WB the
 * library's own bit_length()/decode() produce ((k / WB - 1) << SH) + WB
 * instead (same word count, same decoded length); T(g_alt) makes the harness
 * feed that native form too, and computed headers are compared by meaning.
 */
static int T(g_alt) = 0;
static uint32_t
T(enc)(uint32_t k)
{
	if (!VAR_ENC) return k;
	if (T(g_alt) && k > 0 && k % WB == 0) return ((k / WB - 1) << VAR_SH) + WB;
	return ((k / WB) << VAR_SH) + (k % WB);
}
static uint32_t
T(dec)(uint32_t h)
{
	return VAR_ENC ? WB * (h >> VAR_SH) + (h & (((uint32_t)1 << VAR_SH) - 1)) : h;
}
static int
T(hdr_equiv)(uint32_t got, uint32_t exp)
{
	if (got == exp) return 1;
	if (!VAR_ENC) return 0;
	if ((got & (((uint32_t)1 << VAR_SH) - 1)) > WB) return 0;
	if (T(dec)(got) != T(dec)(exp)) return 0;
	vf_stat("hdr_noncanonical_" VAR_NAME, 1);
	return 1;
}
static size_t T(nw)(uint32_t k) { return (k + WB - 1) / WB; }

/* pad giving the wanted value of the "odd position inside an aligned pair" bit */
static size_t
T(padsel)(int bit)
{
	if (sizeof(W) == 2) return (size_t)(bit ? 2 : 0) + 4 * vf_below(&R, 2);
	return bit ? 4 : 0;
}
static size_t T(padrnd)(void) { return T(padsel)((int)vf_below(&R, 2)); }

/* array of 1+n words (header + value words) */
static W *
T(op_new)(T(op) *o, size_t n, size_t pad, size_t slackw)
{
	o->n = n;
	o->p = blk_new(&o->b, (n + 1) * sizeof(W), pad, slackw * sizeof(W));
	return o->p;
}
static void T(op_free)(T(op) *o) { blk_free(&o->b); }

static void
T(set)(W *x, size_t n, const mpz_t v, uint32_t k)
{
	size_t cnt = 0;
	HASSERT(mpz_sgn(v) >= 0 && (mpz_sgn(v) == 0 || mpz_sizeinbase(v, 2) <= n * WB), "set-fits");
	x[0] = (W)T(enc)(k);
	memset(x + 1, 0, n * sizeof(W));
	mpz_export(x + 1, &cnt, -1, sizeof(W), 0, NAIL, v);
	HASSERT(cnt <= n, "set-count");
}

static T(op) *
T(op_val)(T(op) *o, size_t n, size_t pad, size_t slackw, const mpz_t v, uint32_t k)
{
	T(op_new)(o, n, pad, slackw);
	T(set)(o->p, n, v, k);
	return o;
}

/* compare 'nwords' words (header included) */
static int
T(eqx)(const char *fn, const W *got, const W *exp, size_t nwords, int hdr_by_meaning)
{
	count(VAR_NAME, fn);
	if (memcmp(got, exp, nwords * sizeof(W)) == 0) return 1;
	if (hdr_by_meaning && T(hdr_equiv)(got[0], exp[0])
		&& memcmp(got + 1, exp + 1, (nwords - 1) * sizeof(W)) == 0) return 1;
	case_add(" got_words_le=%s exp_words_le=%s", vf_hexs(got, nwords * sizeof(W)),
		vf_hexs(exp, nwords * sizeof(W)));
	report(VAR_NAME, fn, got[0] != exp[0] ? "hdr" : "value", "result array differs from the GMP reference");
	return 0;
}

/* header copied from an input: must be identical */
static int T(eq)(const char *fn, const W *got, const W *exp, size_t nwords) { return T(eqx)(fn, got, exp, nwords, 0); }

static int
T(eqret)(const char *fn, uint32_t got, uint32_t exp)
{
	count(VAR_NAME, fn);
	if (got == exp) return 1;
	case_add(" ret=%u exp_ret=%u", (unsigned)got, (unsigned)exp);
	report(VAR_NAME, fn, "ret", "return value differs from the mathematical definition");
	return 0;
}

#define SNAP(o) blk_snap(&(o).b)
#define GUARD(fn, o) do { if (!blk_guard_ok(&(o).b)) report(VAR_NAME, fn, "guard", \
	"bytes outside the array " #o " were modified"); } while (0)
#define CONST(fn, o) do { if (!blk_same(&(o).b)) report(VAR_NAME, fn, "const", \
	"input array " #o " was modified"); } while (0)

/* ------------------------------------------------------------------ */

typedef struct {
	unsigned k;
	int pat, odd;
	size_t n, mb;
	mpz_t m, Rm, Rinv;
	W m0i;
} T(ctx);

static void
T(ctx_init)(T(ctx) *c, unsigned k, int pat, int odd)
{
	mpz_t t, w;
	c->k = k;
	c->pat = pat;
	c->odd = odd;
	c->n = T(nw)(k);
	c->mb = (k + 7) >> 3;
	mpz_inits(c->m, c->Rm, c->Rinv, NULL);
	gen_modulus(c->m, k, pat, odd, WB);
	mpz_set_ui(c->Rm, 1);
	mpz_mul_2exp(c->Rm, c->Rm, c->n * WB);
	mpz_fdiv_r(c->Rm, c->Rm, c->m);
	c->m0i = 0;
	if (odd) {
		mpz_inits(t, w, NULL);
		HASSERT(mpz_invert(c->Rinv, c->Rm, c->m) != 0, "Rinv");
		mpz_set_ui(w, 1);
		mpz_mul_2exp(w, w, WB);
		HASSERT(mpz_invert(t, c->m, w) != 0, "m0i");
		mpz_sub(t, w, t);
		mpz_fdiv_r(t, t, w);
		c->m0i = (W)mpz_get_ui(t);
		mpz_clears(t, w, NULL);
	}
}

static void T(ctx_clear)(T(ctx) *c) { mpz_clears(c->m, c->Rm, c->Rinv, NULL); }

static void
T(cbegin)(T(ctx) *c, const char *fn)
{
	case_begin(VAR_NAME, fn, c->k, c->pat);
	case_add(" odd=%d m=%Zx", c->odd, c->m);
}

/* ------------------------------------------------------------------ */
/* Montgomery multiplication: all alignment combinations of (d, x, y, m) */

static void
T(t_montymul)(T(ctx) *c)
{
	int combo;
	mpz_t x, y, e;
	mpz_inits(x, y, e, NULL);
	for (combo = 0; combo <= 16; combo ++) {
		T(op) od, ox, oy, om, oe;
		int same = (combo == 16);
		int cb = same ? (int)vf_below(&R, 16) : combo;
		size_t pd = T(padsel)(cb & 1), px = T(padsel)((cb >> 1) & 1);
		size_t py = T(padsel)((cb >> 2) & 1), pm = T(padsel)((cb >> 3) & 1);
		gen_value(x, c->m, (combo + (int)c->k) % NCLS, WB);
		gen_value(y, c->m, (combo * 5 + (int)(c->k / NCLS)) % NCLS, WB);
		if (same) mpz_set(y, x);
		T(cbegin)(c, "montymul");
		case_add(" pads(d,x,y,m)=%d,%d,%d,%d same_xy=%d x=%Zx y=%Zx", (int)pd, (int)px, (int)py, (int)pm, same, x, y);
		T(op_new)(&od, c->n, pd, MONT_SLACK);
		T(op_val)(&ox, c->n, px, MONT_SLACK, x, c->k);
		T(op_val)(&oy, c->n, py, MONT_SLACK, y, c->k);
		T(op_val)(&om, c->n, pm, MONT_SLACK, c->m, c->k);
		mpz_mul(e, x, y);
		mpz_mul(e, e, c->Rinv);
		mpz_fdiv_r(e, e, c->m);
		T(op_val)(&oe, c->n, 0, 0, e, c->k);
		SNAP(od); SNAP(ox); SNAP(oy); SNAP(om);
		F(montymul)(od.p, ox.p, same ? ox.p : oy.p, om.p, c->m0i);
		T(eq)("montymul", od.p, oe.p, c->n + 1);
		GUARD("montymul", od); CONST("montymul", ox); CONST("montymul", oy); CONST("montymul", om);
		if (!same) {
			vf_distinct("align", "%s:montymul:d%dx%dy%dm%d:len%%4=%d", VAR_NAME,
				cb & 1, (cb >> 1) & 1, (cb >> 2) & 1, (cb >> 3) & 1, (int)(c->n & 3));
		}
		if (combo == 5) {
			vf_sample("{\"v\":\"%s\",\"fn\":\"montymul\",\"k\":%u,\"pads_dxym\":[%d,%d,%d,%d],\"m0i\":%u,"
				"\"m_words_le\":\"%s\",\"x_words_le\":\"%s\",\"y_words_le\":\"%s\",\"d_words_le\":\"%s\",\"equal_to_gmp\":%d}",
				VAR_NAME, c->k, (int)pd, (int)px, (int)py, (int)pm, (unsigned)c->m0i,
				vf_hexs(om.p, (c->n + 1) * sizeof(W)), vf_hexs(ox.p, (c->n + 1) * sizeof(W)),
				vf_hexs(oy.p, (c->n + 1) * sizeof(W)), vf_hexs(od.p, (c->n + 1) * sizeof(W)),
				memcmp(od.p, oe.p, (c->n + 1) * sizeof(W)) == 0);
		}
		T(op_free)(&od); T(op_free)(&ox); T(op_free)(&oy); T(op_free)(&om); T(op_free)(&oe);
	}
	mpz_clears(x, y, e, NULL);
}

static void
T(t_tofrom_monty)(T(ctx) *c, int from)
{
	int i;
	const char *fn = from ? "from_monty" : "to_monty";
	mpz_t x, e;
	mpz_inits(x, e, NULL);
	for (i = 0; i < 4; i ++) {
		T(op) ox, om, oe;
		gen_value(x, c->m, (i * 3 + (int)c->k + from) % NCLS, WB);
		T(cbegin)(c, fn);
		case_add(" x=%Zx", x);
		T(op_val)(&ox, c->n, T(padrnd)(), 0, x, c->k);
		T(op_val)(&om, c->n, T(padrnd)(), 0, c->m, c->k);
		mpz_mul(e, x, from ? c->Rinv : c->Rm);
		mpz_fdiv_r(e, e, c->m);
		T(op_val)(&oe, c->n, 0, 0, e, c->k);
		SNAP(ox); SNAP(om);
		if (from) F(from_monty)(ox.p, om.p, c->m0i);
		else F(to_monty)(ox.p, om.p);
		T(eq)(fn, ox.p, oe.p, c->n + 1);
		GUARD(fn, ox); CONST(fn, om);
		T(op_free)(&ox); T(op_free)(&om); T(op_free)(&oe);
	}
	mpz_clears(x, e, NULL);
}

/* ------------------------------------------------------------------ */

static void
T(t_muladd)(T(ctx) *c)
{
	int i;
	mpz_t x, e;
	mpz_inits(x, e, NULL);
	for (i = 0; i < NCLS + 2; i ++) {
		T(op) ox, om, oe;
		W z;
		gen_value(x, c->m, i % NCLS, WB);
		switch ((i + c->k) % 6) {
		case 0: z = 0; break;
		case 1: z = WMAX; break;
		case 2: z = 1; break;
		case 3: z = (W)(mpz_get_ui(c->m) & WMAX); break;
		default: z = (W)(vf_u32(&R) & WMAX); break;
		}
		T(cbegin)(c, "muladd_small");
		case_add(" x=%Zx z=%x", x, (unsigned)z);
		T(op_val)(&ox, c->n, T(padrnd)(), 0, x, c->k);
		T(op_val)(&om, c->n, T(padrnd)(), 0, c->m, c->k);
		mpz_mul_2exp(e, x, WB);
		mpz_add_ui(e, e, z);
		mpz_fdiv_r(e, e, c->m);
		T(op_val)(&oe, c->n, 0, 0, e, c->k);
		SNAP(ox); SNAP(om);
		F(muladd_small)(ox.p, z, om.p);
		T(eq)("muladd_small", ox.p, oe.p, c->n + 1);
		GUARD("muladd_small", ox); CONST("muladd_small", om);
		T(op_free)(&ox); T(op_free)(&om); T(op_free)(&oe);
	}
	mpz_clears(x, e, NULL);
}

static void
T(t_reduce)(T(ctx) *c)
{
	int i;
	mpz_t a, e, lim;
	mpz_inits(a, e, lim, NULL);
	for (i = 0; i < 8; i ++) {
		T(op) ox, oa, om, oe;
		uint32_t ka;
		size_t na;
		switch (i) {
		case 0: ka = c->k; break;
		case 1: ka = c->k + 1; break;
		case 2: ka = c->k - 1; break;
		case 3: ka = c->k + WB; break;
		case 4: ka = 2 * c->k; break;
		case 5: ka = vf_below(&R, c->k); break;
		case 6: ka = 0; break;
		default: ka = c->k + vf_below(&R, c->k + 40); break;
		}
		na = T(nw)(ka);
		if (ka == 0) mpz_set_ui(a, 0);
		else {
			mpz_set_ui(lim, 1);
			mpz_mul_2exp(lim, lim, ka);
			if (ka == 1) mpz_set_ui(a, vf_below(&R, 2));
			else gen_value(a, lim, (i * 5 + (int)c->k) % NCLS, WB);
		}
		T(cbegin)(c, "reduce");
		case_add(" ka=%u a=%Zx", (unsigned)ka, a);
		T(op_new)(&ox, c->n, T(padrnd)(), 0);
		T(op_val)(&oa, na, T(padrnd)(), 0, a, ka);
		T(op_val)(&om, c->n, T(padrnd)(), 0, c->m, c->k);
		mpz_fdiv_r(e, a, c->m);
		T(op_val)(&oe, c->n, 0, 0, e, c->k);
		SNAP(ox); SNAP(oa); SNAP(om);
		F(reduce)(ox.p, oa.p, om.p);
		T(eq)("reduce", ox.p, oe.p, c->n + 1);
		GUARD("reduce", ox); CONST("reduce", oa); CONST("reduce", om);
		T(op_free)(&ox); T(op_free)(&oa); T(op_free)(&om); T(op_free)(&oe);
	}
	mpz_clears(a, e, lim, NULL);
}

/* byte string of L bytes, several shapes */
static void
T(gen_bytes)(unsigned char *s, size_t L, int cls)
{
	size_t z;
	if (L == 0) return;
	switch (cls % 6) {
	case 0: vf_bytes(&R, s, L); break;
	case 1: memset(s, 0xFF, L); break;
	case 2: memset(s, 0, L); break;
	case 3: vf_bytes(&R, s, L); z = 1 + vf_below(&R, (uint32_t)L); memset(s, 0, z); break;
	case 4: memset(s, 0, L); s[vf_below(&R, (uint32_t)L)] = (unsigned char)(1u << vf_below(&R, 8)); break;
	default: vf_bytes(&R, s, L); s[0] |= 0x80; break;
	}
}

static void
T(t_decred)(T(ctx) *c)
{
	int i;
	mpz_t v, e;
	mpz_inits(v, e, NULL);
	for (i = 0; i < 9; i ++) {
		T(op) ox, om, oe;
		vblk bs;
		unsigned char *s;
		size_t L;
		switch (i) {
		case 0: L = c->mb; break;
		case 1: L = c->mb - 1; break;
		case 2: L = c->mb + 1; break;
		case 3: L = 2 * c->mb; break;
		case 4: L = 2 * c->mb + 3; break;
		case 5: L = 0; break;
		case 6: L = vf_below(&R, (uint32_t)c->mb); break;
		default: L = c->mb + vf_below(&R, (uint32_t)c->mb + 8); break;
		}
		s = blk_new(&bs, L, vf_below(&R, 4), 0);
		T(gen_bytes)(s, L, i + (int)c->k);
		mpz_import(v, L, 1, 1, 0, 0, s);
		T(cbegin)(c, "decode_reduce");
		case_add(" len=%u src=%Zx", (unsigned)L, v);
		T(op_new)(&ox, c->n, T(padrnd)(), 0);
		T(op_val)(&om, c->n, T(padrnd)(), 0, c->m, c->k);
		mpz_fdiv_r(e, v, c->m);
		T(op_val)(&oe, c->n, 0, 0, e, c->k);
		SNAP(ox); SNAP(om); blk_snap(&bs);
		F(decode_reduce)(ox.p, s, L, om.p);
		T(eq)("decode_reduce", ox.p, oe.p, c->n + 1);
		GUARD("decode_reduce", ox); CONST("decode_reduce", om);
		if (!blk_same(&bs)) report(VAR_NAME, "decode_reduce", "const", "source bytes modified");
		T(op_free)(&ox); T(op_free)(&om); T(op_free)(&oe); blk_free(&bs);
	}
	mpz_clears(v, e, NULL);
}

static void
T(t_decmod)(T(ctx) *c)
{
	int i;
	mpz_t v, e;
	mpz_inits(v, e, NULL);
	for (i = 0; i < 15; i ++) {
		T(op) ox, om, oe;
		vblk bs;
		unsigned char *s;
		size_t L = c->mb;
		uint32_t ret, eret;
		switch (i) {
		case 0: rnd_below(v, c->m); break;
		case 1: mpz_sub_ui(v, c->m, 1); break;
		case 2: mpz_set(v, c->m); break;
		case 3: mpz_add_ui(v, c->m, 1); if (mpz_sizeinbase(v, 2) > 8 * L) L ++; break;
		case 4: rnd_below(v, c->m); L += 1 + vf_below(&R, 6); break;
		case 5: L += 1 + vf_below(&R, 6); rnd_bits(v, 8 * L); mpz_setbit(v, 8 * L - 1 - vf_below(&R, 8)); break;
		case 6: L = vf_below(&R, (uint32_t)c->mb); rnd_bits(v, 8 * L); break;
		case 7: rnd_bits(v, 8 * L); break;
		case 8: mpz_set_ui(v, 0); L = vf_below(&R, (uint32_t)c->mb + 3); break;
		/* sources much longer than the modulus (the word loop then ends inside the source) */
		case 10: L += c->mb / 6 + 3 + vf_below(&R, 14); rnd_below(v, c->m); break;            /* in range, zero padded */
		case 11: L += c->mb / 6 + 3 + vf_below(&R, 14); rnd_below(v, c->m);
			mpz_setbit(v, 8 * L - 1 - vf_below(&R, 15)); break;                                /* excess only in the top bits */
		case 12: L += c->mb / 6 + 3 + vf_below(&R, 14); rnd_bits(v, 8 * L); mpz_setbit(v, 8 * L - 1); break;
		case 13: L = 2 * c->mb + vf_below(&R, 9); rnd_below(v, c->m);
			if (vf_below(&R, 2)) mpz_setbit(v, 8 * L - 1 - vf_below(&R, 8 * (uint32_t)(L - c->mb))); break;
		default: gen_value(v, c->m, (int)(c->k % NCLS), WB); break;
		}
		s = blk_new(&bs, L, vf_below(&R, 4), 0);
		be_export(s, L, v);
		eret = mpz_cmp(v, c->m) < 0;
		T(cbegin)(c, "decode_mod");
		case_add(" len=%u src=%Zx", (unsigned)L, v);
		T(op_new)(&ox, c->n, T(padrnd)(), 0);
		T(op_val)(&om, c->n, T(padrnd)(), 0, c->m, c->k);
		if (eret) mpz_set(e, v); else mpz_set_ui(e, 0);
		T(op_val)(&oe, c->n, 0, 0, e, c->k);
		SNAP(ox); SNAP(om); blk_snap(&bs);
		ret = F(decode_mod)(ox.p, s, L, om.p);
		T(eqret)("decode_mod", ret, eret);
		T(eq)("decode_mod", ox.p, oe.p, c->n + 1);
		GUARD("decode_mod", ox); CONST("decode_mod", om);
		if (!blk_same(&bs)) report(VAR_NAME, "decode_mod", "const", "source bytes modified");
		T(op_free)(&ox); T(op_free)(&om); T(op_free)(&oe); blk_free(&bs);
	}
	mpz_clears(v, e, NULL);
}

/* ------------------------------------------------------------------ */
/* modular exponentiation */

/* T(g_full): 0 = normal suite; 1 / 2 = one call with an exponent as long as the modulus (top bit set, random operand),
   modpow_opt with the smallest guaranteed / the largest useful temporary area (see T(modpow_full)) */
static int T(g_full) = 0;

static void
T(t_modpow)(T(ctx) *c)
{
	int i;
	size_t eb = exp_bytes(c->n, c->mb);
	mpz_t x, ez, e;
	mpz_inits(x, ez, e, NULL);
	for (i = 0; i < 4; i ++) {
		T(op) ox, om, o1, o2, oe;
		vblk be;
		unsigned char *ebuf;
		size_t elen;
		int ecls = (i * 3 + (int)c->k) % NECLS;
		if (T(g_full)) {
			if (i > 0) break;
			eb = c->mb;
			ecls = 6;
			vf_stat("modpow_fullsize_large_modulus", 1);
		}
		switch (i) {
		case 0: elen = eb; break;
		case 1: elen = 0; break;
		case 2: elen = 1; break;
		default: elen = 1 + vf_below(&R, (uint32_t)eb); break;
		}
		ebuf = blk_new(&be, elen, vf_below(&R, 4), 0);
		gen_exp(ebuf, elen, ecls);
		mpz_import(ez, elen, 1, 1, 0, 0, ebuf);
		gen_value(x, c->m, T(g_full) ? 7 : (i * 7 + (int)c->k) % NCLS, WB);
		T(cbegin)(c, "modpow");
		case_add(" x=%Zx elen=%u e=%Zx", x, (unsigned)elen, ez);
		T(op_val)(&ox, c->n, T(padrnd)(), MONT_SLACK, x, c->k);
		T(op_val)(&om, c->n, T(padrnd)(), MONT_SLACK, c->m, c->k);
		T(op_new)(&o1, c->n, T(padrnd)(), MONT_SLACK);
		T(op_new)(&o2, c->n, T(padrnd)(), MONT_SLACK);
		mpz_powm(e, x, ez, c->m);
		T(op_val)(&oe, c->n, 0, 0, e, c->k);
		SNAP(ox); SNAP(om); SNAP(o1); SNAP(o2); blk_snap(&be);
		F(modpow)(ox.p, ebuf, elen, om.p, c->m0i, o1.p, o2.p);
		T(eq)("modpow", ox.p, oe.p, c->n + 1);
		GUARD("modpow", ox); GUARD("modpow", o1); GUARD("modpow", o2); CONST("modpow", om);
		if (!blk_same(&be)) report(VAR_NAME, "modpow", "const", "exponent bytes modified");
		T(op_free)(&ox); T(op_free)(&om); T(op_free)(&o1); T(op_free)(&o2); T(op_free)(&oe); blk_free(&be);
	}
	mpz_clears(x, ez, e, NULL);
}

#if HAVE_MODPOW_OPT
static int
T(wclass)(const size_t *thr, int nthr, size_t min_impl, size_t sz)
{
	int i, w = 0;
	if (sz < min_impl) return -1;
	for (i = 0; i < nthr; i ++) if (sz >= thr[i]) w = i + 1;
	return w;
}
#endif

#if HAVE_MODPOW_OPT
/*
 * which: 0 = br_iNN_modpow_opt, 1 = br_i62_modpow_opt (tmp in 64-bit words),
 * 2 = br_i62_modpow_opt_as_i31 (tmp in 32-bit words, 8-byte aligned).
 */
static void
T(modpow_opt_one)(T(ctx) *c, int which, size_t twlen, size_t elen, int ecls, int xcls,
	size_t min_doc, size_t min_impl, int wclass)
{
	static const char *const names[3] = { "modpow_opt", "i62_modpow_opt", "i62_modpow_opt_as_i31" };
	const char *fn = names[which];
	T(op) ox, om, oe;
	vblk be, bt;
	unsigned char *ebuf;
	void *tmp;
	size_t unit = which == 1 ? 8 : sizeof(W);
	uint32_t ret;
	mpz_t x, ez, e;

	mpz_inits(x, ez, e, NULL);
	ebuf = blk_new(&be, elen, vf_below(&R, 4), 0);
	gen_exp(ebuf, elen, ecls);
	mpz_import(ez, elen, 1, 1, 0, 0, ebuf);
	gen_value(x, c->m, xcls, WB);
	T(cbegin)(c, fn);
	case_add(" twlen=%u x=%Zx elen=%u e=%Zx", (unsigned)twlen, x, (unsigned)elen, ez);
	T(op_val)(&ox, c->n, T(padrnd)(), MONT_SLACK, x, c->k);
	T(op_val)(&om, c->n, T(padrnd)(), MONT_SLACK, c->m, c->k);
	/* tmp: exactly twlen units (the documented size), no slack */
	tmp = blk_new(&bt, twlen * unit, which == 0 ? T(padrnd)() : 0, 0);
	mpz_powm(e, x, ez, c->m);
	T(op_val)(&oe, c->n, 0, 0, e, c->k);
	SNAP(ox); SNAP(om); blk_snap(&be); blk_snap(&bt);
#if HAVE_I62
	if (which == 1) ret = br_i62_modpow_opt(ox.p, ebuf, elen, om.p, c->m0i, tmp, twlen);
	else if (which == 2) ret = br_i62_modpow_opt_as_i31(ox.p, ebuf, elen, om.p, c->m0i, tmp, twlen);
	else
#endif
	ret = F(modpow_opt)(ox.p, ebuf, elen, om.p, c->m0i, tmp, twlen);
	if (ret != 0 && ret != 1) {
		T(eqret)(fn, ret, 1);
	} else if (twlen < min_doc) {
		/* shorter than two temporaries: documented to fail */
		T(eqret)(fn, ret, 0);
		vf_stat("modpow_opt_too_short", 1);
	} else if (twlen >= min_impl) {
		T(eqret)(fn, ret, 1);
	} else {
		/* two temporaries fit but not their alignment padding: outcome not documented */
		vf_stat("unjudged_modpow_opt_gap", 1);
	}
	if (ret == 1) {
		T(eq)(fn, ox.p, oe.p, c->n + 1);
		vf_distinct("window", "%s:%s:w%d", VAR_NAME, fn, wclass);
	}
	GUARD(fn, ox); CONST(fn, om);
	if (!blk_guard_ok(&bt)) report(VAR_NAME, fn, "guard", "bytes before tmp modified");
	if (!blk_same(&be)) report(VAR_NAME, fn, "const", "exponent bytes modified");
	T(op_free)(&ox); T(op_free)(&om); T(op_free)(&oe); blk_free(&be); blk_free(&bt);
	mpz_clears(x, ez, e, NULL);
}

static void
T(t_modpow_opt)(T(ctx) *c, int which)
{
	size_t mw = c->n + 1, mwe = mw + (mw & 1), mw62 = (c->n + 1) >> 1;
	size_t min_doc, min_impl, thr[6], top, s, mul = 1;
	size_t cand[40];
	int nthr = 0, ncand = 0, i, w;
	size_t eb = exp_bytes(c->n, c->mb);
	long long n3;

	if (which == 0) {
		min_doc = 2 * mw;
		min_impl = 2 * mwe;
		for (w = 2; w <= 5; w ++) thr[nthr ++] = (((size_t)1 << w) + 1) * mwe;
	} else {
		/* sizes in 64-bit words */
		min_doc = min_impl = mw;
#if !I62_NATIVE
		/* build without 64x64->128 multiplications: br_i62_modpow_opt() hands the area to
		   br_i31_modpow_opt(), whose two temporaries are padded to an even word count */
		min_impl = mwe;
		for (w = 2; w <= 5; w ++) thr[nthr ++] = ((((size_t)1 << w) + 1) * mwe + 1) >> 1;
		vf_distinct("i62_backend", "i31-fallback");
#else
		vf_distinct("i62_backend", "native");
#endif
		if (I62_NATIVE && c->n >= 4) {
			thr[nthr ++] = 4 * mw62;   /* 62-bit code path, window 1 */
			for (w = 2; w <= 5; w ++) thr[nthr ++] = (((size_t)1 << w) + 3) * mw62;
		}
		if (which == 2) mul = 2;
	}
	top = nthr ? thr[nthr - 1] : min_impl;
	if (top < min_impl) top = min_impl;

#define WCLASS(sz) T(wclass)(thr, nthr, min_impl, (sz))
	if (T(g_full)) {
		size_t sz = T(g_full) == 1 ? min_impl : top;
		T(modpow_opt_one)(c, which, sz * mul, c->mb, 6, 7, min_doc * mul, min_impl * mul, WCLASS(sz));
		vf_stat("modpow_fullsize_large_modulus", 1);
		vf_distinct("fullsize", "%s:%d:k%u:%s", VAR_NAME, which, c->k, T(g_full) == 1 ? "min-tmp" : "max-window");
		return;
	}
	n3 = (long long)c->n * (long long)c->n * (long long)c->n;
	if (2100 * n3 <= 8 * g_budget) {
		/* every size from below the minimum to beyond the largest window */
		/* (the as_i31 wrapper only halves twlen: every third size is enough) */
		for (s = min_doc >= 2 ? min_doc - 2 : 0; s <= top + 1; s += (which == 2 ? 3 : 1)) {
			size_t tw = s * mul + (mul == 2 ? vf_below(&R, 2) : 0);
			T(modpow_opt_one)(c, which, tw, 1 + vf_below(&R, 3), 3 + (int)vf_below(&R, 4),
				(int)vf_below(&R, NCLS), min_doc * mul, min_impl * mul, WCLASS(s));
		}
		vf_stat("modpow_opt_all_sizes_moduli", 1);
	} else {
		long long allowance = 10 * g_budget, cost;
		int start;
		cand[ncand ++] = min_doc - 1;
		cand[ncand ++] = min_doc;
		if (min_impl != min_doc) { cand[ncand ++] = min_impl - 1; cand[ncand ++] = min_impl; }
		for (i = 0; i < nthr; i ++) { cand[ncand ++] = thr[i] - 1; cand[ncand ++] = thr[i]; }
		cand[ncand ++] = top + 1 + vf_below(&R, (uint32_t)mwe);
		cand[ncand ++] = min_impl + vf_below(&R, (uint32_t)(top - min_impl + 1));
		start = (int)(c->k % (unsigned)ncand);
		for (i = 0; i < ncand; i ++) {
			size_t sz = cand[(start + i) % ncand];
			size_t tw = sz * mul + (mul == 2 ? vf_below(&R, 2) : 0);
			size_t elen = (i == 0) ? eb : 1 + vf_below(&R, (uint32_t)eb);
			cost = (long long)(12 * elen + 32) * (long long)(c->n * c->n);
			if (i >= 3 && (allowance < cost || which == 2)) break;
			allowance -= cost;
			T(modpow_opt_one)(c, which, tw, elen, (i + (int)c->k) % NECLS,
				(i * 5 + (int)c->k) % NCLS, min_doc * mul, min_impl * mul, WCLASS(sz));
		}
	}
	/* thorough: now and then a full-size exponent with the largest window */
	if (g_thorough && c->pat == 0 && c->k % 127 == 0) {
		T(modpow_opt_one)(c, which, top * mul, c->mb, 4, 7, min_doc * mul, min_impl * mul, WCLASS(top));
		vf_stat("modpow_opt_fullsize_exponent", 1);
	}
#undef WCLASS
}
#endif

/* ------------------------------------------------------------------ */

#if HAVE_MODDIV
static void
T(t_moddiv)(T(ctx) *c)
{
	int i;
	mpz_t x, y, e, g;
	mpz_inits(x, y, e, g, NULL);
	for (i = 0; i < 8; i ++) {
		T(op) ox, oy, om, ot, oe;
		int same = (i == 6);
		uint32_t ret, eret;
		gen_value(x, c->m, (i * 5 + (int)c->k) % NCLS, WB);
		switch (i) {
		case 0: mpz_set_ui(y, 0); break;
		case 1: mpz_set_ui(y, 1); break;
		case 2: mpz_sub_ui(y, c->m, 1); break;
		case 3: /* try for a non-invertible divisor */
			mpz_set_ui(g, 3234846615ul);   /* 3*5*7*...*29 */
			mpz_gcd(g, g, c->m);
			rnd_below(y, c->m);
			mpz_mul(y, y, g);
			mpz_fdiv_r(y, y, c->m);
			break;
		default: gen_value(y, c->m, (i + (int)(c->k / 3)) % NCLS, WB); break;
		}
		if (same) mpz_set(y, x);
		T(cbegin)(c, "moddiv");
		case_add(" same_xy=%d x=%Zx y=%Zx", same, x, y);
		T(op_val)(&ox, c->n, T(padrnd)(), 0, x, c->k);
		T(op_val)(&oy, c->n, T(padrnd)(), 0, y, c->k);
		T(op_val)(&om, c->n, T(padrnd)(), 0, c->m, c->k);
		/* "at least three integers of the size of m" */
		T(op_new)(&ot, 3 * (c->n + 1) - 1, T(padrnd)(), 0);
		eret = mpz_invert(e, y, c->m) != 0;
		if (eret) {
			mpz_mul(e, e, x);
			mpz_fdiv_r(e, e, c->m);
		} else mpz_set_ui(e, 0);
		T(op_val)(&oe, c->n, 0, 0, e, c->k);
		SNAP(ox); SNAP(oy); SNAP(om); SNAP(ot);
		ret = F(moddiv)(ox.p, same ? ox.p : oy.p, om.p, c->m0i, ot.p);
		T(eqret)("moddiv", ret, eret);
		if (eret && ret == 1) T(eq)("moddiv", ox.p, oe.p, c->n + 1);
		else vf_stat("moddiv_not_invertible", 1);
		GUARD("moddiv", ox); GUARD("moddiv", ot); CONST("moddiv", oy); CONST("moddiv", om);
		T(op_free)(&ox); T(op_free)(&oy); T(op_free)(&om); T(op_free)(&ot); T(op_free)(&oe);
	}
	mpz_clears(x, y, e, g, NULL);
}
#endif

/* ------------------------------------------------------------------ */
/* routines without a modulus; k only chooses the size */

static void
T(pow2)(mpz_t r, uint32_t k)
{
	mpz_set_ui(r, 1);
	mpz_mul_2exp(r, r, k);
}

static void
T(gen_below_2k)(mpz_t v, uint32_t k, int cls)
{
	mpz_t lim;
	if (k == 0) { mpz_set_ui(v, 0); return; }
	if (k == 1) { mpz_set_ui(v, vf_below(&R, 2)); return; }
	mpz_init(lim);
	T(pow2)(lim, k);
	gen_value(v, lim, cls % NCLS, WB);
	mpz_clear(lim);
}

static void
T(t_decode)(unsigned k, int pat)
{
	int i;
	mpz_t v;
	mpz_init(v);
	for (i = 0; i < 5; i ++) {
		T(op) ox, oe;
		vblk bs;
		unsigned char *s;
		size_t L, n;
		switch (i) {
		case 0: L = (k + 7) >> 3; break;
		case 1: L = k >> 3; break;
		case 2: L = ((k + 7) >> 3) + 1 + vf_below(&R, 4); break;
		case 3: L = vf_below(&R, (k >> 3) + 1); break;
		default: L = (pat == 0 && k % 50 == 0) ? 0 : 1 + vf_below(&R, 12); break;
		}
		n = (WB == 32) ? (L + 3) / 4 : (8 * L + WB - 1) / WB;
		s = blk_new(&bs, L, vf_below(&R, 4), 0);
		T(gen_bytes)(s, L, i + (int)k + pat);
		mpz_import(v, L, 1, 1, 0, 0, s);
		case_begin(VAR_NAME, "decode", k, pat);
		case_add(" len=%u src=%Zx", (unsigned)L, v);
		T(op_new)(&ox, n, T(padrnd)(), 0);
		T(op_val)(&oe, n, 0, 0, v, mpz_sgn(v) ? (uint32_t)mpz_sizeinbase(v, 2) : 0);
		SNAP(ox); blk_snap(&bs);
		F(decode)(ox.p, s, L);
		T(eqx)("decode", ox.p, oe.p, n + 1, 1);
		GUARD("decode", ox);
		if (!blk_same(&bs)) report(VAR_NAME, "decode", "const", "source bytes modified");
		T(op_free)(&ox); T(op_free)(&oe); blk_free(&bs);
	}
	mpz_clear(v);
}

static void
T(t_encode)(unsigned k, int pat)
{
	int i;
	mpz_t v, t;
	mpz_inits(v, t, NULL);
	for (i = 0; i < 6; i ++) {
		T(op) ox;
		vblk bd;
		unsigned char *d, *exp;
		uint32_t ka = (i == 5 && k % 7 == 0) ? 0 : k + (i & 1) * vf_below(&R, 40);
		size_t L, n = T(nw)(ka), kb = (ka + 7) >> 3;
		switch (i) {
		case 0: L = kb; break;
		case 1: L = kb + 1 + vf_below(&R, 6); break;
		case 2: L = kb ? kb - 1 : 0; break;
		case 3: L = vf_below(&R, (uint32_t)kb + 1); break;
		case 4: L = (k % 11 == 0) ? 0 : 1; break;
		default: L = kb + vf_below(&R, 3); break;
		}
		T(gen_below_2k)(v, ka, i * 5 + (int)k + pat);
		case_begin(VAR_NAME, "encode", k, pat);
		case_add(" ka=%u len=%u x=%Zx", (unsigned)ka, (unsigned)L, v);
		T(op_val)(&ox, n, T(padrnd)(), 0, v, ka);
		d = blk_new(&bd, L, vf_below(&R, 4), 0);
		exp = malloc(L + 1);
		mpz_fdiv_r_2exp(t, v, 8 * L);
		be_export(exp, L, t);
		SNAP(ox); blk_snap(&bd);
		F(encode)(d, L, ox.p);
		count(VAR_NAME, "encode");
		if (memcmp(d, exp, L) != 0) {
			case_add(" got=%s exp=%s", vf_hexs(d, L), vf_hexs(exp, L));
			report(VAR_NAME, "encode", "value", "encoded bytes differ from the reference");
		}
		if (!blk_guard_ok(&bd)) report(VAR_NAME, "encode", "guard", "bytes outside dst modified");
		CONST("encode", ox);
		free(exp);
		T(op_free)(&ox); blk_free(&bd);
	}
	mpz_clears(v, t, NULL);
}

static void
T(t_addsub)(unsigned k, int pat)
{
	int i;
	mpz_t a, b, e, lim;
	mpz_inits(a, b, e, lim, NULL);
	for (i = 0; i < 12; i ++) {
		T(op) oa, ob, oe;
		int sub = i & 1, ctl = (i >> 1) & 1, same = (i >= 10);
		/* every third case: announced length on a word boundary, so that a carry can leave the array */
		uint32_t ka = (i % 3 == 2) ? (uint32_t)(T(nw)(k) * WB) : k;
		size_t n = T(nw)(ka);
		uint32_t ret, eret;
		const char *fn = sub ? "sub" : "add";
		T(gen_below_2k)(a, ka, i < 4 ? 2 : i * 7 + (int)k + pat);
		T(gen_below_2k)(b, ka, i < 4 ? 2 : i * 3 + (int)(k / 5));
		if (i < 2) { mpz_set_ui(sub ? a : b, 1); }   /* 2^ka-1 + 1 ; 1 - (2^ka-1) */
		if (same) mpz_set(b, a);
		case_begin(VAR_NAME, fn, k, pat);
		case_add(" ka=%u ctl=%d same_ab=%d a=%Zx b=%Zx", (unsigned)ka, ctl, same, a, b);
		T(op_val)(&oa, n, T(padrnd)(), 0, a, ka);
		T(op_val)(&ob, n, T(padrnd)(), 0, b, ka);
		T(pow2)(lim, (uint32_t)(n * WB));
		if (sub) { mpz_sub(e, a, b); eret = mpz_sgn(e) < 0; }
		else { mpz_add(e, a, b); eret = mpz_cmp(e, lim) >= 0; }
		mpz_fdiv_r(e, e, lim);
		T(op_val)(&oe, n, 0, 0, ctl ? e : a, ka);
		SNAP(oa); SNAP(ob);
		if (sub) ret = F(sub)(oa.p, same ? oa.p : ob.p, (uint32_t)ctl);
		else ret = F(add)(oa.p, same ? oa.p : ob.p, (uint32_t)ctl);
		T(eqret)(fn, ret, eret);
		T(eq)(fn, oa.p, oe.p, n + 1);
		GUARD(fn, oa); CONST(fn, ob);
		T(op_free)(&oa); T(op_free)(&ob); T(op_free)(&oe);
	}
	mpz_clears(a, b, e, lim, NULL);
}

static void
T(t_bitlen_iszero_zero)(unsigned k, int pat)
{
	int i;
	mpz_t v;
	mpz_init(v);
	for (i = 0; i < 6; i ++) {
		T(op) ox;
		size_t n = T(nw)(k);
		uint32_t ret, ebl;
		T(gen_below_2k)(v, k, i == 0 ? 0 : i * 5 + (int)k + pat);
		ebl = mpz_sgn(v) ? (uint32_t)mpz_sizeinbase(v, 2) : 0;
		case_begin(VAR_NAME, "bit_length", k, pat);
		case_add(" x=%Zx", v);
		T(op_val)(&ox, n, T(padrnd)(), 0, v, k);
		SNAP(ox);
		/* bit_length takes the value words only */
		ret = F(bit_length)(ox.p + 1, i == 5 ? 0 : n);
		if (i != 5 && T(hdr_equiv)(ret, T(enc)(ebl))) count(VAR_NAME, "bit_length");
		else T(eqret)("bit_length", ret, i == 5 ? 0 : T(enc)(ebl));
		CONST("bit_length", ox);
		case_begin(VAR_NAME, "iszero", k, pat);
		case_add(" x=%Zx", v);
		ret = F(iszero)(ox.p);
		T(eqret)("iszero", ret, mpz_sgn(v) == 0);
		CONST("iszero", ox);
		T(op_free)(&ox);
	}
	{
		T(op) ox, oe;
		size_t n = T(nw)(k);
		mpz_set_ui(v, 0);
		case_begin(VAR_NAME, "zero", k, pat);
		T(op_new)(&ox, n, T(padrnd)(), 0);
		T(op_val)(&oe, n, 0, 0, v, k);
		SNAP(ox);
		F(zero)(ox.p, (W)T(enc)(k));
		T(eq)("zero", ox.p, oe.p, n + 1);
		GUARD("zero", ox);
		T(op_free)(&ox); T(op_free)(&oe);
	}
	mpz_clear(v);
}

#if HAVE_RSHIFT
static void
T(t_rshift)(unsigned k, int pat)
{
	int i;
	mpz_t v, e;
	mpz_inits(v, e, NULL);
	for (i = 0; i < 5; i ++) {
		T(op) ox, oe;
		size_t n = T(nw)(k);
		int cnt;
		switch (i) {
		case 0: cnt = 0; break;
		case 1: cnt = 1; break;
		case 2: cnt = WB - 1; break;
		default: cnt = (int)vf_below(&R, WB); break;
		}
		T(gen_below_2k)(v, k, i == 3 ? 2 : i * 5 + (int)k + pat);
		case_begin(VAR_NAME, "rshift", k, pat);
		case_add(" count=%d x=%Zx", cnt, v);
		T(op_val)(&ox, n, T(padrnd)(), 0, v, k);
		mpz_fdiv_q_2exp(e, v, (mp_bitcnt_t)cnt);
		T(op_val)(&oe, n, 0, 0, e, k);
		SNAP(ox);
		F(rshift)(ox.p, cnt);
		T(eq)("rshift", ox.p, oe.p, n + 1);
		GUARD("rshift", ox);
		T(op_free)(&ox); T(op_free)(&oe);
	}
	mpz_clears(v, e, NULL);
}
#endif

static void
T(t_mulacc)(unsigned k, int pat)
{
	int i;
	mpz_t a, b, d, e;
	mpz_inits(a, b, d, e, NULL);
	for (i = 0; i < 5; i ++) {
		T(op) od, oa, ob, oe;
		int same = (i == 4);
		uint32_t ka = k, kb;
		size_t na, nb, nd;
		switch (i) {
		case 0: kb = k; break;
		case 1: kb = 1 + vf_below(&R, WB); break;
		case 2: kb = vf_below(&R, k + 1); break;
		case 3: ka = 1 + vf_below(&R, k); kb = k + vf_below(&R, 33); break;
		default: kb = ka; break;
		}
		na = T(nw)(ka); nb = T(nw)(kb); nd = T(nw)(ka + kb);
		T(gen_below_2k)(a, ka, i == 0 ? 2 : i * 5 + (int)k + pat);
		T(gen_below_2k)(b, kb, i == 0 ? 2 : i * 3 + (int)(k / 7));
		T(gen_below_2k)(d, ka, i == 0 ? 2 : i * 7 + (int)(k / 3));
		if (same) mpz_set(b, a);
		case_begin(VAR_NAME, "mulacc", k, pat);
		case_add(" ka=%u kb=%u same_ab=%d d=%Zx a=%Zx b=%Zx", (unsigned)ka, (unsigned)kb, same, d, a, b);
		/* room for the full result plus one extra word; words above those of a[] start as garbage */
		T(op_new)(&od, nd + 1, T(padrnd)(), 0);
		T(set)(od.p, na, d, ka);
		T(op_val)(&oa, na, T(padrnd)(), 0, a, ka);
		T(op_val)(&ob, nb, T(padrnd)(), 0, b, kb);
		mpz_mul(e, a, b);
		mpz_add(e, e, d);
		T(op_val)(&oe, nd, 0, 0, e, ka + kb);
		SNAP(od); SNAP(oa); SNAP(ob);
		F(mulacc)(od.p, oa.p, same ? oa.p : ob.p);
		/* when both operands carry the documented encoding of their lengths ((k / WB) << SH) + (k % WB), so does the result
		   (the other spelling of a full top word, which decode() uses, would send a later reduce() the wrong way) */
		T(eqx)("mulacc", od.p, oe.p, nd + 1, T(g_alt) ? 1 : 0);
		GUARD("mulacc", od); CONST("mulacc", oa); CONST("mulacc", ob);
		T(op_free)(&od); T(op_free)(&oa); T(op_free)(&ob); T(op_free)(&oe);
	}
	mpz_clears(a, b, d, e, NULL);
}

/* ------------------------------------------------------------------ */

static void
T(ninv_one)(W x)
{
	W r = VAR_NINV(x);
	W mask = WMAX;
	int ok;
	count(VAR_NAME, "ninv");
	if (x & 1) ok = (r & ~mask) == 0 && (((W)((W)(x * r) + 1)) & mask) == 0;
	else ok = (r == 0);
	if (!ok) {
		case_begin(VAR_NAME, "ninv", 0, 0);
		case_add(" x=%x got=%x", (unsigned)x, (unsigned)r);
		report(VAR_NAME, "ninv", "value", "not -(1/x) modulo the word base (or not 0 for even x)");
	}
}

static void
T(wordfn)(unsigned worker, unsigned nworkers)
{
	uint32_t i;
	if (sizeof(W) == 2) {
		/* exhaustive over the 15-bit domain, sliced over the workers */
		for (i = worker; i < 0x8000; i += nworkers) T(ninv_one)((W)i);
	} else {
		for (i = 0; i < 32; i ++) {
			T(ninv_one)((W)(((uint32_t)1 << i) & WMAX));
			T(ninv_one)((W)((((uint32_t)1 << i) - 1) & WMAX));
			T(ninv_one)((W)((((uint32_t)1 << i) + 1) & WMAX));
			T(ninv_one)((W)((WMAX - ((uint32_t)1 << i) + 1) & WMAX));
		}
		for (i = 0; i < 4000; i ++) T(ninv_one)((W)(vf_u32(&R) & WMAX));
	}
}

/* one exponentiation modulo a random odd k-bit modulus with an exponent of k bits.
   which: 0 = br_iNN_modpow_opt, 1 = br_i62_modpow_opt, 3 = br_iNN_modpow; mode: 1 = smallest temporary area that
   is guaranteed to work, 2 = area of the largest window */
static void
T(modpow_full)(unsigned k, int which, int mode)
{
	T(ctx) c;
	T(g_alt) = 0;
	T(ctx_init)(&c, k, 0, 1);
	T(g_full) = mode;
	if (which == 3) T(t_modpow)(&c);
#if HAVE_MODPOW_OPT
	else if (which == 0) T(t_modpow_opt)(&c, 0);
#endif
#if HAVE_I62
	else if (which == 1) T(t_modpow_opt)(&c, 1);
#endif
	T(g_full) = 0;
	T(ctx_clear)(&c);
}

static void
T(suite)(unsigned k, int pat)
{
	T(ctx) c;

	T(g_alt) = pat & 1;
	vf_distinct("cfg", "%s:k%u:p%d", VAR_NAME, k, pat);
	vf_distinct("residue", "%s:k%%%d=%u", VAR_NAME, WB, k % WB);
	vf_stat("suites", 1);

	/* odd modulus: everything */
	T(ctx_init)(&c, k, pat, 1);
	{
		/* the library's ninv against the independently computed m0i */
		W lo = (W)(mpz_get_ui(c.m) & WMAX);
		T(cbegin)(&c, "ninv");
		T(eqret)("ninv", VAR_NINV(lo), c.m0i);
	}
	T(t_montymul)(&c);
	T(t_tofrom_monty)(&c, 0);
	T(t_tofrom_monty)(&c, 1);
	T(t_muladd)(&c);
	T(t_reduce)(&c);
	T(t_decred)(&c);
	T(t_decmod)(&c);
	T(t_modpow)(&c);
#if HAVE_MODPOW_OPT
	T(t_modpow_opt)(&c, 0);
#endif
#if HAVE_I62
	T(t_modpow_opt)(&c, 1);
	T(t_modpow_opt)(&c, 2);
#endif
#if HAVE_MODDIV
	T(t_moddiv)(&c);
#endif
	T(ctx_clear)(&c);

	/* even modulus: the routines that do not need Montgomery's m0i */
	T(ctx_init)(&c, k, pat, 0);
	T(t_tofrom_monty)(&c, 0);
	T(t_muladd)(&c);
	T(t_reduce)(&c);
	T(t_decred)(&c);
	T(t_decmod)(&c);
	T(ctx_clear)(&c);

	T(t_decode)(k, pat);
	T(t_encode)(k, pat);
	T(t_addsub)(k, pat);
	T(t_bitlen_iszero_zero)(k, pat);
#if HAVE_RSHIFT
	T(t_rshift)(k, pat);
#endif
	T(t_mulacc)(k, pat);
}

#undef CAT2_
#undef CAT2
#undef T
#undef F
#undef NAIL
#undef WMAX
#undef SNAP
#undef GUARD
#undef CONST
#endif
