/*
 * C17 (part 1): br_ssl_session_cache_lru driven through its vtable
 * (save / load) and br_ssl_session_cache_lru_forget, with executable
 * reference models checked online after every operation.
 *
 * Oracles
 *  exact      histories in which every saved ID is not currently indexed and
 *             no forget took effect: hit/miss and the returned (version,
 *             suite, master secret) equal an LRU map of capacity
 *             floor(store_len / 100); a successful load refreshes recency.
 *  refine     after a forget took effect: the implementation must agree, over
 *             the whole history, with at least one of two refinements
 *             (tombstone keeps slot and recency until it ages out / removal
 *             frees the slot), see lrumodel.h.
 *  (c)        once a save hits an ID that is still indexed in an admissible
 *             refinement, hit/miss is no longer judged (documented
 *             precondition "freshly generated ID" does not hold); the
 *             operations still run under ASan and the two oracles below.
 *  safety     all histories: a hit returns exactly the values of a save of
 *             that ID which may be the most recent accepted one: never another
 *             ID's, never those saved before a forget of that ID, never older
 *             than what a previous hit returned; version != 0.
 *  struct     all histories, after every operation: recency list and index
 *             tree hold the same set of entry offsets, each a multiple of 100
 *             below store_ptr, no cycle, prev links consistent, tail is the
 *             list end, tree in strict masked-ID order; store_ptr a multiple
 *             of 100 within the store.
 * The store, the cache context, the parameter block and the forget argument
 * live in exact-size malloc blocks (ASan red zones bound them).
 *
 * The per-cache index key comes from the server context's HMAC_DRBG at the
 * first save, and the masking hash is that DRBG's hash: the harness hands in
 * a br_ssl_server_context of which only eng.rng is initialised, seeded per
 * configuration, with SHA-256/SHA-1/SHA-384/MD5/SHA-224/SHA-512 (mask covers
 * 32, 20, 32, 16, 28, 32 bytes) and with two degenerate hash classes whose
 * output is constant (8 or 30 bytes): then the index order is the raw order
 * of the ID tails chosen by the harness, which reaches tree shapes (chains,
 * zig-zags) and near-equal keys that a real hash only produces with
 * negligible probability. IDs are pairwise distinct after masking by
 * construction, so the cache is still a map over them.
 */
#include "common.h"
#include "bearssl.h"
#include "lrumodel.h"

#define ENTRY 100
#define NIL   0xFFFFFFFFu

static const char *prop = "C17";
static char cur_case[4096];
__attribute__((constructor)) static void case_init_(void) { vf_cur_case = cur_case; }

/* ------------------------------------------------------------------ */
/* degenerate hash classes (constant output) */

static void fk_update(const br_hash_class **ctx, const void *data, size_t len)
{ (void)ctx; (void)data; (void)len; }
static void fk_out(const br_hash_class *const *ctx, void *dst)
{
	memset(dst, 0xA5, ((*ctx)->desc >> BR_HASHDESC_OUT_OFF) & BR_HASHDESC_OUT_MASK);
}
static uint64_t fk_state(const br_hash_class *const *ctx, void *dst)
{ (void)ctx; (void)dst; return 0; }
static void fk_set_state(const br_hash_class **ctx, const void *stb, uint64_t count)
{ (void)ctx; (void)stb; (void)count; }
static void fk8_init(const br_hash_class **ctx);
static void fk30_init(const br_hash_class **ctx);
static const br_hash_class fk8_vtable = {
	sizeof(br_hash_compat_context),
	BR_HASHDESC_ID(0) | BR_HASHDESC_OUT(8) | BR_HASHDESC_STATE(0) | BR_HASHDESC_LBLEN(6),
	fk8_init, fk_update, fk_out, fk_state, fk_set_state
};
static const br_hash_class fk30_vtable = {
	sizeof(br_hash_compat_context),
	BR_HASHDESC_ID(0) | BR_HASHDESC_OUT(30) | BR_HASHDESC_STATE(0) | BR_HASHDESC_LBLEN(6),
	fk30_init, fk_update, fk_out, fk_state, fk_set_state
};
static void fk8_init(const br_hash_class **ctx) { *ctx = &fk8_vtable; }
static void fk30_init(const br_hash_class **ctx) { *ctx = &fk30_vtable; }

#define NHASH 8
static const struct { const char *name; const br_hash_class *cls; int fake; } hashes[NHASH] = {
	{ "sha256", &br_sha256_vtable, 0 },
	{ "sha1", &br_sha1_vtable, 0 },
	{ "const8", &fk8_vtable, 1 },
	{ "const30", &fk30_vtable, 1 },
	{ "sha384", &br_sha384_vtable, 0 },
	{ "md5", &br_md5_vtable, 0 },
	{ "sha224", &br_sha224_vtable, 0 },
	{ "sha512", &br_sha512_vtable, 0 },
};

/* ------------------------------------------------------------------ */
/* values named by serial numbers */

typedef struct { uint16_t version, suite; unsigned char ms[48]; } lval;

static void
val_of(uint64_t vkey, uint32_t serial, lval *v)
{
	uint64_t x = vkey + (uint64_t)serial * 0x9E3779B97F4A7C15ull;
	uint64_t z = vf_splitmix(&x);
	int i;
	v->version = (uint16_t)(0x0300 + (z & 3));
	v->suite = (uint16_t)(z >> 8);
	for (i = 0; i < 48; i += 8) {
		z = vf_splitmix(&x);
		memcpy(v->ms + i, &z, 8);
	}
	/* the serial is readable from the secret (classification of wrong hits) */
	v->ms[0] = (unsigned char)(serial >> 24); v->ms[1] = (unsigned char)(serial >> 16);
	v->ms[2] = (unsigned char)(serial >> 8); v->ms[3] = (unsigned char)serial;
}

/* ------------------------------------------------------------------ */
/* environment: the objects handed to the library */

typedef struct {
	br_ssl_session_cache_lru *cc;      /* exact-size block */
	unsigned char *blk, *store;        /* store: exact-size block (length 0: end of a small block) */
	size_t store_len;
	br_ssl_server_context *sc;         /* only eng.rng is initialised */
	br_ssl_server_context *sc2;        /* a second server context using the same cache: its generator runs on another hash function */
	br_ssl_session_parameters *pp;     /* exact-size block */
	unsigned char *idarg;              /* 32-byte exact-size block, argument of forget */
	unsigned char (*ids)[32];
	int nids;
	uint64_t vkey;
	/* description of the configuration */
	int hash, style;
	unsigned char seed[32];
	char cfg[400];
} env;

static void
env_free(env *E)
{
	free(E->cc); free(E->blk); free(E->sc); free(E->sc2); free(E->pp); free(E->idarg); free(E->ids);
	memset(E, 0, sizeof *E);
}

/*
 * ID universes.
 *  0 random
 *  1 base, last two bytes = index (big endian): ascending tails
 *  2 base, first two bytes = index
 *  3 base, bytes 19..20 = index (straddles the 20-byte SHA-1 mask)
 *  4 (n <= 6) near-collisions: base; last byte ^1; last byte ^0x80; first byte ^1; byte 19 ^1; byte 20 ^1
 *  5 (n <= 6) extreme constants
 *  6 (n <= 6) base with last byte 00 01 7f 80 fe ff
 */
static void
make_ids(env *E, int n, int style, vf_rng *r)
{
	unsigned char base[32];
	int i;
	E->ids = malloc((size_t)n * 32);
	E->nids = n;
	E->style = style;
	vf_bytes(r, base, 32);
	for (i = 0; i < n; i ++) {
		unsigned char *d = E->ids[i];
		memcpy(d, base, 32);
		switch (style) {
		case 0: vf_bytes(r, d, 32); d[0] = (unsigned char)i; d[1] = (unsigned char)(i >> 8); break;
		case 1: d[30] = (unsigned char)(i >> 8); d[31] = (unsigned char)i; break;
		case 2: d[0] = (unsigned char)(i >> 8); d[1] = (unsigned char)i; break;
		case 3: d[19] = (unsigned char)(i >> 8); d[20] = (unsigned char)i; break;
		case 4: {
			static const int pos[6] = { -1, 31, 31, 0, 19, 20 };
			static const unsigned char x[6] = { 0, 1, 0x80, 1, 1, 1 };
			if (pos[i] >= 0) d[pos[i]] ^= x[i];
			break;
		}
		case 5:
			memset(d, (i == 1 || i == 4) ? 0xFF : 0x00, 32);
			if (i == 2) d[31] = 0x01;
			if (i == 3) d[0] = 0x80;
			if (i == 4) d[31] = 0xFE;
			if (i == 5) d[31] = 0x80;
			break;
		default: {
			static const unsigned char t[6] = { 0x00, 0x01, 0x7F, 0x80, 0xFE, 0xFF };
			d[31] = t[i];
			break;
		}
		}
	}
}

static void
env_make(env *E, size_t store_len, int hash, const unsigned char *seed)
{
	E->store_len = store_len;
	if (store_len == 0) {
		E->blk = malloc(8);
		E->store = E->blk + 8;
	} else {
		E->blk = malloc(store_len);
		E->store = E->blk;
		memset(E->store, 0xDD, store_len);
	}
	E->cc = malloc(sizeof *E->cc);
	memset(E->cc, 0xCC, sizeof *E->cc);
	E->sc = malloc(sizeof *E->sc);
	memset(E->sc, 0, sizeof *E->sc);
	E->pp = malloc(sizeof *E->pp);
	E->idarg = malloc(32);
	E->hash = hash;
	memcpy(E->seed, seed, 32);
	br_hmac_drbg_init(&E->sc->eng.rng, hashes[hash].cls, seed, 32);
	/* "the SSL server context that performs the request is provided": a cache may serve several of them; the second one is
	   configured with other hash functions (its HMAC_DRBG runs on SHA-384, or SHA-256 when the first one has SHA-384) */
	E->sc2 = malloc(sizeof *E->sc2);
	memset(E->sc2, 0, sizeof *E->sc2);
	br_hmac_drbg_init(&E->sc2->eng.rng, hashes[hash].cls == &br_sha384_vtable ? &br_sha256_vtable : &br_sha384_vtable, seed + 1, 31);
	br_ssl_session_cache_lru_init(E->cc, E->store, store_len);
}

/* ------------------------------------------------------------------ */
/* oracle state (copyable: the enumeration keeps one per depth level) */

typedef struct {
	lm_model mT, mR;
	int aliveT, aliveR;
	int tainted;             /* a save hit an ID that may still be indexed: domain (c) */
	int forgot;              /* a forget took effect: the refinements may differ */
	uint32_t loglen;         /* number of saves so far; serial = index in the log */
	int nids, maxlog;
	int *logid;              /* ID of each save */
	int32_t *cand_from;      /* serials below are not acceptable for the ID any more */
	int32_t *narrow;         /* serial returned by the last hit, or -1 */
	int32_t *narrow_at;      /* log length at that hit */
	int32_t *forget_at;      /* log length at the last forget of the ID, or -1 */
} ora;

static void
ora_alloc(ora *O, int nids, int maxlog)
{
	memset(O, 0, sizeof *O);
	O->nids = nids; O->maxlog = maxlog;
	O->logid = malloc((size_t)maxlog * sizeof(int));
	O->cand_from = malloc((size_t)nids * sizeof(int32_t));
	O->narrow = malloc((size_t)nids * sizeof(int32_t));
	O->narrow_at = malloc((size_t)nids * sizeof(int32_t));
	O->forget_at = malloc((size_t)nids * sizeof(int32_t));
}

static void
ora_free(ora *O)
{
	free(O->logid); free(O->cand_from); free(O->narrow); free(O->narrow_at); free(O->forget_at);
}

static void
ora_reset(ora *O, int cap)
{
	int i;
	lm_init(&O->mT, cap, LM_TOMB);
	lm_init(&O->mR, cap, LM_REMOVE);
	O->aliveT = O->aliveR = 1;
	O->tainted = O->forgot = 0;
	O->loglen = 0;
	for (i = 0; i < O->nids; i ++) {
		O->cand_from[i] = 0; O->narrow[i] = -1; O->narrow_at[i] = 0; O->forget_at[i] = -1;
	}
}

static void
ora_copy(ora *d, const ora *s)
{
	size_t n = (size_t)s->nids * sizeof(int32_t);
	lm_copy(&d->mT, &s->mT); lm_copy(&d->mR, &s->mR);
	d->aliveT = s->aliveT; d->aliveR = s->aliveR;
	d->tainted = s->tainted; d->forgot = s->forgot;
	d->loglen = s->loglen;
	memcpy(d->logid, s->logid, (size_t)s->loglen * sizeof(int));
	memcpy(d->cand_from, s->cand_from, n);
	memcpy(d->narrow, s->narrow, n);
	memcpy(d->narrow_at, s->narrow_at, n);
	memcpy(d->forget_at, s->forget_at, n);
}

/* ------------------------------------------------------------------ */
/* structural walker over the public struct */

static inline uint32_t
dec32(const unsigned char *p)
{
	return ((uint32_t)p[0] << 24) | ((uint32_t)p[1] << 16) | ((uint32_t)p[2] << 8) | p[3];
}

static long long n_struct;

static const char *
walk(const env *E)
{
	const br_ssl_session_cache_lru *cc = E->cc;
	static unsigned char inlist[LM_MAXCAP + 8], intree[LM_MAXCAP + 8];
	static uint32_t stack[LM_MAXCAP + 8];
	const unsigned char *st = E->store;
	size_t sp = cc->store_ptr, nslots;
	uint32_t x, prev, cur, last;
	int depth = 0;

	n_struct ++;
	if (cc->store != E->store || cc->store_len != E->store_len) return "descriptor-changed";
	if (sp % ENTRY != 0 || sp > E->store_len) return "store-ptr-invalid";
	nslots = sp / ENTRY;
	if (nslots > LM_MAXCAP) return "store-ptr-invalid";
	memset(inlist, 0, nslots + 1);
	memset(intree, 0, nslots + 1);
	x = cc->head; prev = NIL;
	while (x != NIL) {
		if (x % ENTRY != 0 || x >= sp) return "list-offset-invalid";
		if (inlist[x / ENTRY]) return "list-cycle";
		inlist[x / ENTRY] = 1;
		if (dec32(st + x + 84) != prev) return "list-prev-mismatch";
		prev = x;
		x = dec32(st + x + 88);
	}
	if (cc->tail != prev) return "list-tail-mismatch";
	cur = cc->root; last = NIL;
	while (cur != NIL || depth > 0) {
		while (cur != NIL) {
			if (cur % ENTRY != 0 || cur >= sp) return "tree-offset-invalid";
			if (intree[cur / ENTRY]) return "tree-cycle";
			intree[cur / ENTRY] = 1;
			stack[depth ++] = cur;
			cur = dec32(st + cur + 92);
		}
		cur = stack[-- depth];
		if (last != NIL && memcmp(st + last, st + cur, 32) >= 0) return "tree-order";
		last = cur;
		cur = dec32(st + cur + 96);
	}
	if (memcmp(inlist, intree, nslots) != 0) return "list-tree-set-differ";
	return NULL;
}

/* ------------------------------------------------------------------ */
/* one monitored operation */

enum { OP_SAVE = 0, OP_LOAD = 1, OP_FORGET = 2 };
static const char opc[3] = { 'S', 'L', 'F' };

static long long n_ops, n_save, n_load, n_forget, n_hit, n_miss, n_second_ctx;
static long long n_cmp_exact, n_cmp_refine, n_cmp_safety, n_unjudged, n_ops_c, n_ops_b, n_ops_a;
static long long n_evict_model, n_refresh_model, n_refine_drop;

#define VIOL(mon, what)  do { char k_[160]; \
		snprintf(k_, sizeof k_, "%s:lru:%s", prop, (mon)); \
		vf_viol(k_, (what), "%s", cur_case); } while (0)

/* returns 0 after a violation (the caller abandons the history) */
static int
do_op(env *E, ora *O, int op, int id)
{
	br_ssl_session_parameters *pp = E->pp;
	const char *sw;
	int ok = 1;

	n_ops ++;
	if (O->tainted) n_ops_c ++; else if (O->forgot) n_ops_b ++; else n_ops_a ++;
	switch (op) {
	case OP_SAVE: {
		uint32_t serial = O->loglen;
		lval v;
		int fresh;
		if ((int)serial >= O->maxlog) { fprintf(stderr, "HARNESS_ASSERT log-overflow\n"); exit(2); }
		val_of(E->vkey, serial, &v);
		memset(pp, 0, sizeof *pp);
		memcpy(pp->session_id, E->ids[id], 32);
		pp->session_id_len = 32;
		pp->version = v.version; pp->cipher_suite = v.suite;
		memcpy(pp->master_secret, v.ms, 48);
		{
			int second = !hashes[E->hash].fake && (serial * 7 + (uint32_t)id) % 3 == 1;
			E->cc->vtable->save(&E->cc->vtable, second ? E->sc2 : E->sc, pp);
			if (second) n_second_ctx ++;
		}
		n_save ++;
		fresh = !O->tainted
			&& !(O->aliveT && lm_indexed(&O->mT, id))
			&& !(O->aliveR && lm_indexed(&O->mR, id));
		if (!O->tainted) {
			if (!fresh) {
				O->tainted = 1;
			} else {
				if (lm_save(&O->mT, id, serial) == 2) n_evict_model ++;
				lm_save(&O->mR, id, serial);
			}
		}
		if (fresh) { O->cand_from[id] = (int32_t)serial; O->narrow[id] = -1; }
		O->logid[serial] = id;
		O->loglen ++;
		break;
	}
	case OP_LOAD: {
		int r, valid = 0;
		uint32_t s = 0;
		memset(pp, 0, sizeof *pp);
		memcpy(pp->session_id, E->ids[id], 32);
		pp->session_id_len = 32;
		pp->version = 0xAAAA; pp->cipher_suite = 0xBBBB;
		memset(pp->master_secret, 0x5C, 48);
		{
			int second = !hashes[E->hash].fake && (O->loglen + (uint32_t)id) % 3 == 2;
			r = E->cc->vtable->load(&E->cc->vtable, second ? E->sc2 : E->sc, pp);
			if (second) n_second_ctx ++;
		}
		n_load ++;
		if (r != 0 && r != 1) {
			VIOL("load-return-value", "load returned a value other than 0 or 1");
			return 0;
		}
		if (r) n_hit ++; else n_miss ++;
		if (r) {
			lval v;
			/* safety oracle */
			n_cmp_safety ++;
			s = dec32(pp->master_secret);
			if (s < O->loglen) {
				val_of(E->vkey, s, &v);
				valid = pp->version == v.version && pp->cipher_suite == v.suite
					&& memcmp(pp->master_secret, v.ms, 48) == 0;
			}
			if (pp->version == 0) {
				VIOL("safety:version-zero", "hit with protocol version 0");
				ok = 0;
			} else if (!valid) {
				VIOL("safety:corrupt-entry", "hit returned values that no save ever stored together");
				ok = 0;
			} else if (O->logid[s] != id) {
				VIOL("safety:foreign-entry", "hit returned the values saved under another session ID");
				ok = 0;
			} else if ((int32_t)s == O->narrow[id]
				|| ((int32_t)s >= O->cand_from[id]
					&& (O->narrow[id] < 0 || (int32_t)s >= O->narrow_at[id])))
			{
				O->narrow[id] = (int32_t)s;
				O->narrow_at[id] = (int32_t)O->loglen;
			} else if ((int32_t)s < O->forget_at[id]) {
				VIOL("safety:forgotten-entry", "hit returned values saved before the ID was forgotten");
				ok = 0;
			} else {
				VIOL("safety:stale-entry", "hit returned values of a save that cannot be the most recent accepted one");
				ok = 0;
			}
		}
		if (!O->tainted) {
			uint32_t sT = 0, sR = 0;
			int wasT = O->aliveT && O->mT.n > 0 && O->mT.e[0].id != id;
			int rT = lm_load(&O->mT, id, &sT), rR = lm_load(&O->mR, id, &sR);
			int agT = rT == r && (!r || (valid && sT == s));
			int agR = rR == r && (!r || (valid && sR == s));
			if (O->forgot) n_cmp_refine ++; else n_cmp_exact ++;
			if (rT && wasT) n_refresh_model ++;
			if (O->aliveT && !agT) { O->aliveT = 0; if (O->forgot) n_refine_drop ++; }
			if (O->aliveR && !agR) { O->aliveR = 0; if (O->forgot) n_refine_drop ++; }
			if (!O->aliveT && !O->aliveR && ok) {
				if (O->forgot) {
					VIOL("forget:no-admissible-refinement",
						"results agree with neither the tombstone nor the removal reading of forget");
				} else if (!r) {
					VIOL("exact:miss-where-model-hits", "load missed an entry the LRU map of capacity floor(len/100) still holds");
				} else if (!rT) {
					VIOL("exact:hit-where-model-misses", "load found an entry the LRU map of capacity floor(len/100) has evicted or never held");
				} else {
					VIOL("exact:wrong-value", "load returned other values than the LRU map");
				}
				ok = 0;
			}
		} else {
			n_unjudged ++;
		}
		break;
	}
	default:
		memcpy(E->idarg, E->ids[id], 32);
		br_ssl_session_cache_lru_forget(E->cc, E->idarg);
		n_forget ++;
		if (!O->tainted) {
			int a = lm_forget(&O->mT, id), b = lm_forget(&O->mR, id);
			if (a || b) O->forgot = 1;
		}
		O->cand_from[id] = (int32_t)O->loglen;
		O->narrow[id] = -1;
		O->forget_at[id] = (int32_t)O->loglen;
		break;
	}
	sw = walk(E);
	if (sw != NULL) {
		char k[80];
		snprintf(k, sizeof k, "struct:%s", sw);
		VIOL(k, "recency list / index tree invariant broken after this operation");
		ok = 0;
	}
	return ok;
}

/* ------------------------------------------------------------------ */
/* exhaustive enumeration */

#define MAXDEPTH 8
#define DFS_U 6
typedef struct {
	br_ssl_session_cache_lru cc;
	br_hmac_drbg_context rng, rng2;
	unsigned char store[512];
} snap;

static snap snaps[MAXDEPTH + 1];
static ora oras[MAXDEPTH + 1];
static size_t case_base;
static long long n_hist, n_nodes, n_abandoned;
static int dfs_depth;
static long unit_no;
static int g_worker, g_nworkers;

static void
snap_take(snap *s, const env *E)
{
	s->cc = *E->cc;
	s->rng = E->sc->eng.rng; s->rng2 = E->sc2->eng.rng;
	memcpy(s->store, E->store, E->store_len);
}

static void
snap_put(const snap *s, env *E)
{
	*E->cc = s->cc;
	E->sc->eng.rng = s->rng; E->sc2->eng.rng = s->rng2;
	memcpy(E->store, s->store, E->store_len);
}

static void
dfs(env *E, int level)
{
	int o;
	for (o = 0; o < 3 * DFS_U; o ++) {
		int op = o / DFS_U, id = o % DFS_U, ok;
		char *h;
		if (level == 0) {
			long u = unit_no ++;
			if (u % g_nworkers != g_worker) continue;
		}
		snap_put(&snaps[level], E);
		ora_copy(&oras[level + 1], &oras[level]);
		h = cur_case + case_base + 3 * (size_t)level;
		h[0] = ' '; h[1] = opc[op]; h[2] = (char)('0' + id); h[3] = 0;
		ok = do_op(E, &oras[level + 1], op, id);
		n_nodes ++;
		if (!ok) { n_abandoned ++; continue; }
		if (level + 1 < dfs_depth) {
			snap_take(&snaps[level + 1], E);
			dfs(E, level + 1);
		} else {
			n_hist ++;
		}
	}
}

static void
describe(env *E, const char *part, long long seed, long cfgno, int prefill)
{
	snprintf(E->cfg, sizeof E->cfg,
		"part=%s seed=%lld cfg=%ld store_len=%zu cap=%zu hash=%s idstyle=%d prefill=%d drbg_seed=%s id0=%s",
		part, seed, cfgno, E->store_len, E->store_len / ENTRY, hashes[E->hash].name, E->style,
		prefill, vf_hexs(E->seed, 32), vf_hexs(E->ids[0], 32));
}

static void
run_exhaustive(long long seed, long cfgno, size_t store_len, int hash, int style, int prefill, int depth)
{
	env E;
	vf_rng r;
	unsigned char dseed[32];
	int i, cap = (int)(store_len / ENTRY), ok = 1;
	long first_unit = unit_no;

	/* skip the whole configuration if none of its units belongs to this worker */
	{
		long u;
		int mine = 0;
		for (u = first_unit; u < first_unit + 3 * DFS_U; u ++) if (u % g_nworkers == g_worker) mine = 1;
		if (!mine) { unit_no += 3 * DFS_U; return; }
	}
	memset(&E, 0, sizeof E);
	vf_rng_init(&r, (uint64_t)seed, 0x1000000 + (uint64_t)cfgno);
	vf_bytes(&r, dseed, 32);
	env_make(&E, store_len, hash, dseed);
	E.vkey = vf_u64(&r);
	make_ids(&E, DFS_U, style, &r);
	describe(&E, "exhaustive", seed, cfgno, prefill);
	case_base = (size_t)snprintf(cur_case, sizeof cur_case, "%s depth=%d ops=", E.cfg, depth);
	for (i = 0; i <= depth; i ++) {
		if (oras[i].logid == NULL) ora_alloc(&oras[i], DFS_U, MAXDEPTH + 8);
	}
	ora_reset(&oras[0], cap);
	/* prefill: the enumeration starts from a cache that already holds `prefill` entries */
	for (i = 0; i < prefill && ok; i ++) {
		char *h = cur_case + case_base;
		h[0] = ' '; h[1] = 'S'; h[2] = (char)('0' + i); h[3] = 0;
		case_base += 3;
		ok = do_op(&E, &oras[0], OP_SAVE, i);
	}
	if (ok) {
		snap_take(&snaps[0], &E);
		dfs_depth = depth;
		dfs(&E, 0);
	} else {
		unit_no += 3 * DFS_U;
	}
	vf_distinct("lru_config", "x/%zu/%s/%d/%d", store_len, hashes[hash].name, style, prefill);
	if (g_worker == 0) {
		vf_sample("{\"part\":\"exhaustive\",\"store_len\":%zu,\"hash\":\"%s\",\"id_style\":%d,\"prefill\":%d,\"depth\":%d,"
			"\"ids\":[\"%s\",\"%s\",\"..\"],\"index_key\":\"%s\"}",
			store_len, hashes[hash].name, style, prefill, depth,
			vf_hexs(E.ids[0], 32), vf_hexs(E.ids[1], 32), vf_hexs(E.cc->index_key, 32));
	}
	env_free(&E);
}

/* ------------------------------------------------------------------ */
/* long random histories */

/* large: capacity 700..1500 (store above 65535 bytes: entry offsets no longer fit 16 bits), ID universe only a
   quarter larger than the capacity so that most lookups of a random ID hit and every save above capacity evicts */
static void
run_random(long long seed, long hidx, long oplen, int large)
{
	env E;
	vf_rng r;
	ora O;
	unsigned char dseed[32];
	int cap, rem, nids, hash, style, kind, order, cls;
	size_t store_len, off = 0, tail_keep = 1500;
	long i;
	int sweep = 0, ok = 1;
	long long ev0 = n_evict_model, hit0 = n_hit;
	char *ring;

	memset(&E, 0, sizeof E);
	vf_rng_init(&r, (uint64_t)seed, (large ? 0x2800000 : 0x2000000) + (uint64_t)hidx);
	cls = (int)(hidx % 3);
	cap = cls == 0 ? (int)vf_range(&r, 1, 6) : cls == 1 ? (int)vf_range(&r, 7, 40) : (int)vf_range(&r, 41, 200);
	if (large) cap = hidx % 4 == 0 ? (int)vf_range(&r, 656, 700) : (int)vf_range(&r, 700, 1500);
	switch (vf_below(&r, 4)) { case 0: rem = 0; break; case 1: rem = 1; break; case 2: rem = 99; break; default: rem = (int)vf_below(&r, 100); }
	store_len = (size_t)cap * ENTRY + (size_t)rem;
	nids = 3 * cap; if (nids < 4) nids = 4;
	if (large) nids = cap + cap / 4;
	hash = (int)((hidx / 3) % NHASH);
	kind = (int)((hidx / 24) % 3);        /* 0 exact domain only, 1 with forget, 2 anything */
	if (large) { hash = (int)(hidx % NHASH); kind = (int)((hidx / 2) % 3); }
	if (hashes[hash].fake) {
		style = 1;
	} else {
		style = (int)vf_below(&r, 4);
	}
	order = (int)vf_below(&r, 4);         /* choice of the next ID to save: 0 random, 1 ascending, 2 descending, 3 zig-zag */
	vf_bytes(&r, dseed, 32);
	env_make(&E, store_len, hash, dseed);
	E.vkey = vf_u64(&r);
	make_ids(&E, nids, style, &r);
	describe(&E, large ? "random-large" : "random", seed, hidx, 0);
	ora_alloc(&O, nids, (int)oplen + 1);
	ora_reset(&O, cap);
	case_base = (size_t)snprintf(cur_case, sizeof cur_case, "%s kind=%d order=%d nids=%d ops(last)=", E.cfg, kind, order, nids);
	ring = cur_case + case_base;
	if (case_base + tail_keep + 16 > sizeof cur_case) tail_keep = sizeof cur_case - case_base - 16;
	for (i = 0; i < oplen && ok; i ++) {
		int op, id = 0, tries;
		uint32_t p = vf_below(&r, 100);
		if (kind == 0) op = p < 45 ? OP_SAVE : OP_LOAD;
		else op = p < 42 ? OP_SAVE : p < 92 ? OP_LOAD : OP_FORGET;
		if (op == OP_SAVE) {
			int want_fresh = kind != 2 || vf_below(&r, 100) < 85;
			id = -1;
			if (want_fresh) {
				/* an ID that is not indexed in any refinement (documented precondition) */
				for (tries = 0; tries < 4 * nids && id < 0; tries ++) {
					int c;
					switch (order) {
					case 0: c = (int)vf_below(&r, (uint32_t)nids); break;
					case 1: c = sweep ++ % nids; break;
					case 2: c = nids - 1 - (sweep ++ % nids); break;
					default: c = (sweep & 1) ? nids - 1 - (sweep / 2) % nids : (sweep / 2) % nids; sweep ++; break;
					}
					if (!lm_indexed(&O.mT, c) && !lm_indexed(&O.mR, c)) id = c;
				}
				if (id < 0) { op = OP_LOAD; }
			} else {
				id = (int)vf_below(&r, (uint32_t)nids);
			}
		}
		if (op == OP_LOAD || op == OP_FORGET) {
			/* mostly IDs the model holds (any recency position), else any ID */
			if (O.mT.n > 0 && vf_below(&r, 100) < (op == OP_LOAD ? 65u : 80u)) {
				uint32_t q = vf_below(&r, 10);
				int pos = q == 0 ? O.mT.n - 1 : q == 1 ? 0 : (int)vf_below(&r, (uint32_t)O.mT.n);
				id = O.mT.e[pos].id;
			} else {
				id = (int)vf_below(&r, (uint32_t)nids);
			}
		}
		/* keep the tail of the history in the case description */
		if (off + 8 > tail_keep) { memmove(ring, ring + tail_keep / 2, off - tail_keep / 2); off -= tail_keep / 2; }
		off += (size_t)snprintf(ring + off, 8, " %c%d", opc[op], id);
		ok = do_op(&E, &O, op, id);
	}
	n_hist ++;
	vf_stat("random_histories", 1);
	if (large) {
		vf_stat("large_histories", 1);
		vf_stat("large_store_above_64k", store_len > 65535);
		vf_stat("large_model_evictions", n_evict_model - ev0);
		vf_stat("large_load_hits", n_hit - hit0);
		vf_max("large_entries_in_use", (long long)(E.cc->store_ptr / ENTRY));
	}
	vf_max("max_capacity", cap);
	vf_distinct("lru_config", "r/%d/%d/%s/%d/%d/%d", cap, rem, hashes[hash].name, style, kind, order);
	if (hidx < 2) {
		vf_sample("{\"part\":\"random\",\"capacity\":%d,\"store_len\":%zu,\"ids\":%d,\"hash\":\"%s\",\"id_style\":%d,\"kind\":%d,"
			"\"order\":%d,\"ops\":%ld,\"index_key\":\"%s\",\"last_ops\":\"%.120s\"}",
			cap, store_len, nids, hashes[hash].name, style, kind, order, i,
			vf_hexs(E.cc->index_key, 32), off > 120 ? ring + off - 120 : ring);
	}
	ora_free(&O);
	env_free(&E);
}

/* ------------------------------------------------------------------ */

int
main(int argc, char **argv)
{
	long long seed = vf_argi(argc, argv, "--seed", 1);
	int depth = (int)vf_argi(argc, argv, "--depth", 4);
	int keys = (int)vf_argi(argc, argv, "--keys", 1);
	long nrandom = (long)vf_argi(argc, argv, "--random", 200);
	long oplen = (long)vf_argi(argc, argv, "--oplen", 10000);
	int small_depth = (int)vf_argi(argc, argv, "--small-depth", 3);
	int nhash = (int)vf_argi(argc, argv, "--hashes", NHASH);   /* part A uses the first nhash masking hashes */
	long nlarge = (long)vf_argi(argc, argv, "--large", 16);
	long large_oplen = (long)vf_argi(argc, argv, "--large-oplen", 7000);
	long cfgno = 0;
	int c, ri, h, k, pf;
	static const int rems[3] = { 0, 1, 99 };

	g_worker = (int)vf_argi(argc, argv, "--worker", 0);
	g_nworkers = (int)vf_argi(argc, argv, "--nworkers", 1);
	if (depth > MAXDEPTH) depth = MAXDEPTH;
	if (small_depth > MAXDEPTH) small_depth = MAXDEPTH;

	if (nhash > NHASH || nhash < 1) nhash = NHASH;

	/* A: every operation sequence to `depth` over 6 IDs, capacities 0..4, lengths 100c + {0,1,99} */
	for (k = 0; k < keys; k ++) {
		for (h = 0; h < nhash; h ++) {
			for (c = 0; c <= 4; c ++) {
				for (ri = 0; ri < 3; ri ++) {
					for (pf = 0; pf < 2; pf ++) {
						size_t len = (size_t)c * ENTRY + (size_t)rems[ri];
						int style;
						if (pf == 1 && c == 0) continue;
						if (hashes[h].fake) style = 6;
						else style = 4 + (int)((cfgno + (long)k) % 3);
						run_exhaustive(seed, cfgno, len, h, style, pf ? c : 0, depth);
						cfgno ++;
					}
				}
			}
		}
	}
	/* B: every store length 0..99 (capacity 0: nothing is ever found or written) */
	for (c = 0; c < 100; c ++) {
		run_exhaustive(seed, cfgno, (size_t)c, c % NHASH, hashes[c % NHASH].fake ? 6 : 4, 0, small_depth);
		cfgno ++;
	}
	vf_stat("exhaustive_histories", n_hist);
	vf_stat("exhaustive_nodes", n_nodes);
	n_hist = 0;
	/* C: long random histories, capacities up to 200 */
	{
		long i;
		for (i = g_worker; i < nrandom; i += g_nworkers) run_random(seed, i, oplen, 0);
		/* D: a few histories on stores above 64 KiB */
		for (i = g_worker; i < nlarge; i += g_nworkers) run_random(seed, i, large_oplen, 1);
	}
	vf_stat("cases", n_ops);
	vf_stat("ops_save", n_save);
	vf_stat("ops_by_second_server_context", n_second_ctx);
	vf_stat("ops_load", n_load);
	vf_stat("ops_forget", n_forget);
	vf_stat("load_hits", n_hit);
	vf_stat("load_misses", n_miss);
	vf_stat("cmp_exact", n_cmp_exact);
	vf_stat("cmp_refine", n_cmp_refine);
	vf_stat("cmp_safety", n_cmp_safety);
	vf_stat("cmp_struct", n_struct);
	vf_stat("loads_unjudged_resave_domain", n_unjudged);
	vf_stat("ops_exact_domain", n_ops_a);
	vf_stat("ops_forget_domain", n_ops_b);
	vf_stat("ops_resave_domain", n_ops_c);
	vf_stat("model_evictions", n_evict_model);
	vf_stat("model_recency_refreshes", n_refresh_model);
	vf_stat("refinements_discarded", n_refine_drop);
	vf_stat("histories_abandoned", n_abandoned);
	vf_done();
	return 0;
}
