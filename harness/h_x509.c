/*
 * C04 runner (engine E4): feeds generated certificate chains to the real
 * br_x509_minimal validator and compares with the expectations computed by
 * the reference validator (harness/x509ref.py) from the abstract description.
 *
 * Input: a case file, one case per line, "key=value" tokens separated by
 * spaces (written by harness/x509case.py):
 *
 *   id= cls= nd=            case id, mutation class label, number of defects
 *   exp=A|R|S code=N        reference verdict (S = documentation silent, not judged), documented
 *                           error code for single-defect cases (-1 = not judged)
 *   depth=N                 index of the certificate at which the reference finds the CA anchor (-1: none)
 *   time=days:secs tmode=0|1   validation time; 1 = through the time callback
 *   sn=<hex>|-|e            server name (- = NULL, e = empty string)
 *   hashes=<mask> rsa=0|1 ec=0|1 minrsa=N|-1 dnh=<hash id> impl=N
 *   key=R:<n>:<e>|E:<curve>:<q>|-  usages=N    expected leaf key and usages (on acceptance)
 *   ne=<k>/<ident hex>/<buflen>/<status|x|m>/<hex>,...   name elements requested + expected (x: not judged;
 *                           m: the header leaves open whether the string is converted: -1, or 1 with this value)
 *   sub=<label>             (optional) sub-class of the mutation, for the case description only
 *   tcb=nbd:nbs:nad:nas,...    expected time-callback arguments per certificate
 *   anchors=<flags>/<dn hex>/R/<n>/<e>;<flags>/<dn hex>/E/<curve>/<q>;...|-
 *   distinct=0|1            anchor names pairwise distinct (then dynamic-anchor modes are run too)
 *   certs=<hex>[/tbs_off/tbs_len/sig_off/sig_len],...
 *   sweep=0|1 chunk=<seed>
 *
 * Per case: static anchors with whole-certificate, seeded-random and 1-byte
 * chunking; anchors served only by the dynamic callback; mixed static/dynamic.
 * All runs must agree; run 0 is compared with the expectation.  Sweep cases:
 * every byte of every TBS / signature value up to the anchor depth XORed with
 * 3 values must give rejection.
 */
#define _GNU_SOURCE
#include "common.h"
#include "bearssl.h"

#define MAXCERTS   8
#define MAXANCH    12
#define MAXNE      10

typedef struct {
	unsigned char *der; size_t len;
	long tbs_off, tbs_len, sig_off, sig_len;
} cert_t;

typedef struct {
	unsigned flags;
	unsigned char *dn; size_t dn_len;
	int kt;             /* BR_KEYTYPE_RSA / BR_KEYTYPE_EC */
	int curve;
	unsigned char *a; size_t alen;   /* n or q */
	unsigned char *b; size_t blen;   /* e */
	unsigned char dnhash[64];
} anchor_t;

typedef struct {
	int kind;           /* 'd', 's', 'o' */
	unsigned char *oid; size_t oid_len;   /* as handed to the library */
	size_t buflen;
	int judged; int exp_status;
	unsigned char *exp; size_t exp_len;
} nereq_t;

typedef struct {
	char id[96], cls[64], sub[48];
	int nd, exp, code, depth;
	uint32_t days, secs; int tmode;
	char *sn;           /* exact-size, or NULL */
	unsigned hashes; int rsa, ec, minrsa, dnh, impl;
	int key_kt, key_curve;
	unsigned char *key_a, *key_b; size_t key_alen, key_blen;
	unsigned usages;
	nereq_t ne[MAXNE]; int nne;
	uint32_t tcb[MAXCERTS][4]; int ntcb;
	anchor_t anch[MAXANCH]; int nanch;
	int distinct;
	cert_t certs[MAXCERTS]; int ncerts;
	int sweep; uint64_t chunk;
} case_t;

typedef struct {
	unsigned err;
	int has_key, kt, curve;
	uint64_t keyhash; size_t keylen_a, keylen_b;
	unsigned usages;
	int ne_status[MAXNE];
	char ne_val[MAXNE][320];
	int pkey_null_usages_differs;
	int ntcb; uint32_t tcb[MAXCERTS][4];
	int dyn_lookups, dyn_returned, dyn_freed, dyn_badlen, dyn_unknown_free;
	int time_history, stale_time_calls;
} result_t;

enum { AM_STATIC = 0, AM_DYNAMIC = 1, AM_MIXED = 2 };
enum { CH_WHOLE = 0, CH_RANDOM = 1, CH_BYTE = 2 };

static const br_hash_class *hash_by_id(int id)
{
	switch (id) {
	case 1: return &br_md5_vtable;
	case 2: return &br_sha1_vtable;
	case 3: return &br_sha224_vtable;
	case 4: return &br_sha256_vtable;
	case 5: return &br_sha384_vtable;
	case 6: return &br_sha512_vtable;
	}
	return &br_sha256_vtable;
}

static size_t hash_len(const br_hash_class *h)
{
	return (h->desc >> BR_HASHDESC_OUT_OFF) & BR_HASHDESC_OUT_MASK;
}

/* ------------------------------------------------------------------ */
/* parsing */

static char *tok_find(char **toks, int ntok, const char *key)
{
	size_t kl = strlen(key);
	int i;
	for (i = 0; i < ntok; i ++) {
		if (strncmp(toks[i], key, kl) == 0 && toks[i][kl] == '=') return toks[i] + kl + 1;
	}
	return NULL;
}

static unsigned char *unhex_dup(const char *s, size_t slen, size_t *outlen)
{
	size_t n = slen / 2, i;
	unsigned char *tmp = malloc(n ? n : 1), *r;
	for (i = 0; i < n; i ++) {
		unsigned hi = (unsigned char)s[2 * i], lo = (unsigned char)s[2 * i + 1];
		hi = hi <= '9' ? hi - '0' : (hi | 32) - 'a' + 10;
		lo = lo <= '9' ? lo - '0' : (lo | 32) - 'a' + 10;
		tmp[i] = (unsigned char)((hi << 4) | lo);
	}
	r = vf_dup(tmp, n);
	free(tmp);
	*outlen = n;
	return r;
}

/* split s in place at character c; returns the number of parts */
static int split(char *s, char c, char **parts, int max)
{
	int n = 0;
	if (*s == 0) return 0;
	parts[n ++] = s;
	while (*s) {
		if (*s == c) {
			*s = 0;
			if (n < max) parts[n ++] = s + 1;
		}
		s ++;
	}
	return n;
}

static void bad_case(const char *why, const char *line)
{
	fprintf(stderr, "HARNESS_ASSERT case-file-%s\n%.200s\n", why, line);
	exit(3);
}

static void free_case(case_t *c)
{
	int i;
	free(c->sn); free(c->key_a); free(c->key_b);
	for (i = 0; i < c->nne; i ++) { free(c->ne[i].oid); free(c->ne[i].exp); }
	for (i = 0; i < c->nanch; i ++) { free(c->anch[i].dn); free(c->anch[i].a); free(c->anch[i].b); }
	for (i = 0; i < c->ncerts; i ++) free(c->certs[i].der);
}

static void parse_key(char **p, int np, int *kt, int *curve, unsigned char **a, size_t *alen,
	unsigned char **b, size_t *blen, const char *line)
{
	if (np < 3) bad_case("key", line);
	if (p[0][0] == 'R') {
		*kt = BR_KEYTYPE_RSA; *curve = 0;
		*a = unhex_dup(p[1], strlen(p[1]), alen);
		*b = unhex_dup(p[2], strlen(p[2]), blen);
	} else {
		*kt = BR_KEYTYPE_EC; *curve = atoi(p[1]);
		*a = unhex_dup(p[2], strlen(p[2]), alen);
		*b = NULL; *blen = 0;
	}
}

static void parse_case(char *line, case_t *c)
{
	static char *toks[64];
	char *parts[64], *sub[8], *v;
	char *keep = strdup(line);
	int ntok, i, n;

	memset(c, 0, sizeof *c);
	ntok = split(line, ' ', toks, 64);
#define NEED(k) do { v = tok_find(toks, ntok, k); if (!v) bad_case(k, keep); } while (0)
	NEED("id"); snprintf(c->id, sizeof c->id, "%s", v);
	NEED("cls"); snprintf(c->cls, sizeof c->cls, "%s", v);
	v = tok_find(toks, ntok, "sub"); snprintf(c->sub, sizeof c->sub, "%s", v ? v : "-");
	NEED("nd"); c->nd = atoi(v);
	NEED("exp"); c->exp = v[0];
	NEED("code"); c->code = atoi(v);
	NEED("depth"); c->depth = atoi(v);
	NEED("time"); { unsigned long d, s; if (sscanf(v, "%lu:%lu", &d, &s) != 2) bad_case("time", keep); c->days = (uint32_t)d; c->secs = (uint32_t)s; }
	NEED("tmode"); c->tmode = atoi(v);
	NEED("sn");
	if (!strcmp(v, "-")) c->sn = NULL;
	else if (!strcmp(v, "e")) c->sn = vf_dup("", 1);
	else {
		size_t l; unsigned char *b = unhex_dup(v, strlen(v), &l);
		c->sn = malloc(l + 1); memcpy(c->sn, b, l); c->sn[l] = 0; free(b);
	}
	NEED("hashes"); c->hashes = (unsigned)strtoul(v, NULL, 0);
	NEED("rsa"); c->rsa = atoi(v);
	NEED("ec"); c->ec = atoi(v);
	NEED("minrsa"); c->minrsa = atoi(v);
	NEED("dnh"); c->dnh = atoi(v);
	NEED("impl"); c->impl = atoi(v);
	NEED("usages"); c->usages = (unsigned)atoi(v);
	NEED("distinct"); c->distinct = atoi(v);
	NEED("sweep"); c->sweep = atoi(v);
	NEED("chunk"); c->chunk = strtoull(v, NULL, 0);
	NEED("key");
	if (strcmp(v, "-")) {
		n = split(v, ':', sub, 8);
		parse_key(sub, n, &c->key_kt, &c->key_curve, &c->key_a, &c->key_alen, &c->key_b, &c->key_blen, keep);
	}
	NEED("ne");
	if (strcmp(v, "-")) {
		n = split(v, ',', parts, MAXNE);
		for (i = 0; i < n; i ++) {
			nereq_t *q = &c->ne[c->nne ++];
			size_t il; unsigned char *ident;
			if (split(parts[i], '/', sub, 8) < 5) bad_case("ne", keep);
			q->kind = sub[0][0];
			ident = unhex_dup(sub[1], strlen(sub[1]), &il);
			if (q->kind == 'd') {            /* len || oid value */
				unsigned char t[64]; t[0] = (unsigned char)il; memcpy(t + 1, ident, il);
				q->oid = vf_dup(t, il + 1); q->oid_len = il + 1;
			} else if (q->kind == 's') {     /* 0, tag */
				unsigned char t[2]; t[0] = 0; t[1] = ident[0];
				q->oid = vf_dup(t, 2); q->oid_len = 2;
			} else {                         /* 0, 0, len || oid value */
				unsigned char t[64]; t[0] = 0; t[1] = 0; t[2] = (unsigned char)il; memcpy(t + 3, ident, il);
				q->oid = vf_dup(t, il + 3); q->oid_len = il + 3;
			}
			free(ident);
			q->buflen = (size_t)atoi(sub[2]);
			q->judged = sub[3][0] == 'x' ? 0 : sub[3][0] == 'm' ? 2 : 1;
			q->exp_status = q->judged == 1 ? atoi(sub[3]) : q->judged == 2 ? 1 : 0;
			q->exp = unhex_dup(sub[4][0] == '-' ? "" : sub[4], sub[4][0] == '-' ? 0 : strlen(sub[4]), &q->exp_len);
		}
	}
	NEED("tcb");
	if (strcmp(v, "-")) {
		n = split(v, ',', parts, MAXCERTS);
		for (i = 0; i < n; i ++) {
			unsigned long a, b, d, e;
			if (sscanf(parts[i], "%lu:%lu:%lu:%lu", &a, &b, &d, &e) != 4) bad_case("tcb", keep);
			c->tcb[i][0] = (uint32_t)a; c->tcb[i][1] = (uint32_t)b; c->tcb[i][2] = (uint32_t)d; c->tcb[i][3] = (uint32_t)e;
		}
		c->ntcb = n;
	}
	NEED("anchors");
	if (strcmp(v, "-")) {
		n = split(v, ';', parts, MAXANCH);
		for (i = 0; i < n; i ++) {
			anchor_t *a = &c->anch[c->nanch ++];
			int m = split(parts[i], '/', sub, 8);
			if (m < 5) bad_case("anchor", keep);
			a->flags = (unsigned)atoi(sub[0]);
			a->dn = unhex_dup(sub[1], strlen(sub[1]), &a->dn_len);
			parse_key(sub + 2, m - 2, &a->kt, &a->curve, &a->a, &a->alen, &a->b, &a->blen, keep);
		}
	}
	NEED("certs");
	if (strcmp(v, "-")) {
		n = split(v, ',', parts, MAXCERTS);
		for (i = 0; i < n; i ++) {
			cert_t *x = &c->certs[c->ncerts ++];
			int m = split(parts[i], '/', sub, 8);
			x->der = unhex_dup(sub[0][0] == '-' ? "" : sub[0], sub[0][0] == '-' ? 0 : strlen(sub[0]), &x->len);
			x->tbs_off = x->tbs_len = x->sig_off = x->sig_len = 0;
			if (m >= 5) {
				x->tbs_off = atol(sub[1]); x->tbs_len = atol(sub[2]);
				x->sig_off = atol(sub[3]); x->sig_len = atol(sub[4]);
			}
		}
	}
	free(keep);
}

/* ------------------------------------------------------------------ */
/* dynamic anchors */

#define MAXLIVE 16
typedef struct {
	case_t *c;
	int amode;
	size_t hlen;
	result_t *r;
	const br_x509_trust_anchor *live[MAXLIVE];
	int nlive;
} dyn_t;

/* API-level variants of a run (0: none): 1 RSA anchor keys written with leading zero bytes; 2 time callback
 * reports the time as unavailable at certificate g_variant_arg; 4 the last byte of certificate g_variant_arg is
 * missing (announced and appended length both one less); 5 an empty certificate first; 6 / 7 the context has been
 * used for another validation before (g_poison: the name-element buffers are overwritten between the two);
 * 8 the key_type field of every trust anchor carries the usage flags g_variant_arg (BR_KEYTYPE_KEYX / _SIGN) in
 * its upper nibble; 9 dynamic anchors without a free callback; 10 context set up by br_x509_minimal_init_full() */
static int g_variant, g_variant_arg, g_poison;

static unsigned char *pad_dup(const unsigned char *src, size_t len, size_t pad)
{
	unsigned char *p = malloc(len + pad ? len + pad : 1);
	memset(p, 0, pad);
	if (len) memcpy(p + pad, src, len);
	return p;
}

static void fill_ta(br_x509_trust_anchor *ta, const anchor_t *a, const unsigned char *dn, size_t dn_len)
{
	memset(ta, 0, sizeof *ta);
	ta->dn.data = vf_dup(dn, dn_len);
	ta->dn.len = dn_len;
	ta->flags = a->flags;
	ta->pkey.key_type = (unsigned char)(a->kt | (g_variant == 8 ? g_variant_arg : 0));
	if (a->kt == BR_KEYTYPE_RSA) {
		if (g_variant == 1) {
			ta->pkey.key.rsa.n = pad_dup(a->a, a->alen, 2); ta->pkey.key.rsa.nlen = a->alen + 2;
			ta->pkey.key.rsa.e = pad_dup(a->b, a->blen, 1); ta->pkey.key.rsa.elen = a->blen + 1;
		} else {
			ta->pkey.key.rsa.n = vf_dup(a->a, a->alen); ta->pkey.key.rsa.nlen = a->alen;
			ta->pkey.key.rsa.e = vf_dup(a->b, a->blen); ta->pkey.key.rsa.elen = a->blen;
		}
	} else {
		ta->pkey.key.ec.curve = a->curve;
		ta->pkey.key.ec.q = vf_dup(a->a, a->alen); ta->pkey.key.ec.qlen = a->alen;
	}
}

static void clear_ta(br_x509_trust_anchor *ta)
{
	free(ta->dn.data);
	if ((ta->pkey.key_type & 0x0F) == BR_KEYTYPE_RSA) { free(ta->pkey.key.rsa.n); free(ta->pkey.key.rsa.e); }
	else free(ta->pkey.key.ec.q);
}

/* in mixed mode anchor i is static when bit i of the chunk seed is set */
static int is_static(const case_t *c, int amode, int i)
{
	if (amode == AM_STATIC) return 1;
	if (amode == AM_DYNAMIC) return 0;
	return (int)((c->chunk >> (i & 31)) & 1);
}

static const br_x509_trust_anchor *dyn_lookup(void *vctx, void *hashed_dn, size_t len)
{
	dyn_t *d = vctx;
	int i;
	d->r->dyn_lookups ++;
	if (len != d->hlen) { d->r->dyn_badlen ++; return NULL; }
	for (i = 0; i < d->c->nanch; i ++) {
		if (is_static(d->c, d->amode, i)) continue;
		if (memcmp(d->c->anch[i].dnhash, hashed_dn, len) == 0) {
			br_x509_trust_anchor *ta = malloc(sizeof *ta);
			/* the port expects dn.data to hold the hashed DN */
			fill_ta(ta, &d->c->anch[i], d->c->anch[i].dnhash, d->hlen);
			if (d->nlive < MAXLIVE) d->live[d->nlive ++] = ta;
			d->r->dyn_returned ++;
			return ta;
		}
	}
	return NULL;
}

static void dyn_free(void *vctx, const br_x509_trust_anchor *ta)
{
	dyn_t *d = vctx;
	int i;
	for (i = 0; i < d->nlive; i ++) {
		if (d->live[i] == ta) {
			d->live[i] = d->live[-- d->nlive];
			d->r->dyn_freed ++;
			clear_ta((br_x509_trust_anchor *)ta);
			free((void *)ta);
			return;
		}
	}
	d->r->dyn_unknown_free ++;   /* not returned by us, or freed twice */
}

/* ------------------------------------------------------------------ */
/* time callback */

typedef struct { case_t *c; result_t *r; } tctx_t;

static int time_cb(void *vctx, uint32_t nbd, uint32_t nbs, uint32_t nad, uint32_t nas)
{
	tctx_t *t = vctx;
	if (t->r->ntcb < MAXCERTS) {
		uint32_t *w = t->r->tcb[t->r->ntcb];
		w[0] = nbd; w[1] = nbs; w[2] = nad; w[3] = nas;
	}
	t->r->ntcb ++;
	if (g_variant == 2 && t->r->ntcb - 1 == g_variant_arg) return 2 + (int)(nbd & 1) * 40;   /* neither -1, 0 nor +1 */
	if (t->c->days < nbd || (t->c->days == nbd && t->c->secs < nbs)) return -1;
	if (t->c->days > nad || (t->c->days == nad && t->c->secs > nas)) return 1;
	return 0;
}

/* a callback from an earlier configuration of the same context: whatever it says must not matter once
   br_x509_minimal_set_time() or another callback has been installed; calls are counted */
static int g_stale_time_calls;
static int time_cb_stale(void *vctx, uint32_t nbd, uint32_t nbs, uint32_t nad, uint32_t nas)
{
	(void)nbs; (void)nad; (void)nas;
	g_stale_time_calls ++;
	return vctx ? 0 : (nbd & 1) ? 1 : -1;
}

/* ------------------------------------------------------------------ */
/* one validation */

static long long n_validations = 0;

static void run_chain(case_t *c, int amode, int chmode, uint64_t chseed, result_t *r)
{
	br_x509_minimal_context *xc = malloc(sizeof *xc);
	const br_hash_class *dnh = hash_by_id(c->dnh);
	br_x509_trust_anchor *tas;
	br_name_element *nes;
	dyn_t dyn;
	tctx_t tctx;
	vf_rng rng;
	int i, nst = 0, id;
	const br_x509_pkey *pk;
	unsigned usages = 0xFFFF;

	memset(r, 0, sizeof *r);
	n_validations ++;
	vf_rng_init(&rng, chseed, 77);

	tas = malloc((c->nanch ? c->nanch : 1) * sizeof *tas);
	for (i = 0; i < c->nanch; i ++) {
		if (is_static(c, amode, i)) fill_ta(&tas[nst ++], &c->anch[i], c->anch[i].dn, c->anch[i].dn_len);
	}
	if (nst < c->nanch || c->nanch == 0) {
		/* exact-size array */
		br_x509_trust_anchor *t2 = vf_dup(tas, nst * sizeof *tas);
		free(tas); tas = t2;
	}
	if (g_variant == 10) {
		/* everything but the anchors, the time and the name elements is left to the library's defaults */
		br_x509_minimal_init_full(xc, nst ? tas : NULL, (size_t)nst);
		dnh = &br_sha256_vtable;
	} else {
	br_x509_minimal_init(xc, dnh, nst ? tas : NULL, (size_t)nst);
	for (id = 1; id <= 6; id ++) {
		if (c->hashes & (1u << id)) br_x509_minimal_set_hash(xc, id, hash_by_id(id));
	}
	}
	if (c->rsa && g_variant != 10) {
		br_rsa_pkcs1_vrfy f;
		switch (c->impl & 3) {
		case 1: f = &br_rsa_i15_pkcs1_vrfy; break;
		case 2: f = &br_rsa_i31_pkcs1_vrfy; break;
		case 3: f = &br_rsa_i32_pkcs1_vrfy; break;
		default: f = br_rsa_pkcs1_vrfy_get_default(); break;
		}
		br_x509_minimal_set_rsa(xc, f);
	}
	if (c->ec && g_variant != 10) {
		switch ((c->impl >> 2) & 3) {
		case 1: br_x509_minimal_set_ecdsa(xc, &br_ec_prime_i15, &br_ecdsa_i15_vrfy_asn1); break;
		case 2: br_x509_minimal_set_ecdsa(xc, &br_ec_prime_i31, &br_ecdsa_i31_vrfy_asn1); break;
		default: br_x509_minimal_set_ecdsa(xc, br_ec_get_default(), br_ecdsa_vrfy_asn1_get_default()); break;
		}
	}
	tctx.c = c; tctx.r = r;
	/* the time source is what was set last: in a third of the cases the context first gets another time
	   (a day far from every validity period) or another callback (one that accepts / refuses everything) */
	g_stale_time_calls = 0;
	switch ((c->days + c->secs + (uint32_t)c->ncerts) % 6) {
	case 1: br_x509_minimal_set_time_callback(xc, (c->secs & 1) ? (void *)xc : NULL, &time_cb_stale); r->time_history = 1; break;
	case 4: br_x509_minimal_set_time(xc, (c->secs & 1) ? 100 : 1500000, 7); r->time_history = 2; break;
	}
	if (c->tmode || g_variant == 2) br_x509_minimal_set_time_callback(xc, &tctx, &time_cb);
	else br_x509_minimal_set_time(xc, c->days, c->secs);
	if (c->minrsa >= 0 && g_variant != 10) br_x509_minimal_set_minrsa(xc, c->minrsa);
	memset(&dyn, 0, sizeof dyn);
	dyn.c = c; dyn.amode = amode; dyn.hlen = hash_len(dnh); dyn.r = r;
	if (amode != AM_STATIC) br_x509_minimal_set_dynamic(xc, &dyn, &dyn_lookup, g_variant == 9 ? NULL : &dyn_free);

	nes = malloc((c->nne ? c->nne : 1) * sizeof *nes);
	for (i = 0; i < c->nne; i ++) {
		nes[i].oid = c->ne[i].oid;
		nes[i].buf = malloc(c->ne[i].buflen);
		memset(nes[i].buf, 0x55, c->ne[i].buflen);
		nes[i].len = c->ne[i].buflen;
		nes[i].status = 99;
	}
	if (c->nne) br_x509_minimal_set_name_elements(xc, nes, (size_t)c->nne);

	if (g_variant == 6 || g_variant == 7) {
		/* the context is used for another validation first (the same chain, or the chain with its
		   first certificate dropped / alone), as a TLS client does when it reconnects: what the second
		   validation returns must not depend on that history */
		int first = g_variant == 7 && c->ncerts > 1 ? 1 : 0;
		int last = g_variant == 7 && c->ncerts == 1 ? 0 : c->ncerts;
		xc->vtable->start_chain(&xc->vtable, c->sn);
		for (i = first; i < last; i ++) {
			xc->vtable->start_cert(&xc->vtable, (uint32_t)c->certs[i].len);
			xc->vtable->append(&xc->vtable, c->certs[i].der, c->certs[i].len);
			xc->vtable->end_cert(&xc->vtable);
		}
		(void)xc->vtable->end_chain(&xc->vtable);
		if (g_poison) {
			/* what the first validation left in the caller's buffers is not an input of the second one */
			for (i = 0; i < c->nne; i ++) memset(nes[i].buf, 0x55, c->ne[i].buflen);
		}
		r->ntcb = 0; memset(r->tcb, 0, sizeof r->tcb);   /* what the time callback recorded during the warm-up is not part of the result */
	}
	xc->vtable->start_chain(&xc->vtable, c->sn);
	if (g_variant == 5) { xc->vtable->start_cert(&xc->vtable, 0); xc->vtable->end_cert(&xc->vtable); }
	for (i = 0; i < c->ncerts; i ++) {
		cert_t *x = &c->certs[i], xv;
		size_t off = 0;
		uint32_t maxc = 1;
		if (g_variant == 4 && i == g_variant_arg && x->len > 1) { xv = *x; xv.len --; x = &xv; xc->vtable->start_cert(&xc->vtable, (uint32_t)x->len); }
		else
		xc->vtable->start_cert(&xc->vtable, (uint32_t)x->len);
		if (chmode == CH_RANDOM) {
			static const uint32_t mx[] = { 1, 2, 3, 7, 16, 64, 100, 255, 256, 257, 1000, 4096 };
			maxc = mx[vf_below(&rng, 12)];
		}
		while (off < x->len) {
			size_t k = x->len - off;
			unsigned char *chunk;
			if (chmode == CH_BYTE) k = 1;
			else if (chmode == CH_RANDOM) { size_t w = vf_range(&rng, 1, maxc); if (w < k) k = w; }
			if (chmode == CH_WHOLE) {
				xc->vtable->append(&xc->vtable, x->der, k);
			} else {
				chunk = vf_dup(x->der + off, k);
				xc->vtable->append(&xc->vtable, chunk, k);
				free(chunk);
			}
			off += k;
		}
		xc->vtable->end_cert(&xc->vtable);
	}
	r->err = xc->vtable->end_chain(&xc->vtable);
	{
		/* "if usage is not NULL then *usage is filled": the key itself does not depend on that argument */
		const br_x509_pkey *pk0 = xc->vtable->get_pkey(&xc->vtable, NULL);
		pk = xc->vtable->get_pkey(&xc->vtable, &usages);
		if ((pk0 == NULL) != (pk == NULL)) r->pkey_null_usages_differs = 1;
		else if (pk != NULL) {
			if (pk0->key_type != pk->key_type) r->pkey_null_usages_differs = 1;
			else if (pk->key_type == BR_KEYTYPE_RSA && (pk0->key.rsa.nlen != pk->key.rsa.nlen || pk0->key.rsa.elen != pk->key.rsa.elen
				|| memcmp(pk0->key.rsa.n, pk->key.rsa.n, pk->key.rsa.nlen) || memcmp(pk0->key.rsa.e, pk->key.rsa.e, pk->key.rsa.elen)))
				r->pkey_null_usages_differs = 1;
			else if (pk->key_type == BR_KEYTYPE_EC && (pk0->key.ec.curve != pk->key.ec.curve || pk0->key.ec.qlen != pk->key.ec.qlen
				|| memcmp(pk0->key.ec.q, pk->key.ec.q, pk->key.ec.qlen)))
				r->pkey_null_usages_differs = 1;
		}
	}
	if (pk != NULL) {
		uint64_t h;
		r->has_key = 1;
		r->kt = pk->key_type;
		if (pk->key_type == BR_KEYTYPE_RSA) {
			h = vf_fnv(pk->key.rsa.n, pk->key.rsa.nlen, 0);
			h = vf_fnv(pk->key.rsa.e, pk->key.rsa.elen, h);
			r->keylen_a = pk->key.rsa.nlen; r->keylen_b = pk->key.rsa.elen;
		} else if (pk->key_type == BR_KEYTYPE_EC) {
			r->curve = pk->key.ec.curve;
			h = vf_fnv(pk->key.ec.q, pk->key.ec.qlen, 0);
			r->keylen_a = pk->key.ec.qlen;
		} else h = 0;
		r->keyhash = h;
		r->usages = usages;
		if (r->err == 0 && c->key_a != NULL) {
			/* exact comparison with the expected key is done here, where the pointers are valid */
			int same = 0;
			if (pk->key_type == c->key_kt) {
				if (c->key_kt == BR_KEYTYPE_RSA) {
					same = pk->key.rsa.nlen == c->key_alen && pk->key.rsa.elen == c->key_blen
						&& memcmp(pk->key.rsa.n, c->key_a, c->key_alen) == 0
						&& memcmp(pk->key.rsa.e, c->key_b, c->key_blen) == 0;
				} else {
					same = pk->key.ec.curve == c->key_curve && pk->key.ec.qlen == c->key_alen
						&& memcmp(pk->key.ec.q, c->key_a, c->key_alen) == 0;
				}
			}
			r->has_key = same ? 2 : 1;
		}
	}
	for (i = 0; i < c->nne; i ++) {
		r->ne_status[i] = nes[i].status;
		if (nes[i].status == 1) {
			size_t l = strnlen(nes[i].buf, nes[i].len);
			if (l >= sizeof r->ne_val[i]) l = sizeof r->ne_val[i] - 1;
			memcpy(r->ne_val[i], nes[i].buf, l);
		}
		free(nes[i].buf);
	}
	free(nes);
	r->stale_time_calls = g_stale_time_calls;
	/* anchors still alive: never freed by the library */
	while (dyn.nlive > 0) {
		const br_x509_trust_anchor *ta = dyn.live[-- dyn.nlive];
		clear_ta((br_x509_trust_anchor *)ta); free((void *)ta);
	}
	for (i = 0; i < nst; i ++) clear_ta(&tas[i]);
	free(tas);
	free(xc);
}

static int same_result(const result_t *a, const result_t *b)
{
	int i;
	if (a->err != b->err || a->has_key != b->has_key || a->kt != b->kt || a->curve != b->curve
		|| a->keyhash != b->keyhash || a->keylen_a != b->keylen_a || a->keylen_b != b->keylen_b) return 0;
	if (a->has_key && a->usages != b->usages) return 0;
	if (a->ntcb != b->ntcb || memcmp(a->tcb, b->tcb, sizeof a->tcb)) return 0;
	for (i = 0; i < MAXNE; i ++) {
		if (a->ne_status[i] != b->ne_status[i] || strcmp(a->ne_val[i], b->ne_val[i])) return 0;
	}
	return 1;
}

static char casebuf[512];

static const char *case_desc(const case_t *c, const char *extra)
{
	snprintf(casebuf, sizeof casebuf, "id=%s cls=%s sub=%s nd=%d exp=%c code=%d %s", c->id, c->cls, c->sub, c->nd, c->exp, c->code, extra);
	return casebuf;
}

static void key_of(char *dst, size_t n, const char *mon, const case_t *c)
{
	snprintf(dst, n, "C04:%s:%s", mon, c->cls);
}

/* ------------------------------------------------------------------ */
/* the "known key" engine: ignores the certificates, returns the configured key and usages */

static void knownkey_check(case_t *c)
{
	int i, j;
	char key[160], extra[200];
	for (i = -1; i < c->nanch && i < 2; i ++) {
		int kt = i < 0 ? c->key_kt : c->anch[i].kt;
		const unsigned char *ka = i < 0 ? c->key_a : c->anch[i].a, *kb = i < 0 ? c->key_b : c->anch[i].b;
		size_t alen = i < 0 ? c->key_alen : c->anch[i].alen, blen = i < 0 ? c->key_blen : c->anch[i].blen;
		int curve = i < 0 ? c->key_curve : c->anch[i].curve;
		unsigned want = (unsigned)((c->chunk >> (12 + 2 * (i + 1))) & 3) << 4, got = 0xFFFF, err;
		br_x509_knownkey_context *kc;
		const br_x509_pkey *pk, *pk0;
		unsigned char *a, *b;
		const char *bad = NULL;
		if (ka == NULL) continue;
		kc = malloc(sizeof *kc);
		memset(kc, 0xA5, sizeof *kc);
		a = vf_dup(ka, alen); b = kb ? vf_dup(kb, blen) : NULL;
		if (kt == BR_KEYTYPE_RSA) {
			br_rsa_public_key *rk = malloc(sizeof *rk);
			rk->n = a; rk->nlen = alen; rk->e = b; rk->elen = blen;
			br_x509_knownkey_init_rsa(kc, rk, want);
			memset(rk, 0x5A, sizeof *rk); free(rk);    /* the structure is copied, the buffers are linked */
		} else {
			br_ec_public_key *ek = malloc(sizeof *ek);
			ek->curve = curve; ek->q = a; ek->qlen = alen;
			br_x509_knownkey_init_ec(kc, ek, want);
			memset(ek, 0x5A, sizeof *ek); free(ek);
		}
		kc->vtable->start_chain(&kc->vtable, c->sn);
		for (j = 0; j < c->ncerts; j ++) {
			kc->vtable->start_cert(&kc->vtable, (uint32_t)c->certs[j].len);
			if (c->certs[j].len) kc->vtable->append(&kc->vtable, c->certs[j].der, c->certs[j].len);
			kc->vtable->end_cert(&kc->vtable);
		}
		err = kc->vtable->end_chain(&kc->vtable);
		pk0 = kc->vtable->get_pkey(&kc->vtable, NULL);
		pk = kc->vtable->get_pkey(&kc->vtable, &got);
		vf_stat("cmp_knownkey", 1);
		vf_stat(kt == BR_KEYTYPE_RSA ? "knownkey_rsa" : "knownkey_ec", 1);
		vf_distinct("knownkey_usages", "%u", want);
		if (err != 0) bad = "end_chain-nonzero";
		else if (pk == NULL || pk0 == NULL) bad = "no-key";
		else if (got != want) bad = "usages";
		else if (pk->key_type != kt) bad = "key-type";
		else if (kt == BR_KEYTYPE_RSA && (pk->key.rsa.n != a || pk->key.rsa.nlen != alen || pk->key.rsa.e != b || pk->key.rsa.elen != blen)) bad = "rsa-key";
		else if (kt == BR_KEYTYPE_EC && (pk->key.ec.curve != curve || pk->key.ec.q != a || pk->key.ec.qlen != alen)) bad = "ec-key";
		else if (pk0->key_type != pk->key_type || memcmp(&pk0->key, &pk->key, kt == BR_KEYTYPE_RSA ? sizeof pk->key.rsa : sizeof pk->key.ec)) bad = "null-usages";
		if (bad) {
			snprintf(key, sizeof key, "C04:knownkey:%s", bad);
			snprintf(extra, sizeof extra, "known-key engine with %s key of %zu bytes, usages 0x%x: end_chain=%u usages=0x%x", kt == BR_KEYTYPE_RSA ? "RSA" : "EC", alen, want, err, got);
			vf_viol(key, "br_x509_knownkey engine does not return 0 / the configured key and usages", "%s", case_desc(c, extra));
		}
		free(a); free(b); free(kc);
	}
}

static int config_is_default(const case_t *c)
{
	/* what br_x509_minimal_init_full() sets: all standard hash functions, RSA, ECDSA; minimum RSA size untouched */
	return (c->hashes & 0x7C) == 0x7C && c->rsa && c->ec && (c->minrsa < 0 || c->minrsa == 128);
}

int main(int argc, char **argv)
{
	const char *path = vf_arg(argc, argv, "--cases", NULL);
	int part = (int)vf_argi(argc, argv, "--sweep-part", 0);
	int parts = (int)vf_argi(argc, argv, "--sweep-parts", 1);
	uint64_t seed = (uint64_t)vf_argi(argc, argv, "--seed", 1);
	FILE *f;
	char *line = NULL;
	size_t cap = 0;
	ssize_t n;
	static case_t c;
	static result_t r0, r1, r2, rd, rm;
	char key[160], extra[256];

	if (!path || !(f = fopen(path, "r"))) { fprintf(stderr, "cannot open case file %s\n", path ? path : "(none)"); return 2; }
	while ((n = getline(&line, &cap, f)) > 0) {
		int i;
		const br_hash_class *dnh;
		while (n > 0 && (line[n - 1] == '\n' || line[n - 1] == '\r')) line[-- n] = 0;
		if (n == 0 || line[0] == '#') continue;
		parse_case(line, &c);
		vf_cur_case = case_desc(&c, "");
		dnh = hash_by_id(c.dnh);
		for (i = 0; i < c.nanch; i ++) {
			br_hash_compat_context hc;
			dnh->init(&hc.vtable);
			dnh->update(&hc.vtable, c.anch[i].dn, c.anch[i].dn_len);
			dnh->out(&hc.vtable, c.anch[i].dnhash);
		}
		vf_stat("cases", 1);
		vf_distinct("class", "%s", c.cls);
		vf_distinct("config", "h%x/r%d/e%d/m%d/d%d/t%d/i%d/a%d/c%d/s%d", c.hashes, c.rsa, c.ec, c.minrsa, c.dnh,
			c.tmode, c.impl, c.nanch, c.ncerts, c.sn ? 1 : 0);

		/* (6) chunking */
		run_chain(&c, AM_STATIC, CH_WHOLE, 0, &r0);
		run_chain(&c, AM_STATIC, CH_RANDOM, c.chunk, &r1);
		if (r0.time_history) {
			vf_stat(r0.time_history == 1 ? "time_set_after_other_callback" : "time_set_after_other_time", 1);
			if (r0.stale_time_calls || r1.stale_time_calls) {
				key_of(key, sizeof key, "replaced-time-callback-used", &c);
				snprintf(extra, sizeof extra, "calls=%d", r0.stale_time_calls);
				vf_viol(key, "a time callback that was replaced by br_x509_minimal_set_time / another callback is still consulted", "%s", case_desc(&c, extra));
			}
		}
		vf_stat("cmp_chunking", 1);
		if (!same_result(&r0, &r1)) {
			key_of(key, sizeof key, "chunking", &c);
			snprintf(extra, sizeof extra, "whole:err=%u random-chunks:err=%u", r0.err, r1.err);
			vf_viol(key, "result depends on how the certificate bytes are chunked", "%s", case_desc(&c, extra));
		}
		if ((c.chunk & 3) == 0) {
			run_chain(&c, AM_STATIC, CH_BYTE, 0, &r2);
			vf_stat("cmp_chunking", 1);
			vf_stat("chunking_bytewise", 1);
			if (!same_result(&r0, &r2)) {
				key_of(key, sizeof key, "chunking", &c);
				snprintf(extra, sizeof extra, "whole:err=%u bytewise:err=%u", r0.err, r2.err);
				vf_viol(key, "result depends on how the certificate bytes are chunked", "%s", case_desc(&c, extra));
			}
		}

		vf_stat("cmp_getpkey_null_usages", 1);
		if (r0.pkey_null_usages_differs || r1.pkey_null_usages_differs) {
			key_of(key, sizeof key, "getpkey-null-usages", &c);
			vf_viol(key, "get_pkey(ctx, NULL) returns another key than get_pkey(ctx, &usages)", "%s", case_desc(&c, ""));
		}
		if ((c.chunk >> 11) & 1) knownkey_check(&c);

		/* context set up by br_x509_minimal_init_full() (every second case): judged when the case configuration is
		   what that function sets */
		if (config_is_default(&c) ? ((c.chunk >> 6) & 1) == 0 : ((c.chunk >> 6) & 3) == 0) {
			result_t rv;
			g_variant = 10;
			run_chain(&c, AM_STATIC, CH_WHOLE, 0, &rv);
			g_variant = 0;
			if (!config_is_default(&c)) {
				vf_stat("unjudged_init_full_other_config", 1);
			} else {
				vf_stat("cmp_init_full", 1);
				if (!same_result(&r0, &rv)) {
					key_of(key, sizeof key, "init-full", &c);
					snprintf(extra, sizeof extra, "hand-configured:err=%u init_full:err=%u", r0.err, rv.err);
					vf_viol(key, "context initialised with br_x509_minimal_init_full() gives another result than the same configuration set by hand", "%s", case_desc(&c, extra));
				}
			}
		}

		/* (5) dynamic anchors */
		if (c.distinct) {
			int m;
			for (m = 0; m < 2; m ++) {
				result_t *rr = m ? &rm : &rd;
				if (m == 1 && c.nanch < 2) break;
				run_chain(&c, m ? AM_MIXED : AM_DYNAMIC, (c.chunk >> 8) & 1 ? CH_RANDOM : CH_WHOLE, c.chunk + 1, rr);
				vf_stat("cmp_dynamic", 1);
				vf_stat("dyn_lookups", rr->dyn_lookups);
				vf_stat("dyn_returned", rr->dyn_returned);
				vf_stat("dyn_freed", rr->dyn_freed);
				if (rr->err == 0 && r0.err == 0 && rr->dyn_returned > 0) vf_stat("dyn_accept_via_callback", 1);
				if (!same_result(&r0, rr)) {
					key_of(key, sizeof key, "dynamic", &c);
					snprintf(extra, sizeof extra, "static:err=%u %s:err=%u lookups=%d returned=%d", r0.err,
						m ? "mixed" : "dynamic", rr->err, rr->dyn_lookups, rr->dyn_returned);
					vf_viol(key, "anchors served by the dynamic callback give another result than the same anchors given statically",
						"%s", case_desc(&c, extra));
				}
				vf_stat("cmp_dynfree", 1);
				if (rr->dyn_freed != rr->dyn_returned || rr->dyn_unknown_free || rr->dyn_badlen) {
					key_of(key, sizeof key, "dynfree", &c);
					snprintf(extra, sizeof extra, "returned=%d freed=%d unknown_or_double_free=%d bad_hash_len=%d",
						rr->dyn_returned, rr->dyn_freed, rr->dyn_unknown_free, rr->dyn_badlen);
					vf_viol(key, "dynamic anchors not freed exactly once each / hashed DN length wrong", "%s", case_desc(&c, extra));
				}
			}
		}

		/* dynamic anchors without a free callback (the harness releases what it handed out after the validation) */
		if (c.distinct && ((c.chunk >> 9) & 3) == 0) {
			result_t rv;
			g_variant = 9;
			run_chain(&c, AM_DYNAMIC, CH_WHOLE, 0, &rv);
			g_variant = 0;
			vf_stat("cmp_dynamic_null_free", 1);
			vf_stat("dyn_null_free_returned", rv.dyn_returned);
			if (!same_result(&r0, &rv) || rv.dyn_freed || rv.dyn_unknown_free) {
				key_of(key, sizeof key, "dynamic-null-free", &c);
				snprintf(extra, sizeof extra, "static:err=%u dynamic-without-free-callback:err=%u returned=%d", r0.err, rv.err, rv.dyn_returned);
				vf_viol(key, "dynamic anchors with a NULL free callback give another result than static anchors", "%s", case_desc(&c, extra));
			}
		}

		/* dates handed to the time callback */
		if (c.tmode) {
			int k = r0.ntcb < c.ntcb ? r0.ntcb : c.ntcb;
			vf_stat("cmp_dates", k);
			if (r0.ntcb > c.ncerts) {
				key_of(key, sizeof key, "dates", &c);
				vf_viol(key, "time callback invoked more often than there are certificates", "%s", case_desc(&c, ""));
			}
			for (i = 0; i < k; i ++) {
				if (memcmp(r0.tcb[i], c.tcb[i], sizeof r0.tcb[i])) {
					key_of(key, sizeof key, "dates", &c);
					snprintf(extra, sizeof extra, "cert=%d got=%u:%u..%u:%u want=%u:%u..%u:%u", i,
						r0.tcb[i][0], r0.tcb[i][1], r0.tcb[i][2], r0.tcb[i][3],
						c.tcb[i][0], c.tcb[i][1], c.tcb[i][2], c.tcb[i][3]);
					vf_viol(key, "validity dates decoded differently from the abstract description", "%s", case_desc(&c, extra));
					break;
				}
			}
		}

		/* a validator context that has been used before gives the same result as a fresh one (every case, accepted or not) */
		if ((c.chunk & 3) == 2) {
			result_t rv;
			for (g_variant = 6; g_variant <= 7; g_variant ++) {
				/* one of the two with the anchors behind the dynamic callback (when their names allow it) and the
				   name-element buffers overwritten between the two validations */
				int hard = (int)((c.chunk >> 2) & 1) == (g_variant & 1);
				g_poison = hard;
				run_chain(&c, hard && c.distinct ? AM_DYNAMIC : AM_STATIC, CH_WHOLE, 0, &rv);
				g_poison = 0;
				vf_stat("cmp_variant_context_reuse", 1);
				if (hard) vf_stat("context_reuse_poisoned_buffers", 1);
				if (hard && c.distinct) {
					vf_stat("context_reuse_dynamic_anchors", 1);
					vf_stat("context_reuse_dyn_returned", rv.dyn_returned);
					if (rv.dyn_freed != rv.dyn_returned || rv.dyn_unknown_free) {
						key_of(key, sizeof key, "dynfree", &c);
						snprintf(extra, sizeof extra, "context reuse: returned=%d freed=%d unknown_or_double_free=%d", rv.dyn_returned, rv.dyn_freed, rv.dyn_unknown_free);
						vf_viol(key, "dynamic anchors not freed exactly once each / hashed DN length wrong", "%s", case_desc(&c, extra));
					}
				}
				if (!same_result(&r0, &rv)) {
					key_of(key, sizeof key, "variant:context-reuse", &c);
					snprintf(extra, sizeof extra, "fresh context: err=%u; context used before for %s: err=%u", r0.err,
						g_variant == 6 ? "the same chain" : "a part of the chain", rv.err);
					vf_viol(key, "the result of a validation depends on what the context validated before", "%s", case_desc(&c, extra));
				}
			}
			g_variant = 0;
		}

		/* API-level variants on accepted chains */
		if (c.exp == 'A' && r0.err == 0 && (c.chunk & 1)) {
			result_t rv;
			int depth = c.depth >= 0 ? c.depth : 0;
			g_variant = 1;
			run_chain(&c, AM_STATIC, CH_WHOLE, 0, &rv);
			vf_stat("cmp_variant_padded_anchor_key", 1);
			if (!same_result(&r0, &rv)) {
				key_of(key, sizeof key, "variant:anchor-key-leading-zeros", &c);
				snprintf(extra, sizeof extra, "plain:err=%u padded:err=%u", r0.err, rv.err);
				vf_viol(key, "RSA trust anchor keys written with leading zero bytes give another result", "%s", case_desc(&c, extra));
			}
			/* the header says a public key carries the basic key type only: an anchor whose key_type has usage
			   flags in the upper nibble is outside the documentation: executed, compared, not judged */
			g_variant = 8; g_variant_arg = 0x10 << ((c.chunk >> 7) & 1); if (((c.chunk >> 8) & 3) == 0) g_variant_arg = 0x30;
			run_chain(&c, AM_STATIC, CH_WHOLE, 0, &rv);
			vf_stat("unjudged_anchor_keytype_flags", 1);
			vf_stat(same_result(&r0, &rv) ? "unjudged_anchor_keytype_flags_same_result" : "unjudged_anchor_keytype_flags_other_result", 1);
			g_variant = 2; g_variant_arg = (int)((c.chunk >> 1) % (unsigned)(depth + 1));
			run_chain(&c, AM_STATIC, CH_WHOLE, 0, &rv);
			vf_stat("cmp_variant_time_unavailable", 1);
			if (rv.err != BR_ERR_X509_TIME_UNKNOWN) {
				key_of(key, sizeof key, "variant:time-unavailable", &c);
				snprintf(extra, sizeof extra, "time callback returned an out-of-range value at certificate %d: err=%u, documented %d", g_variant_arg, rv.err, BR_ERR_X509_TIME_UNKNOWN);
				vf_viol(key, "time callback reporting the time as unavailable does not end validation with BR_ERR_X509_TIME_UNKNOWN", "%s", case_desc(&c, extra));
			}
			/* (a length announced to start_cert that differs from the bytes appended is a misuse of the API by the
			   caller, not an input: not exercised) */
			for (g_variant = 4; g_variant <= 5; g_variant ++) {
				g_variant_arg = (int)((c.chunk >> 3) % (unsigned)(depth + 1));
				run_chain(&c, AM_STATIC, (c.chunk >> 5) & 1 ? CH_RANDOM : CH_WHOLE, c.chunk, &rv);
				vf_stat("cmp_variant_cert_length", 1);
				if (rv.err == 0) {
					key_of(key, sizeof key, "variant:certificate-length", &c);
					snprintf(extra, sizeof extra, "variant=%s certificate=%d", g_variant == 4 ? "last byte of the certificate missing" : "empty certificate first", g_variant_arg);
					vf_viol(key, "chain accepted although a certificate is truncated / empty / shorter than announced", "%s", case_desc(&c, extra));
				}
			}
			g_variant = 0;
		}

		/* (1)-(3) expectation */
		if (c.exp == 'S') {
			vf_stat("unjudged_doc_silent", 1);
			vf_stat(r0.err == 0 ? "unjudged_accepted" : "unjudged_rejected", 1);
		} else {
			vf_stat("cmp_verdict", 1);
			vf_stat(c.exp == 'A' ? "expected_accept" : "expected_reject", 1);
			if (c.exp == 'A' && r0.err != 0) {
				key_of(key, sizeof key, "verdict-rejected", &c);
				snprintf(extra, sizeof extra, "err=%u", r0.err);
				vf_viol(key, "chain that meets the documented rules is rejected", "%s", case_desc(&c, extra));
			} else if (c.exp == 'R' && r0.err == 0) {
				key_of(key, sizeof key, "verdict-accepted", &c);
				vf_viol(key, "chain that breaks a documented rule is accepted", "%s", case_desc(&c, ""));
			} else if (c.exp == 'R') {
				if (c.code >= 0) {
					vf_stat("cmp_code", 1);
					vf_distinct("code", "%d", c.code);
					if ((int)r0.err != c.code) {
						key_of(key, sizeof key, "code", &c);
						snprintf(extra, sizeof extra, "err=%u", r0.err);
						vf_viol(key, "single-defect chain rejected with another code than the documented one", "%s", case_desc(&c, extra));
					}
				} else vf_stat("reject_code_not_judged", 1);
			} else {
				vf_stat("cmp_key", 1);
				if (r0.has_key != 2) {
					key_of(key, sizeof key, "key", &c);
					snprintf(extra, sizeof extra, "has_key=%d kt=%d curve=%d len=%zu/%zu", r0.has_key, r0.kt, r0.curve, r0.keylen_a, r0.keylen_b);
					vf_viol(key, "accepted chain: returned key is not the key of the leaf", "%s", case_desc(&c, extra));
				}
				vf_stat("cmp_usages", 1);
				vf_distinct("usages", "%u", c.usages);
				if (r0.usages != c.usages) {
					key_of(key, sizeof key, "usages", &c);
					snprintf(extra, sizeof extra, "usages=0x%x want=0x%x", r0.usages, c.usages);
					vf_viol(key, "accepted chain: usages differ from the KeyUsage-derived mask", "%s", case_desc(&c, extra));
				}
				for (i = 0; i < c.nne; i ++) {
					nereq_t *q = &c.ne[i];
					if (!q->judged) { vf_stat("names_not_judged", 1); continue; }
					vf_stat("cmp_names", 1);
					if (q->judged == 2) vf_stat(r0.ne_status[i] == 1 ? "names_doc_open_converted" : "names_doc_open_error", 1);
					if (q->judged == 2 && r0.ne_status[i] == -1) continue;
					if (r0.ne_status[i] != q->exp_status
						|| (q->exp_status == 1 && (strlen(r0.ne_val[i]) != q->exp_len || memcmp(r0.ne_val[i], q->exp, q->exp_len))))
					{
						key_of(key, sizeof key, "names", &c);
						snprintf(extra, sizeof extra, "element=%d status=%d want=%d value=%s", i, r0.ne_status[i], q->exp_status,
							vf_hexs(r0.ne_val[i], strlen(r0.ne_val[i])));
						vf_viol(key, "name element output differs from the abstract description", "%s", case_desc(&c, extra));
					}
				}
			}
		}
		if (r0.err == 0) vf_stat("accepted", 1); else vf_stat("rejected", 1);
		vf_distinct("errcode", "%u", r0.err);
		vf_sample("{\"id\":\"%s\",\"class\":\"%s\",\"defects\":%d,\"certs\":%d,\"anchors\":%d,\"expected\":\"%c\",\"expected_code\":%d,\"end_chain\":%u,\"leaf_cert\":\"%.120s...\"}",
			c.id, c.cls, c.nd, c.ncerts, c.nanch, c.exp, c.code, r0.err, c.ncerts ? vf_hexs(c.certs[0].der, c.certs[0].len) : "");

		/* (4) byte sweep */
		if (c.sweep && c.exp == 'A' && r0.err == 0 && c.depth >= 0) {
			long counter = 0;
			vf_rng rng;
			int j;
			vf_rng_init(&rng, seed ^ c.chunk, 5);
			vf_stat("sweep_chains", part == 0);
			for (j = 0; j <= c.depth && j < c.ncerts; j ++) {
				cert_t *x = &c.certs[j];
				int region;
				for (region = 0; region < 2; region ++) {
					long off0 = region ? x->sig_off : x->tbs_off, ln = region ? x->sig_len : x->tbs_len, o;
					for (o = off0; o < off0 + ln; o ++, counter ++) {
						int k;
						unsigned char orig = x->der[o];
						unsigned xr[3];
						/* draw for every position so that all parts see the same values */
						xr[0] = 0x01; xr[1] = 0x80;
						do { xr[2] = vf_range(&rng, 2, 255); } while (xr[2] == 0x80);
						if (counter % parts != part) continue;
						for (k = 0; k < 3; k ++) {
							x->der[o] = (unsigned char)(orig ^ xr[k]);
							snprintf(extra, sizeof extra, "sweep cert=%d off=%ld xor=0x%02x", j, o, xr[k]);
							vf_cur_case = case_desc(&c, extra);
							run_chain(&c, AM_STATIC, CH_WHOLE, 0, &r1);
							vf_stat(region ? "cmp_sweep_sig" : "cmp_sweep_tbs", 1);
							vf_distinct("sweep_err", "%u", r1.err);
							if (r1.err == 0) {
								vf_viol(region ? "C04:sweep:signature-byte" : "C04:sweep:tbs-byte",
									"accepted chain still accepted after changing one signed / signature byte", "%s", casebuf);
							}
						}
						x->der[o] = orig;
					}
				}
			}
		}
		vf_cur_case = NULL;
		free_case(&c);
	}
	free(line);
	fclose(f);
	vf_stat("validations", n_validations);
	vf_done();
	return 0;
}
