/*
 * C18 (part 2): br_pem_encode / br_pem_decoder.
 *
 *  A  sweep   payload length 0..maxlen x flags {0, LINE64, CRLF, LINE64|CRLF}:
 *             length query == written, terminating 0, guards, in-place
 *             (overlapping) encoding, bytes == PEM_write_bio re-wrapped to
 *             64/76 columns with LF/CRLF; decode of the text as written and
 *             of transformed variants (mixed CRLF, stray CR anywhere,
 *             whitespace inside data lines, re-wrapped lines, blank lines)
 *             gives BEGIN(name upper-cased), exactly the payload, END.
 *  B  banner  name lengths 0..140 x trailing dashes {0,5,7}: names up to 127
 *             characters are documented as accepted; longer: not judged.
 *  C  bad     one malformed object per case: error event expected, no END,
 *             delivered data is a prefix of the payload.
 *  D  multi   several objects with junk text around them; valid objects keep
 *             order, names, payload; malformed ones raise an error.
 */
#define OPENSSL_SUPPRESS_DEPRECATED
#include "common.h"
#include "bearssl.h"
#include <openssl/pem.h>
#include <openssl/bio.h>
#include <openssl/evp.h>

#define G 64

static long long g_seed;
static int g_worker, g_nworkers;

#define HASSERT(c, name) do { if (!(c)) { \
	fprintf(stderr, "HARNESS_ASSERT %s line %d\n", name, __LINE__); exit(3); } } while (0)

/* ------------------------------------------------------------------ */
/* growable byte string */

typedef struct { unsigned char *d; size_t n, cap; } str;

static void
str_add(str *s, const void *p, size_t n)
{
	if (s->n + n + 1 > s->cap) {
		s->cap = (s->n + n + 1) * 2 + 64;
		s->d = realloc(s->d, s->cap);
		HASSERT(s->d, "oom");
	}
	if (n) memcpy(s->d + s->n, p, n);
	s->n += n;
	s->d[s->n] = 0;
}
static void str_addc(str *s, int c) { unsigned char b = (unsigned char)c; str_add(s, &b, 1); }
static void str_adds(str *s, const char *z) { str_add(s, z, strlen(z)); }
static void str_free(str *s) { free(s->d); s->d = NULL; s->n = s->cap = 0; }

/* ------------------------------------------------------------------ */
/* reference: Base64 body from OpenSSL's PEM_write_bio, re-wrapped */

/* returns the concatenated Base64 characters OpenSSL writes for the payload */
static void
ossl_body(const unsigned char *data, size_t len, const char *name, str *body, str *whole)
{
	BIO *b = BIO_new(BIO_s_mem());
	char *p;
	long n, i, ls;
	int line = 0, nlines = 0;
	PEM_write_bio(b, name, "", data, (long)len);
	n = BIO_get_mem_data(b, &p);
	HASSERT(n > 0, "pem-write-bio");
	if (whole) str_add(whole, p, (size_t)n);
	for (i = 0; i < n; i ++) if (p[i] == '\n') nlines ++;
	for (i = 0, ls = 0; i < n; i ++) {
		if (p[i] != '\n') continue;
		if (line != 0 && line != nlines - 1) str_add(body, p + ls, (size_t)(i - ls));
		line ++;
		ls = i + 1;
	}
	HASSERT(body->n == ((len + 2) / 3) * 4, "ossl-body-len");
	BIO_free(b);
}

static void
build_pem(str *out, const char *bname, const char *ename, int bdash, int edash,
	const unsigned char *body, size_t blen, size_t width, const char *eol,
	const char *beginkw, const char *endkw)
{
	size_t i;
	int k;
	str_adds(out, beginkw);
	str_adds(out, bname);
	for (k = 0; k < bdash; k ++) str_addc(out, '-');
	str_adds(out, eol);
	for (i = 0; i < blen; i += width) {
		size_t m = blen - i < width ? blen - i : width;
		str_add(out, body + i, m);
		str_adds(out, eol);
	}
	str_adds(out, endkw);
	str_adds(out, ename);
	for (k = 0; k < edash; k ++) str_addc(out, '-');
	str_adds(out, eol);
}

/* ------------------------------------------------------------------ */
/* running the decoder */

#define MAXOBJ 100
typedef struct {
	char name[130];
	int term;               /* 0 none, BR_PEM_END_OBJ, BR_PEM_ERROR */
	int skipped;            /* the caller did not want this object: no destination set (br_pem_decoder_setdest(pc, 0, 0)) */
	str data;
} robj;
typedef struct {
	robj o[MAXOBJ];
	int n;
	int open;               /* index of the open object or -1 */
	int stray_events;       /* END/ERROR with no open object */
	size_t outside;         /* data bytes delivered while no object is open */
	int overflow;
} prun;

/* objects (by index, bit i) the caller skips in the next run_decoder(): "decoded data is simply ignored" when no
   destination is set; what follows a skipped object must be untouched by it */
static unsigned g_skip_mask;

static void
data_cb(void *ctx, const void *src, size_t len)
{
	prun *r = ctx;
	if (r->open < 0) { r->outside += len; return; }
	str_add(&r->o[r->open].data, src, len);
}

static void
prun_free(prun *r)
{
	int i;
	for (i = 0; i < r->n; i ++) str_free(&r->o[i].data);
}

/* chunkmode: 0 whole, 1 byte by byte, 2 random chunks */
static void
run_decoder(prun *r, const unsigned char *txt, size_t len, vf_rng *rng, int chunkmode)
{
	br_pem_decoder_context *pc = malloc(sizeof *pc);
	unsigned char *in = vf_dup(txt, len);
	size_t off = 0;
	memset(r, 0, sizeof *r);
	r->open = -1;
	br_pem_decoder_init(pc);
	br_pem_decoder_setdest(pc, data_cb, r);
	while (off < len) {
		size_t k = chunkmode == 0 ? len - off : chunkmode == 1 ? 1 : vf_range(rng, 1, 97);
		size_t n;
		int ev;
		if (k > len - off) k = len - off;
		n = br_pem_decoder_push(pc, in + off, k);
		HASSERT(n <= k, "push-consumed-too-much");
		off += n;
		ev = br_pem_decoder_event(pc);
		switch (ev) {
		case BR_PEM_BEGIN_OBJ:
			if (r->n >= MAXOBJ) { r->overflow = 1; goto out; }
			r->open = r->n ++;
			snprintf(r->o[r->open].name, sizeof r->o[r->open].name, "%s", br_pem_decoder_name(pc));
			if (r->open < 32 && ((g_skip_mask >> r->open) & 1)) { r->o[r->open].skipped = 1; br_pem_decoder_setdest(pc, 0, 0); }
			else br_pem_decoder_setdest(pc, data_cb, r);
			break;
		case BR_PEM_END_OBJ:
		case BR_PEM_ERROR:
			if (r->open < 0) r->stray_events ++;
			else { r->o[r->open].term = ev; r->open = -1; }
			break;
		case 0:
			HASSERT(n == k, "push-short-without-event");
			break;
		default:
			HASSERT(0, "unknown-event");
		}
	}
out:
	vf_stat("pem_bytes_decoded", (long long)off);
	free(in);
	free(pc);
}

/* ------------------------------------------------------------------ */
/* expectations */

enum { X_VALID = 1, X_ERROR, X_NONE, X_TRUNC, X_EITHER };
typedef struct {
	int kind;               /* X_VALID: BEGIN,data==payload,END; X_ERROR: BEGIN,prefix,ERROR;
	                           X_NONE: banner not recognised, no event at all;
	                           X_TRUNC: input ends inside the object: no END, prefix;
	                           X_EITHER: END (data==payload) or ERROR (prefix) */
	char name[130];         /* expected (upper-cased) */
	const unsigned char *p; size_t len;
	size_t maxprefix;       /* for X_ERROR / X_TRUNC */
	const char *tag;        /* malformation kind */
} xobj;

static void
upper(char *dst, const char *src)
{
	size_t i;
	for (i = 0; src[i]; i ++) dst[i] = (src[i] >= 'a' && src[i] <= 'z') ? src[i] - 32 : src[i];
	dst[i] = 0;
}

static int
is_prefix(const unsigned char *d, size_t n, const unsigned char *p, size_t len, size_t maxn)
{
	return n <= len && n <= maxn && (n == 0 || memcmp(d, p, n) == 0);
}

/*
 * Judge a decoder run against the expected object list. `where` names the
 * workload part (stable), cs describes the case.
 */
static void
judge(const xobj *x, int nx, const prun *r, const char *where, const char *cs,
	const unsigned char *txt, size_t txtlen)
{
	char key[160];
	int i, j = 0;
	const xobj *prev_err = NULL;
	const robj *prev_err_r = NULL;
	const char *th = vf_hexs(txt, txtlen > 400 ? 400 : txtlen);

	vf_stat("cmp_pem_runs", 1);
	if (r->outside != 0 || r->stray_events != 0 || r->overflow) {
		snprintf(key, sizeof key, "C18:pem:data-outside-object:%s", where);
		vf_viol(key, "data or END/ERROR event delivered while no object is open", "%s outside=%zu stray=%d text=%s",
			cs, r->outside, r->stray_events, th);
		return;
	}
	for (i = 0; i < nx; i ++) {
		const robj *o;
		vf_stat("cmp_pem_objects", 1);
		if (x[i].kind == X_NONE) continue;
		if (j >= r->n) {
			if (x[i].kind == X_TRUNC) continue;    /* cut inside the BEGIN line */
			snprintf(key, sizeof key, "C18:pem:object-missing:%s", x[i].tag ? x[i].tag : where);
			vf_viol(key, "expected object was not reported (no BEGIN event)", "%s obj=%d name=%.40s text=%s", cs, i, x[i].name, th);
			return;
		}
		o = &r->o[j ++];
		if (strcmp(o->name, x[i].name) != 0) {
			snprintf(key, sizeof key, "C18:pem:name:%s", where);
			vf_viol(key, "object name differs", "%s obj=%d got=%.130s want=%.130s", cs, i, o->name, x[i].name);
			return;
		}
		if (o->skipped) {
			/* nothing may have been delivered; the event that ends it is the one of the run with a destination */
			if (o->data.n != 0) { vf_viol("C18:pem:data-for-skipped-object", "data delivered for an object without destination", "%s obj=%d got=%zu", cs, i, o->data.n); return; }
			if ((x[i].kind == X_VALID && o->term != BR_PEM_END_OBJ) || (x[i].kind == X_ERROR && o->term != BR_PEM_ERROR)) {
				vf_viol("C18:pem:skipped-object-event", "skipped object ended with another event than when it is decoded", "%s obj=%d term=%d kind=%d text=%s", cs, i, o->term, x[i].kind, th);
				return;
			}
			vf_stat("cmp_pem_skipped_objects", 1);
			prev_err = NULL;
			continue;
		}
		if (x[i].kind == X_VALID || (x[i].kind == X_EITHER && o->term == BR_PEM_END_OBJ)) {
			if (o->term != BR_PEM_END_OBJ) {
				snprintf(key, sizeof key, "C18:pem:valid-rejected:%s", where);
				vf_viol(key, "well-formed object not terminated by END_OBJ", "%s obj=%d term=%d got=%zu want=%zu text=%s",
					cs, i, o->term, o->data.n, x[i].len, th);
				return;
			}
			if (o->data.n != x[i].len || (x[i].len && memcmp(o->data.d, x[i].p, x[i].len) != 0)) {
				/* stale bytes of the preceding failed object in front of the right payload? */
				if (prev_err != NULL && o->data.n > x[i].len && o->data.n - x[i].len <= 254
					&& (x[i].len == 0 || memcmp(o->data.d + (o->data.n - x[i].len), x[i].p, x[i].len) == 0)
					&& prev_err_r->data.n + (o->data.n - x[i].len) <= prev_err->len
					&& memcmp(o->data.d, prev_err->p + prev_err_r->data.n, o->data.n - x[i].len) == 0)
				{
					vf_viol("C18:pem:stale-data-after-error",
						"object following a failed object receives the failed object's undelivered bytes in front of its own payload (decoder buffer not reset on error)",
						"%s obj=%d stale=%zu payload=%zu prevkind=%s text=%s", cs, i,
						o->data.n - x[i].len, x[i].len, prev_err->tag, th);
				} else {
					snprintf(key, sizeof key, "C18:pem:data-mismatch:%s", where);
					vf_viol(key, "decoded payload differs", "%s obj=%d got=%zu want=%zu got_head=%s text=%s",
						cs, i, o->data.n, x[i].len, vf_hexs(o->data.d, o->data.n > 32 ? 32 : o->data.n), th);
				}
				return;
			}
			prev_err = NULL;
			continue;
		}
		/* X_ERROR, X_TRUNC, X_EITHER with error */
		if (x[i].kind == X_ERROR && o->term != BR_PEM_ERROR) {
			snprintf(key, sizeof key, o->term == BR_PEM_END_OBJ ? "C18:pem:bad-accepted:%s" : "C18:pem:bad-no-event:%s", x[i].tag);
			vf_viol(key, "malformed object did not raise BR_PEM_ERROR", "%s obj=%d term=%d got=%zu text=%s",
				cs, i, o->term, o->data.n, th);
			return;
		}
		if (x[i].kind == X_TRUNC && o->term != 0) {
			snprintf(key, sizeof key, "C18:pem:truncated-terminated:%s", x[i].tag);
			vf_viol(key, "END/ERROR raised for an object cut before its end", "%s obj=%d term=%d text=%s", cs, i, o->term, th);
			return;
		}
		if (!is_prefix(o->data.d, o->data.n, x[i].p, x[i].len, x[i].maxprefix)) {
			snprintf(key, sizeof key, "C18:pem:spurious-data:%s", x[i].tag);
			vf_viol(key, "failed object delivered bytes that are not a prefix of the payload before the defect",
				"%s obj=%d got=%zu maxprefix=%zu got_head=%s text=%s", cs, i, o->data.n, x[i].maxprefix,
				vf_hexs(o->data.d, o->data.n > 32 ? 32 : o->data.n), th);
			return;
		}
		prev_err = &x[i];
		prev_err_r = o;
	}
	if (j != r->n) {
		snprintf(key, sizeof key, "C18:pem:extra-object:%s", where);
		vf_viol(key, "more objects reported than present", "%s got=%d want=%d name=%.40s text=%s", cs, r->n, j, r->o[j].name, th);
	}
}

/* ------------------------------------------------------------------ */
/* text transformations that must not change the result */

static const char WS[] = { ' ', '\t', 0x0B, 0x0C, 0x01, 0x1F, ' ', ' ' };

/* style: 0 as is, 1 mixed CRLF/LF, 2 stray CR anywhere, 3 whitespace in data
   lines (+ blank lines), 4 all of them */
static void
transform(str *out, const unsigned char *txt, size_t len, vf_rng *r, int style)
{
	size_t i;
	int at_line_start = 1, data_line = 0;
	for (i = 0; i < len; i ++) {
		unsigned char c = txt[i];
		if (c == '\r') continue;        /* normalise first */
		if (at_line_start) data_line = (c != '-');
		if ((style == 2 || style == 4) && vf_below(r, 12) == 0) {
			int k = 1 + vf_below(r, 2);
			while (k -- > 0) str_addc(out, '\r');
		}
		if ((style == 3 || style == 4) && data_line && c != '\n' && vf_below(r, 9) == 0) {
			int k = 1 + vf_below(r, 3);
			while (k -- > 0) str_addc(out, WS[vf_below(r, sizeof WS)]);
		}
		if (c == '\n') {
			if ((style == 1 || style == 4) && vf_below(r, 2)) str_addc(out, '\r');
			str_addc(out, '\n');
			/* a blank line after a data line that is followed by a data line or END */
			if ((style == 3 || style == 4) && data_line && vf_below(r, 10) == 0) str_addc(out, '\n');
			at_line_start = 1;
			continue;
		}
		str_addc(out, c);
		at_line_start = 0;
	}
	if ((style == 2 || style == 4) && vf_below(r, 2)) str_addc(out, '\r');
}

static const char NAMECH[] = "ABCDEFGHIJKLMNOPQRSTUVWXYZabcdefghijklmnopqrstuvwxyz0123456789 -_./+:#";

static void
gen_name(vf_rng *r, char *dst, size_t n)
{
	size_t i;
	for (i = 0; i < n; i ++) dst[i] = NAMECH[vf_below(r, sizeof NAMECH - 1)];
	if (n) while (dst[n - 1] == '-') dst[n - 1] = NAMECH[vf_below(r, 52)];
	dst[n] = 0;
}

static void
gen_payload(vf_rng *r, unsigned char *p, size_t len)
{
	switch (vf_below(r, 12)) {
	case 0: memset(p, 0x00, len); break;
	case 1: memset(p, 0xFF, len); break;
	case 2: { size_t i; unsigned b = vf_below(r, 256); for (i = 0; i < len; i ++) p[i] = (unsigned char)(b + i); } break;
	default: vf_bytes(r, p, len);
	}
}

/* ------------------------------------------------------------------ */
/* A: encode/decode sweep */

static void
sweep_case(size_t len, unsigned flags, int variants)
{
	vf_rng r;
	unsigned char *pl = malloc(len ? len : 1);
	char name[128], uname[128], cs[200];
	size_t width = (flags & BR_PEM_LINE64) ? 64 : 76;
	const char *eol = (flags & BR_PEM_CRLF) ? "\r\n" : "\n";
	str body = { 0 }, whole = { 0 }, ref = { 0 };
	size_t lq, lw, i;
	unsigned char *raw, *dest, *src;
	xobj x;
	int v;

	vf_rng_init(&r, (uint64_t)g_seed, (5ull << 40) + ((uint64_t)len << 2) + flags);
	gen_payload(&r, pl, len);
	gen_name(&r, name, vf_below(&r, 4) ? vf_range(&r, 1, 24) : vf_range(&r, 0, 100));
	upper(uname, name);
	snprintf(cs, sizeof cs, "sweep seed=%lld len=%zu flags=%u name='%.40s'", g_seed, len, flags, name);

	ossl_body(pl, len, name, &body, &whole);
	build_pem(&ref, name, name, 5, 5, body.d, body.n, width, eol, "-----BEGIN ", "-----END ");
	if (flags == BR_PEM_LINE64) {
		/* reference construction cross-checked against PEM_write_bio itself */
		HASSERT(ref.n == whole.n && memcmp(ref.d, whole.d, ref.n) == 0, "ref-vs-openssl");
	}

	/* length query; data may be NULL when dest is NULL */
	lq = br_pem_encode(NULL, NULL, len, name, flags);
	raw = malloc(lq + 1 + 2 * G);
	memset(raw, 0xA5, lq + 1 + 2 * G);
	dest = raw + G;
	/* "data may be NULL only if len is zero": use that for half of the empty payloads */
	src = (len == 0 && (flags & 1)) ? NULL : vf_dup(pl, len);
	lw = br_pem_encode(dest, src, len, name, flags);
	free(src);
	vf_stat("cmp_pem_enc", 1);
	vf_stat("cases", 1);
	vf_distinct("pem_cfg", "f%u-m3_%zu-m48_%zu", flags, len % 3, len % 48);
	vf_distinct("pem_cfg", "f%u-m57_%zu", flags, len % 57);
	if (lw != lq) {
		vf_viol("C18:pemenc:len-query", "br_pem_encode length query differs from written length", "%s query=%zu written=%zu", cs, lq, lw);
	}
	for (i = 0; i < G; i ++) {
		if (raw[i] != 0xA5 || raw[G + lq + 1 + i] != 0xA5) {
			vf_viol("C18:pemenc:guard", "br_pem_encode wrote outside length+1 bytes", "%s query=%zu", cs, lq);
			break;
		}
	}
	if (lq != ref.n || memcmp(dest, ref.d, lq) != 0) {
		vf_viol("C18:pemenc:bytes", "br_pem_encode output differs from PEM_write_bio (re-wrapped to the selected line length / line ending)",
			"%s ours=%zu ref=%zu ours_text=%s", cs, lq, ref.n, vf_hexs(dest, lq > 300 ? 300 : lq));
	} else if (dest[lq] != 0) {
		vf_viol("C18:pemenc:terminator", "no terminating zero after the PEM text", "%s", cs);
	}
	if (len == 0 || len == 1 || len == 48 || len == 57 || len == 1999) {
		vf_sample("{\"kind\":\"pem-sweep\",\"len\":%zu,\"flags\":%u,\"name\":\"%s\",\"pem_len\":%zu}", len, flags, uname, lq);
	}

	/* in-place: source at the start / at the end of the destination buffer */
	if (lq == ref.n) {
		int w;
		for (w = 0; w < 2; w ++) {
			unsigned char *buf = malloc(lq + 1);
			unsigned char *s2 = w ? buf + lq + 1 - len : buf;
			memset(buf, 0x5A, lq + 1);
			if (len) memcpy(s2, pl, len);
			lw = br_pem_encode(buf, s2, len, name, flags);
			vf_stat("cmp_pem_enc_inplace", 1);
			if (lw != lq || memcmp(buf, ref.d, lq) != 0 || buf[lq] != 0) {
				vf_viol(w ? "C18:pemenc:overlap-end" : "C18:pemenc:overlap-start",
					"in-place br_pem_encode (documented as allowed) gives a different result", "%s", cs);
			}
			free(buf);
		}
	}

	/* decode: the reference text as written, then transformed variants */
	x.kind = X_VALID; upper(x.name, name); x.p = pl; x.len = len; x.maxprefix = len; x.tag = "sweep";
	for (v = 0; v <= variants; v ++) {
		str t = { 0 };
		prun pr;
		int style = v == 0 ? 0 : 1 + (int)((len + flags + (unsigned)v) % 4);
		int chunk = v == 0 ? (int)((len + flags) % 3) : (int)vf_below(&r, 3);
		char cs2[260];
		if (style == 0) str_add(&t, ref.d, ref.n);
		else if (vf_below(&r, 3) == 0) {
			/* re-wrap to a random multiple of 4 first */
			str t0 = { 0 };
			/* "-----BEGIN " followed by nothing at all is not judged (see banner_case) */
			build_pem(&t0, name, name, (int)vf_below(&r, 9) + (name[0] == 0), (int)vf_below(&r, 9), body.d, body.n,
				4 * vf_range(&r, 1, 60), "\n", vf_below(&r, 2) ? "-----begin " : "-----BEGIN ",
				vf_below(&r, 2) ? "-----End " : "-----END ");
			transform(&t, t0.d, t0.n, &r, style);
			str_free(&t0);
			vf_stat("pem_rewrapped", 1);
		} else {
			transform(&t, ref.d, ref.n, &r, style);
		}
		if (chunk == 1 && t.n > 600) chunk = 2;
		snprintf(cs2, sizeof cs2, "%s variant=%d style=%d chunk=%d", cs, v, style, chunk);
		run_decoder(&pr, t.d, t.n, &r, chunk);
		vf_stat("cmp_pem_dec", 1);
		vf_distinct("pem_dec_cfg", "f%u-style%d-chunk%d-m3_%zu", flags, style, chunk, len % 3);
		judge(&x, 1, &pr, "sweep", cs2, t.d, t.n);
		prun_free(&pr);
		str_free(&t);
	}
	free(raw); free(pl);
	str_free(&body); str_free(&whole); str_free(&ref);
}

/* ------------------------------------------------------------------ */
/* B: banner lengths */

static void
banner_case(int nlen, int dashes)
{
	vf_rng r;
	char name[200], cs[120];
	unsigned char pl[10];
	str body = { 0 }, t = { 0 };
	prun pr;
	xobj x;
	size_t lq;
	vf_rng_init(&r, (uint64_t)g_seed, (6ull << 40) + (uint64_t)nlen * 16 + (uint64_t)dashes);
	gen_name(&r, name, (size_t)nlen);
	vf_bytes(&r, pl, sizeof pl);
	snprintf(cs, sizeof cs, "banner seed=%lld namelen=%d dashes=%d", g_seed, nlen, dashes);
	ossl_body(pl, sizeof pl, "X", &body, NULL);
	if (dashes == 5) {
		/* the encoder's own output */
		unsigned char *buf;
		lq = br_pem_encode(NULL, NULL, sizeof pl, name, BR_PEM_LINE64);
		buf = malloc(lq + 1);
		br_pem_encode(buf, pl, sizeof pl, name, BR_PEM_LINE64);
		str_add(&t, buf, lq);
		free(buf);
	} else {
		build_pem(&t, name, name, dashes, dashes, body.d, body.n, 64, "\n", "-----BEGIN ", "-----END ");
	}
	run_decoder(&pr, t.d, t.n, &r, (nlen + dashes) % 3);
	vf_stat("cases", 1);
	vf_distinct("banner_cfg", "n%d-d%d", nlen, dashes);
	if (nlen > 127) {
		/* documentation: "accepts names up to 127 characters"; beyond: not judged */
		vf_stat("unjudged_name_over_127", 1);
		vf_distinct("obs_long_name", "n%d-d%d-objects%d", nlen > 130 ? 131 : nlen, dashes, pr.n);
	} else if (nlen == 0 && dashes == 0) {
		/* "-----BEGIN " with nothing behind it: whether that is a banner is not documented */
		vf_stat("unjudged_empty_banner_line", 1);
		vf_distinct("obs_empty_banner", "objects%d", pr.n);
	} else {
		x.kind = X_VALID; upper(x.name, name); x.p = pl; x.len = sizeof pl; x.maxprefix = x.len; x.tag = "banner";
		vf_stat("cmp_pem_banner", 1);
		if (pr.n == 0 && pr.outside == 0 && pr.stray_events == 0 && nlen + dashes >= 127) {
			vf_viol("C18:pem:name-len-limit",
				"banner with a name of at most 127 characters (documented as accepted) is silently ignored when name plus trailing dashes reach 127 characters",
				"%s line_after_BEGIN=%d text=%s", cs, nlen + dashes, vf_hexs(t.d, t.n));
		} else {
			judge(&x, 1, &pr, "banner", cs, t.d, t.n);
		}
	}
	prun_free(&pr);
	str_free(&t); str_free(&body);
}

/* ------------------------------------------------------------------ */
/* C/D: malformed objects */

static const unsigned char BADCH[] = { '!', '#', '$', '%', '&', '(', ')', '*', ',', '.', ':', ';',
	'<', '>', '?', '@', '[', ']', '^', '_', '`', '{', '|', '}', '~', '"', '\'', '\\', 0x7F, 0x80, 0xC3, 0xFF, '-' };
static const char B64[] = "ABCDEFGHIJKLMNOPQRSTUVWXYZabcdefghijklmnopqrstuvwxyz0123456789+/";

enum { K_BADCHAR, K_EQ_EARLY, K_EQ3_DATA, K_DATA_AFTER_PAD, K_LINE_AFTER_PAD, K_PAD_MID,
	K_SPLIT_QUARTET, K_BAD_END, K_PADBITS, K_EQ_EOL, K_NKINDS };
static const char *KNAME[] = { "bad-char", "eq-early", "eq3-then-data", "data-after-pad", "line-after-pad",
	"pad-in-middle", "split-quartet", "bad-end-line", "nonzero-pad-bits", "pad-then-end-of-line" };

/*
 * Append one object (possibly malformed) to `out`; fills the expectation.
 * Lines are LF-terminated; body lines hold `wq` quartets.
 * kind < 0: well-formed.
 */
static void
emit_object(str *out, vf_rng *r, int kind, const char *name, const unsigned char *pl, size_t len, xobj *x)
{
	str body = { 0 };
	size_t wq = vf_below(r, 3) ? 16 : vf_range(r, 1, 40);
	size_t nq, i, q;
	const char *endkw = "-----END ";
	int extra_line = 0;
	str tail = { 0 };          /* appended to the last data line */

	if (kind == K_PAD_MID && wq < 2) wq = 16;
	ossl_body(pl, len, "X", &body, NULL);
	nq = body.n / 4;
	upper(x->name, name);
	x->p = pl; x->len = len; x->maxprefix = len;
	x->kind = kind < 0 ? X_VALID : X_ERROR;
	x->tag = kind < 0 ? "valid" : KNAME[kind];

	switch (kind) {
	case K_BADCHAR:
		HASSERT(nq > 0, "gen");
		i = vf_below(r, (uint32_t)body.n);
		body.d[i] = BADCH[vf_below(r, sizeof BADCH)];
		x->maxprefix = 3 * (i / 4);
		break;
	case K_EQ_EARLY:
		HASSERT(nq > 0, "gen");
		q = vf_below(r, (uint32_t)nq);
		body.d[4 * q + vf_below(r, 2)] = '=';
		x->maxprefix = 3 * q;
		break;
	case K_EQ3_DATA:
		HASSERT(nq > 0, "gen");
		q = vf_below(r, (uint32_t)nq);
		body.d[4 * q + 2] = '=';
		body.d[4 * q + 3] = (unsigned char)B64[vf_below(r, 64)];
		x->maxprefix = 3 * q;
		break;
	case K_DATA_AFTER_PAD:
		HASSERT(len % 3 != 0, "gen");
		{ int k = 1 + (int)vf_below(r, 5); while (k -- > 0) str_addc(&tail, B64[vf_below(r, 64)]); }
		break;
	case K_LINE_AFTER_PAD:
		HASSERT(len % 3 != 0, "gen");
		extra_line = 1;
		break;
	case K_PAD_MID:
		/* '=' as 4th character of a quartet that is followed by more data on its line */
		HASSERT(nq >= 2 && wq >= 2, "gen");
		do { q = vf_below(r, (uint32_t)nq - 1); } while ((q % wq) == wq - 1);
		body.d[4 * q + 3] = '=';
		if (vf_below(r, 2)) body.d[4 * q + 2] = '=';
		x->maxprefix = 3 * q;
		break;
	case K_SPLIT_QUARTET:
	case K_EQ_EOL:
		HASSERT(nq > 0, "gen");
		break;                  /* handled while writing lines */
	case K_BAD_END:
		switch (vf_below(r, 5)) {
		case 0: endkw = "----END "; break;
		case 1: endkw = "------END "; break;
		case 2: endkw = "-----ENX "; break;
		case 3: endkw = name[0] == ' ' ? "-----ENX " : "-----END"; break;   /* no space: "-----ENDname" */
		default: endkw = "- ----END "; break;
		}
		break;
	case K_PADBITS:
		HASSERT(len % 3 != 0, "gen");
		{
			const char *p = strchr(B64, body.d[body.n - (len % 3 == 1 ? 3 : 2)]);
			unsigned v = (unsigned)(p - B64);
			unsigned m = len % 3 == 1 ? 0x0F : 0x03;
			v |= 1 + vf_below(r, m);
			body.d[body.n - (len % 3 == 1 ? 3 : 2)] = (unsigned char)B64[v & 63];
		}
		x->kind = X_EITHER;     /* RFC 4648 lets a decoder accept or reject; header is silent */
		break;
	default:
		break;
	}

	str_adds(out, "-----BEGIN ");
	str_adds(out, name);
	str_adds(out, "-----\n");
	{
		size_t splitq = kind == K_SPLIT_QUARTET ? vf_below(r, (uint32_t)nq) : (size_t)-1;
		size_t eolq = kind == K_EQ_EOL ? vf_below(r, (uint32_t)nq) : (size_t)-1;
		for (q = 0; q < nq; q ++) {
			if (q == eolq) {
				/* two characters, '=' where the third one belongs, and the line ends there; what follows
				   (the rest of the body, if any) belongs to an object that has already failed */
				str_add(out, body.d + 4 * q, 2);
				str_adds(out, "=\n");
				x->maxprefix = 3 * q;
				if (vf_below(r, 2)) break;
				continue;
			}
			if (q == splitq) {
				size_t at = 1 + vf_below(r, 3);
				str_add(out, body.d + 4 * q, at);
				str_addc(out, '\n');
				str_add(out, body.d + 4 * q + at, 4 - at);
				x->maxprefix = 3 * q;
			} else {
				str_add(out, body.d + 4 * q, 4);
			}
			if (q + 1 == nq) str_add(out, tail.d, tail.n);
			if ((q + 1) % wq == 0 || q + 1 == nq) str_addc(out, '\n');
		}
	}
	if (extra_line) {
		int k = 4 * (1 + (int)vf_below(r, 4));
		while (k -- > 0) str_addc(out, B64[vf_below(r, 64)]);
		str_addc(out, '\n');
	}
	str_adds(out, endkw);
	str_adds(out, name);
	str_adds(out, "-----\n");
	str_free(&body);
	str_free(&tail);
}

static int
pick_kind(vf_rng *r, long long idx, size_t *len)
{
	int kind = (int)(idx % K_NKINDS);
	size_t l = *len;
	switch (kind) {
	case K_DATA_AFTER_PAD: case K_LINE_AFTER_PAD: case K_PADBITS:
		if (l % 3 == 0) l ++;
		break;
	case K_PAD_MID:
		if (l < 7) l += 7;
		break;
	case K_BAD_END:
		break;
	default:
		if (l == 0) l = 1 + vf_below(r, 5);
	}
	*len = l;
	return kind;
}

static size_t
pick_len(vf_rng *r)
{
	switch (vf_below(r, 4)) {
	case 0: return vf_below(r, 12);
	case 1: return vf_range(r, 240, 270);
	case 2: return vf_range(r, 500, 1100);
	default: return vf_below(r, 400);
	}
}

static void
bad_case(long long idx)
{
	vf_rng r;
	size_t len;
	int kind, style, chunk;
	unsigned char *pl;
	char name[40], cs[200];
	str t = { 0 }, t2 = { 0 };
	xobj x;
	prun pr;

	vf_rng_init(&r, (uint64_t)g_seed, (7ull << 40) + (uint64_t)idx);
	len = pick_len(&r);
	kind = pick_kind(&r, idx, &len);
	pl = malloc(len + 1);
	gen_payload(&r, pl, len);
	gen_name(&r, name, vf_range(&r, 1, 20));
	emit_object(&t, &r, kind, name, pl, len, &x);
	style = (int)vf_below(&r, 3);          /* 0 LF, 1 mixed CRLF, 2 stray CR */
	transform(&t2, t.d, t.n, &r, style);
	chunk = (int)vf_below(&r, 3);
	if (chunk == 1 && t2.n > 600) chunk = 2;
	snprintf(cs, sizeof cs, "bad seed=%lld idx=%lld kind=%s len=%zu style=%d chunk=%d", g_seed, idx, KNAME[kind], len, style, chunk);
	run_decoder(&pr, t2.d, t2.n, &r, chunk);
	vf_stat("cases", 1);
	vf_stat(kind == K_PADBITS ? "cmp_pem_bad_unjudged_verdict" : "cmp_pem_bad", 1);
	vf_distinct("pem_bad_kind", "%s-m3_%zu-style%d", KNAME[kind], len % 3, style);
	if (kind == K_PADBITS) vf_distinct("obs_padbits", "term%d", pr.n ? pr.o[0].term : -1);
	if (idx < K_NKINDS) vf_sample("{\"kind\":\"pem-bad\",\"defect\":\"%s\",\"len\":%zu,\"events\":%d,\"term\":%d,\"delivered\":%zu}",
		KNAME[kind], len, pr.n, pr.n ? pr.o[0].term : -1, pr.n ? pr.o[0].data.n : 0);
	judge(&x, 1, &pr, "bad", cs, t2.d, t2.n);
	prun_free(&pr);

	/* truncation: the same kind of text, well-formed, cut inside BEGIN line or body */
	if (idx % 3 == 0) {
		str v = { 0 };
		xobj xv;
		size_t endpos, cut;
		emit_object(&v, &r, -1, name, pl, len, &xv);
		/* position of the END line */
		endpos = v.n - (strlen("-----END ") + strlen(name) + 6);
		cut = vf_below(&r, (uint32_t)endpos + 1);
		xv.kind = X_TRUNC; xv.tag = "truncated";
		run_decoder(&pr, v.d, cut, &r, (int)vf_below(&r, 3) == 1 && cut < 600 ? 1 : 2);
		vf_stat("cmp_pem_trunc", 1);
		snprintf(cs, sizeof cs, "trunc seed=%lld idx=%lld len=%zu cut=%zu", g_seed, idx, len, cut);
		judge(&xv, 1, &pr, "trunc", cs, v.d, cut);
		prun_free(&pr);
		str_free(&v);
	}
	/* banner not at line start / wrong number of dashes / no space: not an object */
	if (idx % 5 == 0) {
		str v = { 0 }, w = { 0 };
		xobj xv[2];
		static const char *PRE[] = { "x", "----BEGIN ", "------BEGIN ", "-----BEGIN", " -----BEGIN ", "-----BEGIM ", "-----" };
		int which = (int)vf_below(&r, 7);
		if (which == 3 && name[0] == ' ') which = 1;
		if (which == 6 && (name[0] == 'B' || name[0] == 'b')) which = 1;
		emit_object(&v, &r, -1, name, pl, len, &xv[0]);
		if (which == 0) { str_adds(&w, "x"); str_add(&w, v.d, v.n); }
		else { str_adds(&w, PRE[which]); str_add(&w, v.d + 11, v.n - 11); }
		/* followed by a good object, which must be found */
		emit_object(&w, &r, -1, "AFTER", pl, len, &xv[1]);
		xv[0].kind = X_NONE;
		run_decoder(&pr, w.d, w.n, &r, 2);
		vf_stat("cmp_pem_notbanner", 1);
		snprintf(cs, sizeof cs, "notbanner seed=%lld idx=%lld which=%d len=%zu", g_seed, idx, which, len);
		judge(xv, 2, &pr, "notbanner", cs, w.d, w.n);
		prun_free(&pr);
		str_free(&v); str_free(&w);
	}
	str_free(&t); str_free(&t2);
	free(pl);
}

/* ------------------------------------------------------------------ */
/* D: several objects in one stream */

static void
junk_lines(str *out, vf_rng *r)
{
	static const char *J[] = { "", "some text", "Bag Attributes", "    localKeyID: 01 00 00 00", "-----", "--- BEGIN",
		"-----BEGI", "-----BEGINX y-----", "-----END FOO-----", "subject=/CN=x", "=", "AAAA", "-", "\t", "# -----BEGIN X-----" };
	int k = (int)vf_below(r, 4);
	while (k -- > 0) {
		str_adds(out, J[vf_below(r, sizeof J / sizeof J[0])]);
		str_addc(out, '\n');
	}
}

static void
multi_case(long long idx)
{
	vf_rng r;
	int nobj, i, style, chunk, prev_bad = 0, nbad = 0;
	xobj x[8];
	unsigned char *pls[8];
	str t = { 0 }, t2 = { 0 };
	prun pr;
	char cs[200], names[8][40];

	vf_rng_init(&r, (uint64_t)g_seed, (8ull << 40) + (uint64_t)idx);
	nobj = (int)vf_range(&r, 2, 6);
	junk_lines(&t, &r);
	for (i = 0; i < nobj; i ++) {
		size_t len = pick_len(&r);
		int kind = -1;
		/* a malformed object is always followed by a well-formed one */
		if (!prev_bad && i + 1 < nobj && vf_below(&r, 4) == 0) {
			kind = pick_kind(&r, (long long)vf_below(&r, K_NKINDS), &len);
			if (kind == K_PADBITS) kind = K_BADCHAR, len += (len == 0);
		}
		pls[i] = malloc(len + 1);
		gen_payload(&r, pls[i], len);
		gen_name(&r, names[i], vf_range(&r, 0, 30));
		emit_object(&t, &r, kind, names[i], pls[i], len, &x[i]);
		prev_bad = kind >= 0;
		nbad += prev_bad;
		junk_lines(&t, &r);
	}
	style = (int)vf_below(&r, 3);
	transform(&t2, t.d, t.n, &r, style);
	chunk = vf_below(&r, 4) == 0 && t2.n < 800 ? 1 : (vf_below(&r, 4) == 0 ? 0 : 2);
	snprintf(cs, sizeof cs, "multi seed=%lld idx=%lld objects=%d bad=%d style=%d chunk=%d", g_seed, idx, nobj, nbad, style, chunk);
	run_decoder(&pr, t2.d, t2.n, &r, chunk);
	vf_stat("cases", 1);
	vf_stat("cmp_pem_multi", 1);
	vf_stat(nbad ? "multi_with_bad_object" : "multi_all_valid", 1);
	vf_distinct("pem_multi_cfg", "n%d-bad%d-style%d-chunk%d", nobj, nbad, style, chunk);
	if (idx < 2) vf_sample("{\"kind\":\"pem-multi\",\"objects\":%d,\"bad\":%d,\"reported\":%d,\"text_len\":%zu}", nobj, nbad, pr.n, t2.n);
	judge(x, nobj, &pr, "multi", cs, t2.d, t2.n);
	prun_free(&pr);
	/* the same text with some objects skipped by the caller */
	if (nobj >= 2) {
		g_skip_mask = 1 + vf_below(&r, (1u << (nobj > 8 ? 8 : nobj)) - 1);
		snprintf(cs, sizeof cs, "multi-skip seed=%lld idx=%lld objects=%d bad=%d style=%d chunk=%d skip=%x", g_seed, idx, nobj, nbad, style, chunk, g_skip_mask);
		run_decoder(&pr, t2.d, t2.n, &r, chunk);
		g_skip_mask = 0;
		vf_stat("cmp_pem_multi_skip", 1);
		judge(x, nobj, &pr, "multi-skip", cs, t2.d, t2.n);
		prun_free(&pr);
	}
	for (i = 0; i < nobj; i ++) free(pls[i]);
	str_free(&t); str_free(&t2);
}

/* One decoder context over a long text: forty-five times a malformed object of one kind followed by a well-formed
   one. Whatever an error path leaves behind in the context has forty-five occasions to pile up. */
static void
long_case(long long idx)
{
	vf_rng r;
	int i, kind0 = (int)(idx % K_NKINDS), chunk;
	static xobj x[90];
	static unsigned char *pls[90];
	static char names[90][40];
	str t = { 0 };
	prun pr;
	char cs[200];

	if (kind0 == K_PADBITS) kind0 = K_EQ_EOL;
	vf_rng_init(&r, (uint64_t)g_seed, (9ull << 40) + (uint64_t)idx);
	for (i = 0; i < 90; i ++) {
		size_t len = vf_below(&r, 4) ? vf_below(&r, 40) : vf_range(&r, 240, 300);
		int kind = -1;
		if ((i & 1) == 0) kind = pick_kind(&r, kind0, &len);
		pls[i] = malloc(len + 1);
		gen_payload(&r, pls[i], len);
		gen_name(&r, names[i], vf_range(&r, 0, 30));
		emit_object(&t, &r, kind, names[i], pls[i], len, &x[i]);
		if (vf_below(&r, 4) == 0) junk_lines(&t, &r);
	}
	chunk = (int)(idx / K_NKINDS) % 3 == 1 ? 1 : ((idx / K_NKINDS) % 3 == 2 ? 0 : 2);
	snprintf(cs, sizeof cs, "long seed=%lld idx=%lld objects=90 bad-kind=%s chunk=%d", g_seed, idx, KNAME[kind0], chunk);
	run_decoder(&pr, t.d, t.n, &r, chunk);
	vf_stat("cases", 1);
	vf_stat("cmp_pem_long_lived_context", 1);
	vf_distinct("pem_long_cfg", "%s-chunk%d", KNAME[kind0], chunk);
	judge(x, 90, &pr, "long", cs, t.d, t.n);
	prun_free(&pr);
	for (i = 0; i < 90; i ++) free(pls[i]);
	str_free(&t);
}

/* ------------------------------------------------------------------ */

int
main(int argc, char **argv)
{
	long long maxlen, nbad, nmulti, i;
	int variants;
	g_seed = vf_argi(argc, argv, "--seed", 1);
	g_worker = (int)vf_argi(argc, argv, "--worker", 0);
	g_nworkers = (int)vf_argi(argc, argv, "--nworkers", 1);
	maxlen = vf_argi(argc, argv, "--maxlen", 2000);
	variants = (int)vf_argi(argc, argv, "--variants", 1);
	nbad = vf_argi(argc, argv, "--bad", 1800);
	nmulti = vf_argi(argc, argv, "--multi", 400);
	vf_max_samples = 6;

	for (i = g_worker; i < (maxlen + 1) * 4; i += g_nworkers) sweep_case((size_t)(i >> 2), (unsigned)(i & 3), variants);
	for (i = g_worker; i < 141 * 3; i += g_nworkers) {
		static const int D[3] = { 0, 5, 7 };
		banner_case((int)(i / 3), D[i % 3]);
	}
	for (i = g_worker; i < nbad; i += g_nworkers) bad_case(i);
	for (i = g_worker; i < nmulti; i += g_nworkers) multi_case(i);
	for (i = g_worker; i < 3 * K_NKINDS * (nmulti >= 400 ? 4 : 1); i += g_nworkers) long_case(i);
	vf_done();
	return 0;
}
