"""E4 generator: X.509 certificates from an ABSTRACT description.

Own minimal DER encoder; RSA PKCS#1 v1.5 signatures with pow(); ECDSA over the
NIST curves in pure Python (deterministic nonce).  Key material: the committed
fixtures under /verif/fixtures/x509 (generated once by fixtures/gen_x509keys.sh).

Abstract forms (plain Python data, see x509ref.py for their meaning):

  DN    = tuple of RDN; RDN = tuple of (attr, stype, value)
          attr  in ATTR_OID, stype in 'utf8','printable','ia5','teletex','numeric','bmp','universal'
          value = str, or bytes (raw content octets, used for ill-formed strings)
  time  = (Y, M, D, h, m, s, form) with form 'utc' (UTCTime) or 'gen' (GeneralizedTime)
  cert  = dict(version, serial, issuer, subject, nb, na, key, spki, sig, exts, garbage)
          key   = fixture key name (subject public key)
          spki  = None | dict(curve_label=<curve>) | dict(curve_oid=<dotted oid>)
          sig   = dict(alg='rsa'|'ecdsa', hash=<name>, signer=<key name>, bad=None|'flip'|'hashtail'|'hashhead'|'garbage')
          exts  = list of dict(id=..., critical=bool, ...)   (order is kept)
          garbage = bytes appended after the certificate (inside the announced length)

The only thing returned besides the DER bytes are the byte ranges of the TBS
and of the signature value (for the byte-flip sweep).
"""
import os, hashlib

HERE = os.path.dirname(os.path.abspath(__file__))
FIX = os.path.join(os.path.dirname(HERE), 'fixtures', 'x509')

# ---------------------------------------------------------------- DER encoder


def der_len(n):
    if n < 0x80:
        return bytes([n])
    b = n.to_bytes((n.bit_length() + 7) // 8, 'big')
    return bytes([0x80 | len(b)]) + b


def tlv(tag, content):
    return bytes([tag]) + der_len(len(content)) + content


def seq(*parts):
    return tlv(0x30, b''.join(parts))


def der_set(*parts):
    return tlv(0x31, b''.join(parts))


def integer(v):
    if v == 0:
        return b'\x02\x01\x00'
    assert v > 0
    b = v.to_bytes((v.bit_length() + 8) // 8, 'big')   # always room for the sign bit
    return tlv(0x02, b)


def oid(dotted):
    p = [int(x) for x in dotted.split('.')]
    out = bytearray([p[0] * 40 + p[1]])
    for v in p[2:]:
        chunk = [v & 0x7F]
        v >>= 7
        while v:
            chunk.append(0x80 | (v & 0x7F))
            v >>= 7
        out += bytes(reversed(chunk))
    return tlv(0x06, bytes(out))


def oid_value(dotted):
    return oid(dotted)[2:]


def bitstring(content, unused=0):
    return tlv(0x03, bytes([unused]) + content)


def octets(content):
    return tlv(0x04, content)


def boolean(v):
    return b'\x01\x01' + (b'\xff' if v else b'\x00')


NULL = b'\x05\x00'

STR_TAG = dict(utf8=0x0C, numeric=0x12, printable=0x13, teletex=0x14, ia5=0x16, bmp=0x1E, universal=0x1C)


def str_content(stype, value):
    if isinstance(value, (bytes, bytearray)):
        return bytes(value)
    if stype == 'utf8':
        return value.encode('utf-8')
    if stype == 'bmp':
        return value.encode('utf-16-be')
    if stype == 'universal':
        return value.encode('utf-32-be')
    return value.encode('latin-1')


def der_string(stype, value):
    return tlv(STR_TAG[stype], str_content(stype, value))


def der_time(t):
    Y, M, D, h, m, s, form = t
    if form == 'utc':
        assert 1950 <= Y <= 2049
        return tlv(0x17, ('%02d%02d%02d%02d%02d%02dZ' % (Y % 100, M, D, h, m, s)).encode())
    return tlv(0x18, ('%04d%02d%02d%02d%02d%02dZ' % (Y, M, D, h, m, s)).encode())


ATTR_OID = dict(CN='2.5.4.3', O='2.5.4.10', OU='2.5.4.11', C='2.5.4.6', L='2.5.4.7', ST='2.5.4.8',
                SN='2.5.4.5', E='1.2.840.113549.1.9.1', DC='0.9.2342.19200300.100.1.25',
                # neighbours of commonName: one arc more, one arc less, last arc +128 (same low 7 bits)
                CNX='2.5.4.3.1', CNP='2.5.4', CNH='2.5.4.131')


def der_dn(dn):
    return seq(*[der_set(*[seq(oid(ATTR_OID[a]), der_string(st, v)) for (a, st, v) in rdn]) for rdn in dn])


SIG_OID = {
    ('rsa', 'md5'): '1.2.840.113549.1.1.4',
    ('rsa', 'sha1'): '1.2.840.113549.1.1.5',
    ('rsa', 'sha224'): '1.2.840.113549.1.1.14',
    ('rsa', 'sha256'): '1.2.840.113549.1.1.11',
    ('rsa', 'sha384'): '1.2.840.113549.1.1.12',
    ('rsa', 'sha512'): '1.2.840.113549.1.1.13',
    ('ecdsa', 'sha1'): '1.2.840.10045.4.1',
    ('ecdsa', 'sha224'): '1.2.840.10045.4.3.1',
    ('ecdsa', 'sha256'): '1.2.840.10045.4.3.2',
    ('ecdsa', 'sha384'): '1.2.840.10045.4.3.3',
    ('ecdsa', 'sha512'): '1.2.840.10045.4.3.4',
}
HASH_OID = dict(md5='1.2.840.113549.2.5', sha1='1.3.14.3.2.26', sha224='2.16.840.1.101.3.4.2.4',
                sha256='2.16.840.1.101.3.4.2.1', sha384='2.16.840.1.101.3.4.2.2',
                sha512='2.16.840.1.101.3.4.2.3')
HASH_ID = dict(md5=1, sha1=2, sha224=3, sha256=4, sha384=5, sha512=6)
CURVE_OID = dict(p256='1.2.840.10045.3.1.7', p384='1.3.132.0.34', p521='1.3.132.0.35')
CURVE_ID = dict(p256=23, p384=24, p521=25)

EXT_OID = dict(bc='2.5.29.19', ku='2.5.29.15', san='2.5.29.17', policies='2.5.29.32',
               aki='2.5.29.35', ski='2.5.29.14', ian='2.5.29.18', sda='2.5.29.9', crldp='2.5.29.31',
               freshest='2.5.29.46', aia='1.3.6.1.5.5.7.1.1', sia='1.3.6.1.5.5.7.1.11',
               eku='2.5.29.37', nc='2.5.29.30', pc='2.5.29.36', pm='2.5.29.33', iap='2.5.29.54',
               nscert='2.16.840.1.113730.1.1')
QT_CPS = '1.3.6.1.5.5.7.2.1'
QT_UNOTICE = '1.3.6.1.5.5.7.2.2'
KU_BITS = ['digitalSignature', 'nonRepudiation', 'keyEncipherment', 'dataEncipherment', 'keyAgreement',
           'keyCertSign', 'cRLSign', 'encipherOnly', 'decipherOnly']

# ---------------------------------------------------------------- fixture keys


def _rd(b, off):
    tag = b[off]
    ln = b[off + 1]
    off += 2
    if ln & 0x80:
        n = ln & 0x7F
        ln = int.from_bytes(b[off:off + n], 'big')
        off += n
    return tag, off, ln


def _children(b, off, ln):
    end = off + ln
    out = []
    while off < end:
        tag, o2, l2 = _rd(b, off)
        out.append((tag, o2, l2))
        off = o2 + l2
    return out


_EC = {
    'p256': dict(
        p=0xFFFFFFFF00000001000000000000000000000000FFFFFFFFFFFFFFFFFFFFFFFF,
        n=0xFFFFFFFF00000000FFFFFFFFFFFFFFFFBCE6FAADA7179E84F3B9CAC2FC632551,
        b=0x5AC635D8AA3A93E7B3EBBD55769886BC651D06B0CC53B0F63BCE3C3E27D2604B,
        gx=0x6B17D1F2E12C4247F8BCE6E563A440F277037D812DEB33A0F4A13945D898C296,
        gy=0x4FE342E2FE1A7F9B8EE7EB4A7C0F9E162BCE33576B315ECECBB6406837BF51F5, bits=256),
    'p384': dict(
        p=2**384 - 2**128 - 2**96 + 2**32 - 1,
        n=0xFFFFFFFFFFFFFFFFFFFFFFFFFFFFFFFFFFFFFFFFFFFFFFFFC7634D81F4372DDF581A0DB248B0A77AECEC196ACCC52973,
        b=0xB3312FA7E23EE7E4988E056BE3F82D19181D9C6EFE8141120314088F5013875AC656398D8A2ED19D2A85C8EDD3EC2AEF,
        gx=0xAA87CA22BE8B05378EB1C71EF320AD746E1D3B628BA79B9859F741E082542A385502F25DBF55296C3A545E3872760AB7,
        gy=0x3617DE4A96262C6F5D9E98BF9292DC29F8F41DBD289A147CE9DA3113B5F0B8C00A60B1CE1D7E819D7A431D7C90EA0E5F,
        bits=384),
    'p521': dict(
        p=2**521 - 1,
        n=int('1' + 'F' * 65 + 'A51868783BF2F966B7FCC0148F709A5D03BB5C9B8899C47AEBB6FB71E91386409', 16),
        b=0x0051953EB9618E1C9A1F929A21A0B68540EEA2DA725B99B315F3B8B489918EF109E156193951EC7E937B1652C0BD3BB1BF073573DF883D2C34F1EF451FD46B503F00,
        gx=0x00C6858E06B70404E9CD9E3ECB662395B4429C648139053FB521F828AF606B4D3DBAA14B5E77EFE75928FE1DC127A2FFA8DE3348B3C1856A429BF97E7E31C2E5BD66,
        gy=0x011839296A789A3BC0045C8A5FB42C7D1BD998F54449579B446817AFBD17273E662C97EE72995EF42640C550B9013FAD0761353C7086A272C24088BE94769FD16650,
        bits=521),
}
_CURVE_BY_OID = {oid_value(v): k for k, v in CURVE_OID.items()}


def _load_key(path):
    b = open(path, 'rb').read()
    tag, off, ln = _rd(b, 0)
    ch = _children(b, off, ln)
    ints = lambda i: int.from_bytes(b[ch[i][1]:ch[i][1] + ch[i][2]], 'big')
    name = os.path.basename(path)[:-4]
    if name.startswith('rsa'):
        n, e, d, p, q = ints(1), ints(2), ints(3), ints(4), ints(5)
        return dict(name=name, kind='rsa', n=n, e=e, d=d, p=p, q=q, dp=d % (p - 1), dq=d % (q - 1),
                    iq=pow(q, -1, p), bits=n.bit_length(), nbytes=(n.bit_length() + 7) // 8)
    d = ints(1)
    curve = None
    pub = None
    for (t, o, l) in ch[2:]:
        if t == 0xA0:
            _, o2, l2 = _rd(b, o)
            curve = _CURVE_BY_OID[b[o2:o2 + l2]]
        elif t == 0xA1:
            _, o2, l2 = _rd(b, o)
            pub = b[o2 + 1:o2 + l2]
    cl = (_EC[curve]['bits'] + 7) // 8
    assert pub[0] == 4 and len(pub) == 1 + 2 * cl
    return dict(name=name, kind='ec', curve=curve, d=d, x=int.from_bytes(pub[1:1 + cl], 'big'),
                y=int.from_bytes(pub[1 + cl:], 'big'), q=pub)


KEYS = {}


def load_keys():
    if not KEYS:
        for f in sorted(os.listdir(FIX)):
            if f.endswith('.der'):
                k = _load_key(os.path.join(FIX, f))
                KEYS[k['name']] = k
    return KEYS


def keys_of(prefix):
    return sorted(k for k in load_keys() if k.startswith(prefix))


def pub_bytes(key):
    """canonical public key bytes: RSA = n || e (minimal big-endian), EC = curve id byte || Q"""
    k = load_keys()[key] if isinstance(key, str) else key
    if k['kind'] == 'rsa':
        return (k['n'].to_bytes(k['nbytes'], 'big'), k['e'].to_bytes((k['e'].bit_length() + 7) // 8, 'big'))
    return (bytes([CURVE_ID[k['curve']]]), k['q'])

# ---------------------------------------------------------------- signatures


def rsa_sign_digest(k, hname, digest):
    di = seq(seq(oid(HASH_OID[hname]), NULL), octets(digest))
    kl = k['nbytes']
    assert len(di) + 11 <= kl
    em = b'\x00\x01' + b'\xff' * (kl - len(di) - 3) + b'\x00' + di
    m = int.from_bytes(em, 'big')
    m1 = pow(m % k['p'], k['dp'], k['p'])
    m2 = pow(m % k['q'], k['dq'], k['q'])
    h = (k['iq'] * (m1 - m2)) % k['p']
    s = m2 + h * k['q']
    return s.to_bytes(kl, 'big')


_GTAB = {}


def _jadd_mixed(X1, Y1, Z1, x2, y2, p):
    # Jacobian + affine, a = -3 irrelevant here.  (X1,Y1,Z1) may be infinity (Z1 == 0).
    if Z1 == 0:
        return x2, y2, 1
    Z1Z1 = Z1 * Z1 % p
    U2 = x2 * Z1Z1 % p
    S2 = y2 * Z1 * Z1Z1 % p
    H = (U2 - X1) % p
    R = (S2 - Y1) % p
    if H == 0:
        if R == 0:
            return _jdbl(X1, Y1, Z1, p)
        return 0, 1, 0
    HH = H * H % p
    HHH = H * HH % p
    V = X1 * HH % p
    X3 = (R * R - HHH - 2 * V) % p
    Y3 = (R * (V - X3) - Y1 * HHH) % p
    Z3 = Z1 * H % p
    return X3, Y3, Z3


def _jdbl(X1, Y1, Z1, p):
    if Z1 == 0 or Y1 == 0:
        return 0, 1, 0
    ZZ = Z1 * Z1 % p
    M = 3 * (X1 - ZZ) * (X1 + ZZ) % p
    YY = Y1 * Y1 % p
    S = 4 * X1 * YY % p
    X3 = (M * M - 2 * S) % p
    Y3 = (M * (S - X3) - 8 * YY * YY) % p
    Z3 = 2 * Y1 * Z1 % p
    return X3, Y3, Z3


def _to_affine(X, Y, Z, p):
    zi = pow(Z, -1, p)
    z2 = zi * zi % p
    return X * z2 % p, Y * z2 * zi % p


def _gtab(curve):
    t = _GTAB.get(curve)
    if t is None:
        c = _EC[curve]
        p = c['p']
        t = []
        x, y = c['gx'], c['gy']
        for _ in range(c['bits'] + 1):
            t.append((x, y))
            x, y = _to_affine(*_jdbl(x, y, 1, p), p)
        _GTAB[curve] = t
    return t


def ec_mul_g(curve, k):
    c = _EC[curve]
    p = c['p']
    t = _gtab(curve)
    X, Y, Z = 0, 1, 0
    i = 0
    while k:
        if k & 1:
            X, Y, Z = _jadd_mixed(X, Y, Z, t[i][0], t[i][1], p)
        k >>= 1
        i += 1
    return _to_affine(X, Y, Z, p)


def ecdsa_sign_digest(k, digest):
    c = _EC[k['curve']]
    n = c['n']
    z = int.from_bytes(digest, 'big')
    hb = len(digest) * 8
    if hb > n.bit_length():
        z >>= hb - n.bit_length()
    ctr = 0
    while True:
        kk = int.from_bytes(hashlib.sha512(b'verif-c04-nonce' + k['d'].to_bytes(66, 'big') + digest + bytes([ctr])).digest()
                            + hashlib.sha512(b'verif-c04-nonce2' + digest + bytes([ctr])).digest(), 'big') % n
        ctr += 1
        if kk == 0:
            continue
        x, _ = ec_mul_g(k['curve'], kk)
        r = x % n
        if r == 0:
            continue
        s = pow(kk, -1, n) * (z + r * k['d']) % n
        if s == 0:
            continue
        return seq(integer(r), integer(s))


_SIGCACHE = {}
SIGSTATS = dict(made=0, cached=0)


def sign(signer, alg, hname, tbs, bad=None):
    """signature value for the TBS; bad: None, 'hashtail' / 'hashhead' (RSA: signature over a digest whose
    last / first byte differs), 'garbage' (no valid structure)"""
    key = (signer, alg, hname, hashlib.sha256(tbs).digest(), bad)
    v = _SIGCACHE.get(key)
    if v is not None:
        SIGSTATS['cached'] += 1
        return v
    SIGSTATS['made'] += 1
    k = load_keys()[signer]
    if bad == 'garbage':
        ln = k['nbytes'] if k['kind'] == 'rsa' else 70
        v = hashlib.shake_128(b'garbage' + tbs).digest(ln)
        if k['kind'] == 'rsa':
            v = b'\x00' + v[1:]
    else:
        digest = bytearray(hashlib.new(hname, tbs).digest())
        if bad == 'hashtail':
            digest[-1] ^= 0x01
        elif bad == 'hashhead':
            digest[0] ^= 0x80
        if alg == 'rsa':
            assert k['kind'] == 'rsa'
            v = rsa_sign_digest(k, hname, bytes(digest))
        else:
            assert k['kind'] == 'ec'
            v = ecdsa_sign_digest(k, bytes(digest))
    if len(_SIGCACHE) > 20000:
        _SIGCACHE.clear()
    _SIGCACHE[key] = v
    return v

# ---------------------------------------------------------------- certificate


def der_spki(keyname, spki=None):
    k = load_keys()[keyname]
    if k['kind'] == 'rsa':
        return seq(seq(oid('1.2.840.113549.1.1.1'), NULL), bitstring(seq(integer(k['n']), integer(k['e']))))
    if spki and 'curve_oid' in spki:
        c = oid(spki['curve_oid'])
    elif spki and 'curve_label' in spki:
        c = oid(CURVE_OID[spki['curve_label']])
    else:
        c = oid(CURVE_OID[k['curve']])
    return seq(seq(oid('1.2.840.10045.2.1'), c), bitstring(k['q']))


SAN_TAG = dict(email=0x81, dns=0x82, uri=0x86, ip=0x87, rid=0x88)


def der_general_name(n):
    t, v = n[0], n[1]
    if t in SAN_TAG:
        return tlv(SAN_TAG[t], v if isinstance(v, (bytes, bytearray)) else v.encode('latin-1'))
    if t == 'dirname':
        return tlv(0xA4, der_dn(v))
    if t == 'other':        # (other, oid, stype, value)
        return tlv(0xA0, oid(n[1]) + tlv(0xA0, der_string(n[2], n[3])))
    raise ValueError(t)


def der_ext_value(e):
    i = e['id']
    if i == 'bc':
        parts = []
        if e.get('ca'):
            parts.append(boolean(True))
        elif e.get('explicit_false'):
            parts.append(boolean(False))
        if e.get('pathlen') is not None:
            parts.append(integer(e['pathlen']))
        return seq(*parts)
    if i == 'ku':
        v = 0
        top = -1
        for b in e['bits']:
            j = KU_BITS.index(b)
            v |= 1 << (15 - j)
            top = max(top, j)
        if top < 0:
            return bitstring(b'')
        if top < 8:
            return bitstring(bytes([v >> 8]), 7 - top)
        return bitstring(bytes([v >> 8, v & 0xFF]), 15 - top)
    if i == 'san' or i == 'ian':
        return seq(*[der_general_name(n) for n in e['names']])
    if i == 'policies':
        out = []
        for (po, quals) in e['policies']:
            if quals:
                q = seq(*[seq(oid(qo), der_string('ia5', 'http://cps.example/') if qo == QT_CPS
                              else seq(der_string('utf8', 'notice'))) for qo in quals])
                out.append(seq(oid(po), q))
            else:
                out.append(seq(oid(po)))
        return seq(*out)
    if 'value' in e:
        return e['value']
    if i == 'ski':
        return octets(hashlib.sha1(repr(e).encode()).digest())
    if i == 'aki':
        return seq(tlv(0x80, hashlib.sha1(repr(e).encode()).digest()))
    if i == 'eku':
        return seq(oid('1.3.6.1.5.5.7.3.1'), oid('1.3.6.1.5.5.7.3.2'))
    if i == 'crldp' or i == 'freshest':
        return seq(seq(tlv(0xA0, tlv(0xA0, tlv(0x86, b'http://crl.example/x.crl')))))
    if i == 'aia' or i == 'sia':
        return seq(seq(oid('1.3.6.1.5.5.7.48.1'), tlv(0x86, b'http://ocsp.example/')))
    if i == 'nc':
        return seq(tlv(0xA0, seq(tlv(0x82, b'.example.com'))))
    if i == 'pc':
        return seq(tlv(0x80, b'\x00'))
    if i == 'iap':
        return integer(0)
    if i == 'sda':
        return seq(seq(oid('1.3.6.1.5.5.7.9.4'), der_set(der_string('printable', 'DE'))))
    if i == 'pm':
        return seq(seq(oid('2.5.29.32.0'), oid('1.2.3.4')))
    return octets(b'verif')


def der_ext(e):
    o = e['oid'] if e['id'] == 'other' else EXT_OID[e['id']]
    parts = [oid(o)]
    if e.get('critical'):
        parts.append(boolean(True))
    parts.append(octets(der_ext_value(e)))
    return seq(*parts)


def der_tbs(c):
    parts = []
    if c['version'] != 1:
        parts.append(tlv(0xA0, integer(c['version'] - 1)))
    parts.append(integer(c['serial']))
    alg = (c['sig']['alg'], c['sig']['hash'])
    algid = seq(oid(SIG_OID[alg]), NULL) if alg[0] == 'rsa' else seq(oid(SIG_OID[alg]))
    parts.append(algid)
    parts.append(der_dn(c['issuer']))
    parts.append(seq(der_time(c['nb']), der_time(c['na'])))
    parts.append(der_dn(c['subject']))
    parts.append(der_spki(c['key'], c.get('spki')))
    if c.get('exts'):
        parts.append(tlv(0xA3, seq(*[der_ext(e) for e in c['exts']])))
    return seq(*parts), algid


_CERTCACHE = {}


def build_cert(c):
    """returns (der bytes incl. trailing garbage, tbs_off, tbs_len, sig_off, sig_len)"""
    tbs, algid = der_tbs(c)
    s = c['sig']
    sig = sign(s['signer'], s['alg'], s['hash'], tbs, s.get('bad') if s.get('bad') != 'flip' else None)
    if s.get('bad') == 'flip':
        pos = int.from_bytes(hashlib.sha256(tbs).digest()[:4], 'big') % len(sig)
        sig = sig[:pos] + bytes([sig[pos] ^ (1 << (pos % 8))]) + sig[pos + 1:]
    sigbs = bitstring(sig)
    body = tbs + algid + sigbs
    hdr = bytes([0x30]) + der_len(len(body))
    der = hdr + body
    tbs_off = len(hdr)
    sig_off = len(der) - len(sig)
    return der + c.get('garbage', b''), tbs_off, len(tbs), sig_off, len(sig)


def days_secs(t):
    """(days since Jan 1st, 0 AD in the proleptic Gregorian calendar, seconds since midnight)"""
    import datetime
    Y, M, D, h, m, s = t[:6]
    return datetime.date(Y, M, D).toordinal() + 365, h * 3600 + m * 60 + s


if __name__ == '__main__':
    import time
    load_keys()
    for k in sorted(KEYS):
        kk = KEYS[k]
        t0 = time.time()
        if kk['kind'] == 'rsa':
            sg = sign(k, 'rsa', 'sha256', b'abc')
            assert pow(int.from_bytes(sg, 'big'), kk['e'], kk['n']).to_bytes(kk['nbytes'], 'big').endswith(hashlib.sha256(b'abc').digest())
        else:
            sg = sign(k, 'ecdsa', 'sha256', b'abc')
            assert ec_mul_g(kk['curve'], kk['d']) == (kk['x'], kk['y'])
        print(k, kk.get('bits', kk.get('curve')), '%.1f ms' % ((time.time() - t0) * 1000))
