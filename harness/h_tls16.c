/*
 * C16: record sizes respect buffers and the negotiated maximum fragment length.
 * Sessions with threshold-sized buffers on each side; the independent record
 * layer measures the exact plaintext length of every record and reads the
 * max_fragment_length extension from both hellos; forged maximum-size and
 * oversize records test acceptance.
 */
#include "tlsmon.h"

static const size_t F[5] = { 512, 1024, 2048, 4096, 16384 };

/* largest standard fragment length that fits the documented overheads (325 in, 85 out); 0 if none */
static size_t
fit_frag(size_t in_len, size_t out_len)
{
	int i;
	for (i = 4; i >= 0; i --) if (in_len >= F[i] + 325 && out_len >= F[i] + 85) return F[i];
	return 0;
}

static int
mfl_code(size_t f)
{
	switch (f) { case 512: return 1; case 1024: return 2; case 2048: return 3; case 4096: return 4; }
	return 0;
}

/* find extension `type` in a hello message (with 4-byte handshake header); returns value pointer or NULL */
static const unsigned char *
find_ext(const unsigned char *m, size_t ml, int is_server_hello, unsigned type, size_t *vlen)
{
	size_t o = 4 + 2 + 32, l;
	if (ml < o + 1) return NULL;
	o += 1 + m[o];                                  /* session id */
	if (is_server_hello) o += 3;                    /* suite + compression */
	else {
		if (o + 2 > ml) return NULL;
		o += 2 + (((size_t)m[o] << 8) | m[o + 1]);  /* suites */
		if (o + 1 > ml) return NULL;
		o += 1 + m[o];                              /* compressions */
	}
	if (o + 2 > ml) return NULL;
	l = ((size_t)m[o] << 8) | m[o + 1];
	o += 2;
	if (o + l > ml) return NULL;
	while (l >= 4) {
		unsigned t = ((unsigned)m[o] << 8) | m[o + 1];
		size_t el = ((size_t)m[o + 2] << 8) | m[o + 3];
		if (el + 4 > l) return NULL;
		if (t == type) { *vlen = el; return m + o + 4; }
		o += 4 + el; l -= 4 + el;
	}
	return NULL;
}

typedef struct {
	tm_pairmon pm;
	size_t max_app_plain[2];      /* per direction, protected application/handshake records */
	size_t max_plain_after_sh;    /* server records after its ServerHello */
	size_t max_wire[2];
	int sh_seen;
	long nrec;
} szmon;
static szmon Z;

static void
size_hook(void *arg, const rm_record *r, const unsigned char *plain)
{
	(void)arg; (void)plain;
	Z.nrec ++;
	if (r->wire_len + 5 > Z.max_wire[r->dir]) Z.max_wire[r->dir] = r->wire_len + 5;
	if (r->plain_len > Z.max_app_plain[r->dir]) Z.max_app_plain[r->dir] = r->plain_len;
	if (r->dir == 1 && Z.sh_seen && r->plain_len > Z.max_plain_after_sh) Z.max_plain_after_sh = r->plain_len;
	if (r->dir == 1 && r->type == 22 && !r->protected_) Z.sh_seen = 1;   /* the record carrying the ServerHello itself is counted too: it is cut by the same rule */
}

/* MITM on the ServerHello: mode 1 = rewrite the echoed code, mode 2 = delete the extension */
static int mitm_mode, mitm_done;
static tp_pair *MP;

static void
mitm_tap(void *arg, int dir, const unsigned char *data, size_t len)
{
	unsigned char *d = (unsigned char *)data;
	(void)arg;
	if (dir == 1 && mitm_mode && !mitm_done && len > 9 && d[0] == 22 && d[5] == 2) {
		size_t rl = ((size_t)d[3] << 8) | d[4];
		size_t ml = ((size_t)d[6] << 16) | ((size_t)d[7] << 8) | d[8];
		size_t vl = 0;
		if (5 + rl <= len && 4 + ml <= rl) {
			const unsigned char *v = find_ext(d + 5, 4 + ml, 1, 1, &vl);
			if (v != NULL && vl == 1) {
				if (mitm_mode == 1) {
					d[v - d] = (unsigned char)(d[v - d] == 1 ? 2 : 1);
				} else {
					/* remove the 5 bytes of the extension and fix three length fields */
					size_t eo = (size_t)(v - d) - 4;          /* start of the extension */
					size_t o = 5 + 4 + 2 + 32;
					size_t xo, xl;
					tp_fifo *f = &MP->s2c;
					o += 1 + d[o]; o += 3;                      /* -> extensions length */
					xo = o; xl = ((size_t)d[xo] << 8) | d[xo + 1];
					memmove(d + eo, d + eo + 5, len - eo - 5);
					xl -= 5; ml -= 5; rl -= 5;
					d[xo] = (unsigned char)(xl >> 8); d[xo + 1] = (unsigned char)xl;
					d[6] = (unsigned char)(ml >> 16); d[7] = (unsigned char)(ml >> 8); d[8] = (unsigned char)ml;
					d[3] = (unsigned char)(rl >> 8); d[4] = (unsigned char)rl;
					f->wr -= 5; f->total -= 5;
					len -= 5;
				}
				mitm_done = 1;
			}
		}
	}
	tm_tap(&Z.pm.m, dir, d, len);
}

static char base[500];

static void
set_layout(tp_cfg *c, int layout, size_t in_len, size_t out_len)
{
	c->layout = layout;
	if (layout == TP_LAYOUT_MONO) c->buflen = in_len;
	else if (layout == TP_LAYOUT_SPLIT2) { c->buflen = in_len; c->buflen_out = out_len; }
	else c->buflen = in_len + out_len;
}

/* deliver a forged record to endpoint ep and report: 1 accepted (plaintext delivered intact), 0 rejected with error, -1 other */
static int
deliver_forged(tp_ep *ep, const unsigned char *rec, size_t rl, size_t plen)
{
	size_t off = 0, got = 0;
	int guard = 0;
	while (guard ++ < 100000) {
		size_t l;
		unsigned char *b;
		if (tp_ep_closed(ep)) break;
		if ((b = br_ssl_engine_recvapp_buf(ep->eng, &l)) != NULL) {
			tp_act_read(ep, l);
			got += l;
			continue;
		}
		if (off >= rl) break;
		b = br_ssl_engine_recvrec_buf(ep->eng, &l);
		if (b == NULL) break;
		if (l > rl - off) l = rl - off;
		memcpy(b, rec + off, l);
		off += l;
		br_ssl_engine_recvrec_ack(ep->eng, l);
		tp_calls ++; tp_check(ep, "recvrec_ack");
	}
	if (tp_ep_closed(ep)) return br_ssl_engine_last_error(ep->eng) != 0 ? 0 : -1;
	return got == plen && !ep->rx_bad ? 1 : -1;
}

/*
 * The negotiated flag over the life of a client context: the same br_ssl_client_context is reset
 * and used for several connections (with and without session resumption) against servers that echo
 * the extension (larger limit than requested) and servers that do not (their own limit is not
 * larger); after each handshake the flag must equal the presence of the extension in THAT
 * ServerHello.
 */
static void
reuse_cases(long long seed, int worker, int nworkers)
{
	static const uint16_t suites[3] = { 0x002F, 0xC02F, 0xCCA8 };
	int ci, pat, resume;
	long idx = 0;
	/* patterns of servers: 1 = echoes (full-size buffers), 0 = does not (512 class) */
	static const int pats[6][4] = { { 1, 0, 1, 0 }, { 0, 1, 0, 0 }, { 1, 1, 0, 1 }, { 0, 0, 1, 1 }, { 1, 0, 0, 1 }, { 0, 1, 1, 0 } };
	for (ci = 0; ci < 3; ci ++) for (pat = 0; pat < 6; pat ++) for (resume = 0; resume < 2; resume ++) {
		tp_pair p;
		tp_cfg cc, sc;
		uint16_t sl[1];
		int k;
		char what[200];
		if ((idx ++ % nworkers) != worker) continue;
		tp_pair_init(&p, (uint64_t)seed, 161, TP_CHUNK_WHOLE);
		for (k = 0; k < 4; k ++) {
			const unsigned char *ev;
			size_t vl;
			int echoed, flag;
			tp_cfg_default(&cc, 0); tp_cfg_default(&sc, 1);
			cc.layout = TP_LAYOUT_MONO; cc.buflen = 512 + 325 + (size_t)ci;
			cc.reuse_ctx = k > 0; cc.resume = resume && k > 0;
			if (pats[pat][k]) { sc.layout = TP_LAYOUT_SPLIT2; sc.buflen = BR_SSL_BUFSIZE_INPUT; sc.buflen_out = BR_SSL_BUFSIZE_OUTPUT; }
			else { sc.layout = TP_LAYOUT_SPLIT2; sc.buflen = 512 + 325; sc.buflen_out = 512 + 85; }
			sl[0] = suites[ci]; cc.suites = sl; cc.nsuites = 1; cc.vmin = cc.vmax = suites[ci] == 0x002F ? 0x0301 : 0x0303;
			sc.keykind = tp_key_for_suite(tp_suite_find(sl[0]), 0);
			memset(cc.seed, 0x21 + k, 32); memset(sc.seed, 0x41 + k, 32);
			snprintf(tp_case, sizeof tp_case, "seed=%lld reuse suite=%04x client-buffer=%zu pattern=%d%d%d%d resume=%d connection=%d",
				seed, sl[0], cc.buflen, pats[pat][0], pats[pat][1], pats[pat][2], pats[pat][3], resume, k + 1);
			/* a fresh server each time (it would otherwise resume; resumption is tried with a server cache below) */
			tp_ep_free(&p.s);
			p.c2s.rd = p.c2s.wr = 0; p.s2c.rd = p.s2c.wr = 0;
			/* a new connection: a new independent decoder */
			if (k > 0) rm_free(&Z.pm.m.rm);
			memset(&Z, 0, sizeof Z);
			tm_pair_attach(&Z.pm, &p);
			if (!tp_ep_start(&p.c, &cc) || !tp_ep_start(&p.s, &sc)) { TP_VIOL("setup:reset-failed", "reset failed"); break; }
			p.c.tx_key = Z.pm.m.key[0]; p.c.rx_key = Z.pm.m.key[1]; p.s.tx_key = Z.pm.m.key[1]; p.s.rx_key = Z.pm.m.key[0];
			if (!tp_handshake(&p, 1000000)) { TP_VIOL("reuse:handshake-failed", "handshake on a reused client context failed"); break; }
			ev = find_ext(Z.pm.m.rm.last_sh, Z.pm.m.rm.last_sh_len, 1, 1, &vl);
			echoed = ev != NULL;
			flag = br_ssl_engine_get_mfln_negotiated(p.c.eng) != 0;
			vf_stat("reuse_connections", 1);
			vf_distinct("reuse_step", "conn%d prev%d echoed%d resume%d", k + 1, k ? pats[pat][k - 1] : -1, echoed, resume);
			if (echoed != pats[pat][k]) vf_stat("reuse_unexpected_echo_behaviour", 1);
			if (flag != echoed) {
				snprintf(what, sizeof what, "ServerHello of this connection %s the max_fragment_length extension but br_ssl_engine_get_mfln_negotiated() returns %d",
					echoed ? "carries" : "does not carry", flag);
				TP_VIOL("mfl:negotiated-flag-stale-on-reused-context", what);
			} else vf_stat("reuse_flag_matches", 1);
			tp_run_data(&p, 200, 200, TP_W_SMALL, 200000);
			tp_run_close(&p, 0, 100000);
		}
		rm_free(&Z.pm.m.rm);
		tp_pair_free(&p);
	}
}

/*
 * The same over the life of a SERVER context: one br_ssl_server_context (full-size buffers) is reset and
 * serves clients with different buffer classes one after the other. What one client asked for must not leak
 * into the next connection: no extension in a ServerHello whose ClientHello had none, the echoed value equals
 * that connection's request, records after the ServerHello stay within that request (and use the full size
 * again when the client has no limit).
 */
static void
server_reuse_cases(long long seed, int worker, int nworkers)
{
	static const uint16_t suites[3] = { 0x002F, 0xC02F, 0xCCA8 };
	static const size_t orders[4][4] = { { 512, 16384, 2048, 512 }, { 16384, 512, 16384, 1024 }, { 1024, 4096, 16384, 16384 }, { 4096, 512, 16384, 2048 } };
	int si, oi, cached;
	long idx = 0;
	static br_ssl_session_cache_lru lru;
	static unsigned char lru_store[3000];
	for (si = 0; si < 3; si ++) for (oi = 0; oi < 4; oi ++) for (cached = 0; cached < 2; cached ++) {
		tp_pair p;
		tp_cfg cc, sc;
		uint16_t sl[1];
		int k;
		char what[240];
		if ((idx ++ % nworkers) != worker) continue;
		tp_pair_init(&p, (uint64_t)seed, 162, TP_CHUNK_WHOLE);
		if (cached) br_ssl_session_cache_lru_init(&lru, lru_store, sizeof lru_store);
		for (k = 0; k < 4; k ++) {
			const unsigned char *ev;
			size_t vl, f = orders[oi][k], want_max;
			int ch_code = 0, sh_code = 0;
			tp_cfg_default(&cc, 0); tp_cfg_default(&sc, 1);
			cc.layout = TP_LAYOUT_SPLIT2; cc.buflen = f + 325; cc.buflen_out = f + 85;
			sc.layout = TP_LAYOUT_SPLIT2; sc.buflen = BR_SSL_BUFSIZE_INPUT; sc.buflen_out = BR_SSL_BUFSIZE_OUTPUT;
			sc.reuse_ctx = k > 0;
			if (cached) sc.cache = &lru.vtable;
			sl[0] = suites[si]; cc.suites = sl; cc.nsuites = 1; cc.vmin = cc.vmax = suites[si] == 0x002F ? 0x0301 : 0x0303;
			sc.keykind = tp_key_for_suite(tp_suite_find(sl[0]), 0);
			memset(cc.seed, 0x51 + k, 32); memset(sc.seed, 0x61 + k, 32);
			snprintf(tp_case, sizeof tp_case, "seed=%lld server-reuse suite=%04x clients=%zu,%zu,%zu,%zu cache=%d connection=%d",
				seed, sl[0], orders[oi][0], orders[oi][1], orders[oi][2], orders[oi][3], cached, k + 1);
			tp_ep_free(&p.c);
			p.c2s.rd = p.c2s.wr = 0; p.s2c.rd = p.s2c.wr = 0;
			if (k > 0) rm_free(&Z.pm.m.rm);
			memset(&Z, 0, sizeof Z);
			tm_pair_attach(&Z.pm, &p);
			Z.pm.m.rec_hook = size_hook;
			if (!tp_ep_start(&p.c, &cc) || !tp_ep_start(&p.s, &sc)) { TP_VIOL("setup:reset-failed", "reset failed"); break; }
			p.c.tx_key = Z.pm.m.key[0]; p.c.rx_key = Z.pm.m.key[1]; p.s.tx_key = Z.pm.m.key[1]; p.s.rx_key = Z.pm.m.key[0];
			vf_stat("server_reuse_connections", 1);
			if (!tp_handshake(&p, 1000000)) {
				snprintf(what, sizeof what, "handshake with a reused server context failed: client err=%d server err=%d", br_ssl_engine_last_error(p.c.eng), br_ssl_engine_last_error(p.s.eng));
				TP_VIOL("reuse:server-handshake-failed", what);
				break;
			}
			ev = find_ext(Z.pm.m.rm.last_ch, Z.pm.m.rm.last_ch_len, 0, 1, &vl); if (ev && vl == 1) ch_code = ev[0];
			ev = find_ext(Z.pm.m.rm.last_sh, Z.pm.m.rm.last_sh_len, 1, 1, &vl); if (ev && vl == 1) sh_code = ev[0];
			vf_distinct("server_reuse_step", "conn%d f%zu prev%zu ch%d sh%d", k + 1, f, k ? orders[oi][k - 1] : 0, ch_code, sh_code);
			if (sh_code != 0 && sh_code != ch_code) {
				snprintf(what, sizeof what, "ServerHello carries max_fragment_length code %d, this ClientHello carried %d", sh_code, ch_code);
				TP_VIOL("mfl:server-echo-from-another-connection", what);
			}
			/* the server writes 40000 bytes: records must respect this connection's request, and be full-size without one */
			tp_run_data(&p, 300, 40000, TP_W_WHOLE, 4000000);
			want_max = ch_code ? ((size_t)256 << ch_code) : 16384;
			if (Z.max_plain_after_sh > want_max) {
				snprintf(what, sizeof what, "server sent a record with %zu plaintext bytes, this client asked for at most %zu", Z.max_plain_after_sh, want_max);
				TP_VIOL("size:server-ignores-requested-length", what);
			} else if (p.s.tx_done >= 40000 && 2 * Z.max_app_plain[1] < want_max) {     /* (TLS 1.0 CBC splits records 1 / n-1: compare by class) */
				/* limited by an earlier client's request: not a protocol violation but the property's "fits ... negotiated" is about the limit in force for THIS connection; reported separately */
				snprintf(what, sizeof what, "server never used more than %zu bytes per record although this connection allows %zu (limit left over from an earlier client?)", Z.max_app_plain[1], want_max);
				TP_VIOL("size:server-limit-from-another-connection", what);
			} else vf_stat("server_reuse_ok", 1);
			tp_run_close(&p, 0, 100000);
		}
		rm_free(&Z.pm.m.rm);
		tp_pair_free(&p);
	}
}

/*
 * The limit over the life of a session: a client with small buffers makes a full handshake, closes, resumes the
 * session on the same contexts (server with a session cache), and renegotiates. In every handshake of the three its
 * ClientHello carries the request, the ServerHello echoes that code, the flag of the client says so, and every
 * record the server sends after a ServerHello stays within the requested length - also the records of the
 * abbreviated handshake and those protected with the keys of the renegotiation.
 */
static void
session_mfl_cases(long long seed, int worker, int nworkers)
{
	static const uint16_t suites[4] = { 0x002F, 0xC02F, 0xCCA8, 0xC09C };
	static br_ssl_session_cache_lru lru;
	static unsigned char lru_store[3000];
	int si, fi;
	long idx = 0;
	for (si = 0; si < 4; si ++) for (fi = 0; fi < 4; fi ++) {
		tp_pair p;
		tp_cfg cc, sc;
		uint16_t sl[1];
		int k;
		char what[240];
		size_t f = F[fi];
		if ((idx ++ % nworkers) != worker) continue;
		tp_pair_init(&p, (uint64_t)seed, 163, TP_CHUNK_WHOLE);
		br_ssl_session_cache_lru_init(&lru, lru_store, sizeof lru_store);
		for (k = 0; k < 3; k ++) {     /* 0: full handshake; 1: resumed; 2: renegotiation inside the resumed connection */
			const unsigned char *ev;
			size_t vl;
			int ch_code = 0, sh_code = 0, i2, seen11 = 0;
			snprintf(tp_case, sizeof tp_case, "seed=%lld session-mfl suite=%04x client-fragment=%zu step=%s", seed, suites[si], f,
				k == 0 ? "full" : (k == 1 ? "resumed" : "renegotiated"));
			if (k < 2) {
				tp_cfg_default(&cc, 0); tp_cfg_default(&sc, 1);
				cc.layout = TP_LAYOUT_SPLIT2; cc.buflen = f + 325; cc.buflen_out = f + 85;
				sc.layout = TP_LAYOUT_SPLIT2; sc.buflen = BR_SSL_BUFSIZE_INPUT; sc.buflen_out = BR_SSL_BUFSIZE_OUTPUT;
				cc.reuse_ctx = sc.reuse_ctx = k > 0; cc.resume = k > 0;
				sc.cache = &lru.vtable;
				sl[0] = suites[si]; cc.suites = sl; cc.nsuites = 1; cc.vmin = cc.vmax = suites[si] == 0x002F ? 0x0301 : 0x0303;
				sc.keykind = tp_key_for_suite(tp_suite_find(sl[0]), 0);
				memset(cc.seed, 0x71 + k, 32); memset(sc.seed, 0x81 + k, 32);
				p.c2s.rd = p.c2s.wr = 0; p.s2c.rd = p.s2c.wr = 0;
				if (k > 0) rm_free(&Z.pm.m.rm);
				memset(&Z, 0, sizeof Z);
				tm_pair_attach(&Z.pm, &p);
				Z.pm.m.rec_hook = size_hook;
				if (!tp_ep_start(&p.c, &cc) || !tp_ep_start(&p.s, &sc)) { TP_VIOL("setup:reset-failed", "reset failed"); break; }
				p.c.tx_key = Z.pm.m.key[0]; p.c.rx_key = Z.pm.m.key[1]; p.s.tx_key = Z.pm.m.key[1]; p.s.rx_key = Z.pm.m.key[0];
				if (!tp_handshake(&p, 1000000)) { TP_VIOL("session:handshake-failed", "handshake of a limited client failed"); break; }
			} else {
				int e0 = Z.pm.m.rm.cs[1].epoch;
				Z.max_plain_after_sh = 0; Z.max_app_plain[1] = 0;
				if (!tp_act_reneg(&p.c)) { TP_VIOL("session:renegotiation-refused", "renegotiation refused on an idle connection"); break; }
				tp_settle(&p, 2000000);
				if (!tp_ep_ready(&p.c) || !tp_ep_ready(&p.s) || Z.pm.m.rm.cs[1].epoch != e0 + 1) { TP_VIOL("session:renegotiation-incomplete", "renegotiation of a limited client did not complete"); break; }
			}
			for (i2 = 0; i2 < Z.pm.m.rm.n_hs[1]; i2 ++) if (Z.pm.m.rm.hs_types[1][i2] == 11) seen11 = 1;
			if (k == 1 && seen11) { vf_stat("session_mfl_resumption_not_taken", 1); }
			if (k == 1 && !seen11) vf_stat("session_mfl_resumed", 1);
			ev = find_ext(Z.pm.m.rm.last_ch, Z.pm.m.rm.last_ch_len, 0, 1, &vl); if (ev && vl == 1) ch_code = ev[0];
			ev = find_ext(Z.pm.m.rm.last_sh, Z.pm.m.rm.last_sh_len, 1, 1, &vl); if (ev && vl == 1) sh_code = ev[0];
			if (ch_code != mfl_code(f)) {
				snprintf(what, sizeof what, "ClientHello carries max_fragment_length code %d, the client's buffers call for %d", ch_code, mfl_code(f));
				TP_VIOL("mfl:client-request-missing", what); break;
			}
			if (sh_code != ch_code) {
				snprintf(what, sizeof what, "ServerHello carries code %d for a request of %d", sh_code, ch_code);
				TP_VIOL("mfl:server-echo-missing", what); break;
			}
			if ((br_ssl_engine_get_mfln_negotiated(p.c.eng) != 0) != (sh_code != 0)) { TP_VIOL("mfl:negotiated-flag-wrong", "negotiated flag differs from the presence of the extension in this ServerHello"); break; }
			/* the server writes 5 fragments' worth and the client a little */
			tp_run_data(&p, p.c.tx_done + 100, p.s.tx_done + 5 * f + 17, TP_W_WHOLE, 4000000);
			tp_settle(&p, 100000);
			if (Z.max_plain_after_sh > f || Z.max_app_plain[1] > f) {
				snprintf(what, sizeof what, "server sent a record with %zu plaintext bytes in the %s part of a session limited to %zu",
					Z.max_plain_after_sh > Z.max_app_plain[1] ? Z.max_plain_after_sh : Z.max_app_plain[1], k == 0 ? "first" : (k == 1 ? "resumed" : "renegotiated"), f);
				TP_VIOL("size:server-ignores-requested-length", what); break;
			}
			if (Z.max_app_plain[0] > f) { TP_VIOL("size:client-exceeds-own-request", "client sent a record above the length it asked for"); break; }
			if (tp_ep_closed(&p.c) || tp_ep_closed(&p.s)) { TP_VIOL("stream:incomplete", "session of a limited client failed while data flowed"); break; }
			vf_stat("session_mfl_steps_ok", 1);
			vf_distinct("session_mfl", "%04x f%zu step%d", suites[si], f, k);
			if (k == 0) tp_run_close(&p, 0, 100000);
		}
		rm_free(&Z.pm.m.rm);
		tp_pair_free(&p);
	}
}

int
main(int argc, char **argv)
{
	long long seed = vf_argi(argc, argv, "--seed", 1);
	int worker = (int)vf_argi(argc, argv, "--worker", 0);
	int nworkers = (int)vf_argi(argc, argv, "--nworkers", 1);
	long ncases = (long)vf_argi(argc, argv, "--cases", 1500);
	long only = (long)vf_argi(argc, argv, "--only", -1);
	long idx;
	static const uint16_t modes[] = { 0x000A, 0x002F, 0x0035, 0x003C, 0xC028, 0x009C, 0xC030, 0xC09C, 0xC0A1, 0xCCA8 };
	static unsigned char big[70000], rec[70000];

	tp_prop = "C16";
	for (idx = worker; idx < ncases; idx += nworkers) {
		vf_rng r;
		tp_pair p;
		tp_cfg cc, sc;
		uint16_t sl[1];
		const tp_suite_info *si;
		unsigned version;
		int clayout, slayout, ccls, scls, cdelta, sdelta, kind, hs;
		size_t c_in, c_out, s_in, s_out, cf, sf, L, want_c, want_s;
		size_t vl;
		const unsigned char *ev;
		int ch_code = 0, sh_code = 0, negotiated;
		char what[300];

		if (only >= 0 && idx != only) continue;
		vf_rng_init(&r, (uint64_t)seed, (uint64_t)idx);
		si = tp_suite_find(modes[idx % 10]);
		version = si->tls12only ? 0x0303 : 0x0301 + (unsigned)((idx / 10) % 3);
		kind = (int)((idx / 30) % 8);            /* 0..4 plain sessions, 5 mitm-rewrite, 6 mitm-delete, 7 forged records */
		clayout = (int)vf_below(&r, 3); slayout = (int)vf_below(&r, 3);
		ccls = (int)vf_below(&r, 5); scls = (int)vf_below(&r, 5);
		cdelta = (int)vf_below(&r, 3) - 1; sdelta = (int)vf_below(&r, 3) - 1;     /* -1, 0, +1 around the threshold */
		if (kind == 5 || kind == 6) { ccls = (int)vf_below(&r, 4); if (clayout == TP_LAYOUT_SPLIT1) clayout = TP_LAYOUT_MONO; if (cdelta < 0) cdelta = 0; }
		/* thresholds: in = f+325, out = f+85 */
		c_in = F[ccls] + 325 + (size_t)cdelta; c_out = F[ccls] + 85 + (size_t)cdelta;
		s_in = F[scls] + 325 + (size_t)sdelta; s_out = F[scls] + 85 + (size_t)sdelta;
		if (ccls == 0 && cdelta < 0) { c_in = 512 + 325; c_out = 512 + 85; }
		if (scls == 0 && sdelta < 0) { s_in = 512 + 325; s_out = 512 + 85; }
		if (vf_below(&r, 6) == 0) { c_in = F[ccls] + 325 + 85; }   /* the documented overheads and their sum */
		/* two buffers of different classes: the smaller one decides */
		if (clayout == TP_LAYOUT_SPLIT2 && vf_below(&r, 5) == 0) { c_out = F[vf_below(&r, 5)] + 85 + (size_t)(vf_below(&r, 3)); vf_stat("asymmetric_buffer_cases", 1); }
		if (slayout == TP_LAYOUT_SPLIT2 && vf_below(&r, 5) == 0) { s_out = F[vf_below(&r, 5)] + 85 + (size_t)(vf_below(&r, 3)); vf_stat("asymmetric_buffer_cases", 1); }
		if (clayout == TP_LAYOUT_MONO) c_out = c_in;
		if (slayout == TP_LAYOUT_MONO) s_out = s_in;
		/* engine-split single buffer: the caller only controls the total; use sizes around the documented optimum */
		if (clayout == TP_LAYOUT_SPLIT1) { c_in = 16384 + 325; c_out = 16384 + 85 + (size_t)cdelta; if (vf_below(&r, 2)) { c_in = 512 + 325 + (size_t)(cdelta + 1); c_out = 512 + 85; } }
		if (slayout == TP_LAYOUT_SPLIT1) { s_in = 16384 + 325; s_out = 16384 + 85 + (size_t)sdelta; }
		/* far above the optimum: 32 KiB, around 64 KiB (16-bit boundaries of the offsets), 100 kB, 1 MiB */
		if (kind != 5 && kind != 6 && vf_below(&r, 8) == 0) {
			static const size_t huge[6] = { 32768 + 325, 65535, 65536, 65540, 100000, 1048576 };
			size_t h1 = huge[vf_below(&r, 6)], h2 = huge[vf_below(&r, 6)];
			if (vf_below(&r, 2)) { c_in = h1; c_out = clayout == TP_LAYOUT_MONO ? h1 : h2; }
			else { s_in = h1; s_out = slayout == TP_LAYOUT_MONO ? h1 : h2; }
			vf_stat("huge_buffer_cases", 1);
			vf_distinct("huge_buffers", "%zu/%zu", h1, h2);
		}
		cf = fit_frag(c_in, c_out); sf = fit_frag(s_in, s_out);
		/* the server must be able to receive what the client may send: the client cannot learn the
		   server's limit, so keep the server's input at least as large as the client's fragment */
		if (s_in < cf + 325) { s_in = cf + 325; if (slayout == TP_LAYOUT_MONO) s_out = s_in; sf = fit_frag(s_in, s_out); }

		tp_cfg_default(&cc, 0); tp_cfg_default(&sc, 1);
		set_layout(&cc, clayout, c_in, c_out);
		set_layout(&sc, slayout, s_in, s_out);
		sl[0] = si->id; cc.suites = sl; cc.nsuites = 1; cc.vmin = cc.vmax = version;
		sc.keykind = tp_key_for_suite(si, 0);
		vf_bytes(&r, cc.seed, 32); vf_bytes(&r, sc.seed, 32);
		snprintf(base, sizeof base, "seed=%lld idx=%ld kind=%d suite=%s ver=%04x client=%d/%zu+%zu server=%d/%zu+%zu",
			seed, idx, kind, si->name, version, clayout, c_in, c_out, slayout, s_in, s_out);
		snprintf(tp_case, sizeof tp_case, "%s", base);

		tp_pair_init(&p, (uint64_t)seed, (uint64_t)idx, (int)vf_below(&r, 5));
		MP = &p;
		memset(&Z, 0, sizeof Z);
		p.c.tx_key = vf_u64(&r); p.s.tx_key = vf_u64(&r);
		tm_pair_attach(&Z.pm, &p);
		Z.pm.m.rec_hook = size_hook;
		p.tap = mitm_tap;
		mitm_mode = kind == 5 ? 1 : (kind == 6 ? 2 : 0); mitm_done = 0;
		if (clayout != TP_LAYOUT_SPLIT1 && cf == 0) { /* below the minimum: configuration must be refused */ }
		vf_stat("cases", 1);
		{
			int rc = tp_ep_start(&p.c, &cc), rs = tp_ep_start(&p.s, &sc);
			if ((clayout != TP_LAYOUT_SPLIT1 && cf == 0) || (slayout != TP_LAYOUT_SPLIT1 && sf == 0)) {
				vf_stat("undersized_buffer_cases", 1);
				goto next;
			}
			if (!rc || !rs) { TP_VIOL("setup:reset-failed", "reset failed with buffers at or above the documented minimum"); goto next; }
		}
		p.c.tx_key = Z.pm.m.key[0]; p.c.rx_key = Z.pm.m.key[1];
		p.s.tx_key = Z.pm.m.key[1]; p.s.rx_key = Z.pm.m.key[0];
		hs = tp_handshake(&p, 2000000);

		/* --- hello extensions as seen on the wire --- */
		ev = find_ext(Z.pm.m.rm.last_ch, Z.pm.m.rm.last_ch_len, 0, 1, &vl);
		if (ev && vl == 1) ch_code = ev[0];
		ev = find_ext(Z.pm.m.rm.last_sh, Z.pm.m.rm.last_sh_len, 1, 1, &vl);
		if (ev && vl == 1) sh_code = ev[0];
		/* (2) the client asks for exactly what its buffers allow (layouts whose sizes the caller controls) */
		if (clayout != TP_LAYOUT_SPLIT1) {
			int want = mfl_code(cf);
			vf_stat("cmp_client_request", 1);
			if (ch_code != want) {
				snprintf(what, sizeof what, "client with buffers for %zu-byte fragments sent max_fragment_length code %d, expected %d", cf, ch_code, want);
				TP_VIOL("mfl:client-request-wrong", what);
			}
		}
		if (kind == 5) {
			/* (5) mismatching echo: client must never become ready */
			vf_stat("mitm_rewrite_cases", 1);
			if (ch_code != 0 && mitm_done) {
				vf_stat("mitm_rewrite_applied", 1);
				if (p.c.ever_sendapp || p.c.ever_recvapp) TP_VIOL("mfl:mismatching-echo-accepted", "client became ready although the echoed max_fragment_length differs from its request");
			}
			goto next;
		}
		if (kind == 6) {
			/* (4) legacy server imitation: extension deleted in flight; the handshake dies at Finished,
			   the flag is sampled after the client consumed the server's flight */
			vf_stat("mitm_delete_cases", 1);
			if (ch_code != 0 && mitm_done) {
				vf_stat("mitm_delete_applied", 1);
				if (br_ssl_engine_get_mfln_negotiated(p.c.eng) != 0) {
					TP_VIOL("mfl:negotiated-without-echo", "client reports the extension as negotiated although the ServerHello it received had none");
				}
				if (p.c.ever_sendapp || p.c.ever_recvapp) TP_VIOL("mfl:altered-hello-accepted", "client became ready over an altered ServerHello");
			}
			goto next;
		}
		if (!hs) {
			snprintf(what, sizeof what, "handshake did not complete: c_err=%d s_err=%d", br_ssl_engine_last_error(p.c.eng), br_ssl_engine_last_error(p.s.eng));
			TP_VIOL("handshake:incomplete", what);
			goto next;
		}
		vf_stat("handshakes", 1);
		/* (3) server echoes exactly the received code or nothing */
		vf_stat("cmp_server_echo", 1);
		/* an echo must repeat the requested code; no echo is legitimate (then nothing was negotiated,
		   but the request must still be honoured in the record sizes, checked below) */
		if (sh_code != 0 && sh_code != ch_code) {
			snprintf(what, sizeof what, "ClientHello max_fragment_length code %d, ServerHello code %d", ch_code, sh_code);
			TP_VIOL("mfl:server-echo-wrong", what);
		}
		if (ch_code != 0 && sh_code == 0) vf_stat("requests_not_echoed", 1);
		/* (4) negotiated flag <=> echo on the wire */
		negotiated = br_ssl_engine_get_mfln_negotiated(p.c.eng);
		vf_stat("cmp_negotiated_flag", 1);
		if ((negotiated != 0) != (sh_code != 0)) {
			snprintf(what, sizeof what, "client reports negotiated=%d but ServerHello %s the extension", negotiated, sh_code ? "contained" : "did not contain");
			TP_VIOL("mfl:negotiated-flag-wrong", what);
		}
		vf_stat(sh_code ? "sessions_with_mfl" : "sessions_without_mfl", 1);
		L = sh_code ? (size_t)256 << sh_code : 16384;

		if (kind == 7) {
			/* (6) acceptance of forged records towards each endpoint */
			int d;
			for (d = 0; d < 2; d ++) {
				tp_ep *ep = d == 0 ? &p.s : &p.c;        /* records in direction d are received by ... */
				tp_snap sn;
				rm_cipher cs;
				rm_forge_opts fo;
				size_t in_len = d == 0 ? s_in : c_in, adv, fl, i;
				int lay = d == 0 ? slayout : clayout, res;
				if (lay == TP_LAYOUT_SPLIT1) continue;
				tp_snap_take(&sn, ep);
				/* length the endpoint advertised: the client through the extension, else what its buffers allow up to 16384 */
				adv = d == 1 && sh_code ? L : fit_frag(in_len, 100000);
				if (adv > 16384) adv = 16384;
				for (i = 0; i < 16400; i ++) big[i] = tp_stream_byte(ep->rx_key, ep->rx_done + i);
				/* (a) plaintext exactly the advertised length, longest padding for CBC */
				cs = Z.pm.m.rm.cs[d]; rm_forge_defaults(&fo); fo.padlen = 255;
				fl = rm_seal(&cs, 23, big, adv, &fo, &r, 1, rec);
				snprintf(tp_case, sizeof tp_case, "%s forged dir=%d plaintext=%zu (advertised length, max padding) wire=%zu", base, d, adv, fl);
				res = deliver_forged(ep, rec, fl, adv);
				vf_stat("forged_max_records", 1);
				if (res != 1) {
					snprintf(what, sizeof what, "conformant record with %zu plaintext bytes (the advertised length) was not accepted: result=%d err=%d", adv, res, br_ssl_engine_last_error(ep->eng));
					TP_VIOL("accept:advertised-length-record-refused", what);
				}
				tp_snap_restore(&sn, ep);
				/* (a0) the other end of the range: a record without any plaintext (RFC 5246 6.2.1 allows empty application-data
				   fragments) followed by a record of one byte: both accepted, the byte delivered */
				{
					size_t f0;
					cs = Z.pm.m.rm.cs[d]; rm_forge_defaults(&fo);
					f0 = rm_seal(&cs, 23, big, 0, &fo, &r, 1, rec);
					fl = f0 + rm_seal(&cs, 23, big, 1, &fo, &r, 1, rec + f0);
					snprintf(tp_case, sizeof tp_case, "%s forged dir=%d plaintext=0 then 1 wire=%zu+%zu", base, d, f0, fl - f0);
					res = deliver_forged(ep, rec, fl, 1);
					vf_stat("forged_empty_records", 1);
					if (res != 1) {
						snprintf(what, sizeof what, "conformant empty record followed by a one-byte record was not accepted: result=%d err=%d", res, br_ssl_engine_last_error(ep->eng));
						TP_VIOL("accept:empty-record-refused", what);
					}
					tp_snap_restore(&sn, ep);
				}
				/* (b) no negotiated limit: the largest record that fits the input buffer */
				if (!(d == 1 && sh_code)) {
					size_t room = in_len - 5, ovh, pl;
					cs = Z.pm.m.rm.cs[d]; rm_forge_defaults(&fo);
					/* overhead of a minimal-padding record of plaintext pl: measure with a probe */
					fl = rm_seal(&cs, 23, big, 16, &fo, &r, 0, rec);
					ovh = fl - 5 - 16;
					pl = room > ovh + 32 ? room - ovh - 32 : 1;
					if (pl > 16384) pl = 16384;
					/* grow until the wire length is the largest <= in_len */
					for (;;) {
						size_t f2;
						if (pl + 1 > 16384) break;
						cs = Z.pm.m.rm.cs[d];
						f2 = rm_seal(&cs, 23, big, pl + 1, &fo, &r, 0, rec);
						if (f2 > in_len) break;
						pl ++;
					}
					cs = Z.pm.m.rm.cs[d];
					fl = rm_seal(&cs, 23, big, pl, &fo, &r, 1, rec);
					snprintf(tp_case, sizeof tp_case, "%s forged dir=%d plaintext=%zu wire=%zu (largest that fits input buffer %zu)", base, d, pl, fl, in_len);
					res = deliver_forged(ep, rec, fl, pl);
					vf_stat("forged_fit_records", 1);
					if (res != 1) {
						snprintf(what, sizeof what, "record that fits the input buffer (%zu of %zu bytes, plaintext %zu) was not accepted: result=%d err=%d", fl, in_len, pl, res, br_ssl_engine_last_error(ep->eng));
						TP_VIOL("accept:fitting-record-refused", what);
					}
					tp_snap_restore(&sn, ep);
					/* (c) one block too large for the buffer: must be refused with an error, never overflow (ASan armed) */
					if (pl < 16384) {
						size_t pl2 = pl;
						for (;;) {
							cs = Z.pm.m.rm.cs[d];
							fl = rm_seal(&cs, 23, big, pl2, &fo, &r, 0, rec);
							if (fl > in_len || pl2 >= 16384) break;
							pl2 ++;
						}
						if (fl > in_len) {
							snprintf(tp_case, sizeof tp_case, "%s forged dir=%d plaintext=%zu wire=%zu (just beyond input buffer %zu)", base, d, pl2, fl, in_len);
							res = deliver_forged(ep, rec, fl, pl2);
							vf_stat("forged_oversize_records", 1);
							if (res != 0) {
								snprintf(what, sizeof what, "record larger than the input buffer (%zu > %zu) did not produce an error: result=%d", fl, in_len, res);
								TP_VIOL("accept:oversize-record-not-refused", what);
							} else if (br_ssl_engine_last_error(ep->eng) != BR_ERR_TOO_LARGE && br_ssl_engine_last_error(ep->eng) != BR_ERR_BAD_LENGTH) {
								vf_stat("oversize_other_error_code", 1);
							}
							tp_snap_restore(&sn, ep);
						}
					}
				}
				tp_snap_free(&sn);
			}
			snprintf(tp_case, sizeof tp_case, "%s", base);
			goto next;
		}

		/* --- data: writes of every size class up to 3 fragments in both directions --- */
		want_c = 1 + vf_below(&r, (uint32_t)(3 * (cf ? cf : 512)));
		want_s = 1 + vf_below(&r, (uint32_t)(3 * L > 49152 ? 49152 : 3 * L));
		if (vf_below(&r, 3) == 0) want_c = (cf ? cf : 512) * (1 + vf_below(&r, 2)) + vf_below(&r, 3) - 1;
		if (vf_below(&r, 3) == 0) want_s = L * (1 + vf_below(&r, 2)) + vf_below(&r, 3) - 1;
		if (!tp_run_data(&p, want_c, want_s, TP_W_WHOLE + (int)vf_below(&r, 2), 8000000)) {
			snprintf(what, sizeof what, "data phase failed: c tx=%zu/%zu rx=%zu/%zu err=%d; s tx=%zu/%zu rx=%zu/%zu err=%d",
				p.c.tx_done, want_c, p.c.rx_done, want_s, br_ssl_engine_last_error(p.c.eng),
				p.s.tx_done, want_s, p.s.rx_done, want_c, br_ssl_engine_last_error(p.s.eng));
			TP_VIOL("stream:incomplete", what);
			goto next;
		}
		tp_run_close(&p, (int)vf_below(&r, 3), 1000000);
		tm_verdict(&Z.pm.m, 1, want_c, want_s);
		/* (1) record sizes */
		vf_stat("records_measured", Z.nrec);
		vf_stat("cmp_record_sizes", 1);
		if (Z.max_app_plain[0] > 16384 || Z.max_app_plain[1] > 16384) TP_VIOL("size:above-16384", "record plaintext above 16384 bytes");
		if (sh_code) {
			if (Z.max_plain_after_sh > L) {
				snprintf(what, sizeof what, "server sent a record with %zu plaintext bytes although max_fragment_length %zu was negotiated", Z.max_plain_after_sh, L);
				TP_VIOL("size:server-exceeds-negotiated-length", what);
			}
			if (Z.max_app_plain[0] > L) {
				snprintf(what, sizeof what, "client sent a record with %zu plaintext bytes although it negotiated max_fragment_length %zu", Z.max_app_plain[0], L);
				TP_VIOL("size:client-exceeds-negotiated-length", what);
			}
		}
		if (ch_code != 0 && Z.max_plain_after_sh > ((size_t)256 << ch_code)) {
			snprintf(what, sizeof what, "server sent a record with %zu plaintext bytes although the client asked for at most %zu", Z.max_plain_after_sh, (size_t)256 << ch_code);
			TP_VIOL("size:server-ignores-requested-length", what);
		}
		if (slayout != TP_LAYOUT_SPLIT1 && Z.max_app_plain[1] > sf) {
			snprintf(what, sizeof what, "server sent a record with %zu plaintext bytes, more than its own buffers allow (%zu)", Z.max_app_plain[1], sf);
			TP_VIOL("size:server-exceeds-own-limit", what);
		}
		if (clayout != TP_LAYOUT_SPLIT1 && Z.max_wire[0] > c_out) TP_VIOL("size:record-larger-than-output-buffer", "client record larger than its output buffer");
		if (slayout != TP_LAYOUT_SPLIT1 && Z.max_wire[1] > s_out) TP_VIOL("size:record-larger-than-output-buffer", "server record larger than its output buffer");
		/* a sender that could use full fragments and had enough data should do so at least once: observability counter */
		if (Z.max_app_plain[1] == (sf < L ? sf : L)) vf_stat("server_used_full_fragment", 1);
		vf_stat("sessions_completed", 1);
		vf_max("max_record_plaintext", (long long)(Z.max_app_plain[0] > Z.max_app_plain[1] ? Z.max_app_plain[0] : Z.max_app_plain[1]));
		vf_distinct("config", "%d/%04x/c%d.%zu/s%d.%zu/m%d", si->enc, version, clayout, cf, slayout, sf, sh_code);
		vf_sample("{\"suite\":\"%s\",\"version\":\"%04x\",\"client_buf\":[%d,%zu,%zu],\"server_buf\":[%d,%zu,%zu],\"ch_mfl_code\":%d,\"sh_mfl_code\":%d,\"max_plain_c2s\":%zu,\"max_plain_s2c\":%zu,\"records\":%ld}",
			si->name, version, clayout, c_in, c_out, slayout, s_in, s_out, ch_code, sh_code, Z.max_app_plain[0], Z.max_app_plain[1], Z.nrec);
	next:
		rm_free(&Z.pm.m.rm);
		tp_pair_free(&p);
	}
	reuse_cases(seed, worker, nworkers);
	server_reuse_cases(seed, worker, nworkers);
	session_mfl_cases(seed, worker, nworkers);
	vf_stat("monitored_calls", tp_calls);
	vf_done();
	return 0;
}
