/*
 * C09 (a) with the alternate ("constant-time on old platforms") definitions of
 * MUL31 / MUL31_lo / MUL15 from inner.h: same program as h_bigint_prim.c.
 */
#define BR_CT_MUL31 1
#define BR_CT_MUL15 1
#define PRIM_INCLUDED 1
#include "h_bigint_prim.c"
