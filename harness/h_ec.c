/*
 * C11: EC arithmetic, ECDH and ECDSA are correct and reject invalid input.
 *
 * Runtime monitor: every br_ec_impl (and the ECDSA signers / verifiers,
 * the signature format converters, br_ec_keygen, br_ec_compute_pub) is run
 * on generated inputs; independent references judge each result:
 *   - NIST curves: OpenSSL EC_POINT_mul / EC_POINT_add / EC_POINT_oct2point,
 *     ECDSA_do_verify (+ a BIGNUM textbook verifier that must agree with it),
 *     GMP square roots for point construction;
 *   - Curve25519: the RFC 7748 ladder written with GMP;
 *   - deterministic ECDSA: RFC 6979 nonce generator written from the RFC
 *     over OpenSSL HMAC();
 *   - DER: i2d_ECDSA_SIG / d2i_ECDSA_SIG.
 *
 * Modes (--mode): arith, ecdsa, conv, keygen, time.
 * Work is selected by --seed, --worker, --nworkers, --cases only.
 */
#define OPENSSL_SUPPRESS_DEPRECATED 1
#include "common.h"
#include "bearssl.h"
#include <gmp.h>
#include <openssl/bn.h>
#include <openssl/ec.h>
#include <openssl/ecdsa.h>
#include <openssl/evp.h>
#include <openssl/hmac.h>
#include <openssl/err.h>
#include <openssl/obj_mac.h>
#include <time.h>

#define HASSERT(cond, tag) do { if (!(cond)) { \
	fprintf(stderr, "HARNESS_ASSERT %s line %d\n", tag, __LINE__); exit(3); } } while (0)

/* one report per distinct key and process: repeated hits of the same key are
 * only counted, so that a frequent finding cannot exhaust the 25-line budget
 * of vf_viol and mask another one */
static char *seen_keys[64];
static int nseen;
static int
key_fresh(const char *k)
{
	int i;
	for (i = 0; i < nseen; i ++) if (!strcmp(seen_keys[i], k)) return 0;
	if (nseen < 64) seen_keys[nseen ++] = strdup(k);
	return 1;
}
#define VIOL(key, ...) do { const char *k_ = (key); \
	if (key_fresh(k_)) vf_viol(k_, __VA_ARGS__); else vf_stat("violations_repeated", 1); } while (0)

/* ================================================================== */
/* globals */

static BN_CTX *bctx;
static vf_rng rng;
static long long g_seed, g_worker, g_nworkers;
static int g_thorough;

static void
rng_case(const char *mode, const char *a, const char *b, long long i)
{
	uint64_t h = vf_fnv(mode, strlen(mode), 0);
	h = vf_fnv(a, strlen(a), h);
	h = vf_fnv(b, strlen(b), h);
	vf_rng_init(&rng, (uint64_t)g_seed, h ^ ((uint64_t)i * 0x9E3779B97F4A7C15ull));
}

/* ================================================================== */
/* implementations */

typedef struct {
	const char *name;
	const br_ec_impl *impl;
} impl_t;

static impl_t impls[20];
static int nimpl;

static void
add_impl(const char *name, const br_ec_impl *im)
{
	if (im == NULL) {
		vf_distinct("impl_unavailable", "%s", name);
		return;
	}
	impls[nimpl].name = name;
	impls[nimpl].impl = im;
	nimpl ++;
}

static void
init_impls(void)
{
	add_impl("prime_i15", &br_ec_prime_i15);
	add_impl("prime_i31", &br_ec_prime_i31);
	add_impl("p256_m15", &br_ec_p256_m15);
	add_impl("p256_m31", &br_ec_p256_m31);
	add_impl("p256_m62", br_ec_p256_m62_get());
	add_impl("p256_m64", br_ec_p256_m64_get());
	add_impl("c25519_i15", &br_ec_c25519_i15);
	add_impl("c25519_i31", &br_ec_c25519_i31);
	add_impl("c25519_m15", &br_ec_c25519_m15);
	add_impl("c25519_m31", &br_ec_c25519_m31);
	add_impl("c25519_m62", br_ec_c25519_m62_get());
	add_impl("c25519_m64", br_ec_c25519_m64_get());
	add_impl("all_m15", &br_ec_all_m15);
	add_impl("all_m31", &br_ec_all_m31);
}

static const impl_t *
find_impl(const char *name)
{
	int i;
	for (i = 0; i < nimpl; i ++) {
		if (strcmp(impls[i].name, name) == 0) return &impls[i];
	}
	return NULL;
}

static int
impl_supports(const br_ec_impl *im, int curve)
{
	return (int)((im->supported_curves >> curve) & 1);
}

/* ================================================================== */
/* NIST curves: reference side */

typedef struct {
	int id, nid;
	const char *name;
	EC_GROUP *g;
	BIGNUM *n, *p, *a, *b;
	size_t plen, nlen, ptlen;
	int nbits;
	size_t max_raw, max_asn1;   /* documented maximum signature lengths */
	mpz_t zp, zb, zsq;          /* p, b, (p+1)/4 */
} curve_t;

static curve_t curves[3] = {
	{ BR_EC_secp256r1, NID_X9_62_prime256v1, "P256" },
	{ BR_EC_secp384r1, NID_secp384r1, "P384" },
	{ BR_EC_secp521r1, NID_secp521r1, "P521" },
};

static void
bn2mpz(mpz_t z, const BIGNUM *b)
{
	unsigned char tmp[80];
	int l = BN_bn2bin(b, tmp);
	mpz_import(z, (size_t)l, 1, 1, 1, 0, tmp);
}

static void
mpz2pad(unsigned char *dst, size_t len, const mpz_t z)
{
	size_t cnt = (mpz_sizeinbase(z, 2) + 7) / 8;
	unsigned char tmp[160];
	HASSERT(cnt <= sizeof tmp, "mpz2pad");
	memset(dst, 0, len);
	if (mpz_sgn(z) == 0) return;
	mpz_export(tmp, &cnt, 1, 1, 1, 0, z);
	HASSERT(cnt <= len, "mpz2pad-len");
	memcpy(dst + len - cnt, tmp, cnt);
}

static void
init_curves(void)
{
	int i;
	static const size_t mr[3] = { 64, 96, 132 }, ma[3] = { 72, 104, 139 };
	for (i = 0; i < 3; i ++) {
		curve_t *c = &curves[i];
		c->g = EC_GROUP_new_by_curve_name(c->nid);
		HASSERT(c->g != NULL, "group");
		c->n = BN_new(); c->p = BN_new(); c->a = BN_new(); c->b = BN_new();
		HASSERT(EC_GROUP_get_order(c->g, c->n, bctx), "order");
		HASSERT(EC_GROUP_get_curve(c->g, c->p, c->a, c->b, bctx), "curve");
		c->plen = (size_t)BN_num_bytes(c->p);
		c->nlen = (size_t)BN_num_bytes(c->n);
		c->nbits = BN_num_bits(c->n);
		c->ptlen = 1 + 2 * c->plen;
		c->max_raw = mr[i]; c->max_asn1 = ma[i];
		mpz_init(c->zp); mpz_init(c->zb); mpz_init(c->zsq);
		bn2mpz(c->zp, c->p); bn2mpz(c->zb, c->b);
		mpz_add_ui(c->zsq, c->zp, 1);
		mpz_fdiv_q_2exp(c->zsq, c->zsq, 2);
	}
}

static curve_t *
find_curve(const char *name)
{
	int i;
	for (i = 0; i < 3; i ++) if (!strcmp(curves[i].name, name)) return &curves[i];
	return NULL;
}

/* uniform-ish in [1, n-1] */
static void
rand_scalar(BIGNUM *k, const curve_t *c)
{
	unsigned char tmp[80];
	BIGNUM *nm1 = BN_new();
	vf_bytes(&rng, tmp, c->nlen + 8);
	BN_bin2bn(tmp, (int)(c->nlen + 8), k);
	BN_copy(nm1, c->n); BN_sub_word(nm1, 1);
	BN_mod(k, k, nm1, bctx);
	BN_add_word(k, 1);
	BN_free(nm1);
}

static void
pt_encode(const curve_t *c, const EC_POINT *P, unsigned char *buf)
{
	size_t l = EC_POINT_point2oct(c->g, P, POINT_CONVERSION_UNCOMPRESSED, buf, c->ptlen, bctx);
	HASSERT(l == c->ptlen, "point2oct");
}

/* NULL when the encoding is not a valid uncompressed point of the curve */
static EC_POINT *
pt_decode(const curve_t *c, const unsigned char *buf, size_t len)
{
	EC_POINT *P;
	if (len != c->ptlen || buf[0] != 0x04) return NULL;
	P = EC_POINT_new(c->g);
	if (EC_POINT_oct2point(c->g, P, buf, len, bctx) != 1) {
		ERR_clear_error();
		EC_POINT_free(P);
		return NULL;
	}
	if (EC_POINT_is_at_infinity(c->g, P)) { EC_POINT_free(P); return NULL; }
	return P;
}

/* out = k*P ; returns 0 when the result is the point at infinity */
static int
ref_mul(const curve_t *c, unsigned char *out, const EC_POINT *P, const BIGNUM *k)
{
	EC_POINT *R = EC_POINT_new(c->g);
	int ok = 1;
	HASSERT(EC_POINT_mul(c->g, R, NULL, P, k, bctx) == 1, "EC_POINT_mul");
	if (EC_POINT_is_at_infinity(c->g, R)) ok = 0; else pt_encode(c, R, out);
	EC_POINT_free(R);
	return ok;
}

/* out = x*A + y*B with EC_POINT_add; 0 when infinity */
static int
ref_muladd(const curve_t *c, unsigned char *out, const EC_POINT *A, const BIGNUM *x,
	const EC_POINT *B, const BIGNUM *y)
{
	EC_POINT *R1 = EC_POINT_new(c->g), *R2 = EC_POINT_new(c->g);
	int ok = 1;
	HASSERT(EC_POINT_mul(c->g, R1, NULL, A, x, bctx) == 1, "EC_POINT_mul1");
	HASSERT(EC_POINT_mul(c->g, R2, NULL, B, y, bctx) == 1, "EC_POINT_mul2");
	HASSERT(EC_POINT_add(c->g, R1, R1, R2, bctx) == 1, "EC_POINT_add");
	if (EC_POINT_is_at_infinity(c->g, R1)) ok = 0; else pt_encode(c, R1, out);
	EC_POINT_free(R1); EC_POINT_free(R2);
	return ok;
}

/* random point built from a random x with GMP (y = sqrt(x^3-3x+b)); when
 * want_on == 0 returns an x for which no y exists together with a random y */
static void
gmp_point(const curve_t *c, unsigned char *buf, int want_on)
{
	mpz_t x, r, y;
	unsigned char tmp[80];
	mpz_init(x); mpz_init(r); mpz_init(y);
	for (;;) {
		int leg;
		vf_bytes(&rng, tmp, c->plen + 8);
		mpz_import(x, c->plen + 8, 1, 1, 1, 0, tmp);
		mpz_mod(x, x, c->zp);
		mpz_powm_ui(r, x, 3, c->zp);
		mpz_submul_ui(r, x, 3);
		mpz_add(r, r, c->zb);
		mpz_mod(r, r, c->zp);
		leg = mpz_legendre(r, c->zp);
		if (want_on && leg == 1) {
			mpz_powm(y, r, c->zsq, c->zp);
			if (vf_u32(&rng) & 1) mpz_sub(y, c->zp, y);
			break;
		}
		if (!want_on && leg == -1) {
			/* y^2 = -(rhs): a point of the quadratic twist */
			mpz_sub(r, c->zp, r);
			mpz_powm(y, r, c->zsq, c->zp);
			break;
		}
	}
	buf[0] = 0x04;
	mpz2pad(buf + 1, c->plen, x);
	mpz2pad(buf + 1 + c->plen, c->plen, y);
	mpz_clear(x); mpz_clear(r); mpz_clear(y);
}

/* ================================================================== */
/* Curve25519 reference: RFC 7748 section 5, with GMP */

static mpz_t z25519_p;

static void
init_25519(void)
{
	mpz_init(z25519_p);
	mpz_ui_pow_ui(z25519_p, 2, 255);
	mpz_sub_ui(z25519_p, z25519_p, 19);
}

static void
mpz_cswap(int swap, mpz_t a, mpz_t b)
{
	if (swap) mpz_swap(a, b);
}

/* k, u, out: 32 bytes little-endian as in the RFC */
static void
ref_x25519(unsigned char *out, const unsigned char *k_le, const unsigned char *u_le)
{
	unsigned char e[32], ub[32];
	mpz_t x1, x2, z2, x3, z3, A, AA, B, BB, E, C, D, DA, CB, t;
	int i, swap = 0;
	size_t cnt;

	memcpy(e, k_le, 32);
	e[0] &= 248; e[31] &= 127; e[31] |= 64;
	memcpy(ub, u_le, 32);
	ub[31] &= 0x7F;
	mpz_inits(x1, x2, z2, x3, z3, A, AA, B, BB, E, C, D, DA, CB, t, NULL);
	mpz_import(x1, 32, -1, 1, -1, 0, ub);
	mpz_mod(x1, x1, z25519_p);
	mpz_set_ui(x2, 1); mpz_set_ui(z2, 0);
	mpz_set(x3, x1); mpz_set_ui(z3, 1);
	for (i = 254; i >= 0; i --) {
		int kt = (e[i >> 3] >> (i & 7)) & 1;
		swap ^= kt;
		mpz_cswap(swap, x2, x3);
		mpz_cswap(swap, z2, z3);
		swap = kt;
		mpz_add(A, x2, z2); mpz_mod(A, A, z25519_p);
		mpz_mul(AA, A, A); mpz_mod(AA, AA, z25519_p);
		mpz_sub(B, x2, z2); mpz_mod(B, B, z25519_p);
		mpz_mul(BB, B, B); mpz_mod(BB, BB, z25519_p);
		mpz_sub(E, AA, BB); mpz_mod(E, E, z25519_p);
		mpz_add(C, x3, z3); mpz_mod(C, C, z25519_p);
		mpz_sub(D, x3, z3); mpz_mod(D, D, z25519_p);
		mpz_mul(DA, D, A); mpz_mod(DA, DA, z25519_p);
		mpz_mul(CB, C, B); mpz_mod(CB, CB, z25519_p);
		mpz_add(t, DA, CB); mpz_mul(x3, t, t); mpz_mod(x3, x3, z25519_p);
		mpz_sub(t, DA, CB); mpz_mul(t, t, t); mpz_mod(t, t, z25519_p);
		mpz_mul(z3, x1, t); mpz_mod(z3, z3, z25519_p);
		mpz_mul(x2, AA, BB); mpz_mod(x2, x2, z25519_p);
		mpz_mul_ui(t, E, 121665); mpz_add(t, t, AA); mpz_mod(t, t, z25519_p);
		mpz_mul(z2, E, t); mpz_mod(z2, z2, z25519_p);
	}
	mpz_cswap(swap, x2, x3);
	mpz_cswap(swap, z2, z3);
	mpz_sub_ui(t, z25519_p, 2);
	mpz_powm(t, z2, t, z25519_p);
	mpz_mul(x2, x2, t); mpz_mod(x2, x2, z25519_p);
	memset(out, 0, 32);
	cnt = 0;
	if (mpz_sgn(x2) != 0) mpz_export(out, &cnt, -1, 1, -1, 0, x2);
	HASSERT(cnt <= 32, "x25519-export");
	mpz_clears(x1, x2, z2, x3, z3, A, AA, B, BB, E, C, D, DA, CB, t, NULL);
}

/* 1 when u (masked, reduced) is the abscissa of a point of the curve itself
 * (not of the twist) */
static int
c25519_on_curve(const unsigned char *u_le)
{
	unsigned char ub[32];
	mpz_t u, r, t;
	int leg;
	memcpy(ub, u_le, 32); ub[31] &= 0x7F;
	mpz_inits(u, r, t, NULL);
	mpz_import(u, 32, -1, 1, -1, 0, ub);
	mpz_mod(u, u, z25519_p);
	mpz_mul(r, u, u); mpz_mul(r, r, u);
	mpz_mul(t, u, u); mpz_mul_ui(t, t, 486662);
	mpz_add(r, r, t); mpz_add(r, r, u); mpz_mod(r, r, z25519_p);
	leg = mpz_sgn(r) == 0 ? 1 : mpz_legendre(r, z25519_p);
	mpz_clears(u, r, t, NULL);
	return leg == 1;
}

/* ================================================================== */
/* hashes, RFC 6979, reference ECDSA */

#define NHASH 5
static const br_hash_class *hclass[NHASH] = {
	&br_sha1_vtable, &br_sha224_vtable, &br_sha256_vtable, &br_sha384_vtable, &br_sha512_vtable
};
static const char *hname[NHASH] = { "sha1", "sha224", "sha256", "sha384", "sha512" };
static const size_t hlen_of[NHASH] = { 20, 28, 32, 48, 64 };

static const EVP_MD *
hevp(int h)
{
	switch (h) {
	case 0: return EVP_sha1();
	case 1: return EVP_sha224();
	case 2: return EVP_sha256();
	case 3: return EVP_sha384();
	default: return EVP_sha512();
	}
}

/* bits2int of RFC 6979 2.3.2 / FIPS 186-4 6.4: leftmost min(8*len, qlen) bits */
static void
ref_bits2int(BIGNUM *e, const unsigned char *h, size_t len, int qbits)
{
	static const unsigned char zero[1] = { 0 };
	BN_bin2bn(len ? h : zero, (int)len, e);
	if ((int)(8 * len) > qbits) BN_rshift(e, e, (int)(8 * len) - qbits);
}

static void
hmac1(const EVP_MD *md, const unsigned char *key, size_t klen,
	const unsigned char *data, size_t dlen, unsigned char *out)
{
	unsigned int ol = 0;
	HASSERT(HMAC(md, key, (int)klen, data, dlen, out, &ol) != NULL, "HMAC");
}

/* RFC 6979 section 3.2; the candidate number `skip` (0 = first admissible) */
static void
ref_rfc6979_k(BIGNUM *k, const curve_t *c, const BIGNUM *d, int h, const unsigned char *hv)
{
	const EVP_MD *md = hevp(h);
	size_t hl = hlen_of[h], rl = c->nlen, tl;
	unsigned char V[64], K[64], buf[64 + 1 + 2 * 66], T[66 + 64];
	BIGNUM *e = BN_new();

	ref_bits2int(e, hv, hl, c->nbits);
	BN_mod(e, e, c->n, bctx);
	memset(V, 0x01, hl);
	memset(K, 0x00, hl);
	/* d */
	memcpy(buf, V, hl); buf[hl] = 0x00;
	BN_bn2binpad(d, buf + hl + 1, (int)rl);
	BN_bn2binpad(e, buf + hl + 1 + rl, (int)rl);
	hmac1(md, K, hl, buf, hl + 1 + 2 * rl, K);
	/* e */
	hmac1(md, K, hl, V, hl, V);
	/* f */
	memcpy(buf, V, hl); buf[hl] = 0x01;
	hmac1(md, K, hl, buf, hl + 1 + 2 * rl, K);
	/* g */
	hmac1(md, K, hl, V, hl, V);
	for (;;) {
		tl = 0;
		while (8 * tl < (size_t)c->nbits) {
			hmac1(md, K, hl, V, hl, V);
			memcpy(T + tl, V, hl);
			tl += hl;
		}
		ref_bits2int(k, T, tl, c->nbits);
		if (!BN_is_zero(k) && BN_cmp(k, c->n) < 0) break;
		memcpy(buf, V, hl); buf[hl] = 0x00;
		hmac1(md, K, hl, buf, hl + 1, K);
		hmac1(md, K, hl, V, hl, V);
		vf_stat("ref_rfc6979_retries", 1);
	}
	BN_free(e);
}

/* textbook signature with a given nonce; 0 when r or s would be 0 */
static int
ref_sign_k(const curve_t *c, BIGNUM *r, BIGNUM *s, const BIGNUM *d, const BIGNUM *k,
	const unsigned char *hv, size_t hl)
{
	EC_POINT *R = EC_POINT_new(c->g);
	BIGNUM *e = BN_new(), *x = BN_new(), *ki = BN_new();
	int ok = 0;
	HASSERT(EC_POINT_mul(c->g, R, k, NULL, NULL, bctx) == 1, "kG");
	HASSERT(EC_POINT_get_affine_coordinates(c->g, R, x, NULL, bctx) == 1, "affine");
	BN_nnmod(r, x, c->n, bctx);
	if (BN_is_zero(r)) goto done;
	ref_bits2int(e, hv, hl, c->nbits);
	HASSERT(BN_mod_inverse(ki, k, c->n, bctx) != NULL, "kinv");
	BN_mod_mul(s, r, d, c->n, bctx);
	BN_mod_add(s, s, e, c->n, bctx);
	BN_mod_mul(s, s, ki, c->n, bctx);
	if (BN_is_zero(s)) goto done;
	ok = 1;
done:
	EC_POINT_free(R); BN_free(e); BN_free(x); BN_free(ki);
	return ok;
}

/* textbook verification (SEC1 4.1.4) on integers */
static int
ref_verify_bn(const curve_t *c, const EC_POINT *Q, const unsigned char *hv, size_t hl,
	const BIGNUM *r, const BIGNUM *s)
{
	BIGNUM *e, *w, *u1, *u2, *x;
	EC_POINT *R;
	int ok = 0;
	if (BN_is_zero(r) || BN_is_negative(r) || BN_cmp(r, c->n) >= 0) return 0;
	if (BN_is_zero(s) || BN_is_negative(s) || BN_cmp(s, c->n) >= 0) return 0;
	e = BN_new(); w = BN_new(); u1 = BN_new(); u2 = BN_new(); x = BN_new();
	R = EC_POINT_new(c->g);
	ref_bits2int(e, hv, hl, c->nbits);
	HASSERT(BN_mod_inverse(w, s, c->n, bctx) != NULL, "sinv");
	BN_mod_mul(u1, e, w, c->n, bctx);
	BN_mod_mul(u2, r, w, c->n, bctx);
	HASSERT(EC_POINT_mul(c->g, R, u1, Q, u2, bctx) == 1, "u1G+u2Q");
	if (!EC_POINT_is_at_infinity(c->g, R)) {
		HASSERT(EC_POINT_get_affine_coordinates(c->g, R, x, NULL, bctx) == 1, "affine2");
		BN_nnmod(x, x, c->n, bctx);
		ok = BN_cmp(x, r) == 0;
	}
	BN_free(e); BN_free(w); BN_free(u1); BN_free(u2); BN_free(x); EC_POINT_free(R);
	return ok;
}

/* OpenSSL's verdict; the textbook verifier must agree or the harness stops
 * (then neither is trusted) */
static int
ref_verify(const curve_t *c, const EC_POINT *Q, const unsigned char *hv, size_t hl,
	const BIGNUM *r, const BIGNUM *s)
{
	static const unsigned char zero[1] = { 0 };
	EC_KEY *key = EC_KEY_new();
	ECDSA_SIG *sig = ECDSA_SIG_new();
	int v, w;
	HASSERT(EC_KEY_set_group(key, c->g) == 1, "set_group");
	HASSERT(EC_KEY_set_public_key(key, Q) == 1, "set_pub");
	HASSERT(ECDSA_SIG_set0(sig, BN_dup(r), BN_dup(s)) == 1, "sig_set0");
	v = ECDSA_do_verify(hl ? hv : zero, (int)hl, sig, key);
	ERR_clear_error();
	ECDSA_SIG_free(sig);
	EC_KEY_free(key);
	w = ref_verify_bn(c, Q, hv, hl, r, s);
	vf_stat("ref_verify_calls", 1);
	if ((v == 1) != (w == 1)) {
		fprintf(stderr, "HARNESS_ASSERT reference-verifiers-disagree openssl=%d textbook=%d hl=%zu\n", v, w, hl);
		exit(3);
	}
	return v == 1;
}

/* canonical DER of (r, s), r, s >= 0 */
static size_t
ref_der(unsigned char *out, size_t max, const BIGNUM *r, const BIGNUM *s)
{
	ECDSA_SIG *sig = ECDSA_SIG_new();
	unsigned char *p = out;
	int l;
	HASSERT(ECDSA_SIG_set0(sig, BN_dup(r), BN_dup(s)) == 1, "sig_set0b");
	l = i2d_ECDSA_SIG(sig, NULL);
	HASSERT(l > 0 && (size_t)l <= max, "i2d-size");
	l = i2d_ECDSA_SIG(sig, &p);
	ECDSA_SIG_free(sig);
	return (size_t)l;
}

/* ================================================================== */
/* library call wrappers: every object in an exact-size heap block */

static uint32_t
call_mul(const br_ec_impl *im, unsigned char *out, const unsigned char *G, size_t Glen,
	const unsigned char *x, size_t xlen, int curve)
{
	unsigned char *g = vf_dup(G, Glen), *xx = vf_dup(x, xlen);
	uint32_t r = im->mul(g, Glen, xx, xlen, curve);
	if (out) memcpy(out, g, Glen);
	free(g); free(xx);
	vf_stat("lib_calls", 1);
	return r;
}

static size_t
call_mulgen(const br_ec_impl *im, unsigned char *out, size_t outlen,
	const unsigned char *x, size_t xlen, int curve)
{
	unsigned char *R = malloc(outlen), *xx = vf_dup(x, xlen);
	size_t r;
	memset(R, 0xA5, outlen);
	r = im->mulgen(R, xx, xlen, curve);
	memcpy(out, R, outlen);
	free(R); free(xx);
	vf_stat("lib_calls", 1);
	return r;
}

static uint32_t
call_muladd(const br_ec_impl *im, unsigned char *out, const unsigned char *A, const unsigned char *B,
	size_t len, const unsigned char *x, size_t xlen, const unsigned char *y, size_t ylen, int curve)
{
	unsigned char *a = vf_dup(A, len), *b = B ? vf_dup(B, len) : NULL;
	unsigned char *xx = vf_dup(x, xlen), *yy = vf_dup(y, ylen);
	uint32_t r = im->muladd(a, b, len, xx, xlen, yy, ylen, curve);
	if (out) memcpy(out, a, len);
	free(a); free(b); free(xx); free(yy);
	vf_stat("lib_calls", 1);
	return r;
}

/* ================================================================== */
/* scalar encodings */

/* kind 0: order length; 1: minimal; 2: order length + 1..8 zero bytes;
 * 3: minimal + 1..3 zero bytes.  returns the length */
static size_t
enc_scalar(unsigned char *dst, const BIGNUM *k, const curve_t *c, int kind)
{
	size_t ml = (size_t)BN_num_bytes(k), l;
	if (ml == 0) ml = 1;
	switch (kind) {
	case 0: l = c->nlen; break;
	case 1: l = ml; break;
	case 2: l = c->nlen + 1 + vf_below(&rng, 8); break;
	default: l = ml + 1 + vf_below(&rng, 3); break;
	}
	if (l < ml) l = ml;
	BN_bn2binpad(k, dst, (int)l);
	return l;
}

static int
pick_kind(void)
{
	uint32_t v = vf_below(&rng, 10);
	if (v < 5) return 0;
	if (v < 7) return 1;
	if (v < 9) return 2;
	return 3;
}

/* random scalar in [1, n-1]; class 0 full-size random, 1 short (random byte
 * length below the order length), 2 sparse / structured */
static void
gen_scalar(BIGNUM *k, const curve_t *c)
{
	uint32_t v = vf_below(&rng, 10);
	unsigned char tmp[80];
	if (v < 6) {
		rand_scalar(k, c);
	} else if (v < 8) {
		size_t l = 1 + vf_below(&rng, (uint32_t)c->nlen - 1);
		vf_bytes(&rng, tmp, l);
		BN_bin2bn(tmp, (int)l, k);
		if (BN_is_zero(k)) BN_one(k);
	} else {
		/* structured: repeated byte or few bits set */
		size_t l = c->nlen, i;
		if (v == 8) {
			static const unsigned char pat[] = { 0x11, 0x22, 0x33, 0x55, 0xAA, 0xFF, 0x0F, 0xF0, 0x01, 0x80, 0xCC, 0x44, 0x77, 0xEE, 0xDD, 0x99, 0xBB, 0x66, 0x88 };
			memset(tmp, pat[vf_below(&rng, sizeof pat)], l);
		} else {
			memset(tmp, 0, l);
			for (i = 0; i < 3; i ++) {
				uint32_t b = vf_below(&rng, (uint32_t)c->nbits - 1);
				tmp[l - 1 - (b >> 3)] |= (unsigned char)(1u << (b & 7));
			}
		}
		BN_bin2bn(tmp, (int)l, k);
		BN_mod(k, k, c->n, bctx);
		if (BN_is_zero(k)) BN_one(k);
	}
}

static void
rand_point(const curve_t *c, unsigned char *buf, EC_POINT **P)
{
	if (vf_u32(&rng) & 1) {
		BIGNUM *t = BN_new();
		EC_POINT *R = EC_POINT_new(c->g);
		rand_scalar(t, c);
		HASSERT(EC_POINT_mul(c->g, R, t, NULL, NULL, bctx) == 1, "tG");
		pt_encode(c, R, buf);
		EC_POINT_free(R); BN_free(t);
	} else {
		gmp_point(c, buf, 1);
	}
	*P = pt_decode(c, buf, c->ptlen);
	HASSERT(*P != NULL, "rand_point-valid");
}

/* ================================================================== */
/* NIST arithmetic */

static char keybuf[160];
static const char *
mkkey(const char *mon, const impl_t *im, const char *curve)
{
	snprintf(keybuf, sizeof keybuf, "C11:%s:%s.%s", mon, im->name, curve);
	return keybuf;
}

static const char *
mkkeyc(const char *mon, const impl_t *im, const char *curve, const char *cls)
{
	snprintf(keybuf, sizeof keybuf, "C11:%s:%s.%s:%s", mon, im->name, curve, cls);
	return keybuf;
}

static void
nist_consts(const impl_t *im, curve_t *c)
{
	size_t gl = 0, ol = 0, xl = 0, xo;
	const unsigned char *g = im->impl->generator(c->id, &gl);
	const unsigned char *o = im->impl->order(c->id, &ol);
	unsigned char ref[140];
	BIGNUM *t = BN_new();
	pt_encode(c, EC_GROUP_get0_generator(c->g), ref);
	vf_stat("cmp_const", 3);
	if (gl != c->ptlen || memcmp(g, ref, gl) != 0) {
		VIOL(mkkey("const-generator", im, c->name), "generator() differs from the curve generator",
			"got=%s", vf_hexs(g, gl < 140 ? gl : 140));
	}
	BN_bin2bn(o, (int)ol, t);
	if (BN_cmp(t, c->n) != 0) {
		VIOL(mkkey("const-order", im, c->name), "order() differs from the subgroup order",
			"got=%s", vf_hexs(o, ol < 80 ? ol : 80));
	}
	vf_distinct("order_len", "%s %zu", c->name, ol);
	xo = im->impl->xoff(c->id, &xl);
	if (xo != 1 || xl != c->plen) {
		VIOL(mkkey("const-xoff", im, c->name), "xoff() is not (1, field length)", "xoff=%zu xlen=%zu", xo, xl);
	}
	BN_free(t);
}

/* one mul / mulgen comparison; P == NULL means generator through mulgen */
static void
nist_mul_case(const impl_t *im, curve_t *c, const unsigned char *pbuf, const EC_POINT *P,
	const BIGNUM *k, int kind, const char *cls, long long idx)
{
	unsigned char kb[96], got[140], ref[140];
	size_t kl = enc_scalar(kb, k, c, kind);
	int rok;

	if (P == NULL) {
		size_t rl;
		rok = ref_mul(c, ref, EC_GROUP_get0_generator(c->g), k);
		HASSERT(rok, "ref-mulgen-inf");
		rl = call_mulgen(im->impl, got, c->ptlen, kb, kl, c->id);
		vf_stat("cmp_mulgen", 1);
		vf_distinct("arith_cfg", "%s %s mulgen %s kind%d", im->name, c->name, cls, kind);
		if (rl != c->ptlen || memcmp(got, ref, c->ptlen) != 0) {
			VIOL(mkkey("mulgen-result", im, c->name), "mulgen(k) differs from EC_POINT_mul",
				"seed=%lld i=%lld cls=%s k=%s ret=%zu got=%s want=%s", g_seed, idx, cls,
				vf_hexs(kb, kl), rl, vf_hexs(got, c->ptlen), vf_hexs(ref, c->ptlen));
		}
		vf_sample("{\"op\":\"mulgen\",\"impl\":\"%s\",\"curve\":\"%s\",\"k\":\"%s\",\"result\":\"%s\"}",
			im->name, c->name, vf_hexs(kb, kl), vf_hexs(got, c->ptlen));
	} else {
		uint32_t r;
		rok = ref_mul(c, ref, P, k);
		HASSERT(rok, "ref-mul-inf");
		r = call_mul(im->impl, got, pbuf, c->ptlen, kb, kl, c->id);
		vf_distinct("arith_cfg", "%s %s mul %s kind%d", im->name, c->name, cls, kind);
		if (r == 0 && kl > c->nlen) {
			/* value in range but encoding longer than the order: the
			 * documentation does not say whether that is admissible */
			vf_stat("unjudged_mul_long_scalar_rejected", 1);
			vf_distinct("unjudged_cfg", "%s %s mul long-scalar-rejected", im->name, c->name);
			return;
		}
		vf_stat("cmp_mul", 1);
		if (!strncmp(cls, "ext-", 4)) vf_stat("cmp_mul_extreme_point", 1);
		if (r != 1) {
			VIOL(mkkey("mul-valid-rejected", im, c->name), "mul() on a valid point and in-range scalar did not return 1",
				"seed=%lld i=%lld cls=%s ret=%u P=%s k=%s", g_seed, idx, cls, r, vf_hexs(pbuf, c->ptlen), vf_hexs(kb, kl));
		} else if (memcmp(got, ref, c->ptlen) != 0) {
			VIOL(mkkey("mul-result", im, c->name), "mul(P,k) differs from EC_POINT_mul",
				"seed=%lld i=%lld cls=%s P=%s k=%s got=%s want=%s", g_seed, idx, cls,
				vf_hexs(pbuf, c->ptlen), vf_hexs(kb, kl), vf_hexs(got, c->ptlen), vf_hexs(ref, c->ptlen));
		}
	}
}

/* muladd with the reference verdict; B == NULL -> generator */
static void
nist_muladd_case(const impl_t *im, curve_t *c, const unsigned char *abuf, const EC_POINT *A,
	const unsigned char *bbuf, const EC_POINT *B, const BIGNUM *x, const BIGNUM *y,
	const char *cls, long long idx)
{
	unsigned char xb[96], yb[96], got[140], ref[140];
	int kx = pick_kind(), ky = pick_kind();
	size_t xl, yl;
	int rok;
	uint32_t r;

	if (kx >= 2 && (vf_u32(&rng) & 1)) kx = 0;
	if (ky >= 2 && (vf_u32(&rng) & 1)) ky = 0;
	xl = enc_scalar(xb, x, c, kx);
	yl = enc_scalar(yb, y, c, ky);
	if (BN_is_zero(x) || BN_is_zero(y)) {
		/*
		 * bearssl_ec.h (muladd): "If either integer is zero, then an
		 * error is reported".
		 */
		r = call_muladd(im->impl, got, abuf, bbuf, c->ptlen, xb, xl, yb, yl, c->id);
		vf_stat("cmp_muladd", 1);
		vf_stat("cmp_muladd_must_fail", 1);
		vf_stat("cmp_muladd_zero_multiplier", 1);
		vf_distinct("arith_cfg", "%s %s muladd %s %s", im->name, c->name, cls, bbuf ? "B" : "G");
		if (r != 0) {
			VIOL(mkkey("muladd-zero-accepted", im, c->name),
				"muladd() with a zero multiplier did not report the documented error",
				"seed=%lld i=%lld cls=%s ret=%u A=%s B=%s x=%s y=%s got=%s", g_seed, idx, cls, r,
				vf_hexs(abuf, c->ptlen), bbuf ? vf_hexs(bbuf, c->ptlen) : "G", vf_hexs(xb, xl), vf_hexs(yb, yl), vf_hexs(got, c->ptlen));
		}
		return;
	} else {
		rok = ref_muladd(c, ref, A, x, B ? B : EC_GROUP_get0_generator(c->g), y);
	}
	r = call_muladd(im->impl, got, abuf, bbuf, c->ptlen, xb, xl, yb, yl, c->id);
	vf_distinct("arith_cfg", "%s %s muladd %s %s", im->name, c->name, cls, bbuf ? "B" : "G");
	if (r == 0 && rok && (xl > c->nlen || yl > c->nlen)) {
		vf_stat("unjudged_muladd_long_scalar_rejected", 1);
		vf_distinct("unjudged_cfg", "%s %s muladd long-scalar-rejected", im->name, c->name);
		return;
	}
	vf_stat("cmp_muladd", 1);
	if (!strncmp(cls, "ext-", 4)) vf_stat("cmp_muladd_extreme_point", 1);
	if (!rok) {
		vf_stat("cmp_muladd_must_fail", 1);
		if (r != 0) {
			VIOL(mkkey("muladd-infinity-accepted", im, c->name),
				"muladd() returned success although the result is the point at infinity",
				"seed=%lld i=%lld cls=%s ret=%u A=%s B=%s x=%s y=%s", g_seed, idx, cls, r,
				vf_hexs(abuf, c->ptlen), bbuf ? vf_hexs(bbuf, c->ptlen) : "G", vf_hexs(xb, xl), vf_hexs(yb, yl));
		}
		return;
	}
	if (r != 1) {
		VIOL(mkkey("muladd-valid-rejected", im, c->name), "muladd() on valid operands did not return 1",
			"seed=%lld i=%lld cls=%s ret=%u A=%s B=%s x=%s y=%s", g_seed, idx, cls, r,
			vf_hexs(abuf, c->ptlen), bbuf ? vf_hexs(bbuf, c->ptlen) : "G", vf_hexs(xb, xl), vf_hexs(yb, yl));
	} else if (memcmp(got, ref, c->ptlen) != 0) {
		VIOL(mkkey("muladd-result", im, c->name), "muladd() differs from x*A+y*B computed with EC_POINT_add",
			"seed=%lld i=%lld cls=%s A=%s B=%s x=%s y=%s got=%s want=%s", g_seed, idx, cls,
			vf_hexs(abuf, c->ptlen), bbuf ? vf_hexs(bbuf, c->ptlen) : "G", vf_hexs(xb, xl), vf_hexs(yb, yl),
			vf_hexs(got, c->ptlen), vf_hexs(ref, c->ptlen));
	}
}

/* invalid encodings.  Produces an encoding in out (capacity 300) that the
 * reference says is NOT a valid uncompressed point; returns its length and
 * the class name, or (size_t)-1 when the class is not applicable. */
#define N_INVALID 22
static size_t
make_invalid(const curve_t *c, int cls, const unsigned char *valid, unsigned char *out, const char **name)
{
	size_t L = c->ptlen, pl = c->plen, l = L;
	unsigned char tmp[80];
	BIGNUM *t;
	memcpy(out, valid, L);
	switch (cls) {
	case 0: *name = "len-1"; l = L - 1; break;
	case 1: *name = "len+1"; out[L] = (unsigned char)vf_u32(&rng); l = L + 1; break;
	case 2: *name = "len0"; l = 0; break;
	case 3: *name = "compressed"; out[0] = (unsigned char)(2 + (valid[L - 1] & 1)); l = 1 + pl; break;
	case 4: *name = "infinity-1byte"; out[0] = 0; l = 1; break;
	case 5: *name = "prefix00"; out[0] = 0x00; break;
	case 6: *name = "prefix02"; out[0] = 0x02; break;
	case 7: *name = "prefix03"; out[0] = 0x03; break;
	case 8: *name = "prefix-hybrid"; out[0] = (unsigned char)(6 + (valid[L - 1] & 1)); break;
	case 9: *name = "prefix-hybrid-wrongparity"; out[0] = (unsigned char)(7 - (valid[L - 1] & 1)); break;
	case 10: *name = "prefix-random";
		do { out[0] = (unsigned char)vf_u32(&rng); } while (out[0] == 4);
		break;
	case 11: case 12: {
		/* coordinate + p when it fits (congruent to a valid point), else a
		 * random value in [p, 2^(8*plen)) */
		unsigned char *co = out + 1 + (cls == 12 ? pl : 0);
		*name = cls == 11 ? "x-ge-p" : "y-ge-p";
		t = BN_new();
		BN_bin2bn(co, (int)pl, t);
		BN_add(t, t, c->p);
		if ((size_t)BN_num_bytes(t) <= pl) {
			BN_bn2binpad(t, co, (int)pl);
			*name = cls == 11 ? "x-plus-p" : "y-plus-p";
		} else {
			int k;
			for (k = 0; k < 1000; k ++) {
				vf_bytes(&rng, tmp, pl);
				/* force the top bits up so that the value is >= p quickly */
				tmp[0] |= 0xFF; if (pl > 4) { tmp[1] |= 0xFF; tmp[2] |= 0xFF; tmp[3] |= 0xFF; }
				BN_bin2bn(tmp, (int)pl, t);
				if (BN_cmp(t, c->p) >= 0) break;
			}
			if (BN_cmp(t, c->p) < 0) { BN_copy(t, c->p); BN_bn2binpad(t, tmp, (int)pl); }
			memcpy(co, tmp, pl);
		}
		BN_free(t);
		break;
	}
	case 13: *name = "bitflip-x"; { uint32_t b = vf_below(&rng, (uint32_t)(8 * pl)); out[1 + (b >> 3)] ^= (unsigned char)(1u << (b & 7)); } break;
	case 14: *name = "bitflip-y"; { uint32_t b = vf_below(&rng, (uint32_t)(8 * pl)); out[1 + pl + (b >> 3)] ^= (unsigned char)(1u << (b & 7)); } break;
	case 15: *name = "random-xy";
		vf_bytes(&rng, out + 1, 2 * pl);
		if (c->id == BR_EC_secp521r1) { out[1] &= 1; out[1 + pl] &= 1; }
		break;
	case 16: *name = "zero-xy"; memset(out + 1, 0, 2 * pl); break;
	case 17: *name = "swapped-xy"; memcpy(out + 1, valid + 1 + pl, pl); memcpy(out + 1 + pl, valid + 1, pl); break;
	case 18: *name = "twist"; gmp_point(c, out, 0); break;
	case 19: {
		/* x = p + x' with x' small and (x', y) on the curve: a point of the
		 * curve modulo p, but not a canonical encoding.  x' = 0 half of the time */
		mpz_t x, r, y;
		int k;
		mpz_inits(x, r, y, NULL);
		*name = "x-equals-p";
		mpz_set_ui(x, 0);
		if (vf_u32(&rng) & 1) { mpz_set_ui(x, vf_u32(&rng)); *name = "x-plus-p-small"; }
		for (k = 0; k < 200; k ++) {
			mpz_powm_ui(r, x, 3, c->zp);
			mpz_submul_ui(r, x, 3);
			mpz_add(r, r, c->zb);
			mpz_mod(r, r, c->zp);
			if (mpz_legendre(r, c->zp) == 1) break;
			mpz_add_ui(x, x, 1);
			*name = "x-plus-p-small";
		}
		if (k == 200) { mpz_clears(x, r, y, NULL); return (size_t)-1; }
		mpz_powm(y, r, c->zsq, c->zp);
		mpz_add(x, x, c->zp);
		mpz2pad(out + 1, pl, x);
		mpz2pad(out + 1 + pl, pl, y);
		mpz_clears(x, r, y, NULL);
		break;
	}
	case 20: *name = "y-negated-plus1";
		/* y -> y+1 (off curve) */
		{ int i = (int)(L - 1); while (i > (int)pl && ++ out[i] == 0) i --; }
		break;
	default: *name = "len-half"; l = 1 + pl; break;
	}
	/* the reference must agree that it is invalid */
	if (l == L && out[0] == 0x04) {
		EC_POINT *P = pt_decode(c, out, l);
		if (P != NULL) { EC_POINT_free(P); return (size_t)-1; }
	}
	return l;
}

static void
nist_invalid_case(const impl_t *im, curve_t *c, long long idx)
{
	unsigned char vb[140], wb[140], bad[300], kb[96], yb[96];
	EC_POINT *P, *W;
	BIGNUM *k = BN_new(), *y = BN_new();
	const char *cn = "?";
	int cls = (int)vf_below(&rng, N_INVALID);
	size_t l, kl, yl;
	uint32_t r;
	int where;

	rand_point(c, vb, &P);
	rand_point(c, wb, &W);
	gen_scalar(k, c); gen_scalar(y, c);
	kl = enc_scalar(kb, k, c, 0);
	yl = enc_scalar(yb, y, c, 0);
	l = make_invalid(c, cls, vb, bad, &cn);
	if (l == (size_t)-1) { vf_stat("invalid_class_not_applicable", 1); goto done; }
	where = (int)vf_below(&rng, 3);
	vf_distinct("arith_cfg", "%s %s invalid %s op%d", im->name, c->name, cn, where);
	vf_stat("cmp_invalid_point", 1);
	if (where == 0) {
		r = call_mul(im->impl, NULL, bad, l, kb, kl, c->id);
		if (r != 0) {
			VIOL(mkkeyc("mul-invalid-accepted", im, c->name, cn), "mul() accepted an encoding that is not a valid uncompressed point",
				"seed=%lld i=%lld cls=%s ret=%u G=%s k=%s", g_seed, idx, cn, r, vf_hexs(bad, l), vf_hexs(kb, kl));
		}
	} else if (where == 1) {
		/* invalid A; B valid (or NULL).  len is the common length */
		int useg = (int)(vf_u32(&rng) & 1);
		if (l != c->ptlen) useg = 1;   /* B must have the common length */
		r = call_muladd(im->impl, NULL, bad, useg ? NULL : wb, l, kb, kl, yb, yl, c->id);
		if (r != 0) {
			VIOL(mkkeyc("muladd-invalid-accepted", im, c->name, cn), "muladd() accepted an invalid point A",
				"seed=%lld i=%lld cls=%s ret=%u A=%s x=%s y=%s", g_seed, idx, cn, r, vf_hexs(bad, l), vf_hexs(kb, kl), vf_hexs(yb, yl));
		}
	} else {
		/* invalid B: only meaningful when it has the common length */
		if (l != c->ptlen) {
			/* both with the wrong common length */
			unsigned char *a2 = malloc(l ? l : 1);
			memset(a2, 0, l ? l : 1);
			if (l) memcpy(a2, vb, l < c->ptlen ? l : c->ptlen);
			r = call_muladd(im->impl, NULL, a2, bad, l, kb, kl, yb, yl, c->id);
			free(a2);
		} else {
			r = call_muladd(im->impl, NULL, wb, bad, l, kb, kl, yb, yl, c->id);
		}
		if (r != 0) {
			VIOL(mkkeyc("muladd-invalid-accepted", im, c->name, cn), "muladd() accepted an invalid point B",
				"seed=%lld i=%lld cls=%s ret=%u B=%s x=%s y=%s", g_seed, idx, cn, r, vf_hexs(bad, l), vf_hexs(kb, kl), vf_hexs(yb, yl));
		}
	}
done:
	EC_POINT_free(P); EC_POINT_free(W); BN_free(k); BN_free(y);
}

/* enumerated special scalars: index -> k; returns 0 when idx is past the end */
static int
special_scalar(BIGNUM *k, const curve_t *c, long long idx, char *cls, size_t clen)
{
	int step = g_thorough ? 1 : 7;
	long long nb = (c->nbits - 1 + step - 1) / step;   /* exponents 1, 1+step, ... */
	if (idx < 12) {
		BN_copy(k, c->n);
		switch ((int)idx) {
		case 0: BN_one(k); break;
		case 1: BN_set_word(k, 2); break;
		case 2: BN_set_word(k, 3); break;
		case 3: BN_set_word(k, 4); break;
		case 4: BN_sub_word(k, 1); break;
		case 5: BN_sub_word(k, 2); break;
		case 6: BN_sub_word(k, 3); break;
		case 7: BN_sub_word(k, 1); BN_rshift1(k, k); break;
		case 8: BN_add_word(k, 1); BN_rshift1(k, k); break;
		case 9: BN_set_word(k, 15); break;
		case 10: BN_set_word(k, 16); break;
		default: BN_set_word(k, 0xFFFF); break;
		}
		snprintf(cls, clen, "special%d", (int)idx);
		return 1;
	}
	idx -= 12;
	if (idx < nb) {
		BN_zero(k);
		BN_set_bit(k, (int)(1 + idx * step));
		snprintf(cls, clen, "pow2");
		return 1;
	}
	idx -= nb;
	if (idx < nb) {
		/* 2^j - 1 */
		BN_zero(k);
		BN_set_bit(k, (int)(1 + idx * step));
		BN_sub_word(k, 1);
		snprintf(cls, clen, "pow2m1");
		return 1;
	}
	return 0;
}

/* valid points with extreme coordinates: x in {0..64}, {p-1..p-64}, 2^E + k and 2^E - k for the exponents E
 * at which the field prime has its terms (P-256: 224, 192, 96; P-384: 128, 96, 32; P-521: 512, 256, 64) -
 * whichever of those x have a y (GMP square root; the encoding is then checked by OpenSSL's on-curve test).
 * Quick tier: the first 2 / 1 on-curve values of each class; thorough: the first 16 / 6. */
typedef struct { unsigned char buf[140]; char cls[28]; } extpt;
static extpt ext_pts[1200];
static int n_ext;

static int
ext_try(const curve_t *c, const mpz_t x, const char *cls)
{
	mpz_t r, y;
	int ok = 0;
	if (mpz_sgn(x) < 0 || mpz_cmp(x, c->zp) >= 0 || n_ext >= (int)(sizeof ext_pts / sizeof ext_pts[0])) return 0;
	mpz_init(r); mpz_init(y);
	mpz_powm_ui(r, x, 3, c->zp);
	mpz_submul_ui(r, x, 3);
	mpz_add(r, r, c->zb);
	mpz_mod(r, r, c->zp);
	if (mpz_sgn(r) != 0 && mpz_legendre(r, c->zp) == 1) {
		extpt *e = &ext_pts[n_ext];
		EC_POINT *P;
		mpz_powm(y, r, c->zsq, c->zp);
		if (n_ext & 1) mpz_sub(y, c->zp, y);
		e->buf[0] = 0x04;
		mpz2pad(e->buf + 1, c->plen, x);
		mpz2pad(e->buf + 1 + c->plen, c->plen, y);
		P = pt_decode(c, e->buf, c->ptlen);
		HASSERT(P != NULL, "ext-point-not-on-curve");
		EC_POINT_free(P);
		snprintf(e->cls, sizeof e->cls, "%s", cls);
		n_ext ++;
		ok = 1;
	}
	mpz_clear(r); mpz_clear(y);
	return ok;
}

static void
ext_build(const curve_t *c)
{
	static const int EXPS[3][3] = { { 224, 192, 96 }, { 128, 96, 32 }, { 512, 256, 64 } };
	int ci = (int)(c - curves), e, k, got;
	int q2 = g_thorough ? 16 : 2, q1 = g_thorough ? 6 : 1;
	mpz_t x;
	char cls[28];
	mpz_init(x);
	n_ext = 0;
	for (k = 0, got = 0; k <= 64 && got < q2; k ++) { mpz_set_ui(x, (unsigned long)k); got += ext_try(c, x, "ext-small"); }
	for (k = 1, got = 0; k <= 64 && got < q2; k ++) { mpz_sub_ui(x, c->zp, (unsigned long)k); got += ext_try(c, x, "ext-p-k"); }
	for (e = 0; e < 3; e ++) {
		snprintf(cls, sizeof cls, "ext-2^%d+k", EXPS[ci][e]);
		for (k = 0, got = 0; k <= 32 && got < q1; k ++) {
			mpz_set_ui(x, 1); mpz_mul_2exp(x, x, (mp_bitcnt_t)EXPS[ci][e]); mpz_add_ui(x, x, (unsigned long)k);
			got += ext_try(c, x, cls);
		}
		snprintf(cls, sizeof cls, "ext-2^%d-k", EXPS[ci][e]);
		for (k = 1, got = 0; k <= 32 && got < q1; k ++) {
			mpz_set_ui(x, 1); mpz_mul_2exp(x, x, (mp_bitcnt_t)EXPS[ci][e]); mpz_sub_ui(x, x, (unsigned long)k);
			got += ext_try(c, x, cls);
		}
	}
	/* coordinates made of ones: 2^bits - 1 with one bit cleared (below p when the bit is high enough), minus a small
	   k until the value is the abscissa of a point: nearly every limb of every representation is at its maximum,
	   which is where the carry-propagation budgets of the multiplication routines are tightest */
	{
		int bits = (int)mpz_sizeinbase(c->zp, 2), j, step = g_thorough ? 7 : 37, want = g_thorough ? 24 : 4, tot = 0;
		for (j = bits - 2; j >= 0 && tot < want; j -= step) {
			mpz_set_ui(x, 1); mpz_mul_2exp(x, x, (mp_bitcnt_t)bits); mpz_sub_ui(x, x, 1);
			mpz_clrbit(x, (mp_bitcnt_t)j);
			if (mpz_cmp(x, c->zp) >= 0) continue;
			for (k = 0, got = 0; k <= 40 && !got; k ++) { got = ext_try(c, x, "ext-ones"); mpz_sub_ui(x, x, 1); }
			tot += got;
		}
	}
	mpz_clear(x);
}

static void
ext_case(const impl_t *im, curve_t *c, int e, long long idx)
{
	const extpt *ep = &ext_pts[e], *en = &ext_pts[(e + 1) % n_ext];
	EC_POINT *P = pt_decode(c, ep->buf, c->ptlen), *N = pt_decode(c, en->buf, c->ptlen), *Q = NULL;
	BIGNUM *S[4], *t = BN_new(), *u = BN_new();
	unsigned char qbuf[140];
	int j, rot = e & 3, nrun = g_thorough ? 2 : 1;
	HASSERT(P != NULL && N != NULL, "ext-decode");
	for (j = 0; j < 4; j ++) S[j] = BN_new();
	BN_one(S[0]); BN_set_word(S[1], 2);
	BN_copy(S[2], c->n); BN_sub_word(S[2], 1);
	rand_scalar(S[3], c);
	vf_distinct("ext_point", "%s %s", c->name, vf_hexs(ep->buf + 1, c->plen));
	for (j = 0; j < nrun; j ++) {
		int a = (rot + j) & 3;
		/* the point as the operand of mul, as A and as B of muladd */
		nist_mul_case(im, c, ep->buf, P, S[a], j ? pick_kind() : 0, ep->cls, idx);
		nist_mul_case(im, c, ep->buf, P, S[(a + 2) & 3], 1, ep->cls, idx);
		rand_scalar(t, c);
		nist_muladd_case(im, c, ep->buf, P, NULL, NULL, S[(a + 1) & 3], t, ep->cls, idx);
		rand_point(c, qbuf, &Q);
		rand_scalar(t, c);
		nist_muladd_case(im, c, qbuf, Q, ep->buf, P, t, S[(a + 3) & 3], ep->cls, idx);
		EC_POINT_free(Q); Q = NULL;
		/* two extreme points */
		rand_scalar(t, c); rand_scalar(u, c);
		nist_muladd_case(im, c, ep->buf, P, en->buf, N, j ? t : S[a], u, ep->cls, idx);
	}
	for (j = 0; j < 4; j ++) BN_free(S[j]);
	BN_free(t); BN_free(u);
	EC_POINT_free(P); EC_POINT_free(N);
}

static void
arith_nist(const impl_t *im, curve_t *c, long long cases)
{
	long long i, nspecial = 0;
	BIGNUM *k = BN_new(), *x = BN_new(), *y = BN_new(), *t = BN_new();
	char cls[32];
	unsigned char gbuf[140];

	if (g_worker == 0) nist_consts(im, c);
	pt_encode(c, EC_GROUP_get0_generator(c->g), gbuf);
	while (special_scalar(k, c, nspecial, cls, sizeof cls)) nspecial ++;

	for (i = 0; i < nspecial + cases; i ++) {
		unsigned char pbuf[140], qbuf[140];
		EC_POINT *P = NULL, *Q = NULL;
		if ((i % g_nworkers) != g_worker) continue;
		rng_case("arith", im->name, c->name, i);
		vf_stat("cases", 1);
		if (i < nspecial) {
			int which = (int)(i % 3);
			special_scalar(k, c, i, cls, sizeof cls);
			if (i < 12) {
				/* the named specials run on all three paths */
				rand_point(c, pbuf, &P);
				nist_mul_case(im, c, NULL, NULL, k, 0, cls, i);
				nist_mul_case(im, c, gbuf, EC_GROUP_get0_generator(c->g), k, 1, cls, i);
				nist_mul_case(im, c, pbuf, P, k, 0, cls, i);
			} else if (which == 0) {
				nist_mul_case(im, c, NULL, NULL, k, (int)(i & 1), cls, i);
			} else if (which == 1) {
				nist_mul_case(im, c, gbuf, EC_GROUP_get0_generator(c->g), k, (int)(i & 1), cls, i);
			} else {
				rand_point(c, pbuf, &P);
				nist_mul_case(im, c, pbuf, P, k, (int)(i & 1), cls, i);
			}
		} else {
			uint32_t op = vf_below(&rng, 100);
			if (op < 22) {
				rand_point(c, pbuf, &P);
				gen_scalar(k, c);
				nist_mul_case(im, c, pbuf, P, k, pick_kind(), "random", i);
			} else if (op < 36) {
				gen_scalar(k, c);
				nist_mul_case(im, c, NULL, NULL, k, pick_kind(), "random", i);
			} else if (op < 70) {
				uint32_t v = vf_below(&rng, 12);
				int useg = (int)(vf_u32(&rng) & 1);
				rand_point(c, pbuf, &P);
				gen_scalar(x, c); gen_scalar(y, c);
				switch (v) {
				case 0: case 1: case 2:
					/* independent points */
					if (useg) {
						nist_muladd_case(im, c, pbuf, P, NULL, NULL, x, y, "random", i);
					} else {
						rand_point(c, qbuf, &Q);
						nist_muladd_case(im, c, pbuf, P, qbuf, Q, x, y, "random", i);
					}
					break;
				case 3:
					/* A = B, x != y */
					nist_muladd_case(im, c, pbuf, P, pbuf, P, x, y, "A=B", i);
					break;
				case 4:
					/* A = B, x = y: the two products are equal (doubling) */
					nist_muladd_case(im, c, pbuf, P, pbuf, P, x, x, "A=B,x=y", i);
					break;
				case 5: {
					/* A = -B, x = y: infinity */
					EC_POINT *N = EC_POINT_dup(P, c->g);
					EC_POINT_invert(c->g, N, bctx);
					pt_encode(c, N, qbuf);
					nist_muladd_case(im, c, pbuf, P, qbuf, N, x, x, "A=-B,x=y", i);
					EC_POINT_free(N);
					break;
				}
				case 6: {
					/* A = B, x + y = n: infinity */
					BN_sub(y, c->n, x);
					nist_muladd_case(im, c, pbuf, P, pbuf, P, x, y, "A=B,x+y=n", i);
					break;
				}
				case 7: case 8: {
					/* B = t*A (or A = t*G with B = generator), x = +-y*t: equal or opposite products */
					int neg = (v == 8);
					gen_scalar(t, c);
					if (useg) {
						/* A = t*G, B = G (NULL): x*A = x*t*G ; choose y = +-x*t */
						EC_POINT_free(P);
						P = EC_POINT_new(c->g);
						EC_POINT_mul(c->g, P, t, NULL, NULL, bctx);
						pt_encode(c, P, pbuf);
						BN_mod_mul(y, x, t, c->n, bctx);
						if (neg) BN_sub(y, c->n, y);
						nist_muladd_case(im, c, pbuf, P, NULL, NULL, x, y, neg ? "xA=-yG" : "xA=yG", i);
					} else {
						Q = EC_POINT_new(c->g);
						EC_POINT_mul(c->g, Q, NULL, P, t, bctx);
						pt_encode(c, Q, qbuf);
						BN_mod_mul(x, y, t, c->n, bctx);
						if (neg) BN_sub(x, c->n, x);
						nist_muladd_case(im, c, pbuf, P, qbuf, Q, x, y, neg ? "xA=-yB" : "xA=yB", i);
					}
					break;
				}
				case 9:
					BN_zero(x);
					if (useg) nist_muladd_case(im, c, pbuf, P, NULL, NULL, x, y, "x=0", i);
					else { rand_point(c, qbuf, &Q); nist_muladd_case(im, c, pbuf, P, qbuf, Q, x, y, "x=0", i); }
					break;
				case 10:
					BN_zero(y);
					if (useg) nist_muladd_case(im, c, pbuf, P, NULL, NULL, x, y, "y=0", i);
					else { rand_point(c, qbuf, &Q); nist_muladd_case(im, c, pbuf, P, qbuf, Q, x, y, "y=0", i); }
					break;
				default:
					/* explicit generator as B, and A = G */
					if (useg) nist_muladd_case(im, c, gbuf, EC_GROUP_get0_generator(c->g), NULL, NULL, x, y, "A=G,B=NULL", i);
					else nist_muladd_case(im, c, pbuf, P, gbuf, EC_GROUP_get0_generator(c->g), x, y, "B=G-explicit", i);
					break;
				}
			} else {
				nist_invalid_case(im, c, i);
			}
		}
		if (P) EC_POINT_free(P);
		if (Q) EC_POINT_free(Q);
	}
	/* points with extreme coordinates (numbered after the cases above) */
	ext_build(c);
	HASSERT(n_ext >= 6, "ext-too-few-points");
	for (i = 0; i < n_ext; i ++) {
		long long idx = nspecial + cases + i;
		if ((idx % g_nworkers) != g_worker) continue;
		rng_case("arith-ext", im->name, c->name, i);
		vf_stat("cases", 1);
		ext_case(im, c, (int)i, idx);
	}
	BN_free(k); BN_free(x); BN_free(y); BN_free(t);
}

/* ================================================================== */
/* Curve25519 arithmetic */

static void
rev32(unsigned char *dst, const unsigned char *src, size_t len)
{
	size_t i;
	for (i = 0; i < len; i ++) dst[i] = src[len - 1 - i];
}

/* reference for the library's conventions: scalar big-endian of kl <= 32
 * bytes (left-padded with zeros), point little-endian */
static void
ref_c25519(unsigned char *out, const unsigned char *k_be, size_t kl, const unsigned char *u_le)
{
	unsigned char kpad[32], kle[32];
	memset(kpad, 0, 32);
	memcpy(kpad + 32 - kl, k_be, kl);
	rev32(kle, kpad, 32);
	ref_x25519(out, kle, u_le);
}

static int
is_zero32(const unsigned char *b)
{
	int i, z = 0;
	for (i = 0; i < 32; i ++) z |= b[i];
	return z == 0;
}

static void
c25519_consts(const impl_t *im)
{
	size_t gl = 0, ol = 0, xl = 0, xo;
	const unsigned char *g = im->impl->generator(BR_EC_curve25519, &gl);
	const unsigned char *o = im->impl->order(BR_EC_curve25519, &ol);
	unsigned char nine[32], ord[32];
	memset(nine, 0, 32); nine[0] = 9;
	memset(ord, 0xFF, 32); ord[0] = 0x7F;
	vf_stat("cmp_const", 3);
	if (gl != 32 || memcmp(g, nine, 32) != 0) {
		VIOL(mkkey("const-generator", im, "C25519"), "generator() is not u=9", "got=%s", vf_hexs(g, gl < 64 ? gl : 64));
	}
	/* documented: order() returns 2^255-1 */
	if (ol != 32 || memcmp(o, ord, 32) != 0) {
		VIOL(mkkey("const-order", im, "C25519"), "order() is not the documented 2^255-1", "got=%s", vf_hexs(o, ol < 64 ? ol : 64));
	}
	xo = im->impl->xoff(BR_EC_curve25519, &xl);
	if (xo != 0 || xl != 32) {
		VIOL(mkkey("const-xoff", im, "C25519"), "xoff() is not (0, 32)", "xoff=%zu xlen=%zu", xo, xl);
	}
}

static void
c25519_mul_case(const impl_t *im, const unsigned char *u, const unsigned char *k_be, size_t kl,
	const char *cls, long long idx)
{
	unsigned char got[32], ref[32];
	uint32_t r;
	int low, on;

	r = call_mul(im->impl, got, u, 32, k_be, kl, BR_EC_curve25519);
	vf_distinct("arith_cfg", "%s C25519 mul %s klen%s", im->name, cls, kl == 32 ? "32" : kl < 32 ? "short" : "long");
	if (kl > 32) {
		/* the documentation only says the multiplier "accepts any 32-byte integer" */
		vf_stat("unjudged_c25519_long_scalar", 1);
		return;
	}
	ref_c25519(ref, k_be, kl, u);
	low = is_zero32(ref);
	on = c25519_on_curve(u);
	if (r != 0 && r != 1) {
		VIOL(mkkey("mul-retval", im, "C25519"), "mul() returned neither 0 nor 1", "ret=%u", r);
		return;
	}
	if (r == 0) {
		if (on && !low) {
			vf_stat("cmp_mul", 1);
			VIOL(mkkey("mul-valid-rejected", im, "C25519"), "mul() rejected a point of the curve",
				"seed=%lld i=%lld cls=%s u=%s k=%s", g_seed, idx, cls, vf_hexs(u, 32), vf_hexs(k_be, kl));
		} else {
			vf_stat("unjudged_c25519_rejected_loworder_or_twist", 1);
		}
		return;
	}
	vf_stat("cmp_mul", 1);
	if (low) vf_stat("c25519_low_order_inputs", 1);
	if (!on) vf_stat("c25519_twist_inputs", 1);
	if (memcmp(got, ref, 32) != 0) {
		VIOL(mkkey("mul-result", im, "C25519"), "mul() differs from the RFC 7748 X25519 function",
			"seed=%lld i=%lld cls=%s u=%s k_be=%s got=%s want=%s", g_seed, idx, cls,
			vf_hexs(u, 32), vf_hexs(k_be, kl), vf_hexs(got, 32), vf_hexs(ref, 32));
	}
}

static void
c25519_mulgen_case(const impl_t *im, const unsigned char *k_be, size_t kl, const char *cls, long long idx)
{
	unsigned char got[32], ref[32], nine[32];
	size_t rl;
	memset(nine, 0, 32); nine[0] = 9;
	rl = call_mulgen(im->impl, got, 32, k_be, kl, BR_EC_curve25519);
	vf_distinct("arith_cfg", "%s C25519 mulgen %s klen%s", im->name, cls, kl == 32 ? "32" : "short");
	ref_c25519(ref, k_be, kl, nine);
	vf_stat("cmp_mulgen", 1);
	if (rl != 32 || memcmp(got, ref, 32) != 0) {
		VIOL(mkkey("mulgen-result", im, "C25519"), "mulgen() differs from X25519(k, 9)",
			"seed=%lld i=%lld cls=%s k_be=%s ret=%zu got=%s want=%s", g_seed, idx, cls,
			vf_hexs(k_be, kl), rl, vf_hexs(got, 32), vf_hexs(ref, 32));
	}
	vf_sample("{\"op\":\"mulgen\",\"impl\":\"%s\",\"curve\":\"C25519\",\"k_be\":\"%s\",\"result\":\"%s\"}",
		im->name, vf_hexs(k_be, kl), vf_hexs(got, 32));
}

/* RFC 7748 section 5.2 vectors (scalar and u as printed in the RFC, i.e.
 * little-endian byte strings) */
static const char *rfc7748_vec[2][3] = {
	{ "a546e36bf0527c9d3b16154b82465edd62144c0ac1fc5a18506a2244ba449ac4",
	  "e6db6867583030db3594c1a424b15f7c726624ec26b3353b10a903a6d0ab1c4c",
	  "c3da55379de9c6908e94ea4df28d084f32eccf03491c71f754b4075577a28552" },
	{ "4b66e9d4d1b4673c5ad22691957d6af5c11b6421e0ea01d42ca4169e7918ba0d",
	  "e5210f12786811d3f4b7959d0538ae2c31dbe7106fc03c3efc4cd549c715a493",
	  "95cbde9476e8907d7aade45cb4b873f88b595a68799fa152e6f8f7647aac7957" },
};
static const char *rfc7748_iter1 = "422c8e7a6227d7bca1350b3e2bb7279f7897b87bb6854b783c60e80311ae3079";
static const char *rfc7748_iter1000 = "684cf59ba83309552800ef566f2f4d3c1c3887c49360e3875f2eb94d99532c51";

static void
c25519_kat(const impl_t *im)
{
	int v, i, niter = g_thorough ? 1000 : 1;
	unsigned char k[32], u[32], want[32], kbe[32], got[32], ref[32], ku[32];
	for (v = 0; v < 2; v ++) {
		vf_unhex(k, 32, rfc7748_vec[v][0]);
		vf_unhex(u, 32, rfc7748_vec[v][1]);
		vf_unhex(want, 32, rfc7748_vec[v][2]);
		ref_x25519(ref, k, u);
		HASSERT(memcmp(ref, want, 32) == 0, "rfc7748-vector-vs-reference");
		rev32(kbe, k, 32);
		vf_stat("cmp_kat", 1);
		if (call_mul(im->impl, got, u, 32, kbe, 32, BR_EC_curve25519) != 1 || memcmp(got, want, 32) != 0) {
			VIOL(mkkey("kat-rfc7748", im, "C25519"), "RFC 7748 5.2 test vector not reproduced", "vector=%d got=%s", v, vf_hexs(got, 32));
		}
	}
	/* iterated vector: k = u = 9; k, u <- X25519(k, u), k */
	memset(k, 0, 32); k[0] = 9; memcpy(u, k, 32);
	for (i = 1; i <= niter; i ++) {
		rev32(kbe, k, 32);
		call_mul(im->impl, got, u, 32, kbe, 32, BR_EC_curve25519);
		memcpy(ku, k, 32);
		memcpy(u, ku, 32);
		memcpy(k, got, 32);
		if (i == 1 || i == 1000) {
			vf_unhex(want, 32, i == 1 ? rfc7748_iter1 : rfc7748_iter1000);
			vf_stat("cmp_kat", 1);
			if (memcmp(got, want, 32) != 0) {
				VIOL(mkkey("kat-rfc7748-iter", im, "C25519"), "RFC 7748 iterated vector not reproduced", "iterations=%d got=%s", i, vf_hexs(got, 32));
			}
		}
	}
}

static void
arith_c25519(const impl_t *im, long long cases)
{
	/* special u values (little-endian): 0, 1, p-1, p, p+1, 2^255-1 (= p+18), the two
	 * order-8 abscissas, 9, 2^255-19+2.. non-canonical range */
	static const char *special_u[] = {
		"0000000000000000000000000000000000000000000000000000000000000000",
		"0100000000000000000000000000000000000000000000000000000000000000",
		"ecffffffffffffffffffffffffffffffffffffffffffffffffffffffffffff7f",
		"edffffffffffffffffffffffffffffffffffffffffffffffffffffffffffff7f",
		"eeffffffffffffffffffffffffffffffffffffffffffffffffffffffffffff7f",
		"ffffffffffffffffffffffffffffffffffffffffffffffffffffffffffffff7f",
		"e0eb7a7c3b41b8ae1656e3faf19fc46ada098deb9c32b1fd866205165f49b800",
		"5f9c95bca3508c24b1d0b1559c83ef5b04445cc4581c8e86d8224eddd09f1157",
		"0900000000000000000000000000000000000000000000000000000000000000",
		"f6ffffffffffffffffffffffffffffffffffffffffffffffffffffffffffff7f",
		"ffffffffffffffffffffffffffffffffffffffffffffffffffffffffffffffff",
		"edffffffffffffffffffffffffffffffffffffffffffffffffffffffffffffff",
		"0000000000000000000000000000000000000000000000000000000000000080",
		"0200000000000000000000000000000000000000000000000000000000000000",
	};
	const int nsu = (int)(sizeof special_u / sizeof special_u[0]);
	long long i;

	if (g_worker == 0) { c25519_consts(im); c25519_kat(im); }
	for (i = 0; i < cases; i ++) {
		unsigned char u[40], k[40], tmp[32];
		uint32_t op;
		size_t kl = 32;
		const char *cls;
		if ((i % g_nworkers) != g_worker) continue;
		rng_case("arith", im->name, "C25519", i);
		vf_stat("cases", 1);
		vf_bytes(&rng, k, 40);
		op = vf_below(&rng, 100);
		/* scalar shape */
		{
			uint32_t s = vf_below(&rng, 12);
			if (s == 0) { memset(k, 0, 32); }
			else if (s == 1) { memset(k, 0xFF, 32); }
			else if (s == 2) { memset(k, 0, 32); k[31] = (unsigned char)(1 + vf_below(&rng, 255)); }
			else if (s == 3) { kl = 1 + vf_below(&rng, 31); }
			else if (s == 4) { memset(k, 0, 32); k[vf_below(&rng, 32)] = (unsigned char)(1u << vf_below(&rng, 8)); }
		}
		if (i < nsu * 2) {
			vf_unhex(u, 32, special_u[i % nsu]);
			cls = "special-u";
			c25519_mul_case(im, u, k, kl, cls, i);
		} else if (op < 50) {
			vf_bytes(&rng, u, 32);
			if (vf_u32(&rng) & 3) u[31] &= 0x7F;
			cls = "random-u";
			c25519_mul_case(im, u, k, kl, cls, i);
		} else if (op < 60) {
			/* a genuine public key: X25519(random, 9) */
			unsigned char nine[32], kk[32];
			memset(nine, 0, 32); nine[0] = 9;
			vf_bytes(&rng, kk, 32);
			ref_x25519(u, kk, nine);
			cls = "pubkey-u";
			c25519_mul_case(im, u, k, kl, cls, i);
			/* Diffie-Hellman commutes: X(a, X(b,9)) == X(b, X(a,9)) is implied by equality with the reference */
		} else if (op < 68) {
			/* non-canonical u in [p, 2^255) and the high bit */
			memset(u, 0xFF, 32);
			u[0] = (unsigned char)(0xED + vf_below(&rng, 19));
			u[31] = (vf_u32(&rng) & 1) ? 0x7F : 0xFF;
			cls = "noncanonical-u";
			c25519_mul_case(im, u, k, kl, cls, i);
		} else if (op < 74) {
			vf_unhex(u, 32, special_u[vf_below(&rng, (uint32_t)nsu)]);
			cls = "special-u";
			c25519_mul_case(im, u, k, kl, cls, i);
		} else if (op < 90) {
			if (kl > 32) kl = 32;
			c25519_mulgen_case(im, k, kl, "random", i);
		} else if (op < 94) {
			/* wrong point length: must fail */
			static const size_t bl[] = { 0, 1, 31, 33, 64, 65 };
			size_t l = bl[vf_below(&rng, 6)];
			unsigned char big[80];
			uint32_t r;
			vf_bytes(&rng, big, sizeof big);
			r = call_mul(im->impl, NULL, big, l, k, 32, BR_EC_curve25519);
			vf_stat("cmp_invalid_point", 1);
			vf_distinct("arith_cfg", "%s C25519 invalid len%zu", im->name, l);
			if (r != 0) {
				VIOL(mkkeyc("mul-invalid-accepted", im, "C25519", "wrong-length"), "mul() accepted a point of the wrong length", "Glen=%zu ret=%u", l, r);
			}
		} else if (op < 97) {
			/* over-long scalar: executed, not judged */
			vf_bytes(&rng, u, 32);
			memmove(k + 1 + vf_below(&rng, 7), k, 32);
			k[0] = 0;
			c25519_mul_case(im, u, k, 33 + vf_below(&rng, 7), "long-scalar", i);
		} else {
			/* muladd is documented to return 0 systematically */
			unsigned char a[32], b[32];
			uint32_t r;
			vf_bytes(&rng, a, 32); vf_bytes(&rng, b, 32); a[31] &= 0x7F; b[31] &= 0x7F;
			vf_bytes(&rng, tmp, 32);
			r = call_muladd(im->impl, NULL, a, (vf_u32(&rng) & 1) ? b : NULL, 32, k, 32, tmp, 32, BR_EC_curve25519);
			vf_stat("cmp_muladd", 1);
			vf_stat("cmp_muladd_must_fail", 1);
			vf_distinct("arith_cfg", "%s C25519 muladd", im->name);
			if (r != 0) {
				VIOL(mkkey("muladd-c25519-nonzero", im, "C25519"), "muladd() on Curve25519 did not return 0", "ret=%u", r);
			}
		}
	}
}

/* ================================================================== */
/* ECDSA */

typedef struct {
	const char *name;
	br_ecdsa_sign sign;
	br_ecdsa_vrfy vrfy;
	int asn1;
} ecdsa_t;

static const ecdsa_t ecdsas[4] = {
	{ "i15_raw", br_ecdsa_i15_sign_raw, br_ecdsa_i15_vrfy_raw, 0 },
	{ "i15_asn1", br_ecdsa_i15_sign_asn1, br_ecdsa_i15_vrfy_asn1, 1 },
	{ "i31_raw", br_ecdsa_i31_sign_raw, br_ecdsa_i31_vrfy_raw, 0 },
	{ "i31_asn1", br_ecdsa_i31_sign_asn1, br_ecdsa_i31_vrfy_asn1, 1 },
};

static char keybuf2[200];
static const char *
mkkey2(const char *mon, const impl_t *im, const ecdsa_t *ev, const char *curve)
{
	snprintf(keybuf2, sizeof keybuf2, "C11:%s:%s.%s.%s", mon, ev->name, im->name, curve);
	return keybuf2;
}

static uint32_t
call_vrfy(const impl_t *im, const ecdsa_t *ev, const unsigned char *hv, size_t hl,
	int curve, const unsigned char *q, size_t ql, const unsigned char *sig, size_t sl)
{
	unsigned char *h = vf_dup(hv, hl), *qq = vf_dup(q, ql), *ss = vf_dup(sig, sl);
	br_ec_public_key pk;
	uint32_t r;
	pk.curve = curve; pk.q = qq; pk.qlen = ql;
	r = ev->vrfy(im->impl, h, hl, &pk, ss, sl);
	free(h); free(qq); free(ss);
	vf_stat("lib_calls", 1);
	vf_stat("vrfy_calls", 1);
	return r;
}

static size_t
call_sign(const impl_t *im, const ecdsa_t *ev, int h, const unsigned char *hv,
	int curve, const unsigned char *x, size_t xl, unsigned char *sig, size_t sigmax)
{
	unsigned char *hh = vf_dup(hv, hlen_of[h]), *xx = vf_dup(x, xl), *ss = malloc(sigmax);
	br_ec_private_key sk;
	size_t r;
	memset(ss, 0xA5, sigmax);
	sk.curve = curve; sk.x = xx; sk.xlen = xl;
	r = ev->sign(im->impl, hclass[h], hh, &sk, ss);
	memcpy(sig, ss, sigmax);
	free(hh); free(xx); free(ss);
	vf_stat("lib_calls", 1);
	return r;
}

/* raw encoding of (r, s) with common length L >= both minimal lengths */
static size_t
enc_raw(unsigned char *out, const BIGNUM *r, const BIGNUM *s, size_t L)
{
	BN_bn2binpad(r, out, (int)L);
	BN_bn2binpad(s, out + L, (int)L);
	return 2 * L;
}

static size_t
min_common_len(const BIGNUM *r, const BIGNUM *s)
{
	size_t a = (size_t)BN_num_bytes(r), b = (size_t)BN_num_bytes(s);
	return a > b ? a : b;
}

typedef struct {
	curve_t *c;
	const impl_t *sup[16];
	int nsup;
	const impl_t *unsup[16];
	int nunsup;
	long long vr;   /* verifier rotation */
} ecdsa_env;

static void
next_verifier(ecdsa_env *E, const impl_t **im, const ecdsa_t **ev, int want_asn1)
{
	/* rotate over (impl, i15/i31); format is chosen by the caller (-1: any) */
	long long v = E->vr ++;
	int k = (int)(v % (E->nsup * 2));
	int fmt = want_asn1 < 0 ? (int)((v / (E->nsup * 2)) & 1) : want_asn1;
	*im = E->sup[k % E->nsup];
	*ev = &ecdsas[(k / E->nsup) * 2 + fmt];
}

/* verify integers (r,s) on one verifier in the given textual form and judge
 * against `want`.  mode: 0 canonical (raw with L=nlen or longer if needed / DER),
 * 1 raw over-long / asn1 canonical, 2 raw minimal common length */
static void
judge_values(ecdsa_env *E, const impl_t *im, const ecdsa_t *ev, const unsigned char *q, size_t ql,
	const unsigned char *hv, size_t hl, const BIGNUM *r, const BIGNUM *s, int want,
	int shape, const char *cls, long long idx)
{
	curve_t *c = E->c;
	unsigned char sig[400];
	size_t sl, L;
	uint32_t got;
	int ez;

	if (ev->asn1) {
		sl = ref_der(sig, sizeof sig, r, s);
		if (sl > 144) { vf_stat("skipped_der_too_long", 1); return; }
	} else {
		L = min_common_len(r, s);
		if (shape == 2) {
			if (L == 0) L = 1;
		} else {
			if (L < c->nlen) L = c->nlen;
			if (shape == 1) L += 1 + vf_below(&rng, 5);
		}
		sl = enc_raw(sig, r, s, L);
	}
	got = call_vrfy(im, ev, hv, hl, c->id, q, ql, sig, sl);
	vf_distinct("ecdsa_cfg", "vrfy %s %s %s %s shape%d want%d", ev->name, im->name, c->name, cls, ev->asn1 ? 0 : shape, want);
	vf_distinct("vrfy_hashlen", "%s %zu", c->name, hl);
	if (want) vf_stat("cmp_vrfy_accept", 1); else vf_stat("cmp_vrfy_reject", 1);
	{
		BIGNUM *e = BN_new();
		ref_bits2int(e, hv, hl, c->nbits);
		BN_mod(e, e, c->n, bctx);
		ez = BN_is_zero(e);
		BN_free(e);
		if (ez) vf_stat("vrfy_cases_with_e_zero", 1);
	}
	if ((got == 1) != (want == 1) || got > 1) {
		if (ez) snprintf(keybuf2, sizeof keybuf2, "C11:%s:e-zero:%s.%s", want ? "vrfy-valid-rejected" : "vrfy-invalid-accepted", im->name, c->name);
		else snprintf(keybuf2, sizeof keybuf2, "C11:%s:%s.%s.%s", want ? "vrfy-valid-rejected" : "vrfy-invalid-accepted", ev->name, im->name, c->name);
		VIOL(keybuf2,
			want ? "verifier rejected a signature that OpenSSL accepts" : "verifier accepted a signature that OpenSSL rejects",
			"seed=%lld i=%lld cls=%s ret=%u Q=%s hash=%s sig=%s", g_seed, idx, cls, got,
			vf_hexs(q, ql), vf_hexs(hv, hl), vf_hexs(sig, sl));
	}
}

static int
pt_is_invalid(const curve_t *c, const unsigned char *q, size_t ql)
{
	EC_POINT *P = pt_decode(c, q, ql);
	if (P == NULL) return 1;
	EC_POINT_free(P);
	return 0;
}

/* a raw byte string that must be rejected whatever it contains */
static void
judge_must_reject(ecdsa_env *E, const impl_t *im, const ecdsa_t *ev, const unsigned char *q, size_t ql,
	const unsigned char *hv, size_t hl, const unsigned char *sig, size_t sl, const char *cls, long long idx)
{
	uint32_t got = call_vrfy(im, ev, hv, hl, E->c->id, q, ql, sig, sl);
	vf_stat("cmp_vrfy_must_reject", 1);
	vf_distinct("ecdsa_cfg", "vrfy %s %s %s %s must-reject", ev->name, im->name, E->c->name, cls);
	if (got != 0) {
		if (ql != E->c->ptlen || pt_is_invalid(E->c, q, ql))
			snprintf(keybuf2, sizeof keybuf2, "C11:vrfy-invalid-pubkey-accepted:%s.%s:%s", im->name, E->c->name, cls);
		else
			snprintf(keybuf2, sizeof keybuf2, "C11:vrfy-malformed-sig-accepted:%s.%s:%s", ev->name, E->c->name, cls);
		VIOL(keybuf2,
			"verifier accepted a malformed signature or public key",
			"seed=%lld i=%lld cls=%s ret=%u Q=%s hash=%s sig=%s", g_seed, idx, cls, got,
			vf_hexs(q, ql), vf_hexs(hv, hl), vf_hexs(sig, sl));
	}
}

/* structural breaks of a canonical DER signature.  returns new length, sets
 * *kind: 0 = documented invalid (must reject), 1 = lenient form (only a false
 * accept is judged), -1 not applicable */
#define N_DERBREAK 16
static size_t
der_break(int cls, const unsigned char *der, size_t dl, unsigned char *out, int *kind, const char **name)
{
	size_t hdr = (der[1] == 0x81) ? 3 : 2;
	size_t rl = der[hdr + 1];
	size_t l = dl;
	memcpy(out, der, dl);
	*kind = 0;
	switch (cls) {
	case 0: *name = "outer-tag"; out[0] = 0x31; break;
	case 1: *name = "outer-len+1"; out[hdr - 1] ++; break;
	case 2: *name = "outer-len-1"; out[hdr - 1] --; break;
	case 3: *name = "trailing-byte"; out[dl] = (unsigned char)vf_u32(&rng); l = dl + 1; break;
	case 4: *name = "trailing-byte-inside";
		if (out[hdr - 1] == 0x7F || out[hdr - 1] == 0xFF) { *kind = -1; break; }
		out[hdr - 1] ++; out[dl] = 0; l = dl + 1; break;
	case 5: *name = "r-tag"; out[hdr] = 0x03; break;
	case 6: *name = "s-tag"; out[hdr + 2 + rl] = 0x04; break;
	case 7: *name = "truncated"; l = dl - 1 - vf_below(&rng, (uint32_t)(dl > 9 ? 8 : dl - 1)); break;
	case 8:
		/* r claims more bytes than remain before a possible s header:
		 * only when 0x7F really overruns (otherwise the bytes could
		 * parse as another well-formed structure by coincidence) */
		*name = "r-len-overrun";
		if (hdr + 2 + 0x7F + 2 <= dl) { *kind = -1; break; }
		out[hdr + 1] = 0x7F;
		if (rl == 0x7F) *kind = -1;
		break;
	case 9: *name = "s-len+1"; out[hdr + 2 + rl + 1] ++; break;
	case 10: *name = "indefinite-length"; if (hdr != 2) { *kind = -1; break; } out[1] = 0x80; break;
	case 11: *name = "empty"; l = 0; break;
	case 12:
		/* lenient: SEQUENCE length in 0x81 form although < 128 */
		*name = "lenient-len81";
		if (hdr != 2) { *kind = -1; break; }
		*kind = 1;
		memmove(out + 3, out + 2, dl - 2); out[1] = 0x81; out[2] = der[1]; l = dl + 1;
		break;
	case 13:
		/* lenient: extra leading zero on r */
		*name = "lenient-r-extra-zero";
		if (out[hdr - 1] == 0x7F || out[hdr - 1] == 0xFF || rl >= 0x7F) { *kind = -1; break; }
		*kind = 1;
		memmove(out + hdr + 3, out + hdr + 2, dl - hdr - 2);
		out[hdr + 2] = 0; out[hdr + 1] ++; out[hdr - 1] ++; l = dl + 1;
		break;
	case 14:
		/* long form 0x82: BER, not DER */
		*name = "lenient-len82";
		*kind = 1;
		if (hdr == 2) { memmove(out + 4, out + 2, dl - 2); out[1] = 0x82; out[2] = 0; out[3] = der[1]; l = dl + 2; }
		else { memmove(out + 4, out + 3, dl - 3); out[1] = 0x82; out[2] = 0; out[3] = der[2]; l = dl + 1; }
		break;
	default:
		*name = "r-len-0x80"; out[hdr + 1] = 0x80; break;
	}
	return l;
}

/* (hash, r, s) that verifies under an arbitrary public point W without its
 * private key: R = u1*G + u2*W, r = x(R) mod n, s = r/u2, e = u1*s; the hash is
 * e written so that bits2int gives e back (length nlen) */
static int
forge_for_point(curve_t *c, const EC_POINT *W, BIGNUM *r, BIGNUM *s, unsigned char *hv, size_t *hl)
{
	BIGNUM *u1 = BN_new(), *u2 = BN_new(), *x = BN_new(), *e = BN_new(), *t = BN_new();
	EC_POINT *R = EC_POINT_new(c->g);
	int ok = 0;
	rand_scalar(u1, c); rand_scalar(u2, c);
	HASSERT(EC_POINT_mul(c->g, R, u1, W, u2, bctx) == 1, "forge-mul");
	if (EC_POINT_is_at_infinity(c->g, R)) goto done;
	HASSERT(EC_POINT_get_affine_coordinates(c->g, R, x, NULL, bctx) == 1, "forge-affine");
	BN_nnmod(r, x, c->n, bctx);
	if (BN_is_zero(r)) goto done;
	HASSERT(BN_mod_inverse(t, u2, c->n, bctx) != NULL, "forge-inv");
	BN_mod_mul(s, r, t, c->n, bctx);
	BN_mod_mul(e, u1, s, c->n, bctx);
	*hl = c->nlen;
	BN_lshift(t, e, (int)(8 * c->nlen) - c->nbits);
	BN_bn2binpad(t, hv, (int)c->nlen);
	ok = 1;
done:
	BN_free(u1); BN_free(u2); BN_free(x); BN_free(e); BN_free(t); EC_POINT_free(R);
	return ok;
}

/* (Q, hash, r, s) such that the point R recomputed by the verifier has an affine
 * X coordinate in [n, p-1]: r = X - n is the valid value (ECDSA reduces X modulo
 * n), r = X is out of range.  Honest signing reaches this with probability
 * about (p-n)/p (2^-128 on P-256), so it is crafted: pick X = n + j on the
 * curve, s and e at random, Q = (s*R - e*G)/r. */
static int
craft_x_above_n(curve_t *c, unsigned char *q, BIGNUM *r, BIGNUM *s, BIGNUM *X, unsigned char *hv, size_t *hl)
{
	BIGNUM *d = BN_new(), *e = BN_new(), *t = BN_new(), *u = BN_new();
	EC_POINT *R = EC_POINT_new(c->g), *Q = EC_POINT_new(c->g);
	int ok = 0, tries;
	BN_sub(d, c->p, c->n);
	if (BN_is_negative(d) || BN_is_zero(d)) goto done;
	for (tries = 0; tries < 64; tries ++) {
		uint32_t v = vf_below(&rng, 4);
		if (v == 0) BN_set_word(t, vf_below(&rng, 16));             /* X = n + small */
		else if (v == 1) { BN_copy(t, d); BN_sub_word(t, 1 + vf_below(&rng, 16)); }   /* X = p - small */
		else { unsigned char rb[80]; vf_bytes(&rng, rb, c->plen + 8); BN_bin2bn(rb, (int)c->plen + 8, t); BN_mod(t, t, d, bctx); }
		BN_add(X, c->n, t);
		ERR_clear_error();
		if (EC_POINT_set_compressed_coordinates(c->g, R, X, (int)(vf_u32(&rng) & 1), bctx) != 1) { ERR_clear_error(); continue; }
		BN_sub(r, X, c->n);
		if (BN_is_zero(r)) continue;
		rand_scalar(s, c); rand_scalar(e, c);
		/* Q = r^-1 * (s*R - e*G) = (-e/r)*G + (s/r)*R */
		HASSERT(BN_mod_inverse(t, r, c->n, bctx) != NULL, "craft-inv");
		BN_mod_mul(u, s, t, c->n, bctx);
		BN_mod_mul(t, e, t, c->n, bctx);
		BN_sub(t, c->n, t);
		HASSERT(EC_POINT_mul(c->g, Q, t, R, u, bctx) == 1, "craft-mul");
		if (EC_POINT_is_at_infinity(c->g, Q)) continue;
		pt_encode(c, Q, q);
		*hl = c->nlen;
		BN_lshift(t, e, (int)(8 * c->nlen) - c->nbits);
		BN_bn2binpad(t, hv, (int)c->nlen);
		HASSERT(ref_verify(c, Q, hv, *hl, r, s), "crafted-does-not-verify");
		ok = 1;
		break;
	}
done:
	BN_free(d); BN_free(e); BN_free(t); BN_free(u); EC_POINT_free(R); EC_POINT_free(Q);
	return ok;
}

/* value-level mutations of a valid (r, s, hash, Q).  Fills r2, s2, hv2/hl2, q2;
 * returns class name */
#define N_VALMUT 22
static const char *
value_mutation(curve_t *c, int cls, const BIGNUM *r, const BIGNUM *s, BIGNUM *r2, BIGNUM *s2,
	const unsigned char *hv, size_t hl, unsigned char *hv2, size_t *hl2,
	const unsigned char *q, unsigned char *q2)
{
	const char *name = "?";
	unsigned char tmp[80];
	BN_copy(r2, r); BN_copy(s2, s);
	memcpy(hv2, hv, hl); *hl2 = hl;
	memcpy(q2, q, c->ptlen);
	switch (cls) {
	case 0: name = "r=0"; BN_zero(r2); break;
	case 1: name = "s=0"; BN_zero(s2); break;
	case 2: name = "r=n"; BN_copy(r2, c->n); break;
	case 3: name = "s=n"; BN_copy(s2, c->n); break;
	case 4: name = "r+n"; BN_add(r2, r, c->n); break;
	case 5: name = "s+n"; BN_add(s2, s, c->n); break;
	case 6: name = "s=n-s"; BN_sub(s2, c->n, s); break;
	case 7: name = "r-random"; rand_scalar(r2, c); break;
	case 8: name = "s-random"; rand_scalar(s2, c); break;
	case 9: name = "r-bitflip"; { int b = (int)vf_below(&rng, (uint32_t)c->nbits); if (BN_is_bit_set(r2, b)) BN_clear_bit(r2, b); else BN_set_bit(r2, b); } break;
	case 10: name = "s-bitflip"; { int b = (int)vf_below(&rng, (uint32_t)c->nbits); if (BN_is_bit_set(s2, b)) BN_clear_bit(s2, b); else BN_set_bit(s2, b); } break;
	case 11: name = "hash-bitflip";
		if (hl == 0) { hv2[0] = 1; *hl2 = 1; }
		else { uint32_t b = vf_below(&rng, (uint32_t)(8 * hl)); hv2[b >> 3] ^= (unsigned char)(0x80u >> (b & 7)); }
		break;
	case 12: name = "hash-truncated";
		if (hl == 0) { name = "hash-extended"; vf_bytes(&rng, hv2, 3); *hl2 = 3; }
		else *hl2 = hl - 1 - vf_below(&rng, (uint32_t)(hl > 4 ? 4 : hl));
		break;
	case 13: name = "hash-extended"; { size_t e = 1 + vf_below(&rng, 8); vf_bytes(&rng, hv2 + hl, e); *hl2 = hl + e; } break;
	case 14: name = "r=n-r"; BN_sub(r2, c->n, r); break;
	case 15: name = "other-pubkey"; { EC_POINT *W; rand_point(c, q2, &W); EC_POINT_free(W); } break;
	case 16: name = "r-s-swapped"; BN_copy(r2, s); BN_copy(s2, r); break;
	case 17: name = "r=n+1"; BN_copy(r2, c->n); BN_add_word(r2, 1); break;
	case 18: name = "s=n+1"; BN_copy(s2, c->n); BN_add_word(s2, 1); break;
	case 19: name = "hash-other-length"; *hl2 = vf_below(&rng, 81); vf_bytes(&rng, hv2, *hl2); break;
	case 20: name = "r=s=1"; BN_one(r2); BN_one(s2); break;
	default: name = "s-huge"; vf_bytes(&rng, tmp, c->nlen); tmp[0] |= 0x80; BN_bin2bn(tmp, (int)c->nlen, s2);
		if (c->id == BR_EC_secp521r1) { name = "s-huge-521"; } break;
	}
	return name;
}

/* RFC 6979 A.2.5 (P-256, SHA-256, message "sample"): a fixed point that does
 * not depend on the reference generator written here */
static void
ecdsa_kat(ecdsa_env *E)
{
	static const char *xh = "C9AFA9D845BA75166B5C215767B1D6934E50C3DB36E89B127B8A622B120F6721";
	static const char *rh = "EFD48B2AACB6A8FD1140DD9CD45E81D69D2C877B56AAF991C34D0EA84EAF3716";
	static const char *sh = "F7CB1C942D657C41D436C7A1B6E29F65F3E900DBB9AFF4064DC4AB2F843ACDA8";
	unsigned char x[32], want[64], hv[32], sig[80];
	br_sha256_context sc;
	int i, e;
	if (E->c->id != BR_EC_secp256r1) return;
	vf_unhex(x, 32, xh); vf_unhex(want, 32, rh); vf_unhex(want + 32, 32, sh);
	br_sha256_init(&sc); br_sha256_update(&sc, "sample", 6); br_sha256_out(&sc, hv);
	{
		/* the reference generator must reproduce the RFC's own vector */
		BIGNUM *d = BN_new(), *k = BN_new(), *r = BN_new(), *s = BN_new();
		unsigned char rs[64];
		BN_bin2bn(x, 32, d);
		ref_rfc6979_k(k, E->c, d, 2, hv);
		HASSERT(ref_sign_k(E->c, r, s, d, k, hv, 32), "kat-refsign");
		enc_raw(rs, r, s, 32);
		HASSERT(memcmp(rs, want, 64) == 0, "rfc6979-vector-vs-reference");
		BN_free(d); BN_free(k); BN_free(r); BN_free(s);
	}
	for (i = 0; i < E->nsup; i ++) for (e = 0; e < 4; e += 2) {
		size_t sl = call_sign(E->sup[i], &ecdsas[e], 2, hv, BR_EC_secp256r1, x, 32, sig, 64);
		vf_stat("cmp_kat", 1);
		if (sl != 64 || memcmp(sig, want, 64) != 0) {
			VIOL(mkkey2("kat-rfc6979", E->sup[i], &ecdsas[e], "P256"), "RFC 6979 A.2.5 vector not reproduced", "got=%s", vf_hexs(sig, 64));
		}
	}
	/*
	 * The retry step of RFC 6979 3.2.h (first candidate k not below the order: K = HMAC_K(V || 0x00), V = HMAC_K(V),
	 * next candidate).  For P-256 a candidate is >= n with probability 2^-32; this (key, hash value) pair was found by
	 * an offline search over 2^32 hash values (first candidate ffffffff98425466...).  The expected signature was
	 * computed with mbedTLS 2.28 mbedtls_ecdsa_sign_det_ext(); the reference generator of this harness must agree
	 * with it and must have taken the retry branch.
	 */
	{
		static const char *xr = "3c18293a4b5c6d7e8fa0b1c2d3e4f5061728394a5b6c7d8e9fb0c1d2e3f40516";
		static const char *hr = "42070000000000000000000000000000000000000000000050031e3c00000000";
		static const char *rr = "A9A8196BC52CF27743A9A0107AFA41B1BC0A5E314332F4C3CC11A17CDEE704F5";
		static const char *sr = "161CEAAE7BF8D4A3CEB5CDC0AF7DBA5100AD2328F09E085A659FA4BD03EA8CE5";
		BIGNUM *d = BN_new(), *k = BN_new(), *r = BN_new(), *s = BN_new();
		unsigned char rs[64];
		int e2;
		vf_unhex(x, 32, xr); vf_unhex(hv, 32, hr); vf_unhex(want, 32, rr); vf_unhex(want + 32, 32, sr);
		BN_bin2bn(x, 32, d);
		{
			/* the first candidate, computed without the loop, is not below n */
			unsigned char V[32], K[32], buf[32 + 1 + 64];
			BIGNUM *k0 = BN_new();
			memset(V, 1, 32); memset(K, 0, 32);
			memcpy(buf, V, 32); buf[32] = 0; memcpy(buf + 33, x, 32); memcpy(buf + 65, hv, 32);
			hmac1(EVP_sha256(), K, 32, buf, 97, K); hmac1(EVP_sha256(), K, 32, V, 32, V);
			memcpy(buf, V, 32); buf[32] = 1;
			hmac1(EVP_sha256(), K, 32, buf, 97, K); hmac1(EVP_sha256(), K, 32, V, 32, V);
			hmac1(EVP_sha256(), K, 32, V, 32, V);
			BN_bin2bn(V, 32, k0);
			HASSERT(BN_cmp(k0, E->c->n) >= 0, "retry-vector-first-candidate-in-range");
			BN_free(k0);
		}
		ref_rfc6979_k(k, E->c, d, 2, hv);
		HASSERT(ref_sign_k(E->c, r, s, d, k, hv, 32), "retry-kat-refsign");
		enc_raw(rs, r, s, 32);
		HASSERT(memcmp(rs, want, 64) == 0, "rfc6979-retry-vector-vs-reference");
		for (i = 0; i < E->nsup; i ++) for (e2 = 0; e2 < 4; e2 += 2) {
			size_t sl = call_sign(E->sup[i], &ecdsas[e2], 2, hv, BR_EC_secp256r1, x, 32, sig, 64);
			vf_stat("cmp_kat", 1);
			vf_stat("cmp_kat_rfc6979_retry", 1);
			if (sl != 64 || memcmp(sig, want, 64) != 0) {
				VIOL(mkkey2("kat-rfc6979-retry", E->sup[i], &ecdsas[e2], "P256"),
					"signature for a (key, hash) pair whose first RFC 6979 candidate is >= n differs from the value of RFC 6979 3.2.h (mbedTLS)",
					"x=%s hv=%s hash=sha256 got=%s want=%s", xr, hr, vf_hexs(sig, 64), vf_hexs(want, 64));
			}
		}
		BN_free(d); BN_free(k); BN_free(r); BN_free(s);
	}
}

static void
ecdsa_case(ecdsa_env *E, long long idx, int nverify, int nmut)
{
	curve_t *c = E->c;
	int ncombo = E->nsup * 4;
	const impl_t *sim = E->sup[(idx % ncombo) / 4];
	const ecdsa_t *sev = &ecdsas[idx % 4];
	BIGNUM *d = BN_new(), *k = BN_new(), *r = BN_new(), *s = BN_new(), *r2 = BN_new(), *s2 = BN_new();
	EC_POINT *Q = EC_POINT_new(c->g), *Q2;
	unsigned char qb[140], q2[140], xb[96], hv[160], hv2[160], sig[160], want[160];
	size_t xl, hl, hl2, sl, wl;
	int h, j, ok;
	uint32_t v;
	const char *hcls = "random";

	/* private key */
	v = vf_below(&rng, 40);
	if (v == 0) BN_one(d);
	else if (v == 1) { BN_copy(d, c->n); BN_sub_word(d, 1); }
	else if (v == 2) BN_set_word(d, 2);
	else rand_scalar(d, c);
	HASSERT(EC_POINT_mul(c->g, Q, d, NULL, NULL, bctx) == 1, "dG");
	pt_encode(c, Q, qb);
	v = vf_below(&rng, 10);
	xl = enc_scalar(xb, d, c, v < 7 ? 0 : v == 7 ? 1 : v == 8 ? 2 : 3);

	/* hash */
	h = (int)vf_below(&rng, NHASH);
	hl = hlen_of[h];
	vf_bytes(&rng, hv, hl);
	v = vf_below(&rng, 60);
	if (v == 0) { memset(hv, 0, hl); hcls = "zero"; }
	else if (v == 1) { memset(hv, 0xFF, hl); hcls = "ones"; }
	else if (v == 2 && 8 * hl >= (size_t)c->nbits) {
		/* leftmost qlen bits equal n: e = 0 mod n */
		BN_lshift(r2, c->n, (int)(8 * hl) - c->nbits);
		BN_bn2binpad(r2, hv, (int)hl);
		hcls = "e=n";
	} else if (v == 3) { memset(hv, 0, hl); hv[hl - 1] = 1; hcls = "one"; }

	/* ---- sign with the library, compare with RFC 6979 */
	ref_rfc6979_k(k, c, d, h, hv);
	ok = ref_sign_k(c, r, s, d, k, hv, hl);
	HASSERT(ok, "ref-sign-degenerate");
	HASSERT(ref_verify(c, Q, hv, hl, r, s), "ref-signature-does-not-verify");
	sl = call_sign(sim, sev, h, hv, c->id, xb, xl, sig, sev->asn1 ? c->max_asn1 : c->max_raw);
	if (sev->asn1) wl = ref_der(want, sizeof want, r, s); else wl = enc_raw(want, r, s, c->nlen);
	vf_stat("signatures", 1);
	vf_stat("cmp_sign", 1);
	vf_distinct("ecdsa_cfg", "sign %s %s %s %s hash-%s", sev->name, sim->name, c->name, hname[h], hcls);
	if (sl != wl || memcmp(sig, want, wl) != 0) {
		VIOL(mkkey2("sign-rfc6979", sim, sev, c->name), "signature differs from the RFC 6979 deterministic value",
			"seed=%lld i=%lld hash=%s x=%s hv=%s len=%zu got=%s want=%s", g_seed, idx, hname[h],
			vf_hexs(xb, xl), vf_hexs(hv, hl), sl, vf_hexs(sig, sl < 160 ? sl : 160), vf_hexs(want, wl));
	}
	vf_sample("{\"op\":\"sign\",\"signer\":\"%s\",\"impl\":\"%s\",\"curve\":\"%s\",\"hash\":\"%s\",\"x\":\"%s\",\"hv\":\"%s\",\"sig\":\"%s\"}",
		sev->name, sim->name, c->name, hname[h], vf_hexs(xb, xl), vf_hexs(hv, hl), vf_hexs(sig, sl < 160 ? sl : 160));

	/* ---- the valid signature verifies with the implementations here */
	for (j = 0; j < nverify; j ++) {
		const impl_t *im; const ecdsa_t *ev;
		next_verifier(E, &im, &ev, -1);
		judge_values(E, im, ev, qb, c->ptlen, hv, hl, r, s, 1, (int)vf_below(&rng, 3), hcls[0] == 'r' ? "valid" : hcls, idx);
	}

	/* ---- a signature over a hash of arbitrary length (reference signer, random nonce) */
	{
		hl2 = (size_t)((idx * 7 + g_seed) % 73);
		vf_bytes(&rng, hv2, hl2);
		rand_scalar(k, c);
		if (ref_sign_k(c, r2, s2, d, k, hv2, hl2)) {
			const impl_t *im; const ecdsa_t *ev;
			HASSERT(ref_verify(c, Q, hv2, hl2, r2, s2), "ref-signature2-does-not-verify");
			next_verifier(E, &im, &ev, -1);
			judge_values(E, im, ev, qb, c->ptlen, hv2, hl2, r2, s2, 1, 0, "valid-anyhashlen", idx);
		}
	}

	/* ---- crafted: x(R) in [n, p-1].  r = x - n verifies, r = x does not */
	if ((idx % 4) == 1) {
		BIGNUM *X = BN_new();
		if (craft_x_above_n(c, q2, r2, s2, X, hv2, &hl2)) {
			const impl_t *im; const ecdsa_t *ev;
			int z;
			vf_stat("crafted_x_above_n", 1);
			for (z = 0; z < 2; z ++) {
				next_verifier(E, &im, &ev, -1);
				judge_values(E, im, ev, q2, c->ptlen, hv2, hl2, r2, s2, 1, (int)vf_below(&rng, 3), "x(R)>=n:r=x-n", idx);
			}
			next_verifier(E, &im, &ev, -1);
			judge_values(E, im, ev, q2, c->ptlen, hv2, hl2, X, s2, 0, (int)vf_below(&rng, 3), "x(R)>=n:r=x", idx);
		} else {
			vf_stat("crafted_x_above_n_unavailable", 1);
		}
		BN_free(X);
	}

	/* ---- mutated signatures */
	for (j = 0; j < nmut; j ++) {
		const impl_t *im; const ecdsa_t *ev;
		uint32_t w = vf_below(&rng, 100);
		if (w < 62) {
			int cls = (int)vf_below(&rng, N_VALMUT);
			const char *name = value_mutation(c, cls, r, s, r2, s2, hv, hl, hv2, &hl2, qb, q2);
			int want;
			Q2 = pt_decode(c, q2, c->ptlen);
			HASSERT(Q2 != NULL, "mut-q2");
			want = ref_verify(c, Q2, hv2, hl2, r2, s2);
			EC_POINT_free(Q2);
			next_verifier(E, &im, &ev, -1);
			judge_values(E, im, ev, q2, c->ptlen, hv2, hl2, r2, s2, want, (int)vf_below(&rng, 3), name, idx);
		} else if (w < 70) {
			/* raw: odd length, empty */
			unsigned char bad[300];
			size_t bl = enc_raw(bad, r, s, c->nlen);
			const char *name;
			uint32_t t = vf_below(&rng, 4);
			if (t == 0) { bl --; name = "raw-odd-short"; }
			else if (t == 1) { memmove(bad + 1, bad, bl); bad[0] = 0; bl ++; name = "raw-odd-long"; }
			else if (t == 2) { bl = 0; name = "raw-empty"; }
			else { bl = 1; name = "raw-1byte"; }
			next_verifier(E, &im, &ev, 0);
			judge_must_reject(E, im, ev, qb, c->ptlen, hv, hl, bad, bl, name, idx);
		} else if (w < 86) {
			/* ASN.1 structure */
			unsigned char der[200], bad[260];
			size_t dl, bl;
			int kind, usemut = (int)(vf_u32(&rng) & 1), want = 1;
			const char *name = "?";
			BN_copy(r2, r); BN_copy(s2, s);
			if (usemut) {
				if (vf_u32(&rng) & 1) rand_scalar(r2, c); else rand_scalar(s2, c);
				want = ref_verify(c, Q, hv, hl, r2, s2);
			}
			dl = ref_der(der, sizeof der, r2, s2);
			bl = der_break((int)vf_below(&rng, N_DERBREAK), der, dl, bad, &kind, &name);
			next_verifier(E, &im, &ev, 1);
			if (kind == 0) {
				judge_must_reject(E, im, ev, qb, c->ptlen, hv, hl, bad, bl, name, idx);
			} else if (kind == 1) {
				uint32_t got = call_vrfy(im, ev, hv, hl, c->id, qb, c->ptlen, bad, bl);
				vf_distinct("ecdsa_cfg", "vrfy %s %s %s %s lenient", ev->name, im->name, c->name, name);
				if (got == 1) vf_distinct("lenient_der_accepted", "%s", name);
				if (!want) {
					vf_stat("cmp_vrfy_reject", 1);
					if (got != 0) {
						VIOL(mkkey2("vrfy-invalid-accepted", im, ev, c->name), "verifier accepted a signature that OpenSSL rejects (lenient DER form)",
							"seed=%lld i=%lld cls=%s Q=%s hash=%s sig=%s", g_seed, idx, name, vf_hexs(qb, c->ptlen), vf_hexs(hv, hl), vf_hexs(bad, bl));
					}
				} else {
					vf_stat("unjudged_lenient_der_valid", 1);
				}
			}
		} else if (w < 96) {
			/* invalid public key with a valid signature */
			unsigned char bad[300], sg[200];
			const char *name = "?";
			int icls = (int)vf_below(&rng, N_INVALID);
			size_t bl = make_invalid(c, icls, qb, bad, &name), sgl;
			if (bl == (size_t)-1) continue;
			next_verifier(E, &im, &ev, -1);
			BN_copy(r2, r); BN_copy(s2, s); memcpy(hv2, hv, hl); hl2 = hl;
			if (icls == 19) {
				/* x = p + x': an implementation that reduces coordinates sees the point
				 * (0, sqrt(b)); give it a signature that verifies under that point */
				unsigned char wb[140];
				EC_POINT *W;
				BIGNUM *xx = BN_new();
				memcpy(wb, bad, c->ptlen);
				BN_bin2bn(bad + 1, (int)c->plen, xx);
				BN_sub(xx, xx, c->p);
				BN_bn2binpad(xx, wb + 1, (int)c->plen);
				BN_free(xx);
				W = pt_decode(c, wb, c->ptlen);
				HASSERT(W != NULL, "x0-point");
				if (forge_for_point(c, W, r2, s2, hv2, &hl2)) {
					HASSERT(ref_verify(c, W, hv2, hl2, r2, s2), "forged-does-not-verify");
				}
				EC_POINT_free(W);
			}
			sgl = ev->asn1 ? ref_der(sg, sizeof sg, r2, s2) : enc_raw(sg, r2, s2, c->nlen);
			vf_stat("cmp_invalid_point", 1);
			judge_must_reject(E, im, ev, bad, bl, hv2, hl2, sg, sgl, name, idx);
		} else {
			/* implementation that does not support the curve: documented to return 0 */
			unsigned char sg[200];
			size_t sgl;
			uint32_t got;
			if (E->nunsup == 0) continue;
			im = E->unsup[vf_below(&rng, (uint32_t)E->nunsup)];
			ev = &ecdsas[vf_below(&rng, 4)];
			sgl = ev->asn1 ? ref_der(sg, sizeof sg, r, s) : enc_raw(sg, r, s, c->nlen);
			got = call_vrfy(im, ev, hv, hl, c->id, qb, c->ptlen, sg, sgl);
			vf_stat("cmp_unsupported_curve", 2);
			if (got != 0) VIOL(mkkey2("vrfy-unsupported-curve", im, ev, c->name), "verifier did not return 0 for an unsupported curve", "ret=%u", got);
			sgl = call_sign(im, ev, h, hv, c->id, xb, xl, sg, ev->asn1 ? c->max_asn1 : c->max_raw);
			if (sgl != 0) VIOL(mkkey2("sign-unsupported-curve", im, ev, c->name), "signer did not return 0 for an unsupported curve", "ret=%zu", sgl);
		}
	}

	/* ---- out-of-range private keys: executed, the outcome is not documented */
	if ((idx % 16) == 5) {
		unsigned char zx[80];
		size_t zl = c->nlen, got;
		if (idx & 16) { memset(zx, 0, zl); } else { BN_bn2binpad(c->n, zx, (int)zl); if (idx & 32) zx[zl - 1] ++; }
		got = call_sign(sim, sev, h, hv, c->id, zx, zl, sig, sev->asn1 ? c->max_asn1 : c->max_raw);
		vf_stat("unjudged_sign_bad_private_key", 1);
		vf_distinct("unjudged_cfg", "sign bad-private-key ret%s", got ? "!=0" : "=0");
	}
	BN_free(d); BN_free(k); BN_free(r); BN_free(s); BN_free(r2); BN_free(s2);
	EC_POINT_free(Q);
}

/* br_ecdsa_{sign,vrfy}_{raw,asn1}_get_default(): "the preferred implementation ... on the current system";
 * whatever they return must behave as an ECDSA signer / verifier: deterministic RFC 6979 signatures,
 * verdicts equal to the reference. Run with the default EC implementation (when it supports the curve)
 * and with one other implementation. */
static void
ecdsa_defaults(ecdsa_env *E, int nsig)
{
	curve_t *c = E->c;
	ecdsa_t dv[2];
	const impl_t *ims[2];
	impl_t defimpl;
	int nims = 0, i, f, j;
	BIGNUM *d = BN_new(), *k = BN_new(), *r = BN_new(), *s = BN_new(), *s2 = BN_new();
	EC_POINT *Q = EC_POINT_new(c->g);

	dv[0].name = "default_raw"; dv[0].sign = br_ecdsa_sign_raw_get_default(); dv[0].vrfy = br_ecdsa_vrfy_raw_get_default(); dv[0].asn1 = 0;
	dv[1].name = "default_asn1"; dv[1].sign = br_ecdsa_sign_asn1_get_default(); dv[1].vrfy = br_ecdsa_vrfy_asn1_get_default(); dv[1].asn1 = 1;
	for (f = 0; f < 2; f ++) {
		HASSERT(dv[f].sign != NULL && dv[f].vrfy != NULL, "ecdsa-default-null");
		vf_distinct("default_ecdsa", "sign_%s=%s", f ? "asn1" : "raw",
			dv[f].sign == ecdsas[f].sign ? "i15" : dv[f].sign == ecdsas[2 + f].sign ? "i31" : "other");
		vf_distinct("default_ecdsa", "vrfy_%s=%s", f ? "asn1" : "raw",
			dv[f].vrfy == ecdsas[f].vrfy ? "i15" : dv[f].vrfy == ecdsas[2 + f].vrfy ? "i31" : "other");
	}
	defimpl.name = "ec_default"; defimpl.impl = br_ec_get_default();
	if (impl_supports(defimpl.impl, c->id)) ims[nims ++] = &defimpl;
	ims[nims ++] = E->sup[(unsigned)g_seed % (unsigned)E->nsup];
	for (i = 0; i < nsig; i ++) {
		unsigned char qb[140], xb[96], hv[64], hv2[64], sig[160], want[160];
		size_t xl, hl, sl, wl;
		int h = i % NHASH;
		rng_case("ecdsa-default", c->name, "", i);
		rand_scalar(d, c);
		HASSERT(EC_POINT_mul(c->g, Q, d, NULL, NULL, bctx) == 1, "dG");
		pt_encode(c, Q, qb);
		xl = enc_scalar(xb, d, c, (i & 3) == 3 ? 2 : 0);
		hl = hlen_of[h];
		vf_bytes(&rng, hv, hl);
		ref_rfc6979_k(k, c, d, h, hv);
		HASSERT(ref_sign_k(c, r, s, d, k, hv, hl), "ref-sign-degenerate");
		HASSERT(ref_verify(c, Q, hv, hl, r, s), "ref-signature-does-not-verify");
		for (j = 0; j < nims; j ++) for (f = 0; f < 2; f ++) {
			const impl_t *im = ims[j];
			sl = call_sign(im, &dv[f], h, hv, c->id, xb, xl, sig, dv[f].asn1 ? c->max_asn1 : c->max_raw);
			if (dv[f].asn1) wl = ref_der(want, sizeof want, r, s); else wl = enc_raw(want, r, s, c->nlen);
			vf_stat("cmp_sign", 1);
			vf_stat("cmp_sign_default", 1);
			vf_distinct("ecdsa_cfg", "sign %s %s %s %s", dv[f].name, im->name, c->name, hname[h]);
			if (sl != wl || memcmp(sig, want, wl) != 0) {
				VIOL(mkkey2("sign-rfc6979", im, &dv[f], c->name), "signature made by the default signer differs from the RFC 6979 deterministic value",
					"seed=%lld i=%d hash=%s x=%s hv=%s len=%zu got=%s want=%s", g_seed, i, hname[h],
					vf_hexs(xb, xl), vf_hexs(hv, hl), sl, vf_hexs(sig, sl < 160 ? sl : 160), vf_hexs(want, wl));
			}
			/* the valid signature, then s+1 and another hash (verdict of the reference, normally reject) */
			vf_stat("cmp_vrfy_default", 3);
			judge_values(E, im, &dv[f], qb, c->ptlen, hv, hl, r, s, 1, i % 3, "valid", i);
			BN_copy(s2, s); BN_add_word(s2, 1);
			if (BN_cmp(s2, c->n) >= 0) BN_one(s2);
			judge_values(E, im, &dv[f], qb, c->ptlen, hv, hl, r, s2, ref_verify(c, Q, hv, hl, r, s2), 0, "s+1", i);
			memcpy(hv2, hv, hl); hv2[0] ^= 0x40;
			judge_values(E, im, &dv[f], qb, c->ptlen, hv2, hl, r, s, ref_verify(c, Q, hv2, hl, r, s), 0, "other-hash", i);
		}
	}
	BN_free(d); BN_free(k); BN_free(r); BN_free(s); BN_free(s2);
	EC_POINT_free(Q);
}

static void
run_ecdsa(curve_t *c, long long cases, int nverify, int nmut)
{
	ecdsa_env E;
	long long i;
	int j;
	memset(&E, 0, sizeof E);
	E.c = c;
	for (j = 0; j < nimpl; j ++) {
		if (impl_supports(impls[j].impl, c->id)) E.sup[E.nsup ++] = &impls[j];
		else E.unsup[E.nunsup ++] = &impls[j];
	}
	if (g_worker == 0) ecdsa_kat(&E);
	if (g_worker == 1 % g_nworkers) ecdsa_defaults(&E, g_thorough ? 60 : 6);
	for (i = 0; i < cases; i ++) {
		if ((i % g_nworkers) != g_worker) continue;
		rng_case("ecdsa", c->name, "", i);
		E.vr = i * 5;
		vf_stat("cases", 1);
		ecdsa_case(&E, i, nverify, nmut);
	}
}

/* ================================================================== */
/* raw <-> asn1 conversions */

static size_t
call_r2a(unsigned char *out, const unsigned char *raw, size_t rl)
{
	/* documented: in place, enlarges by no more than 9 bytes */
	unsigned char *b = malloc(rl + 9);
	size_t l;
	memset(b, 0xA5, rl + 9);
	memcpy(b, raw, rl);
	l = br_ecdsa_raw_to_asn1(b, rl);
	if (l <= rl + 9) memcpy(out, b, l);
	free(b);
	vf_stat("lib_calls", 1);
	return l;
}

static size_t
call_a2r(unsigned char *out, const unsigned char *der, size_t dl)
{
	/* documented: in place, result shorter than twice the source */
	size_t cap = dl ? 2 * dl : 1, l;
	unsigned char *b = malloc(cap);
	memset(b, 0xA5, cap);
	memcpy(b, der, dl);
	l = br_ecdsa_asn1_to_raw(b, dl);
	if (l <= cap) memcpy(out, b, l);
	free(b);
	vf_stat("lib_calls", 1);
	return l;
}

static void
run_conv(long long cases)
{
	long long i;
	BIGNUM *r = BN_new(), *s = BN_new();
	for (i = 0; i < cases; i ++) {
		unsigned char rb[130], sb[130], raw[300], der[300], got[600], back[600], exp[300];
		size_t rlen, slen, L, dl, gl, bl, z;
		uint32_t shape;
		if ((i % g_nworkers) != g_worker) continue;
		rng_case("conv", "", "", i);
		vf_stat("cases", 1);
		/* integers of 0..124 significant bytes; curve-sized ones favoured */
		shape = vf_below(&rng, 10);
		if (shape < 5) {
			static const size_t cl[3] = { 32, 48, 66 };
			rlen = slen = cl[vf_below(&rng, 3)];
		} else {
			rlen = vf_below(&rng, 125);
			slen = (vf_u32(&rng) & 1) ? rlen : vf_below(&rng, 125);
		}
		vf_bytes(&rng, rb, rlen); vf_bytes(&rng, sb, slen);
		if (rlen && (vf_u32(&rng) & 1)) rb[0] |= 0x80;
		if (slen && (vf_u32(&rng) & 1)) sb[0] |= 0x80;
		if (rlen == 66 && shape < 5) { rb[0] &= 1; sb[0] &= 1; }
		if (rlen > 1 && vf_below(&rng, 8) == 0) memset(rb, 0, 1 + vf_below(&rng, (uint32_t)rlen - 1));
		if (slen > 1 && vf_below(&rng, 8) == 0) memset(sb, 0, 1 + vf_below(&rng, (uint32_t)slen - 1));
		BN_bin2bn(rb, (int)rlen, r); BN_bin2bn(sb, (int)slen, s);
		z = min_common_len(r, s);
		L = rlen > slen ? rlen : slen;
		if (vf_below(&rng, 4) == 0 && L < 124) L += vf_below(&rng, (uint32_t)(124 - L) + 1);
		if (L > 124) L = 124;
		if (L < z) L = z;

		/* raw -> asn1 must be the canonical DER */
		enc_raw(raw, r, s, L);
		dl = ref_der(der, sizeof der, r, s);
		gl = call_r2a(got, raw, 2 * L);
		vf_stat("cmp_conv_r2a", 1);
		vf_distinct("conv_cfg", "r2a L%zu", L);
		if (gl != dl || memcmp(got, der, dl) != 0) {
			VIOL("C11:conv:raw_to_asn1-not-der", "br_ecdsa_raw_to_asn1 output differs from i2d_ECDSA_SIG",
				"seed=%lld i=%lld raw=%s ret=%zu want=%s", g_seed, i, vf_hexs(raw, 2 * L), gl, vf_hexs(der, dl));
			continue;
		}
		if (gl > 2 * L + 9) VIOL("C11:conv:raw_to_asn1-growth", "enlarged by more than 9 bytes", "L=%zu out=%zu", L, gl);
		/* asn1 -> raw: minimal common length, values preserved */
		bl = call_a2r(back, der, dl);
		if (z == 0) {
			vf_stat("unjudged_conv_both_zero", 1);
		} else if (dl < 8) {
			vf_stat("unjudged_conv_short_der", 1);
		} else {
			enc_raw(exp, r, s, z);
			vf_stat("cmp_conv_a2r", 1);
			if (bl != 2 * z || memcmp(back, exp, 2 * z) != 0) {
				VIOL("C11:conv:asn1_to_raw-values", "br_ecdsa_asn1_to_raw lost or altered the integers",
					"seed=%lld i=%lld der=%s ret=%zu want=%s", g_seed, i, vf_hexs(der, dl), bl, vf_hexs(exp, 2 * z));
				continue;
			}
			if (bl >= 2 * dl) VIOL("C11:conv:asn1_to_raw-growth", "raw length not below twice the asn1 length", "dl=%zu out=%zu", dl, bl);
			/* and back again: lossless */
			gl = call_r2a(got, back, bl);
			vf_stat("cmp_conv_roundtrip", 1);
			if (gl != dl || memcmp(got, der, dl) != 0) {
				VIOL("C11:conv:roundtrip", "raw_to_asn1(asn1_to_raw(der)) != der", "seed=%lld i=%lld der=%s", g_seed, i, vf_hexs(der, dl));
			}
		}
		/* odd raw length: documented error */
		if ((i & 3) == 0) {
			size_t ol = 2 * L + 1 - 2 * (size_t)(L > 0 && (i & 4));
			raw[2 * L] = 0;
			gl = call_r2a(got, raw, ol);
			vf_stat("cmp_conv_must_fail", 1);
			if (gl != 0) VIOL("C11:conv:raw_to_asn1-odd-accepted", "odd raw length not reported as an error", "len=%zu ret=%zu", ol, gl);
		}
		/* structurally invalid DER: documented error */
		if (dl >= 8 && dl <= 250) {
			unsigned char bad[320];
			int kind;
			const char *name = "?";
			size_t l = der_break((int)vf_below(&rng, N_DERBREAK), der, dl, bad, &kind, &name);
			if (kind == 0) {
				gl = call_a2r(got, bad, l);
				vf_stat("cmp_conv_must_fail", 1);
				vf_distinct("conv_cfg", "a2r %s", name);
				if (gl != 0) VIOL("C11:conv:asn1_to_raw-malformed-accepted", "invalid ASN.1 structure not reported as an error",
					"seed=%lld i=%lld cls=%s der=%s ret=%zu", g_seed, i, name, vf_hexs(bad, l), gl);
			} else if (kind == 1) {
				gl = call_a2r(got, bad, l);
				vf_stat("unjudged_conv_lenient", 1);
				vf_distinct("conv_cfg", "a2r %s %s", name, gl ? "accepted" : "rejected");
				/* if accepted, the integers must be the same ones */
				if (gl != 0 && z != 0) {
					enc_raw(exp, r, s, z);
					vf_stat("cmp_conv_a2r", 1);
					if (gl != 2 * z || memcmp(got, exp, gl) != 0) {
						VIOL("C11:conv:asn1_to_raw-values", "lenient form decoded to different integers",
							"seed=%lld i=%lld cls=%s der=%s", g_seed, i, name, vf_hexs(bad, l));
					}
				}
			}
		}
		/* random bytes: sanitizers only, plus the growth bound */
		if ((i & 7) == 1) {
			unsigned char junk[140];
			size_t jl = vf_below(&rng, 140);
			vf_bytes(&rng, junk, jl);
			if (jl > 4 && (vf_u32(&rng) & 1)) { junk[0] = 0x30; junk[1] = (unsigned char)(jl - 2); junk[2] = 2; }
			gl = call_a2r(got, junk, jl);
			vf_stat("conv_junk", 1);
			if (gl > (jl ? 2 * jl : 1)) VIOL("C11:conv:asn1_to_raw-growth", "raw length above twice the asn1 length", "in=%zu out=%zu", jl, gl);
		}
	}
	BN_free(r); BN_free(s);
}

/* ================================================================== */
/* key generation and public key computation */

static void
run_keygen(long long cases)
{
	long long i;
	int j, ci;
	br_hmac_drbg_context drbg;
	unsigned char seedb[32];

	for (j = 0; j < nimpl; j ++) {
		const impl_t *im = &impls[j];
		if ((j % g_nworkers) != g_worker) continue;
		for (ci = 0; ci < 4; ci ++) {
			int cid = ci < 3 ? curves[ci].id : BR_EC_curve25519;
			const char *cname = ci < 3 ? curves[ci].name : "C25519";
			size_t need, publen;
			long long n = cases;
			if (!impl_supports(im->impl, cid)) {
				/* documented: returns zero */
				br_ec_private_key sk0;
				unsigned char kb0[BR_EC_KBUF_PRIV_MAX_SIZE];
				unsigned char one[1] = { 1 };
				rng_case("keygen", im->name, cname, -1);
				vf_bytes(&rng, seedb, sizeof seedb);
				br_hmac_drbg_init(&drbg, &br_sha256_vtable, seedb, sizeof seedb);
				vf_stat("cmp_unsupported_curve", 2);
				if (br_ec_keygen(&drbg.vtable, im->impl, &sk0, kb0, cid) != 0)
					VIOL(mkkey("keygen-unsupported-curve", im, cname), "br_ec_keygen did not return 0 for an unsupported curve", "-");
				sk0.curve = cid; sk0.x = one; sk0.xlen = 1;
				if (br_ec_compute_pub(im->impl, NULL, NULL, &sk0) != 0)
					VIOL(mkkey("pubkey-unsupported-curve", im, cname), "br_ec_compute_pub did not return 0 for an unsupported curve", "-");
				continue;
			}
			/* P-521 on the i15 code is slow: fewer keys */
			if (ci == 2) n = (n + 3) / 4;
			for (i = 0; i < n; i ++) {
				br_ec_private_key sk;
				br_ec_public_key pk;
				unsigned char *kbuf, *pbuf, ref[140];
				size_t kl, pl, ol = 0;
				const unsigned char *ord;
				BIGNUM *x = BN_new(), *o = BN_new();

				rng_case("keygen", im->name, cname, i);
				vf_stat("cases", 1);
				vf_bytes(&rng, seedb, sizeof seedb);
				br_hmac_drbg_init(&drbg, (i & 1) ? &br_sha256_vtable : &br_sha1_vtable, seedb, sizeof seedb);
				need = br_ec_keygen(&drbg.vtable, im->impl, NULL, NULL, cid);
				if (need == 0 || need > BR_EC_KBUF_PRIV_MAX_SIZE) {
					VIOL(mkkey("keygen-length", im, cname), "br_ec_keygen(kbuf=NULL) length out of the documented range", "len=%zu", need);
					BN_free(x); BN_free(o);
					break;
				}
				kbuf = malloc(need);
				memset(&sk, 0, sizeof sk);
				kl = br_ec_keygen(&drbg.vtable, im->impl, (i & 2) ? NULL : &sk, kbuf, cid);
				vf_stat("lib_calls", 2);
				if (i & 2) { sk.curve = cid; sk.x = kbuf; sk.xlen = kl; }
				ord = im->impl->order(cid, &ol);
				BN_bin2bn(ord, (int)ol, o);
				vf_stat("cmp_keygen_range", 1);
				vf_distinct("keygen_cfg", "%s %s", im->name, cname);
				if (kl != need || sk.curve != cid || sk.x != kbuf || sk.xlen != kl) {
					VIOL(mkkey("keygen-fields", im, cname), "br_ec_keygen length / key structure fields inconsistent",
						"ret=%zu need=%zu curve=%d xlen=%zu", kl, need, sk.curve, sk.xlen);
				} else {
					BN_bin2bn(kbuf, (int)kl, x);
					if (BN_is_zero(x) || BN_cmp(x, o) >= 0) {
						VIOL(mkkey("keygen-range", im, cname), "generated private key not in [1, order-1]",
							"seed=%lld i=%lld x=%s", g_seed, i, vf_hexs(kbuf, kl));
					}
					/* public key */
					publen = br_ec_compute_pub(im->impl, NULL, NULL, &sk);
					if (publen == 0 || publen > BR_EC_KBUF_PUB_MAX_SIZE) {
						VIOL(mkkey("pubkey-length", im, cname), "br_ec_compute_pub(kbuf=NULL) length out of range", "len=%zu", publen);
					} else {
						pbuf = malloc(publen);
						memset(&pk, 0, sizeof pk);
						pl = br_ec_compute_pub(im->impl, (i & 4) ? NULL : &pk, pbuf, &sk);
						vf_stat("lib_calls", 2);
						if (i & 4) { pk.curve = cid; pk.q = pbuf; pk.qlen = pl; }
						vf_stat("cmp_pubkey", 1);
						if (ci < 3) {
							int okr = ref_mul(&curves[ci], ref, EC_GROUP_get0_generator(curves[ci].g), x);
							HASSERT(okr, "pub-ref");
							if (publen != curves[ci].ptlen) VIOL(mkkey("pubkey-length", im, cname), "public key length differs from the point length", "len=%zu", publen);
						} else {
							unsigned char nine[32];
							memset(nine, 0, 32); nine[0] = 9;
							ref_c25519(ref, kbuf, kl, nine);
						}
						if (pl != publen || pk.curve != cid || pk.q != pbuf || pk.qlen != pl || memcmp(pbuf, ref, pl) != 0) {
							VIOL(mkkey("pubkey-value", im, cname), "br_ec_compute_pub differs from x*G of the reference",
								"seed=%lld i=%lld x=%s got=%s want=%s", g_seed, i, vf_hexs(kbuf, kl), vf_hexs(pbuf, pl < 140 ? pl : 140), vf_hexs(ref, publen));
						}
						if (i == 0) vf_sample("{\"op\":\"keygen\",\"impl\":\"%s\",\"curve\":\"%s\",\"x\":\"%s\",\"pub\":\"%s\"}",
							im->name, cname, vf_hexs(kbuf, kl), vf_hexs(pbuf, pl < 140 ? pl : 140));
						free(pbuf);
						/* other encodings of a private key (bearssl_ec.h: "the encoding tolerates extra leading zeros";
						 * a short key is simply a small integer): minimal length, zero-padded beyond the order length,
						 * minimal + zeros, and a genuinely short key (1 .. order length - 1 bytes). The mul() entry accepts
						 * the same shapes; scalars longer than the order are not judged there when rejected, nor here. */
						{
							int shape;
							for (shape = 1; shape <= 4; shape ++) {
								unsigned char xb[100], ref2[140], *xe, *pb2;
								size_t xl2, pl2;
								br_ec_private_key sk2;
								br_ec_public_key pk2;
								if (!g_thorough && shape != 1 + (int)((i + j) & 3)) continue;
								if (ci < 3) {
									BIGNUM *x2 = BN_dup(x);
									if (shape == 4) {
										size_t l = 1 + vf_below(&rng, (uint32_t)curves[ci].nlen - 1);
										vf_bytes(&rng, xb, l);
										BN_bin2bn(xb, (int)l, x2);
										if (BN_is_zero(x2)) BN_one(x2);
										xl2 = enc_scalar(xb, x2, &curves[ci], (int)(vf_u32(&rng) & 1) ? 1 : 3);
									} else {
										xl2 = enc_scalar(xb, x2, &curves[ci], shape);
									}
									HASSERT(ref_mul(&curves[ci], ref2, EC_GROUP_get0_generator(curves[ci].g), x2), "pub-ref2");
									BN_free(x2);
								} else {
									unsigned char nine[32];
									/* Curve25519: short scalar only (longer than 32 bytes is not documented) */
									if (shape != 4 && g_thorough) continue;
									xl2 = 1 + vf_below(&rng, 31);
									vf_bytes(&rng, xb, xl2);
									memset(nine, 0, 32); nine[0] = 9;
									ref_c25519(ref2, xb, xl2, nine);
								}
								xe = vf_dup(xb, xl2);
								pb2 = malloc(publen);
								memset(pb2, 0xA5, publen);
								sk2.curve = cid; sk2.x = xe; sk2.xlen = xl2;
								memset(&pk2, 0, sizeof pk2);
								pl2 = br_ec_compute_pub(im->impl, &pk2, pb2, &sk2);
								vf_stat("lib_calls", 1);
								vf_distinct("keygen_cfg", "%s %s pub-shape%d", im->name, cname, ci < 3 ? shape : 4);
								if (pl2 == 0 && ci < 3 && xl2 > curves[ci].nlen) {
									vf_stat("unjudged_pubkey_long_scalar_rejected", 1);
								} else {
									vf_stat("cmp_pubkey", 1);
									vf_stat("cmp_pubkey_encoding_shapes", 1);
									if (pl2 != publen || pk2.q != pb2 || pk2.qlen != pl2 || pk2.curve != cid || memcmp(pb2, ref2, publen) != 0) {
										VIOL(mkkey("pubkey-value", im, cname), "br_ec_compute_pub differs from x*G of the reference (short / zero-padded private key encoding)",
											"seed=%lld i=%lld shape=%d x=%s ret=%zu got=%s want=%s", g_seed, i, shape, vf_hexs(xb, xl2), pl2,
											vf_hexs(pb2, publen), vf_hexs(ref2, publen));
									}
								}
								free(xe); free(pb2);
							}
						}
					}
				}
				free(kbuf);
				BN_free(x); BN_free(o);
			}
		}
	}
}

/* a generator that first returns scripted candidates, then falls back to a real HMAC_DRBG */
typedef struct {
	const br_prng_class *vtable;
	unsigned char cand[6][80];
	int n, pos, calls;
	size_t len;
	br_hmac_drbg_context fb;
} script_rng;

static void sr_init(const br_prng_class **c, const void *p, const void *s, size_t l) { (void)c; (void)p; (void)s; (void)l; }
static void sr_update(const br_prng_class **c, const void *s, size_t l) { (void)c; (void)s; (void)l; }
static void
sr_generate(const br_prng_class **c, void *out, size_t len)
{
	script_rng *sr = (script_rng *)(void *)c;
	sr->calls ++;
	if (sr->pos < sr->n && len == sr->len) memcpy(out, sr->cand[sr->pos ++], len);
	else br_hmac_drbg_generate(&sr->fb, out, len);
}
static const br_prng_class script_rng_vtable = { sizeof(script_rng), sr_init, sr_generate, sr_update };

/*
 * Rejection sampling of br_ec_keygen under scripted generator outputs: candidates that are zero, equal to the
 * order, above it, all-ones (within the bit length of the order), in every order of up to three rejected
 * candidates before a valid one: the key returned must be the first candidate in [1, n-1].
 */
static char ks_case[300];

static void
run_keygen_scripted(void)
{
	int j, ci;
	for (j = 0; j < nimpl; j ++) {
		const impl_t *im = &impls[j];
		if ((j % g_nworkers) != g_worker) continue;
		for (ci = 0; ci < 3; ci ++) {
			curve_t *c = &curves[ci];
			size_t ol = 0, L;
			const unsigned char *ord;
			unsigned char bad[4][80], good[3][80];
			unsigned topmask;
			int a, b2, d, g, nbad;
			if (!impl_supports(im->impl, c->id)) continue;
			ord = im->impl->order(c->id, &ol);
			L = ol;
			/* bad candidates: 0, n, n+1 (or n with another low byte), all ones under the top-byte mask */
			memset(bad[0], 0, L);
			memcpy(bad[1], ord, L);
			memcpy(bad[2], ord, L); bad[2][L - 1] = (unsigned char)(bad[2][L - 1] + 1); if (bad[2][L - 1] == 0) bad[2][L - 2] ++;
			topmask = 0xFF; while ((topmask >> 1) >= ord[0]) topmask >>= 1;
			memset(bad[3], 0xFF, L); bad[3][0] = (unsigned char)topmask;
			/* good candidates: 1, n-1, a middle value */
			memset(good[0], 0, L); good[0][L - 1] = 1;
			memcpy(good[1], ord, L); good[1][L - 1] = (unsigned char)(good[1][L - 1] - 1);
			memcpy(good[2], ord, L); good[2][0] = 0; good[2][1] ^= 0x5A;
			for (nbad = 0; nbad <= 3; nbad ++) for (a = 0; a < 4; a ++) for (b2 = 0; b2 < 4; b2 ++) for (d = 0; d < 4; d ++) for (g = 0; g < 3; g ++) {
				script_rng sr;
				br_ec_private_key sk;
				unsigned char kbuf[BR_EC_KBUF_PRIV_MAX_SIZE];
				size_t kl;
				int seq[3];
				if ((nbad < 1 && a) || (nbad < 2 && b2) || (nbad < 3 && d)) continue;
				seq[0] = a; seq[1] = b2; seq[2] = d;
				memset(&sr, 0, sizeof sr);
				sr.vtable = &script_rng_vtable; sr.len = L; sr.n = nbad + 1;
				{ int q; for (q = 0; q < nbad; q ++) memcpy(sr.cand[q], bad[seq[q]], L); }
				memcpy(sr.cand[nbad], good[g], L);
				br_hmac_drbg_init(&sr.fb, &br_sha256_vtable, "scripted", 8);
				snprintf(ks_case, sizeof ks_case, "seed=%lld keygen-scripted impl=%s curve=%s rejected=%d(%d,%d,%d) then good#%d", g_seed, im->name, c->name, nbad, a, b2, d, g);
				vf_cur_case = ks_case;
				memset(kbuf, 0xA5, sizeof kbuf);
				kl = br_ec_keygen(&sr.vtable, im->impl, &sk, kbuf, c->id);
				vf_stat("cmp_keygen_scripted", 1);
				vf_stat("lib_calls", 1);
				vf_distinct("keygen_script", "%s %d:%d%d%d", c->name, nbad, a, b2, d);
				if (kl != L || memcmp(kbuf, good[g], L) != 0) {
					VIOL(mkkey("keygen-rejection-sampling", im, c->name), "br_ec_keygen did not return the first generator output lying in [1, order-1]",
						"rejected=%d(%d,%d,%d) good#%d len=%zu got=%s generator-calls=%d", nbad, a, b2, d, g, kl, vf_hexs(kbuf, L), sr.calls);
				}
			}
		}
	}
}

/* ================================================================== */

static double
now(void)
{
	struct timespec ts;
	clock_gettime(CLOCK_MONOTONIC, &ts);
	return (double)ts.tv_sec + 1e-9 * (double)ts.tv_nsec;
}

/* development aid: cost of one mul per implementation x curve (stderr only) */
static void
run_time(void)
{
	int j, ci;
	for (j = 0; j < nimpl; j ++) for (ci = 0; ci < 4; ci ++) {
		int cid = ci < 3 ? curves[ci].id : BR_EC_curve25519;
		unsigned char g[140], k[66];
		size_t gl, ol;
		const unsigned char *gp;
		double t0;
		int n;
		if (!impl_supports(impls[j].impl, cid)) continue;
		gp = impls[j].impl->generator(cid, &gl);
		impls[j].impl->order(cid, &ol);
		memset(k, 0x55, sizeof k); k[0] = 0;
		t0 = now();
		for (n = 0; n < 5; n ++) { memcpy(g, gp, gl); impls[j].impl->mul(g, gl, k, ol, cid); }
		fprintf(stderr, "%-12s %-7s mul %.2f ms\n", impls[j].name, ci < 3 ? curves[ci].name : "C25519", (now() - t0) * 200.0);
	}
}

int
main(int argc, char **argv)
{
	const char *mode = vf_arg(argc, argv, "--mode", "arith");
	const char *iname = vf_arg(argc, argv, "--impl", "prime_i15");
	const char *cname = vf_arg(argc, argv, "--curve", "P256");
	long long cases = vf_argi(argc, argv, "--cases", 10);

	g_seed = vf_argi(argc, argv, "--seed", 1);
	g_worker = vf_argi(argc, argv, "--worker", 0);
	g_nworkers = vf_argi(argc, argv, "--nworkers", 1);
	g_thorough = (int)vf_argi(argc, argv, "--thorough", 0);
	if (g_nworkers < 1) g_nworkers = 1;
	vf_max_samples = 2;
	bctx = BN_CTX_new();
	init_impls();
	init_curves();
	init_25519();
	{
		/* which implementation is the default one */
		const br_ec_impl *d = br_ec_get_default();
		int j;
		for (j = 0; j < nimpl; j ++) if (impls[j].impl == d) vf_distinct("default_impl", "%s", impls[j].name);
	}

	if (!strcmp(mode, "arith")) {
		const impl_t *im = find_impl(iname);
		if (im == NULL) {
			/* not available on this CPU: nothing to observe */
			vf_stat("impl_not_available", 1);
		} else if (!strcmp(cname, "C25519")) {
			HASSERT(impl_supports(im->impl, BR_EC_curve25519), "curve-not-supported");
			arith_c25519(im, cases);
		} else {
			curve_t *c = find_curve(cname);
			HASSERT(c != NULL && impl_supports(im->impl, c->id), "curve-not-supported");
			arith_nist(im, c, cases);
		}
	} else if (!strcmp(mode, "ecdsa")) {
		curve_t *c = find_curve(cname);
		HASSERT(c != NULL, "curve");
		run_ecdsa(c, cases, (int)vf_argi(argc, argv, "--nverify", 3), (int)vf_argi(argc, argv, "--nmut", 4));
	} else if (!strcmp(mode, "conv")) {
		run_conv(cases);
	} else if (!strcmp(mode, "keygen")) {
		run_keygen(cases);
		run_keygen_scripted();
	} else if (!strcmp(mode, "time")) {
		run_time();
	} else {
		HASSERT(0, "mode");
	}
	vf_done();
	return 0;
}
