/*
 * C06 explorer: bounded exhaustive enumeration of caller schedules over real
 * engine contexts using snapshot/restore. From each start state (every k-th
 * step of a reference handshake and a set of data-phase states) all sequences
 * of API actions up to depth d are executed on both endpoints; tp_check()
 * (the coherence monitor) runs after every call and the position-coded
 * stream oracle checks every byte read.
 */
#include "tlspair.h"

typedef struct {
	tp_snap c, s;
	unsigned char *f0, *f1;
	size_t f0len, f1len;
	uint64_t f0total, f1total;
} world_snap;

static tp_pair W;

static void
world_take(world_snap *ws)
{
	tp_snap_take(&ws->c, &W.c);
	tp_snap_take(&ws->s, &W.s);
	ws->f0len = tp_fifo_len(&W.c2s);
	ws->f1len = tp_fifo_len(&W.s2c);
	ws->f0 = vf_dup(W.c2s.data + W.c2s.rd, ws->f0len);
	ws->f1 = vf_dup(W.s2c.data + W.s2c.rd, ws->f1len);
	ws->f0total = W.c2s.total; ws->f1total = W.s2c.total;
}

static void
world_restore(const world_snap *ws)
{
	tp_snap_restore(&ws->c, &W.c);
	tp_snap_restore(&ws->s, &W.s);
	W.c2s.rd = W.c2s.wr = 0; tp_fifo_put(&W.c2s, ws->f0, ws->f0len); W.c2s.total = ws->f0total;
	W.s2c.rd = W.s2c.wr = 0; tp_fifo_put(&W.s2c, ws->f1, ws->f1len); W.s2c.total = ws->f1total;
}

static void
world_free(world_snap *ws)
{
	tp_snap_free(&ws->c); tp_snap_free(&ws->s);
	free(ws->f0); free(ws->f1);
}

static uint64_t
ep_hash(const tp_ep *ep, uint64_t h)
{
	size_t cl = ep->cfg.role == 0 ? sizeof(br_ssl_client_context) : sizeof(br_ssl_server_context);
	const void *c = ep->cfg.role == 0 ? (const void *)ep->cc : (const void *)ep->sc;
	h = vf_raw_fnv(c, cl, h);
	h = vf_fnv(ep->buf, ep->buf_len > 6000 ? 2048 : ep->buf_len, h);
	if (ep->buf_out) h = vf_fnv(ep->buf_out, ep->buf_out_len > 6000 ? 2048 : ep->buf_out_len, h);
	h = vf_fnv(&ep->tx_done, sizeof ep->tx_done, h);
	h = vf_fnv(&ep->rx_done, sizeof ep->rx_done, h);
	h = vf_fnv(&ep->closed_seen, sizeof ep->closed_seen, h);
	h = vf_fnv(&ep->pending_ack, sizeof ep->pending_ack, h);
	return h;
}

static uint64_t
world_hash(void)
{
	uint64_t h = ep_hash(&W.c, 0);
	h = ep_hash(&W.s, h);
	h = vf_fnv(W.c2s.data + W.c2s.rd, tp_fifo_len(&W.c2s), h);
	h = vf_fnv("|", 1, h);
	h = vf_fnv(W.s2c.data + W.s2c.rd, tp_fifo_len(&W.s2c), h);
	return h;
}

/* visited set: hash -> max remaining depth explored from it */
#define VSIZE (1u << 22)
static uint64_t *vkeys;
static unsigned char *vdepth;
static long long n_states, n_trans, n_dedup, n_closed_trans, n_honest_fail;

static int
visit(uint64_t h, int remaining)
{
	uint32_t i = (uint32_t)(h >> 13) & (VSIZE - 1), n;
	h |= 1;
	for (n = 0; n < 128; n ++) {
		uint32_t j = (i + n) & (VSIZE - 1);
		if (vkeys[j] == h) {
			if (vdepth[j] >= remaining) return 0;
			vdepth[j] = (unsigned char)remaining;
			return 1;
		}
		if (vkeys[j] == 0) {
			vkeys[j] = h; vdepth[j] = (unsigned char)remaining;
			n_states ++;
			return 1;
		}
	}
	return 1;   /* table crowded: explore anyway */
}

/* action alphabet: 14 per endpoint (the last two: completion-style output - bytes go to the transport now, the
 * acknowledgement reaches the engine later, possibly after other calls) */
#define NACT 28
#define NA1 14
static const char *act_names[NA1] = {
	"sendrec_ack(1)", "sendrec_ack(all)", "recvrec_ack(1)", "recvrec_ack(all)",
	"sendapp_ack(1)", "sendapp_ack(all)", "recvapp_ack(1)", "recvapp_ack(all)",
	"flush(0)", "flush(1)", "close", "renegotiate", "sendrec_take(all)", "sendrec_ack(taken)"
};
static long long act_count[NA1];

/* returns 1 if the action was applicable (and was applied) */
static int
apply(int a)
{
	tp_ep *ep = a < NA1 ? &W.c : &W.s;
	tp_fifo *out = a < NA1 ? &W.c2s : &W.s2c;
	tp_fifo *in = a < NA1 ? &W.s2c : &W.c2s;
	size_t len;
	int k = a % NA1;
	switch (k) {
	case 12: {
		unsigned char *b;
		/* only with separate output memory: with a shared buffer nothing else can happen before the ack */
		if (ep->cfg.layout == TP_LAYOUT_MONO || ep->pending_ack) return 0;
		b = br_ssl_engine_sendrec_buf(ep->eng, &len);
		if (b == NULL) return 0;
		tp_fifo_put(out, b, len);
		ep->bytes_out += len;
		ep->pending_ack = len;
		break;
	}
	case 13:
		if (!ep->pending_ack) return 0;
		len = ep->pending_ack; ep->pending_ack = 0;
		br_ssl_engine_sendrec_ack(ep->eng, len);
		tp_calls ++; tp_check(ep, "sendrec_ack (deferred)");
		break;
	case 0: case 1:
		if (ep->pending_ack) return 0;       /* those bytes are already with the transport */
		if (!br_ssl_engine_sendrec_buf(ep->eng, &len)) return 0;
		if (k == 0 && len == 1) return 0;   /* same as "all" */
		tp_act_sendrec(ep, out, k == 0 ? 1 : len);
		break;
	case 2: case 3:
		if (!br_ssl_engine_recvrec_buf(ep->eng, &len) || tp_fifo_len(in) == 0) return 0;
		if (len > tp_fifo_len(in)) len = tp_fifo_len(in);
		if (k == 2 && len == 1) return 0;
		tp_act_recvrec(ep, in, k == 2 ? 1 : len);
		break;
	case 4: case 5:
		if (!br_ssl_engine_sendapp_buf(ep->eng, &len)) return 0;
		if (k == 4 && len == 1) return 0;
		if (len > 300) len = 300;
		tp_act_write(ep, k == 4 ? 1 : len);
		break;
	case 6: case 7:
		if (!br_ssl_engine_recvapp_buf(ep->eng, &len)) return 0;
		if (k == 6 && len == 1) return 0;
		tp_act_read(ep, k == 6 ? 1 : len);
		break;
	case 8: tp_act_flush(ep, 0); break;
	case 9: tp_act_flush(ep, 1); break;
	case 10: tp_act_close(ep); break;
	default: {
		int was_closed = tp_ep_closed(ep);
		int r = tp_act_reneg(ep);
		if (was_closed && r != 0) TP_VIOL("c06:renegotiate-on-closed", "br_ssl_engine_renegotiate returned non-zero on a closed engine");
		break;
	}
	}
	act_count[k] ++;
	return 1;
}

static char path[400];
static int small_server_big_client;
static int start_failed;      /* the start state holds an endpoint that failed on purpose: later failures of its peer are not judged by the honest-failure oracle */
static int start_has_reneg;   /* the start state already contains a renegotiation request */
static char case_start[700];

static void
explore(int remaining)
{
	world_snap ws;
	int a;
	size_t pl = strlen(path);
	if (remaining == 0) return;
	world_take(&ws);
	for (a = 0; a < NACT; a ++) {
		uint64_t h;
		snprintf(path + pl, sizeof path - pl, " %c.%s", a < NA1 ? 'c' : 's', act_names[a % NA1]);
		snprintf(tp_case, sizeof tp_case, "%s%s", case_start, path);
		if (!apply(a)) { path[pl] = 0; continue; }
		n_trans ++;
		if (tp_ep_closed(&W.c) || tp_ep_closed(&W.s)) n_closed_trans ++;
		/* both endpoints are honest and the transport is faithful: no engine may ever fail */
		{
			int ec = br_ssl_engine_last_error(W.c.eng), es = br_ssl_engine_last_error(W.s.eng);
			if (ec == 0 && es == BR_ERR_TOO_LARGE && small_server_big_client) {
				/* a client with full-size buffers facing a server with minimum buffers (configurations 1, 2, 6: there for
				   the handshake records larger than the server's input buffer): nothing tells that client to send small
				   records (the extension only lets a client ask), so a large write of its application is refused by
				   the server as documented: not a failure of an honest deployment the library could avoid */
				vf_stat("unjudged_large_record_to_small_server", 1);
				world_restore(&ws);
				path[pl] = 0;
				continue;
			}
			if ((ec != 0 || es != 0) && !start_failed) {
				char key[80], what[200];
				int reneg = start_has_reneg || strstr(path, "renegotiate") != NULL;
				int e = ec ? ec : es;
				/* application data crossing a renegotiation request fails with UNEXPECTED: same root cause as the C19 finding */
				/* known behaviour, with its precise signature: the failing engine is inside a handshake (renegotiation) and the
				   record it choked on is application data */
				br_ssl_engine_context *fe = ec ? W.c.eng : W.s.eng;
				if (e == BR_ERR_UNEXPECTED && reneg && fe->record_type_in == 23 /* application_data */ && (fe->application_data & 1) == 0)
					snprintf(key, sizeof key, "honest-failure:data-crossing-renegotiation");
				else snprintf(key, sizeof key, "honest-failure:error-%d", e);
				snprintf(what, sizeof what, "engine failed (client err=%d, server err=%d) although both peers are honest and every byte was delivered in order", ec, es);
				TP_VIOL(key, what);
				n_honest_fail ++;
				world_restore(&ws);
				path[pl] = 0;
				continue;
			}
		}
		h = world_hash();
		if (visit(h, remaining - 1)) {
			explore(remaining - 1);
		} else {
			n_dedup ++;
		}
		world_restore(&ws);
		path[pl] = 0;
	}
	world_free(&ws);
}

static char case_base[600];

static void
explore_from_here(int depth, const char *start_name, long start_idx)
{
	snprintf(case_base, sizeof case_base, "%s", tp_case);
	path[0] = 0;
	/* the case string carries the start state and (through `path`) the action sequence */
	snprintf(case_start, sizeof case_start, "%s start=%s#%ld path=", case_base, start_name, start_idx);
	snprintf(tp_case, sizeof tp_case, "%s", case_start);
	vf_stat("start_states", 1);
	visit(world_hash(), depth);
	explore(depth);
	snprintf(tp_case, sizeof tp_case, "%s", case_base);
}

/* tp_case shows the path lazily: TP_VIOL prints tp_case, so keep it in sync */
static void sync_case(void) {}

int
main(int argc, char **argv)
{
	long long seed = vf_argi(argc, argv, "--seed", 1);
	int worker = (int)vf_argi(argc, argv, "--worker", 0);
	int nworkers = (int)vf_argi(argc, argv, "--nworkers", 1);
	int depth = (int)vf_argi(argc, argv, "--depth", 4);
	int stride = (int)vf_argi(argc, argv, "--stride", 8);
	int nconf = (int)vf_argi(argc, argv, "--configs", 8);
	int conf;
	long startno = 0;
	/* configurations 0-5 and 6-11 use the same layouts and sizes with other record protections: 3DES also at TLS 1.0
	   (1 / n-1 split with 8-byte blocks), SHA-256 CBC, CCM_8, AES-256 */
	static const uint16_t mode_suites_a[6] = { 0x002F, 0x009C, 0xC09C, 0xCCA8, 0x000A, 0xC02B };
	static const unsigned mode_ver_a[6] = { 0x0301, 0x0303, 0x0303, 0x0303, 0x0302, 0x0303 };
	static const uint16_t mode_suites_b[6] = { 0x000A, 0x003C, 0xC0A1, 0xCCA9, 0x0035, 0xC030 };
	static const unsigned mode_ver_b[6] = { 0x0301, 0x0303, 0x0303, 0x0303, 0x0302, 0x0303 };
	const uint16_t *mode_suites = mode_suites_a;
	const unsigned *mode_ver = mode_ver_a;

	(void)sync_case;
	tp_prop = "C06";
	vkeys = calloc(VSIZE, sizeof *vkeys);
	vdepth = calloc(VSIZE, 1);

	for (conf = 0; conf < nconf; conf ++) {
		tp_cfg cc, sc;
		uint16_t sl[1];
		vf_rng r;
		int layout = conf % 3, big = (conf / 3) % 2, mode = conf % 6;
		long step = 0;
		int phase;

		mode_suites = conf >= 6 ? mode_suites_b : mode_suites_a;
		mode_ver = conf >= 6 ? mode_ver_b : mode_ver_a;
		vf_rng_init(&r, (uint64_t)seed, (uint64_t)conf);
		tp_cfg_default(&cc, 0);
		tp_cfg_default(&sc, 1);
		cc.layout = sc.layout = layout;
		if (layout == TP_LAYOUT_MONO) cc.buflen = sc.buflen = big ? BR_SSL_BUFSIZE_MONO : 512 + 325;
		else if (layout == TP_LAYOUT_SPLIT1) cc.buflen = sc.buflen = big ? BR_SSL_BUFSIZE_BIDI : 512 + 325 + 512 + 85;
		else {
			cc.buflen = sc.buflen = big ? BR_SSL_BUFSIZE_INPUT : 512 + 325;
			cc.buflen_out = sc.buflen_out = big ? BR_SSL_BUFSIZE_OUTPUT : 512 + 85;
		}
		if (conf >= 9 && conf <= 11) {
			/* in-between sizes, input and output parts in different fragment-length classes: a half-duplex buffer of the
			   2048 class, a 4096-byte buffer split by the engine (input 3499 / output 597), a full-size input buffer
			   with a minimum output buffer */
			if (layout == TP_LAYOUT_MONO) cc.buflen = sc.buflen = 2048 + 325;
			else if (layout == TP_LAYOUT_SPLIT1) cc.buflen = sc.buflen = 4096;
			else { cc.buflen = sc.buflen = BR_SSL_BUFSIZE_INPUT; cc.buflen_out = sc.buflen_out = 512 + 85; }
		}
		small_server_big_client = (conf == 1 || conf == 2 || conf == 6);
		if (conf == 1 || conf == 2 || conf == 6) {   /* the three layouts at minimum size */
			/* client authentication; the client keeps full-size buffers whatever the server has, so that a small
			   server receives unencrypted handshake records (certificate chain) larger than its whole input buffer */
			cc.client_auth = 1; sc.client_auth = 1;
			if (cc.layout == TP_LAYOUT_MONO) cc.buflen = BR_SSL_BUFSIZE_MONO;
			else if (cc.layout == TP_LAYOUT_SPLIT1) cc.buflen = BR_SSL_BUFSIZE_BIDI;
			else { cc.buflen = BR_SSL_BUFSIZE_INPUT; cc.buflen_out = BR_SSL_BUFSIZE_OUTPUT; }
		}
		sl[0] = mode_suites[mode];
		cc.suites = sl; cc.nsuites = 1;
		cc.vmin = cc.vmax = mode_ver[mode];
		sc.keykind = tp_key_for_suite(tp_suite_find(sl[0]), 0);
		vf_bytes(&r, cc.seed, 32); vf_bytes(&r, sc.seed, 32);
		tp_pair_init(&W, (uint64_t)seed, (uint64_t)conf, (conf & 1) ? TP_CHUNK_SMALL : TP_CHUNK_WHOLE);
		snprintf(tp_case, sizeof tp_case, "seed=%lld conf=%d suite=%04x ver=%04x layout=%d big=%d depth=%d",
			seed, conf, sl[0], mode_ver[mode], layout, big, depth);
		if (conf % 4 == 3) {
			/* configurations 3, 7, 11: both contexts have already carried a connection (ended in order, abandoned with
			   records in flight, failed on a bad record): everything explored below runs on contexts that were reset */
			tp_cfg c0 = cc, s0 = sc;
			memset(c0.seed, 0x17 + conf, 32); memset(s0.seed, 0x29 + conf, 32);
			if (tp_ep_start(&W.c, &c0) && tp_ep_start(&W.s, &s0) && tp_handshake(&W, 1000000)) {
				W.c.tx_key = 0x3333; W.s.tx_key = 0x4444; W.c.rx_key = W.s.tx_key; W.s.rx_key = W.c.tx_key;
				tp_run_data(&W, 700, 900, TP_W_MIXED, 1000000);
				if (conf == 3) tp_run_close(&W, 0, 100000);
				else if (conf == 7) { tp_act_write(&W.c, 50); tp_act_flush(&W.c, 0); tp_act_write(&W.s, 50); }
				else {
					static const unsigned char junk[21] = { 23, 3, 3, 0, 16, 9, 9, 9, 9, 9, 9, 9, 9, 9, 9, 9, 9, 9, 9, 9, 9 };
					tp_fifo_put(&W.s2c, junk, sizeof junk);
					tp_act_recvrec(&W.c, &W.s2c, 100000); tp_act_recvrec(&W.c, &W.s2c, 100000);
				}
				vf_stat("configurations_on_used_contexts", 1);
			}
			W.c2s.rd = W.c2s.wr = 0; W.s2c.rd = W.s2c.wr = 0;
			cc.reuse_ctx = 1; sc.reuse_ctx = 1;
		}
		if (!tp_ep_start(&W.c, &cc) || !tp_ep_start(&W.s, &sc)) {
			TP_VIOL("setup:reset-failed", "reset returned 0");
			tp_pair_free(&W);
			continue;
		}
		W.c.tx_key = 0x1111 + (uint64_t)conf; W.s.tx_key = 0x2222 + (uint64_t)conf;
		W.c.rx_key = W.s.tx_key; W.s.rx_key = W.c.tx_key;
		vf_distinct("config", "%04x/%04x/l%d/b%d/ca%d/%zu+%zu", sl[0], mode_ver[mode], layout, big, cc.client_auth, sc.buflen, sc.buflen_out);

		/* handshake phase: explore from every stride-th pump step */
		for (;;) {
			if ((startno ++ % nworkers) == worker && (step % stride) == 0) {
				explore_from_here(depth, "handshake-step", step);
			}
			if (tp_ep_ready(&W.c) && tp_ep_ready(&W.s)
				&& tp_fifo_len(&W.c2s) == 0 && tp_fifo_len(&W.s2c) == 0) break;
			if (!tp_pump_step(&W)) break;
			step ++;
			if (step > 100000) break;
		}
		vf_max("handshake_steps", step);
		if (!(tp_ep_ready(&W.c) && tp_ep_ready(&W.s))) {
			TP_VIOL("handshake:incomplete", "reference handshake did not complete");
			tp_pair_free(&W);
			continue;
		}
		/* data-phase start states, built by scripted prefixes */
		for (phase = 0; phase < 20; phase ++) {
			world_snap base;
			world_take(&base);
			switch (phase) {
			case 0: break;                                         /* idle */
			case 1: tp_act_write(&W.c, 10); break;                 /* unflushed data */
			case 2: tp_act_write(&W.c, 10); tp_act_flush(&W.c, 0); break;   /* record ready */
			case 3: tp_act_write(&W.c, 10); tp_act_flush(&W.c, 0);
				tp_act_sendrec(&W.c, &W.c2s, 100000); tp_act_recvrec(&W.s, &W.c2s, 3); break;   /* partial header in */
			case 4: tp_act_write(&W.c, 10); tp_act_flush(&W.c, 0);
				tp_act_sendrec(&W.c, &W.c2s, 100000); tp_act_recvrec(&W.s, &W.c2s, 100000);
				tp_act_recvrec(&W.s, &W.c2s, 100000); break;       /* unread app data at server */
			case 5: tp_act_write(&W.s, 7); tp_act_write(&W.c, 9); tp_act_flush(&W.s, 0); tp_act_flush(&W.c, 0);
				tp_act_sendrec(&W.s, &W.s2c, 100000); tp_act_sendrec(&W.c, &W.c2s, 100000); break;   /* crossing records */
			case 6: tp_act_close(&W.c); break;                     /* after close request */
			case 7: tp_act_close(&W.c); tp_act_sendrec(&W.c, &W.c2s, 100000);
				tp_act_recvrec(&W.s, &W.c2s, 100000); tp_act_recvrec(&W.s, &W.c2s, 100000); break;   /* peer got close_notify */
			case 8: tp_act_reneg(&W.c); break;                     /* renegotiation requested by client */
			case 10: tp_act_write(&W.c, 9); tp_act_flush(&W.c, 0); tp_act_sendrec(&W.c, &W.c2s, 100000);
				tp_act_flush(&W.s, 1); tp_act_recvrec(&W.s, &W.c2s, 5); break;   /* forced empty record pending at the server, header of a client record already accepted */
			case 11: tp_act_write(&W.s, 9); tp_act_flush(&W.s, 0); tp_act_sendrec(&W.s, &W.s2c, 100000);
				tp_act_flush(&W.c, 1); tp_act_recvrec(&W.c, &W.s2c, 5); break;   /* the same, roles swapped */
			/* the peer's close_notify arrives while own application data is still buffered / in flight */
			case 12: tp_act_write(&W.s, 10); tp_act_close(&W.c); tp_act_sendrec(&W.c, &W.c2s, 100000);
				tp_act_recvrec(&W.s, &W.c2s, 100000); tp_act_recvrec(&W.s, &W.c2s, 100000); break;
			case 13: tp_act_write(&W.c, 10); tp_act_close(&W.s); tp_act_sendrec(&W.s, &W.s2c, 100000);
				tp_act_recvrec(&W.c, &W.s2c, 100000); tp_act_recvrec(&W.c, &W.s2c, 100000); break;
			case 14: tp_act_write(&W.s, 10); tp_act_flush(&W.s, 0); tp_act_sendrec(&W.s, &W.s2c, 3);
				tp_act_close(&W.c); tp_act_sendrec(&W.c, &W.c2s, 100000);
				tp_act_recvrec(&W.s, &W.c2s, 100000); tp_act_recvrec(&W.s, &W.c2s, 100000); break;
			/* close / renegotiation requested while an application record is partly sent */
			case 15: tp_act_write(&W.c, 10); tp_act_flush(&W.c, 0); tp_act_sendrec(&W.c, &W.c2s, 3); tp_act_close(&W.c); break;
			case 16: tp_act_write(&W.s, 10); tp_act_flush(&W.s, 0); tp_act_sendrec(&W.s, &W.s2c, 3); tp_act_reneg(&W.s); break;
			/* an endpoint that has failed (a record that does not authenticate) while its peer goes on: closed is
			   permanent and the first error is retained whatever is called afterwards (judged by tp_check) */
			case 17: case 18: {
				static const unsigned char junk[37] = { 23, 3, 3, 0, 32, 1, 2, 3, 4, 5, 6, 7, 8, 9, 10, 11, 12, 13, 14, 15, 16, 17, 18, 19, 20, 21, 22, 23, 24, 25, 26, 27, 28, 29, 30, 31, 32 };
				unsigned char rec[37];
				tp_ep *v = phase == 17 ? &W.c : &W.s, *o2 = phase == 17 ? &W.s : &W.c;
				tp_fifo *f = phase == 17 ? &W.s2c : &W.c2s;
				memcpy(rec, junk, sizeof rec);
				rec[1] = (unsigned char)(mode_ver[mode] >> 8); rec[2] = (unsigned char)mode_ver[mode];
				tp_act_write(v, 10);                  /* the victim has unflushed data of its own */
				tp_act_write(o2, 10); tp_act_flush(o2, 0);   /* and an honest record is on its way to it, behind the junk */
				tp_fifo_put(f, rec, sizeof rec);
				tp_act_sendrec(o2, f, 100000);
				tp_act_recvrec(v, f, 100000); tp_act_recvrec(v, f, 100000); tp_act_recvrec(v, f, 100000);
				break;
			}
			/* the client application resets its context for a new connection with a server name that does not fit
			   (256 bytes or more: the call returns 0): what it holds then is a failed engine, not the old connection
			   and not a half-opened new one */
			case 19: {
				char nm[300];
				int rr;
				memset(nm, 'a', sizeof nm - 1); nm[sizeof nm - 1] = 0;
				nm[3] = '.';
				tp_act_write(&W.c, 10);
				W.c.closed_seen = 0;               /* a reset call is where "closed" may legitimately end */
				rr = br_ssl_client_reset(W.c.cc, nm, (int)(conf & 1));
				tp_calls ++; tp_check(&W.c, "client_reset(name of 299 bytes)");
				vf_stat("failed_reset_start_states", 1);
				if (rr != 0) TP_VIOL("c06:reset-accepted-oversized-name", "br_ssl_client_reset returned 1 for a server name that does not fit the context");
				else if (!tp_ep_closed(&W.c) || br_ssl_engine_last_error(W.c.eng) == 0)
					TP_VIOL("c06:failed-reset-leaves-engine-open", "br_ssl_client_reset returned 0 but the engine is not closed with an error code");
				break;
			}
			case 9: tp_act_reneg(&W.s); tp_act_sendrec(&W.s, &W.s2c, 100000);
				tp_act_recvrec(&W.c, &W.s2c, 100000); tp_act_recvrec(&W.c, &W.s2c, 100000); break;   /* HelloRequest received */
			}
			if ((startno ++ % nworkers) == worker) {
				start_has_reneg = phase == 8 || phase == 9 || phase == 16;
				start_failed = phase == 17 || phase == 18 || phase == 19;
				explore_from_here(phase >= 10 ? depth + 1 : depth, "data-phase", phase);
				start_has_reneg = 0;
				start_failed = 0;
			}
			world_restore(&base);
			world_free(&base);
		}
		tp_pair_free(&W);
	}
	{
		int k;
		for (k = 0; k < NA1; k ++) {
			char nm[64];
			snprintf(nm, sizeof nm, "act_%s", act_names[k]);
			vf_stat(nm, act_count[k]);
		}
	}
	vf_stat("states", n_states);
	vf_stat("transitions", n_trans);
	vf_stat("dedup_hits", n_dedup);
	vf_stat("transitions_with_closed_endpoint", n_closed_trans);
	vf_stat("honest_failures", n_honest_fail);
	vf_stat("monitored_calls", tp_calls);
	vf_sample("{\"depth\":%d,\"stride\":%d,\"configs\":%d,\"states\":%lld,\"transitions\":%lld}", depth, stride, nconf, n_states, n_trans);
	vf_done();
	return 0;
}
