/*
 * C20, system seeders under injected faults.
 *
 * The library build used here has RDRAND disabled, so the system seeder is
 * getentropy() with /dev/urandom as fallback (flavour sys-ge) or /dev/urandom
 * alone (flavour sys-ur).  The harness is linked with
 *   -Wl,--wrap=getentropy,--wrap=open,--wrap=read,--wrap=close
 * so the calls made by src/rand/sysrng.c land in the failpoints below: the
 * plan decides whether getentropy() works, whether /dev/urandom opens, and a
 * script of read() outcomes (EINTR, hard error, short deliveries).
 *
 * Oracles, evaluated for every plan x role x "application injected entropy":
 *  - model: the context is seeded iff injected, or getentropy delivered, or
 *    /dev/urandom opened and the script delivers 32 bytes before a hard error.
 *    seeded  -> reset returns 1, no error;
 *    not     -> reset returns 0, BR_ERR_NO_RANDOM, CLOSED, no byte to send.
 *  - the bytes the source delivered are the bytes that seed the generator, no
 *    matter how read() chopped them: the first flight (ClientHello, or the
 *    server flight answering a fixed ClientHello) equals byte for byte the
 *    flight of a reference context seeded through hook H1 with the same 32
 *    bytes (and the same injected entropy).
 *  - the direct seeder: br_prng_seeder_system()() on an HMAC_DRBG gives the
 *    same generator output as update() with the delivered bytes; returns 0
 *    exactly when the model says no bytes could be delivered.
 *  - conservation: every successful open() of /dev/urandom is closed exactly
 *    once, whatever the outcome; nothing is read after a hard error or after
 *    32 bytes; no read asks for more than what is missing.
 */
#include <errno.h>
#include <fcntl.h>
#include <stdarg.h>
#include "tlspair.h"

/* ------------------------------------------------------------------ */
/* failpoints */

enum { ST_EINTR = 0, ST_EIO, ST_GIVE };
typedef struct { int kind; int n; } fp_step;

static struct {
	int active;
	int ge_ok;             /* getentropy delivers */
	int open_errno;        /* 0: opens */
	fp_step script[8];
	int nsteps;
	unsigned char bytes[32];
	/* observations */
	int ge_calls, opens, closes, reads, reads_after_end, over_asked, fd_open;
	size_t delivered;
	int hard_error_seen;
	int foreign_fd_close;
} FP;

#define FAKE_FD 0x5EED

int __real_getentropy(void *buf, size_t len);
int __real_open(const char *path, int flags, ...);
ssize_t __real_read(int fd, void *buf, size_t len);
int __real_close(int fd);

int __wrap_getentropy(void *buf, size_t len);
int __wrap_open(const char *path, int flags, ...);
ssize_t __wrap_read(int fd, void *buf, size_t len);
int __wrap_close(int fd);

int
__wrap_getentropy(void *buf, size_t len)
{
	if (!FP.active) return __real_getentropy(buf, len);
	FP.ge_calls ++;
	if (!FP.ge_ok || len != 32) { errno = ENOSYS; return -1; }
	memcpy(buf, FP.bytes, 32);
	return 0;
}

int
__wrap_open(const char *path, int flags, ...)
{
	if (!FP.active || strcmp(path, "/dev/urandom") != 0) {
		int mode = 0;
		if (flags & O_CREAT) { va_list ap; va_start(ap, flags); mode = va_arg(ap, int); va_end(ap); }
		return __real_open(path, flags, mode);
	}
	FP.opens ++;
	if (FP.open_errno) { errno = FP.open_errno; return -1; }
	FP.fd_open ++;
	return FAKE_FD;
}

ssize_t
__wrap_read(int fd, void *buf, size_t len)
{
	fp_step st;
	size_t k;
	if (!FP.active || fd != FAKE_FD) return __real_read(fd, buf, len);
	if (FP.hard_error_seen || FP.delivered >= 32) FP.reads_after_end ++;
	if (len > 32 - (FP.delivered > 32 ? 32 : FP.delivered)) FP.over_asked ++;
	if (FP.reads < FP.nsteps) st = FP.script[FP.reads];
	else { st.kind = ST_GIVE; st.n = 32; }
	FP.reads ++;
	if (st.kind == ST_EINTR) { errno = EINTR; return -1; }
	if (st.kind == ST_EIO) { FP.hard_error_seen = 1; errno = EIO; return -1; }
	k = (size_t)st.n;
	if (k > len) k = len;
	if (k > 32 - FP.delivered) k = 32 - FP.delivered;
	if (k == 0) k = 1;        /* a 0 return (end of file) is not a behaviour of /dev/urandom */
	if (k > len) { errno = EINVAL; return -1; }
	memcpy(buf, FP.bytes + FP.delivered, k);
	FP.delivered += k;
	return (ssize_t)k;
}

int
__wrap_close(int fd)
{
	if (!FP.active || fd != FAKE_FD) return __real_close(fd);
	FP.closes ++;
	FP.fd_open --;
	return 0;
}

/* ------------------------------------------------------------------ */

static char mode_desc[160];
static int has_getentropy;
static unsigned char client_hello[600];
static size_t client_hello_len;

static void
plan_reset(void)
{
	memset(&FP, 0, sizeof FP);
}

/* model: can the system source deliver 32 bytes under this plan? */
static int
model_system_ok(int *uses_urandom)
{
	int i;
	size_t got = 0;
	*uses_urandom = 0;
	if (has_getentropy && FP.ge_ok) return 1;
	*uses_urandom = 1;
	if (FP.open_errno) return 0;
	for (i = 0; i < FP.nsteps && got < 32; i ++) {
		if (FP.script[i].kind == ST_EIO) return 0;
		if (FP.script[i].kind == ST_GIVE) {
			size_t k = (size_t)FP.script[i].n;
			if (k == 0) k = 1;
			got += k > 32 - got ? 32 - got : k;
		}
	}
	return 1;
}

static const char *
plan_str(void)
{
	static char b[200];
	int i, n;
	n = snprintf(b, sizeof b, "ge=%d open_errno=%d script=", FP.ge_ok, FP.open_errno);
	for (i = 0; i < FP.nsteps; i ++) {
		n += snprintf(b + n, sizeof b - (size_t)n, "%s%s%d", i ? "," : "",
			FP.script[i].kind == ST_EINTR ? "EINTR" : FP.script[i].kind == ST_EIO ? "EIO" : "give", FP.script[i].kind == ST_GIVE ? FP.script[i].n : 0);
	}
	return b;
}

static void
check_conservation(const char *where, int sys_ok, int uses_urandom, int consulted)
{
	char what[200];
	if (FP.fd_open != 0 || FP.opens - (FP.open_errno ? FP.opens : 0) != FP.closes) {
		snprintf(what, sizeof what, "%s: /dev/urandom opened %d time(s), closed %d time(s)", where, FP.open_errno ? 0 : FP.opens, FP.closes);
		TP_VIOL("sysrng:descriptor-not-closed-once", what);
	}
	if (FP.reads_after_end) {
		snprintf(what, sizeof what, "%s: %d read(s) after a hard error or after 32 bytes", where, FP.reads_after_end);
		TP_VIOL("sysrng:read-after-end", what);
	}
	if (FP.over_asked) {
		snprintf(what, sizeof what, "%s: read asked for more bytes than were missing", where);
		TP_VIOL("sysrng:read-asks-too-much", what);
	}
	if (consulted && uses_urandom && sys_ok && FP.delivered != 32) {
		snprintf(what, sizeof what, "%s: seeder reported success after %zu bytes", where, FP.delivered);
		TP_VIOL("sysrng:success-with-short-read", what);
	}
	vf_stat("conservation_checks", 1);
}

/* first flight of an endpoint just reset: everything it wants to send, for a
 * server after it was given the fixed ClientHello */
static size_t
first_flight(tp_ep *ep, unsigned char *out, size_t max)
{
	size_t n = 0, l;
	unsigned char *b;
	int guard = 0;
	if (ep->cfg.role == 1) {
		size_t off = 0;
		while (off < client_hello_len && (b = br_ssl_engine_recvrec_buf(ep->eng, &l)) != NULL) {
			if (l > client_hello_len - off) l = client_hello_len - off;
			memcpy(b, client_hello + off, l);
			br_ssl_engine_recvrec_ack(ep->eng, l);
			off += l;
		}
	}
	while ((b = br_ssl_engine_sendrec_buf(ep->eng, &l)) != NULL && guard ++ < 100) {
		if (n + l > max) break;
		memcpy(out + n, b, l);
		n += l;
		br_ssl_engine_sendrec_ack(ep->eng, l);
	}
	return n;
}

static unsigned char fl_a[20000], fl_b[20000];

static void
tls_case(int role, int inject)
{
	tp_ep ep, ref;
	tp_cfg c;
	int r, sys_ok, uses_ur, seeded;
	size_t l, la, lb;
	char what[240];

	memset(&ep, 0, sizeof ep); memset(&ref, 0, sizeof ref);
	tp_cfg_default(&c, role);
	c.seeder_mode = 0;           /* the real system seeder of this build */
	c.inject_entropy = inject;
	memset(c.seed, 0x5A, 32);
	sys_ok = model_system_ok(&uses_ur);
	seeded = sys_ok || inject;
	snprintf(tp_case, sizeof tp_case, "%s tls role=%d inject=%d plan{%s}", mode_desc, role, inject, plan_str());
	FP.active = 1;
	r = tp_ep_start(&ep, &c);
	FP.active = 0;
	vf_stat("tls_cases", 1);
	vf_distinct("seeding_outcome", "role%d inject%d sys_ok%d urandom%d -> %d", role, inject, sys_ok, uses_ur, r);
	check_conservation("reset", sys_ok, uses_ur, 1);
	if (!seeded) {
		if (r != 0 || br_ssl_engine_last_error(ep.eng) != BR_ERR_NO_RANDOM
			|| br_ssl_engine_current_state(ep.eng) != BR_SSL_CLOSED
			|| br_ssl_engine_sendrec_buf(ep.eng, &l) != NULL)
		{
			snprintf(what, sizeof what, "reset returned %d, last_error=%d, state=%u although the system source delivered nothing and nothing was injected",
				r, br_ssl_engine_last_error(ep.eng), br_ssl_engine_current_state(ep.eng));
			TP_VIOL("handshake-started-without-randomness", what);
		} else {
			vf_stat("refused_without_randomness", 1);
		}
	} else if (r != 1 || br_ssl_engine_last_error(ep.eng) != 0) {
		snprintf(what, sizeof what, "reset returned %d, last_error=%d although %s", r, br_ssl_engine_last_error(ep.eng),
			sys_ok ? "the system source delivered 32 bytes" : "entropy was injected");
		TP_VIOL("refused-although-seeded", what);
	} else {
		/* reference: the same 32 bytes through hook H1 (a failing source when the
		   system gave nothing), the same injected entropy */
		tp_cfg rc = c;
		static const unsigned char inj[32] = {
			0x5A,0x5A,0x5A,0x5A,0x5A,0x5A,0x5A,0x5A,0x5A,0x5A,0x5A,0x5A,0x5A,0x5A,0x5A,0x5A,
			0x5A,0x5A,0x5A,0x5A,0x5A,0x5A,0x5A,0x5A,0x5A,0x5A,0x5A,0x5A,0x5A,0x5A,0x5A,0x5A };
		vf_stat("started_with_randomness", 1);
		rc.seeder_mode = sys_ok ? 1 : 2;
		memcpy(rc.seed, FP.bytes, 32);
		rc.inject_bytes = inj;
		r = tp_ep_start(&ref, &rc);
		if (r != 1) {
			TP_VIOL("harness-assert:reference-context", "reference context did not start");
		} else {
			la = first_flight(&ep, fl_a, sizeof fl_a);
			lb = first_flight(&ref, fl_b, sizeof fl_b);
			vf_stat("first_flights_compared", 1);
			vf_stat("first_flight_bytes", (long long)la);
			if (la == 0 || la != lb || memcmp(fl_a, fl_b, la) != 0) {
				snprintf(what, sizeof what, "first flight (%zu bytes) differs from that of a context seeded with the same 32 bytes in one piece (%zu bytes): the delivered bytes did not all reach the generator",
					la, lb);
				TP_VIOL("sysrng:delivered-bytes-not-used", what);
			}
		}
	}
	tp_ep_free(&ep);
	tp_ep_free(&ref);
}

static void
direct_case(void)
{
	br_hmac_drbg_context a, b;
	unsigned char oa[48], ob[48];
	const char *name = NULL;
	br_prng_seeder sd;
	int sys_ok, uses_ur, r;
	char what[200];
#ifdef BR_VERIF
	br_verif_seeder_mode = 0;
#endif
	sys_ok = model_system_ok(&uses_ur);
	snprintf(tp_case, sizeof tp_case, "%s direct plan{%s}", mode_desc, plan_str());
	br_hmac_drbg_init(&a, &br_sha256_vtable, "sysrng", 6);
	br_hmac_drbg_init(&b, &br_sha256_vtable, "sysrng", 6);
	sd = br_prng_seeder_system(&name);
	vf_distinct("system_seeder_name", "%s", name ? name : "(none)");
	if (sd == 0) { TP_VIOL("harness-assert:no-seeder", "this build reports no system seeder"); return; }
	FP.active = 1;
	r = sd(&a.vtable);
	FP.active = 0;
	vf_stat("direct_cases", 1);
	check_conservation("seeder", sys_ok, uses_ur, 1);
	if ((r != 0) != (sys_ok != 0)) {
		snprintf(what, sizeof what, "system seeder returned %d, the source %s", r, sys_ok ? "delivered 32 bytes" : "could not deliver 32 bytes");
		TP_VIOL(sys_ok ? "sysrng:seeder-failed-although-source-works" : "sysrng:seeder-claims-success-without-bytes", what);
		return;
	}
	if (r) {
		br_hmac_drbg_update(&b, FP.bytes, 32);
		br_hmac_drbg_generate(&a, oa, sizeof oa);
		br_hmac_drbg_generate(&b, ob, sizeof ob);
		vf_stat("direct_outputs_compared", 1);
		if (memcmp(oa, ob, sizeof oa) != 0) {
			TP_VIOL("sysrng:delivered-bytes-not-used", "generator seeded by the system seeder differs from one updated with the 32 delivered bytes");
		}
	} else {
		/* nothing may have been mixed in and reported as failure? (harmless, not judged) */
		vf_stat("direct_refusals", 1);
	}
}

static const fp_step ALPHABET[] = {
	{ ST_EINTR, 0 }, { ST_EIO, 0 }, { ST_GIVE, 1 }, { ST_GIVE, 5 }, { ST_GIVE, 13 }, { ST_GIVE, 31 }, { ST_GIVE, 32 },
};
#define NALPHA ((int)(sizeof ALPHABET / sizeof ALPHABET[0]))

static void
make_reference_client_hello(void)
{
	tp_ep ep;
	tp_cfg c;
	memset(&ep, 0, sizeof ep);
	tp_cfg_default(&c, 0);
	c.seeder_mode = 1;
	memset(c.seed, 0x77, 32);
	snprintf(tp_case, sizeof tp_case, "%s reference ClientHello", mode_desc);
	if (tp_ep_start(&ep, &c) != 1) { fprintf(stderr, "cannot make ClientHello\n"); exit(2); }
	client_hello_len = first_flight(&ep, client_hello, sizeof client_hello);
	if (client_hello_len < 50) { fprintf(stderr, "short ClientHello\n"); exit(2); }
	tp_ep_free(&ep);
}

int
main(int argc, char **argv)
{
	long long seed = vf_argi(argc, argv, "--seed", 1);
	int worker = (int)vf_argi(argc, argv, "--worker", 0);
	int nworkers = (int)vf_argi(argc, argv, "--nworkers", 1);
	int depth = (int)vf_argi(argc, argv, "--depth", 3);
	const char *flavour = vf_arg(argc, argv, "--flavour", "sys-ge");
	vf_rng rng;
	long long idx = 0, total = 1, t;
	int d, i;

	tp_prop = "C20";
	has_getentropy = !strcmp(flavour, "sys-ge");
	snprintf(mode_desc, sizeof mode_desc, "seed=%lld mode=sysrng flavour=%s", seed, flavour);
	vf_rng_init(&rng, (uint64_t)seed, 2020);
	make_reference_client_hello();
	for (d = 0; d < depth; d ++) total *= NALPHA;
	/* every script of `depth` steps x open outcome x getentropy outcome */
	for (t = 0; t < total; t ++) {
		int openv, gev;
		for (openv = 0; openv < 3; openv ++) for (gev = 0; gev < (has_getentropy ? 2 : 1); gev ++) {
			long long x = t;
			int role, inject;
			if ((idx ++ % nworkers) != worker) continue;
			/* a failing open or a working getentropy makes the script irrelevant: run those only for a few scripts */
			if ((openv != 0 || gev != 0) && t >= 3 * NALPHA) continue;
			for (role = 0; role < 2; role ++) for (inject = 0; inject < 2; inject ++) {
				plan_reset();
				vf_bytes(&rng, FP.bytes, 32);
				FP.ge_ok = gev;
				FP.open_errno = openv == 0 ? 0 : openv == 1 ? ENOENT : EMFILE;
				FP.nsteps = depth;
				x = t;
				for (i = 0; i < depth; i ++) { FP.script[i] = ALPHABET[x % NALPHA]; x /= NALPHA; }
				tls_case(role, inject);
				vf_stat("cases", 1);
			}
			plan_reset();
			vf_bytes(&rng, FP.bytes, 32);
			FP.ge_ok = gev;
			FP.open_errno = openv == 0 ? 0 : openv == 1 ? ENOENT : EMFILE;
			FP.nsteps = depth;
			x = t;
			for (i = 0; i < depth; i ++) { FP.script[i] = ALPHABET[x % NALPHA]; x /= NALPHA; }
			vf_distinct("fault_plan", "%s", plan_str());
			direct_case();
			vf_stat("cases", 1);
		}
	}
	vf_sample("{\"mode\":\"sysrng\",\"flavour\":\"%s\",\"depth\":%d,\"scripts\":%lld}", flavour, depth, total);
	vf_stat("monitored_calls", tp_calls);
	vf_done();
	return 0;
}
