/*
 * C05: libFuzzer targets for every input-processing entry point family.
 * One binary; the target is chosen by the environment variable FZ_TARGET.
 * Build flavour 'fuzz' (clang: fuzzer + ASan + UBSan, BR_VERIF hooks on: the T0
 * stack-bound monitor H2 aborts by itself). Oracle violations print
 *   FZ_VIOL <key> <details>
 * on stderr and abort, so that libFuzzer keeps the input as crash artifact.
 */
#include <stdio.h>
#include <stdlib.h>
#include <string.h>
#include <stdint.h>

#define VF_NO_ABORT_HANDLER 1   /* libFuzzer must see the abort to save the crashing input */
static void fz_viol(const char *key, const char *what);
#define TP_VIOL(mon, what)   fz_viol((mon), (what))
#include "tlsmon.h"
#include <sys/time.h>
#include <signal.h>

static void
fz_viol(const char *key, const char *what)
{
	fflush(stdout);
	fprintf(stderr, "FZ_VIOL %s %s\n", key, what);
	fflush(stderr);
	(void)vf_abort_handler_;
	abort();
}

extern unsigned long long br_verif_t0_steps;

static const char *tnames[] = {
	"client_pre", "server_pre", "client_post", "server_post", "x509_minimal", "x509_decoder",
	"skey", "pkey", "pem", "ecdsa", "rsa_pub", "ec_pub", "lru"
};

static int target = -1;
static unsigned long long max_steps_per_call = 0;
static double max_ratio = 0;
static unsigned long long n_exec = 0, n_ok_results = 0, n_err_results = 0, n_hs_completed = 0;

/* VM work bound: steps per push call must stay linear in the bytes pushed */
#define STEP_BASE   200000ull
#define STEP_PER_B  4000ull
#define STEP_HARD   50000000ull

static unsigned long long steps0;
static void steps_begin(void) { steps0 = br_verif_t0_steps; }
static void
steps_end(size_t bytes, const char *who)
{
	unsigned long long d = br_verif_t0_steps - steps0;
	if (d > max_steps_per_call) max_steps_per_call = d;
	if (bytes > 0 && (double)d / (double)bytes > max_ratio && d > 1000) max_ratio = (double)d / (double)bytes;
	if (d > STEP_BASE + STEP_PER_B * bytes || d > STEP_HARD) {
		char w[160];
		snprintf(w, sizeof w, "%s: %llu interpreter steps for %zu input bytes", who, d, bytes);
		fz_viol("work-not-bounded", w);
	}
}

/* chunk plan from a seed byte */
static size_t
next_chunk(uint32_t *st, size_t remaining)
{
	size_t k;
	/* two fixed plans (seed bytes 0xFE, 0xFD): byte by byte; alternately everything offered / one byte */
	if (*st == 0xFFFFFFFEu) return 1;
	if (*st == 0xFFFFFFFDu) { *st = 0xFFFFFFFCu; return remaining; }
	if (*st == 0xFFFFFFFCu) { *st = 0xFFFFFFFDu; return 1; }
	*st = *st * 1103515245u + 12345u;
	switch ((*st >> 16) & 7) {
	case 0: k = 1; break;
	case 1: k = 1 + ((*st >> 20) & 3); break;
	case 2: k = 1 + ((*st >> 20) & 31); break;
	case 3: k = 1 + ((*st >> 20) & 255); break;
	default: k = remaining; break;
	}
	return k > remaining ? remaining : k;
}

/* ------------------------------------------------------------------ */
/* TLS engine targets */

static tp_pair HSv[2];        /* completed handshakes, kept for the *_post targets: [0] full-size split buffers, [1] minimal shared buffer */
static tm_pairmon HSMv[2];
static tp_snap post_snapv[2];
static rm_cipher post_csv[2]; /* cipher state of the peer->victim direction */
static int post_role;
static tp_fifo sinkf;

static void
engine_status_check(tp_ep *ep)
{
	tp_check(ep, "fuzz-step");
}

static void
drain_engine(tp_ep *ep)
{
	int guard = 0;
	for (;;) {
		unsigned st = br_ssl_engine_current_state(ep->eng);
		size_t l;
		if (guard ++ > 100000) fz_viol("engine-livelock", "engine keeps offering output without progress");
		if (st & BR_SSL_CLOSED) return;
		if (st & BR_SSL_SENDREC) { sinkf.rd = sinkf.wr = 0; tp_act_sendrec(ep, &sinkf, 1u << 20); continue; }
		if (br_ssl_engine_recvapp_buf(ep->eng, &l)) { br_ssl_engine_recvapp_ack(ep->eng, l); engine_status_check(ep); continue; }
		return;
	}
}

static void
feed_engine(tp_ep *ep, const uint8_t *data, size_t len, uint32_t *cst)
{
	size_t off = 0;
	int guard = 0;
	while (off < len) {
		size_t l, k;
		unsigned char *b;
		drain_engine(ep);
		if (tp_ep_closed(ep)) break;
		b = br_ssl_engine_recvrec_buf(ep->eng, &l);
		if (b == NULL) {
			/* engine wants to send application data or is stuck: flush and retry a few times */
			if (guard ++ > 8) break;
			br_ssl_engine_flush(ep->eng, 0);
			engine_status_check(ep);
			continue;
		}
		guard = 0;
		if (l > len - off) l = len - off;
		k = next_chunk(cst, l);
		memcpy(b, data + off, k);
		off += k;
		steps_begin();
		br_ssl_engine_recvrec_ack(ep->eng, k);
		steps_end(k, "br_ssl_engine_recvrec_ack");
		engine_status_check(ep);
	}
	drain_engine(ep);
	/* final status consistency: CLOSED <=> error decided or clean close; CLOSED => all four buffers NULL (tp_check) */
	if (!tp_ep_closed(ep) && br_ssl_engine_last_error(ep->eng) != 0) {
		fz_viol("status:error-without-closed", "engine reports an error but is not closed");
	}
}

static void
t_engine_pre(int role, const uint8_t *data, size_t len)
{
	static tp_ep ep;
	tp_cfg c;
	uint32_t cst;
	if (len < 2) return;
	tp_cfg_default(&c, role);
	c.layout = data[0] % 3;
	switch ((data[0] >> 2) & 3) {
	case 0:   /* minimum sizes */
		if (c.layout == TP_LAYOUT_MONO) c.buflen = 512 + 325;
		else if (c.layout == TP_LAYOUT_SPLIT1) c.buflen = 512 + 325 + 512 + 85;
		else { c.buflen = 512 + 325; c.buflen_out = 512 + 85; }
		break;
	case 1:
		if (c.layout == TP_LAYOUT_MONO) c.buflen = 4096 + 325;
		else if (c.layout == TP_LAYOUT_SPLIT1) c.buflen = 4096 + 325 + 512 + 85;
		else { c.buflen = 4096 + 325; c.buflen_out = 4096 + 85; }
		break;
	default:
		if (c.layout == TP_LAYOUT_MONO) c.buflen = BR_SSL_BUFSIZE_MONO;
		else if (c.layout == TP_LAYOUT_SPLIT1) c.buflen = BR_SSL_BUFSIZE_BIDI;
		else { c.buflen = BR_SSL_BUFSIZE_INPUT; c.buflen_out = BR_SSL_BUFSIZE_OUTPUT; }
		break;
	}
	c.keykind = ((data[0] >> 4) & 3) % 3;
	if (role == 0 && ((data[0] >> 4) & 3) == 3) {
		/* (the key-kind bits mean nothing to a client) every suite followed by TLS_FALLBACK_SCSV, the documented way
		   to signal a fallback: a value that is in the client's list without being a suite (defect 23e489c) */
		static uint16_t with_scsv[TP_NSUITES + 1];
		size_t q;
		for (q = 0; q < TP_NSUITES; q ++) with_scsv[q] = tp_suites[q].id;
		with_scsv[TP_NSUITES] = 0x5600;
		c.suites = with_scsv; c.nsuites = TP_NSUITES + 1;
	}
	c.client_auth = role == 1 ? ((data[0] >> 6) & 1) : ((data[0] >> 6) & 3) % 3;
	memset(c.seed, 0x5A, 32);
	cst = data[1] >= 0xFD && data[1] != 0xFF ? 0xFFFFFF00u + data[1] : data[1];
	if (!tp_ep_start(&ep, &c)) fz_viol("setup", "reset failed");
	feed_engine(&ep, data + 2, len - 2, &cst);
	if (tp_ep_closed(&ep)) n_err_results ++; else n_ok_results ++;
	if (ep.ever_sendapp) n_hs_completed ++;   /* the engine became ready for application data */
	tp_ep_free(&ep);
}

static void
post_init(int role)
{
	int v;
	static const uint16_t sl[2][1] = { { 0xC02F }, { 0x002F } };
	post_role = role;
	for (v = 0; v < 2; v ++) {
		tp_cfg cc, sc;
		tp_cfg_default(&cc, 0); tp_cfg_default(&sc, 1);
		cc.suites = sl[v]; cc.nsuites = 1;
		if (v == 1) {
			/* the victim gets the smallest shared buffer; its peer a full one */
			tp_cfg *vc = role == 0 ? &cc : &sc;
			vc->layout = TP_LAYOUT_MONO; vc->buflen = 512 + 325;
			cc.vmin = cc.vmax = 0x0301;
			if (role == 1) {
				/* a small server needs a client that limits its records: also small */
				cc.layout = TP_LAYOUT_MONO; cc.buflen = 512 + 325;
			}
		}
		memset(cc.seed, 1 + v, 32); memset(sc.seed, 3 + v, 32);
		tp_pair_init(&HSv[v], 1, 1, TP_CHUNK_WHOLE);
		HSv[v].c.tx_key = 11; HSv[v].s.tx_key = 22;
		tm_pair_attach(&HSMv[v], &HSv[v]);
		HSMv[v].m.check_app = 0;
		if (!tp_ep_start(&HSv[v].c, &cc) || !tp_ep_start(&HSv[v].s, &sc) || !tp_handshake(&HSv[v], 1000000)) {
			fz_viol("setup", "post-handshake target: reference handshake failed");
		}
		/* victim = endpoint of the given role; records come from its peer */
		post_csv[v] = HSMv[v].m.rm.cs[role == 0 ? 1 : 0];
		tp_snap_take(&post_snapv[v], role == 0 ? &HSv[v].c : &HSv[v].s);
	}
}

/*
 * Input = script of records. Each op: [ctl][len_lo][len_hi&7] payload...
 *   ctl & 3: record type 20/21/22/23; ctl & 4: send raw (unprotected bytes as a
 *   record body) instead of a properly sealed record; ctl & 8: seal with a wrong
 *   sequence number; (ctl >> 4): chunking seed.
 */
static void
t_engine_post(const uint8_t *data, size_t len)
{
	int v = len > 0 ? (data[0] & 1) : 0;
	tp_ep *ep = post_role == 0 ? &HSv[v].c : &HSv[v].s;
	rm_cipher cs = post_csv[v];
	static unsigned char rec[40000];
	size_t off = 1;
	vf_rng r;
	uint32_t cst = 7;
	if (len < 1) return;
	tp_snap_restore(&post_snapv[v], ep);
	vf_rng_init(&r, 1, 1);
	while (off + 3 <= len && !tp_ep_closed(ep)) {
		unsigned ctl = data[off];
		size_t pl = data[off + 1] | ((size_t)(data[off + 2] & 7) << 8), rl;
		static const int types[4] = { 20, 21, 22, 23 };
		rm_forge_opts fo;
		off += 3;
		if (pl > len - off) pl = len - off;
		rm_forge_defaults(&fo);
		cst = ctl >> 4;
		if (ctl & 4) {
			/* raw record: header bytes taken from the input when there are enough, so that
			   declared lengths beyond the receiver's buffer occur; body = what follows */
			rec[0] = (unsigned char)types[ctl & 3]; rec[1] = 3; rec[2] = (unsigned char)(cs.version & 0xFF);
			rec[3] = (unsigned char)(pl >> 8); rec[4] = (unsigned char)pl;
			if ((ctl & 8) && pl >= 2) { rec[3] = data[off]; rec[4] = data[off + 1]; }
			memcpy(rec + 5, data + off, pl);
			rl = pl + 5;
		} else {
			if (ctl & 8) { fo.use_seq = 1; fo.seq = cs.seq + 1; }
			rl = rm_seal(&cs, types[ctl & 3], data + off, pl, &fo, &r, 1, rec);
		}
		off += pl;
		feed_engine(ep, rec, rl, &cst);
		/* if the victim wants to talk (renegotiation, alerts), let it and discard */
		drain_engine(ep);
	}
	if (tp_ep_closed(ep)) n_err_results ++; else n_ok_results ++;
}

/* ------------------------------------------------------------------ */
/* X.509 validator */

static const br_x509_trust_anchor *
dyn_lookup(void *ctx, void *hashed_dn, size_t len)
{
	/* the port passes the hashed DN; serve a heap copy of a static anchor whose DN hash matches */
	int i;
	(void)ctx;
	for (i = 0; i < 3; i ++) {
		br_sha256_context sc;
		unsigned char h[32];
		br_sha256_init(&sc);
		br_sha256_update(&sc, tp_fx.tas[i].dn.data, tp_fx.tas[i].dn.len);
		br_sha256_out(&sc, h);
		if (len == 32 && memcmp(h, hashed_dn, 32) == 0) {
			br_x509_trust_anchor *ta = malloc(sizeof *ta);
			unsigned char *hc = malloc(32);
			*ta = tp_fx.tas[i];
			memcpy(hc, h, 32);
			ta->dn.data = hc; ta->dn.len = 32;
			return ta;
		}
	}
	return NULL;
}

static void
dyn_free(void *ctx, const br_x509_trust_anchor *ta)
{
	(void)ctx;
	free(ta->dn.data);
	free((void *)ta);
}

static void
t_x509_minimal(const uint8_t *data, size_t len)
{
	br_x509_minimal_context *xc;
	br_name_element ne[3];
	char *sn;
	char *nb[3] = { NULL, NULL, NULL };   /* exact-size heap blocks: an element of exactly the buffer length must be refused */
	static const unsigned char oid_cn[] = { 0x03, 0x55, 0x04, 0x03 };
	static const unsigned char oid_dns[] = { 0x00, 0x02 };
	static const unsigned char oid_o[] = { 0x03, 0x55, 0x04, 0x0A };
	unsigned r;
	uint32_t cst;
	size_t off = 2;
	int i, ncert = 0;
	if (len < 3) return;
	tp_fixtures();
	xc = malloc(sizeof *xc);
	br_x509_minimal_init(xc, &br_sha256_vtable, (data[0] & 1) ? NULL : tp_fx.tas, (data[0] & 1) ? 0 : 3);
	if (data[0] & 1) br_x509_minimal_set_dynamic(xc, NULL, dyn_lookup, dyn_free);
	for (i = 1; i <= 6; i ++) br_x509_minimal_set_hash(xc, i, tp_hashes[i]);
	br_x509_minimal_set_rsa(xc, br_rsa_pkcs1_vrfy_get_default());
	br_x509_minimal_set_ecdsa(xc, br_ec_get_default(), br_ecdsa_vrfy_asn1_get_default());
	br_x509_minimal_set_time(xc, 738000, 0);
	if (data[0] & 2) {
		ne[0].oid = oid_cn; ne[1].oid = oid_dns; ne[2].oid = oid_o;
		for (i = 0; i < 3; i ++) {
			/* buffer lengths 1..32 chosen by the input (bits 5-7 of the first byte and the chunk seed), or 64 */
			size_t bl = (data[0] & 4) ? 1 + (((size_t)(data[0] >> 5) * 4 + (size_t)(data[1] & 3) + (size_t)i * 5) & 31) : 64;
			nb[i] = malloc(bl); memset(nb[i], 0x55, bl);
			ne[i].buf = nb[i]; ne[i].len = bl;
		}
		br_x509_minimal_set_name_elements(xc, ne, 3);
	}
	cst = data[1] >= 0xFD && data[1] != 0xFF ? 0xFFFFFF00u + data[1] : data[1];
	/* the expected name is an exact-size heap block: the validator reads the string and nothing behind it */
	sn = (data[0] & 8) ? vf_dup("localhost", 10) : ((data[0] & 16) ? NULL : vf_dup("www.example.com", 16));
	xc->vtable->start_chain(&xc->vtable, sn);
	/* certificates: 2-byte length prefix each (up to 4) */
	while (off + 2 <= len && ncert < 4) {
		size_t cl = ((size_t)data[off] << 8) | data[off + 1], co = 0;
		off += 2;
		if (cl > len - off) cl = len - off;
		xc->vtable->start_cert(&xc->vtable, (uint32_t)cl);
		while (co < cl) {
			size_t k = next_chunk(&cst, cl - co);
			unsigned char *tmp = vf_dup(data + off + co, k);
			steps_begin();
			xc->vtable->append(&xc->vtable, tmp, k);
			steps_end(k, "br_x509_minimal append");
			free(tmp);
			co += k;
		}
		xc->vtable->end_cert(&xc->vtable);
		off += cl;
		ncert ++;
	}
	r = xc->vtable->end_chain(&xc->vtable);
	{
		unsigned usages = 0xFFFF;
		const br_x509_pkey *pk = xc->vtable->get_pkey((const br_x509_class *const *)&xc->vtable, &usages);
		if (r == 0 && pk == NULL) fz_viol("status:x509-ok-without-key", "end_chain returned 0 but get_pkey returned NULL");
		/* a key MAY be returned with some validation failures (documented) */
		if (pk != NULL) {
			const unsigned char *lo = (const unsigned char *)xc, *hi = lo + sizeof *xc;
			const unsigned char *kp = pk->key_type == BR_KEYTYPE_RSA ? pk->key.rsa.n : pk->key.ec.q;
			size_t kl = pk->key_type == BR_KEYTYPE_RSA ? pk->key.rsa.nlen : pk->key.ec.qlen;
			if (pk->key_type != BR_KEYTYPE_RSA && pk->key_type != BR_KEYTYPE_EC) fz_viol("status:x509-key-type", "unknown key type returned");
			if (kp < lo || kp + kl > hi) fz_viol("status:x509-key-outside-context", "returned key bytes lie outside the context");
		}
		if (r == 0) n_ok_results ++; else n_err_results ++;
	}
	if (data[0] & 2) {
		for (i = 0; i < 3; i ++) {
			if (ne[i].status == 1 && memchr(ne[i].buf, 0, ne[i].len) == NULL) {
				fz_viol("status:name-element-unterminated", "name element reported present but not NUL-terminated within its buffer");
			}
		}
	}
	free(nb[0]); free(nb[1]); free(nb[2]);
	free(xc); free(sn);
}

/* ------------------------------------------------------------------ */
/* certificate decoder, key decoders, PEM */

static size_t dn_bytes[2];
static void dn_cb0(void *ctx, const void *buf, size_t len) { (void)ctx; (void)buf; dn_bytes[0] += len; }
static void dn_cb1(void *ctx, const void *buf, size_t len) { (void)ctx; (void)buf; dn_bytes[1] += len; }

static void
push_chunks(void (*push)(void *, const void *, size_t), void *ctx, int (*err)(void *),
	const uint8_t *data, size_t len, uint32_t cst, const char *who, int stop_on_error)
{
	size_t off = 0;
	while (off < len) {
		size_t k = next_chunk(&cst, len - off);
		unsigned char *tmp = vf_dup(data + off, k);
		steps_begin();
		push(ctx, tmp, k);
		steps_end(k, who);
		free(tmp);
		off += k;
		if (stop_on_error && err(ctx)) break;
	}
}

static void xdd_push(void *c, const void *d, size_t l) { br_x509_decoder_push(c, d, l); }
static int xdd_err(void *c) { return br_x509_decoder_last_error(c) != 0 && br_x509_decoder_last_error(c) != BR_ERR_X509_TRUNCATED; }
static void skd_push(void *c, const void *d, size_t l) { br_skey_decoder_push(c, d, l); }
static int skd_err(void *c) { return br_skey_decoder_last_error(c) != 0 && br_skey_decoder_last_error(c) != BR_ERR_X509_TRUNCATED; }
static void pkd_push(void *c, const void *d, size_t l) { br_pkey_decoder_push(c, d, l); }
static int pkd_err(void *c) { return br_pkey_decoder_last_error(c) != 0 && br_pkey_decoder_last_error(c) != BR_ERR_X509_TRUNCATED; }

static void
t_x509_decoder(const uint8_t *data, size_t len)
{
	br_x509_decoder_context *dc;
	br_x509_pkey *pk;
	if (len < 2) return;
	dc = malloc(sizeof *dc);
	dn_bytes[0] = dn_bytes[1] = 0;
	br_x509_decoder_init(dc, (data[0] & 1) ? dn_cb0 : 0, NULL, (data[0] & 2) ? dn_cb1 : 0, NULL);
	push_chunks(xdd_push, dc, xdd_err, data + 2, len - 2, data[1], "br_x509_decoder_push", !(data[0] & 4));
	pk = br_x509_decoder_get_pkey(dc);
	if ((pk != NULL) != (br_x509_decoder_last_error(dc) == 0)) {
		fz_viol("status:x509dec-key-vs-error", "get_pkey and last_error disagree");
	}
	if (pk != NULL) {
		const unsigned char *lo = (const unsigned char *)dc, *hi = lo + sizeof *dc;
		const unsigned char *kp = pk->key_type == BR_KEYTYPE_RSA ? pk->key.rsa.n : pk->key.ec.q;
		size_t kl = pk->key_type == BR_KEYTYPE_RSA ? pk->key.rsa.nlen : pk->key.ec.qlen;
		if (kp < lo || kp + kl > hi) fz_viol("status:x509dec-key-outside-context", "key bytes outside the context");
		(void)br_x509_decoder_isCA(dc);
		(void)br_x509_decoder_get_signer_key_type(dc);
		n_ok_results ++;
	} else n_err_results ++;
	free(dc);
}

static void
t_skey(const uint8_t *data, size_t len)
{
	br_skey_decoder_context *dc;
	int e, kt;
	if (len < 2) return;
	dc = malloc(sizeof *dc);
	br_skey_decoder_init(dc);
	push_chunks(skd_push, dc, skd_err, data + 2, len - 2, data[1], "br_skey_decoder_push", !(data[0] & 4));
	e = br_skey_decoder_last_error(dc);
	kt = br_skey_decoder_key_type(dc);
	if ((e == 0) != (kt != 0)) fz_viol("status:skey-type-vs-error", "key_type and last_error disagree");
	if ((br_skey_decoder_get_rsa(dc) != NULL) != (e == 0 && kt == BR_KEYTYPE_RSA)) fz_viol("status:skey-get-rsa", "get_rsa inconsistent with status");
	if ((br_skey_decoder_get_ec(dc) != NULL) != (e == 0 && kt == BR_KEYTYPE_EC)) fz_viol("status:skey-get-ec", "get_ec inconsistent with status");
	if (e == 0) {
		const unsigned char *lo = (const unsigned char *)dc, *hi = lo + sizeof *dc;
		if (kt == BR_KEYTYPE_RSA) {
			const br_rsa_private_key *k = br_skey_decoder_get_rsa(dc);
			if (k->p < lo || k->p + k->plen > hi || k->q < lo || k->q + k->qlen > hi || k->dp < lo || k->dp + k->dplen > hi
				|| k->dq < lo || k->dq + k->dqlen > hi || k->iq < lo || k->iq + k->iqlen > hi)
				fz_viol("status:skey-outside-context", "RSA key fields outside the context");
		} else {
			const br_ec_private_key *k = br_skey_decoder_get_ec(dc);
			if (k->x < lo || k->x + k->xlen > hi) fz_viol("status:skey-outside-context", "EC key outside the context");
		}
		n_ok_results ++;
	} else n_err_results ++;
	free(dc);
}

static void
t_pkey(const uint8_t *data, size_t len)
{
	br_pkey_decoder_context *dc;
	int e, kt;
	if (len < 2) return;
	dc = malloc(sizeof *dc);
	br_pkey_decoder_init(dc);
	push_chunks(pkd_push, dc, pkd_err, data + 2, len - 2, data[1], "br_pkey_decoder_push", !(data[0] & 4));
	e = br_pkey_decoder_last_error(dc);
	kt = br_pkey_decoder_key_type(dc);
	if ((e == 0) != (kt != 0)) fz_viol("status:pkey-type-vs-error", "key_type and last_error disagree");
	if (e == 0) {
		const unsigned char *lo = (const unsigned char *)dc, *hi = lo + sizeof *dc;
		if (kt == BR_KEYTYPE_RSA) {
			const br_rsa_public_key *k = br_pkey_decoder_get_rsa(dc);
			if (k == NULL || k->n < lo || k->n + k->nlen > hi || k->e < lo || k->e + k->elen > hi)
				fz_viol("status:pkey-outside-context", "RSA public key fields outside the context");
		} else {
			const br_ec_public_key *k = br_pkey_decoder_get_ec(dc);
			if (k == NULL || k->q < lo || k->q + k->qlen > hi) fz_viol("status:pkey-outside-context", "EC public key outside the context");
		}
		n_ok_results ++;
	} else n_err_results ++;
	free(dc);
}

static int pem_in_obj, pem_data_outside, pem_err_seen;
static void pem_dest(void *ctx, const void *src, size_t len) { (void)ctx; (void)src; (void)len; if (!pem_in_obj) pem_data_outside = 1; }

static unsigned pem_nobj;

static void
t_pem(const uint8_t *data, size_t len)
{
	br_pem_decoder_context *pc;
	size_t off = 1;
	uint32_t cst;
	if (len < 2) return;
	pc = malloc(sizeof *pc);
	br_pem_decoder_init(pc);
	pem_in_obj = pem_data_outside = pem_err_seen = 0;
	pem_nobj = 1;
	cst = data[0];
	while (off < len) {
		size_t k = next_chunk(&cst, len - off), done = 0;
		unsigned char *tmp = vf_dup(data + off, k);
		int guard = 0;
		while (done < k) {
			size_t t;
			steps_begin();
			t = br_pem_decoder_push(pc, tmp + done, k - done);
			steps_end(k - done, "br_pem_decoder_push");
			if (t > k - done) fz_viol("status:pem-consumed-too-much", "push consumed more than offered");
			done += t;
			switch (br_pem_decoder_event(pc)) {
			case BR_PEM_BEGIN_OBJ:
				if (pem_in_obj) fz_viol("status:pem-begin-inside-object", "BEGIN event inside an object");
				pem_in_obj = 1;
				if (memchr(br_pem_decoder_name(pc), 0, 128) == NULL) fz_viol("status:pem-name-unterminated", "object name not terminated");
				/* with the top bit of the first input byte: every second object is skipped by the caller
				   (no destination: "decoded data is simply ignored") */
				if ((data[0] & 0x80) && (pem_nobj & 1)) br_pem_decoder_setdest(pc, 0, 0);
				else br_pem_decoder_setdest(pc, pem_dest, NULL);
				pem_nobj ++;
				break;
			case BR_PEM_END_OBJ:
				if (!pem_in_obj) fz_viol("status:pem-end-outside-object", "END event outside an object");
				pem_in_obj = 0; n_ok_results ++;
				break;
			case BR_PEM_ERROR:
				if (!pem_in_obj) fz_viol("status:pem-error-outside-object", "ERROR event outside an object");
				pem_in_obj = 0; n_err_results ++;
				break;
			case 0:
				if (t == 0 && done < k && guard ++ > 3) fz_viol("status:pem-no-progress", "push consumes nothing and raises no event");
				break;
			default:
				fz_viol("status:pem-unknown-event", "unknown event value");
			}
		}
		free(tmp);
		off += k;
	}
	if (pem_data_outside) fz_viol("status:pem-data-outside-object", "data callback invoked outside an object");
	free(pc);
}

/* ------------------------------------------------------------------ */
/* ECDSA converters / verifiers, RSA public, EC public */

static void
t_ecdsa(const uint8_t *data, size_t len)
{
	/* layout: [flags][hash_len][qsel] hash[hash_len] q[qlen] (absent with flag 0x40) signature[rest] */
	static const int curves[3] = { BR_EC_secp256r1, BR_EC_secp384r1, BR_EC_secp521r1 };
	static const size_t plen[3] = { 65, 97, 133 };
	unsigned char *sig, hash[64];
	size_t sl, hl, ql, r, off;
	br_ec_public_key pk;
	unsigned char *q;
	int c;
	if (len < 4) return;
	c = (data[0] & 3) % 3;
	hl = data[1] % 65;
	off = 3;
	if (len < off + hl) return;
	memcpy(hash, data + off, hl);
	off += hl;
	if (data[0] & 0x80) {
		/* valid public key so that the signature arithmetic is reached */
		const br_ec_impl *ei = br_ec_get_default();
		unsigned char k[32];
		ql = plen[c];
		q = malloc(ql);
		memset(k, 0x42, sizeof k);
		ei->mulgen(q, k, sizeof k, curves[c]);
	} else {
		ql = (data[2] & 0x80) ? (size_t)(data[2] & 0x7F) + 10 : plen[c];
		if (len < off + ql) return;
		q = vf_dup(data + off, ql);
		off += ql;
	}
	pk.curve = curves[c]; pk.q = q; pk.qlen = ql;
	sl = len - off;
	if (sl > 300) sl = 300;
	/* converters: buffers sized as documented (asn1->raw: less than twice the source; raw->asn1: +9) */
	sig = malloc(2 * sl + 16);
	memcpy(sig, data + off, sl);
	r = br_ecdsa_asn1_to_raw(sig, sl);
	if (r != 0 && r >= 2 * sl + 1) fz_viol("status:asn1-to-raw-length", "asn1_to_raw result length beyond the documented bound");
	if (r <= sl) {
		/* the result fits the input: repeat on an exact-size block so that any access beyond the
		   signature is caught by the red zone */
		unsigned char *ex = vf_dup(data + off, sl);
		if (br_ecdsa_asn1_to_raw(ex, sl) != r) fz_viol("status:asn1-to-raw-unstable", "asn1_to_raw result depends on the buffer capacity");
		free(ex);
	}
	memcpy(sig, data + off, sl);
	r = br_ecdsa_raw_to_asn1(sig, sl);
	if (r > sl + 9) fz_viol("status:raw-to-asn1-length", "raw_to_asn1 enlarged the signature by more than 9 bytes");
	if (r <= sl) {
		unsigned char *ex = vf_dup(data + off, sl);
		if (br_ecdsa_raw_to_asn1(ex, sl) != r) fz_viol("status:raw-to-asn1-unstable", "raw_to_asn1 result depends on the buffer capacity");
		free(ex);
	}
	free(sig);
	/* verifiers on exact-size copies */
	sig = vf_dup(data + off, sl);
	{
		const br_ec_impl *impls[4];
		int i;
		impls[0] = &br_ec_prime_i15; impls[1] = &br_ec_prime_i31; impls[2] = &br_ec_all_m15; impls[3] = &br_ec_all_m31;
		i = (data[0] >> 2) & 3;
		switch ((data[0] >> 4) & 3) {
		case 0: (void)br_ecdsa_i15_vrfy_asn1(impls[i], hash, hl, &pk, sig, sl); break;
		case 1: (void)br_ecdsa_i15_vrfy_raw(impls[i], hash, hl, &pk, sig, sl); break;
		case 2: (void)br_ecdsa_i31_vrfy_asn1(impls[i], hash, hl, &pk, sig, sl); break;
		default: (void)br_ecdsa_i31_vrfy_raw(impls[i], hash, hl, &pk, sig, sl); break;
		}
	}
	free(sig); free(q);
	n_ok_results ++;
}

static void
t_rsa_pub(const uint8_t *data, size_t len)
{
	br_rsa_public_key pk;
	size_t nl, el, xl;
	unsigned char *n, *e, *x, hash_out[64];
	static const unsigned char oid_sha256[] = { 0x09, 0x60, 0x86, 0x48, 0x01, 0x65, 0x03, 0x04, 0x02, 0x01 };
	int impl;
	if (len < 6) return;
	impl = data[0] & 3;
	nl = ((size_t)(data[1] & 3) << 8) | data[2];       /* up to 1023 bytes: beyond the 4096-bit limit */
	el = 1 + (data[3] & 7);
	if (len < 4 + nl + el) return;
	n = vf_dup(data + 4, nl);
	e = vf_dup(data + 4 + nl, el);
	xl = len - 4 - nl - el;
	if (data[0] & 4) { xl = nl; if (len - 4 - nl - el < xl) { free(n); free(e); return; } }
	if (xl > 1100) xl = 1100;
	x = vf_dup(data + 4 + nl + el, xl);
	if (data[0] & 8) n[nl ? nl - 1 : 0] |= 1;   /* odd modulus: reach the arithmetic */
	pk.n = n; pk.nlen = nl; pk.e = e; pk.elen = el;
	{
		br_rsa_public pubs[4]; br_rsa_pkcs1_vrfy vr[4]; br_rsa_pss_vrfy pv[4];
		pubs[0] = br_rsa_i15_public; pubs[1] = br_rsa_i31_public; pubs[2] = br_rsa_i32_public; pubs[3] = br_rsa_i62_public_get();
		vr[0] = br_rsa_i15_pkcs1_vrfy; vr[1] = br_rsa_i31_pkcs1_vrfy; vr[2] = br_rsa_i32_pkcs1_vrfy; vr[3] = br_rsa_i62_pkcs1_vrfy_get();
		pv[0] = br_rsa_i15_pss_vrfy; pv[1] = br_rsa_i31_pss_vrfy; pv[2] = br_rsa_i32_pss_vrfy; pv[3] = br_rsa_i62_pss_vrfy_get();
		if (pubs[impl] == 0) impl = 1;
		(void)pubs[impl](x, xl, &pk);
		(void)vr[impl](x, xl, (data[0] & 16) ? oid_sha256 : NULL, 32, &pk, hash_out);
		(void)pv[impl](x, xl, &br_sha256_vtable, &br_sha256_vtable, hash_out, 32 % (1 + (data[0] >> 5)) , &pk);
	}
	free(n); free(e); free(x);
	n_ok_results ++;
}

/*
 * Session cache: what a peer controls is which session IDs a server looks up and how many sessions it makes the
 * server store. Input: [capacity selector][seed] then operations of two bytes: [kind][id index]: store / look up /
 * look up with a foreign or altered ID. The work per operation is bounded by the store (a cycle in the index tree
 * or the recency list shows as a hang: libFuzzer's per-input timeout), offsets stay inside the store (exact-size
 * heap block), and a look-up never returns a session that was not stored under that ID.
 */
static void
lru_cpu_alarm(int sig)
{
	(void)sig;
	fz_viol("lru:operation-does-not-terminate", "one save/load on a store of at most 1.3 kB used more than 5 s of CPU time");
}

static void
t_lru(const uint8_t *data, size_t len)
{
	/* CPU time, not wall time: one operation visits at most the entries of the store */
	struct itimerval arm = { { 0, 0 }, { 5, 0 } }, off = { { 0, 0 }, { 0, 0 } };
	static uint64_t tags[64];            /* tags[i]: set of master-secret tags ever stored under ID i */
	static br_ssl_server_context sc;
	br_ssl_session_cache_lru cc;
	br_ssl_session_parameters pp;
	unsigned char *store, seed[32];
	size_t store_len, o;
	if (len < 2) return;
	store_len = 100 * (size_t)(1 + data[0] % 12) + (size_t)(data[0] / 12) * 7;
	store = malloc(store_len);
	memset(seed, data[1], sizeof seed);
	vf_raw_zero(&sc, sizeof sc);
	br_hmac_drbg_init(&sc.eng.rng, &br_sha256_vtable, seed, sizeof seed);
	br_ssl_session_cache_lru_init(&cc, store, store_len);
	memset(tags, 0, sizeof tags);
	signal(SIGVTALRM, lru_cpu_alarm);
	for (o = 2; o + 2 <= len; o += 2) {
		unsigned kind = data[o] & 3, id = data[o + 1] & 63;
		memset(&pp, 0, sizeof pp);
		memset(pp.session_id, (int)(0x40 + id), 32);
		pp.session_id[0] = (unsigned char)id; pp.session_id[31] = (unsigned char)(data[o + 1] >> 6);
		pp.session_id_len = 32;
		if (kind == 0 || kind == 1) {
			unsigned tag = 1 + (data[o] >> 2);     /* 1..64 */
			pp.version = 0x0303; pp.cipher_suite = 0xC02F;
			memset(pp.master_secret, (int)tag, 48);
			if ((data[o + 1] >> 6) == 0) tags[id] |= (uint64_t)1 << (tag - 1);
			setitimer(ITIMER_VIRTUAL, &arm, NULL);
			cc.vtable->save(&cc.vtable, &sc, &pp);
			setitimer(ITIMER_VIRTUAL, &off, NULL);
		} else {
			int r;
			if (kind == 3) pp.session_id[7] ^= (unsigned char)(1 + (data[o] >> 2));   /* an ID nobody stored */
			setitimer(ITIMER_VIRTUAL, &arm, NULL);
			r = cc.vtable->load(&cc.vtable, &sc, &pp);
			setitimer(ITIMER_VIRTUAL, &off, NULL);
			if (r) {
				unsigned t = pp.master_secret[0];
				if (kind == 3) fz_viol("lru:foreign-id-found", "look-up of a session ID that was never stored returned a session");
				else if ((data[o + 1] >> 6) == 0 && (t < 1 || t > 64 || !((tags[id] >> (t - 1)) & 1) || pp.master_secret[47] != t))
					fz_viol("lru:wrong-session-returned", "look-up returned a master secret that was never stored under that ID");
				n_ok_results ++;
			} else n_err_results ++;
		}
	}
	free(store);
}

static void
t_ec_pub(const uint8_t *data, size_t len)
{
	static const br_ec_impl *impls[16];
	static int nimpl = 0;
	static const int curves[4] = { BR_EC_secp256r1, BR_EC_secp384r1, BR_EC_secp521r1, BR_EC_curve25519 };
	const br_ec_impl *ei;
	int curve;
	size_t pl, kl;
	unsigned char *P, *Q, *k, *k2;
	if (nimpl == 0) {
		impls[nimpl ++] = &br_ec_prime_i15; impls[nimpl ++] = &br_ec_prime_i31;
		impls[nimpl ++] = &br_ec_p256_m15; impls[nimpl ++] = &br_ec_p256_m31;
		if (br_ec_p256_m62_get()) impls[nimpl ++] = br_ec_p256_m62_get();
		if (br_ec_p256_m64_get()) impls[nimpl ++] = br_ec_p256_m64_get();
		impls[nimpl ++] = &br_ec_c25519_i15; impls[nimpl ++] = &br_ec_c25519_i31;
		impls[nimpl ++] = &br_ec_c25519_m15; impls[nimpl ++] = &br_ec_c25519_m31;
		if (br_ec_c25519_m62_get()) impls[nimpl ++] = br_ec_c25519_m62_get();
		if (br_ec_c25519_m64_get()) impls[nimpl ++] = br_ec_c25519_m64_get();
		impls[nimpl ++] = &br_ec_all_m15; impls[nimpl ++] = &br_ec_all_m31;
	}
	if (len < 4) return;
	ei = impls[data[0] % nimpl];
	curve = curves[data[1] & 3];
	if (!((ei->supported_curves >> curve) & 1)) return;
	pl = data[2] % 141;
	kl = 1 + data[3] % 70;
	if (len < 4 + pl + kl) return;
	P = vf_dup(data + 4, pl);
	Q = vf_dup(data + 4, pl);
	k = vf_dup(data + 4 + pl, kl);
	k2 = vf_dup(data + 4 + pl, kl);
	(void)ei->mul(P, pl, k, kl, curve);
	memcpy(P, data + 4, pl);
	(void)ei->muladd(P, (data[1] & 4) ? Q : NULL, pl, k, kl, k2, kl, curve);
	free(P); free(Q); free(k); free(k2);
	n_ok_results ++;
}

/* ------------------------------------------------------------------ */
/* seed corpus generation (FZ_MKCORPUS=<dir>): valid inputs of every family plus
   boundary-size structures, written as files for libFuzzer */

#include <dirent.h>
#include <sys/stat.h>

static const char *corpus_dir;
static int corpus_n;

static void
emit(const unsigned char *d, size_t len)
{
	char path[600];
	FILE *f;
	snprintf(path, sizeof path, "%s/seed-%03d", corpus_dir, corpus_n ++);
	f = fopen(path, "wb");
	if (!f) { perror(path); exit(2); }
	fwrite(d, 1, len, f);
	fclose(f);
}

static unsigned char gbuf[1 << 17];

/* minimal DER builder */
static size_t
der_hdr(unsigned char *o, int tag, size_t len)
{
	o[0] = (unsigned char)tag;
	if (len < 128) { o[1] = (unsigned char)len; return 2; }
	if (len < 256) { o[1] = 0x81; o[2] = (unsigned char)len; return 3; }
	o[1] = 0x82; o[2] = (unsigned char)(len >> 8); o[3] = (unsigned char)len; return 4;
}

static size_t
der_wrap(unsigned char *o, int tag, const unsigned char *body, size_t len)
{
	unsigned char h[4];
	size_t hl = der_hdr(h, tag, len);
	memmove(o + hl, body, len);
	memcpy(o, h, hl);
	return hl + len;
}

static size_t
der_bigint(unsigned char *o, size_t nbytes, unsigned char fill)
{
	/* positive INTEGER of exactly nbytes value bytes, top bit clear */
	static unsigned char v[4096];
	memset(v, fill, nbytes);
	v[0] = 0x7F; if (nbytes > 0) v[nbytes - 1] |= 1;
	return der_wrap(o, 0x02, v, nbytes);
}

static size_t
make_rsa_pub(unsigned char *o, size_t nbytes)        /* RSAPublicKey */
{
	static unsigned char b[5000];
	size_t l = der_bigint(b, nbytes, 0xA5);
	l += der_wrap(b + l, 0x02, (const unsigned char *)"\x01\x00\x01", 3);
	return der_wrap(o, 0x30, b, l);
}

static size_t
make_rsa_spki(unsigned char *o, size_t nbytes)
{
	static unsigned char b[6000], k[5200];
	static const unsigned char alg[] = { 0x30, 0x0D, 0x06, 0x09, 0x2A, 0x86, 0x48, 0x86, 0xF7, 0x0D, 0x01, 0x01, 0x01, 0x05, 0x00 };
	size_t kl, l;
	k[0] = 0;
	kl = 1 + make_rsa_pub(k + 1, nbytes);
	memcpy(b, alg, sizeof alg);
	l = sizeof alg + der_wrap(b + sizeof alg, 0x03, k, kl);
	return der_wrap(o, 0x30, b, l);
}

static size_t
make_rsa_priv(unsigned char *o, size_t nbytes)       /* RSAPrivateKey with nbytes-long modulus */
{
	static unsigned char b[16000];
	size_t l = 0, h = nbytes / 2 ? nbytes / 2 : 1;
	l += der_wrap(b + l, 0x02, (const unsigned char *)"\x00", 1);
	l += der_bigint(b + l, nbytes, 0xA5);
	l += der_wrap(b + l, 0x02, (const unsigned char *)"\x01\x00\x01", 3);
	l += der_bigint(b + l, nbytes, 0x5A);
	l += der_bigint(b + l, h, 0xC3); l += der_bigint(b + l, h, 0x3C);
	l += der_bigint(b + l, h, 0x11); l += der_bigint(b + l, h, 0x22); l += der_bigint(b + l, h, 0x33);
	return der_wrap(o, 0x30, b, l);
}

/* a certificate skeleton carrying an RSA key of nbytes and a signature of sbytes (not valid, parses) */
static size_t
make_cert(unsigned char *o, size_t nbytes, size_t sbytes)
{
	static unsigned char tbs[9000], b[12000], sig[1200];
	static const unsigned char sigalg[] = { 0x30, 0x0D, 0x06, 0x09, 0x2A, 0x86, 0x48, 0x86, 0xF7, 0x0D, 0x01, 0x01, 0x0B, 0x05, 0x00 };
	static const unsigned char name[] = { 0x30, 0x0F, 0x31, 0x0D, 0x30, 0x0B, 0x06, 0x03, 0x55, 0x04, 0x03, 0x0C, 0x04, 't', 'e', 's', 't' };
	static const unsigned char val[] = { 0x30, 0x1E, 0x17, 0x0D, '0','0','0','1','0','1','0','0','0','0','0','0','Z',
		0x17, 0x0D, '4','9','1','2','3','1','2','3','5','9','5','9','Z' };
	size_t l = 0, tl, cl;
	l += der_wrap(tbs + l, 0xA0, (const unsigned char *)"\x02\x01\x02", 3);
	l += der_wrap(tbs + l, 0x02, (const unsigned char *)"\x01", 1);
	memcpy(tbs + l, sigalg, sizeof sigalg); l += sizeof sigalg;
	memcpy(tbs + l, name, sizeof name); l += sizeof name;
	memcpy(tbs + l, val, sizeof val); l += sizeof val;
	memcpy(tbs + l, name, sizeof name); l += sizeof name;
	l += make_rsa_spki(tbs + l, nbytes);
	tl = der_wrap(b, 0x30, tbs, l);
	memcpy(b + tl, sigalg, sizeof sigalg); cl = tl + sizeof sigalg;
	memset(sig, 0x77, sbytes + 1); sig[0] = 0;
	cl += der_wrap(b + cl, 0x03, sig, sbytes + 1);
	return der_wrap(o, 0x30, b, cl);
}

/* the same skeleton with a subjectAltName extension holding the given dNSNames */
static size_t
make_cert_san(unsigned char *o, const char *const *names, int nn)
{
	static unsigned char tbs[3000], b[4000], gn[1000], t1[1100], t2[1200];
	static const unsigned char sigalg[] = { 0x30, 0x0D, 0x06, 0x09, 0x2A, 0x86, 0x48, 0x86, 0xF7, 0x0D, 0x01, 0x01, 0x0B, 0x05, 0x00 };
	static const unsigned char name[] = { 0x30, 0x0F, 0x31, 0x0D, 0x30, 0x0B, 0x06, 0x03, 0x55, 0x04, 0x03, 0x0C, 0x04, 't', 'e', 's', 't' };
	static const unsigned char val[] = { 0x30, 0x1E, 0x17, 0x0D, '0','0','0','1','0','1','0','0','0','0','0','0','Z',
		0x17, 0x0D, '4','9','1','2','3','1','2','3','5','9','5','9','Z' };
	static const unsigned char sig[65] = { 0, 0x77 };
	size_t l = 0, tl, cl, gl = 0, x;
	int i;
	for (i = 0; i < nn; i ++) gl += der_wrap(gn + gl, 0x82, (const unsigned char *)names[i], strlen(names[i]));
	x = der_wrap(t1, 0x30, gn, gl);                 /* GeneralNames */
	x = der_wrap(t2 + 5, 0x04, t1, x);              /* extnValue */
	memcpy(t2, "\x06\x03\x55\x1D\x11", 5);
	x = der_wrap(t1, 0x30, t2, x + 5);              /* Extension */
	x = der_wrap(t2, 0x30, t1, x);                  /* Extensions */
	l += der_wrap(tbs + l, 0xA0, (const unsigned char *)"\x02\x01\x02", 3);
	l += der_wrap(tbs + l, 0x02, (const unsigned char *)"\x01", 1);
	memcpy(tbs + l, sigalg, sizeof sigalg); l += sizeof sigalg;
	memcpy(tbs + l, name, sizeof name); l += sizeof name;
	memcpy(tbs + l, val, sizeof val); l += sizeof val;
	memcpy(tbs + l, name, sizeof name); l += sizeof name;
	l += make_rsa_spki(tbs + l, 128);
	l += der_wrap(tbs + l, 0xA3, t2, x);
	tl = der_wrap(b, 0x30, tbs, l);
	memcpy(b + tl, sigalg, sizeof sigalg); cl = tl + sizeof sigalg;
	cl += der_wrap(b + cl, 0x03, sig, sizeof sig);
	return der_wrap(o, 0x30, b, cl);
}

static void
gen_handshake_seeds(int victim_role)
{
	int kk, ca;
	for (kk = 0; kk < 3; kk ++) for (ca = 0; ca < 3; ca ++) {
		tp_pair p;
		tp_cfg cc, sc;
		unsigned char d0 = (unsigned char)(TP_LAYOUT_SPLIT1 | (2 << 2) | (kk << 4) | ((victim_role == 1 ? (ca ? 1 : 0) : ca) << 6));
		tp_fifo rec;
		long n = 0;
		tp_cfg_default(&cc, 0); tp_cfg_default(&sc, 1);
		cc.buflen = sc.buflen = BR_SSL_BUFSIZE_BIDI;
		sc.keykind = kk; cc.client_auth = ca; sc.client_auth = ca ? 1 : 0;
		memset(cc.seed, victim_role == 0 ? 0x5A : 0x31, 32);
		memset(sc.seed, victim_role == 1 ? 0x5A : 0x32, 32);
		if (kk == TP_KEY_ECRSA || kk == TP_KEY_ECEC) { /* let the server choose among what fits its key */ }
		tp_pair_init(&p, 1, 1, TP_CHUNK_WHOLE);
		tp_fifo_init(&rec);
		if (!tp_ep_start(&p.c, &cc) || !tp_ep_start(&p.s, &sc)) exit(2);
		/* record everything the victim's peer sends */
		while (n ++ < 100000) {
			tp_fifo *f = victim_role == 0 ? &p.s2c : &p.c2s;
			uint64_t before = f->total;
			int moved = tp_pump_step(&p);
			/* the FIFO rewinds when it runs empty: locate the new bytes from the running total */
			if (f->total > before) {
				size_t d = (size_t)(f->total - before);
				if (d > f->wr) { fprintf(stderr, "corpus: FIFO accounting\n"); exit(2); }
				tp_fifo_put(&rec, f->data + f->wr - d, d);
			}
			if (!moved) break;
		}
		{
			/* the recording must be a whole number of well-formed records ending with the peer's
			   Finished (and possibly application-phase records): a broken recording silently
			   removes the later handshake states from the seed corpus */
			const unsigned char *w = rec.data + rec.rd;
			size_t wl = tp_fifo_len(&rec), o = 0;
			int nrec = 0, seen_ccs = 0;
			while (o + 5 <= wl) {
				size_t rl = ((size_t)w[o + 3] << 8) | w[o + 4];
				if (w[o] < 20 || w[o] > 23 || w[o + 1] != 3 || o + 5 + rl > wl) break;
				if (w[o] == 20) seen_ccs = 1;
				o += 5 + rl; nrec ++;
			}
			if (o != wl || !seen_ccs || nrec < 3 || !tp_ep_ready(&p.c) || !tp_ep_ready(&p.s)) {
				fprintf(stderr, "corpus: recorded handshake is not well-formed (records=%d parsed=%zu of %zu ccs=%d)\n", nrec, o, wl, seen_ccs);
				exit(2);
			}
		}
		gbuf[0] = d0; gbuf[1] = 0xFF;
		memcpy(gbuf + 2, rec.data + rec.rd, tp_fifo_len(&rec));
		emit(gbuf, 2 + tp_fifo_len(&rec));
		gbuf[1] = 0x03;   /* same bytes, small chunks */
		emit(gbuf, 2 + tp_fifo_len(&rec));
		/* framing variants: each cleartext record up to and including ChangeCipherSpec carries extra
		   bytes after its content, delivered byte by byte / header-then-one-byte (the record is then
		   still incomplete when its content is processed) */
		{
			const unsigned char *w = rec.data + rec.rd;
			size_t wl = tp_fifo_len(&rec), o = 0;
			int ri = 0;
			while (o + 5 <= wl && ri < 12) {
				size_t rl = ((size_t)w[o + 3] << 8) | w[o + 4];
				static const size_t extra_ccs[3] = { 1, 3, 31 };
				int ei, ne = w[o] == 20 ? 3 : 1, sd;
				if (o + 5 + rl > wl) break;
				for (ei = 0; ei < ne; ei ++) for (sd = 0xFD; sd <= 0xFE; sd ++) {
					size_t k = w[o] == 20 ? extra_ccs[ei] : 3, n2 = 2;
					gbuf[1] = (unsigned char)sd;
					memcpy(gbuf + n2, w, o + 5 + rl); n2 += o + 5 + rl;
					gbuf[2 + o + 3] = (unsigned char)((rl + k) >> 8); gbuf[2 + o + 4] = (unsigned char)(rl + k);
					memset(gbuf + n2, 0x10 + ri, k); n2 += k;
					memcpy(gbuf + n2, w + o + 5 + rl, wl - (o + 5 + rl)); n2 += wl - (o + 5 + rl);
					emit(gbuf, n2);
				}
				if (w[o] == 20) break;
				o += 5 + rl; ri ++;
			}
		}
		tp_fifo_free(&rec);
		tp_pair_free(&p);
	}
}

/* unprotected alert / unknown-type records before any handshake byte, whole and cut short,
 * for every buffer layout: small inputs from which the fuzzer reaches the record-layer
 * corner cases of the cleartext phase quickly */
static void
gen_prehandshake_record_seeds(void)
{
	static const unsigned char bodies[][10] = {
		{ 2, 1, 0 }, { 9, 1, 0, 1, 0, 1, 42, 1, 0, 0 }, { 4, 1, 42, 1, 0 }, { 2, 2, 40 }, { 3, 1, 0, 2 }, { 1, 1 }
	};
	size_t bi;
	int lay, typ;
	for (lay = 0; lay < 3; lay ++) for (bi = 0; bi < sizeof bodies / sizeof bodies[0]; bi ++) for (typ = 21; typ <= 23; typ += 2) {
		size_t bl = bodies[bi][0], cut;
		for (cut = 1; cut <= bl; cut ++) {
			gbuf[0] = (unsigned char)(lay | (2 << 2)); gbuf[1] = 0xFF;
			gbuf[2] = (unsigned char)typ; gbuf[3] = 3; gbuf[4] = 1; gbuf[5] = 0; gbuf[6] = (unsigned char)bl;
			memcpy(gbuf + 7, bodies[bi] + 1, cut);
			emit(gbuf, 7 + cut);
		}
	}
}

/* a client that lists TLS_FALLBACK_SCSV (configuration bits 4-5 = 3): ServerHello selecting 0x5600 (defect 23e489c),
 * selecting a real suite, each followed by the server's certificate and ServerHelloDone */
static void
gen_scsv_seeds(void)
{
	static const uint16_t pick[3] = { 0x5600, 0x002F, 0x00FF };
	int lay, k;
	for (lay = 0; lay < 3; lay ++) for (k = 0; k < 3; k ++) {
		unsigned char *o = gbuf;
		size_t cl = FX_srv_rsa_crt_len, q;
		*o ++ = (unsigned char)(lay | (2 << 2) | (3 << 4)); *o ++ = 0xFF;
		/* ServerHello */
		*o ++ = 22; *o ++ = 3; *o ++ = 3; *o ++ = 0; *o ++ = 42;
		*o ++ = 2; *o ++ = 0; *o ++ = 0; *o ++ = 38; *o ++ = 3; *o ++ = 3;
		for (q = 0; q < 32; q ++) *o ++ = (unsigned char)(0x40 + q);
		*o ++ = 0; *o ++ = (unsigned char)(pick[k] >> 8); *o ++ = (unsigned char)pick[k]; *o ++ = 0;
		/* Certificate */
		*o ++ = 22; *o ++ = 3; *o ++ = 3; *o ++ = (unsigned char)((cl + 10) >> 8); *o ++ = (unsigned char)(cl + 10);
		*o ++ = 11; *o ++ = 0; *o ++ = (unsigned char)((cl + 6) >> 8); *o ++ = (unsigned char)(cl + 6);
		*o ++ = 0; *o ++ = (unsigned char)((cl + 3) >> 8); *o ++ = (unsigned char)(cl + 3);
		*o ++ = 0; *o ++ = (unsigned char)(cl >> 8); *o ++ = (unsigned char)cl;
		memcpy(o, FX_srv_rsa_crt, cl); o += cl;
		/* ServerHelloDone */
		*o ++ = 22; *o ++ = 3; *o ++ = 3; *o ++ = 0; *o ++ = 4; *o ++ = 14; *o ++ = 0; *o ++ = 0; *o ++ = 0;
		emit(gbuf, (size_t)(o - gbuf));
	}
}

static size_t
read_file(const char *path, unsigned char *o, size_t max)
{
	FILE *f = fopen(path, "rb");
	size_t n;
	if (!f) return 0;
	n = fread(o, 1, max, f);
	fclose(f);
	return n;
}

static void
gen_corpus(void)
{
	static const unsigned char *certs[8]; static size_t clen[8];
	static const unsigned char *keys[8]; static size_t klen[8];
	static const size_t sizes[] = { 64, 128, 255, 256, 257, 511, 512, 513, 519, 520, 521, 522, 1023, 1024, 1535, 1536, 1537, 1550, 1557, 1559, 1560, 1561, 1600, 2048 };
	size_t i, l;
	const char *repo = getenv("VERIF_REPO") ? getenv("VERIF_REPO") : "/repo";
	certs[0] = FX_srv_rsa_crt; clen[0] = FX_srv_rsa_crt_len; certs[1] = FX_srv_ecec_crt; clen[1] = FX_srv_ecec_crt_len;
	certs[2] = FX_srv_ecrsa_crt; clen[2] = FX_srv_ecrsa_crt_len; certs[3] = FX_ca_rsa_crt; clen[3] = FX_ca_rsa_crt_len;
	certs[4] = FX_ca_ec_crt; clen[4] = FX_ca_ec_crt_len; certs[5] = FX_cli_rsa_crt; clen[5] = FX_cli_rsa_crt_len;
	certs[6] = FX_srv_ec384_crt; clen[6] = FX_srv_ec384_crt_len; certs[7] = FX_weak_rsa_crt; clen[7] = FX_weak_rsa_crt_len;
	keys[0] = FX_srv_rsa_key; klen[0] = FX_srv_rsa_key_len; keys[1] = FX_srv_ecec_key; klen[1] = FX_srv_ecec_key_len;
	keys[2] = FX_srv_ec384_key; klen[2] = FX_srv_ec384_key_len; keys[3] = FX_weak_rsa_key; klen[3] = FX_weak_rsa_key_len;
	switch (target) {
	case 0: gen_handshake_seeds(0); gen_prehandshake_record_seeds(); gen_scsv_seeds(); break;
	case 1: gen_handshake_seeds(1); gen_prehandshake_record_seeds(); break;
	case 2: case 3: {
		/* scripts: app data, close_notify, warning alert, HelloRequest / garbage handshake, CCS, raw garbage, wrong seq */
		static const unsigned char s1[] = { 0x03, 5, 0, 'h','e','l','l','o', 0x01, 2, 0, 1, 0 };
		static const unsigned char s2[] = { 0x02, 4, 0, 0, 0, 0, 0, 0x03, 3, 0, 'a','b','c' };
		static const unsigned char s3[] = { 0x01, 2, 0, 1, 100, 0x13, 1, 0, 'x', 0x01, 2, 0, 2, 40 };
		static const unsigned char s4[] = { 0x00, 1, 0, 1, 0x07, 4, 0, 1, 2, 3, 4, 0x0B, 3, 0, 'a','b','c' };
		static const unsigned char s5[] = { 0x01, 1, 0, 1, 0x01, 1, 0, 0, 0x03, 2, 0, 'o','k' };
		static const unsigned char s6[] = { 0x02, 40, 0, 1, 0, 0, 36, 3, 3, 0,0,0,0,0,0,0,0,0,0,0,0,0,0,0,0,0,0,0,0,0,0,0,0,0,0,0,0,0,0,0,0,0,0, 0, 0, 2, 0, 0x2F, 1, 0 };
		{
			const unsigned char *ss[6]; size_t sn[6]; int q, v2;
			ss[0] = s1; sn[0] = sizeof s1; ss[1] = s2; sn[1] = sizeof s2; ss[2] = s3; sn[2] = sizeof s3;
			ss[3] = s4; sn[3] = sizeof s4; ss[4] = s5; sn[4] = sizeof s5; ss[5] = s6; sn[5] = sizeof s6;
			for (v2 = 0; v2 < 2; v2 ++) for (q = 0; q < 6; q ++) {
				gbuf[0] = (unsigned char)v2; memcpy(gbuf + 1, ss[q], sn[q]); emit(gbuf, sn[q] + 1);
			}
			/* a raw record whose declared length is close to / beyond the small buffer: 0x0C = raw + header-from-input */
			for (q = 0; q < 6; q ++) {
				size_t dl = 826 + (size_t)q * 3, o = 0;
				gbuf[o ++] = 1; gbuf[o ++] = 0x0F; gbuf[o ++] = 0xFF; gbuf[o ++] = 0x07;
				gbuf[o ++] = (unsigned char)(dl >> 8); gbuf[o ++] = (unsigned char)dl;
				memset(gbuf + o, 0x41, 2045); o += 2045;
				emit(gbuf, o);
			}
		}
		break;
	}
	case 4: {
		DIR *d;
		char dir[400], path[700];
		struct dirent *de;
		/* leaf + CA, leaf alone, with names, dynamic */
		for (i = 0; i < 8; i ++) {
			int fl;
			for (fl = 0; fl < 4; fl ++) {
				static const unsigned char flags[4] = { 0x08, 0x09, 0x0A, 0x1B };
				size_t o = 0;
				gbuf[o ++] = flags[fl]; gbuf[o ++] = (unsigned char)(fl ? 0x02 : 0xFF);
				gbuf[o ++] = (unsigned char)(clen[i] >> 8); gbuf[o ++] = (unsigned char)clen[i];
				memcpy(gbuf + o, certs[i], clen[i]); o += clen[i];
				if (i < 3) {
					const unsigned char *ca = i == 1 ? FX_ca_ec_crt : FX_ca_rsa_crt;
					size_t cal = i == 1 ? FX_ca_ec_crt_len : FX_ca_rsa_crt_len;
					gbuf[o ++] = (unsigned char)(cal >> 8); gbuf[o ++] = (unsigned char)cal;
					memcpy(gbuf + o, ca, cal); o += cal;
				}
				emit(gbuf, o);
			}
		}
		snprintf(dir, sizeof dir, "%s/test/x509", repo);
		d = opendir(dir);
		while (d && (de = readdir(d)) != NULL) {
			size_t n = strlen(de->d_name);
			if (n < 5 || strcmp(de->d_name + n - 4, ".crt") != 0) continue;
			snprintf(path, sizeof path, "%s/%s", dir, de->d_name);
			l = read_file(path, gbuf + 4, sizeof gbuf - 4);
			if (l == 0 || l > 60000) continue;
			gbuf[0] = 0x0A; gbuf[1] = 0xFF; gbuf[2] = (unsigned char)(l >> 8); gbuf[3] = (unsigned char)l;
			emit(gbuf, l + 4);
		}
		if (d) closedir(d);
		{
			/* subjectAltName lists: wildcards, short names after longer ones, for the dotted and the dotless expected name */
			static const char *const san[][3] = {
				{ "*.example.com", "*", NULL }, { "*.localhost", "*", "localhost" }, { "*", "*.", "*.com" },
				{ "l.localhost", "*", NULL }, { "www.example.com", "x", "*.example.com" }, { "*.*.com", "w*.example.com", "*" },
			};
			size_t q;
			for (q = 0; q < sizeof san / sizeof san[0]; q ++) {
				int fl;
				for (fl = 0; fl < 2; fl ++) {
					l = make_cert_san(gbuf + 4, san[q], san[q][2] ? 3 : 2);
					gbuf[0] = fl ? 0x08 : 0x02; gbuf[1] = 0xFF; gbuf[2] = (unsigned char)(l >> 8); gbuf[3] = (unsigned char)l;
					emit(gbuf, l + 4);
				}
			}
		}
		for (i = 0; i < sizeof sizes / sizeof sizes[0]; i ++) {
			if (sizes[i] > 1100) continue;
			l = make_cert(gbuf + 4, sizes[i], sizes[(i * 7) % 12] % 600 + 1);
			gbuf[0] = 0x08; gbuf[1] = 0xFF; gbuf[2] = (unsigned char)(l >> 8); gbuf[3] = (unsigned char)l;
			emit(gbuf, l + 4);
			l = make_cert(gbuf + 4, 256, sizes[i] > 600 ? 513 : sizes[i]);
			gbuf[2] = (unsigned char)(l >> 8); gbuf[3] = (unsigned char)l;
			emit(gbuf, l + 4);
		}
		break;
	}
	case 5:
		for (i = 0; i < 8; i ++) {
			gbuf[0] = 0x03; gbuf[1] = 0xFF; memcpy(gbuf + 2, certs[i], clen[i]); emit(gbuf, clen[i] + 2);
			gbuf[1] = 0x01; emit(gbuf, clen[i] + 2);
		}
		for (i = 0; i < sizeof sizes / sizeof sizes[0]; i ++) {
			if (sizes[i] > 1100) continue;
			l = make_cert(gbuf + 2, sizes[i], 256);
			gbuf[0] = 0x03; gbuf[1] = 0xFF; emit(gbuf, l + 2);
		}
		break;
	case 6:
		for (i = 0; i < 4; i ++) { gbuf[0] = 0; gbuf[1] = 0xFF; memcpy(gbuf + 2, keys[i], klen[i]); emit(gbuf, klen[i] + 2); gbuf[1] = 2; emit(gbuf, klen[i] + 2); }
		for (i = 0; i < sizeof sizes / sizeof sizes[0]; i ++) {
			if (sizes[i] > 1024) continue;
			l = make_rsa_priv(gbuf + 2, sizes[i]);
			gbuf[0] = 0; gbuf[1] = 0xFF; emit(gbuf, l + 2);
		}
		break;
	case 7:
		for (i = 0; i < sizeof sizes / sizeof sizes[0]; i ++) {
			l = make_rsa_spki(gbuf + 2, sizes[i]);
			gbuf[0] = 0; gbuf[1] = 0xFF; emit(gbuf, l + 2);
			gbuf[0] = 4; gbuf[1] = 0x03; emit(gbuf, l + 2);
			l = make_rsa_pub(gbuf + 2, sizes[i]);
			gbuf[0] = 0; gbuf[1] = 0xFF; emit(gbuf, l + 2);
		}
		{
			/* EC SPKI taken out of the fixture certificates: search for the ecPublicKey AlgorithmIdentifier */
			static const unsigned char pat[] = { 0x06, 0x07, 0x2A, 0x86, 0x48, 0xCE, 0x3D, 0x02, 0x01 };
			int ci;
			for (ci = 1; ci <= 6; ci += 5) {
				size_t j;
				for (j = 4; j + sizeof pat < clen[ci]; j ++) {
					if (memcmp(certs[ci] + j, pat, sizeof pat) == 0) {
						size_t st = j - 4;   /* SEQUENCE hdr(2) + SEQUENCE hdr(2) precede the OID */
						size_t tot = 2 + certs[ci][st + 1];
						gbuf[0] = 0; gbuf[1] = 0xFF; memcpy(gbuf + 2, certs[ci] + st, tot); emit(gbuf, tot + 2);
						break;
					}
				}
			}
		}
		break;
	case 8: {
		static unsigned char pem[20000];
		for (i = 0; i < 4; i ++) {
			size_t pl = br_pem_encode(pem, keys[i], klen[i], i & 1 ? "RSA PRIVATE KEY" : "EC PRIVATE KEY", (i & 2) ? BR_PEM_CRLF : 0);
			gbuf[0] = 0xFF; memcpy(gbuf + 1, pem, pl); emit(gbuf, pl + 1);
			gbuf[0] = 0x02; emit(gbuf, pl + 1);
		}
		{
			size_t pl = br_pem_encode(pem, certs[0], clen[0], "CERTIFICATE", BR_PEM_LINE64);
			size_t pl2 = br_pem_encode(pem + pl, certs[1], clen[1], "CERTIFICATE", 0);
			gbuf[0] = 0xFF; memcpy(gbuf + 1, pem, pl + pl2); emit(gbuf, pl + pl2 + 1);
		}
		{
			static const char bad[] = "junk\n-----BEGIN A-----\nAAEC\n!!!!\n-----END A-----\n-----BEGIN B-----\n/v79\n-----END B-----\n-----BEGIN C-----\nQUJD=\n-----END C-----\n";
			gbuf[0] = 0xFF; memcpy(gbuf + 1, bad, sizeof bad - 1); emit(gbuf, sizeof bad);
		}
		break;
	}
	case 9: {
		static const int curves[3] = { BR_EC_secp256r1, BR_EC_secp384r1, BR_EC_secp521r1 };
		int c, h;
		for (c = 0; c < 3; c ++) for (h = 20; h <= 64; h += 22) {
			br_ec_private_key sk;
			unsigned char k[32], hv[64], sg[200];
			size_t sl2, o = 0;
			memset(k, 0x42, sizeof k); memset(hv, 0x17 + h, sizeof hv);
			sk.curve = curves[c]; sk.x = k; sk.xlen = sizeof k;
			sl2 = br_ecdsa_i31_sign_asn1(br_ec_get_default(), h == 20 ? &br_sha1_vtable : (h == 42 ? &br_sha256_vtable : &br_sha512_vtable), hv, &sk, sg);
			gbuf[o ++] = (unsigned char)(0x80 | c | (((c + h) & 3) << 2) | (((h / 22) & 3) << 4));
			gbuf[o ++] = (unsigned char)(h == 20 ? 20 : (h == 42 ? 32 : 64)); gbuf[o ++] = 0;
			memcpy(gbuf + o, hv, gbuf[1]); o += gbuf[1];
			memcpy(gbuf + o, sg, sl2); o += sl2;
			emit(gbuf, o);
			if (c == 0 && h == 42) {
				/* structurally truncated variants: outer length adjusted to each cut point */
				size_t cut;
				for (cut = 3; cut < sl2; cut ++) {
					size_t o2 = 3 + gbuf[1];
					memcpy(gbuf + o2, sg, cut);
					gbuf[o2 + 1] = (unsigned char)(cut - 2);
					emit(gbuf, o2 + cut);
				}
				memcpy(gbuf + 3 + gbuf[1], sg, sl2);
			}
			sl2 = br_ecdsa_i31_sign_raw(br_ec_get_default(), h == 20 ? &br_sha1_vtable : (h == 42 ? &br_sha256_vtable : &br_sha512_vtable), hv, &sk, sg);
			o = 3 + gbuf[1];
			memcpy(gbuf + o, sg, sl2); o += sl2;
			emit(gbuf, o);
		}
		break;
	}
	case 10: {
		/* n, e from the fixture key; x = a valid PKCS#1 signature */
		br_rsa_public_key pk;
		static unsigned char sg[512], hv[32], nb[512];
		static const unsigned char oid_sha256[] = { 0x09, 0x60, 0x86, 0x48, 0x01, 0x65, 0x03, 0x04, 0x02, 0x01 };
		size_t o, nl;
		uint32_t e32 = 65537;
		unsigned char eb[4];
		tp_fixtures();
		memset(hv, 0x21, sizeof hv);
		nl = (tp_fx.srv_rsa.rsa.n_bitlen + 7) >> 3;
		br_rsa_i31_pkcs1_sign(oid_sha256, hv, 32, &tp_fx.srv_rsa.rsa, sg);
		/* modulus from the trust store fixture certificate: decode */
		{
			br_x509_decoder_context dc;
			br_x509_pkey *k;
			br_x509_decoder_init(&dc, 0, 0, 0, 0);
			br_x509_decoder_push(&dc, FX_srv_rsa_crt, FX_srv_rsa_crt_len);
			k = br_x509_decoder_get_pkey(&dc);
			memcpy(nb, k->key.rsa.n, k->key.rsa.nlen); nl = k->key.rsa.nlen;
			pk = k->key.rsa; (void)pk;
		}
		eb[0] = (unsigned char)(e32 >> 16); eb[1] = (unsigned char)(e32 >> 8); eb[2] = (unsigned char)e32;
		for (o = 0; o < 4; o ++) {
			size_t q = 0;
			gbuf[q ++] = (unsigned char)(o | 4 | 16); gbuf[q ++] = (unsigned char)(nl >> 8); gbuf[q ++] = (unsigned char)nl; gbuf[q ++] = 2;
			memcpy(gbuf + q, nb, nl); q += nl; memcpy(gbuf + q, eb, 3); q += 3;
			memcpy(gbuf + q, sg, nl); q += nl;
			emit(gbuf, q);
		}
		for (i = 0; i < sizeof sizes / sizeof sizes[0]; i ++) {
			size_t q = 0, nb2 = sizes[i] > 1023 ? 1023 : sizes[i];
			gbuf[q ++] = (unsigned char)((i & 3) | 4 | 8); gbuf[q ++] = (unsigned char)(nb2 >> 8); gbuf[q ++] = (unsigned char)nb2; gbuf[q ++] = 2;
			memset(gbuf + q, 0xC7, nb2); q += nb2; memcpy(gbuf + q, eb, 3); q += 3;
			memset(gbuf + q, 0x35, nb2); q += nb2;
			emit(gbuf, q);
		}
		break;
	}
	case 11: {
		static const int curves[4] = { BR_EC_secp256r1, BR_EC_secp384r1, BR_EC_secp521r1, BR_EC_curve25519 };
		int c, im;
		for (im = 0; im < 14; im ++) for (c = 0; c < 4; c ++) {
			const br_ec_impl *ei = br_ec_get_default();
			unsigned char k[32], P[140];
			size_t pl, q = 0;
			if (!((ei->supported_curves >> curves[c]) & 1)) continue;
			memset(k, 0x3D, sizeof k); k[0] = 1;
			pl = ei->mulgen(P, k, sizeof k, curves[c]);
			gbuf[q ++] = (unsigned char)im; gbuf[q ++] = (unsigned char)(c | ((im & 1) << 2)); gbuf[q ++] = (unsigned char)pl; gbuf[q ++] = 31;
			memcpy(gbuf + q, P, pl); q += pl; memcpy(gbuf + q, k, 32); q += 32;
			emit(gbuf, q);
		}
		break;
	}
	case 12: {
		/* fill beyond the capacity (evictions), look everything up again, store again in another order */
		int cap, sd;
		for (cap = 0; cap < 12; cap += 2) for (sd = 0; sd < 3; sd ++) {
			size_t q = 0; int i;
			gbuf[q ++] = (unsigned char)cap; gbuf[q ++] = (unsigned char)(17 * sd + 1);
			for (i = 0; i < 40; i ++) { gbuf[q ++] = (unsigned char)(4 * i); gbuf[q ++] = (unsigned char)((i * (7 + 2 * sd)) & 63); }
			for (i = 0; i < 40; i ++) { gbuf[q ++] = 2; gbuf[q ++] = (unsigned char)((i * 5) & 63); }
			for (i = 0; i < 40; i ++) { gbuf[q ++] = (unsigned char)(i & 1 ? 0 : 3); gbuf[q ++] = (unsigned char)((i * 11 + sd) & 63); }
			emit(gbuf, q);
		}
		break;
	}
	}
	fprintf(stderr, "FZ_CORPUS target=%s seeds=%d\n", tnames[target], corpus_n);
}

/* ------------------------------------------------------------------ */


static void
at_exit_stats(void)
{
	fprintf(stderr, "FZ_STATS target=%s execs=%llu ok_results=%llu err_results=%llu max_steps_per_call=%llu max_steps_per_byte=%.1f t0_steps=%llu c06_checks=%lld hs_completed=%llu\n",
		target >= 0 ? tnames[target] : "?", n_exec, n_ok_results, n_err_results, max_steps_per_call, max_ratio,
		br_verif_t0_steps, tp_calls, n_hs_completed);
}

int LLVMFuzzerInitialize(int *argc, char ***argv);
int
LLVMFuzzerInitialize(int *argc, char ***argv)
{
	const char *t = getenv("FZ_TARGET");
	int i;
	(void)argc; (void)argv;
	tp_prop = "C05";
	for (i = 0; i < 13; i ++) if (t && strcmp(t, tnames[i]) == 0) target = i;
	if (target < 0) { fprintf(stderr, "FZ_TARGET not set or unknown\n"); exit(2); }
	tp_fixtures();
	tp_fifo_init(&sinkf);
	if (target == 2) post_init(0);
	if (target == 3) post_init(1);
	if (getenv("FZ_MKCORPUS")) {
		corpus_dir = getenv("FZ_MKCORPUS");
		gen_corpus();
		exit(0);
	}
	atexit(at_exit_stats);
	return 0;
}

int LLVMFuzzerTestOneInput(const uint8_t *data, size_t len);
int
LLVMFuzzerTestOneInput(const uint8_t *data, size_t len)
{
	n_exec ++;
	snprintf(tp_case, sizeof tp_case, "target=%s len=%zu", tnames[target], len);
	switch (target) {
	case 0: t_engine_pre(0, data, len); break;
	case 1: t_engine_pre(1, data, len); break;
	case 2: case 3: t_engine_post(data, len); break;
	case 4: t_x509_minimal(data, len); break;
	case 5: t_x509_decoder(data, len); break;
	case 6: t_skey(data, len); break;
	case 7: t_pkey(data, len); break;
	case 8: t_pem(data, len); break;
	case 9: t_ecdsa(data, len); break;
	case 10: t_rsa_pub(data, len); break;
	case 11: t_ec_pub(data, len); break;
	case 12: t_lru(data, len); break;
	}
	return 0;
}
