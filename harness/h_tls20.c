/*
 * C20: no handshake without seeded randomness; record sequence numbers, nonces
 * and IVs never repeat under a key; randoms differ across seeds; equal seeds
 * and schedules reproduce the exchange byte for byte.
 */
#include "tlsmon.h"

static char mode_desc[200];

/* ---------------- (1) seeding ---------------- */

static void
seed_case(int role, int seeder_mode, int inject, int expect_ok, const char *name)
{
	tp_ep ep;
	tp_cfg c;
	int r;
	size_t l;
	char what[200];
	memset(&ep, 0, sizeof ep);
	tp_cfg_default(&c, role);
	c.seeder_mode = seeder_mode;
	c.inject_entropy = inject;
	memset(c.seed, 0x33, 32);
	snprintf(tp_case, sizeof tp_case, "%s seeding-case=%s role=%d seeder_mode=%d inject=%d", mode_desc, name, role, seeder_mode, inject);
	r = tp_ep_start(&ep, &c);
	vf_stat("seed_cases", 1);
	if (!expect_ok) {
		if (r != 0 || br_ssl_engine_last_error(ep.eng) != BR_ERR_NO_RANDOM
			|| br_ssl_engine_current_state(ep.eng) != BR_SSL_CLOSED
			|| br_ssl_engine_sendrec_buf(ep.eng, &l) != NULL)
		{
			snprintf(what, sizeof what, "reset returned %d, last_error=%d, state=%u although no randomness source was available",
				r, br_ssl_engine_last_error(ep.eng), br_ssl_engine_current_state(ep.eng));
			TP_VIOL("handshake-started-without-randomness", what);
		} else {
			vf_stat("refused_without_randomness", 1);
		}
	} else {
		if (r != 1 || br_ssl_engine_last_error(ep.eng) != 0) {
			snprintf(what, sizeof what, "reset returned %d, last_error=%d although entropy was available", r, br_ssl_engine_last_error(ep.eng));
			TP_VIOL("refused-although-seeded", what);
		} else {
			vf_stat("started_with_randomness", 1);
		}
	}
	tp_ep_free(&ep);
}

/* several resets of the SAME context: a refused reset must not wear the check
 * out.  expect[i]: 1 must start, 0 must be refused, -1 recorded only */
static void
seed_sequence(int role, int n, const int *smode, const int *inject, const int *expect, const char *name)
{
	tp_ep ep;
	tp_cfg c;
	int i, r;
	size_t l;
	char what[240];
	memset(&ep, 0, sizeof ep);
	for (i = 0; i < n; i ++) {
		tp_cfg_default(&c, role);
		c.seeder_mode = smode[i];
		c.inject_entropy = inject[i];
		c.reuse_ctx = i > 0;
		memset(c.seed, 0x36 + i, 32);
		snprintf(tp_case, sizeof tp_case, "%s seeding-sequence=%s role=%d step=%d/%d seeder_mode=%d inject=%d",
			mode_desc, name, role, i + 1, n, smode[i], inject[i]);
		r = tp_ep_start(&ep, &c);
		vf_stat("seed_sequence_resets", 1);
		vf_distinct("seed_sequence_step", "%s step%d mode%d inject%d -> %d err%d", name, i + 1, smode[i], inject[i], r, br_ssl_engine_last_error(ep.eng));
		if (expect[i] == 0) {
			if (r != 0 || br_ssl_engine_last_error(ep.eng) != BR_ERR_NO_RANDOM
				|| br_ssl_engine_current_state(ep.eng) != BR_SSL_CLOSED
				|| br_ssl_engine_sendrec_buf(ep.eng, &l) != NULL)
			{
				snprintf(what, sizeof what, "reset #%d on the same context returned %d, last_error=%d, state=%u although the context never received any randomness",
					i + 1, r, br_ssl_engine_last_error(ep.eng), br_ssl_engine_current_state(ep.eng));
				TP_VIOL("handshake-started-without-randomness", what);
			} else {
				vf_stat("refused_without_randomness", 1);
			}
		} else if (expect[i] == 1) {
			if (r != 1 || br_ssl_engine_last_error(ep.eng) != 0) {
				snprintf(what, sizeof what, "reset #%d returned %d, last_error=%d although entropy was injected", i + 1, r, br_ssl_engine_last_error(ep.eng));
				TP_VIOL("refused-although-seeded", what);
			} else {
				vf_stat("started_with_randomness", 1);
			}
		} else {
			vf_stat("seed_sequence_unjudged_steps", 1);
		}
	}
	tp_ep_free(&ep);
}

/* A refused reset, then injected entropy, then the reset that starts: what the endpoint then emits depends on the
   injected bytes (two contexts with that history and different injected seeds do not produce the same hello random).
   Client: the random of its ClientHello; server: the random of its ServerHello in answer to one fixed ClientHello. */
static int
random_after_refusal(int role, int dead_mode, unsigned seedbyte, unsigned char *out32, const unsigned char *ch, size_t chlen)
{
	tp_ep ep;
	tp_cfg c;
	size_t l;
	unsigned char *b;
	int ok = 0, n = 0;
	memset(&ep, 0, sizeof ep);
	tp_cfg_default(&c, role);
	c.seeder_mode = dead_mode; c.inject_entropy = 0;
	memset(c.seed, 0x11, 32);
	if (tp_ep_start(&ep, &c) != 0) { tp_ep_free(&ep); return 0; }      /* (judged by the sequences above) */
	c.reuse_ctx = 1; c.inject_entropy = 1;
	memset(c.seed, (int)seedbyte, 32);
	if (tp_ep_start(&ep, &c) != 1) { tp_ep_free(&ep); return 0; }
	if (role == 1) {
		size_t off = 0;
		while (off < chlen && n ++ < 1000 && (b = br_ssl_engine_recvrec_buf(ep.eng, &l)) != NULL) {
			if (l > chlen - off) l = chlen - off;
			memcpy(b, ch + off, l); off += l;
			br_ssl_engine_recvrec_ack(ep.eng, l);
		}
	}
	b = br_ssl_engine_sendrec_buf(ep.eng, &l);
	if (b != NULL && l >= 43 && b[0] == 22 && b[5] == (role ? 2 : 1)) { memcpy(out32, b + 11, 32); ok = 1; }
	tp_ep_free(&ep);
	return ok;
}

static void
seed_after_refusal(int role, int dead_mode, const char *tag)
{
	unsigned char ra[32], rb[32], ch[600];
	size_t chlen = 0;
	snprintf(tp_case, sizeof tp_case, "%s seeding-after-refusal=%s role=%d", mode_desc, tag, role);
	if (role == 1) {
		/* one fixed ClientHello from an ordinary client */
		tp_ep e; tp_cfg c; size_t l; unsigned char *b;
		memset(&e, 0, sizeof e);
		tp_cfg_default(&c, 0);
		c.seeder_mode = dead_mode; c.inject_entropy = 1; memset(c.seed, 0x77, 32);
		if (!tp_ep_start(&e, &c) || (b = br_ssl_engine_sendrec_buf(e.eng, &l)) == NULL || l > sizeof ch) { tp_ep_free(&e); return; }
		memcpy(ch, b, l); chlen = l;
		tp_ep_free(&e);
	}
	if (!random_after_refusal(role, dead_mode, 0x41, ra, ch, chlen) || !random_after_refusal(role, dead_mode, 0x42, rb, ch, chlen)) {
		vf_stat("seed_after_refusal_not_observed", 1);
		return;
	}
	vf_stat("seed_after_refusal_compared", 1);
	if (memcmp(ra, rb, 32) == 0) {
		TP_VIOL("injected-entropy-ignored", "two contexts (refused reset, then 32 injected bytes, then the reset that starts) given different injected bytes emit the same hello random");
	}
}

static void
seed_sequences(int role, int dead_mode, const char *tag)
{
	char name[80];
	seed_after_refusal(role, dead_mode, tag);
	{
		int m[4] = { dead_mode, dead_mode, dead_mode, dead_mode }, in[4] = { 0, 0, 0, 0 }, ex[4] = { 0, 0, 0, 0 };
		snprintf(name, sizeof name, "%s:refused-x4", tag);
		seed_sequence(role, 4, m, in, ex, name);
	}
	{
		/* refused, refused, then entropy is injected: starts; afterwards the context is seeded */
		int m[4] = { dead_mode, dead_mode, dead_mode, dead_mode }, in[4] = { 0, 0, 1, 0 }, ex[4] = { 0, 0, 1, -1 };
		snprintf(name, sizeof name, "%s:refused-refused-inject", tag);
		seed_sequence(role, 4, m, in, ex, name);
	}
	if (dead_mode != 0) {
		/* alternate the two kinds of dead source */
		int m[3] = { dead_mode, dead_mode == 2 ? 3 : 2, dead_mode }, in[3] = { 0, 0, 0 }, ex[3] = { 0, 0, 0 };
		snprintf(name, sizeof name, "%s:refused-other-dead-source", tag);
		seed_sequence(role, 3, m, in, ex, name);
	}
	if (dead_mode != 0) {
		/* refused, then the source works: either outcome respects the property; then dead again */
		int m[3] = { dead_mode, 1, dead_mode }, in[3] = { 0, 0, 0 }, ex[3] = { 0, -1, -1 };
		snprintf(name, sizeof name, "%s:refused-then-working-source", tag);
		seed_sequence(role, 3, m, in, ex, name);
	}
}

/* the generator is an HMAC_DRBG over SHA-256, else SHA-384, else SHA-1, whichever the engine has:
 * the seeding rule must not depend on which one it is; with none of them no handshake may start */
static void
drop_hashes(void *epv, void *arg)
{
	tp_ep *ep = epv;
	int mask = *(int *)arg, id;
	for (id = 1; id <= 6; id ++) if (mask & (1 << id)) br_ssl_engine_set_hash(ep->eng, id, NULL);
}

static void
seed_hash_case(int role, int mask, int seeder_mode, int inject, int expect /* 1 start, 0 refuse NO_RANDOM, 2 refuse with any error */, const char *name)
{
	tp_ep ep;
	tp_cfg c;
	int r, e;
	size_t l;
	char what[240];
	memset(&ep, 0, sizeof ep);
	tp_cfg_default(&c, role);
	c.seeder_mode = seeder_mode;
	c.inject_entropy = inject;
	c.pre_reset = drop_hashes; c.pre_reset_arg = &mask;
	memset(c.seed, 0x3A, 32);
	snprintf(tp_case, sizeof tp_case, "%s seeding-hash-case=%s role=%d dropped-hash-mask=%02x seeder_mode=%d inject=%d", mode_desc, name, role, mask, seeder_mode, inject);
	r = tp_ep_start(&ep, &c);
	e = br_ssl_engine_last_error(ep.eng);
	vf_stat("seed_hash_cases", 1);
	vf_distinct("seed_hash_outcome", "mask%02x mode%d inject%d -> %d err%d", mask, seeder_mode, inject, r, e);
	if (expect == 1) {
		if (r != 1 || e != 0) {
			snprintf(what, sizeof what, "reset returned %d, last_error=%d although entropy was available (generator hash differs from SHA-256)", r, e);
			TP_VIOL("refused-although-seeded", what);
		} else vf_stat("started_with_randomness", 1);
	} else {
		if (r != 0 || e == 0 || (expect == 0 && e != BR_ERR_NO_RANDOM)
			|| br_ssl_engine_current_state(ep.eng) != BR_SSL_CLOSED || br_ssl_engine_sendrec_buf(ep.eng, &l) != NULL)
		{
			snprintf(what, sizeof what, "reset returned %d, last_error=%d, state=%u: a handshake started although %s", r, e, br_ssl_engine_current_state(ep.eng),
				expect == 0 ? "no randomness was available" : "the engine has no hash function for its generator");
			TP_VIOL("handshake-started-without-randomness", what);
		} else vf_stat("refused_without_randomness", 1);
	}
	tp_ep_free(&ep);
}

static void
seed_hash_cases(int role)
{
	static const int masks[3] = { 1 << 4, (1 << 4) | (1 << 5), (1 << 4) | (1 << 5) | (1 << 2) };   /* -SHA256; -SHA256-SHA384; -SHA256-SHA384-SHA1 */
	int i;
	for (i = 0; i < 3; i ++) {
		int none = i == 2;
		seed_hash_case(role, masks[i], 1, 0, none ? 2 : 1, "working-seeder");
		seed_hash_case(role, masks[i], 2, 0, none ? 2 : 0, "seeder-fails");
		seed_hash_case(role, masks[i], 3, 0, none ? 2 : 0, "no-seeder");
		seed_hash_case(role, masks[i], 2, 1, none ? 2 : 1, "seeder-fails+inject");
	}
}

/* full handshake where both endpoints have only injected entropy */
static void
inject_only_handshake(int seeder_mode)
{
	tp_pair p;
	tp_cfg cc, sc;
	tp_cfg_default(&cc, 0); tp_cfg_default(&sc, 1);
	cc.seeder_mode = sc.seeder_mode = seeder_mode;
	cc.inject_entropy = sc.inject_entropy = 1;
	memset(cc.seed, 0x44, 32); memset(sc.seed, 0x55, 32);
	snprintf(tp_case, sizeof tp_case, "%s inject-only handshake seeder_mode=%d", mode_desc, seeder_mode);
	tp_pair_init(&p, 1, 1, TP_CHUNK_WHOLE);
	if (!tp_ep_start(&p.c, &cc) || !tp_ep_start(&p.s, &sc) || !tp_handshake(&p, 1000000)) {
		TP_VIOL("injected-entropy-not-sufficient", "handshake with injected entropy only did not complete");
	} else {
		vf_stat("inject_only_handshakes", 1);
	}
	tp_pair_free(&p);
}

/* ---------------- (2) sequence numbers, IVs ---------------- */

#define MAXIV 40000
typedef struct {
	tm_pairmon pm;
	unsigned char (*ivs)[16];     /* explicit IV / nonce values seen in the current (dir, epoch) */
	int niv[2];
	int epoch[2];
	uint64_t expect_seq[2];
	long n_checked;
	int bad;
} seqmon;

static seqmon SM;
static unsigned char ivstore[2][MAXIV][16];

static void
seq_hook(void *arg, const rm_record *r, const unsigned char *plain)
{
	int d = r->dir, i;
	(void)arg; (void)plain;
	if (!r->protected_) return;
	if (r->epoch != SM.epoch[d]) {
		SM.epoch[d] = r->epoch;
		SM.niv[d] = 0;
		SM.expect_seq[d] = 0;
		vf_stat("key_changes_seen", 1);
	}
	/* the independent decoder authenticated this record with sequence number r->seq */
	if (r->seq != SM.expect_seq[d]) {
		if (!SM.bad) TP_VIOL("sequence-number-not-consecutive", "record authenticated under a sequence number that is not previous+1");
		SM.bad = 1;
	}
	SM.expect_seq[d] ++;
	SM.n_checked ++;
	if (r->expl_len > 0) {
		/* explicit IV (CBC, TLS 1.1+) or explicit nonce (GCM/CCM): pairwise distinct within the epoch */
		if (SM.niv[d] < MAXIV) {
			/* hash-free check: compare with all previous ones in chunks (n^2 but bounded) only for the last 64;
			   full uniqueness is checked at the end by sorting */
			memset(ivstore[d][SM.niv[d]], 0, 16);
			memcpy(ivstore[d][SM.niv[d]], r->expl, r->expl_len);
			SM.niv[d] ++;
		}
		for (i = 0; i < (int)r->expl_len; i ++) if (r->expl[i]) break;
		vf_stat("explicit_ivs_seen", 1);
	}
}

static int
cmp16(const void *a, const void *b) { return memcmp(a, b, 16); }

static void
check_iv_unique(int d)
{
	int i;
	if (SM.niv[d] < 2) return;
	qsort(ivstore[d], (size_t)SM.niv[d], 16, cmp16);
	for (i = 1; i < SM.niv[d]; i ++) {
		if (memcmp(ivstore[d][i - 1], ivstore[d][i], 16) == 0) {
			TP_VIOL("explicit-iv-or-nonce-repeated", "two records of the same direction and key carry the same explicit IV / nonce");
			return;
		}
	}
	vf_stat("iv_sets_checked_unique", 1);
}

/* move the record sequence numbers of a quiescent connection forward (both engines and the independent decoder):
 * a 64-bit counter cannot be driven to 2^32 or 2^63 by sending records, the arithmetic around those values is
 * exercised by starting from just below them */
static uint64_t *
seq_field(br_ssl_engine_context *e, int out, int enc)
{
	if (enc <= 2) return out ? &e->out.cbc.seq : &e->in.cbc.seq;
	if (enc == 9) return out ? &e->out.chapol.seq : &e->in.chapol.seq;
	if (enc >= 5 && enc <= 8) return out ? &e->out.ccm.seq : &e->in.ccm.seq;
	return out ? &e->out.gcm.seq : &e->in.gcm.seq;
}

static void
seq_jump(tp_pair *p, int enc, uint64_t base0, uint64_t base1)
{
	if (*seq_field(p->c.eng, 1, enc) != SM.expect_seq[0] || *seq_field(p->s.eng, 0, enc) != SM.expect_seq[0]
		|| *seq_field(p->s.eng, 1, enc) != SM.expect_seq[1] || *seq_field(p->c.eng, 0, enc) != SM.expect_seq[1])
	{
		TP_VIOL("harness-assert:sequence-fields", "engine sequence counters are not where the decoder expects them before the jump");
		return;
	}
	*seq_field(p->c.eng, 1, enc) = base0; *seq_field(p->s.eng, 0, enc) = base0;
	*seq_field(p->s.eng, 1, enc) = base1; *seq_field(p->c.eng, 0, enc) = base1;
	SM.pm.m.rm.cs[0].seq = base0; SM.pm.m.rm.cs[1].seq = base1;
	SM.expect_seq[0] = base0; SM.expect_seq[1] = base1;
	vf_stat("sequence_jumps", 1);
	vf_distinct("sequence_base", "%d %llx/%llx", enc, (unsigned long long)base0, (unsigned long long)base1);
}

static void
long_session(uint16_t suite, unsigned version, int nrecords, int nreneg, uint64_t seed)
{
	tp_pair p;
	tp_cfg cc, sc;
	uint16_t sl[1];
	vf_rng r;
	int seg;
	const tp_suite_info *si = tp_suite_find(suite);
	vf_rng_init(&r, seed, suite * 4 + version);
	tp_cfg_default(&cc, 0); tp_cfg_default(&sc, 1);
	sl[0] = suite; cc.suites = sl; cc.nsuites = 1; cc.vmin = cc.vmax = version;
	sc.keykind = tp_key_for_suite(si, 0);
	vf_bytes(&r, cc.seed, 32); vf_bytes(&r, sc.seed, 32);
	snprintf(tp_case, sizeof tp_case, "%s long-session suite=%s ver=%04x records=%d reneg=%d", mode_desc, si->name, version, nrecords, nreneg);
	tp_pair_init(&p, seed, suite, TP_CHUNK_WHOLE);
	p.c.tx_key = vf_u64(&r); p.s.tx_key = vf_u64(&r);
	memset(&SM, 0, sizeof SM);
	tm_pair_attach(&SM.pm, &p);
	SM.pm.m.rec_hook = seq_hook;
	SM.epoch[0] = SM.epoch[1] = -1;
	if (!tp_ep_start(&p.c, &cc) || !tp_ep_start(&p.s, &sc)) { TP_VIOL("setup", "reset failed"); goto out; }
	p.c.tx_key = SM.pm.m.key[0]; p.c.rx_key = SM.pm.m.key[1];
	p.s.tx_key = SM.pm.m.key[1]; p.s.rx_key = SM.pm.m.key[0];
	if (!tp_handshake(&p, 1000000)) { TP_VIOL("setup", "handshake failed"); goto out; }
	for (seg = 0; seg <= nreneg; seg ++) {
		int k, per = nrecords / (nreneg + 1);
		for (k = 0; k < per; k ++) {
			static const uint64_t bases[5] = { 0xFFFDull, 0xFFFFFFFDull, 0xFFFFFFFFFFFDull, 0x7FFFFFFFFFFFFFFDull, 0xFFFFFFFFFFFF0000ull };
			/* four times per key: continue from just below 2^16, 2^32, 2^48, 2^63 (and near the top of the range) */
			if (k > 0 && k % (per / 5 + 1) == per / 10) {
				int bi = (int)((k / (per / 5 + 1) + seg) % 5);
				seq_jump(&p, si->enc, bases[bi], bases[(bi + 1) % 5]);
			}
			/* one small record in each direction */
			tp_act_write(&p.c, 1 + vf_below(&r, 30)); tp_act_flush(&p.c, 0);
			tp_act_write(&p.s, 1 + vf_below(&r, 30)); tp_act_flush(&p.s, 0);
			tp_settle(&p, 10000);
		}
		if (seg < nreneg) {
			check_iv_unique(0); check_iv_unique(1);
			if (!tp_act_reneg((seg & 1) ? &p.s : &p.c)) { TP_VIOL("setup", "renegotiation refused"); goto out; }
			tp_settle(&p, 1000000);
			if (!tp_ep_ready(&p.c) || !tp_ep_ready(&p.s)) { TP_VIOL("setup", "renegotiation did not complete"); goto out; }
			vf_stat("renegotiations", 1);
		}
	}
	tp_run_close(&p, 0, 100000);
	check_iv_unique(0); check_iv_unique(1);
	tm_verdict(&SM.pm.m, 1, p.c.tx_done, p.s.tx_done);
	vf_stat("records_sequence_checked", SM.n_checked);
	vf_stat("long_sessions", 1);
	vf_distinct("mode_version", "%d/%04x", si->enc, version);
out:
	rm_free(&SM.pm.m.rm);
	tp_pair_free(&p);
}

/* ---------------- (3) distinctness across seeds, (4) reproducibility ---------------- */

typedef struct {
	tm_pairmon pm;
	unsigned char cr[32], sr[32], sid[32], ske[200], cke[600];
	size_t ske_len, cke_len;
	unsigned char *wire[2]; size_t wlen[2], wcap[2];
} conn_rec;

static conn_rec *CR;

static void
hs_cb(void *arg, int dir, int type, const unsigned char *body, size_t len)
{
	(void)arg;
	if (type == 12 && dir == 1) { CR->ske_len = len < sizeof CR->ske ? len : sizeof CR->ske; memcpy(CR->ske, body, CR->ske_len); }
	if (type == 16 && dir == 0) { CR->cke_len = len < sizeof CR->cke ? len : sizeof CR->cke; memcpy(CR->cke, body, CR->cke_len); }
}

static void
wire_tap(void *arg, int dir, const unsigned char *data, size_t len)
{
	(void)arg;
	rm_append_(&CR->wire[dir], &CR->wlen[dir], &CR->wcap[dir], data, len);
	tm_tap(&CR->pm.m, dir, data, len);
}

static int
one_connection(conn_rec *cr, uint16_t suite, uint64_t seedval, uint64_t sched_seed, int chunk)
{
	tp_pair p;
	tp_cfg cc, sc;
	uint16_t sl[1];
	vf_rng r;
	int ok = 0;
	vf_rng_init(&r, seedval, 99);
	tp_cfg_default(&cc, 0); tp_cfg_default(&sc, 1);
	sl[0] = suite; cc.suites = sl; cc.nsuites = 1;
	sc.keykind = tp_key_for_suite(tp_suite_find(suite), 0);
	vf_bytes(&r, cc.seed, 32); vf_bytes(&r, sc.seed, 32);
	tp_pair_init(&p, sched_seed, 5, chunk);
	memset(cr, 0, sizeof *cr);
	CR = cr;
	p.c.tx_key = 1; p.s.tx_key = 2;
	tm_pair_attach(&cr->pm, &p);
	cr->pm.m.rm.on_hs = hs_cb;
	p.tap = wire_tap;
	if (!tp_ep_start(&p.c, &cc) || !tp_ep_start(&p.s, &sc)) goto out;
	p.c.tx_key = 1; p.c.rx_key = 2; p.s.tx_key = 2; p.s.rx_key = 1;
	if (!tp_handshake(&p, 1000000)) goto out;
	tp_run_data(&p, 100, 100, TP_W_SMALL, 100000);
	tp_run_close(&p, 0, 100000);
	memcpy(cr->cr, cr->pm.m.rm.client_random, 32);
	memcpy(cr->sr, cr->pm.m.rm.server_random, 32);
	memcpy(cr->sid, cr->pm.m.rm.session_id, 32);
	ok = !cr->pm.m.rm.failed;
out:
	rm_free(&cr->pm.m.rm);
	tp_pair_free(&p);
	return ok;
}

int
main(int argc, char **argv)
{
	long long seed = vf_argi(argc, argv, "--seed", 1);
	int worker = (int)vf_argi(argc, argv, "--worker", 0);
	int nworkers = (int)vf_argi(argc, argv, "--nworkers", 1);
	const char *mode = vf_arg(argc, argv, "--mode", "seeding");
	int nrec = (int)vf_argi(argc, argv, "--records", 2000);
	int nreneg = (int)vf_argi(argc, argv, "--reneg", 1);
	int nconn = (int)vf_argi(argc, argv, "--conns", 200);
	const char *flavour = vf_arg(argc, argv, "--flavour", "asan");

	tp_prop = "C20";
	snprintf(mode_desc, sizeof mode_desc, "seed=%lld mode=%s flavour=%s", seed, mode, flavour);
	if (!strcmp(mode, "seeding")) {
		int role;
		int noseed_build = !strcmp(flavour, "noseed");
		for (role = 0; role < 2; role ++) {
			/* failing / absent source, nothing injected: refuse */
			seed_case(role, 2, 0, 0, "seeder-fails");
			seed_case(role, 3, 0, 0, "no-seeder");
			/* the same with injected entropy: proceed */
			seed_case(role, 2, 1, 1, "seeder-fails+inject");
			seed_case(role, 3, 1, 1, "no-seeder+inject");
			/* working source */
			seed_case(role, 1, 0, 1, "fixed-seeder");
			/* untouched system behaviour of this build */
			seed_hash_cases(role);
			seed_sequences(role, 2, "seeder-fails");
			seed_sequences(role, 3, "no-seeder");
			if (noseed_build) {
				seed_case(role, 0, 0, 0, "build-without-system-seeders");
				seed_case(role, 0, 1, 1, "build-without-system-seeders+inject");
				seed_sequences(role, 0, "build-without-system-seeders");
			} else {
				seed_case(role, 0, 0, 1, "system-seeder");
			}
		}
		inject_only_handshake(2);
		inject_only_handshake(3);
		if (noseed_build) inject_only_handshake(0);
		vf_stat("cases", 20);
		vf_distinct("seeding_build", "%s", flavour);
		vf_sample("{\"mode\":\"seeding\",\"flavour\":\"%s\"}", flavour);
	} else if (!strcmp(mode, "records")) {
		/* one suite per protection mode x each version it exists in */
		static const uint16_t modes[] = { 0x000A, 0x002F, 0x0035, 0x003C, 0xC024, 0x009C, 0xC030, 0xC09C, 0xC0A1, 0xCCA8, 0xCCA9 };
		size_t i;
		unsigned v;
		int idx = 0;
		for (i = 0; i < sizeof modes / sizeof modes[0]; i ++) for (v = 0x0301; v <= 0x0303; v ++) {
			const tp_suite_info *si = tp_suite_find(modes[i]);
			if (si->tls12only && v != 0x0303) continue;
			if ((idx ++ % nworkers) != worker) continue;
			long_session(modes[i], v, nrec, nreneg, (uint64_t)seed);
			vf_stat("cases", 1);
		}
		vf_sample("{\"mode\":\"records\",\"records_per_session\":%d,\"renegotiations\":%d}", nrec, nreneg);
	} else if (!strcmp(mode, "uniq")) {
		/* worker 0 only: needs all connections in one process */
		static conn_rec recs[1024];
		static unsigned char pool[6][1024][64];
		int i, n = nconn > 1024 ? 1024 : nconn, f;
		static const char *fname[6] = { "client-random", "server-random", "session-id", "ecdhe-point", "encrypted-premaster", "client-ecdhe-point" };
		if (worker != 0) { vf_stat("cases", 0); vf_done(); return 0; }
		for (i = 0; i < n; i ++) {
			uint16_t suite = (i & 1) ? ((i & 2) ? 0xC02B : 0xC02F) : 0x009C;   /* ECDHE_ECDSA / ECDHE_RSA / RSA key exchange */
			snprintf(tp_case, sizeof tp_case, "%s connection=%d", mode_desc, i);
			if (!one_connection(&recs[i], suite, (uint64_t)seed * 100000 + (uint64_t)i, 7, TP_CHUNK_WHOLE)) {
				TP_VIOL("setup", "connection failed");
				continue;
			}
			memset(pool[0][i], 0, 64); memcpy(pool[0][i], recs[i].cr, 32);
			memset(pool[1][i], 0, 64); memcpy(pool[1][i], recs[i].sr, 32);
			memset(pool[2][i], 0, 64); memcpy(pool[2][i], recs[i].sid, 32);
			memset(pool[3][i], 0, 64); pool[3][i][63] = (unsigned char)i; pool[3][i][62] = (unsigned char)(i >> 8);
			memset(pool[4][i], 0, 64); pool[4][i][63] = (unsigned char)i; pool[4][i][62] = (unsigned char)(i >> 8);
			memset(pool[5][i], 0, 64); pool[5][i][63] = (unsigned char)i; pool[5][i][62] = (unsigned char)(i >> 8);
			if (i & 1) { memcpy(pool[3][i], recs[i].ske + 4, 56); memset(pool[3][i] + 56, 0, 8);
				/* the client's ephemeral point: ClientKeyExchange = length byte + point */
				memcpy(pool[5][i], recs[i].cke + 1, 32); memset(pool[5][i] + 32, 0, 32); }
			else { memcpy(pool[4][i], recs[i].cke + 2, 56); memset(pool[4][i] + 56, 0, 8); }
			free(recs[i].wire[0]); free(recs[i].wire[1]);
			vf_stat("connections", 1);
		}
		for (f = 0; f < 6; f ++) {
			int j;
			/* O(n^2) exact comparison: n <= 1024 */
			for (i = 0; i < n; i ++) for (j = i + 1; j < n; j ++) {
				if (memcmp(pool[f][i], pool[f][j], 64) == 0) {
					char k[100], w[160];
					snprintf(k, sizeof k, "repeated-across-seeds:%s", fname[f]);
					snprintf(w, sizeof w, "%s identical in two connections with different seeds", fname[f]);
					snprintf(tp_case, sizeof tp_case, "%s field=%s", mode_desc, fname[f]);
					TP_VIOL(k, w);
					i = n; break;
				}
			}
			vf_stat("fields_checked_pairwise_distinct", 1);
		}
		vf_stat("cases", n);
		vf_distinct("uniq_conns", "%d", n);
		vf_sample("{\"mode\":\"uniq\",\"connections\":%d}", n);
	} else if (!strcmp(mode, "repro")) {
		int i;
		static const uint16_t modes[] = { 0x002F, 0x009C, 0xC02F, 0xCCA9, 0xC004, 0xC09C };
		static conn_rec a, b;
		for (i = worker; i < nconn; i += nworkers) {
			uint16_t suite = modes[i % 6];
			int chunk = i % 4, ok1, ok2;
			snprintf(tp_case, sizeof tp_case, "%s pair=%d suite=%04x chunk=%d", mode_desc, i, suite, chunk);
			ok1 = one_connection(&a, suite, (uint64_t)seed * 777 + (uint64_t)i, 3, chunk);
			ok2 = one_connection(&b, suite, (uint64_t)seed * 777 + (uint64_t)i, 3, chunk);
			if (!ok1 || !ok2) { TP_VIOL("setup", "connection failed"); }
			else if (a.wlen[0] != b.wlen[0] || a.wlen[1] != b.wlen[1]
				|| memcmp(a.wire[0], b.wire[0], a.wlen[0]) != 0 || memcmp(a.wire[1], b.wire[1], a.wlen[1]) != 0)
			{
				TP_VIOL("not-reproducible", "two connections with equal seeds and equal schedules differ on the wire");
			} else {
				vf_stat("reproduced_pairs", 1);
				vf_stat("reproduced_bytes", (long long)(a.wlen[0] + a.wlen[1]));
			}
			free(a.wire[0]); free(a.wire[1]); free(b.wire[0]); free(b.wire[1]);
			vf_stat("cases", 1);
			vf_distinct("repro_cfg", "%04x/%d", suite, chunk);
		}
		vf_sample("{\"mode\":\"repro\",\"pairs\":%d}", nconn);
	}
	vf_stat("monitored_calls", tp_calls);
	vf_done();
	return 0;
}
