/*
 * C01 (interop part): BearSSL client <-> OpenSSL server and OpenSSL client <->
 * BearSSL server, over in-memory FIFOs with a seeded scheduler. Same oracles
 * as h_tls01 with the peer's values read through the OpenSSL API.
 */
#include "tlsmon.h"
#include <openssl/ssl.h>
#include <openssl/err.h>
#include <openssl/x509.h>

/* find extension `type` in a hello message (4-byte handshake header included) */
static const unsigned char *
find_ext(const unsigned char *m, size_t ml, int is_server_hello, unsigned type, size_t *vlen)
{
	size_t o = 4 + 2 + 32, l;
	if (ml < o + 1) return NULL;
	o += 1 + m[o];
	if (is_server_hello) o += 3;
	else {
		if (o + 2 > ml) return NULL;
		o += 2 + (((size_t)m[o] << 8) | m[o + 1]);
		if (o + 1 > ml) return NULL;
		o += 1 + m[o];
	}
	if (o + 2 > ml) return NULL;
	l = ((size_t)m[o] << 8) | m[o + 1];
	o += 2;
	if (o + l > ml) return NULL;
	while (l >= 4) {
		unsigned t = ((unsigned)m[o] << 8) | m[o + 1];
		size_t el = ((size_t)m[o + 2] << 8) | m[o + 3];
		if (el + 4 > l) return NULL;
		if (t == type) { *vlen = el; return m + o + 4; }
		o += 4 + el; l -= 4 + el;
	}
	return NULL;
}

typedef struct {
	SSL_CTX *ctx;
	SSL *ssl;
	BIO *rbio, *wbio;
	int is_server;
	uint64_t tx_key, rx_key;
	size_t tx_done, rx_done;
	int rx_bad;
	int got_close;      /* SSL_read saw close_notify */
	int sent_shutdown;
	int fatal;
} os_ep;

static void
os_free(os_ep *o)
{
	if (o->ssl) SSL_free(o->ssl);
	if (o->ctx) SSL_CTX_free(o->ctx);
	memset(o, 0, sizeof *o);
}

/* makes the OpenSSL server acknowledge the server name (empty server_name extension in its ServerHello, ahead of
   the other extensions): what servers with virtual hosts do */
static int
os_sni_cb(SSL *ssl, int *al, void *arg)
{
	(void)ssl; (void)al; (void)arg;
	return SSL_TLSEXT_ERR_OK;
}

static int
os_start(os_ep *o, int is_server, unsigned version, uint16_t suite, int keykind, int cauth, int chain_kind)
{
	size_t chn = 0, q;
	const br_x509_certificate *chp = NULL;
	unsigned char id[2];
	const SSL_CIPHER *ci;
	const unsigned char *p;
	X509 *crt = NULL, *ca;
	EVP_PKEY *pk = NULL;
	X509_STORE *store;

	memset(o, 0, sizeof *o);
	o->is_server = is_server;
	o->ctx = SSL_CTX_new(is_server ? TLS_server_method() : TLS_client_method());
	SSL_CTX_set_security_level(o->ctx, 0);
	SSL_CTX_set_min_proto_version(o->ctx, (int)version);
	SSL_CTX_set_max_proto_version(o->ctx, (int)version);
	SSL_CTX_set_options(o->ctx, SSL_OP_NO_TICKET);
	SSL_CTX_set_session_cache_mode(o->ctx, SSL_SESS_CACHE_OFF);
	SSL_CTX_set_mode(o->ctx, SSL_MODE_NO_AUTO_CHAIN);
	if (is_server && (chain_kind & 1)) SSL_CTX_set_tlsext_servername_callback(o->ctx, os_sni_cb);   /* send the configured chain, not one completed from the verification store */
	o->ssl = SSL_new(o->ctx);
	id[0] = (unsigned char)(suite >> 8); id[1] = (unsigned char)suite;
	ci = SSL_CIPHER_find(o->ssl, id);
	if (ci == NULL) return 0;
	{
		char cl[200];
		snprintf(cl, sizeof cl, "%s:@SECLEVEL=0", SSL_CIPHER_get_name(ci));
		if (!SSL_set_cipher_list(o->ssl, cl)) return 0;
	}
	if (is_server) {
		if (keykind == TP_KEY_RSA) {
			p = FX_srv_rsa_crt; crt = d2i_X509(NULL, &p, (long)FX_srv_rsa_crt_len);
			p = FX_srv_rsa_key; pk = d2i_AutoPrivateKey(NULL, &p, (long)FX_srv_rsa_key_len);
		} else if (keykind == TP_KEY_ECEC) {
			p = FX_srv_ecec_crt; crt = d2i_X509(NULL, &p, (long)FX_srv_ecec_crt_len);
			p = FX_srv_ecec_key; pk = d2i_AutoPrivateKey(NULL, &p, (long)FX_srv_ecec_key_len);
		} else {
			p = FX_srv_ecrsa_crt; crt = d2i_X509(NULL, &p, (long)FX_srv_ecrsa_crt_len);
			p = FX_srv_ecrsa_key; pk = d2i_AutoPrivateKey(NULL, &p, (long)FX_srv_ecrsa_key_len);
		}
		/* the same chain shapes as the BearSSL server side of the pair (tp_chain_pick) */
		chp = tp_chain_pick(1, keykind, 0, 0, chain_kind, &chn);
		if (chn > 1) { X509_free(crt); p = chp[0].data; crt = d2i_X509(NULL, &p, (long)chp[0].data_len); }
		if (!crt || !pk || SSL_use_certificate(o->ssl, crt) != 1 || SSL_use_PrivateKey(o->ssl, pk) != 1) {
			fprintf(stderr, "openssl: cannot load fixture cert/key\n");
			exit(2);
		}
		for (q = 1; q < chn; q ++) {
			X509 *x; p = chp[q].data; x = d2i_X509(NULL, &p, (long)chp[q].data_len);
			if (!x || SSL_add1_chain_cert(o->ssl, x) != 1) { fprintf(stderr, "openssl: cannot add chain certificate\n"); exit(2); }
			X509_free(x);
		}
		X509_free(crt); EVP_PKEY_free(pk);
		if (cauth) {
			/* OpenSSL verifies the BearSSL client's chain and CertificateVerify signature */
			store = SSL_CTX_get_cert_store(o->ctx);
			p = FX_ca_rsa_crt; ca = d2i_X509(NULL, &p, (long)FX_ca_rsa_crt_len); X509_STORE_add_cert(store, ca); X509_free(ca);
			p = FX_ca_ec_crt; ca = d2i_X509(NULL, &p, (long)FX_ca_ec_crt_len); X509_STORE_add_cert(store, ca); X509_free(ca);
			SSL_set_verify(o->ssl, SSL_VERIFY_PEER | SSL_VERIFY_FAIL_IF_NO_PEER_CERT, NULL);
		}
		SSL_set_accept_state(o->ssl);
	} else {
		store = SSL_CTX_get_cert_store(o->ctx);
		p = FX_ca_rsa_crt; ca = d2i_X509(NULL, &p, (long)FX_ca_rsa_crt_len); X509_STORE_add_cert(store, ca); X509_free(ca);
		p = FX_ca_ec_crt; ca = d2i_X509(NULL, &p, (long)FX_ca_ec_crt_len); X509_STORE_add_cert(store, ca); X509_free(ca);
		SSL_set_verify(o->ssl, SSL_VERIFY_PEER, NULL);
		if (cauth) {
			/* OpenSSL authenticates with a certificate; the BearSSL server verifies chain and signature */
			if (cauth == 1) {
				p = FX_cli_rsa_crt; crt = d2i_X509(NULL, &p, (long)FX_cli_rsa_crt_len);
				p = FX_cli_rsa_key; pk = d2i_AutoPrivateKey(NULL, &p, (long)FX_cli_rsa_key_len);
				if (chain_kind == 2) {
					/* the RSA-4096 client: 512-byte signatures */
					X509_free(crt); EVP_PKEY_free(pk);
					p = FX_cli_rsa4k_crt; crt = d2i_X509(NULL, &p, (long)FX_cli_rsa4k_crt_len);
					p = FX_cli_rsa4k_key; pk = d2i_AutoPrivateKey(NULL, &p, (long)FX_cli_rsa4k_key_len);
				}
			} else {
				p = FX_cli_ec_crt; crt = d2i_X509(NULL, &p, (long)FX_cli_ec_crt_len);
				p = FX_cli_ec_key; pk = d2i_AutoPrivateKey(NULL, &p, (long)FX_cli_ec_key_len);
			}
			chp = tp_chain_pick(0, 0, cauth, 0, chain_kind, &chn);
			if (chn > 1) { X509_free(crt); p = chp[0].data; crt = d2i_X509(NULL, &p, (long)chp[0].data_len); }
			if (!crt || !pk || SSL_use_certificate(o->ssl, crt) != 1 || SSL_use_PrivateKey(o->ssl, pk) != 1) {
				fprintf(stderr, "openssl: cannot load client fixture cert/key\n");
				exit(2);
			}
			for (q = 1; q < chn; q ++) {
				X509 *x; p = chp[q].data; x = d2i_X509(NULL, &p, (long)chp[q].data_len);
				if (!x || SSL_add1_chain_cert(o->ssl, x) != 1) { fprintf(stderr, "openssl: cannot add chain certificate\n"); exit(2); }
				X509_free(x);
			}
			X509_free(crt); EVP_PKEY_free(pk);
		}
		SSL_set_tlsext_host_name(o->ssl, "localhost");
		SSL_set_connect_state(o->ssl);
	}
	o->rbio = BIO_new(BIO_s_mem());
	o->wbio = BIO_new(BIO_s_mem());
	BIO_set_mem_eof_return(o->rbio, -1);
	BIO_set_mem_eof_return(o->wbio, -1);
	SSL_set_bio(o->ssl, o->rbio, o->wbio);
	return 1;
}

static void
os_drive(os_ep *o)
{
	if (o->fatal) return;
	if (!SSL_is_init_finished(o->ssl)) {
		int r = SSL_do_handshake(o->ssl);
		if (r <= 0) {
			int e = SSL_get_error(o->ssl, r);
			if (e != SSL_ERROR_WANT_READ && e != SSL_ERROR_WANT_WRITE) o->fatal = 1;
		}
	}
}

typedef struct {
	tm_mon m;
	tp_ep *b;
	os_ep *o;
	int b_is_client;
} mixmon;

static int
mix_master(void *arg, int dir, unsigned char *out48)
{
	mixmon *mm = arg;
	int sender_is_b = (dir == 0) == (mm->b_is_client != 0);
	if (sender_is_b) {
		br_ssl_session_parameters sp;
		br_ssl_engine_get_session_parameters(mm->b->eng, &sp);
		memcpy(out48, sp.master_secret, 48);
		return 1;
	} else {
		SSL_SESSION *s = SSL_get_session(mm->o->ssl);
		if (s == NULL) return 0;
		return SSL_SESSION_get_master_key(s, out48, 48) == 48;
	}
}

typedef struct { const tp_suite_info *s; unsigned version; } sv_pair;
static sv_pair sv[200];
static int nsv;

int
main(int argc, char **argv)
{
	long long seed = vf_argi(argc, argv, "--seed", 1);
	int worker = (int)vf_argi(argc, argv, "--worker", 0);
	int nworkers = (int)vf_argi(argc, argv, "--nworkers", 1);
	long ncases = (long)vf_argi(argc, argv, "--cases", 150);
	long only = (long)vf_argi(argc, argv, "--only", -1);
	long idx;
	size_t i;
	unsigned v;

	tp_prop = "C01";
	tp_fixtures();
	/* discover the (suite, version) pairs this OpenSSL build can do */
	for (i = 0; i < TP_NSUITES; i ++) {
		for (v = 0x0301; v <= 0x0303; v ++) {
			os_ep probe;
			if (tp_suites[i].tls12only && v != 0x0303) continue;
			if (os_start(&probe, 0, v, tp_suites[i].id, TP_KEY_RSA, 0, 0)) {
				sv[nsv].s = &tp_suites[i]; sv[nsv].version = v; nsv ++;
			} else if (worker == 0) {
				vf_distinct("peer_lacks_suite", "%s", tp_suites[i].name);
			}
			os_free(&probe);
		}
	}
	if (nsv == 0) { fprintf(stderr, "no suite in common with OpenSSL\n"); return 2; }

	for (idx = worker; idx < ncases; idx += nworkers) {
		vf_rng r;
		const sv_pair *pv = &sv[(idx / 2) % nsv];
		int b_is_client = (int)(idx & 1);
		int keykind, layout, chunk, wpol, closer, cls, schain, cchain;
		tp_ep b;
		os_ep o;
		tp_cfg cfg;
		tp_fifo b2o, o2b;
		mixmon mm;
		uint16_t suite_list[1];
		size_t b_total, o_total, frag;
		long steps = 0, idle = 0;
		int hs_done = 0, closing = 0, done = 0, cauth = 0;
		uint64_t sched = 0;
		static const size_t fc[6] = { 512, 1024, 2048, 4096, 16384, 8192 };   /* 8192: no max_fragment_length code, the endpoint asks for 4096 */

		if (only >= 0 && idx != only) continue;
		vf_rng_init(&r, (uint64_t)seed, (uint64_t)idx + 1000003);
		memset(&b, 0, sizeof b);
		keykind = tp_key_for_suite(pv->s, (int)vf_below(&r, 2));
		layout = (int)vf_below(&r, 3);
		chunk = (int)vf_below(&r, 5);
		wpol = (int)vf_below(&r, 5);
		closer = (int)vf_below(&r, 2);
		/* OpenSSL sends records up to 16384 bytes unless MFL is negotiated (it honours the
		   BearSSL client's request when it is the server). As a BearSSL *server* we need
		   full-size input; as a client any class works. */
		cls = b_is_client ? (int)vf_below(&r, 6) : 4;
		if (cls == 4 && vf_below(&r, 3) != 0 && b_is_client) cls = (int)vf_below(&r, 4);
		frag = fc[cls];
		tp_cfg_default(&cfg, b_is_client ? 0 : 1);
		cfg.layout = layout;
		if (layout == TP_LAYOUT_MONO) cfg.buflen = frag + 325;
		else if (layout == TP_LAYOUT_SPLIT1) cfg.buflen = frag == 16384 ? BR_SSL_BUFSIZE_BIDI : frag + 325 + 512 + 85;
		else { cfg.buflen = frag + 325; cfg.buflen_out = frag + 85; }
		suite_list[0] = pv->s->id;
		cfg.suites = suite_list; cfg.nsuites = 1;
		cfg.vmin = cfg.vmax = pv->version;
		/* OpenSSL is pinned to the version; half of the time BearSSL supports the whole range and is
		   negotiated down (as a client its hello and RSA premaster then carry 1.2 while the session is lower) */
		if (vf_below(&r, 2) == 0) { cfg.vmin = 0x0301; cfg.vmax = 0x0303; }
		vf_distinct("version_shape", "%04x b%04x-%04x client%d kx%d", pv->version, cfg.vmin, cfg.vmax, b_is_client, pv->s->kx);
		cfg.keykind = keykind;
		/* a third of the BearSSL clients pad their ClientHello (RFC 7685): lengths around what such a hello has by
		   itself (about 100-230 bytes) and the customary 256 / 512; OpenSSL parses the padding extension */
		if (b_is_client && (idx % 3) == 1) {
			cfg.min_ch_len = (idx / 3) % 4 == 3 ? (unsigned)(256 << ((idx / 12) & 1)) : 90 + (unsigned)((idx / 3) * 7 % 150);
			vf_stat("ossl_padded_clienthello_sessions", 1);
		}
		vf_bytes(&r, cfg.seed, 32);
		b_total = 1 + vf_below(&r, (uint32_t)(frag > 4096 ? 20000 : 3 * frag));
		o_total = 1 + vf_below(&r, (uint32_t)(frag > 4096 ? 20000 : 3 * frag));
		if (vf_below(&r, 6) == 0) b_total = frag + vf_below(&r, 3) - 1;
		if (vf_below(&r, 6) == 0) o_total = frag + vf_below(&r, 3) - 1;
		if (chunk == TP_CHUNK_ONE) { b_total %= 2500; o_total %= 2500; b_total ++; o_total ++; }

		snprintf(tp_case, sizeof tp_case,
			"ossl seed=%lld idx=%ld bearssl_is_client=%d suite=%s(%04x) ver=%04x key=%d layout=%d buflen=%zu chunk=%d wpol=%d b_total=%zu o_total=%zu closer=%d",
			seed, idx, b_is_client, pv->s->name, pv->s->id, pv->version, keykind, layout, cfg.buflen,
			chunk, wpol, b_total, o_total, closer);

		tp_fifo_init(&b2o); tp_fifo_init(&o2b);
		/* a third of the sessions use client authentication (RSA or EC certificate) */
		cauth = (int)vf_below(&r, 3) == 0 ? 1 + (int)vf_below(&r, 2) : 0;
		if (b_is_client) cfg.client_auth = cauth; else cfg.client_auth = cauth ? 1 : 0;
		/* chain shapes on both sides: single certificate, leaf + intermediate, 21 kB leaf + intermediate, leaf + root;
		   the client certificate with or without its intermediate */
		schain = (int)(idx % 4); cchain = (int)((idx >> 2) % 3);
		cfg.chain_kind = b_is_client ? cchain : schain;
		vf_distinct("chain_shape", "client%d key%d s%d c%d cauth%d", b_is_client, keykind, schain, cchain, cauth);
		if (!os_start(&o, b_is_client, pv->version, pv->s->id, keykind, cauth, b_is_client ? schain : cchain)) {
			vf_stat("peer_config_refused", 1);
			goto next;
		}
		tm_init(&mm.m, mix_master, &mm);
		mm.b = &b; mm.o = &o; mm.b_is_client = b_is_client;
		if (!tp_ep_start(&b, &cfg)) {
			TP_VIOL("setup:reset-failed", "reset returned 0 with a valid configuration");
			goto next;
		}
		b.tx_key = vf_u64(&r); o.tx_key = vf_u64(&r);
		b.rx_key = o.tx_key; o.rx_key = b.tx_key;
		mm.m.key[b_is_client ? 0 : 1] = b.tx_key;
		mm.m.key[b_is_client ? 1 : 0] = o.tx_key;
		vf_stat("cases", 1);
		os_drive(&o);

		while (steps ++ < 4000000 && !done) {
			int acts[10], na = 0, a;
			unsigned st = br_ssl_engine_current_state(b.eng);
			size_t len, k;
			int b_ready = (st & BR_SSL_SENDAPP) != 0;
			int o_ready = SSL_is_init_finished(o.ssl);
			int pending_o = (int)BIO_ctrl_pending(o.wbio);

			if (st == BR_SSL_CLOSED && (o.got_close || o.fatal) && pending_o == 0) break;
			if (!hs_done && b_ready && o_ready) {
				hs_done = 1;
				/* parameter agreement, read through the OpenSSL API */
				{
					br_ssl_session_parameters sp;
					SSL_SESSION *ss = SSL_get_session(o.ssl);
					unsigned char mk[48], eb[40], eo[40];
					unsigned int sidl = 0;
					const unsigned char *sid = SSL_SESSION_get_id(ss, &sidl);
					int i2;
					br_ssl_engine_get_session_parameters(b.eng, &sp);
					vf_stat("param_compares", 1);
					if ((int)sp.version != SSL_version(o.ssl) || sp.version != pv->version) {
						TP_VIOL("interop:version-mismatch", "negotiated versions differ");
					}
					if (sp.cipher_suite != SSL_CIPHER_get_protocol_id(SSL_get_current_cipher(o.ssl))
						|| sp.cipher_suite != pv->s->id)
					{
						TP_VIOL("interop:suite-mismatch", "negotiated suites differ");
					}
					if (sidl != sp.session_id_len || memcmp(sid, sp.session_id, sidl) != 0) {
						TP_VIOL("interop:session-id-mismatch", "session IDs differ");
					}
					if (SSL_SESSION_get_master_key(ss, mk, 48) != 48 || memcmp(mk, sp.master_secret, 48) != 0) {
						TP_VIOL("interop:master-secret-mismatch", "master secrets differ");
					}
					for (i2 = 0; i2 < 4; i2 ++) {
						/* no context; a 3-byte context; an empty context (differs from none: RFC 5705); a 300-byte context */
						static const char *const labels[4] = { "EXPORTER-verif-a", "EXPORTER-verif-b", "EXPORTER-verif-c", "EXPORTER-verif-long-label-0123456789012345678901234567890123456789" };
						static unsigned char bigctx[300];
						const char *label = labels[i2];
						const unsigned char *cx = i2 == 3 ? bigctx : (const unsigned char *)"ctx";
						size_t cxl = i2 == 1 ? 3 : (i2 == 3 ? 300 : 0);
						int rb, ro;
						memset(bigctx, 0xA5, sizeof bigctx);
						rb = br_ssl_key_export(b.eng, eb, sizeof eb, label, i2 ? cx : NULL, cxl);
						ro = SSL_export_keying_material(o.ssl, eo, sizeof eo, label, strlen(label), cx, cxl, i2 != 0);
						vf_stat("key_exports_compared", 1);
						if (!rb || ro != 1 || memcmp(eb, eo, sizeof eb) != 0) {
							TP_VIOL("interop:key-export-mismatch", "exported keying material differs from OpenSSL's");
						}
					}
				}
			}
			if (hs_done && !closing && b.tx_done >= b_total && o.tx_done >= o_total
				&& b.rx_done >= o_total && o.rx_done >= b_total)
			{
				closing = 1;
				if (closer == 0) {
					tp_act_close(&b);
				} else {
					SSL_shutdown(o.ssl);
					o.sent_shutdown = 1;
				}
				continue;
			}
			if (st & BR_SSL_SENDREC) acts[na ++] = 0;
			if (pending_o > 0) acts[na ++] = 1;
			if ((st & BR_SSL_RECVREC) && tp_fifo_len(&o2b) > 0) acts[na ++] = 2;
			if (tp_fifo_len(&b2o) > 0) acts[na ++] = 3;
			if (hs_done && !closing) {
				if (b_ready && b.tx_done < b_total) acts[na ++] = 4;
				if (o_ready && o.tx_done < o_total) acts[na ++] = 6;
			}
			if (st & BR_SSL_RECVAPP) acts[na ++] = 5;
			if (o_ready && !o.got_close && (BIO_ctrl_pending(o.rbio) > 0 || SSL_pending(o.ssl) > 0)) acts[na ++] = 7;
			if (na == 0) {
				if (idle ++ > 3) break;
				if (st != BR_SSL_CLOSED) tp_act_flush(&b, 0);
				os_drive(&o);
				continue;
			}
			idle = 0;
			a = acts[vf_below(&r, (uint32_t)na)];
			k = 0;
			switch (a) {
			case 0:
				br_ssl_engine_sendrec_buf(b.eng, &len);
				k = tp_act_sendrec(&b, &b2o, tp_chunk(&r, chunk, len));
				rm_feed(&mm.m.rm, b_is_client ? 0 : 1, b2o.data + b2o.wr - k, k);
				break;
			case 1: {
				unsigned char tmp[20000];
				size_t want = tp_chunk(&r, chunk, (size_t)pending_o > sizeof tmp ? sizeof tmp : (size_t)pending_o);
				int n = BIO_read(o.wbio, tmp, (int)want);
				if (n > 0) {
					tp_fifo_put(&o2b, tmp, (size_t)n);
					rm_feed(&mm.m.rm, b_is_client ? 1 : 0, tmp, (size_t)n);
					k = (size_t)n;
				}
				break;
			}
			case 2:
				br_ssl_engine_recvrec_buf(b.eng, &len);
				if (len > tp_fifo_len(&o2b)) len = tp_fifo_len(&o2b);
				k = tp_act_recvrec(&b, &o2b, tp_chunk(&r, chunk, len));
				break;
			case 3:
				k = tp_chunk(&r, chunk, tp_fifo_len(&b2o));
				BIO_write(o.rbio, b2o.data + b2o.rd, (int)k);
				b2o.rd += k;
				os_drive(&o);
				break;
			case 4:
				br_ssl_engine_sendapp_buf(b.eng, &len);
				if (len > b_total - b.tx_done) len = b_total - b.tx_done;
				k = tp_act_write(&b, tp_wsize(&r, wpol, len));
				if (b.tx_done >= b_total || vf_below(&r, 3) == 0) tp_act_flush(&b, 0);
				break;
			case 5:
				br_ssl_engine_recvapp_buf(b.eng, &len);
				k = tp_act_read(&b, tp_chunk(&r, chunk, len));
				break;
			case 6: {
				unsigned char tmp[20000];
				size_t j;
				int n;
				k = tp_wsize(&r, wpol, o_total - o.tx_done > sizeof tmp ? sizeof tmp : o_total - o.tx_done);
				for (j = 0; j < k; j ++) tmp[j] = tp_stream_byte(o.tx_key, o.tx_done + j);
				n = SSL_write(o.ssl, tmp, (int)k);
				if (n > 0) o.tx_done += (size_t)n; else if (SSL_get_error(o.ssl, n) != SSL_ERROR_WANT_READ) o.fatal = 1;
				break;
			}
			case 7: {
				unsigned char tmp[20000];
				int n = SSL_read(o.ssl, tmp, (int)(1 + vf_below(&r, sizeof tmp - 1)));
				if (n > 0) {
					int j;
					for (j = 0; j < n; j ++) {
						if (tmp[j] != tp_stream_byte(o.rx_key, o.rx_done + (size_t)j)) {
							if (!o.rx_bad) TP_VIOL("stream:wrong-byte-at-peer", "OpenSSL application read bytes that differ from what the BearSSL side wrote");
							o.rx_bad = 1;
							break;
						}
					}
					o.rx_done += (size_t)n;
					k = (size_t)n;
				} else {
					int e = SSL_get_error(o.ssl, n);
					if (e == SSL_ERROR_ZERO_RETURN) {
						o.got_close = 1;
						if (!o.sent_shutdown) { SSL_shutdown(o.ssl); o.sent_shutdown = 1; }
					} else if (e != SSL_ERROR_WANT_READ && e != SSL_ERROR_WANT_WRITE) {
						o.fatal = 1;
					}
				}
				break;
			}
			}
			{
				unsigned char nb[3];
				nb[0] = (unsigned char)a; nb[1] = (unsigned char)k; nb[2] = (unsigned char)(k >> 8);
				sched = vf_fnv(nb, 3, sched);
			}
		}
		if (!hs_done) {
			char what[300];
			unsigned long oe = ERR_peek_last_error();
			snprintf(what, sizeof what, "handshake with OpenSSL did not complete: bearssl state=%u err=%d; openssl fatal=%d (%s)",
				br_ssl_engine_current_state(b.eng), br_ssl_engine_last_error(b.eng), o.fatal,
				oe ? ERR_reason_error_string(oe) : "-");
			TP_VIOL("interop:handshake-incomplete", what);
			goto next;
		}
		vf_stat("ossl_handshakes_completed", 1);
		if (b.rx_done != o_total || o.rx_done != b_total || b.tx_done != b_total || o.tx_done != o_total) {
			char what[240];
			snprintf(what, sizeof what, "streams incomplete: bearssl tx=%zu/%zu rx=%zu/%zu err=%d; openssl tx=%zu/%zu rx=%zu/%zu fatal=%d",
				b.tx_done, b_total, b.rx_done, o_total, br_ssl_engine_last_error(b.eng),
				o.tx_done, o_total, o.rx_done, b_total, o.fatal);
			TP_VIOL("interop:stream-incomplete", what);
			goto next;
		}
		if (br_ssl_engine_current_state(b.eng) != BR_SSL_CLOSED || br_ssl_engine_last_error(b.eng) != 0 || o.fatal) {
			char what[200];
			snprintf(what, sizeof what, "orderly close with OpenSSL: bearssl state=%u err=%d openssl fatal=%d got_close=%d",
				br_ssl_engine_current_state(b.eng), br_ssl_engine_last_error(b.eng), o.fatal, o.got_close);
			TP_VIOL("interop:close-not-clean", what);
		}
		tm_verdict(&mm.m, 1, b_is_client ? b_total : o_total, b_is_client ? o_total : b_total);
		/* max_fragment_length with an independent MFL-aware peer (C16 clauses, judged on the same session) */
		if (b_is_client) {
			size_t vl = 0;
			const unsigned char *ev;
			int ch_code = 0, sh_code = 0;
			ev = find_ext(mm.m.rm.last_ch, mm.m.rm.last_ch_len, 0, 1, &vl); if (ev && vl == 1) ch_code = ev[0];
			ev = find_ext(mm.m.rm.last_sh, mm.m.rm.last_sh_len, 1, 1, &vl); if (ev && vl == 1) sh_code = ev[0];
			vf_stat("ossl_mfl_sessions", 1);
			/* an 8192-class buffer asks for 4096: the extension has no code for 8192 */
			if (layout != TP_LAYOUT_SPLIT1 && ((frag < 16384) != (ch_code != 0) || (ch_code != 0 && ((size_t)256 << ch_code) != (frag == 8192 ? 4096 : frag)))) {
				TP_VIOL("interop:mfl-client-request-wrong", "client buffers and the max_fragment_length it requested from OpenSSL do not match");
			}
			if ((br_ssl_engine_get_mfln_negotiated(b.eng) != 0) != (sh_code != 0)) {
				TP_VIOL("interop:mfl-negotiated-flag-wrong", "negotiated flag differs from the presence of the extension in OpenSSL's ServerHello");
			}
			if (sh_code) {
				size_t L = (size_t)256 << sh_code;
				vf_stat("ossl_mfl_echoed", 1);
				if (sh_code != ch_code) TP_VIOL("interop:mfl-echo-mismatch-accepted", "session completed although OpenSSL echoed another code than requested");
				if (mm.m.max_plain_prot[0] > L) TP_VIOL("interop:mfl-client-exceeds-negotiated-length", "BearSSL client sent a record above the negotiated length to OpenSSL");
				if (mm.m.max_plain_prot[1] > L) vf_stat("ossl_peer_exceeded_mfl", 1);
			}
		}
		if (cauth) {
			vf_stat("ossl_client_auth_sessions", 1);
			vf_distinct("ossl_client_auth", "%d/%d/%04x/kx%d", b_is_client, cauth, pv->version, pv->s->kx);
			if (b_is_client) {
				X509 *pc = SSL_get_peer_certificate(o.ssl);
				if (pc == NULL || SSL_get_verify_result(o.ssl) != X509_V_OK) {
					TP_VIOL("interop:client-certificate-not-verified-by-openssl", "session completed but OpenSSL holds no verified client certificate");
				} else vf_stat("ossl_verified_bearssl_client", 1);
				if (pc) X509_free(pc);
			} else {
				if (b.xw->n_end_chain < 1 || !b.xw->verdict_seen || b.xw->last_verdict != 0 || b.xw->n_get_pkey < 1) {
					TP_VIOL("interop:client-chain-not-validated", "session with client authentication completed although the server's validator did not accept a client chain");
				} else vf_stat("bearssl_verified_ossl_client", 1);
			}
		}
		/* chain shapes: the BearSSL validator was handed exactly the certificates OpenSSL was configured with; OpenSSL
		   verified the chain the BearSSL server sent (SSL_VERIFY_PEER: the handshake would have failed otherwise) and
		   holds as many certificates as BearSSL was configured with */
		{
			size_t en, q;
			const br_x509_certificate *ech;
			if (b_is_client) {
				ech = tp_chain_pick(1, keykind, 0, 0, schain, &en);
				if ((size_t)b.xw->n_start_cert != en) TP_VIOL("interop:chain-count", "the validator of the BearSSL client saw another number of certificates than OpenSSL sent");
				else for (q = 0; q < en; q ++) if (b.xw->cert_len[q] != ech[q].data_len || b.xw->cert_hash[q] != vf_fnv(ech[q].data, ech[q].data_len, 0)) {
					TP_VIOL("interop:chain-bytes-differ", "a certificate sent by OpenSSL reached the validator with other bytes"); break;
				}
				vf_stat("ossl_server_chains_compared", 1);
			} else {
				STACK_OF(X509) *pcs = SSL_get_peer_cert_chain(o.ssl);
				ech = tp_chain_pick(1, keykind, 0, 0, schain, &en);
				if (pcs == NULL || (size_t)sk_X509_num(pcs) != en) TP_VIOL("interop:chain-count", "OpenSSL received another number of certificates than the BearSSL server was configured with");
				else for (q = 0; q < en; q ++) {
					unsigned char *der = NULL; int dl = i2d_X509(sk_X509_value(pcs, (int)q), &der);
					if (dl < 0 || (size_t)dl != ech[q].data_len || memcmp(der, ech[q].data, (size_t)dl) != 0) TP_VIOL("interop:chain-bytes-differ", "OpenSSL received a certificate with other bytes than configured");
					OPENSSL_free(der);
				}
				vf_stat("bearssl_server_chains_compared", 1);
				if (cauth) {
					ech = tp_chain_pick(0, 0, cauth, 0, cchain, &en);
					if ((size_t)b.xw->n_start_cert != en) TP_VIOL("interop:chain-count", "the validator of the BearSSL server saw another number of client certificates than OpenSSL sent");
				}
			}
			vf_max("chain_certificates_max", (long long)en);
		}
		vf_stat("ossl_sessions_completed", 1);
		vf_stat(b_is_client ? "ossl_as_server" : "ossl_as_client", 1);
		vf_stat("records_decoded", mm.m.rm.n_records[0] + mm.m.rm.n_records[1]);
		vf_stat("records_protected", mm.m.rm.n_protected[0] + mm.m.rm.n_protected[1]);
		vf_distinct("config", "ossl/%d/%04x/%04x/k%d/l%d.%d", b_is_client, pv->s->id, pv->version, keykind, layout, cls);
		vf_distinct("ossl_suite_version", "%04x/%04x/%d", pv->s->id, pv->version, b_is_client);
		vf_distinct_h("schedule", sched);
		vf_sample("{\"peer\":\"openssl\",\"bearssl_role\":\"%s\",\"suite\":\"%s\",\"version\":\"%04x\",\"layout\":%d,\"buflen\":%zu,\"chunk\":%d,\"b_bytes\":%zu,\"o_bytes\":%zu,\"steps\":%ld}",
			b_is_client ? "client" : "server", pv->s->name, pv->version, layout, cfg.buflen, chunk, b_total, o_total, steps);
	next:
		rm_free(&mm.m.rm);
		tp_ep_free(&b);
		os_free(&o);
		tp_fifo_free(&b2o); tp_fifo_free(&o2b);
		ERR_clear_error();
	}
	vf_stat("monitored_calls", tp_calls);
	vf_done();
	return 0;
}
