/*
 * Common helpers for /verif harnesses: line protocol towards check.py,
 * deterministic PRNG, hex helpers.
 *
 * Protocol (stdout, one record per line):
 *   S <name> <int>      counter, summed over all workers
 *   M <name> <int>      maximum over all workers
 *   D <name> <token>    distinct token (set union over all workers)
 *   E <json>            sample case (a few are kept in the evidence)
 *   V <key>|<what>|<case>   violation (key is matched against known_findings)
 *   OK                  normal end of the worker (absent => crash/inconclusive)
 */
#ifndef VF_COMMON_H__
#define VF_COMMON_H__

#include <stdio.h>
#include <stdlib.h>
#include <string.h>
#include <stdint.h>
#include <stdarg.h>

/* ------------------------------------------------------------------ */
/* PRNG: splitmix64 seeding xoshiro256** */

typedef struct { uint64_t s[4]; } vf_rng;

static inline uint64_t
vf_splitmix(uint64_t *x)
{
	uint64_t z = (*x += 0x9E3779B97F4A7C15ull);
	z = (z ^ (z >> 30)) * 0xBF58476D1CE4E5B9ull;
	z = (z ^ (z >> 27)) * 0x94D049BB133111EBull;
	return z ^ (z >> 31);
}

static inline void
vf_rng_init(vf_rng *r, uint64_t seed, uint64_t stream)
{
	uint64_t x = seed * 0xD1342543DE82EF95ull + stream * 0x2545F4914F6CDD1Dull + 0x1234567;
	int i;
	for (i = 0; i < 4; i ++) r->s[i] = vf_splitmix(&x);
}

static inline uint64_t
vf_rotl(uint64_t x, int k) { return (x << k) | (x >> (64 - k)); }

static inline uint64_t
vf_u64(vf_rng *r)
{
	uint64_t *s = r->s;
	uint64_t res = vf_rotl(s[1] * 5, 7) * 9, t = s[1] << 17;
	s[2] ^= s[0]; s[3] ^= s[1]; s[1] ^= s[2]; s[0] ^= s[3];
	s[2] ^= t; s[3] = vf_rotl(s[3], 45);
	return res;
}

static inline uint32_t vf_u32(vf_rng *r) { return (uint32_t)(vf_u64(r) >> 32); }

/* uniform in [0, n) ; n > 0 */
static inline uint32_t
vf_below(vf_rng *r, uint32_t n)
{
	return (uint32_t)(((uint64_t)vf_u32(r) * n) >> 32);
}

/* uniform in [lo, hi] */
static inline uint32_t
vf_range(vf_rng *r, uint32_t lo, uint32_t hi)
{
	return lo + vf_below(r, hi - lo + 1);
}

static inline void
vf_bytes(vf_rng *r, void *dst, size_t len)
{
	unsigned char *d = dst;
	while (len > 0) {
		uint64_t v = vf_u64(r);
		size_t k = len < 8 ? len : 8;
		memcpy(d, &v, k);
		d += k; len -= k;
	}
}

/* ------------------------------------------------------------------ */
/* counters */

#define VF_MAXCNT 256
static struct { const char *name; long long v; int is_max; } vf_cnt_[VF_MAXCNT];
static int vf_ncnt_ = 0;
static int vf_nviol_ = 0;
static int vf_nsample_ = 0;
static int vf_max_samples = 3;

static inline int
vf_cnt_find_(const char *name, int is_max)
{
	int i;
	for (i = 0; i < vf_ncnt_; i ++) {
		if (vf_cnt_[i].name == name || strcmp(vf_cnt_[i].name, name) == 0) return i;
	}
	if (vf_ncnt_ >= VF_MAXCNT) { fprintf(stderr, "too many counters\n"); exit(2); }
	vf_cnt_[vf_ncnt_].name = strdup(name);
	vf_cnt_[vf_ncnt_].v = 0;
	vf_cnt_[vf_ncnt_].is_max = is_max;
	return vf_ncnt_ ++;
}

static inline void
vf_stat(const char *name, long long n)
{
	vf_cnt_[vf_cnt_find_(name, 0)].v += n;
}

static inline void
vf_max(const char *name, long long n)
{
	int i = vf_cnt_find_(name, 1);
	if (n > vf_cnt_[i].v) vf_cnt_[i].v = n;
}

/* distinct tokens: in-process de-duplication by 64-bit FNV hash */
#define VF_DSET_SIZE (1u << 16)
static uint64_t vf_dset_[VF_DSET_SIZE];

static inline uint64_t
vf_fnv(const void *data, size_t len, uint64_t h)
{
	const unsigned char *p = data;
	if (h == 0) h = 0xCBF29CE484222325ull;
	while (len -- > 0) { h ^= *p ++; h *= 0x100000001B3ull; }
	return h;
}

static inline void
vf_distinct(const char *name, const char *fmt, ...)
{
	char buf[512];
	va_list ap;
	uint64_t h;
	uint32_t i, n;
	va_start(ap, fmt);
	vsnprintf(buf, sizeof buf, fmt, ap);
	va_end(ap);
	h = vf_fnv(name, strlen(name), 0);
	h = vf_fnv(buf, strlen(buf), h) | 1;
	i = (uint32_t)(h >> 20) & (VF_DSET_SIZE - 1);
	for (n = 0; n < 64; n ++) {
		uint32_t j = (i + n) & (VF_DSET_SIZE - 1);
		if (vf_dset_[j] == h) return;
		if (vf_dset_[j] == 0) { vf_dset_[j] = h; break; }
	}
	printf("D %s %s\n", name, buf);
}

/* distinct by 64-bit hash value (printed as hex) */
static inline void
vf_distinct_h(const char *name, uint64_t hv)
{
	vf_distinct(name, "%016llx", (unsigned long long)hv);
}

static inline void
vf_sample(const char *fmt, ...)
{
	va_list ap;
	if (vf_nsample_ >= vf_max_samples) return;
	vf_nsample_ ++;
	printf("E ");
	va_start(ap, fmt);
	vprintf(fmt, ap);
	va_end(ap);
	printf("\n");
}

/* key and what must not contain '|' or newlines */
static inline void
vf_viol(const char *key, const char *what, const char *casefmt, ...)
{
	va_list ap;
	vf_nviol_ ++;
	if (vf_nviol_ > 25) return;
	printf("V %s|%s|", key, what);
	va_start(ap, casefmt);
	vprintf(casefmt, ap);
	va_end(ap);
	printf("\n");
	fflush(stdout);
}

static inline void
vf_done(void)
{
	int i;
	for (i = 0; i < vf_ncnt_; i ++) {
		printf("%c %s %lld\n", vf_cnt_[i].is_max ? 'M' : 'S',
			vf_cnt_[i].name, vf_cnt_[i].v);
	}
	printf("S violations_reported %d\n", vf_nviol_);
	printf("OK\n");
	fflush(stdout);
}

/* ------------------------------------------------------------------ */
/* hex */

static inline char *
vf_hex(char *dst, const void *src, size_t len)
{
	static const char *hd = "0123456789abcdef";
	const unsigned char *s = src;
	size_t i;
	for (i = 0; i < len; i ++) {
		dst[2 * i] = hd[s[i] >> 4];
		dst[2 * i + 1] = hd[s[i] & 15];
	}
	dst[2 * len] = 0;
	return dst;
}

/* returns a pointer into a small ring of static buffers */
static inline const char *
vf_hexs(const void *src, size_t len)
{
	static char bufs[8][2100];
	static int k = 0;
	char *b = bufs[k ++ & 7];
	if (len > 1024) len = 1024;
	return vf_hex(b, src, len);
}

static inline size_t
vf_unhex(unsigned char *dst, size_t max, const char *s)
{
	size_t n = 0;
	while (s[0] && s[1] && n < max) {
		unsigned v;
		if (sscanf(s, "%2x", &v) != 1) break;
		dst[n ++] = (unsigned char)v;
		s += 2;
	}
	return n;
}

/* ------------------------------------------------------------------ */
/* argument helpers: --name value */

static inline const char *
vf_arg(int argc, char **argv, const char *name, const char *def)
{
	int i;
	for (i = 1; i + 1 < argc; i ++) {
		if (strcmp(argv[i], name) == 0) return argv[i + 1];
	}
	return def;
}

static inline long long
vf_argi(int argc, char **argv, const char *name, long long def)
{
	const char *v = vf_arg(argc, argv, name, NULL);
	return v ? strtoll(v, NULL, 0) : def;
}

/* byte copy / hash of a whole library context: the contexts carry guard bytes that are poisoned for
 * ASan (hook H4), so these two walk over them without instrumentation */
__attribute__((no_sanitize_address, noinline)) static void
vf_raw_copy(void *dst, const void *src, size_t len)
{
	volatile unsigned char *d = dst;
	const volatile unsigned char *s2 = src;
	while (len -- > 0) *d ++ = *s2 ++;
}

__attribute__((no_sanitize_address, noinline)) static uint64_t
vf_raw_fnv(const void *data, size_t len, uint64_t h)
{
	const volatile unsigned char *p = data;
	if (h == 0) h = 0xCBF29CE484222325ull;
	while (len -- > 0) { h ^= *p ++; h *= 0x100000001B3ull; }
	return h;
}

__attribute__((no_sanitize_address, noinline)) static void
vf_raw_zero(void *dst, size_t len)
{
	volatile unsigned char *d = dst;
	while (len -- > 0) *d ++ = 0;
}

static inline void *
vf_raw_dup(const void *src, size_t len)
{
	void *p = malloc(len ? len : 1);
	if (!p) { fprintf(stderr, "oom\n"); exit(2); }
	vf_raw_copy(p, src, len);
	return p;
}

/* exact-size heap copy so that ASan red zones bound the object */
static inline void *
vf_dup(const void *src, size_t len)
{
	void *p = malloc(len ? len : 1);
	if (!p) { fprintf(stderr, "oom\n"); exit(2); }
	if (len) memcpy(p, src, len);
	return p;
}


/* ------------------------------------------------------------------ */
/* current-case reporting on sanitizer aborts: harnesses point vf_cur_case
   at a description of what is being executed; it is printed to stderr when
   ASan reports or the process aborts (UBSan, hook failures). */

#include <signal.h>
#include <unistd.h>

static const char *vf_cur_case = NULL;

static void
vf_print_case_(void)
{
	if (vf_cur_case != NULL) {
		const char *p = "VF_CASE ";
		if (write(2, p, strlen(p)) < 0) return;
		if (write(2, vf_cur_case, strlen(vf_cur_case)) < 0) return;
		if (write(2, "\n", 1) < 0) return;
	}
}

void __asan_on_error(void);
void
__asan_on_error(void)
{
	fflush(stdout);
	vf_print_case_();
}

static void
vf_abort_handler_(int sig)
{
	(void)sig;
	vf_print_case_();
	signal(SIGABRT, SIG_DFL);
}

#ifndef VF_NO_ABORT_HANDLER
__attribute__((constructor)) static void
vf_install_handlers_(void)
{
	signal(SIGABRT, vf_abort_handler_);
}
#endif

#endif
