/*
 * C19: closure, alerts and renegotiation follow the protocol without
 * corrupting data. Modes: close, cut, alert, reneg, sslio.
 */
#include "tlsmon.h"

static char base[500];
static const uint16_t modes[] = { 0x002F, 0x009C, 0xC09C, 0xCCA8, 0x000A, 0xC02B, 0x003C, 0xC014 };
#define NMODES 8

static unsigned last_rec_version[2];
static void
ver_hook(void *arg, const rm_record *r, const unsigned char *plain)
{
	(void)arg; (void)plain;
	last_rec_version[r->dir] = r->version;
}

typedef struct {
	tp_pair p;
	tm_pairmon pm;
	tp_cfg cc, sc;
	uint16_t sl[1];
	const tp_suite_info *si;
	unsigned version;
} sess;

static int
sess_start(sess *s, vf_rng *r, long idx, int chunk, uint32_t cflags, uint32_t sflags)
{
	int layout_c = (int)vf_below(r, 3), layout_s = (int)vf_below(r, 3);
	s->si = tp_suite_find(modes[idx % NMODES]);
	s->version = s->si->tls12only ? 0x0303 : 0x0301 + (unsigned)((idx / NMODES) % 3);
	tp_cfg_default(&s->cc, 0); tp_cfg_default(&s->sc, 1);
	s->cc.layout = layout_c; s->sc.layout = layout_s;
	s->cc.buflen = layout_c == TP_LAYOUT_MONO ? BR_SSL_BUFSIZE_MONO : (layout_c == TP_LAYOUT_SPLIT1 ? BR_SSL_BUFSIZE_BIDI : BR_SSL_BUFSIZE_INPUT);
	s->cc.buflen_out = BR_SSL_BUFSIZE_OUTPUT;
	s->sc.buflen = layout_s == TP_LAYOUT_MONO ? BR_SSL_BUFSIZE_MONO : (layout_s == TP_LAYOUT_SPLIT1 ? BR_SSL_BUFSIZE_BIDI : BR_SSL_BUFSIZE_INPUT);
	s->sc.buflen_out = BR_SSL_BUFSIZE_OUTPUT;
	s->sl[0] = s->si->id; s->cc.suites = s->sl; s->cc.nsuites = 1; s->cc.vmin = s->cc.vmax = s->version;
	s->sc.keykind = tp_key_for_suite(s->si, 0);
	if (cflags) { s->cc.flags = cflags; s->cc.flags_set = 1; }
	if (sflags) { s->sc.flags = sflags; s->sc.flags_set = 1; }
	vf_bytes(r, s->cc.seed, 32); vf_bytes(r, s->sc.seed, 32);
	tp_pair_init(&s->p, vf_u64(r), (uint64_t)idx, chunk);
	s->p.c.tx_key = vf_u64(r); s->p.s.tx_key = vf_u64(r);
	tm_pair_attach(&s->pm, &s->p);
	s->pm.m.rec_hook = ver_hook;
	last_rec_version[0] = last_rec_version[1] = 0;
	if (!tp_ep_start(&s->p.c, &s->cc) || !tp_ep_start(&s->p.s, &s->sc)) return 0;
	s->p.c.tx_key = s->pm.m.key[0]; s->p.c.rx_key = s->pm.m.key[1];
	s->p.s.tx_key = s->pm.m.key[1]; s->p.s.rx_key = s->pm.m.key[0];
	return tp_handshake(&s->p, 2000000);
}

static void
sess_end(sess *s)
{
	rm_free(&s->pm.m.rm);
	tp_pair_free(&s->p);
}

static int
count_alerts(const rm_state *st, int dir, int level, int desc)
{
	int i, n = 0;
	for (i = 0; i < st->n_alerts[dir]; i ++) if (st->alerts[dir][i][0] == level && st->alerts[dir][i][1] == desc) n ++;
	return n;
}

/* ------------------------------------------------------------------ */
/* close at a random point of a bidirectional exchange */

static void
close_case(long long seed, long idx)
{
	sess s;
	vf_rng r;
	int who, chunk, wpol;
	size_t ct, st_, a_rx_at_close[2] = { 0, 0 }, tx_at_close[2] = { 0, 0 };
	long at, n = 0;
	int closed_req[2] = { 0, 0 }, idle = 0;
	char what[300];
	vf_rng_init(&r, (uint64_t)seed, (uint64_t)idx * 3 + 1);
	who = (int)vf_below(&r, 3); chunk = (int)vf_below(&r, 5); wpol = (int)vf_below(&r, 5);
	ct = vf_below(&r, 6000); st_ = vf_below(&r, 6000);
	at = (long)vf_below(&r, 400);
	if (!sess_start(&s, &r, idx, chunk, 0, 0)) { TP_VIOL("setup", "handshake failed"); sess_end(&s); return; }
	snprintf(tp_case, sizeof tp_case, "%s close idx=%ld suite=%s ver=%04x who=%d at_step=%ld chunk=%d c_total=%zu s_total=%zu",
		base, idx, s.si->name, s.version, who, at, chunk, ct, st_);
	/* scheduler: like tp_run_data, but issues the close request(s) at step `at` */
	while (n ++ < 4000000) {
		tp_ep *eps[2]; size_t totals[2]; int acts[8], na = 0, i, a;
		eps[0] = &s.p.c; eps[1] = &s.p.s; totals[0] = ct; totals[1] = st_;
		if (n == at + 1) {
			for (i = 0; i < 2; i ++) if (who == i || who == 2) {
				closed_req[i] = 1;
				tx_at_close[i] = eps[i]->tx_done;
				tp_act_close(eps[i]);
				/* unread data at the time of the request is discarded by close(): delivered stream is frozen here */
				a_rx_at_close[i] = eps[i]->rx_done;
			}
		}
		if (tp_ep_closed(&s.p.c) && tp_ep_closed(&s.p.s)) break;
		for (i = 0; i < 2; i ++) {
			unsigned stt = br_ssl_engine_current_state(eps[i]->eng);
			if ((stt & BR_SSL_SENDAPP) && eps[i]->tx_done < totals[i] && !closed_req[i]) acts[na ++] = i;
			if (stt & BR_SSL_RECVAPP) acts[na ++] = 2 + i;
		}
		if (na == 0 || vf_below(&r, 2)) { if (tp_pump_step(&s.p)) { idle = 0; continue; } }
		if (na == 0) {
			if (idle ++ > 3) break;
			if (!tp_ep_closed(&s.p.c)) tp_act_flush(&s.p.c, 0);
			if (!tp_ep_closed(&s.p.s)) tp_act_flush(&s.p.s, 0);
			if (n <= at) n = at;      /* nothing left to do before the close point: jump to it */
			continue;
		}
		idle = 0;
		a = acts[vf_below(&r, (uint32_t)na)];
		if (a < 2) {
			size_t len;
			br_ssl_engine_sendapp_buf(eps[a]->eng, &len);
			if (len > totals[a] - eps[a]->tx_done) len = totals[a] - eps[a]->tx_done;
			tp_act_write(eps[a], tp_wsize(&r, wpol, len));
			if (vf_below(&r, 3) == 0) tp_act_flush(eps[a], 0);
		} else {
			size_t len;
			br_ssl_engine_recvapp_buf(eps[a - 2]->eng, &len);
			if (closed_req[a - 2]) {
				TP_VIOL("close:data-delivered-after-local-close", "application data offered to the application after it requested closure");
			}
			tp_act_read(eps[a - 2], tp_chunk(&r, chunk, len));
		}
	}
	vf_stat("close_cases", 1);
	if (!tp_ep_closed(&s.p.c) || !tp_ep_closed(&s.p.s)) {
		snprintf(what, sizeof what, "not both closed: c state=%u err=%d, s state=%u err=%d", br_ssl_engine_current_state(s.p.c.eng),
			br_ssl_engine_last_error(s.p.c.eng), br_ssl_engine_current_state(s.p.s.eng), br_ssl_engine_last_error(s.p.s.eng));
		TP_VIOL("close:not-completed", what);
		goto out;
	}
	if (br_ssl_engine_last_error(s.p.c.eng) != 0 || br_ssl_engine_last_error(s.p.s.eng) != 0) {
		snprintf(what, sizeof what, "orderly closure ended with errors: c_err=%d s_err=%d", br_ssl_engine_last_error(s.p.c.eng), br_ssl_engine_last_error(s.p.s.eng));
		TP_VIOL("close:error-after-orderly-close", what);
		goto out;
	}
	{
		int i;
		tp_ep *eps[2]; eps[0] = &s.p.c; eps[1] = &s.p.s;
		for (i = 0; i < 2; i ++) {
			tp_ep *A = eps[i], *B = eps[1 - i];
			if (!closed_req[i]) continue;
			/* everything A wrote before its request reached B */
			if (who != 2 && B->rx_done != tx_at_close[i]) {
				snprintf(what, sizeof what, "side %d wrote %zu bytes before requesting closure, peer read %zu before end-of-stream", i, tx_at_close[i], B->rx_done);
				TP_VIOL("close:data-before-close-lost", what);
			}
			if (who == 2 && B->rx_done > tx_at_close[i]) TP_VIOL("close:more-than-written", "peer read more than was written");
			/* nothing delivered to A after its request */
			if (A->rx_done != a_rx_at_close[i]) TP_VIOL("close:data-delivered-after-local-close", "bytes delivered after the local close request");
		}
	}
	tm_verdict(&s.pm.m, 0, 0, 0);
	{
		int d;
		for (d = 0; d < 2; d ++) {
			if (count_alerts(&s.pm.m.rm, d, 1, 0) != 1 || s.pm.m.rm.n_alerts[d] != 1) {
				snprintf(what, sizeof what, "direction %d carried %d alerts, %d of them close_notify (expected exactly one close_notify)",
					d, s.pm.m.rm.n_alerts[d], count_alerts(&s.pm.m.rm, d, 1, 0));
				TP_VIOL("close:alert-count", what);
			}
		}
	}
	vf_stat("close_ok", 1);
	vf_distinct("close_cfg", "%d/%04x/w%d/c%d", s.si->enc, s.version, who, chunk);
	vf_distinct_h("schedule", s.p.sched_hash);
out:
	sess_end(&s);
}

/* ------------------------------------------------------------------ */
/* transport cut at every byte: never "closed with error 0" unless close_notify fully received */

static void
cut_case(long long seed, long idx, int stride)
{
	sess s;
	vf_rng r;
	tp_snap sn;
	static unsigned char stream[1 << 17];
	size_t sl, cn_end, off, k;
	int dir = (int)(idx & 1);
	tp_ep *RX, *TX;
	tp_fifo *f;
	char what[200];
	vf_rng_init(&r, (uint64_t)seed, (uint64_t)idx * 3 + 2);
	if (!sess_start(&s, &r, idx, TP_CHUNK_WHOLE, 0, 0)) { TP_VIOL("setup", "handshake failed"); sess_end(&s); return; }
	RX = dir == 0 ? &s.p.s : &s.p.c; TX = dir == 0 ? &s.p.c : &s.p.s; f = dir == 0 ? &s.p.c2s : &s.p.s2c;
	tp_snap_take(&sn, RX);
	/* sender: 4 records then close_notify */
	for (k = 0; k < 4; k ++) {
		tp_act_write(TX, 1 + vf_below(&r, 60)); tp_act_flush(TX, 0);
		while (br_ssl_engine_current_state(TX->eng) & BR_SSL_SENDREC) tp_act_sendrec(TX, f, 100000);
	}
	cn_end = 0;
	tp_act_close(TX);
	while (br_ssl_engine_current_state(TX->eng) & BR_SSL_SENDREC) tp_act_sendrec(TX, f, 100000);
	sl = tp_fifo_len(f);
	memcpy(stream, f->data + f->rd, sl);
	cn_end = sl;      /* the close_notify record is the last one: fully received only with the whole stream */
	for (off = 0; off <= sl; off += (size_t)stride) {
		size_t fed = 0;
		int guard = 0;
		tp_snap_restore(&sn, RX);
		snprintf(tp_case, sizeof tp_case, "%s cut idx=%ld suite=%s ver=%04x dir=%d cut_at=%zu of %zu", base, idx, s.si->name, s.version, dir, off, sl);
		while (guard ++ < 100000) {
			size_t l; unsigned char *b;
			unsigned st = br_ssl_engine_current_state(RX->eng);
			if (st & BR_SSL_CLOSED) break;
			if (br_ssl_engine_recvapp_buf(RX->eng, &l)) { tp_act_read(RX, l); continue; }
			if (st & BR_SSL_SENDREC) { tp_fifo tmp; tp_fifo_init(&tmp); tp_act_sendrec(RX, &tmp, 100000); tp_fifo_free(&tmp); continue; }
			if ((st & BR_SSL_RECVREC) && fed < off) {
				b = br_ssl_engine_recvrec_buf(RX->eng, &l);
				if (l > off - fed) l = off - fed;
				memcpy(b, stream + fed, l); fed += l;
				br_ssl_engine_recvrec_ack(RX->eng, l);
				tp_calls ++; tp_check(RX, "recvrec_ack");
				continue;
			}
			break;
		}
		vf_stat("cut_points", 1);
		if (tp_ep_closed(RX) && br_ssl_engine_last_error(RX->eng) == 0 && off < cn_end) {
			snprintf(what, sizeof what, "engine reports orderly closure although only %zu of %zu bytes arrived (close_notify incomplete)", off, sl);
			TP_VIOL("cut:truncation-reported-as-clean-close", what);
		}
		if (off == sl && !(tp_ep_closed(RX) && br_ssl_engine_last_error(RX->eng) == 0)) {
			TP_VIOL("cut:complete-stream-not-closed-cleanly", "whole stream including close_notify delivered but the engine is not cleanly closed");
		}
		if (off + (size_t)stride > sl && off != sl) off = sl - (size_t)stride;   /* always include the complete stream */
	}
	vf_distinct("cut_cfg", "%d/%04x/d%d", s.si->enc, s.version, dir);
	tp_snap_free(&sn);
	sess_end(&s);
}

/* ------------------------------------------------------------------ */
/* alerts injected before keys (plaintext) and after (protected) */

static void
alert_cases(long long seed, long idx, int desc_stride)
{
	sess s;
	vf_rng r;
	tp_snap sn;
	int dir = (int)(idx & 1), phase;
	static const int levels[] = { 0, 1, 2, 3, 255 };
	char what[300];
	vf_rng_init(&r, (uint64_t)seed, (uint64_t)idx * 3 + 3);
	/* phases: 0 = after handshake idle; 1 = after some data; 2,3 = during the handshake (plaintext); 4 = the receiver's
	   application has asked for closure and its close_notify is out (it waits for the peer's); 5 = the receiver has
	   started a renegotiation (its ClientHello / HelloRequest is out) */
	for (phase = 0; phase < 6; phase ++) {
		tp_ep *RX;
		rm_cipher cs0;
		int li, d;
		long step = 0;
		memset(&s, 0, sizeof s);
		if (phase < 2 || phase >= 4) {
			if (!sess_start(&s, &r, idx, TP_CHUNK_WHOLE, 0, 0)) { TP_VIOL("setup", "handshake failed"); sess_end(&s); continue; }
			if (phase != 0) { tp_run_data(&s.p, 300, 300, TP_W_SMALL, 100000); tp_settle(&s.p, 10000); }
		} else {
			/* stop the handshake midway: after `k` pump steps */
			int lay = 0;
			(void)lay;
			s.si = tp_suite_find(modes[idx % NMODES]);
			s.version = s.si->tls12only ? 0x0303 : 0x0301 + (unsigned)((idx / NMODES) % 3);
			tp_cfg_default(&s.cc, 0); tp_cfg_default(&s.sc, 1);
			s.sl[0] = s.si->id; s.cc.suites = s.sl; s.cc.nsuites = 1; s.cc.vmin = s.cc.vmax = s.version;
			s.sc.keykind = tp_key_for_suite(s.si, 0);
			vf_bytes(&r, s.cc.seed, 32); vf_bytes(&r, s.sc.seed, 32);
			tp_pair_init(&s.p, 1, (uint64_t)idx, TP_CHUNK_WHOLE);
			tm_pair_attach(&s.pm, &s.p);
			s.pm.m.rec_hook = ver_hook;
			last_rec_version[0] = last_rec_version[1] = 0;
			if (!tp_ep_start(&s.p.c, &s.cc) || !tp_ep_start(&s.p.s, &s.sc)) { sess_end(&s); continue; }
			/* phase 2: after the first flight each way (2 steps: CH out, CH in); phase 3: 4 steps */
			/* advance the handshake by one (phase 2) or two (phase 3) flights towards RX and stop at a
			   record boundary: nothing in flight to RX and its peer not in the middle of sending */
			{
				tp_ep *rx = dir == 0 ? &s.p.s : &s.p.c, *tx = dir == 0 ? &s.p.c : &s.p.s;
				tp_fifo *fin = dir == 0 ? &s.p.c2s : &s.p.s2c;
				int flights = 0, want = phase == 2 ? 1 : 2;
				size_t in0 = rx->bytes_in;
				for (step = 0; step < 100000 && flights < want; step ++) {
					if (!tp_pump_step(&s.p)) break;
					if (rx->bytes_in > in0 && tp_fifo_len(fin) == 0 && !(br_ssl_engine_current_state(tx->eng) & BR_SSL_SENDREC)) {
						flights ++; in0 = rx->bytes_in;
						/* let the other direction move before counting the next flight */
						if (flights < want) {
							long q;
							for (q = 0; q < 100000 && rx->bytes_in == in0; q ++) if (!tp_pump_step(&s.p)) break;
							step += q;
						}
					}
				}
			}
		}
		RX = dir == 0 ? &s.p.s : &s.p.c;
		if (tp_ep_closed(RX)) { sess_end(&s); continue; }
		if (phase >= 4) {
			tp_fifo tmp; tp_fifo_init(&tmp);
			if (phase == 4) { br_ssl_engine_close(RX->eng); tp_calls ++; tp_check(RX, "close"); }
			else if (!tp_act_reneg(RX)) { TP_VIOL("reneg:refused", "br_ssl_engine_renegotiate returned 0 on an idle connection"); tp_fifo_free(&tmp); sess_end(&s); continue; }
			while (!tp_ep_closed(RX) && (br_ssl_engine_current_state(RX->eng) & BR_SSL_SENDREC)) tp_act_sendrec(RX, &tmp, 100000);
			tp_fifo_free(&tmp);
			if (tp_ep_closed(RX)) { TP_VIOL("alert:setup", "engine closed before the peer answered"); sess_end(&s); continue; }
		}
		/* the endpoint must be at a record boundary to take an injected record: drain its input first */
		cs0 = s.pm.m.rm.cs[dir];
		tp_snap_take(&sn, RX);
		for (li = 0; li < 5; li ++) for (d = (int)vf_below(&r, (uint32_t)desc_stride); d < 256; d += desc_stride) {
			int form;
			for (form = 0; form < 3; form ++) {
				unsigned char pl[4], rec[200];
				rm_cipher cs = cs0;
				rm_forge_opts fo;
				size_t rl, fed = 0;
				int level = levels[li], guard = 0, expect_fatal;
				size_t rx_before;
				if (form > 0 && (d % 16) != 0) continue;      /* split / odd-length forms on a subset */
				tp_snap_restore(&sn, RX);
				rx_before = RX->rx_done;
				rm_forge_defaults(&fo);
				if (!cs.active) { cs.version = last_rec_version[dir] ? last_rec_version[dir] : 0x0301; }
				pl[0] = (unsigned char)level; pl[1] = (unsigned char)d;
				if (form == 0) rl = rm_seal(&cs, 21, pl, 2, &fo, &r, 1, rec);
				else if (form == 1) {            /* alert split over two records */
					rl = rm_seal(&cs, 21, pl, 1, &fo, &r, 1, rec);
					rl += rm_seal(&cs, 21, pl + 1, 1, &fo, &r, 1, rec + rl);
				} else {                          /* two alerts in one record: warning(1,d') then this one */
					pl[2] = pl[0]; pl[3] = pl[1]; pl[0] = 1; pl[1] = 90;
					rl = rm_seal(&cs, 21, pl, 4, &fo, &r, 1, rec);
					pl[0] = (unsigned char)level; pl[1] = (unsigned char)d;
				}
				snprintf(tp_case, sizeof tp_case, "%s alert idx=%ld suite=%s ver=%04x dir=%d phase=%d level=%d desc=%d form=%d",
					base, idx, s.si->name, s.version, dir, phase, level, d, form);
				while (guard ++ < 1000 && fed < rl && !tp_ep_closed(RX)) {
					size_t l; unsigned char *b = br_ssl_engine_recvrec_buf(RX->eng, &l);
					if (b == NULL) {
						if (br_ssl_engine_recvapp_buf(RX->eng, &l)) { tp_act_read(RX, l); continue; }
						if (br_ssl_engine_current_state(RX->eng) & BR_SSL_SENDREC) { tp_fifo tmp; tp_fifo_init(&tmp); tp_act_sendrec(RX, &tmp, 100000); tp_fifo_free(&tmp); continue; }
						break;
					}
					if (l > rl - fed) l = rl - fed;
					memcpy(b, rec + fed, l); fed += l;
					br_ssl_engine_recvrec_ack(RX->eng, l);
					tp_calls ++; tp_check(RX, "recvrec_ack");
				}
				{
					tp_fifo tmp; tp_fifo_init(&tmp);
					while (!tp_ep_closed(RX) && (br_ssl_engine_current_state(RX->eng) & BR_SSL_SENDREC)) tp_act_sendrec(RX, &tmp, 100000);
					tp_fifo_free(&tmp);
				}
				vf_stat("alerts_injected", 1);
				if (fed < rl && !tp_ep_closed(RX)) { vf_stat("alerts_not_deliverable", 1); continue; }
				expect_fatal = level != 1;      /* fatal (2) and unknown levels are fatal */
				if (level == 1 && d == 0) {
					/* close_notify: orderly closure is triggered (the engine answers and closes) */
					if (phase == 2 || phase == 3 || phase == 5) { vf_stat("close_notify_during_handshake", 1); continue; }
					if (!(tp_ep_closed(RX) && br_ssl_engine_last_error(RX->eng) == 0)) {
						snprintf(what, sizeof what, "close_notify received but engine state=%u err=%d", br_ssl_engine_current_state(RX->eng), br_ssl_engine_last_error(RX->eng));
						TP_VIOL("alert:close-notify-not-honoured", what);
					}
					continue;
				}
				if (expect_fatal) {
					if (!tp_ep_closed(RX) || br_ssl_engine_last_error(RX->eng) != BR_ERR_RECV_FATAL_ALERT + d) {
						snprintf(what, sizeof what, "alert (level %d, description %d): engine state=%u last_error=%d, expected closed with %d",
							level, d, br_ssl_engine_current_state(RX->eng), br_ssl_engine_last_error(RX->eng), BR_ERR_RECV_FATAL_ALERT + d);
						TP_VIOL("alert:fatal-alert-not-reported", what);
					} else vf_stat("fatal_alerts_reported", 1);
				} else if (d == 100) {
					/* no_renegotiation outside a renegotiation we asked for: reaction not specified; only sanitizers and C06 judge */
					vf_stat("no_renegotiation_warnings_unjudged", 1);
				} else {
					/* warning: ignored; the connection stays usable (after the handshake: data still flows) */
					if (tp_ep_closed(RX)) {
						snprintf(what, sizeof what, "warning alert (description %d) closed the connection: last_error=%d", d, br_ssl_engine_last_error(RX->eng));
						TP_VIOL("alert:warning-closed-connection", what);
					} else if (phase == 4) {
						/* closing: a following data record is discarded, not delivered, and the peer's close_notify then
						   ends the connection in order */
						unsigned char data[16], rec2[300], cn[2] = { 1, 0 };
						size_t i, rl2, fed2 = 0;
						for (i = 0; i < sizeof data; i ++) data[i] = tp_stream_byte(RX->rx_key, RX->rx_done + i);
						rl2 = rm_seal(&cs, 23, data, sizeof data, &fo, &r, 1, rec2);
						rl2 += rm_seal(&cs, 21, cn, 2, &fo, &r, 1, rec2 + rl2);
						guard = 0;
						while (guard ++ < 1000 && !tp_ep_closed(RX) && fed2 < rl2) {
							size_t l; unsigned char *b;
							if (br_ssl_engine_recvapp_buf(RX->eng, &l)) { tp_act_read(RX, l); continue; }
							b = br_ssl_engine_recvrec_buf(RX->eng, &l);
							if (b == NULL) break;
							if (l > rl2 - fed2) l = rl2 - fed2;
							memcpy(b, rec2 + fed2, l); fed2 += l;
							br_ssl_engine_recvrec_ack(RX->eng, l);
							tp_calls ++; tp_check(RX, "recvrec_ack");
						}
						if (RX->rx_done != rx_before) TP_VIOL("close:data-delivered-after-close-request", "application data that arrived after the local close request was delivered");
						else if (!tp_ep_closed(RX) || br_ssl_engine_last_error(RX->eng) != 0) {
							snprintf(what, sizeof what, "closing engine after warning, data and close_notify: state=%u err=%d", br_ssl_engine_current_state(RX->eng), br_ssl_engine_last_error(RX->eng));
							TP_VIOL("close:closing-engine-did-not-end-cleanly", what);
						} else vf_stat("warnings_ignored_while_closing", 1);
					} else if (phase < 2) {
						/* a following data record must still be accepted and delivered in order */
						unsigned char data[16], rec2[200];
						size_t i, rl2, fed2 = 0;
						for (i = 0; i < sizeof data; i ++) data[i] = tp_stream_byte(RX->rx_key, RX->rx_done + i);
						rl2 = rm_seal(&cs, 23, data, sizeof data, &fo, &r, 1, rec2);
						guard = 0;
						while (guard ++ < 1000 && !tp_ep_closed(RX)) {
							size_t l; unsigned char *b;
							if (br_ssl_engine_recvapp_buf(RX->eng, &l)) { tp_act_read(RX, l); continue; }
							if (fed2 >= rl2) break;
							b = br_ssl_engine_recvrec_buf(RX->eng, &l);
							if (b == NULL) break;
							if (l > rl2 - fed2) l = rl2 - fed2;
							memcpy(b, rec2 + fed2, l); fed2 += l;
							br_ssl_engine_recvrec_ack(RX->eng, l);
							tp_calls ++; tp_check(RX, "recvrec_ack");
						}
						if (RX->rx_done != rx_before + sizeof data || RX->rx_bad) {
							TP_VIOL("alert:stream-desynchronised-after-warning", "data record following a warning alert was not delivered intact");
						} else vf_stat("warnings_ignored_stream_intact", 1);
					} else vf_stat("warnings_ignored", 1);
				}
			}
		}
		vf_distinct("alert_cfg", "%d/%04x/d%d/p%d", s.si->enc, s.version, dir, phase);
		tp_snap_free(&sn);
		sess_end(&s);
	}
}

/* ------------------------------------------------------------------ */
/* renegotiation */

typedef struct { unsigned char vd[2][12]; int have[2]; int n_ri_checked; int bad; } ri_mon;
static ri_mon RI;
static sess *RS;

/* renegotiation_info (0xFF01) value of a hello message with its 4-byte header */
static const unsigned char *
find_ri(const unsigned char *m, size_t ml, int is_sh, size_t *vlen)
{
	size_t o = 4 + 2 + 32, l;
	if (ml < o + 1) return NULL;
	o += 1 + m[o];
	if (is_sh) o += 3;
	else { if (o + 2 > ml) return NULL; o += 2 + (((size_t)m[o] << 8) | m[o + 1]); if (o + 1 > ml) return NULL; o += 1 + m[o]; }
	if (o + 2 > ml) return NULL;
	l = ((size_t)m[o] << 8) | m[o + 1]; o += 2;
	if (o + l > ml) return NULL;
	while (l >= 4) {
		unsigned t = ((unsigned)m[o] << 8) | m[o + 1];
		size_t el = ((size_t)m[o + 2] << 8) | m[o + 3];
		if (el + 4 > l) return NULL;
		if (t == 0xFF01) { *vlen = el; return m + o + 4; }
		o += 4 + el; l -= 4 + el;
	}
	return NULL;
}

static void
ri_hs(void *arg, int dir, int type, const unsigned char *body, size_t len)
{
	(void)arg;
	if (type == 20 && len == 12) {           /* Finished: remember verify_data of this direction */
		memcpy(RI.vd[dir], body, 12); RI.have[dir] = 1;
	} else if ((type == 1 && dir == 0) || (type == 2 && dir == 1)) {
		if (RI.have[0] && RI.have[1]) {
			/* a hello after a completed handshake = renegotiation: must be bound to the previous Finished values */
			unsigned char m[2100];
			size_t vl = 0;
			const unsigned char *v;
			if (len + 4 > sizeof m) return;
			m[0] = (unsigned char)type; m[1] = (unsigned char)(len >> 16); m[2] = (unsigned char)(len >> 8); m[3] = (unsigned char)len;
			memcpy(m + 4, body, len);
			v = find_ri(m, len + 4, type == 2, &vl);
			RI.n_ri_checked ++;
			if (type == 1) {
				if (v == NULL || vl != 13 || v[0] != 12 || memcmp(v + 1, RI.vd[0], 12) != 0) RI.bad = 1;
			} else {
				if (v == NULL || vl != 25 || v[0] != 24 || memcmp(v + 1, RI.vd[0], 12) != 0 || memcmp(v + 13, RI.vd[1], 12) != 0) RI.bad = 1;
			}
		}
	}
}

static void
reneg_case(long long seed, long idx)
{
	sess s;
	vf_rng r;
	int kind, chunk, who, n_reneg, k, legacy;
	char what[300];
	vf_rng_init(&r, (uint64_t)seed, (uint64_t)idx * 3 + 4);
	legacy = (int)((idx / 7 / NMODES) & 1);   /* kind 2 only: instead of the option flag, the refusing engine is in the state it has after a hello without renegotiation_info (reneg = 1: peer without RFC 5746) */
	kind = (int)(idx % 7);      /* 6: rogue peer (saved Finished values tampered on one side); 0,1: quiescent; 2: NO_RENEGOTIATION on the receiving side; 3: data in flight; 4: renegotiate() preconditions; 5: three in a row */
	chunk = (int)vf_below(&r, 5);
	who = (int)vf_below(&r, 2);
	memset(&RI, 0, sizeof RI);
	RS = &s;
	{
		uint32_t cf = 0, sf = 0;
		if (kind == 2 && !legacy) { if (who == 0) sf = BR_OPT_NO_RENEGOTIATION; else cf = BR_OPT_NO_RENEGOTIATION; }
		if (!sess_start(&s, &r, idx / 7, chunk, cf, sf)) { TP_VIOL("setup", "handshake failed"); sess_end(&s); return; }
	}
	/* note: the Finished of the first handshake passed the monitor before on_hs was set; attach from the start instead */
	sess_end(&s);
	/* restart with the handshake monitor attached from the beginning */
	vf_rng_init(&r, (uint64_t)seed, (uint64_t)idx * 3 + 4);
	(void)vf_below(&r, 5); (void)vf_below(&r, 2);
	{
		uint32_t cf = 0, sf = 0;
		int layout_c, layout_s;
		if (kind == 2 && !legacy) { if (who == 0) sf = BR_OPT_NO_RENEGOTIATION; else cf = BR_OPT_NO_RENEGOTIATION; }
		layout_c = (int)vf_below(&r, 3); layout_s = (int)vf_below(&r, 3);
		s.si = tp_suite_find(modes[(idx / 7) % NMODES]);
		s.version = s.si->tls12only ? 0x0303 : 0x0301 + (unsigned)(((idx / 7) / NMODES) % 3);
		tp_cfg_default(&s.cc, 0); tp_cfg_default(&s.sc, 1);
		s.cc.layout = layout_c; s.sc.layout = layout_s;
		s.cc.buflen = layout_c == TP_LAYOUT_MONO ? BR_SSL_BUFSIZE_MONO : (layout_c == TP_LAYOUT_SPLIT1 ? BR_SSL_BUFSIZE_BIDI : BR_SSL_BUFSIZE_INPUT);
		s.cc.buflen_out = BR_SSL_BUFSIZE_OUTPUT;
		s.sc.buflen = layout_s == TP_LAYOUT_MONO ? BR_SSL_BUFSIZE_MONO : (layout_s == TP_LAYOUT_SPLIT1 ? BR_SSL_BUFSIZE_BIDI : BR_SSL_BUFSIZE_INPUT);
		s.sc.buflen_out = BR_SSL_BUFSIZE_OUTPUT;
		s.sl[0] = s.si->id; s.cc.suites = s.sl; s.cc.nsuites = 1; s.cc.vmin = s.cc.vmax = s.version;
		s.sc.keykind = tp_key_for_suite(s.si, 0);
		if (cf) { s.cc.flags = cf; s.cc.flags_set = 1; }
		if (sf) { s.sc.flags = sf; s.sc.flags_set = 1; }
		vf_bytes(&r, s.cc.seed, 32); vf_bytes(&r, s.sc.seed, 32);
		tp_pair_init(&s.p, vf_u64(&r), (uint64_t)idx, chunk);
		s.p.c.tx_key = vf_u64(&r); s.p.s.tx_key = vf_u64(&r);
		tm_pair_attach(&s.pm, &s.p);
		s.pm.m.rm.on_hs = ri_hs;
		if (!tp_ep_start(&s.p.c, &s.cc) || !tp_ep_start(&s.p.s, &s.sc)) { TP_VIOL("setup", "reset failed"); sess_end(&s); return; }
		s.p.c.tx_key = s.pm.m.key[0]; s.p.c.rx_key = s.pm.m.key[1];
		s.p.s.tx_key = s.pm.m.key[1]; s.p.s.rx_key = s.pm.m.key[0];
		if (!tp_handshake(&s.p, 2000000)) { TP_VIOL("setup", "handshake failed"); sess_end(&s); return; }
	}
	snprintf(tp_case, sizeof tp_case, "%s reneg idx=%ld kind=%d%s suite=%s ver=%04x who=%d chunk=%d layouts=%d/%d", base, idx, kind, kind == 2 && legacy ? "(legacy-peer state)" : "", s.si->name, s.version,
		who, chunk, s.cc.layout, s.sc.layout);
	if (kind == 2 && legacy) {
		tp_ep *B = who == 0 ? &s.p.s : &s.p.c;
		if (B->eng->reneg != 2) TP_VIOL("reneg:status-after-handshake", "engine does not record secure-renegotiation support of a peer that sent renegotiation_info");
		B->eng->reneg = 1;
		vf_stat("reneg_legacy_state_cases", 1);
	}
	vf_stat("reneg_cases", 1);
	/* kind 5: three in a row; every fourth of those a long-lived connection with forty (whatever a handshake leaves behind in the
	   engine - interpreter stacks, hash contexts, counters - has forty occasions to pile up) */
	n_reneg = kind == 5 ? (((idx / 7) % 4) == 1 ? 40 : 3) : 1;
	if (n_reneg == 40) vf_stat("reneg_forty_in_a_row_cases", 1);
	for (k = 0; k < n_reneg; k ++) {
		tp_ep *A = ((who + k) & 1) ? &s.p.s : &s.p.c;
		int epoch0 = s.pm.m.rm.cs[0].epoch, epoch1 = s.pm.m.rm.cs[1].epoch, rr;
		size_t c0 = 50 + vf_below(&r, 2000), s0 = 50 + vf_below(&r, 2000);
		/* some data first, then everything delivered (quiescent) */
		if (!tp_run_data(&s.p, s.p.c.tx_done + c0, s.p.s.tx_done + s0, TP_W_MIXED, 4000000)) { TP_VIOL("reneg:data-before-failed", "data exchange before renegotiation failed"); goto out; }
		tp_settle(&s.p, 100000);
		if (kind == 4) {
			/* documented refusals: unread incoming application data; closed engine */
			tp_ep *B = A == &s.p.c ? &s.p.s : &s.p.c;
			size_t l;
			tp_act_write(B, 10); tp_act_flush(B, 0);
			tp_pump_until_quiet(&s.p, 10000);
			if (br_ssl_engine_recvapp_buf(A->eng, &l) != NULL) {
				if (tp_act_reneg(A) != 0) TP_VIOL("reneg:accepted-with-unread-data", "br_ssl_engine_renegotiate returned 1 although incoming application data was buffered");
				vf_stat("reneg_refusals_checked", 1);
			}
			tp_settle(&s.p, 10000);
			tp_run_close(&s.p, 0, 100000);
			if (tp_act_reneg(&s.p.c) != 0 || tp_act_reneg(&s.p.s) != 0) TP_VIOL("reneg:accepted-on-closed-engine", "br_ssl_engine_renegotiate returned 1 on a closed engine");
			vf_stat("reneg_refusals_checked", 1);
			goto out;
		}
		if (kind == 6) {
			/* rogue peer: one side's record of the previous Finished values differs in one bit; the
			   renegotiation is then not bound to the previous handshake and must be refused */
			int j = (int)((idx / 7) % 24), side = (int)((idx / 7 / 24) & 1);
			br_ssl_session_parameters sp0, sp1;
			unsigned char ms0[48], ms1[48];
			(side ? s.p.s.eng : s.p.c.eng)->saved_finished[j] ^= (unsigned char)(1u << (idx % 8));
			br_ssl_engine_get_session_parameters(s.p.c.eng, &sp0); memcpy(ms0, sp0.master_secret, 48);
			br_ssl_engine_get_session_parameters(s.p.s.eng, &sp1); memcpy(ms1, sp1.master_secret, 48);
			snprintf(tp_case + strlen(tp_case), sizeof tp_case - strlen(tp_case), " tampered=%s.saved_finished[%d]", side ? "server" : "client", j);
			vf_stat("reneg_rogue_cases", 1);
			if (!tp_act_reneg(A)) { TP_VIOL("reneg:refused", "br_ssl_engine_renegotiate returned 0 on an idle connection"); goto out; }
			tp_settle(&s.p, 2000000);
			br_ssl_engine_get_session_parameters(s.p.c.eng, &sp0);
			br_ssl_engine_get_session_parameters(s.p.s.eng, &sp1);
			if ((tp_ep_ready(&s.p.c) && memcmp(ms0, sp0.master_secret, 48) != 0)
				|| (tp_ep_ready(&s.p.s) && memcmp(ms1, sp1.master_secret, 48) != 0))
			{
				TP_VIOL("reneg:completed-without-binding", "renegotiation completed although renegotiation_info did not match the previous Finished values");
				goto out;
			}
			if (br_ssl_engine_last_error(s.p.c.eng) == 0 && br_ssl_engine_last_error(s.p.s.eng) == 0) {
				TP_VIOL("reneg:unbound-renegotiation-not-refused", "no endpoint reported an error for a renegotiation with wrong renegotiation_info");
				goto out;
			}
			vf_stat("reneg_rogue_refused", 1);
			vf_stat("reneg_ok", 1);
			goto out;
		}
		if (kind == 3) {
			/* data in flight towards the initiator at the time of the request */
			tp_ep *B = A == &s.p.c ? &s.p.s : &s.p.c;
			tp_act_write(B, 40); tp_act_flush(B, 0);
			while (br_ssl_engine_current_state(B->eng) & BR_SSL_SENDREC) tp_act_sendrec(B, B == &s.p.c ? &s.p.c2s : &s.p.s2c, 100000);
		}
		if (kind == 2 && legacy) {
			/* the engine that saw no proof of RFC 5746 support does not start a renegotiation itself */
			tp_ep *B = A == &s.p.c ? &s.p.s : &s.p.c;
			size_t o0 = B->bytes_out;
			if (tp_act_reneg(B) != 0) TP_VIOL("reneg:started-with-legacy-peer", "br_ssl_engine_renegotiate returned 1 although the peer never proved secure-renegotiation support");
			tp_settle(&s.p, 100000);
			if (B->bytes_out != o0 || s.pm.m.rm.cs[0].epoch != epoch0 || s.pm.m.rm.cs[1].epoch != epoch1) TP_VIOL("reneg:started-with-legacy-peer", "a refused renegotiation request put bytes on the wire");
			vf_stat("reneg_refusals_checked", 1);
		}
		rr = tp_act_reneg(A);
		if (kind == 2 && ((A == &s.p.c && (s.cc.flags & BR_OPT_NO_RENEGOTIATION)) || (A == &s.p.s && (s.sc.flags & BR_OPT_NO_RENEGOTIATION)))) {
			if (rr != 0) TP_VIOL("reneg:accepted-although-disabled-locally", "br_ssl_engine_renegotiate returned 1 with BR_OPT_NO_RENEGOTIATION set");
		}
		if (!rr) { TP_VIOL("reneg:refused", "br_ssl_engine_renegotiate returned 0 on an idle connection with secure renegotiation"); goto out; }
		tp_settle(&s.p, 2000000);
		if (kind == 3) {
			/* known limitation candidate: application data crossing the renegotiation */
			vf_stat("reneg_with_data_in_flight", 1);
			if (tp_ep_closed(&s.p.c) || tp_ep_closed(&s.p.s)) {
				snprintf(what, sizeof what, "connection failed when application data crossed a renegotiation request: c_err=%d s_err=%d",
					br_ssl_engine_last_error(s.p.c.eng), br_ssl_engine_last_error(s.p.s.eng));
				/* the known behaviour has a precise signature: the endpoint that asked for the renegotiation fails with
				   BR_ERR_UNEXPECTED on an application-data record that reaches it during its handshake; anything else that
				   breaks the connection here is something new */
				if (br_ssl_engine_last_error(A->eng) == BR_ERR_UNEXPECTED && A->eng->record_type_in == 23 /* application_data */
					&& (A->eng->application_data & 1) == 0)
				{
					TP_VIOL("reneg:data-in-flight-breaks-connection", what);
				} else {
					TP_VIOL("reneg:data-in-flight-other-failure", what);
				}
				goto out;
			}
		}
		if (kind == 2) {
			/* declined with no_renegotiation (warning 100), data continues */
			int dd = A == &s.p.c ? 1 : 0;      /* the refusing side answers in direction dd */
			vf_stat("reneg_declined_cases", 1);
			if (count_alerts(&s.pm.m.rm, dd, 1, 100) < 1) TP_VIOL("reneg:no-renegotiation-alert-missing", "renegotiation declined without a no_renegotiation warning on the wire");
			if (s.pm.m.rm.cs[0].epoch != epoch0 || s.pm.m.rm.cs[1].epoch != epoch1) TP_VIOL("reneg:rekeyed-although-disabled", "keys changed although renegotiation is disabled");
			{
				tp_ep *B = A == &s.p.c ? &s.p.s : &s.p.c;
				/* the requester may give up with the error that names the warning; the refusing side must not fail by itself */
				if (tp_ep_closed(A)) {
					if (br_ssl_engine_last_error(A->eng) != BR_ERR_RECV_FATAL_ALERT + 100) {
						snprintf(what, sizeof what, "requester ended with error %d after its renegotiation was declined", br_ssl_engine_last_error(A->eng));
						TP_VIOL("reneg:declined-requester-wrong-error", what);
					}
					vf_stat("reneg_declined_requester_stopped", 1);
					tm_verdict(&s.pm.m, 0, 0, 0);
					if (tp_ep_closed(B) && br_ssl_engine_last_error(B->eng) != 0) {
						snprintf(what, sizeof what, "refusing side failed with error %d", br_ssl_engine_last_error(B->eng));
						TP_VIOL("reneg:refusing-side-failed", what);
					}
					vf_stat("reneg_ok", 1);
					goto out;
				}
			}
		} else {
			if (tp_ep_closed(&s.p.c) || tp_ep_closed(&s.p.s) || !tp_ep_ready(&s.p.c) || !tp_ep_ready(&s.p.s)) {
				snprintf(what, sizeof what, "renegotiation did not complete: c state=%u err=%d, s state=%u err=%d", br_ssl_engine_current_state(s.p.c.eng),
					br_ssl_engine_last_error(s.p.c.eng), br_ssl_engine_current_state(s.p.s.eng), br_ssl_engine_last_error(s.p.s.eng));
				TP_VIOL("reneg:not-completed", what);
				goto out;
			}
			if (s.pm.m.rm.cs[0].epoch != epoch0 + 1 || s.pm.m.rm.cs[1].epoch != epoch1 + 1) TP_VIOL("reneg:keys-not-changed", "no key change observed on the wire after renegotiation");
			vf_stat("renegotiations_completed", 1);
		}
	}
	/* data after, then close; streams exact */
	{
		size_t c1 = s.p.c.tx_done + 100 + vf_below(&r, 3000), s1 = s.p.s.tx_done + 100 + vf_below(&r, 3000);
		if (!tp_run_data(&s.p, c1, s1, TP_W_MIXED, 4000000)) {
			snprintf(what, sizeof what, "data exchange after renegotiation failed: c_err=%d s_err=%d", br_ssl_engine_last_error(s.p.c.eng), br_ssl_engine_last_error(s.p.s.eng));
			TP_VIOL("reneg:data-after-failed", what); goto out;
		}
		tp_run_close(&s.p, (int)vf_below(&r, 3), 1000000);
		tm_verdict(&s.pm.m, 1, c1, s1);
	}
	if (kind != 2) {
		if (RI.n_ri_checked < 2 * n_reneg) TP_VIOL("reneg:hellos-not-observed", "renegotiation hellos were not seen on the decoded wire");
		else if (RI.bad) TP_VIOL("reneg:renegotiation-info-wrong", "renegotiation_info of a renegotiation hello does not equal the previous Finished values");
		else vf_stat("renegotiation_info_verified", RI.n_ri_checked);
	}
	vf_stat("reneg_ok", 1);
	vf_distinct("reneg_cfg", "%d/%04x/k%d/w%d/l%d%d", s.si->enc, s.version, kind, who, s.cc.layout, s.sc.layout);
	vf_distinct_h("schedule", s.p.sched_hash);
out:
	sess_end(&s);
}

/* ------------------------------------------------------------------ */
/* scripted peer asks an endpoint that has BR_OPT_NO_RENEGOTIATION for a renegotiation:
   the endpoint must answer with a no_renegotiation warning and carry on */

static void
decline_case(long long seed, long idx)
{
	sess s;
	vf_rng r;
	int rx_role = (int)(idx & 1);       /* 0: client receives HelloRequest; 1: server receives ClientHello */
	int dir_in = rx_role == 0 ? 1 : 0, dir_out = 1 - dir_in;
	tp_ep *RX;
	tp_fifo *fout;
	rm_cipher cs;
	rm_forge_opts fo;
	unsigned char msg[2100], rec[2300], data[24];
	size_t ml, rl, fed = 0, i, rx0;
	int guard = 0, a0;
	char what[300];
	vf_rng_init(&r, (uint64_t)seed, (uint64_t)idx * 3 + 6);
	if (!sess_start(&s, &r, idx / 2, TP_CHUNK_WHOLE, rx_role == 0 ? BR_OPT_NO_RENEGOTIATION : 0, rx_role == 1 ? BR_OPT_NO_RENEGOTIATION : 0)) {
		TP_VIOL("setup", "handshake failed"); sess_end(&s); return;
	}
	tp_run_data(&s.p, 100, 100, TP_W_SMALL, 100000);
	tp_settle(&s.p, 100000);
	RX = rx_role == 0 ? &s.p.c : &s.p.s;
	fout = rx_role == 0 ? &s.p.c2s : &s.p.s2c;
	snprintf(tp_case, sizeof tp_case, "%s decline idx=%ld suite=%s ver=%04x receiver=%s layouts=%d/%d", base, idx, s.si->name, s.version,
		rx_role ? "server" : "client", s.cc.layout, s.sc.layout);
	if (rx_role == 0) { memset(msg, 0, 4); ml = 4; }
	else { ml = s.pm.m.rm.last_ch_len; memcpy(msg, s.pm.m.rm.last_ch, ml); }
	cs = s.pm.m.rm.cs[dir_in];
	rm_forge_defaults(&fo);
	rl = rm_seal(&cs, 22, msg, ml, &fo, &r, 1, rec);
	a0 = s.pm.m.rm.n_alerts[dir_out];
	rx0 = RX->rx_done;
	vf_stat("decline_cases", 1);
	/* feed the request, collect what the endpoint answers (decoded by the independent record layer) */
	while (guard ++ < 10000 && !tp_ep_closed(RX)) {
		size_t l; unsigned char *b;
		if (br_ssl_engine_current_state(RX->eng) & BR_SSL_SENDREC) {
			size_t got = tp_act_sendrec(RX, fout, 100000);
			tm_tap(&s.pm.m, dir_out, fout->data + fout->wr - got, got);
			fout->rd = fout->wr;        /* the scripted peer swallows it */
			continue;
		}
		if (fed >= rl) break;
		b = br_ssl_engine_recvrec_buf(RX->eng, &l);
		if (b == NULL) break;
		if (l > rl - fed) l = rl - fed;
		memcpy(b, rec + fed, l); fed += l;
		br_ssl_engine_recvrec_ack(RX->eng, l);
		tp_calls ++; tp_check(RX, "recvrec_ack");
	}
	if (tp_ep_closed(RX)) {
		snprintf(what, sizeof what, "endpoint with BR_OPT_NO_RENEGOTIATION closed (error %d) when the peer asked for a renegotiation", br_ssl_engine_last_error(RX->eng));
		TP_VIOL("decline:connection-closed", what);
		goto out;
	}
	if (s.pm.m.rm.n_alerts[dir_out] != a0 + 1 || s.pm.m.rm.alerts[dir_out][a0][0] != 1 || s.pm.m.rm.alerts[dir_out][a0][1] != 100) {
		snprintf(what, sizeof what, "expected exactly one no_renegotiation warning, saw %d new alert(s)%s", s.pm.m.rm.n_alerts[dir_out] - a0,
			s.pm.m.rm.failed ? " (and the answer did not decode)" : "");
		TP_VIOL("decline:no-renegotiation-warning-missing", what);
		goto out;
	}
	/* the stream continues in order: next data record from the scripted peer is delivered */
	for (i = 0; i < sizeof data; i ++) data[i] = tp_stream_byte(RX->rx_key, RX->rx_done + i);
	rl = rm_seal(&cs, 23, data, sizeof data, &fo, &r, 1, rec);
	fed = 0; guard = 0;
	while (guard ++ < 10000 && !tp_ep_closed(RX)) {
		size_t l; unsigned char *b;
		if (br_ssl_engine_recvapp_buf(RX->eng, &l)) { tp_act_read(RX, l); continue; }
		if (fed >= rl) break;
		b = br_ssl_engine_recvrec_buf(RX->eng, &l);
		if (b == NULL) break;
		if (l > rl - fed) l = rl - fed;
		memcpy(b, rec + fed, l); fed += l;
		br_ssl_engine_recvrec_ack(RX->eng, l);
		tp_calls ++; tp_check(RX, "recvrec_ack");
	}
	if (RX->rx_done != rx0 + sizeof data || RX->rx_bad || tp_ep_closed(RX)) {
		TP_VIOL("decline:stream-broken-after-declined-renegotiation", "data following a declined renegotiation request was not delivered intact");
		goto out;
	}
	/* and the endpoint can still send */
	if (!tp_ep_ready(RX)) { TP_VIOL("decline:not-ready-after-decline", "endpoint does not accept application data after declining a renegotiation"); goto out; }
	vf_stat("decline_ok", 1);
	vf_distinct("decline_cfg", "%d/%04x/%d/l%d%d", s.si->enc, s.version, rx_role, s.cc.layout, s.sc.layout);
out:
	sess_end(&s);
}

/* ------------------------------------------------------------------ */
/*
 * A renegotiation hello from a scripted peer that holds the connection keys (records sealed by the independent
 * record layer) but does not prove the binding to the previous handshake: renegotiation_info absent, empty (as in
 * a first handshake), of the right length with other bytes, one byte too long - sent as ClientHello to a server
 * that allows renegotiation, or as ServerHello in answer to the renegotiation a client has just asked for. The
 * victim must end with BR_ERR_BAD_SECRENEG (never complete, never change keys). Control: the right value is taken.
 */
static size_t
hello_ext_offset(const unsigned char *m, size_t ml, int is_sh)
{
	size_t o = 4 + 2 + 32;
	if (ml < o + 1) return 0;
	o += 1 + m[o];
	if (is_sh) o += 3;
	else { if (o + 2 > ml) return 0; o += 2 + (((size_t)m[o] << 8) | m[o + 1]); if (o + 1 > ml) return 0; o += 1 + m[o]; }
	return o <= ml ? o : 0;
}

static void
rogue_hello_case(long long seed, long idx)
{
	static const char *const vn[6] = { "binding-absent", "binding-empty", "binding-other-bytes", "binding-one-byte-longer", "no-extension-block", "control-right-binding" };
	sess s;
	vf_rng r;
	int victim = (int)(idx & 1);         /* 0: client (gets a ServerHello), 1: server (gets a ClientHello) */
	int variant = (int)((idx >> 1) % 6);
	int dir_in = victim == 0 ? 1 : 0, dir_out = 1 - dir_in;
	tp_ep *RX;
	tp_fifo *fout;
	rm_cipher cs;
	rm_forge_opts fo;
	unsigned char msg[2400], rec[2600], ri[40];
	const unsigned char *old; size_t oldl, eo, ml, rl, fed = 0, ril = 0, hl;
	int guard = 0, e_in, e_out, sh0;
	char what[300];

	vf_rng_init(&r, (uint64_t)seed, (uint64_t)idx * 3 + 11);
	memset(&RI, 0, sizeof RI);
	{
		/* as sess_start, with the Finished monitor attached from the first byte */
		int layout_c = (int)vf_below(&r, 3), layout_s = (int)vf_below(&r, 3);
		long q = idx / 12;
		s.si = tp_suite_find(modes[q % NMODES]);
		s.version = s.si->tls12only ? 0x0303 : 0x0301 + (unsigned)((q / NMODES) % 3);
		tp_cfg_default(&s.cc, 0); tp_cfg_default(&s.sc, 1);
		s.cc.layout = layout_c; s.sc.layout = layout_s;
		s.cc.buflen = layout_c == TP_LAYOUT_MONO ? BR_SSL_BUFSIZE_MONO : (layout_c == TP_LAYOUT_SPLIT1 ? BR_SSL_BUFSIZE_BIDI : BR_SSL_BUFSIZE_INPUT);
		s.cc.buflen_out = BR_SSL_BUFSIZE_OUTPUT;
		s.sc.buflen = layout_s == TP_LAYOUT_MONO ? BR_SSL_BUFSIZE_MONO : (layout_s == TP_LAYOUT_SPLIT1 ? BR_SSL_BUFSIZE_BIDI : BR_SSL_BUFSIZE_INPUT);
		s.sc.buflen_out = BR_SSL_BUFSIZE_OUTPUT;
		s.sl[0] = s.si->id; s.cc.suites = s.sl; s.cc.nsuites = 1; s.cc.vmin = s.cc.vmax = s.version;
		s.sc.keykind = tp_key_for_suite(s.si, 0);
		vf_bytes(&r, s.cc.seed, 32); vf_bytes(&r, s.sc.seed, 32);
		tp_pair_init(&s.p, vf_u64(&r), (uint64_t)idx, TP_CHUNK_WHOLE);
		s.p.c.tx_key = vf_u64(&r); s.p.s.tx_key = vf_u64(&r);
		tm_pair_attach(&s.pm, &s.p);
		s.pm.m.rm.on_hs = ri_hs;
		if (!tp_ep_start(&s.p.c, &s.cc) || !tp_ep_start(&s.p.s, &s.sc) || !tp_handshake(&s.p, 2000000)) { TP_VIOL("setup", "handshake failed"); sess_end(&s); return; }
		s.p.c.tx_key = s.pm.m.key[0]; s.p.c.rx_key = s.pm.m.key[1]; s.p.s.tx_key = s.pm.m.key[1]; s.p.s.rx_key = s.pm.m.key[0];
	}
	tp_run_data(&s.p, 80, 80, TP_W_SMALL, 100000);
	tp_settle(&s.p, 100000);
	snprintf(tp_case, sizeof tp_case, "%s rogue-hello idx=%ld suite=%s ver=%04x victim=%s variant=%s layouts=%d/%d", base, idx, s.si->name, s.version,
		victim ? "server" : "client", vn[variant], s.cc.layout, s.sc.layout);
	if (!RI.have[0] || !RI.have[1]) { TP_VIOL("setup", "Finished values of the first handshake were not observed"); sess_end(&s); return; }
	RX = victim == 0 ? &s.p.c : &s.p.s;
	fout = victim == 0 ? &s.p.c2s : &s.p.s2c;
	e_in = s.pm.m.rm.cs[dir_in].epoch; e_out = s.pm.m.rm.cs[dir_out].epoch;
	sh0 = s.pm.m.rm.n_sh;
	/* binding value */
	switch (variant) {
	case 1: ri[0] = 0; ril = 1; break;
	case 2: case 3: case 5:
		hl = victim == 0 ? 24 : 12;
		ri[0] = (unsigned char)hl;
		memcpy(ri + 1, RI.vd[0], 12);
		if (victim == 0) memcpy(ri + 13, RI.vd[1], 12);
		ril = 1 + hl;
		if (variant == 2) ri[1 + vf_below(&r, (uint32_t)hl)] ^= (unsigned char)(1u << vf_below(&r, 8));
		if (variant == 3) { ri[0] ++; ri[ril ++] = 0x5A; }
		break;
	default: break;
	}
	/* the hello: the one of the first handshake with a fresh random, an empty session ID and the extension replaced */
	old = victim == 0 ? s.pm.m.rm.last_sh : s.pm.m.rm.last_ch;
	oldl = victim == 0 ? s.pm.m.rm.last_sh_len : s.pm.m.rm.last_ch_len;
	eo = hello_ext_offset(old, oldl, victim == 0);
	if (eo == 0 || oldl > 2000) { TP_VIOL("setup", "hello of the first handshake not captured"); sess_end(&s); return; }
	{
		size_t o = 0, sid = old[38], tail = 39 + sid, xo, xl = 0, mark;
		memcpy(msg, old, 38); o = 38;
		vf_bytes(&r, msg + 6, 32);
		msg[o ++] = 0;                                        /* no session ID */
		memcpy(msg + o, old + tail, eo - tail); o += eo - tail;   /* suite(s), compression */
		if (variant != 4) {
			mark = o; o += 2;
			if (eo + 2 <= oldl) { xl = ((size_t)old[eo] << 8) | old[eo + 1]; xo = eo + 2; } else xo = eo;
			while (xl >= 4) {
				unsigned t = ((unsigned)old[xo] << 8) | old[xo + 1];
				size_t el = ((size_t)old[xo + 2] << 8) | old[xo + 3];
				if (el + 4 > xl) break;
				if (t != 0xFF01) { memcpy(msg + o, old + xo, 4 + el); o += 4 + el; }
				xo += 4 + el; xl -= 4 + el;
			}
			if (variant != 0) {
				msg[o ++] = 0xFF; msg[o ++] = 0x01; msg[o ++] = 0; msg[o ++] = (unsigned char)ril;
				memcpy(msg + o, ri, ril); o += ril;
			}
			msg[mark] = (unsigned char)((o - mark - 2) >> 8); msg[mark + 1] = (unsigned char)(o - mark - 2);
		}
		ml = o;
		msg[1] = (unsigned char)((ml - 4) >> 16); msg[2] = (unsigned char)((ml - 4) >> 8); msg[3] = (unsigned char)(ml - 4);
	}
	if (victim == 0) {
		/* the client asks; its ClientHello goes to the scripted peer */
		if (!tp_act_reneg(RX)) { TP_VIOL("reneg:refused", "br_ssl_engine_renegotiate returned 0 on an idle connection"); sess_end(&s); return; }
		while (!tp_ep_closed(RX) && (br_ssl_engine_current_state(RX->eng) & BR_SSL_SENDREC)) {
			size_t got = tp_act_sendrec(RX, fout, 100000);
			tm_tap(&s.pm.m, dir_out, fout->data + fout->wr - got, got);
			fout->rd = fout->wr;
		}
	}
	cs = s.pm.m.rm.cs[dir_in];
	rm_forge_defaults(&fo);
	rl = rm_seal(&cs, 22, msg, ml, &fo, &r, 1, rec);
	vf_stat("rogue_hello_cases", 1);
	while (guard ++ < 10000 && !tp_ep_closed(RX)) {
		size_t l; unsigned char *b;
		if (br_ssl_engine_current_state(RX->eng) & BR_SSL_SENDREC) {
			size_t got = tp_act_sendrec(RX, fout, 100000);
			tm_tap(&s.pm.m, dir_out, fout->data + fout->wr - got, got);
			fout->rd = fout->wr;
			continue;
		}
		if (fed >= rl) break;
		b = br_ssl_engine_recvrec_buf(RX->eng, &l);
		if (b == NULL) break;
		if (l > rl - fed) l = rl - fed;
		memcpy(b, rec + fed, l); fed += l;
		br_ssl_engine_recvrec_ack(RX->eng, l);
		tp_calls ++; tp_check(RX, "recvrec_ack");
	}
	rm_drain(&s.pm.m.rm, dir_out);
	if (s.pm.m.rm.cs[dir_in].epoch != e_in || s.pm.m.rm.cs[dir_out].epoch != e_out) { TP_VIOL("rogue-hello:keys-changed", "keys changed after a renegotiation hello from a scripted peer"); goto out; }
	if (variant == 5) {
		/* control: the hello is taken: no failure; a server answers with its ServerHello */
		if (tp_ep_closed(RX) || (victim == 1 && s.pm.m.rm.n_sh != sh0 + 1)) {
			snprintf(what, sizeof what, "renegotiation hello with the right binding not taken: closed=%d err=%d server hellos %d -> %d", tp_ep_closed(RX), br_ssl_engine_last_error(RX->eng), sh0, s.pm.m.rm.n_sh);
			TP_VIOL("rogue-hello:control-failed", what);
		} else vf_stat("rogue_hello_controls_ok", 1);
		goto out;
	}
	if (!tp_ep_closed(RX) || br_ssl_engine_last_error(RX->eng) == 0) {
		snprintf(what, sizeof what, "renegotiation hello without a valid binding (%s) did not fail the %s: state=%u err=%d", vn[variant], victim ? "server" : "client",
			br_ssl_engine_current_state(RX->eng), br_ssl_engine_last_error(RX->eng));
		TP_VIOL("rogue-hello:unbound-renegotiation-not-refused", what);
		goto out;
	}
	if (victim == 1 && s.pm.m.rm.n_sh != sh0) { TP_VIOL("rogue-hello:server-answered-unbound-hello", "server sent a ServerHello for a renegotiation hello without a valid binding"); goto out; }
	vf_stat("rogue_hello_refused", 1);
	vf_stat(br_ssl_engine_last_error(RX->eng) == BR_ERR_BAD_SECRENEG ? "rogue_hello_refused_bad_secreneg" : "rogue_hello_refused_other_error", 1);
	vf_distinct("rogue_hello_err", "%s/%s/%d", victim ? "server" : "client", vn[variant], br_ssl_engine_last_error(RX->eng));
out:
	vf_distinct("rogue_hello_cfg", "%d/%04x/%d/%d", s.si->enc, s.version, victim, variant);
	sess_end(&s);
}

/* ------------------------------------------------------------------ */
/* br_sslio wrapper: the client is driven through br_sslio_*; its callbacks pump the server */

typedef struct {
	sess *s;
	long budget;         /* bytes the transport still delivers to the client (cut simulation); <0 = unlimited */
	int cut_hit;
} io_ctx;

static void
server_app(sess *s)
{
	/* echo-less server: reads and checks everything, writes its own stream up to a target */
	size_t l;
	while (br_ssl_engine_recvapp_buf(s->p.s.eng, &l)) tp_act_read(&s->p.s, l);
}

static size_t srv_target;

static int
io_read(void *ctx, unsigned char *data, size_t len)
{
	io_ctx *io = ctx;
	sess *s = io->s;
	int guard = 0;
	for (;;) {
		if (tp_fifo_len(&s->p.s2c) > 0) {
			size_t k = tp_fifo_len(&s->p.s2c);
			if (k > len) k = len;
			if (io->budget >= 0) {
				if (io->budget == 0) { io->cut_hit = 1; return -1; }
				if ((long)k > io->budget) k = (size_t)io->budget;
				io->budget -= (long)k;
			}
			memcpy(data, s->p.s2c.data + s->p.s2c.rd, k);
			s->p.s2c.rd += k;
			return (int)k;
		}
		/* nothing in flight: let the server work */
		if (guard ++ > 100000) return -1;
		{
			unsigned st = br_ssl_engine_current_state(s->p.s.eng);
			size_t l;
			if (st & BR_SSL_CLOSED) return -1;
			if (st & BR_SSL_SENDREC) { tp_act_sendrec(&s->p.s, &s->p.s2c, 100000); continue; }
			if (st & BR_SSL_RECVAPP) { server_app(s); continue; }
			if ((st & BR_SSL_RECVREC) && tp_fifo_len(&s->p.c2s) > 0) { br_ssl_engine_recvrec_buf(s->p.s.eng, &l); tp_act_recvrec(&s->p.s, &s->p.c2s, l); continue; }
			if ((st & BR_SSL_SENDAPP) && s->p.s.tx_done < srv_target) {
				br_ssl_engine_sendapp_buf(s->p.s.eng, &l);
				if (l > srv_target - s->p.s.tx_done) l = srv_target - s->p.s.tx_done;
				tp_act_write(&s->p.s, l); tp_act_flush(&s->p.s, 0);
				continue;
			}
			return -1;       /* server has nothing more to say: end of transport */
		}
	}
}

static int
io_write(void *ctx, const unsigned char *data, size_t len)
{
	io_ctx *io = ctx;
	tp_fifo_put(&io->s->p.c2s, data, len);
	return (int)len;
}

static void
sslio_case(long long seed, long idx)
{
	sess s;
	vf_rng r;
	br_sslio_context ioc;
	io_ctx io;
	uint16_t sl[1];
	unsigned char buf[512];
	size_t ctot, got = 0, sent = 0;
	int rdn, cut = (int)(idx & 1);
	long total_s2c = 0;
	char what[300];
	vf_rng_init(&r, (uint64_t)seed, (uint64_t)idx * 3 + 5);
	memset(&s, 0, sizeof s);
	s.si = tp_suite_find(modes[(idx / 2) % NMODES]);
	s.version = s.si->tls12only ? 0x0303 : 0x0301 + (unsigned)(((idx / 2) / NMODES) % 3);
	tp_cfg_default(&s.cc, 0); tp_cfg_default(&s.sc, 1);
	sl[0] = s.si->id; s.cc.suites = sl; s.cc.nsuites = 1; s.cc.vmin = s.cc.vmax = s.version;
	s.sc.keykind = tp_key_for_suite(s.si, 0);
	vf_bytes(&r, s.cc.seed, 32); vf_bytes(&r, s.sc.seed, 32);
	tp_pair_init(&s.p, 1, (uint64_t)idx, TP_CHUNK_WHOLE);
	if (!tp_ep_start(&s.p.c, &s.cc) || !tp_ep_start(&s.p.s, &s.sc)) { TP_VIOL("setup", "reset failed"); tp_pair_free(&s.p); return; }
	s.p.c.tx_key = 0x51; s.p.s.tx_key = 0x52; s.p.c.rx_key = 0x52; s.p.s.rx_key = 0x51;
	ctot = 100 + vf_below(&r, 3000); srv_target = 100 + vf_below(&r, 3000);
	io.s = &s; io.budget = -1; io.cut_hit = 0;
	if (cut) {
		/* dry run to learn how many bytes the server sends in total, then cut somewhere */
		io.budget = -1;
	}
	snprintf(tp_case, sizeof tp_case, "%s sslio idx=%ld suite=%s ver=%04x cut=%d c_total=%zu s_total=%zu", base, idx, s.si->name, s.version, cut, ctot, srv_target);
	br_sslio_init(&ioc, s.p.c.eng, io_read, &io, io_write, &io);
	if (cut) io.budget = (long)vf_below(&r, 6000);
	/* client writes its stream */
	while (sent < ctot) {
		size_t k = 1 + vf_below(&r, 200), i;
		int w;
		if (k > ctot - sent) k = ctot - sent;
		for (i = 0; i < k; i ++) buf[i] = tp_stream_byte(s.p.c.tx_key, sent + i);
		w = br_sslio_write_all(&ioc, buf, k);
		tp_check(&s.p.c, "br_sslio_write_all");
		if (w < 0) break;
		sent += k;
	}
	if (sent == ctot) { br_sslio_flush(&ioc); tp_check(&s.p.c, "br_sslio_flush"); }
	/* client reads until end of stream or error */
	for (;;) {
		size_t i;
		rdn = br_sslio_read(&ioc, buf, 1 + vf_below(&r, sizeof buf - 1));
		tp_check(&s.p.c, "br_sslio_read");
		if (rdn <= 0) break;
		for (i = 0; i < (size_t)rdn; i ++) {
			if (buf[i] != tp_stream_byte(s.p.c.rx_key, got + i)) { TP_VIOL("sslio:wrong-byte", "br_sslio_read returned bytes that the server did not write at that position"); break; }
		}
		got += (size_t)rdn;
		if (got >= srv_target && !cut) {
			/* orderly close by the client */
			int cr = br_sslio_close(&ioc);
			tp_check(&s.p.c, "br_sslio_close");
			vf_stat("sslio_close_calls", 1);
			if (cr != 1 || br_ssl_engine_last_error(s.p.c.eng) != 0) {
				snprintf(what, sizeof what, "br_sslio_close returned %d, last_error=%d on an orderly closure", cr, br_ssl_engine_last_error(s.p.c.eng));
				TP_VIOL("sslio:close-not-clean", what);
			}
			break;
		}
	}
	(void)total_s2c;
	vf_stat("sslio_cases", 1);
	if (cut && io.cut_hit) {
		vf_stat("sslio_cut_cases", 1);
		/* transport ended: the client must report an error distinguishable from orderly closure */
		if (br_ssl_engine_last_error(s.p.c.eng) == 0) {
			snprintf(what, sizeof what, "transport cut after %ld bytes: br_sslio_read returned %d but last_error is 0 (looks like a clean end-of-stream)", 0L, rdn);
			TP_VIOL("sslio:truncation-reported-as-clean-close", what);
		}
		if (got > srv_target) TP_VIOL("sslio:more-than-written", "read more than was written");
	} else if (!cut) {
		if (got != srv_target || sent != ctot) {
			snprintf(what, sizeof what, "sslio exchange incomplete: client wrote %zu/%zu read %zu/%zu err=%d", sent, ctot, got, srv_target, br_ssl_engine_last_error(s.p.c.eng));
			TP_VIOL("sslio:stream-incomplete", what);
		}
		server_app(&s);
		/* let the server finish reading */
		tp_settle(&s.p, 100000);
		if (s.p.s.rx_done != ctot) TP_VIOL("sslio:server-stream-incomplete", "server did not receive everything the client wrote through br_sslio_write_all");
	}
	vf_distinct("sslio_cfg", "%d/%04x/%d", s.si->enc, s.version, cut);
	tp_pair_free(&s.p);
}

/* ------------------------------------------------------------------ */
/* close_notify in an unprotected record (before any key), the record cut at every
 * position: the endpoint must stay coherent while the record is incomplete (tp_check
 * after every call: in particular it must keep offering an operation), and once the
 * whole record has arrived it must answer and close without error whatever the cut,
 * for every buffer layout */

static int
prealert_run(int role, int layout, const unsigned char *rec, size_t rl, size_t cut, int *err, size_t *emitted, int *stalled)
{
	tp_ep ep;
	tp_cfg c;
	tp_fifo in, sink;
	int closed, guard;
	memset(&ep, 0, sizeof ep);
	tp_cfg_default(&c, role);
	c.layout = layout;
	if (layout == TP_LAYOUT_MONO) c.buflen = BR_SSL_BUFSIZE_MONO;
	else if (layout == TP_LAYOUT_SPLIT1) c.buflen = BR_SSL_BUFSIZE_BIDI;
	else { c.buflen = BR_SSL_BUFSIZE_INPUT; c.buflen_out = BR_SSL_BUFSIZE_OUTPUT; }
	memset(c.seed, 0x19, 32);
	tp_fifo_init(&in); tp_fifo_init(&sink);
	*stalled = 0;
	if (!tp_ep_start(&ep, &c)) { TP_VIOL("setup", "reset failed"); return -1; }
	/* a client first emits its ClientHello */
	for (guard = 0; guard < 1000 && (br_ssl_engine_current_state(ep.eng) & BR_SSL_SENDREC); guard ++) tp_act_sendrec(&ep, &sink, 100000);
	sink.rd = sink.wr = 0;
	tp_fifo_put(&in, rec, cut);
	for (guard = 0; guard < 1000 && tp_fifo_len(&in) > 0; guard ++) {
		if (tp_act_recvrec(&ep, &in, 100000) == 0) {
			if (br_ssl_engine_current_state(ep.eng) & BR_SSL_SENDREC) tp_act_sendrec(&ep, &sink, 100000);
			else break;
		}
	}
	for (guard = 0; guard < 1000 && (br_ssl_engine_current_state(ep.eng) & BR_SSL_SENDREC); guard ++) tp_act_sendrec(&ep, &sink, 100000);
	/* the rest of the record */
	tp_fifo_put(&in, rec + cut, rl - cut);
	for (guard = 0; guard < 1000 && tp_fifo_len(&in) > 0 && !tp_ep_closed(&ep); guard ++) {
		if (tp_act_recvrec(&ep, &in, 100000) == 0) {
			if (br_ssl_engine_current_state(ep.eng) & BR_SSL_SENDREC) tp_act_sendrec(&ep, &sink, 100000);
			else { *stalled = 1; break; }
		}
	}
	for (guard = 0; guard < 1000 && (br_ssl_engine_current_state(ep.eng) & BR_SSL_SENDREC); guard ++) tp_act_sendrec(&ep, &sink, 100000);
	closed = tp_ep_closed(&ep);
	*err = br_ssl_engine_last_error(ep.eng);
	*emitted = tp_fifo_len(&sink);
	tp_fifo_free(&in); tp_fifo_free(&sink);
	tp_ep_free(&ep);
	return closed;
}

static void
prealert_case(long long seed, long idx)
{
	static const unsigned char tails[6][8] = {
		{ 0 }, { 1, 0 }, { 1, 0, 1, 0 }, { 1, 42 }, { 1, 42, 1, 0, 1, 90 }, { 0, 0, 0, 0, 0, 0, 0 }
	};
	static const size_t tail_len[6] = { 0, 2, 4, 2, 6, 7 };
	static const int benign[6] = { 1, 1, 1, 1, 1, 0 };
	int role = (int)(idx & 1), layout = (int)((idx >> 1) % 3), tk = (int)((idx / 6) % 6), lead = (int)((idx / 36) % 2);
	unsigned char rec[40];
	size_t rl = 5, cut;
	int ref_closed = -2, ref_err = 0, e, cl, stalled;
	size_t ref_emitted = 0, em;
	char what[240];
	(void)seed;
	rec[0] = 21; rec[1] = 3; rec[2] = 3;
	/* optionally a warning that is not close_notify comes first */
	if (lead) { rec[rl ++] = 1; rec[rl ++] = 41; }
	rec[rl ++] = 1; rec[rl ++] = 0;
	memcpy(rec + rl, tails[tk], tail_len[tk]); rl += tail_len[tk];
	rec[3] = 0; rec[4] = (unsigned char)(rl - 5);
	for (cut = rl; cut >= 1; cut --) {
		snprintf(tp_case, sizeof tp_case, "%s prealert idx=%ld role=%d layout=%d record=%s cut-after=%zu", base, idx, role, layout, vf_hexs(rec, rl), cut);
		cl = prealert_run(role, layout, rec, rl, cut, &e, &em, &stalled);
		vf_stat("prealert_runs", 1);
		if (cl < 0) return;
		if (cut == rl) {
			ref_closed = cl; ref_err = e; ref_emitted = em;
			if (benign[tk] && (!cl || e != 0)) {
				snprintf(what, sizeof what, "close_notify in an unprotected record delivered whole: closed=%d err=%d", cl, e);
				TP_VIOL("prealert:close-notify-not-honoured", what);
			}
			continue;
		}
		if (!benign[tk]) { vf_stat("prealert_unjudged_non_benign_tail", 1); continue; }
		if (stalled || cl != ref_closed || e != ref_err) {
			snprintf(what, sizeof what, "record cut after %zu of %zu bytes: closed=%d err=%d stalled=%d, delivered whole: closed=%d err=%d",
				cut, rl, cl, e, stalled, ref_closed, ref_err);
			TP_VIOL("prealert:outcome-depends-on-cut", what);
		} else {
			vf_stat("prealert_cuts_agree", 1);
		}
		(void)ref_emitted;
	}
	vf_distinct("prealert_cfg", "r%d/l%d/t%d/w%d", role, layout, tk, lead);
}

/* ------------------------------------------------------------------ */
/* br_sslio_* over a hostile transport: short reads and writes of any size, a hard
 * failure of the n-th read or write callback, either role under the wrapper (the peer
 * is a plain engine pumped from inside the callbacks), read / read_all / write /
 * write_all / flush / close mixed */

#include <setjmp.h>
static jmp_buf io2_escape;

typedef struct {
	tp_ep *me, *peer;
	tp_fifo *in, *out;          /* peer->me, me->peer */
	size_t peer_target;         /* bytes the peer application writes */
	vf_rng r;
	int short_io;
	long fail_read_at, fail_write_at;   /* callback call index (0-based) that fails; -1: never */
	long n_read, n_write;
	int failed;                 /* a callback has returned -1 (injected) */
	int eof;                    /* the transport had nothing more to deliver */
	long calls_after_failure;
} io2_ctx;

/* let the peer engine and its application make one step; returns 0 when it cannot move */
static int
io2_peer_step(io2_ctx *io)
{
	tp_ep *pe = io->peer;
	unsigned st = br_ssl_engine_current_state(pe->eng);
	size_t l;
	if (st & BR_SSL_CLOSED) return 0;
	if (st & BR_SSL_SENDREC) { tp_act_sendrec(pe, io->in, 100000); return 1; }
	if (st & BR_SSL_RECVAPP) { while (br_ssl_engine_recvapp_buf(pe->eng, &l)) tp_act_read(pe, l); return 1; }
	if ((st & BR_SSL_RECVREC) && tp_fifo_len(io->out) > 0) { br_ssl_engine_recvrec_buf(pe->eng, &l); tp_act_recvrec(pe, io->out, l); return 1; }
	if ((st & BR_SSL_SENDAPP) && pe->tx_done < io->peer_target) {
		br_ssl_engine_sendapp_buf(pe->eng, &l);
		if (l > io->peer_target - pe->tx_done) l = io->peer_target - pe->tx_done;
		if (io->short_io && l > 1) l = 1 + vf_below(&io->r, (uint32_t)l);
		tp_act_write(pe, l); tp_act_flush(pe, 0);
		return 1;
	}
	return 0;
}

static int
io2_read(void *ctx, unsigned char *data, size_t len)
{
	io2_ctx *io = ctx;
	int guard = 0;
	if (io->failed && ++ io->calls_after_failure > 200) longjmp(io2_escape, 1);   /* the wrapper keeps calling a dead transport */
	if (io->n_read ++ == io->fail_read_at) { io->failed = 1; return -1; }
	for (;;) {
		size_t k = tp_fifo_len(io->in);
		if (k > 0) {
			if (k > len) k = len;
			if (io->short_io && k > 1) k = 1 + vf_below(&io->r, (uint32_t)(k > 64 ? 64 : k));
			memcpy(data, io->in->data + io->in->rd, k);
			io->in->rd += k;
			return (int)k;
		}
		if (guard ++ > 200000 || !io2_peer_step(io)) { io->eof = 1; return -1; }
	}
}

static int
io2_write(void *ctx, const unsigned char *data, size_t len)
{
	io2_ctx *io = ctx;
	size_t k = len;
	if (io->failed && ++ io->calls_after_failure > 200) longjmp(io2_escape, 1);
	if (io->n_write ++ == io->fail_write_at) { io->failed = 1; return -1; }
	if (io->short_io && k > 1) k = 1 + vf_below(&io->r, (uint32_t)(k > 100 ? 100 : k));
	tp_fifo_put(io->out, data, k);
	return (int)k;
}

static void
sslio2_case(long long seed, long idx)
{
	sess s;
	io2_ctx io;
	br_sslio_context ioc;
	uint16_t sl[1];
	static unsigned char buf[4096];
	int role = (int)(idx & 1), fault = (int)((idx >> 1) % 5);   /* 0 none, 1 read fails, 2 write fails, 3 none + close while the peer still sends, 4 a write fails during the closure itself */
	size_t my_total, sent = 0, got = 0;
	int failed_seen = 0, op, guard = 0, rc = 0;
	char what[300];
	memset(&s, 0, sizeof s); memset(&io, 0, sizeof io);
	vf_rng_init(&io.r, (uint64_t)seed, (uint64_t)idx * 3 + 7);
	s.si = tp_suite_find(modes[(idx / 8) % NMODES]);
	s.version = s.si->tls12only ? 0x0303 : 0x0301 + (unsigned)(((idx / 8) / NMODES) % 3);
	tp_cfg_default(&s.cc, 0); tp_cfg_default(&s.sc, 1);
	sl[0] = s.si->id; s.cc.suites = sl; s.cc.nsuites = 1; s.cc.vmin = s.cc.vmax = s.version;
	s.sc.keykind = tp_key_for_suite(s.si, 0);
	s.cc.layout = (int)vf_below(&io.r, 3); s.sc.layout = (int)vf_below(&io.r, 3);
	{
		tp_cfg *cf[2] = { &s.cc, &s.sc };
		int q;
		for (q = 0; q < 2; q ++) {
			if (cf[q]->layout == TP_LAYOUT_MONO) cf[q]->buflen = BR_SSL_BUFSIZE_MONO;
			else if (cf[q]->layout == TP_LAYOUT_SPLIT1) cf[q]->buflen = BR_SSL_BUFSIZE_BIDI;
			else { cf[q]->buflen = BR_SSL_BUFSIZE_INPUT; cf[q]->buflen_out = BR_SSL_BUFSIZE_OUTPUT; }
		}
	}
	vf_bytes(&io.r, s.cc.seed, 32); vf_bytes(&io.r, s.sc.seed, 32);
	tp_pair_init(&s.p, 1, (uint64_t)idx, TP_CHUNK_WHOLE);
	if (!tp_ep_start(&s.p.c, &s.cc) || !tp_ep_start(&s.p.s, &s.sc)) { TP_VIOL("setup", "reset failed"); tp_pair_free(&s.p); return; }
	s.p.c.tx_key = 0x61; s.p.s.tx_key = 0x62; s.p.c.rx_key = 0x62; s.p.s.rx_key = 0x61;
	io.me = role == 0 ? &s.p.c : &s.p.s; io.peer = role == 0 ? &s.p.s : &s.p.c;
	io.in = role == 0 ? &s.p.s2c : &s.p.c2s; io.out = role == 0 ? &s.p.c2s : &s.p.s2c;
	/* with a shared buffer the wrapper cannot write while unread data is pending: keep the exchange
	   half-duplex there (peer speaks only after having received everything) */
	my_total = 50 + vf_below(&io.r, 6000);
	io.peer_target = 50 + vf_below(&io.r, 6000);
	io.short_io = (int)vf_below(&io.r, 3) != 0;
	io.fail_read_at = io.fail_write_at = -1;
	if (fault == 1) io.fail_read_at = (long)vf_below(&io.r, 40);
	if (fault == 2) io.fail_write_at = (long)vf_below(&io.r, 40);
	snprintf(tp_case, sizeof tp_case, "%s sslio2 idx=%ld role=%d suite=%s ver=%04x layouts=%d/%d fault=%d at=%ld/%ld short=%d my_total=%zu peer_total=%zu",
		base, idx, role, s.si->name, s.version, s.cc.layout, s.sc.layout, fault, io.fail_read_at, io.fail_write_at, io.short_io, my_total, io.peer_target);
	br_sslio_init(&ioc, io.me->eng, io2_read, &io, io2_write, &io);
	if (setjmp(io2_escape)) {
		TP_VIOL("sslio2:spins-on-failed-transport", "a br_sslio call kept invoking the transport callbacks (200 times) after one of them had reported failure");
		tp_pair_free(&s.p);
		return;
	}

	/* phase 1: write everything (write / write_all mixed), flush */
	while (sent < my_total && !failed_seen && guard ++ < 100000) {
		size_t k = 1 + vf_below(&io.r, 700), i;
		if (k > my_total - sent) k = my_total - sent;
		for (i = 0; i < k; i ++) buf[i] = tp_stream_byte(io.me->tx_key, sent + i);
		op = (int)vf_below(&io.r, 3);
		if (op == 0) {
			rc = br_sslio_write(&ioc, buf, k);
			tp_check(io.me, "br_sslio_write");
			vf_stat("sslio2_write_calls", 1);
			if (rc > 0) {
				if ((size_t)rc > k) { TP_VIOL("sslio2:write-returned-more-than-asked", "br_sslio_write returned more than len"); break; }
				sent += (size_t)rc;
			} else if (rc == 0) { TP_VIOL("sslio2:write-returned-zero", "br_sslio_write returned 0 for a non-empty buffer"); break; }
			else failed_seen = 1;
		} else {
			rc = br_sslio_write_all(&ioc, buf, k);
			tp_check(io.me, "br_sslio_write_all");
			vf_stat("sslio2_write_all_calls", 1);
			if (rc == 0) sent += k; else failed_seen = 1;
		}
		if (!failed_seen && vf_below(&io.r, 4) == 0) {
			rc = br_sslio_flush(&ioc);
			tp_check(io.me, "br_sslio_flush");
			if (rc != 0) failed_seen = 1;
		}
	}
	if (!failed_seen) {
		rc = br_sslio_flush(&ioc);
		tp_check(io.me, "br_sslio_flush");
		if (rc != 0) failed_seen = 1;
	}
	/* phase 2: read the peer's stream (read / read_all mixed) */
	guard = 0;
	while (!failed_seen && got < io.peer_target && guard ++ < 100000) {
		size_t k = 1 + vf_below(&io.r, 900), i;
		if (fault == 3 && got > io.peer_target / 3) break;
		if (vf_below(&io.r, 2)) {
			if (k > io.peer_target - got) k = io.peer_target - got;
			rc = br_sslio_read_all(&ioc, buf, k);
			tp_check(io.me, "br_sslio_read_all");
			vf_stat("sslio2_read_all_calls", 1);
			if (rc == 0) {
				for (i = 0; i < k; i ++) if (buf[i] != tp_stream_byte(io.me->rx_key, got + i)) { TP_VIOL("sslio2:wrong-byte", "br_sslio_read_all returned bytes the peer did not write at that position"); break; }
				got += k;
			} else failed_seen = 1;
		} else {
			rc = br_sslio_read(&ioc, buf, k);
			tp_check(io.me, "br_sslio_read");
			vf_stat("sslio2_read_calls", 1);
			if (rc > 0) {
				if ((size_t)rc > k) { TP_VIOL("sslio2:read-returned-more-than-asked", "br_sslio_read returned more than len"); break; }
				for (i = 0; i < (size_t)rc; i ++) if (buf[i] != tp_stream_byte(io.me->rx_key, got + i)) { TP_VIOL("sslio2:wrong-byte", "br_sslio_read returned bytes the peer did not write at that position"); break; }
				got += (size_t)rc;
			} else if (rc == 0) { TP_VIOL("sslio2:read-returned-zero", "br_sslio_read returned 0"); break; }
			else failed_seen = 1;
		}
	}
	vf_stat("sslio2_cases", 1);
	vf_distinct("sslio2_cfg", "r%d/e%d/%04x/f%d/l%d%d/s%d", role, s.si->enc, s.version, fault, s.cc.layout, s.sc.layout, io.short_io);
	if (failed_seen) {
		int e = br_ssl_engine_last_error(io.me->eng);
		/* an error return without an injected failure is not expected: both sides are honest, so the
		   transport only runs dry after the peer has sent everything and received everything */
		if (!io.failed && (!io.eof || br_ssl_engine_last_error(io.peer->eng) != 0 || got < io.peer_target || io.peer->rx_done < sent)) {
			snprintf(what, sizeof what, "a br_sslio call failed (rc=%d, last_error=%d, peer last_error=%d) although the transport never failed; sent=%zu/%zu (peer got %zu) got=%zu/%zu",
				rc, e, br_ssl_engine_last_error(io.peer->eng), sent, my_total, (size_t)io.peer->rx_done, got, io.peer_target);
			TP_VIOL("sslio2:failure-without-transport-failure", what);
		} else if (io.failed) {
			vf_stat("sslio2_injected_failures_reported", 1);
			if (e == 0) {
				snprintf(what, sizeof what, "transport callback failed (read#%ld/write#%ld) but last_error is 0 (looks like a clean closure)", io.fail_read_at, io.fail_write_at);
				TP_VIOL("sslio2:transport-failure-reported-as-clean", what);
			}
			/* sticky: every later call fails too and the transport is not touched again */
			{
				long before = io.n_read + io.n_write;
				int r1 = br_sslio_write_all(&ioc, buf, 10), r2 = br_sslio_read(&ioc, buf, 10), r3 = br_sslio_flush(&ioc);
				tp_check(io.me, "br_sslio_* after failure");
				if (r1 != -1 || r2 != -1 || r3 != -1) {
					snprintf(what, sizeof what, "after a transport failure: write_all=%d read=%d flush=%d (all must be -1)", r1, r2, r3);
					TP_VIOL("sslio2:calls-succeed-after-failure", what);
				}
				if (io.n_read + io.n_write != before) TP_VIOL("sslio2:transport-used-after-failure", "a transport callback was invoked after the engine had failed");
			}
		}
	} else {
		/* everything written must reach the peer application, in order (checked at each read by tp_act_read) */
		int cr;
		if (fault == 3) vf_stat("sslio2_close_while_peer_sends", 1);
		if (fault == 4) {
			/* a last unflushed piece, then the transport dies while br_sslio_close is pushing it out */
			size_t k = 1 + vf_below(&io.r, 200), i;
			for (i = 0; i < k; i ++) buf[i] = tp_stream_byte(io.me->tx_key, sent + i);
			if (br_sslio_write_all(&ioc, buf, k) == 0) { sent += k; my_total += k; }
			io.fail_write_at = io.n_write + (long)vf_below(&io.r, 3);
		}
		cr = br_sslio_close(&ioc);
		tp_check(io.me, "br_sslio_close");
		vf_stat("sslio2_close_calls", 1);
		/* let the peer finish */
		for (guard = 0; guard < 100000 && io2_peer_step(&io); guard ++);
		if (cr != (br_ssl_engine_last_error(io.me->eng) == 0)) {
			snprintf(what, sizeof what, "br_sslio_close returned %d but last_error=%d", cr, br_ssl_engine_last_error(io.me->eng));
			TP_VIOL("sslio2:close-return-inconsistent", what);
		}
		if (io.failed) {
			/* the injected failure hit during the closure itself: an error is a correct report (a clean
			   result is correct too when the peer's close_notify had already arrived) */
			vf_stat("sslio2_failure_during_close", 1);
			if (!io.me->eng->shutdown_recv && (cr != 0 || br_ssl_engine_last_error(io.me->eng) == 0)) {
				/* the peer's close_notify never arrived: whatever was still to be sent (data, our close_notify) is lost */
				snprintf(what, sizeof what, "transport callback failed during br_sslio_close (read#%ld/write#%ld) before the peer's close_notify was received, but close returned %d with last_error=%d",
					io.fail_read_at, io.fail_write_at, cr, br_ssl_engine_last_error(io.me->eng));
				TP_VIOL("sslio2:transport-failure-reported-as-clean", what);
			}
		} else if (cr != 1 || br_ssl_engine_last_error(io.me->eng) != 0) {
			snprintf(what, sizeof what, "br_sslio_close returned %d, last_error=%d on an orderly closure (got=%zu/%zu)", cr, br_ssl_engine_last_error(io.me->eng), got, io.peer_target);
			TP_VIOL("sslio2:close-not-clean", what);
		}
		if (io.failed) {
			/* the transport died during the closure: delivery of the tail is not expected (the error is, see above);
			   what did arrive is still checked byte by byte by the peer's reads */
			if (io.peer->rx_bad) TP_VIOL("sslio2:wrong-byte", "peer received bytes that were not written at that position");
		} else if (io.peer->rx_done != my_total || io.peer->rx_bad) {
			snprintf(what, sizeof what, "peer application received %zu of the %zu bytes written through br_sslio (flushed and closed)", (size_t)io.peer->rx_done, my_total);
			TP_VIOL("sslio2:stream-incomplete", what);
		} else {
			vf_stat("sslio2_streams_exact", 1);
		}
		if (fault != 3 && !io.failed && got != io.peer_target) TP_VIOL("sslio2:read-incomplete", "did not read everything the peer wrote");
	}
	tp_pair_free(&s.p);
}

/* ------------------------------------------------------------------ */
/*
 * One context used for several connections (br_ssl_client_reset / br_ssl_server_reset), the previous one having
 * ended in every way a connection can end.  Whatever happened before, the next connection behaves as on a fresh
 * context: handshake, exact streams, orderly closure with one close_notify per side and no other alert, error 0.
 */
static void
feed_raw(tp_ep *V, const unsigned char *rec, size_t rl)
{
	size_t fed = 0;
	int guard = 0;
	while (guard ++ < 1000 && fed < rl && !tp_ep_closed(V)) {
		size_t l; unsigned char *b = br_ssl_engine_recvrec_buf(V->eng, &l);
		if (b == NULL) {
			if (br_ssl_engine_recvapp_buf(V->eng, &l)) { tp_act_read(V, l); continue; }
			if (br_ssl_engine_current_state(V->eng) & BR_SSL_SENDREC) { tp_fifo tmp; tp_fifo_init(&tmp); tp_act_sendrec(V, &tmp, 100000); tp_fifo_free(&tmp); continue; }
			break;
		}
		if (l > rl - fed) l = rl - fed;
		memcpy(b, rec + fed, l); fed += l;
		br_ssl_engine_recvrec_ack(V->eng, l);
		tp_calls ++; tp_check(V, "recvrec_ack");
	}
}

static void
reuse_case(long long seed, long idx)
{
	static const char *const endn[10] = { "closed-by-it", "closed-by-peer", "fatal-alert-received", "lone-alert-level-byte", "cut-in-mid-record",
		"bad-mac-received", "refused-by-peer-in-handshake", "closing-never-answered", "abandoned-in-mid-handshake", "abandoned-in-mid-renegotiation" };
	vf_rng r;
	int vrole = (int)(idx & 1), k, ends[3];
	tp_pair p;
	tm_pairmon pm;
	tp_cfg cc, sc;
	uint16_t sl[1];
	char what[300];
	const tp_suite_info *si = tp_suite_find(modes[(idx / 2) % NMODES]);
	unsigned version = si->tls12only ? 0x0303 : 0x0301 + (unsigned)(((idx / 2) / NMODES) % 3);
	int layout = (int)((idx / 2) % 3);

	vf_rng_init(&r, (uint64_t)seed, (uint64_t)idx * 3 + 9);
	ends[0] = (int)((idx / 2) % 10); ends[1] = (int)((idx / 20 + idx / 2) % 10); ends[2] = (int)(idx & 1);
	tp_pair_init(&p, (uint64_t)seed, (uint64_t)idx, TP_CHUNK_WHOLE);
	memset(&pm, 0, sizeof pm);
	for (k = 0; k < 3; k ++) {
		tp_ep *V, *O;
		int dirV;       /* direction of records going to the victim */
		int e = ends[k], refuse = (e == 6);
		uint16_t other[1];
		tp_cfg_default(&cc, 0); tp_cfg_default(&sc, 1);
		cc.layout = sc.layout = layout;
		cc.buflen = sc.buflen = layout == TP_LAYOUT_MONO ? BR_SSL_BUFSIZE_MONO : (layout == TP_LAYOUT_SPLIT1 ? BR_SSL_BUFSIZE_BIDI : BR_SSL_BUFSIZE_INPUT);
		cc.buflen_out = sc.buflen_out = BR_SSL_BUFSIZE_OUTPUT;
		sl[0] = si->id; cc.suites = sl; cc.nsuites = 1; cc.vmin = cc.vmax = version;
		sc.keykind = tp_key_for_suite(si, 0);
		if (refuse) {
			/* the peer has nothing in common with the victim: a client offering another suite / a server limited to it */
			other[0] = si->id == 0x002F ? 0x0035 : 0x002F;
			if (vrole == 0) { sc.suites = other; sc.nsuites = 1; sc.keykind = TP_KEY_RSA; }
			else { cc.suites = other; cc.nsuites = 1; cc.vmin = 0x0301; cc.vmax = 0x0303; sc.suites = sl; sc.nsuites = 1; }
		}
		if (vrole == 0) cc.reuse_ctx = k > 0; else sc.reuse_ctx = k > 0;
		vf_bytes(&r, cc.seed, 32); vf_bytes(&r, sc.seed, 32);
		V = vrole == 0 ? &p.c : &p.s; O = vrole == 0 ? &p.s : &p.c; dirV = vrole == 0 ? 1 : 0;
		tp_ep_free(O);
		p.c2s.rd = p.c2s.wr = 0; p.s2c.rd = p.s2c.wr = 0;
		if (k > 0) rm_free(&pm.m.rm);
		memset(&pm, 0, sizeof pm);
		tm_pair_attach(&pm, &p);
		pm.m.rec_hook = ver_hook;
		snprintf(tp_case, sizeof tp_case, "%s reuse idx=%ld role=%s suite=%s ver=%04x layout=%d connection=%d previous-ended=%s this-ends=%s", base, idx,
			vrole ? "server" : "client", si->name, version, layout, k + 1, k ? endn[ends[k - 1]] : "-", endn[e]);
		if (!tp_ep_start(&p.c, &cc) || !tp_ep_start(&p.s, &sc)) { TP_VIOL("reuse:reset-failed", "reset of a used context failed"); break; }
		p.c.tx_key = pm.m.key[0]; p.c.rx_key = pm.m.key[1]; p.s.tx_key = pm.m.key[1]; p.s.rx_key = pm.m.key[0];
		vf_stat("reuse_connections", 1);
		if (k > 0) vf_distinct("reuse_after", "%s/%s/l%d", vrole ? "server" : "client", endn[ends[k - 1]], layout);
		if (refuse) {
			tp_handshake(&p, 1000000);
			tp_settle(&p, 100000);
			if (tp_ep_ready(V)) { TP_VIOL("reuse:setup", "handshake with a peer that has no common suite completed"); break; }
			continue;
		}
		if (e == 8) {
			long q;
			for (q = 0; q < 6; q ++) if (!tp_pump_step(&p)) break;
			if (tp_ep_ready(V)) vf_stat("reuse_midhandshake_already_done", 1);
			continue;
		}
		if (!tp_handshake(&p, 2000000)) {
			snprintf(what, sizeof what, "handshake on a context whose previous connection ended (%s) failed: client err=%d server err=%d",
				k ? endn[ends[k - 1]] : "-", br_ssl_engine_last_error(p.c.eng), br_ssl_engine_last_error(p.s.eng));
			TP_VIOL("reuse:handshake-failed", what);
			break;
		}
		{
			size_t c1 = 50 + vf_below(&r, 700), s1 = 50 + vf_below(&r, 700);
			if (!tp_run_data(&p, c1, s1, TP_W_MIXED, 2000000)) { TP_VIOL("reuse:data-failed", "data exchange on a reused context failed"); break; }
			tp_settle(&p, 100000);
			if (e <= 1 || k == 2) {
				/* orderly end, judged in full */
				tp_run_close(&p, e == 0 ? vrole : 1 - vrole, 1000000);
				if (!tp_ep_closed(&p.c) || !tp_ep_closed(&p.s) || br_ssl_engine_last_error(p.c.eng) || br_ssl_engine_last_error(p.s.eng)) {
					snprintf(what, sizeof what, "orderly closure on a reused context: client closed=%d err=%d, server closed=%d err=%d (previous connection: %s)",
						tp_ep_closed(&p.c), br_ssl_engine_last_error(p.c.eng), tp_ep_closed(&p.s), br_ssl_engine_last_error(p.s.eng), k ? endn[ends[k - 1]] : "-");
					TP_VIOL("reuse:closure-not-clean", what);
					break;
				}
				if (count_alerts(&pm.m.rm, 0, 1, 0) != 1 || count_alerts(&pm.m.rm, 1, 1, 0) != 1 || pm.m.rm.n_alerts[0] != 1 || pm.m.rm.n_alerts[1] != 1) {
					TP_VIOL("reuse:close-notify-count", "not exactly one close_notify per direction on a reused context");
					break;
				}
				tm_verdict(&pm.m, 1, c1, s1);
				vf_stat("reuse_clean_connections", 1);
				continue;
			}
		}
		/* abnormal ends, seen from the victim */
		{
			rm_cipher cs = pm.m.rm.cs[dirV];
			rm_forge_opts fo;
			unsigned char pl[64], rec[400];
			size_t rl;
			rm_forge_defaults(&fo);
			switch (e) {
			case 2:  /* fatal alert */
				pl[0] = 2; pl[1] = (unsigned char)(20 + vf_below(&r, 60));
				rl = rm_seal(&cs, 21, pl, 2, &fo, &r, 1, rec);
				feed_raw(V, rec, rl);
				if (!tp_ep_closed(V) || br_ssl_engine_last_error(V->eng) != BR_ERR_RECV_FATAL_ALERT + pl[1]) TP_VIOL("alert:fatal-alert-not-reported", "fatal alert on a reused context not reported");
				break;
			case 3:  /* the level byte of an alert, then silence */
				pl[0] = (unsigned char)(1 + vf_below(&r, 2));
				rl = rm_seal(&cs, 21, pl, 1, &fo, &r, 1, rec);
				feed_raw(V, rec, rl);
				break;
			case 4:  /* half of a data record */
				memset(pl, 0x33, 40);
				rl = rm_seal(&cs, 23, pl, 40, &fo, &r, 1, rec);
				feed_raw(V, rec, rl / 2);
				break;
			case 5:  /* a record that does not authenticate */
				memset(pl, 0x44, 40);
				rl = rm_seal(&cs, 23, pl, 40, &fo, &r, 1, rec);
				rec[rl - 1] ^= 1;
				feed_raw(V, rec, rl);
				if (!tp_ep_closed(V) || br_ssl_engine_last_error(V->eng) == 0) TP_VIOL("reuse:setup", "bad record not refused");
				break;
			case 7:  /* closure requested, the peer never answers */
				tp_act_write(V, 30);
				tp_act_close(V);
				{ tp_fifo tmp; tp_fifo_init(&tmp); while (!tp_ep_closed(V) && (br_ssl_engine_current_state(V->eng) & BR_SSL_SENDREC)) tp_act_sendrec(V, &tmp, 100000); tp_fifo_free(&tmp); }
				break;
			default: /* 9: renegotiation started, first flight out, then silence */
				if (tp_act_reneg(V)) { long q; for (q = 0; q < 3; q ++) if (!tp_pump_step(&p)) break; }
				break;
			}
			vf_stat("reuse_abnormal_ends", 1);
		}
	}
	rm_free(&pm.m.rm);
	tp_pair_free(&p);
}

int
main(int argc, char **argv)
{
	long long seed = vf_argi(argc, argv, "--seed", 1);
	int worker = (int)vf_argi(argc, argv, "--worker", 0);
	int nworkers = (int)vf_argi(argc, argv, "--nworkers", 1);
	const char *mode = vf_arg(argc, argv, "--mode", "close");
	long ncases = (long)vf_argi(argc, argv, "--cases", 100);
	int stride = (int)vf_argi(argc, argv, "--stride", 1);
	long only = (long)vf_argi(argc, argv, "--only", -1);
	long idx;

	tp_prop = "C19";
	snprintf(base, sizeof base, "seed=%lld", seed);
	for (idx = worker; idx < ncases; idx += nworkers) {
		if (only >= 0 && idx != only) continue;
		if (!strcmp(mode, "close")) close_case(seed, idx);
		else if (!strcmp(mode, "cut")) cut_case(seed, idx, stride);
		else if (!strcmp(mode, "alert")) alert_cases(seed, idx, stride);
		else if (!strcmp(mode, "reneg")) reneg_case(seed, idx);
		else if (!strcmp(mode, "sslio")) sslio_case(seed, idx);
		else if (!strcmp(mode, "decline")) decline_case(seed, idx);
		else if (!strcmp(mode, "prealert")) prealert_case(seed, idx);
		else if (!strcmp(mode, "sslio2")) sslio2_case(seed, idx);
		else if (!strcmp(mode, "reuse")) reuse_case(seed, idx);
		else if (!strcmp(mode, "roguehello")) rogue_hello_case(seed, idx);
		vf_stat("cases", 1);
	}
	vf_stat("monitored_calls", tp_calls);
	vf_sample("{\"mode\":\"%s\",\"cases\":%ld,\"last\":\"%s\"}", mode, ncases, tp_case);
	vf_done();
	return 0;
}
