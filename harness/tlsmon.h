/* glue between tlspair (E1) and recmon (E2): wire tap + stream comparison */
#ifndef TLSMON_H__
#define TLSMON_H__
#include "tlspair.h"
#include "recmon.h"

static int
tm_suite_info(unsigned suite, int *enc, int *mac, int *prf)
{
	const tp_suite_info *s = tp_suite_find((uint16_t)suite);
	if (!s) return 0;
	*enc = s->enc; *mac = s->mac; *prf = s->prf;
	return 1;
}

typedef struct {
	rm_state rm;
	uint64_t key[2];        /* stream keys per direction (0 = client to server) */
	size_t app_pos[2];
	int app_bad;
	int check_app;          /* compare wire plaintext with the position-coded stream */
	size_t max_plain[2];
	size_t max_plain_prot[2];
	/* optional per-record hook */
	void (*rec_hook)(void *arg, const rm_record *r, const unsigned char *plain);
	void *rec_hook_arg;
} tm_mon;

static void
tm_on_app(void *arg, int dir, const unsigned char *data, size_t len)
{
	tm_mon *m = arg;
	size_t i;
	if (m->check_app) {
		for (i = 0; i < len; i ++) {
			if (data[i] != tp_stream_byte(m->key[dir], m->app_pos[dir] + i)) {
				if (!m->app_bad) TP_VIOL("recmon:wire-plaintext-differs", "application plaintext on the wire differs from what was written");
				m->app_bad = 1;
				break;
			}
		}
	}
	m->app_pos[dir] += len;
}

static void
tm_on_record(void *arg, const rm_record *r, const unsigned char *plain)
{
	tm_mon *m = arg;
	if (r->plain_len > m->max_plain[r->dir]) m->max_plain[r->dir] = r->plain_len;
	if (r->protected_ && r->plain_len > m->max_plain_prot[r->dir]) m->max_plain_prot[r->dir] = r->plain_len;
	if (m->rec_hook) m->rec_hook(m->rec_hook_arg, r, plain);
}

static void
tm_tap(void *arg, int dir, const unsigned char *data, size_t len)
{
	tm_mon *m = arg;
	rm_feed(&m->rm, dir, data, len);
}

/* get_master is supplied by the harness (depends on the peer kinds) */
static void
tm_init(tm_mon *m, int (*get_master)(void *, int, unsigned char *), void *cb_arg)
{
	memset(m, 0, sizeof *m);
	rm_init(&m->rm);
	m->rm.get_master = get_master;
	m->rm.on_app = tm_on_app;
	m->rm.on_record = tm_on_record;
	m->rm.cb_arg = cb_arg;
	m->rm.suite_info = tm_suite_info;
	m->check_app = 1;
}

/* standard get_master for a BearSSL<->BearSSL pair: cb_arg must start with {tm_mon, tp_pair*} */
typedef struct { tm_mon m; tp_pair *pair; } tm_pairmon;

static int
tm_pair_master(void *arg, int dir, unsigned char *out48)
{
	tm_pairmon *pm = arg;
	br_ssl_session_parameters sp;
	br_ssl_engine_get_session_parameters(dir == 0 ? pm->pair->c.eng : pm->pair->s.eng, &sp);
	memcpy(out48, sp.master_secret, 48);
	return 1;
}

static void
tm_pair_attach(tm_pairmon *pm, tp_pair *p)
{
	tm_init(&pm->m, tm_pair_master, pm);
	pm->pair = p;
	p->tap = tm_tap;
	p->tap_arg = &pm->m;
	pm->m.key[0] = p->c.tx_key;
	pm->m.key[1] = p->s.tx_key;
}

/* final verdicts of the independent decoder; returns 1 if clean */
static int
tm_verdict(tm_mon *m, int expect_lengths, size_t c_total, size_t s_total)
{
	rm_drain(&m->rm, 0); rm_drain(&m->rm, 1);
	if (m->rm.failed) {
		char what[260];
		snprintf(what, sizeof what, "independent record decoder: %s", m->rm.fail_what);
		TP_VIOL("recmon:record-rejected", what);
		return 0;
	}
	if (expect_lengths) {
		if (m->app_pos[0] != c_total || m->app_pos[1] != s_total) {
			TP_VIOL("recmon:wire-plaintext-length", "application plaintext decoded from the wire has another length than what was written");
			return 0;
		}
		if (m->rm.acc_len[0] != 0 || m->rm.acc_len[1] != 0) {
			TP_VIOL("recmon:trailing-bytes", "incomplete record left on the wire after close");
			return 0;
		}
	}
	if (m->max_plain[0] > 16384 || m->max_plain[1] > 16384) {
		TP_VIOL("recmon:record-too-long", "record plaintext above 16384 bytes");
		return 0;
	}
	return 1;
}
#endif
