/*
 * C17 (part 2): session resumption on real engines. A BearSSL server with
 * br_ssl_session_cache_lru (store in an exact-size malloc block) serves a
 * sequence of connections from up to four client contexts; the harness keeps
 * the reference LRU model of the cache (lrumodel.h) in step with what the
 * server is documented to do (lookup of an offered 32-byte ID at the
 * ClientHello, save at the end of a full handshake, forget / flush by the
 * scenario) and predicts for every connection
 *
 *   abbreviated  <=>  the client offers an ID (reset with resume != 0, not
 *                     forgotten, stored ID non-empty)
 *                 and the cache still holds it per the model
 *                 and the remembered suite is in the client's and the server's list
 *                 and the remembered version <= client max and within the server's range
 *
 * "Abbreviated" is observed on the wire by the independent record decoder (no
 * Certificate message, ServerHello echoes the offered ID) and by the
 * validator wrapper not being called; both observations must agree.
 * Abbreviated: master secret equal to the remembered one on both sides,
 * version and suite as remembered, both hello randoms different from every
 * earlier connection of the scenario, first protected record of each
 * direction different from every earlier one, application streams delivered
 * exactly (stream oracle, every record authenticated by recmon with keys
 * derived from the master secret and the new randoms), clean close.
 * Full: validator consulted once with verdict 0, new session ID, new master
 * secret, data flows.
 */
#include "tlsmon.h"
#include "lrumodel.h"

#define NCL 4
#define MAXS 24

typedef struct { unsigned char id[32]; unsigned version, suite; unsigned char ms[48]; } sess_rec;
typedef struct { uint16_t cs[16]; size_t ncs; unsigned vmin, vmax; } side_cfg;

enum { EXP_FULL = 0, EXP_ABBR = 1, EXP_FAIL = 2, EXP_UNJUDGED = 3, EXP_NOT_ABBR = 4 };

static struct {
	tp_pair P;
	tm_pairmon pm;
	tp_ep cl[NCL];
	br_ssl_session_cache_lru *lru;
	unsigned char *blk, *store;
	size_t store_len;
	int cap, cache_on;
	lm_model mT, mR;
	int aliveT, aliveR;
	sess_rec known[64];
	int nknown;
	int keykind;
	/* everything seen on the wire so far in this scenario */
	unsigned char crs[MAXS][32], srs[MAXS][32];
	unsigned char fp[MAXS][2][320];
	size_t fplen[MAXS][2];
	int nsess;
	/* raw capture of the running connection */
	unsigned char *raw[2];
	size_t raw_len[2], raw_cap[2];
	vf_rng r;
	long long seed;
	long idx;
	int var;
	int mismatch;            /* the two sides remember another suite / version under the offered ID (tampering) */
	char steps[600];
} G;

static long long n_sessions, n_abbr, n_full, n_failed_expected, n_unjudged, n_ambiguous;
static long long n_cmp_ms, n_cmp_rand, n_cmp_first, n_data, n_cmp_kind, n_wire_agree, n_model_loads, n_model_saves;
static long long n_mismatch, n_mismatch_failed, n_mismatch_full, n_mismatch_nohit, n_store_tampered;
static long long n_aborted, n_aborted_lookup, n_aborted_cut[3], n_aborted_early;

#define RV(mon, what)  do { char k_[160]; snprintf(k_, sizeof k_, "resume:%s", (mon)); TP_VIOL(k_, (what)); } while (0)

/* ------------------------------------------------------------------ */

static void
tap(void *arg, int dir, const unsigned char *data, size_t len)
{
	(void)arg;
	rm_append_(&G.raw[dir], &G.raw_len[dir], &G.raw_cap[dir], data, len);
	tm_tap(&G.pm.m, dir, data, len);
}

/* first record after the (plaintext) ChangeCipherSpec of this direction */
static size_t
first_protected(int dir, unsigned char *out, size_t max)
{
	const unsigned char *a = G.raw[dir];
	size_t al = G.raw_len[dir], off = 0;
	int after = 0;
	while (off + 5 <= al) {
		size_t rl = 5 + (((size_t)a[off + 3] << 8) | a[off + 4]);
		if (off + rl > al) break;
		if (after) {
			size_t n = rl < max ? rl : max;
			memcpy(out, a + off, n);
			return n;
		}
		if (a[off] == 20) after = 1;
		off += rl;
	}
	return 0;
}

static int
in_list(const side_cfg *c, unsigned suite)
{
	size_t i;
	for (i = 0; i < c->ncs; i ++) if (c->cs[i] == suite) return 1;
	return 0;
}

static int
find_known(const unsigned char *id)
{
	int i;
	for (i = 0; i < G.nknown; i ++) if (memcmp(G.known[i].id, id, 32) == 0) return i;
	return -1;
}

/* ------------------------------------------------------------------ */
/* client-side preparation just before br_ssl_client_reset */

typedef struct {
	int set_params;                    /* install these parameters (import / tampering) */
	br_ssl_session_parameters params;
	int forget;                        /* br_ssl_client_forget_session */
} prep;

static void
client_pre_reset(void *epv, void *arg)
{
	tp_ep *ep = epv;
	prep *p = arg;
	if (p->set_params) {
		br_ssl_session_parameters *pp = vf_dup(&p->params, sizeof p->params);
		br_ssl_engine_set_session_parameters(ep->eng, pp);
		free(pp);
	}
	if (p->forget) br_ssl_client_forget_session(ep->cc);
}

static void
mk_cfg(tp_cfg *c, int role, const side_cfg *sc)
{
	tp_cfg_default(c, role);
	c->suites = sc->cs; c->nsuites = sc->ncs;
	c->vmin = sc->vmin; c->vmax = sc->vmax;
	c->keykind = G.keykind;
	vf_bytes(&G.r, c->seed, 32);
	if (role == 1 && G.cache_on) c->cache = &G.lru->vtable;
}

/*
 * One connection of client j. offer_id/offer_len: what the client is
 * documented to offer (length 0: nothing). resume: second argument of
 * br_ssl_client_reset. fresh_server: a new server context sharing the cache.
 * expect_fail: the scenario made completion impossible (wrong master secret).
 * Returns the index in G.known of the session now current on client j, or -1.
 */
static int
run_session(int j, const side_cfg *C, const side_cfg *S, int resume, prep *pr,
	const unsigned char *offer_id, size_t offer_len, int fresh_server, int expect_fail,
	const char *label)
{
	tp_cfg cc, sv;
	int exp = EXP_FULL, expT = EXP_FULL, expR = EXP_FULL, ambiguous = 0;
	const char *why = "id-not-offered";
	const sess_rec *rem = NULL;
	int mid = -1, completed, seen11 = 0, i, abbr_wire, validator_called, observed, ret = -1;
	int v_before, e_before;
	rm_state *rm;
	br_ssl_session_parameters pc, ps;
	size_t c_total, s_total;
	int si = G.nsess;
	size_t sl = strlen(G.steps);

	snprintf(G.steps + sl, sizeof G.steps - sl, " %s(c%d)", label, j);
	snprintf(tp_case, sizeof tp_case, "seed=%lld idx=%ld var=%d key=%d store_len=%zu cache=%d steps=%s | C{v%04x-%04x n=%zu first=%04x} S{v%04x-%04x n=%zu first=%04x} offer_len=%zu offer=%s",
		G.seed, G.idx, G.var, G.keykind, G.store_len, G.cache_on, G.steps,
		C->vmin, C->vmax, C->ncs, C->cs[0], S->vmin, S->vmax, S->ncs, S->cs[0],
		offer_len, offer_len ? vf_hexs(offer_id, offer_len) : "-");
	if (si >= MAXS) { fprintf(stderr, "HARNESS_ASSERT too-many-sessions\n"); exit(2); }

	/* ---- prediction (model step: the server looks the offered 32-byte ID up) ---- */
	if (offer_len > 0) why = "cache-miss";
	if (offer_len == 32 && G.cache_on) {
		uint32_t s;
		int hT, hR, eh = EXP_FULL;
		const char *why_held = "cache-miss";
		mid = find_known(offer_id);
		hT = lm_load(&G.mT, mid, &s);
		hR = lm_load(&G.mR, mid, &s);
		n_model_loads ++;
		if (mid >= 0) {
			/* what holds if the cache still has the entry */
			rem = &G.known[mid];
			if (!in_list(C, rem->suite)) why_held = "suite-not-in-client-list";
			else if (!in_list(S, rem->suite)) why_held = "suite-not-in-server-list";
			else if (rem->version > C->vmax) why_held = "version-above-client-max";
			else if (rem->version < S->vmin || rem->version > S->vmax) why_held = "version-outside-server-range";
			else if (rem->version < C->vmin) eh = EXP_UNJUDGED;   /* the server cannot know the client's minimum */
			else eh = EXP_ABBR;
		}
		expT = hT ? eh : EXP_FULL;
		expR = hR ? eh : EXP_FULL;
		if (G.aliveT && G.aliveR && expT != expR) { ambiguous = 1; n_ambiguous ++; }
		exp = G.aliveT ? expT : expR;
		if (G.aliveT ? hT : hR) why = why_held;
	}
	if (expect_fail && exp == EXP_ABBR) exp = EXP_FAIL;
	if (G.mismatch) {
		/* the server would resume (it holds the ID, its remembered suite and version are acceptable to both sides),
		   but the client remembers another suite or version under that ID: a full handshake or a failure, never
		   an abbreviated handshake */
		n_mismatch ++;
		if (exp == EXP_ABBR && !ambiguous) exp = EXP_NOT_ABBR; else n_mismatch_nohit ++;
	}

	/* ---- run ---- */
	mk_cfg(&cc, 0, C);
	mk_cfg(&sv, 1, S);
	cc.resume = resume;
	cc.reuse_ctx = 1;                 /* re-used when the context exists */
	cc.pre_reset = client_pre_reset; cc.pre_reset_arg = pr;
	sv.reuse_ctx = !fresh_server;
	G.P.c = G.cl[j];
	memset(&G.cl[j], 0, sizeof G.cl[j]);
	G.P.c2s.rd = G.P.c2s.wr = 0; G.P.s2c.rd = G.P.s2c.wr = 0;
	G.raw_len[0] = G.raw_len[1] = 0;
	tm_pair_attach(&G.pm, &G.P);
	G.P.tap = tap; G.P.tap_arg = NULL;
	rm = &G.pm.m.rm;
	v_before = G.P.c.xw ? G.P.c.xw->n_start_chain : 0;
	e_before = G.P.c.xw ? G.P.c.xw->n_end_chain : 0;
	if (!tp_ep_start(&G.P.c, &cc) || !tp_ep_start(&G.P.s, &sv)) {
		RV("reset-failed", "reset returned 0 with a valid configuration");
		goto out;
	}
	G.P.c.tx_key = G.pm.m.key[0] = vf_u64(&G.r);
	G.P.s.tx_key = G.pm.m.key[1] = vf_u64(&G.r);
	G.P.c.rx_key = G.pm.m.key[1]; G.P.s.rx_key = G.pm.m.key[0];

	completed = tp_handshake(&G.P, 2000000);
	n_sessions ++;
	vf_stat("cases", 1);
	for (i = 0; i < rm->n_hs[1]; i ++) if (rm->hs_types[1][i] == 11) seen11 = 1;
	validator_called = G.P.c.xw->n_start_chain != v_before || G.P.c.xw->n_end_chain != e_before;
	abbr_wire = completed && !seen11 && rm->n_sh == 1 && rm->session_id_len > 0
		&& rm->session_id_len == rm->ch_session_id_len
		&& memcmp(rm->session_id, rm->ch_session_id, rm->session_id_len) == 0;

	if (!completed) {
		char what[200];
		observed = EXP_FAIL;
		snprintf(what, sizeof what, "handshake did not complete (expected %s): client err=%d server err=%d",
			exp == EXP_ABBR ? "abbreviated" : "full",
			br_ssl_engine_last_error(G.P.c.eng), br_ssl_engine_last_error(G.P.s.eng));
		if (exp == EXP_FAIL) { n_failed_expected ++; }
		else if (exp == EXP_NOT_ABBR) { n_failed_expected ++; n_mismatch_failed ++; }
		else if (exp == EXP_UNJUDGED || (ambiguous && (expT == EXP_UNJUDGED || expR == EXP_UNJUDGED))) { n_unjudged ++; }
		else RV("handshake-failed", what);
		goto out;
	}
	/* the two observations of "abbreviated" must agree */
	n_wire_agree ++;
	if (abbr_wire == validator_called) {
		RV("wire-validator-disagree", abbr_wire
			? "abbreviated flight on the wire but the X.509 validator was called"
			: "client became ready with a full flight on the wire although the validator was not called / no echoed ID");
		goto out;
	}
	observed = abbr_wire ? EXP_ABBR : EXP_FULL;
	br_ssl_engine_get_session_parameters(G.P.c.eng, &pc);
	br_ssl_engine_get_session_parameters(G.P.s.eng, &ps);

	/* ---- judge the kind of handshake ---- */
	if (exp == EXP_FAIL) {
		RV("completed-with-wrong-master-secret", "handshake completed although the client's remembered master secret was altered");
		goto out;
	}
	if (exp == EXP_NOT_ABBR) {
		n_cmp_kind ++;
		if (observed == EXP_ABBR) {
			char what[260];
			snprintf(what, sizeof what, "abbreviated handshake completed although the two sides remember different parameters under the offered ID: client now suite %04x version %04x, server now suite %04x version %04x",
				pc.cipher_suite, pc.version, ps.cipher_suite, ps.version);
			RV("abbreviated-with-mismatched-memory", what);
			goto out;
		}
		n_mismatch_full ++;
		exp = EXP_FULL;
	}
	if (ambiguous) {
		/* forget made the two refinements differ: the outcome selects the admissible one */
		int okT = expT == EXP_UNJUDGED || expT == observed, okR = expR == EXP_UNJUDGED || expR == observed;
		if (!okT) G.aliveT = 0;
		if (!okR) G.aliveR = 0;
		if (!G.aliveT && !G.aliveR) {
			RV("forget-no-admissible-refinement", "handshake kind agrees with neither reading of forget");
			goto out;
		}
		exp = observed;
	}
	if (exp == EXP_UNJUDGED) {
		n_unjudged ++;
	} else {
		n_cmp_kind ++;
		if (exp == EXP_ABBR && observed == EXP_FULL) {
			RV("full-where-abbreviated-expected", "full handshake although the ID was offered, the cache holds it and suite and version are acceptable to both sides");
			goto out;
		}
		if (exp == EXP_FULL && observed == EXP_ABBR) {
			char k[120], what[200];
			snprintf(k, sizeof k, "abbreviated-%s", why);
			snprintf(what, sizeof what, "abbreviated handshake although: %s (remembered suite %04x version %04x)",
				why, rem ? rem->suite : 0, rem ? rem->version : 0);
			RV(k, what);
			goto out;
		}
	}

	if (observed == EXP_ABBR) {
		n_abbr ++;
		vf_stat("abbreviated_checked", 1);
		if (rem != NULL) {
			n_cmp_ms ++;
			if (memcmp(pc.master_secret, rem->ms, 48) != 0 || memcmp(ps.master_secret, rem->ms, 48) != 0) {
				RV("master-secret-differs", "resumed session does not use the remembered master secret on both sides");
			}
			if (pc.version != rem->version || ps.version != rem->version || rm->version != rem->version
				|| pc.cipher_suite != rem->suite || ps.cipher_suite != rem->suite || rm->suite != rem->suite)
			{
				RV("params-differ", "resumed session uses another version or suite than remembered");
			}
			if (pc.session_id_len != 32 || memcmp(pc.session_id, rem->id, 32) != 0
				|| ps.session_id_len != 32 || memcmp(ps.session_id, rem->id, 32) != 0)
			{
				RV("session-id-differs", "resumed session reports another session ID than offered");
			}
			ret = mid;
		}
		{
			int bad = 0;
			static const unsigned char want_c[2] = { 1, 20 }, want_s[2] = { 2, 20 };
			if (rm->n_hs[0] != 2 || memcmp(rm->hs_types[0], want_c, 2) != 0) bad = 1;
			if (rm->n_hs[1] != 2 || memcmp(rm->hs_types[1], want_s, 2) != 0) bad = 1;
			if (bad) RV("abbreviated-extra-messages", "abbreviated handshake carries other messages than hello and Finished");
		}
	} else {
		n_full ++;
		vf_stat("full_checked", 1);
		if (G.P.c.xw->n_end_chain != e_before + 1 || G.P.c.xw->last_verdict != 0) {
			RV("full-validator-not-consulted", "full handshake completed without exactly one accepted end_chain");
		}
		if (ps.session_id_len != 32) {
			RV("full-session-id-length", "server session ID after a full handshake is not 32 bytes");
		} else if (offer_len == 32 && memcmp(ps.session_id, offer_id, 32) == 0) {
			RV("full-handshake-reused-id", "full handshake kept the session ID the client offered");
		}
		for (i = 0; i < G.nknown; i ++) {
			if (memcmp(G.known[i].ms, ps.master_secret, 48) == 0) {
				RV("full-handshake-same-master", "full handshake produced a master secret already used by an earlier session");
			}
		}
		if (ps.session_id_len == 32 && G.nknown < 64) {
			sess_rec *k = &G.known[G.nknown];
			memcpy(k->id, ps.session_id, 32);
			k->version = ps.version; k->suite = ps.cipher_suite;
			memcpy(k->ms, ps.master_secret, 48);
			ret = G.nknown;
			if (G.cache_on) {
				/* the server saves the session at the end of a full handshake */
				lm_save(&G.mT, G.nknown, (uint32_t)G.nknown);
				lm_save(&G.mR, G.nknown, (uint32_t)G.nknown);
				n_model_saves ++;
			}
			G.nknown ++;
		}
	}
	tp_compare_params(&G.P, 0, 0);

	/* fresh randoms and keys */
	memcpy(G.crs[si], rm->client_random, 32);
	memcpy(G.srs[si], rm->server_random, 32);
	G.fplen[si][0] = first_protected(0, G.fp[si][0], sizeof G.fp[si][0]);
	G.fplen[si][1] = first_protected(1, G.fp[si][1], sizeof G.fp[si][1]);
	if (G.fplen[si][0] == 0 || G.fplen[si][1] == 0) {
		RV("no-protected-record", "no record follows the ChangeCipherSpec on the wire");
	}
	for (i = 0; i < si; i ++) {
		int d;
		n_cmp_rand ++;
		if (memcmp(G.crs[i], G.crs[si], 32) == 0) RV("random-reused", "client random equals that of an earlier connection");
		if (memcmp(G.srs[i], G.srs[si], 32) == 0) RV("random-reused", "server random equals that of an earlier connection");
		for (d = 0; d < 2; d ++) {
			n_cmp_first ++;
			if (G.fplen[i][d] == G.fplen[si][d] && G.fplen[si][d] > 0
				&& memcmp(G.fp[i][d], G.fp[si][d], G.fplen[si][d]) == 0)
			{
				RV("first-protected-record-repeats", "first protected record equals that of an earlier connection");
			}
		}
	}
	G.nsess ++;

	/* data phase and close */
	c_total = vf_below(&G.r, 4) == 0 ? 0 : 1 + vf_below(&G.r, 700);
	s_total = vf_below(&G.r, 4) == 0 ? 0 : 1 + vf_below(&G.r, 700);
	if (!tp_run_data(&G.P, c_total, s_total, TP_W_MIXED, 4000000)) {
		RV("data-stalled", "application data did not flow after the handshake");
		goto out;
	}
	if (!tp_run_close(&G.P, (int)vf_below(&G.r, 3), 1000000)
		|| br_ssl_engine_last_error(G.P.c.eng) != 0 || br_ssl_engine_last_error(G.P.s.eng) != 0)
	{
		RV("close-not-clean", "orderly close failed");
	}
	if (G.P.c.rx_done != s_total || G.P.s.rx_done != c_total) {
		RV("stream-length", "bytes read differ from bytes written");
	}
	if (tm_verdict(&G.pm.m, 1, c_total, s_total)) n_data ++;
	vf_stat("records_decoded", rm->n_records[0] + rm->n_records[1]);
	vf_distinct("resume_config", "v%d/k%d/%04x/%04x/c%d/%s", G.var, G.keykind, ps.cipher_suite, ps.version,
		G.cache_on ? G.cap : -1, observed == EXP_ABBR ? "abbr" : "full");
out:
	rm_free(&G.pm.m.rm);
	if (G.P.c.eng && G.P.s.eng && (!tp_ep_closed(&G.P.c) || !tp_ep_closed(&G.P.s))) {
		/* leave both engines closed before the contexts are re-used */
		tp_run_close(&G.P, 2, 100000);
	}
	G.cl[j] = G.P.c;
	memset(&G.P.c, 0, sizeof G.P.c);
	return ret;
}

/* ------------------------------------------------------------------ */
/* the entry of a session ID inside the server's store (layout of src/ssl/ssl_lru.c: masked ID 32, master secret 48,
   version 2, suite 2, links 16; the ID is masked with HMAC(index_key) over its first bytes) */

static long
store_find(const unsigned char *id)
{
	br_hmac_key_context kc;
	br_hmac_context hc;
	unsigned char mid[32];
	size_t off;
	if (!G.cache_on || !G.lru->init_done) return -1;
	memcpy(mid, id, 32);
	br_hmac_key_init(&kc, G.lru->hash, G.lru->index_key, sizeof G.lru->index_key);
	br_hmac_init(&hc, &kc, 32);
	br_hmac_update(&hc, id, 32);
	br_hmac_out(&hc, mid);
	for (off = 0; off + 100 <= G.lru->store_ptr && off + 100 <= G.store_len; off += 100) {
		if (memcmp(G.store + off, mid, 32) == 0) return (long)off;
	}
	return -1;
}

/* a suite other than `not_this` that both lists hold (the lists always share two suites usable at every version) */
static unsigned
common_suite(const side_cfg *C, const side_cfg *S, unsigned not_this, unsigned version)
{
	uint16_t cand[16];
	size_t n = 0, i;
	for (i = 0; i < C->ncs; i ++) {
		const tp_suite_info *si = tp_suite_find(C->cs[i]);
		if (C->cs[i] == not_this || !in_list(S, C->cs[i])) continue;
		if (si && si->tls12only && version < 0x0303 && vf_below(&G.r, 4) != 0) continue;   /* mostly suites the version allows */
		cand[n ++] = C->cs[i];
	}
	if (n == 0) return 0;
	return cand[vf_below(&G.r, (uint32_t)n)];
}

/* another version than `not_this` inside both ranges, or 0 */
static unsigned
common_version(const side_cfg *C, const side_cfg *S, unsigned not_this)
{
	unsigned lo = C->vmin > S->vmin ? C->vmin : S->vmin, hi = C->vmax < S->vmax ? C->vmax : S->vmax, v, cand[4], n = 0;
	for (v = lo; v <= hi; v ++) if (v != not_this) cand[n ++] = v;
	return n ? cand[vf_below(&G.r, n)] : 0;
}

/* has the client's ChangeCipherSpec record entered the transport */
static int
client_ccs_on_wire(void)
{
	const unsigned char *a = G.raw[0];
	size_t al = G.raw_len[0], off = 0;
	while (off + 5 <= al) {
		if (a[off] == 20) return 1;
		off += 5 + (((size_t)a[off + 3] << 8) | a[off + 4]);
	}
	return off < al && a[off] == 20;
}

/*
 * A full handshake of client j that never completes: the transport stops before the client's Finished reaches the
 * server (cut 0: everything from the client's ChangeCipherSpec on is lost; 1: ClientKeyExchange and ChangeCipherSpec
 * arrive, the Finished is never sent; 2: the Finished arrives short of its last bytes). The connection is then
 * abandoned (no close; the server context is reset for the next connection, the client context is released).
 * The server must not have stored that session: a lookup of its ID fails and the cache model is unchanged.
 */
static void
run_aborted(int j, const side_cfg *C, const side_cfg *S, const char *label)
{
	tp_cfg cc, sv;
	prep none;
	size_t sl = strlen(G.steps);
	int cut = (int)vf_below(&G.r, 3);
	long n = 0;
	br_ssl_session_parameters ps, *pp;

	memset(&none, 0, sizeof none);
	snprintf(G.steps + sl, sizeof G.steps - sl, " %s%d(c%d)", label, cut, j);
	snprintf(tp_case, sizeof tp_case, "seed=%lld idx=%ld var=%d key=%d store_len=%zu cache=%d steps=%s | C{v%04x-%04x n=%zu first=%04x} S{v%04x-%04x n=%zu first=%04x}",
		G.seed, G.idx, G.var, G.keykind, G.store_len, G.cache_on, G.steps,
		C->vmin, C->vmax, C->ncs, C->cs[0], S->vmin, S->vmax, S->ncs, S->cs[0]);
	mk_cfg(&cc, 0, C);
	mk_cfg(&sv, 1, S);
	cc.resume = 0; cc.reuse_ctx = 1;
	cc.pre_reset = client_pre_reset; cc.pre_reset_arg = &none;
	sv.reuse_ctx = 1;
	G.P.c = G.cl[j];
	memset(&G.cl[j], 0, sizeof G.cl[j]);
	G.P.c2s.rd = G.P.c2s.wr = 0; G.P.s2c.rd = G.P.s2c.wr = 0;
	G.raw_len[0] = G.raw_len[1] = 0;
	tm_pair_attach(&G.pm, &G.P);
	G.P.tap = tap; G.P.tap_arg = NULL;
	if (!tp_ep_start(&G.P.c, &cc) || !tp_ep_start(&G.P.s, &sv)) {
		RV("reset-failed", "reset returned 0 with a valid configuration");
		goto out;
	}
	G.P.c.tx_key = G.pm.m.key[0] = vf_u64(&G.r);
	G.P.s.tx_key = G.pm.m.key[1] = vf_u64(&G.r);
	G.P.c.rx_key = G.pm.m.key[1]; G.P.s.rx_key = G.pm.m.key[0];
	while (n < 2000000 && !client_ccs_on_wire()) {
		if (!tp_pump_step(&G.P)) break;
		n ++;
	}
	n_sessions ++;
	vf_stat("cases", 1);
	if (!client_ccs_on_wire() || tp_ep_ready(&G.P.s) || tp_ep_closed(&G.P.s) || tp_ep_closed(&G.P.c)) {
		/* did not get that far (not expected with lists that share a suite) */
		n_aborted_early ++;
		RV("handshake-failed", "full handshake stopped before the client's ChangeCipherSpec");
		goto out;
	}
	if (cut == 0) {
		G.P.c2s.rd = G.P.c2s.wr = 0;
	} else {
		size_t keep = 0, len;
		if (cut == 2) {
			/* the client emits the rest of its flight; all but the last 1..12 bytes reach the server */
			while (br_ssl_engine_current_state(G.P.c.eng) & BR_SSL_SENDREC) {
				br_ssl_engine_sendrec_buf(G.P.c.eng, &len);
				tp_act_sendrec(&G.P.c, &G.P.c2s, len);
			}
			keep = 1 + vf_below(&G.r, 12);
		}
		while (tp_fifo_len(&G.P.c2s) > keep && (br_ssl_engine_current_state(G.P.s.eng) & BR_SSL_RECVREC)) {
			br_ssl_engine_recvrec_buf(G.P.s.eng, &len);
			if (len > tp_fifo_len(&G.P.c2s) - keep) len = tp_fifo_len(&G.P.c2s) - keep;
			tp_act_recvrec(&G.P.s, &G.P.c2s, tp_chunk(&G.P.rng, G.P.chunk_policy, len));
		}
	}
	n_aborted ++;
	n_aborted_cut[cut] ++;
	if (tp_ep_ready(&G.P.s)) {
		RV("server-ready-without-client-finished", "server engine offers application data although the client's Finished never arrived");
		goto out;
	}
	/* the ID the server chose for that session */
	br_ssl_engine_get_session_parameters(G.P.s.eng, &ps);
	if (ps.session_id_len == 32 && G.cache_on) {
		int r;
		pp = vf_dup(&ps, sizeof ps);
		pp->version = 0xAAAA; pp->cipher_suite = 0xBBBB;
		memset(pp->master_secret, 0x5C, 48);
		r = G.lru->vtable->load(&G.lru->vtable, G.P.s.sc, pp);
		n_aborted_lookup ++;
		if (r != 0 || store_find(ps.session_id) >= 0) {
			RV("aborted-handshake-session-cached", "the cache holds the session of a handshake whose client Finished never arrived");
		}
		free(pp);
	}
out:
	rm_free(&G.pm.m.rm);
	/* abandoned as it is: no close_notify, nothing more delivered */
	G.cl[j] = G.P.c;
	memset(&G.P.c, 0, sizeof G.P.c);
	tp_ep_free(&G.cl[j]);
}

/* ------------------------------------------------------------------ */
/* scenario */

static void
pick_lists(side_cfg *C, side_cfg *S, uint16_t *anchors)
{
	uint16_t pool[48], anyv[16];
	size_t np = 0, na = 0, i;
	for (i = 0; i < TP_NSUITES; i ++) {
		if (!tp_suite_fits_key(&tp_suites[i], G.keykind)) continue;
		pool[np ++] = tp_suites[i].id;
		if (!tp_suites[i].tls12only) anyv[na ++] = tp_suites[i].id;
	}
	/* two suites usable at every version, present in every list: a full handshake is always possible */
	anchors[0] = anyv[vf_below(&G.r, (uint32_t)na)];
	do { anchors[1] = anyv[vf_below(&G.r, (uint32_t)na)]; } while (anchors[1] == anchors[0]);
	for (i = 0; i < 2; i ++) {
		side_cfg *L = i ? S : C;
		size_t extra = vf_below(&G.r, 5), k, pos;
		L->ncs = 0;
		for (k = 0; k < extra; k ++) {
			uint16_t s = pool[vf_below(&G.r, (uint32_t)np)];
			if (s != anchors[0] && s != anchors[1] && !in_list(L, s)) L->cs[L->ncs ++] = s;
		}
		/* anchors at random positions */
		for (k = 0; k < 2; k ++) {
			pos = vf_below(&G.r, (uint32_t)L->ncs + 1);
			memmove(L->cs + pos + 1, L->cs + pos, (L->ncs - pos) * sizeof L->cs[0]);
			L->cs[pos] = anchors[k];
			L->ncs ++;
		}
	}
}

static void
drop_suite(side_cfg *L, unsigned suite)
{
	size_t i, j = 0;
	for (i = 0; i < L->ncs; i ++) if (L->cs[i] != suite) L->cs[j ++] = L->cs[i];
	L->ncs = j;
}

static void
shuffle(side_cfg *L)
{
	size_t i;
	for (i = L->ncs; i > 1; i --) {
		size_t k = vf_below(&G.r, (uint32_t)i);
		uint16_t t = L->cs[i - 1]; L->cs[i - 1] = L->cs[k]; L->cs[k] = t;
	}
}

/* one more suite that fits the server key, if the list does not have it yet */
static void
add_extra(side_cfg *L)
{
	size_t i, start = vf_below(&G.r, (uint32_t)TP_NSUITES);
	for (i = 0; i < TP_NSUITES; i ++) {
		const tp_suite_info *s = &tp_suites[(start + i) % TP_NSUITES];
		if (tp_suite_fits_key(s, G.keykind) && !in_list(L, s->id)) { L->cs[L->ncs ++] = s->id; return; }
	}
}

static void
cache_setup(int cap, int rem, int on)
{
	G.cap = cap;
	G.store_len = (size_t)cap * 100 + (size_t)rem;
	G.cache_on = on;
	if (G.store_len == 0) { G.blk = malloc(8); G.store = G.blk + 8; }
	else { G.blk = malloc(G.store_len); G.store = G.blk; memset(G.store, 0xDD, G.store_len); }
	G.lru = malloc(sizeof *G.lru);
	br_ssl_session_cache_lru_init(G.lru, G.store, G.store_len);
	lm_init(&G.mT, cap, LM_TOMB);
	lm_init(&G.mR, cap, LM_REMOVE);
	G.aliveT = G.aliveR = 1;
}

#define NVAR 29

static void
scenario(long long seed, long idx)
{
	side_cfg C1, S1, C2, S2;
	uint16_t anchors[2];
	prep none, pr;
	int var = (int)(idx % NVAR), a, cap, rem, on = 1, i;
	const sess_rec *A;
	static const int rems[3] = { 0, 1, 99 };

	memset(&G.P, 0, sizeof G.P);
	tp_pair_init(&G.P, (uint64_t)seed, (uint64_t)idx * 11 + 5, (int)(idx % 5));
	vf_rng_init(&G.r, (uint64_t)seed, 0x3000000 + (uint64_t)idx);
	G.seed = seed; G.idx = idx; G.var = var;
	G.nknown = 0; G.nsess = 0; G.steps[0] = 0; G.mismatch = 0;
	memset(&none, 0, sizeof none);
	memset(&pr, 0, sizeof pr);
	{
		static const int kk[3] = { TP_KEY_RSA, TP_KEY_ECEC, TP_KEY_ECRSA };
		G.keykind = kk[vf_below(&G.r, 3)];
	}
	cap = (int)vf_range(&G.r, 1, 4);
	rem = rems[vf_below(&G.r, 3)];
	if (var == 13) {
		/* capacity 0 (any length below 100), or no cache at all */
		cap = 0; rem = (int)vf_below(&G.r, 100);
		on = vf_below(&G.r, 4) != 0;
	}
	if (var == 16 || var == 22) cap = 2;
	if (var == 28) cap = (int)vf_range(&G.r, 1, 2);
	cache_setup(cap, rem, on);
	pick_lists(&C1, &S1, anchors);
	C1.vmin = S1.vmin = 0x0301;
	C1.vmax = 0x0301 + vf_below(&G.r, 3);
	S1.vmax = 0x0301 + vf_below(&G.r, 3);
	if (var == 5 || (var == 6 && vf_below(&G.r, 2)) || var == 25 || var == 27) {
		/* these need a first version above TLS 1.0 */
		if (C1.vmax < 0x0302) C1.vmax = 0x0302 + vf_below(&G.r, 2);
		if (S1.vmax < 0x0302) S1.vmax = 0x0302 + vf_below(&G.r, 2);
	}
	if (var == 21) { C1.vmax = 0x0301 + vf_below(&G.r, 2); }
	C2 = C1; S2 = S1;

	/* first connection: client 0, full handshake */
	a = run_session(0, &C1, &S1, vf_below(&G.r, 2), &none, NULL, 0, 0, 0, "first");
	if (a < 0) goto done;
	A = &G.known[a];

	switch (var) {
	case 0:
		run_session(0, &C2, &S2, 1, &none, A->id, 32, 0, 0, "resume");
		break;
	case 1:   /* remembered suite no longer in the client's list */
		drop_suite(&C2, A->suite);
		run_session(0, &C2, &S2, 1, &none, A->id, 32, 0, 0, "resume-client-dropped-suite");
		break;
	case 2:   /* client list reordered and extended, suite still there */
		shuffle(&C2);
		add_extra(&C2);
		run_session(0, &C2, &S2, 1, &none, A->id, 32, 0, 0, "resume-client-reordered");
		break;
	case 3:   /* remembered suite no longer in the server's list */
		drop_suite(&S2, A->suite);
		run_session(0, &C2, &S2, 1, &none, A->id, 32, 0, 0, "resume-server-dropped-suite");
		break;
	case 4:
		shuffle(&S2);
		add_extra(&S2);
		run_session(0, &C2, &S2, 1, &none, A->id, 32, 0, 0, "resume-server-reordered");
		break;
	case 5:   /* client maximum now below the remembered version */
		C2.vmax = A->version - 1;
		run_session(0, &C2, &S2, 1, &none, A->id, 32, 0, 0, "resume-client-max-lowered");
		break;
	case 6:   /* server range no longer contains the remembered version */
		if (A->version >= 0x0302 && (A->version == 0x0303 || vf_below(&G.r, 2))) {
			S2.vmax = A->version - 1;
		} else {
			S2.vmin = A->version + 1; S2.vmax = 0x0303; C2.vmax = 0x0303;
		}
		run_session(0, &C2, &S2, 1, &none, A->id, 32, 0, 0, "resume-server-range-moved");
		break;
	case 7:   /* ranges changed but still containing the remembered version */
		switch (vf_below(&G.r, 4)) {
		case 0: C2.vmax = A->version; break;
		case 1: S2.vmin = A->version; S2.vmax = 0x0303; break;
		case 2: C2.vmin = A->version; C2.vmax = 0x0303; break;
		default: S2.vmax = A->version; S2.vmin = A->version; break;
		}
		run_session(0, &C2, &S2, 1, &none, A->id, 32, 0, 0, "resume-ranges-changed");
		break;
	case 8:   /* cache flushed */
		br_ssl_session_cache_lru_init(G.lru, G.store, G.store_len);
		lm_init(&G.mT, cap, LM_TOMB); lm_init(&G.mR, cap, LM_REMOVE);
		run_session(0, &C2, &S2, 1, &none, A->id, 32, 0, 0, "resume-after-flush");
		break;
	case 9: { /* entry forgotten */
		unsigned char *idp = vf_dup(A->id, 32);
		br_ssl_session_cache_lru_forget(G.lru, idp);
		free(idp);
		lm_forget(&G.mT, a); lm_forget(&G.mR, a);
		run_session(0, &C2, &S2, 1, &none, A->id, 32, 0, 0, "resume-after-forget");
		break;
	}
	case 10: { /* k other sessions in between */
		int k = (int)vf_below(&G.r, (uint32_t)cap + 2);
		for (i = 0; i < k; i ++) {
			memset(&G.cl[1], 0, sizeof G.cl[1]);
			run_session(1, &C1, &S1, 0, &none, NULL, 0, 0, 0, "other");
			tp_ep_free(&G.cl[1]);
		}
		run_session(0, &C2, &S2, 1, &none, A->id, 32, 0, 0, "resume-after-others");
		break;
	}
	case 11: { /* truncated ID in the client's stored parameters */
		static const unsigned char lens[6] = { 31, 16, 1, 0, 24, 8 };
		br_ssl_engine_get_session_parameters(&G.cl[0].cc->eng, &pr.params);
		pr.params.session_id_len = lens[vf_below(&G.r, 6)];
		pr.set_params = 1;
		run_session(0, &C2, &S2, 1, &pr, A->id, pr.params.session_id_len, 0, 0, "resume-truncated-id");
		break;
	}
	case 12: { /* one bit of the ID flipped */
		unsigned bit = vf_below(&G.r, 256);
		br_ssl_engine_get_session_parameters(&G.cl[0].cc->eng, &pr.params);
		pr.params.session_id[bit >> 3] ^= (unsigned char)(1u << (bit & 7));
		pr.set_params = 1;
		run_session(0, &C2, &S2, 1, &pr, pr.params.session_id, 32, 0, 0, "resume-bitflipped-id");
		break;
	}
	case 13:  /* capacity 0 or no cache */
		run_session(0, &C2, &S2, 1, &none, A->id, 32, 0, 0, "resume-no-capacity");
		break;
	case 14:  /* br_ssl_client_forget_session */
		pr.forget = 1;
		run_session(0, &C2, &S2, 1, &pr, NULL, 0, 0, 0, "resume-after-client-forget");
		break;
	case 15:  /* reset with resume_session = 0 */
		run_session(0, &C2, &S2, 0, &none, NULL, 0, 0, 0, "reset-without-resume");
		break;
	case 16: { /* recency at engine level, capacity 2: A, B, resume A, C evicts B */
		int b;
		const sess_rec *B;
		b = run_session(1, &C1, &S1, 0, &none, NULL, 0, 0, 0, "B-first");
		if (b < 0) break;
		B = &G.known[b];
		run_session(0, &C2, &S2, 1, &none, A->id, 32, 0, 0, "A-resume");
		run_session(2, &C1, &S1, 0, &none, NULL, 0, 0, 0, "C-first");
		if (vf_below(&G.r, 2)) {
			run_session(1, &C2, &S2, 1, &none, B->id, 32, 0, 0, "B-resume");
			run_session(0, &C2, &S2, 1, &none, A->id, 32, 0, 0, "A-resume");
		} else {
			run_session(0, &C2, &S2, 1, &none, A->id, 32, 0, 0, "A-resume");
			run_session(1, &C2, &S2, 1, &none, B->id, 32, 0, 0, "B-resume");
		}
		break;
	}
	case 17:  /* another server context sharing the cache */
		run_session(0, &C2, &S2, 1, &none, A->id, 32, 1, 0, "resume-on-second-server");
		break;
	case 18:  /* another client context given the parameters explicitly */
		br_ssl_engine_get_session_parameters(&G.cl[0].cc->eng, &pr.params);
		pr.set_params = 1;
		run_session(1, &C2, &S2, 1, &pr, A->id, 32, 0, 0, "resume-imported-params");
		break;
	case 19:  /* remembered master secret altered on the client */
		br_ssl_engine_get_session_parameters(&G.cl[0].cc->eng, &pr.params);
		pr.params.master_secret[vf_below(&G.r, 48)] ^= (unsigned char)(1u << vf_below(&G.r, 8));
		pr.set_params = 1;
		run_session(0, &C2, &S2, 1, &pr, A->id, 32, 0, 1, "resume-wrong-master");
		break;
	case 20:  /* resumed repeatedly */
		run_session(0, &C2, &S2, 1, &none, A->id, 32, 0, 0, "resume");
		run_session(0, &C2, &S2, 1, &none, A->id, 32, 0, 0, "resume-again");
		run_session(0, &C2, &S2, 1, &none, A->id, 32, 0, 0, "resume-third");
		break;
	case 21:  /* client minimum raised above the remembered version: outside the stated predicate */
		C2.vmin = A->version + 1; C2.vmax = 0x0303; S2.vmax = 0x0303;
		run_session(0, &C2, &S2, 1, &none, A->id, 32, 0, 0, "resume-client-min-raised");
		break;
	case 22: { /* forget of the most recent entry, then another session: the two readings of forget differ */
		int b;
		unsigned char *idp;
		b = run_session(1, &C1, &S1, 0, &none, NULL, 0, 0, 0, "B-first");
		if (b < 0) break;
		idp = vf_dup(G.known[b].id, 32);
		br_ssl_session_cache_lru_forget(G.lru, idp);
		free(idp);
		lm_forget(&G.mT, b); lm_forget(&G.mR, b);
		run_session(2, &C1, &S1, 0, &none, NULL, 0, 0, 0, "C-first");
		run_session(0, &C2, &S2, 1, &none, A->id, 32, 0, 0, "A-resume");
		run_session(1, &C2, &S2, 1, &none, G.known[b].id, 32, 0, 0, "B-resume-forgotten");
		break;
	}
	case 24:  /* the suite remembered by the server altered inside its store (another suite both sides support) */
	case 25: { /* the version remembered by the server altered inside its store (another version both ranges hold) */
		long off = store_find(A->id);
		unsigned x = var == 24 ? common_suite(&C2, &S2, A->suite, A->version) : common_version(&C2, &S2, A->version);
		if (off < 0) {
			if (G.cache_on && G.cap > 0) RV("saved-session-not-in-store", "no entry with the masked ID of the session just saved is in the store");
			break;
		}
		if (memcmp(G.store + off + 32, A->ms, 48) != 0 || (unsigned)((G.store[off + 80] << 8) | G.store[off + 81]) != A->version
			|| (unsigned)((G.store[off + 82] << 8) | G.store[off + 83]) != A->suite)
		{
			RV("store-entry-differs", "the store entry of the session does not hold its master secret, version and suite");
			break;
		}
		if (x == 0) { run_session(0, &C2, &S2, 1, &none, A->id, 32, 0, 0, "resume"); break; }
		G.store[off + (var == 24 ? 82 : 80)] = (unsigned char)(x >> 8);
		G.store[off + (var == 24 ? 83 : 81)] = (unsigned char)x;
		n_store_tampered ++;
		G.mismatch = 1;
		run_session(0, &C2, &S2, 1, &none, A->id, 32, 0, 0, var == 24 ? "resume-store-suite-altered" : "resume-store-version-altered");
		G.mismatch = 0;
		break;
	}
	case 26:  /* the client is given another suite / version for the session (br_ssl_engine_set_session_parameters) */
	case 27: {
		unsigned x = var == 26 ? common_suite(&C2, &S2, A->suite, A->version) : common_version(&C2, &S2, A->version);
		int other = (int)vf_below(&G.r, 3) == 0;     /* sometimes through another client context */
		if (x == 0) { run_session(0, &C2, &S2, 1, &none, A->id, 32, 0, 0, "resume"); break; }
		br_ssl_engine_get_session_parameters(&G.cl[0].cc->eng, &pr.params);
		if (var == 26) pr.params.cipher_suite = (uint16_t)x; else pr.params.version = (uint16_t)x;
		pr.set_params = 1;
		G.mismatch = 1;
		run_session(other, &C2, &S2, 1, &pr, A->id, 32, 0, 0, var == 26 ? "resume-client-suite-altered" : "resume-client-version-altered");
		G.mismatch = 0;
		break;
	}
	case 28: { /* handshakes of another client that never complete, between "A full" and "A resume", capacity 1..2 */
		int k = 1 + (int)vf_below(&G.r, 3), b = -1;
		if (cap == 2 && vf_below(&G.r, 2)) b = run_session(1, &C1, &S1, 0, &none, NULL, 0, 0, 0, "B-first");
		for (i = 0; i < k; i ++) run_aborted(3, &C1, &S1, "aborted-cut");
		if (b >= 0 && vf_below(&G.r, 2)) run_session(1, &C2, &S2, 1, &none, G.known[b].id, 32, 0, 0, "B-resume");
		run_session(0, &C2, &S2, 1, &none, A->id, 32, 0, 0, "A-resume");
		if (b >= 0) run_session(1, &C2, &S2, 1, &none, G.known[b].id, 32, 0, 0, "B-resume");
		break;
	}
	default: { /* a refused resumption leaves a new session that resumes itself */
		int n;
		drop_suite(&C2, A->suite);
		n = run_session(0, &C2, &S2, 1, &none, A->id, 32, 0, 0, "resume-client-dropped-suite");
		if (n >= 0 && n != a) run_session(0, &C2, &S2, 1, &none, G.known[n].id, 32, 0, 0, "resume-new-session");
		break;
	}
	}
done:
	vf_stat("resume_cases", 1);
	vf_distinct("resume_variation", "%d", var);
	if (idx < 3) {
		vf_sample("{\"part\":\"resume\",\"idx\":%ld,\"variation\":%d,\"key\":%d,\"store_len\":%zu,\"steps\":\"%s\",\"sessions\":%d}",
			idx, var, G.keykind, G.store_len, G.steps, G.nsess);
	}
	for (i = 0; i < NCL; i ++) tp_ep_free(&G.cl[i]);
	tp_pair_free(&G.P);
	free(G.lru); free(G.blk);
	G.lru = NULL; G.blk = G.store = NULL;
}

int
main(int argc, char **argv)
{
	long long seed = vf_argi(argc, argv, "--seed", 1);
	int worker = (int)vf_argi(argc, argv, "--worker", 0);
	int nworkers = (int)vf_argi(argc, argv, "--nworkers", 1);
	long ncases = (long)vf_argi(argc, argv, "--cases", 300);
	long only = (long)vf_argi(argc, argv, "--only", -1);
	long idx;

	tp_prop = "C17";
	for (idx = worker; idx < ncases; idx += nworkers) {
		if (only >= 0 && idx != only) continue;
		scenario(seed, idx);
	}
	free(G.raw[0]); free(G.raw[1]);
	vf_stat("sessions", n_sessions);
	vf_stat("abbreviated_sessions", n_abbr);
	vf_stat("full_sessions", n_full);
	vf_stat("expected_failures", n_failed_expected);
	vf_stat("unjudged_outside_predicate", n_unjudged);
	vf_stat("ambiguous_after_forget", n_ambiguous);
	vf_stat("cmp_handshake_kind", n_cmp_kind);
	vf_stat("cmp_wire_vs_validator", n_wire_agree);
	vf_stat("cmp_master_secret", n_cmp_ms);
	vf_stat("cmp_randoms", n_cmp_rand);
	vf_stat("cmp_first_record", n_cmp_first);
	vf_stat("data_sessions", n_data);
	vf_stat("model_loads", n_model_loads);
	vf_stat("model_saves", n_model_saves);
	vf_stat("mismatch_sessions", n_mismatch);
	vf_stat("mismatch_failed", n_mismatch_failed);
	vf_stat("mismatch_full_handshake", n_mismatch_full);
	vf_stat("mismatch_not_held", n_mismatch_nohit);
	vf_stat("store_entries_tampered", n_store_tampered);
	vf_stat("aborted_handshakes", n_aborted);
	vf_stat("aborted_cut_flight_lost", n_aborted_cut[0]);
	vf_stat("aborted_cut_no_finished", n_aborted_cut[1]);
	vf_stat("aborted_cut_finished_truncated", n_aborted_cut[2]);
	vf_stat("aborted_not_reached", n_aborted_early);
	vf_stat("cmp_aborted_lookup", n_aborted_lookup);
	vf_stat("monitored_calls", tp_calls);
	vf_done();
	return 0;
}
