/* Self-test of the check.py machinery: not registered for any property. */
#include "common.h"
#include "bearssl.h"
int main(int argc, char **argv)
{
	const char *mode = vf_arg(argc, argv, "--mode", "ok");
	vf_rng r;
	int i;
	vf_rng_init(&r, vf_argi(argc, argv, "--seed", 1), vf_argi(argc, argv, "--worker", 0));
	for (i = 0; i < 100; i ++) {
		unsigned char d[32], h[32];
		br_sha256_context sc;
		vf_bytes(&r, d, sizeof d);
		br_sha256_init(&sc); br_sha256_update(&sc, d, sizeof d); br_sha256_out(&sc, h);
		vf_stat("cases", 1);
		vf_distinct("digest", "%s", vf_hexs(h, 8));
	}
	vf_sample("{\"mode\":\"%s\"}", mode);
	if (!strcmp(mode, "viol")) vf_viol("SELF:oracle:demo", "demo violation", "i=%d", 3);
	if (!strcmp(mode, "asan")) {
		unsigned char *p = malloc(10);
		br_sha256_context sc;
		br_sha256_init(&sc); br_sha256_update(&sc, p, 11);
		free(p);
	}
	if (!strcmp(mode, "hang")) for (;;) ;
	vf_done();
	return 0;
}
